/-!
# The group action on geometric images: model of the code and spec

Model of `functional_geometric_image.py: get_rotated_keys, hash, times_group_element` (and through it
`GeometricImage.times_group_element`, `MultiImage.times_group_element`).  Core Lean only: this file is
compiled into the correspondence driver.

* a pixel position is `Fin d → Int`, a tensor multi-index is a `List (Fin d)` whose length is the
  tensor order;
* a group element is the `d × d` integer matrix the code receives (`Mat d`);
* half-integer centres are handled in *doubled* integer coordinates.
-/
namespace GinjaxVerif

/-- `Σ_{i : Fin n} f i`, by recursion on `n` (bridged to `∑` in the proofs). -/
def sumFin {R : Type} [Zero R] [Add R] : (n : Nat) → (Fin n → R) → R
  | 0, _ => 0
  | n + 1, f => f 0 + sumFin n (fun i => f i.succ)

/-- `Π_{i : Fin n} f i` -/
def prodFin {R : Type} [One R] [Mul R] : (n : Nat) → (Fin n → R) → R
  | 0, _ => 1
  | n + 1, f => f 0 * prodFin n (fun i => f i.succ)

abbrev Mat (d : Nat) := Fin d → Fin d → Int

def Mat.one (d : Nat) : Mat d := fun i j => if i = j then 1 else 0
def Mat.mul {d : Nat} (A B : Mat d) : Mat d := fun i j => sumFin d (fun k => A i k * B k j)
def Mat.transpose {d : Nat} (A : Mat d) : Mat d := fun i j => A j i

/-- the order embedding `Fin n → Fin (n+1)` that skips `j` (Mathlib's `Fin.succAbove`) -/
def skipAbove {n : Nat} (j : Fin (n + 1)) (b : Fin n) : Fin (n + 1) :=
  if b.castSucc < j then b.castSucc else b.succ

/-- integer determinant by Laplace expansion along the first row (the code's `slogdet` sign: for
the matrices of interest the determinant is `±1`). -/
def det : {n : Nat} → (Fin n → Fin n → Int) → Int
  | 0, _ => 1
  | n + 1, M =>
    sumFin (n + 1) (fun j =>
      (if j.val % 2 = 0 then 1 else -1) * M 0 j *
        det (n := n) (fun a b => M a.succ (skipAbove j b)))

/-- A geometric image: spatial extents, tensor order, and the value at (pixel, tensor index).
`val` is only meaningful for pixels inside the box and index lists of length `k`. -/
structure Img (R : Type) (d : Nat) where
  dims : Fin d → Nat
  k : Nat
  val : (Fin d → Int) → List (Fin d) → R

def InBox {d : Nat} (N : Fin d → Nat) (y : Fin d → Int) : Prop := ∀ i, 0 ≤ y i ∧ y i < (N i : Int)

/-- Extensional equality of images on their box and on index lists of the right length. -/
def Img.Equiv {R : Type} {d : Nat} (A B : Img R d) : Prop :=
  A.dims = B.dims ∧ A.k = B.k ∧
    ∀ y, InBox A.dims y → ∀ n : List (Fin d), n.length = A.k → A.val y n = B.val y n

/-- The einsum of `times_group_element`: `Σ_j Π_i M[n_i][j_i] · v[j]` (`j` ranging over index lists
of the same length as `n`). -/
def tactL {R : Type} [Zero R] [Add R] [Mul R] [IntCast R] {d : Nat} (M : Mat d) :
    List (Fin d) → (List (Fin d) → R) → R
  | [], v => v []
  | m :: n, v => sumFin d (fun a => ((M m a : Int) : R) * tactL M n (fun j => v (a :: j)))

/-- `rotated_spatial_dims = |gg @ spatial_dims|` -/
def rotDims {d : Nat} (M : Mat d) (dims : Fin d → Nat) : Fin d → Nat :=
  fun i => (sumFin d (fun j => M i j * (dims j : Int))).natAbs

/-- `np.rint(n / 2)` for an integer numerator `n` (round half to even). -/
def rintHalf (n : Int) : Int :=
  if n % 2 = 0 then n / 2
  else
    let f := (n - 1) / 2   -- floor of n/2
    if f % 2 = 0 then f else f + 1

/-- Doubled source coordinate computed by the repaired `get_rotated_keys`:
`2·((y − c') @ gg + c)` with `c' = (N' − 1)/2` the centre of the rotated box and `c = (N − 1)/2`
the centre of the source box. -/
def src2 {d : Nat} (M : Mat d) (dims : Fin d → Nat) (y : Fin d → Int) : Fin d → Int :=
  fun j => sumFin d (fun i => (2 * y i - ((rotDims M dims i : Int) - 1)) * M i j) + ((dims j : Int) - 1)

/-- Legacy (pre-repair) re-centring `|gg @ c'|` instead of the source centre (defect D1). -/
def src2Legacy {d : Nat} (M : Mat d) (dims : Fin d → Nat) (y : Fin d → Int) : Fin d → Int :=
  fun j => sumFin d (fun i => (2 * y i - ((rotDims M dims i : Int) - 1)) * M i j)
    + (sumFin d (fun i => M j i * ((rotDims M dims i : Int) - 1))).natAbs

/-- `get_rotated_keys` followed by `hash`: `rint`, then remainder modulo the source extents. -/
def rotatedKey {d : Nat} (M : Mat d) (dims : Fin d → Nat) (y : Fin d → Int) : Fin d → Int :=
  fun j => rintHalf (src2 M dims y j) % (dims j : Int)

def rotatedKeyLegacy {d : Nat} (M : Mat d) (dims : Fin d → Nat) (y : Fin d → Int) : Fin d → Int :=
  fun j => rintHalf (src2Legacy M dims y j) % (dims j : Int)

/-- **Model of `times_group_element`** (gather the rotated pixels, einsum with `gg` on every
tensor index, multiply by `sign(det)^parity`). -/
def tge {R : Type} [Zero R] [Add R] [Mul R] [IntCast R] {d : Nat} (M : Mat d) (p : Nat)
    (A : Img R d) : Img R d :=
  { dims := rotDims M A.dims
    k := A.k
    val := fun y n => (((det M) ^ p : Int) : R) * tactL M n (A.val (rotatedKey M A.dims y)) }

def tgeLegacy {R : Type} [Zero R] [Add R] [Mul R] [IntCast R] {d : Nat} (M : Mat d) (p : Nat)
    (A : Img R d) : Img R d :=
  { dims := rotDims M A.dims
    k := A.k
    val := fun y n => (((det M) ^ p : Int) : R) * tactL M n (A.val (rotatedKeyLegacy M A.dims y)) }

/-- **Spec**: the property's formula `(g·A)(y) = det(g)^p · g^{⊗k} A(c + g⁻¹(y − c'))`, the source
pixel computed exactly in doubled coordinates (`2·src = gᵀ(2y − (N'−1)) + (N−1)`, `gᵀ = g⁻¹`). -/
def actSpec {R : Type} [Zero R] [Add R] [Mul R] [IntCast R] {d : Nat} (M : Mat d) (p : Nat)
    (A : Img R d) : Img R d :=
  { dims := rotDims M A.dims
    k := A.k
    val := fun y n =>
      (((det M) ^ p : Int) : R) * tactL M n (A.val (fun j => src2 M A.dims y j / 2)) }

/-- `Σ` over all tensor multi-indices of length `k` -/
def sumIdx {R : Type} [Zero R] [Add R] (d : Nat) : (k : Nat) → (List (Fin d) → R) → R
  | 0, f => f []
  | k + 1, f => sumFin d (fun a => sumIdx d k (fun n => f (a :: n)))

/-- squared Frobenius norm of the pixel at `y` -/
def normSq {R : Type} [Zero R] [Add R] [Mul R] {d : Nat} (A : Img R d) (y : Fin d → Int) : R :=
  sumIdx d A.k (fun n => A.val y n * A.val y n)

/-- per-axis metadata (boundary flags, dilations, paddings) travel with their axes:
`new[i] = old[argmax_j |g[i][j]|]` (first maximum, as `argmax`). -/
def argmaxAbs {d : Nat} (row : Fin d → Int) : Option (Fin d) :=
  let rec go : (n : Nat) → (Fin n → Int) → Option (Fin n × Nat)
    | 0, _ => none
    | n + 1, f =>
      match go n (fun i => f i.succ) with
      | none => some (0, (f 0).natAbs)
      | some (j, b) => if (f 0).natAbs ≥ b then some (0, (f 0).natAbs) else some (j.succ, b)
  (go d row).map (·.1)

def transport {α : Type} {d : Nat} (M : Mat d) (old : Fin d → α) : Fin d → α :=
  fun i => match argmaxAbs (M i) with
    | some j => old j
    | none => old i

/-- decidable check that `M` is a signed permutation matrix: entries in {-1,0,1}, exactly one
non-zero entry per row and per column. -/
def isSignedPerm {d : Nat} (M : Mat d) : Bool :=
  (List.finRange d).all (fun i => (List.finRange d).all (fun j => M i j = 0 || M i j = 1 || M i j = -1)) &&
  (List.finRange d).all (fun i => ((List.finRange d).filter (fun j => M i j != 0)).length == 1) &&
  (List.finRange d).all (fun j => ((List.finRange d).filter (fun i => M i j != 0)).length == 1)

end GinjaxVerif
