import GinjaxVerif.Model.Action
/-!
# C05 — the image algebra: model of `GeometricImage`'s operators and their type bookkeeping

Model of `geometric_image.py: __init__ (parity % 2), __add__, __sub__, __mul__, __rmul__,
times_scalar, transpose, contract, multicontract, levi_civita_contract, norm, convolve_with
(default options)`, of `functional_geometric_image.py: mul, pre_tensor_product_expand,
multicontract, norm` and of `constants.py: permutation_parity, LeviCivitaSymbol`.
Core Lean only (compiled into the correspondence driver).

* `GImg` is the class: data (`Img`, extents + order + values), declared parity, boundary flags.
* `Expr` is the untyped syntax of compositions; `eval` runs the operators without their `assert`s,
  doing the same bookkeeping as the code (`parity + parity`, then `% 2` in the constructor);
  `tyOf` is the static checker: it returns the declared type of the result, `none` as soon as one
  of the code's assertions (or an einsum / `jnp.transpose` shape error) would fire.
* A tensor multi-index is a `List (Fin d)`; the tensor product splits the list (`take`/`drop`),
  transposition permutes it, an einsum contraction fills the contracted positions with the summed
  letters (`fill`).  The value of an image at index lists of the wrong length is irrelevant
  (`Img.val` is only meaningful on lists of length `k`); the operations below are written so that
  they are natural on *all* lists, which lets the proofs use one strong extensional equality.
-/
namespace GinjaxVerif.C05

open GinjaxVerif

/-- a `GeometricImage`: data, declared parity, `is_torus` (D is the type index `d`) -/
structure GImg (R : Type) (d : Nat) where
  img : Img R d
  p : Nat
  torus : Fin d → Bool

/-- the constructor: `self.parity = parity % 2` -/
def GImg.mk' {R : Type} {d : Nat} (img : Img R d) (parity : Nat) (torus : Fin d → Bool) :
    GImg R d := ⟨img, parity % 2, torus⟩

/-- declared type of an image: extents, tensor order, parity, boundary flags -/
structure Ty (d : Nat) where
  dims : Fin d → Nat
  k : Nat
  p : Nat
  torus : Fin d → Bool

def GImg.ty {R : Type} {d : Nat} (G : GImg R d) : Ty d := ⟨G.img.dims, G.img.k, G.p, G.torus⟩

/-- `GeometricImage.times_group_element`: the data by `tge`, parity kept, flags travel with the
axes. -/
def GImg.act {R : Type} [Zero R] [Add R] [Mul R] [IntCast R] {d : Nat} (M : Mat d)
    (G : GImg R d) : GImg R d :=
  ⟨tge M G.p G.img, G.p, transport M G.torus⟩

/-- equality of two `d`-tuples (`spatial_dims == spatial_dims`, `is_torus == is_torus`) -/
def fnEq {α : Type} [DecidableEq α] {d : Nat} (a b : Fin d → α) : Bool :=
  (List.finRange d).all (fun i => decide (a i = b i))

/-! ### fibre operations -/

section Ops
variable {R : Type} {d : Nat}

def addI [Add R] (A B : Img R d) : Img R d :=
  { dims := A.dims, k := A.k, val := fun y n => A.val y n + B.val y n }

def subI [Sub R] (A B : Img R d) : Img R d :=
  { dims := A.dims, k := A.k, val := fun y n => A.val y n - B.val y n }

/-- `self.data * other` for a number `other` -/
def smulI [Mul R] (c : R) (A : Img R d) : Img R d :=
  { dims := A.dims, k := A.k, val := fun y n => A.val y n * c }

/-- `mul`: pixel-wise tensor product, the indices of the left operand first
(`pre_tensor_product_expand` broadcasts `a` over the trailing and `b` over the leading block). -/
def mulI [Mul R] (A B : Img R d) : Img R d :=
  { dims := A.dims, k := A.k + B.k
    val := fun y n => A.val y (n.take A.k) * B.val y (n.drop A.k) }

/-- source index list of `jnp.transpose(data, π)`: `out[t] = in[u]` with `u[π[m]] = t[m]`, i.e.
`u[j] = t[π.index(j)]` -/
def unperm {α : Type} (π : List Nat) (t : List α) : List α :=
  (List.range π.length).filterMap (fun j => t[π.idxOf j]?) ++ t.drop π.length

def transposeI (π : List Nat) (A : Img R d) : Img R d :=
  { dims := A.dims, k := A.k, val := fun y n => A.val y (unperm π n) }

/-- the axes permutation that swaps a leading block of `kB` with a trailing block of `kA` indices:
`transpose(B*A, blockSwap kA kB)` has the `A`-indices first -/
def blockSwap (kA kB : Nat) : List Nat := (List.range kA).map (· + kB) ++ List.range kB

/-- `jnp.transpose` accepts exactly the permutations of `range k` -/
def isPermOfRange (π : List Nat) (k : Nat) : Bool :=
  π.length == k && (List.range k).all (fun j => π.contains j)

/-- the index list an einsum reads: positions carrying a summed letter take that letter's value,
the other positions take the free indices in order -/
def fill {α : Type} : List (Option α) → List α → List α
  | [], r => r
  | some a :: as, r => a :: fill as r
  | none :: as, x :: r => x :: fill as r
  | none :: as, [] => fill as []

/-- the einsum of `multicontract`: one summed letter per pair, written on both positions of the
pair (`einstr[idx1] = einstr[idx2] = LETTERS[-(i+1)]`), summed over. -/
def mcGo [Zero R] [Add R] (v : List (Fin d) → R) :
    List (Nat × Nat) → List (Option (Fin d)) → List (Fin d) → R
  | [], asg, r => v (fill asg r)
  | (i, j) :: ps, asg, r =>
    sumFin d (fun a => mcGo v ps ((asg.set i (some a)).set j (some a)) r)

def multicontractI [Zero R] [Add R] (pairs : List (Nat × Nat)) (A : Img R d) : Img R d :=
  { dims := A.dims, k := A.k - 2 * pairs.length
    val := fun y r => mcGo (A.val y) pairs (List.replicate A.k none) r }

/-- "all indices must be unique, … less than dimensions" (comment in `multicontract`; otherwise
the einsum string is not a contraction of distinct pairs): `b` marks the positions already
carrying a summed letter. -/
def wfPairs : List (Nat × Nat) → List Bool → Bool
  | [], _ => true
  | (i, j) :: ps, b =>
    (i != j) && (b[i]? == some false) && (b[j]? == some false) &&
      wfPairs ps ((b.set i true).set j true)

/-! ### Levi-Civita symbol, built as `constants.py` builds it -/

def hasDup : List Nat → Bool
  | [] => false
  | x :: xs => xs.contains x || hasDup xs

/-- the inner `while pi[i] != j: i = pi[i]; a[i] = 1` (fuel = length) -/
def walk (pi : List Nat) (j : Nat) : Nat → Nat → List Bool → List Bool
  | 0, _, a => a
  | fuel + 1, i, a =>
    if pi.getD i 0 = j then a else walk pi j fuel (pi.getD i 0) (a.set (pi.getD i 0) true)

/-- the marking loop `for j in range(n): if a[j] == 0: c += 1; …` : final (marks, cycle count) -/
def cycleCount (pi : List Nat) : List Bool × Nat :=
  (List.range pi.length).foldl
    (fun (st : List Bool × Nat) j =>
      if st.1.getD j false then st else (walk pi j pi.length j (st.1.set j true), st.2 + 1))
    (List.replicate pi.length false, 0)

/-- `permutation_parity`: 0 on repeated digits, else `-2·((n − c) % 2) + 1`, `c` the number of
cycles found by the marking loop -/
def permParity (pi : List Nat) : Int :=
  if hasDup pi then 0
  else (-2 : Int) * (((pi.length - (cycleCount pi).2) % 2 : Nat) : Int) + 1

/-- entry of `LeviCivitaSymbol.get(D)` (the array only has entries for `D` indices) -/
def leviCivitaSym (d : Nat) (m : List (Fin d)) : Int :=
  if m.length = d then permParity (m.map (·.val)) else 0

/-- `jnp.tensordot(self.data, levi_civita, axes=0)` -/
def outerLC [Mul R] [IntCast R] (A : Img R d) : Img R d :=
  { dims := A.dims, k := A.k + d
    val := fun y n => A.val y (n.take A.k) * ((leviCivitaSym d (n.drop A.k) : Int) : R) }

/-- `zip(indices, range(k, k + len(indices)))` -/
def lcPairs (k : Nat) (idxs : List Nat) : List (Nat × Nat) :=
  idxs.zip ((List.range idxs.length).map (k + ·))

def leviCivitaI [Zero R] [Add R] [Mul R] [IntCast R] (idxs : List Nat) (A : Img R d) : Img R d :=
  multicontractI (lcPairs A.k idxs) (outerLC A)

/-- pixel-wise Frobenius norm; `sqrtF` is a parameter.  (Scalar image: the value at a non-empty
index list is irrelevant and set to 0.) -/
def normI [Zero R] [Add R] [Mul R] (sqrtF : R → R) (A : Img R d) : Img R d :=
  { dims := A.dims, k := 0
    val := fun y n => match n with
      | [] => sqrtF (normSq A y)
      | _ :: _ => 0 }

/-- squared norm (what the driver reports, so that the comparison stays exact) -/
def normSqI [Zero R] [Add R] [Mul R] (A : Img R d) : Img R d := normI (fun x => x) A

/-! ### convolution with the default options (stride 1, no dilation, padding inferred) -/

def sumBoxL [Zero R] [Add R] : List Nat → (List Int → R) → R
  | [], f => f []
  | m :: ms, f => sumFin m (fun a => sumBoxL ms (fun t => f ((a.val : Int) :: t)))

/-- accessor extended beyond the box: periodic on toroidal axes (`jnp.pad(mode="wrap")`), zero on
the others (zero padding of `conv_general_dilated`) -/
def extVal [Zero R] (tor : Fin d → Bool) (A : Img R d) (z : Fin d → Int) (n : List (Fin d)) : R :=
  if (List.finRange d).all (fun i => tor i || (decide (0 ≤ z i) && decide (z i < (A.dims i : Int))))
  then A.val (fun i => if tor i then z i % (A.dims i : Int) else z i) n
  else 0

/-- `convolve_with(filter)` with default arguments: padding `(M−1)/2` on both sides of every axis
(wrap on toroidal axes, zeros elsewhere), cross-correlation, tensor product of the pixels. -/
def convI [Zero R] [Add R] [Mul R] (tor : Fin d → Bool) (A F : Img R d) : Img R d :=
  { dims := A.dims, k := A.k + F.k
    val := fun y n =>
      sumBoxL ((List.finRange d).map F.dims) (fun a =>
        extVal tor A (fun i => y i + a.getD i.val 0 - (((F.dims i : Int) - 1) / 2)) (n.take A.k)
          * F.val (fun i => a.getD i.val 0) (n.drop A.k)) }

end Ops

/-! ### expressions -/

inductive Expr (R : Type) where
  | leaf (i : Nat)
  | add (a b : Expr R)
  | sub (a b : Expr R)
  | smul (c : R) (a : Expr R)
  | mul (a b : Expr R)
  | transpose (π : List Nat) (a : Expr R)
  | contract (i j : Nat) (a : Expr R)
  | multicontract (pairs : List (Nat × Nat)) (a : Expr R)
  | leviCivita (idxs : List Nat) (a : Expr R)
  | norm (a : Expr R)
  | conv (a : Expr R) (f : Nat)

section Eval
variable {R : Type} {d : Nat}

/-- **static checker**: the declared type of the result, `none` where the code raises. -/
def tyOf (sig : Nat → Ty d) : Expr R → Option (Ty d)
  | .leaf i => some (sig i)
  | .add a b | .sub a b =>
    match tyOf sig a, tyOf sig b with
    | some ta, some tb =>
      if fnEq ta.dims tb.dims && ta.k == tb.k && ta.p == tb.p && fnEq ta.torus tb.torus
      then some ⟨ta.dims, ta.k, ta.p % 2, ta.torus⟩ else none
    | _, _ => none
  | .smul _ a =>
    match tyOf sig a with
    | some ta => some ⟨ta.dims, ta.k, ta.p % 2, ta.torus⟩
    | none => none
  | .mul a b =>
    match tyOf sig a, tyOf sig b with
    | some ta, some tb =>
      if fnEq ta.dims tb.dims && fnEq ta.torus tb.torus
      then some ⟨ta.dims, ta.k + tb.k, (ta.p + tb.p) % 2, ta.torus⟩ else none
    | _, _ => none
  | .transpose π a =>
    match tyOf sig a with
    | some ta => if isPermOfRange π ta.k then some ⟨ta.dims, ta.k, ta.p % 2, ta.torus⟩ else none
    | none => none
  | .contract i j a =>
    match tyOf sig a with
    | some ta =>
      if decide (2 ≤ ta.k) && wfPairs [(i, j)] (List.replicate ta.k false)
      then some ⟨ta.dims, ta.k - 2, ta.p % 2, ta.torus⟩ else none
    | none => none
  | .multicontract pairs a =>
    match tyOf sig a with
    | some ta =>
      if decide (2 ≤ ta.k) && wfPairs pairs (List.replicate ta.k false)
      then some ⟨ta.dims, ta.k - 2 * pairs.length, ta.p % 2, ta.torus⟩ else none
    | none => none
  | .leviCivita idxs a =>
    match tyOf sig a with
    | some ta =>
      if decide (1 < d) && decide (d - 1 ≤ ta.k) && idxs.length == d - 1 &&
          wfPairs (lcPairs ta.k idxs) (List.replicate (ta.k + d) false)
      then some ⟨ta.dims, ta.k + d - 2 * idxs.length, (ta.p + 1) % 2, ta.torus⟩ else none
    | none => none
  | .norm a =>
    match tyOf sig a with
    | some ta => some ⟨ta.dims, 0, 0, ta.torus⟩
    | none => none
  | .conv a f =>
    match tyOf sig a with
    | some ta =>
      if (d == 2 || d == 3) && (List.finRange d).all (fun i => (sig f).dims i % 2 == 1)
      then some ⟨ta.dims, ta.k + (sig f).k, (ta.p + (sig f).p) % 2, ta.torus⟩ else none
    | none => none

/-- **evaluation**: the operators as the code runs them once the assertions have passed.
`tab` materialises intermediate results (identity up to extensional equality), `sqrtF` is the
square root, `convF` the default-option convolution. -/
def eval [Zero R] [Add R] [Sub R] [Mul R] [IntCast R]
    (tab : Img R d → Img R d) (sqrtF : R → R)
    (convF : (Fin d → Bool) → Img R d → Img R d → Img R d)
    (env : Nat → GImg R d) : Expr R → GImg R d
  | .leaf i => env i
  | .add a b =>
    let A := eval tab sqrtF convF env a
    let B := eval tab sqrtF convF env b
    GImg.mk' (tab (addI A.img B.img)) A.p A.torus
  | .sub a b =>
    let A := eval tab sqrtF convF env a
    let B := eval tab sqrtF convF env b
    GImg.mk' (tab (subI A.img B.img)) A.p A.torus
  | .smul c a =>
    let A := eval tab sqrtF convF env a
    GImg.mk' (tab (smulI c A.img)) A.p A.torus
  | .mul a b =>
    let A := eval tab sqrtF convF env a
    let B := eval tab sqrtF convF env b
    GImg.mk' (tab (mulI A.img B.img)) (A.p + B.p) A.torus
  | .transpose π a =>
    let A := eval tab sqrtF convF env a
    GImg.mk' (tab (transposeI π A.img)) A.p A.torus
  | .contract i j a =>
    let A := eval tab sqrtF convF env a
    GImg.mk' (tab (multicontractI [(i, j)] A.img)) A.p A.torus
  | .multicontract pairs a =>
    let A := eval tab sqrtF convF env a
    GImg.mk' (tab (multicontractI pairs A.img)) A.p A.torus
  | .leviCivita idxs a =>
    let A := eval tab sqrtF convF env a
    GImg.mk' (tab (leviCivitaI idxs A.img)) (A.p + 1) A.torus
  | .norm a =>
    let A := eval tab sqrtF convF env a
    GImg.mk' (tab (normI sqrtF A.img)) 0 A.torus
  | .conv a f =>
    let A := eval tab sqrtF convF env a
    let F := env f
    GImg.mk' (tab (convF A.torus A.img F.img)) (A.p + F.p) A.torus

end Eval

end GinjaxVerif.C05
