/-!
# C20 — signature calculus of the models: `ginjax/models.py` (make_conv, ConvBlock, UNet, DilResNet,
ResNet), `ginjax/ml/layers.py` (ConvContract, GroupNorm/LayerNorm, VectorNeuronNonlinear,
MaxNormPool, LayerWrapper) and the re-layouts of `ginjax/geometric/multi_image.py`
(`signature_union`, `to_scalar_multi_image`, `from_scalar_multi_image`, `concat`, `__add__`).

Core Lean only (no Mathlib): this file is compiled into the correspondence driver.

What is modelled is everything that decides the *observable* `(get_signature() in order,
get_spatial_dims(), D, is_torus)` of a model output, layer by layer, following the forward pass
of the code; every function returns `none` where the real code raises (constructor or call).
Values of the blocks are not modelled here (C11, C06, C08 do that).

`ConvContract` is modelled in its **repaired** form (defects D6 and D10 fixed); the behaviour of
the unrepaired code is kept as `legacyConvContractSig` with three counterexample theorems in
`Properties/C20.lean`.

Standing assumption (the `Signature` type of the library in practice): the keys of a signature
are pairwise distinct.  Signatures with repeated keys are outside the model (the driver rejects
them).
-/
namespace GinjaxVerif.C20

/-- an image type `(k, parity)` -/
abbrev Ty := Nat × Nat

/-- `geom.Signature`: `(((k,p), channels), …)` in order -/
abbrev Sig := List (Ty × Nat)

/-- keys of a filter bank (`invariant_filters.keys()`) and the side length `M` of its filters
(banks come from `get_invariant_filters(Ms=[M], …)`; all filters of a bank are `M^D`). -/
structure Bank where
  keys : List Ty
  M : Nat
  deriving DecidableEq, Repr

def keysOf (s : Sig) : List Ty := s.map Prod.fst

/-- `filter_key = (in_k + out_k, (in_p + out_p) % 2)` -/
def filterKey (s t : Ty) : Ty := (s.1 + t.1, (s.2 + t.2) % 2)

/-- `filter_key in self.invariant_filters` -/
def hasFilter (bank : Bank) (s t : Ty) : Bool := bank.keys.contains (filterKey s t)

/-- target type `t` gets a contribution from at least one of the input types `ins` -/
def reachable (bank : Bank) (ins : List Ty) (t : Ty) : Bool := ins.any (fun s => hasFilter bank s t)

/-- **Spec** of the layer's output signature (the sentence of the property): the requested targets
reachable from some input type through a filter type present in the bank, in requested order, with
the requested channel counts. -/
def convContractOut (bank : Bank) (inSig target : Sig) : Sig :=
  target.filter (fun t => reachable bank (keysOf inSig) t.1)

/-! ## ConvContract, as the code computes it -/

/-- the five documented settings of `use_bias` -/
inductive BiasMode where
  | auto | mean | scalar | true_ | false_
  deriving DecidableEq, Repr

/-- `__init__`: `if isinstance(use_bias, bool): use_bias = "auto" if use_bias else use_bias` -/
def normaliseBias : BiasMode → BiasMode
  | .true_ => .auto
  | m => m

/-- `__init__`: `self.weights[s]` = the targets for which the filter type exists, in `target_keys`
order, with their `out_c` -/
def weightsFor (bank : Bank) (target : Sig) (s : Ty) : Sig :=
  target.filter (fun t => hasFilter bank s t.1)

/-- `if (out_k,out_p) in out: out[..] = … + out[..]  else: out.append(…)` -/
def insertNew (acc : Sig) (b : Ty × Nat) : Sig :=
  if acc.any (fun a => a.1 == b.1) then acc else acc ++ [b]

/-- `individual_convolve`: loop over the blocks of the input (dict order), inner loop over
`weights[s].items()`; the output dict is filled in order of first contribution. -/
def individualConvolve (bank : Bank) (target : Sig) (xs : List Ty) : Sig :=
  xs.foldl (fun acc s => (weightsFor bank target s).foldl insertNew acc) []

/-- repaired `__call__` (D10): `{k_p: x[k_p] for k_p, _ in self.target_keys if k_p in x}` -/
def emitInTargetOrder (target produced : Sig) : Sig :=
  target.filterMap (fun t => produced.find? (fun b => b.1 == t.1))

/-- the bias loop of the repaired `__call__` for one block: additive bias, mean-scaled bias, or
(the D6 repair) pass-through.  All three emit the block. -/
def biasBranch (m : BiasMode) (b : Ty × Nat) : Option (Ty × Nat) :=
  if b.1 == (0, 0) && (m == .scalar || m == .auto) then some b
  else if (b.1 != (0, 0) && m == .auto) || m == .mean then some b
  else some b

/-- the bias loop of the unrepaired `__call__`: a block matched by neither branch is not emitted -/
def legacyBiasBranch (m : BiasMode) (b : Ty × Nat) : Option (Ty × Nat) :=
  if b.1 == (0, 0) && (m == .scalar || m == .auto) then some b
  else if (b.1 != (0, 0) && m == .auto) || m == .mean then some b
  else none

/-- `if self.use_bias: …loop… else: return x` with the stored setting `m` -/
def biasOut (branch : BiasMode → Ty × Nat → Option (Ty × Nat)) (m : BiasMode) (sig : Sig) : Sig :=
  match m with
  | .false_ => sig
  | m => sig.filterMap (branch m)

/-- output signature of the repaired `ConvContract.__call__` on an input with block keys `xs` -/
def convContractSig (bank : Bank) (target : Sig) (bias : BiasMode) (xs : List Ty) : Sig :=
  biasOut biasBranch (normaliseBias bias)
    (emitInTargetOrder target (individualConvolve bank target xs))

/-- the unrepaired code: first-contribution order, the *raw* setting stored, no pass-through -/
def legacyConvContractSig (bank : Bank) (target : Sig) (bias : BiasMode) (xs : List Ty) : Sig :=
  biasOut legacyBiasBranch bias (individualConvolve bank target xs)

/-! ## The observable of a MultiImage and the layers acting on it -/

/-- what C20 observes of a `MultiImage`: signature (in dict order), spatial extents of its blocks,
`D`, `is_torus`.  `dims` is the extent bookkeeping of the blocks; the observation
`get_spatial_dims()` is `spatialDims` (an empty MultiImage reports `()`). -/
structure MI where
  sig : Sig
  dims : List Nat
  D : Nat
  torus : List Bool
  deriving DecidableEq, Repr

/-- `MultiImage.get_spatial_dims()` -/
def MI.spatialDims (x : MI) : List Nat := if x.sig.isEmpty then [] else x.dims

/-- stride / literal padding / lhs- and rhs-dilation of a convolution (the models only ever use the
same value on every axis; `padding = none` is the code's `None`, inferred as TORUS or SAME). -/
structure ConvOpts where
  stride : Nat := 1
  padding : Option (Nat × Nat) := none
  lhsDil : Nat := 1
  rhsDil : Nat := 1
  deriving DecidableEq, Repr

/-- output extent of `lax.conv_general_dilated` on one axis -/
def convExtent (N M stride lo hi ld rd : Nat) : Nat :=
  let nd := if N = 0 then 0 else (N - 1) * ld + 1
  let eff := (M - 1) * rd + 1
  if nd + lo + hi < eff then 0 else (nd + lo + hi - eff) / stride + 1

/-- extents after `geom.convolve` with a filter of side `M`.  Inferred padding (`TORUS` on the
toroidal axes, zero `SAME` padding on the others: both `((M-1)//2)*rhs_dilation` per side)
asserts odd side lengths. -/
def convDims (M : Nat) (o : ConvOpts) (dims : List Nat) : Option (List Nat) :=
  match o.padding with
  | none =>
    if M % 2 = 0 then none
    else
      let h := ((M - 1) / 2) * o.rhsDil
      some (dims.map (fun N => convExtent N M o.stride h h o.lhsDil o.rhsDil))
  | some (lo, hi) => some (dims.map (fun N => convExtent N M o.stride lo hi o.lhsDil o.rhsDil))

/-- does input type `s` feed any convolution of the layer -/
def feeds (bank : Bank) (target : Sig) (s : Ty) : Bool := target.any (fun t => hasFilter bank s t.1)

/-- a block of the actual input is accepted by a layer built for `declared`: its key must be
declared (`weights[(in_k,in_p)]`, KeyError otherwise) and, if it feeds a convolution, its channel
count must be the declared one (`convolve` asserts it). -/
def blockOk (bank : Bank) (declared target : Sig) (b : Ty × Nat) : Bool :=
  declared.contains b || ((keysOf declared).contains b.1 && !feeds bank target b.1)

/-- `ml.ConvContract(declared, target, bank, bias, stride, padding, lhs_dilation,
rhs_dilation)(x)` (repaired). -/
def convContract (bank : Bank) (declared target : Sig) (bias : BiasMode) (o : ConvOpts)
    (x : MI) : Option MI :=
  if x.sig.all (blockOk bank declared target) then
    match convDims bank.M o x.dims with
    | none => none
    | some d => some { x with sig := convContractSig bank target bias (keysOf x.sig), dims := d }
  else none

/-- `GroupNorm.__init__` raises NotImplementedError for a declared type with `k > 1` -/
def groupNormAccepts (declared : Sig) : Bool := declared.all (fun b => b.1.1 ≤ 1)

/-- `GroupNorm.__call__`: per block, parameters looked up by key (built for the declared channel
count); signature unchanged. -/
def groupNormCall (declared : Sig) (x : MI) : Option MI :=
  if x.sig.all (fun b => declared.contains b) then some x else none

/-- `VectorNeuronNonlinear.__call__`: scalars go through the activation, every other block needs
its `(in_c, in_c)` weight; signature unchanged. -/
def vnOut (declared : Sig) (x : MI) : Option MI :=
  if x.sig.all (fun b => b.1 == (0, 0) || declared.contains b) then some x else none

/-- `LayerWrapper.__call__`: `self.modules[(k,p)]` per block; signature unchanged -/
def wrapperCall (declared : Sig) (x : MI) : Option MI :=
  if x.sig.all (fun b => (keysOf declared).contains b.1) then some x else none

/-- `MaxNormPool(patch_len)`: `conv_general_dilated_patches` with window = stride = `patch_len`,
no padding: every extent is floor-divided. -/
def poolOut (patch : Nat) (x : MI) : MI := { x with dims := x.dims.map (· / patch) }

/-- `MultiImage.append` on signatures: an existing key is concatenated along the channel axis (at
its position), a new key is added at the end. -/
def appendBlock (sig : Sig) (b : Ty × Nat) : Sig :=
  if sig.any (fun a => a.1 == b.1) then sig.map (fun a => if a.1 == b.1 then (a.1, a.2 + b.2) else a)
  else sig ++ [b]

/-- `a.concat(b)` on signatures -/
def concatSig (a b : Sig) : Sig := b.foldl appendBlock a

/-- `a.concat(b)`: `D` and `is_torus` must agree; concatenating along channels needs equal spatial
extents (checked here whenever both operands have blocks). -/
def concat (a b : MI) : Option MI :=
  if a.D = b.D ∧ a.torus = b.torus then
    if a.sig.isEmpty then some { b with sig := concatSig a.sig b.sig }
    else if b.sig.isEmpty then some a
    else if a.dims = b.dims then some { a with sig := concatSig a.sig b.sig }
    else none
  else none

/-- `a + b` on signatures: the key sets must coincide (the residual has the same blocks); the
result has the layout of `a`. -/
def addSig (a b : Sig) : Option Sig :=
  if a.all (fun x => b.contains x) && b.all (fun x => a.contains x) then some a else none

/-- `x + residual_x` -/
def add (a b : MI) : Option MI :=
  if a.D = b.D ∧ a.torus = b.torus ∧ (a.sig.isEmpty ∨ a.dims = b.dims) then
    match addSig a.sig b.sig with
    | some s => some { a with sig := s }
    | none => none
  else none

/-! ## Conventional mode: flattening of tensor components into scalar channels -/

/-- `sum(c * D**k for (k,_), c in sig)` -/
def scalarSize (D : Nat) (sig : Sig) : Nat := (sig.map (fun b => b.2 * D ^ b.1.1)).sum

/-- `to_scalar_multi_image`: every block is appended to `(0,0)` as `c·D^k` channels -/
def toScalar (x : MI) : MI :=
  { x with sig := x.sig.foldl (fun acc b => appendBlock acc ((0, 0), b.2 * x.D ^ b.1.1)) [] }

/-- `from_scalar_multi_image(layout)`: the input must be exactly one `(0,0)` block; consecutive
slices of `c·D^k` channels are reshaped and appended under their key (every slice must fit). -/
def fromScalar (layout : Sig) (x : MI) : Option MI :=
  match x.sig with
  | [((0, 0), c)] =>
    if scalarSize x.D layout ≤ c then some { x with sig := layout.foldl appendBlock [] } else none
  | _ => none

/-- position (scalar channel index) at which `to_scalar_multi_image` puts component `comp`
(row-major index into the `D^k` tensor components) of channel `ch` of the block with key `key`:
`(c, spatial, tensor) → (spatial, c, tensor) → (spatial, c·D^k)`, blocks concatenated in order. -/
def toScalarPos (D : Nat) : Sig → Ty → Nat → Nat → Option Nat
  | [], _, _, _ => none
  | (t, c) :: rest, key, ch, comp =>
    if t = key then
      if ch < c ∧ comp < D ^ t.1 then some (ch * D ^ t.1 + comp) else none
    else (toScalarPos D rest key ch comp).map (· + c * D ^ t.1)

/-- where `from_scalar_multi_image(layout)` takes scalar channel `pos` to: slice `idx : idx+length`
of the block, reshaped to `(…, num_channels, D, …, D)`. -/
def fromScalarPos (D : Nat) : Sig → Nat → Option (Ty × Nat × Nat)
  | [], _ => none
  | (t, c) :: rest, pos =>
    if pos < c * D ^ t.1 then some (t, pos / D ^ t.1, pos % D ^ t.1)
    else fromScalarPos D rest (pos - c * D ^ t.1)

/-! ## make_conv and ConvBlock -/

/-- the arguments of `ConvBlock(...)`/`make_conv(...)` that matter for the signature calculus -/
structure BlockCfg where
  equivariant : Bool
  D : Nat
  inKeys : Sig
  outKeys : Sig
  bias : BiasMode
  /-- `activation_f is not None` -/
  act : Bool
  bank : Bank
  /-- `kernel_size` (conventional mode): `none`, or the side lengths (an int is `replicate D k`) -/
  kernel : Option (List Nat)
  groupNorm : Bool := false
  preact : Bool := false
  /-- `lhs_dilation is not None`: conventional mode builds a `ConvTranspose` -/
  transpose : Bool := false
  opts : ConvOpts := {}
  deriving Repr

/-- the asserts of the conventional branch of `make_conv` and of `eqx.nn.Conv`'s constructor -/
def conventionalConvOk (c : BlockCfg) : Bool :=
  (match c.kernel with
   | none => false
   | some ks => ks.length == c.D && ks.all (· > 0)) &&
  (match c.inKeys, c.outKeys with
   | [((0, 0), _)], [((0, 0), _)] => true
   | _, _ => false) &&
  (c.bias == .auto || c.bias == .true_ || c.bias == .false_)

/-- constructor-time checks of one `ConvBlock` / `make_conv` -/
def blockBuildOk (c : BlockCfg) : Bool :=
  if c.equivariant then !c.groupNorm || groupNormAccepts c.outKeys
  else conventionalConvOk c

/-- extents after the conventional convolution: `eqx.nn.Conv(padding="SAME")` keeps them
(stride 1), `eqx.nn.ConvTranspose(kernel, stride, "VALID")` gives `(N-1)·stride + (k-1)·dil + 1`. -/
def conventionalDims (c : BlockCfg) (dims : List Nat) : List Nat :=
  if c.transpose then
    match c.kernel with
    | some ks => (dims.zip ks).map (fun (N, k) => (N - 1) * c.opts.stride + (k - 1) * c.opts.rhsDil + 1)
    | none => dims
  else dims.map (fun N => (N + c.opts.stride - 1) / c.opts.stride)

/-- the convolution of the block (`make_conv(...)(x)`) -/
def blockConv (c : BlockCfg) (x : MI) : Option MI :=
  if c.equivariant then convContract c.bank c.inKeys c.outKeys c.bias c.opts x
  else
    -- LayerWrapper(eqx.nn.Conv(in_c, out_c, …), input_keys): the only block must be the declared one
    match c.inKeys, c.outKeys with
    | [((0, 0), ci)], [((0, 0), co)] =>
      if x.sig.all (fun b => b == ((0, 0), ci)) then
        some { x with sig := x.sig.map (fun _ => ((0, 0), co)), dims := conventionalDims c x.dims }
      else none
    | _, _ => none

/-- `self.group_norm(x)` when `use_group_norm` -/
def blockNorm (c : BlockCfg) (x : MI) : Option MI :=
  if c.groupNorm then
    if c.equivariant then groupNormCall c.outKeys x else
      -- LayerWrapper(eqx.nn.GroupNorm(1, out_c), output_keys)
      (wrapperCall c.outKeys x).bind (fun x => if x.sig.all (fun b => c.outKeys.contains b) then some x else none)
  else some x

/-- `self.nonlinearity(x)` (`handle_activation`) -/
def blockNonlin (c : BlockCfg) (x : MI) : Option MI :=
  if c.equivariant then (if c.act then vnOut c.outKeys x else some x)
  else wrapperCall c.outKeys x

/-- `ConvBlock(...)(x)`: conv → norm → nonlinearity, or in pre-activation order -/
def convBlockOut (c : BlockCfg) (x : MI) : Option MI :=
  if blockBuildOk c then
    if c.preact then ((blockNorm c x).bind (blockNonlin c)).bind (blockConv c)
    else ((blockConv c x).bind (blockNorm c)).bind (blockNonlin c)
  else none

/-- a bare `make_conv(...)(x)` (UNet's up-convolution and `decode`) -/
def makeConvOut (c : BlockCfg) (x : MI) : Option MI :=
  if c.equivariant || conventionalConvOk c then blockConv c x else none

/-! ## The three model classes -/

/-- run layers one after the other -/
def chainM : List (MI → Option MI) → MI → Option MI
  | [], x => some x
  | f :: fs, x => (f x).bind (chainM fs)

/-- `for _ in range(n): x = f(x)` -/
def iterM : Nat → (MI → Option MI) → MI → Option MI
  | 0, _, x => some x
  | n + 1, f, x => (f x).bind (iterM n f)

/-- constructor arguments of `UNet` / `ResNet` / `DilResNet`.  `mid` is `mid_keys` as resolved by
the constructor (`signature_union(input_keys, output_keys, depth)` or `(((0,0), depth),)` when
`None` was passed: see `defaultMid`). -/
structure NetCfg where
  D : Nat
  inSig : Sig
  outSig : Sig
  mid : Sig
  depth : Nat
  equivariant : Bool
  bias : BiasMode
  act : Bool
  groupNorm : Bool
  bank : Bank
  kernel : Option (List Nat)
  /-- UNet: `num_downsamples`, `num_conv`, `upsample_filters` -/
  numDown : Nat := 0
  numConv : Nat := 2
  upBank : Bank := ⟨[], 2⟩
  /-- ResNet / DilResNet: `num_blocks`; ResNet: `num_conv` (above), `preactivation_order` -/
  numBlocks : Nat := 0
  preact : Bool := false
  deriving Repr

/-- keys in order of first occurrence -/
def dedupKeys : List Ty → List Ty → List Ty
  | acc, [] => acc
  | acc, t :: ts => if acc.contains t then dedupKeys acc ts else dedupKeys (acc ++ [t]) ts

/-- `geom.signature_union(a, b, c)`: the union of the key sets, each with `c` channels.  The code
iterates a Python `set` (order unspecified); the model fixes first-occurrence order — no theorem
and no observable depends on it (`*_outSig` hold for every order of `mid`). -/
def sigUnion (a b : Sig) (c : Nat) : Sig := (dedupKeys [] (keysOf a ++ keysOf b)).map (fun t => (t, c))

/-- `mid_keys` when the constructor is given `None` -/
def defaultMid (D : Nat) (inSig outSig : Sig) (depth : Nat) (equivariant : Bool) : Sig :=
  let _ := D
  if equivariant then sigUnion inSig outSig depth else [((0, 0), depth)]

/-- `tuple((k_p, c) for k_p, _ in mid_keys)` -/
def midAt (mid : Sig) (c : Nat) : Sig := mid.map (fun b => (b.1, c))

/-- the input/output signatures the layers are built for: in conventional mode both are replaced
by one scalar block holding all components -/
def NetCfg.effIn (c : NetCfg) : Sig :=
  if c.equivariant then c.inSig else [((0, 0), scalarSize c.D c.inSig)]
def NetCfg.effOut (c : NetCfg) : Sig :=
  if c.equivariant then c.outSig else [((0, 0), scalarSize c.D c.outSig)]

/-- a `ConvBlock` of the network with the network-wide settings -/
def NetCfg.block (c : NetCfg) (inK outK : Sig) (kernel : Option (List Nat)) (act : Bool)
    (groupNorm preact : Bool) (opts : ConvOpts := {}) : BlockCfg :=
  { equivariant := c.equivariant, D := c.D, inKeys := inK, outKeys := outK, bias := c.bias,
    act := act, bank := c.bank, kernel := kernel, groupNorm := groupNorm, preact := preact,
    opts := opts }

/-- well-formedness of the call `model(x)`: the model's `D` is the input's, `convolve` asserts
`D ∈ {2,3}`, extents and flags have length `D` -/
def inputOk (c : NetCfg) (x : MI) : Bool :=
  (c.D == 2 || c.D == 3) && x.D == c.D && x.dims.length == c.D && x.torus.length == c.D

/-- first step / last step of every forward pass -/
def NetCfg.enter (c : NetCfg) (x : MI) : MI := if c.equivariant then x else toScalar x
def NetCfg.leave (c : NetCfg) (x : MI) : Option MI :=
  if c.equivariant then some x else fromScalar c.outSig x

/-- kernel size 1 of the encoder/decoder blocks of ResNet and DilResNet (the int `1`) -/
def kernelOne (c : NetCfg) : Option (List Nat) := some (List.replicate c.D 1)

/-- encoder of `ResNet`/`DilResNet`: two blocks, kernel size 1, no group norm -/
def NetCfg.encoder (c : NetCfg) : List (MI → Option MI) :=
  [convBlockOut (c.block c.effIn c.mid (kernelOne c) c.act false false),
   convBlockOut (c.block c.mid c.mid (kernelOne c) c.act false false)]

/-- decoder of `ResNet`/`DilResNet`: the last block has no activation and emits `output_keys` -/
def NetCfg.decoder (c : NetCfg) : List (MI → Option MI) :=
  [convBlockOut (c.block c.mid c.mid (kernelOne c) c.act false false),
   convBlockOut (c.block c.mid c.effOut (kernelOne c) false false false)]

/-- one residual stage: `residual = x.copy(); for layer in block: x = layer(x); x = x + residual` -/
def residualStage (layers : List (MI → Option MI)) (x : MI) : Option MI :=
  (chainM layers x).bind (fun y => add y x)

/-- `ResNet.__call__` -/
def mkResNet (c : NetCfg) (x : MI) : Option MI :=
  if inputOk c x then
    let blk := List.replicate c.numConv
      (convBlockOut (c.block c.mid c.mid c.kernel c.act c.groupNorm c.preact))
    (((chainM c.encoder (c.enter x)).bind (iterM c.numBlocks (residualStage blk))).bind
      (chainM c.decoder)).bind c.leave
  else none

/-- dilation schedule of one `DilResNet` block -/
def dilations : List Nat := [1, 2, 4, 8, 4, 2, 1]

/-- `DilResNet.__call__` -/
def mkDilResNet (c : NetCfg) (x : MI) : Option MI :=
  if inputOk c x then
    let blk := dilations.map (fun d =>
      convBlockOut (c.block c.mid c.mid c.kernel c.act c.groupNorm false { rhsDil := d }))
    (((chainM c.encoder (c.enter x)).bind (iterM c.numBlocks (residualStage blk))).bind
      (chainM c.decoder)).bind c.leave
  else none

/-- `num_conv` blocks `inK → outK, outK → outK, …` of one UNet level (all with the network's
kernel size, group-norm setting and activation) -/
def NetCfg.levelBlocks (c : NetCfg) (inK outK : Sig) : List (MI → Option MI) :=
  (List.range c.numConv).map (fun i =>
    convBlockOut (c.block (if i = 0 then inK else outK) outK c.kernel c.act c.groupNorm false))

/-- the up-convolution of level `u`: equivariant `ConvContract` with `upsample_filters`, padding
`((1,1),)*D`, stride 1, `lhs_dilation = (2,)*D`; conventional `ConvTranspose(kernel 2, stride 2,
"VALID")`. -/
def NetCfg.upConv (c : NetCfg) (u : Nat) : BlockCfg :=
  { equivariant := c.equivariant, D := c.D,
    inKeys := midAt c.mid (c.depth * 2 ^ (u + 1)), outKeys := midAt c.mid (c.depth * 2 ^ u),
    bias := c.bias, act := false, bank := c.upBank,
    kernel := if c.equivariant then none else some (List.replicate c.D 2),
    transpose := true,
    opts := if c.equivariant then { stride := 1, padding := some (1, 1), lhsDil := 2 }
            else { stride := 2, padding := none, lhsDil := 2 } }

/-- the down loop: `residuals.append(x); x = pool(x); for layer in conv_blocks: x = layer(x)` for
`downsample = l` in the given list of levels -/
def downLoop (c : NetCfg) : List Nat → MI → List MI → Option (MI × List MI)
  | [], x, res => some (x, res)
  | l :: ls, x, res =>
    (chainM (c.levelBlocks (midAt c.mid (c.depth * 2 ^ (l - 1))) (midAt c.mid (c.depth * 2 ^ l)))
      (poolOut 2 x)).bind (fun y => downLoop c ls y (res ++ [x]))

/-- the up loop over `zip(upsample_blocks, reversed(residuals))` -/
def upLoop (c : NetCfg) : List (Nat × MI) → MI → Option MI
  | [], x => some x
  | (u, r) :: rest, x =>
    (((makeConvOut (c.upConv u) x).bind (fun up => concat up r)).bind
      (chainM (c.levelBlocks (midAt c.mid (c.depth * 2 ^ (u + 1))) (midAt c.mid (c.depth * 2 ^ u))))).bind
      (upLoop c rest)

/-- `UNet.__call__` -/
def mkUNet (c : NetCfg) (x : MI) : Option MI :=
  if inputOk c x && decide (c.numConv > 0) then
    (((chainM (c.levelBlocks c.effIn c.mid) (c.enter x)).bind
      (fun y => downLoop c (List.range' 1 c.numDown) y [])).bind
      (fun (y, res) =>
        ((upLoop c (List.zip (List.range c.numDown).reverse res.reverse) y).bind
          (makeConvOut { (c.block c.mid c.effOut c.kernel false false false) with act := false })))).bind
      c.leave
  else none

/-- the observable tuple of the output -/
def observe (x : MI) : Sig × List Nat × Nat × List Bool := (x.sig, x.spatialDims, x.D, x.torus)

end GinjaxVerif.C20
