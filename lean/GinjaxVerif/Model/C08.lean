import GinjaxVerif.Model.Action
import GinjaxVerif.Model.Conv
/-!
# C08 — normalisation, nonlinearity and pooling blocks (executable model, core Lean only)

Model of `ml/layers.py: _group_norm_K1, GroupNorm, LayerNorm, VectorNeuronNonlinear, MaxNormPool`,
`functional_geometric_image.py: norm, max_pool, average_pool` and `GeometricImage.unpool`.

A *block* is what a `MultiImage` stores under one key `(k, p)`: `C` channels of tensor images of
order `k` sharing their spatial extents.  Square roots, reciprocal square roots, absolute values,
`max(0, ·)`, activations and the symmetric matrix function of the whitening (`eigh`) are
**parameters** of the model (`R → R`, resp. matrix → matrix), never axioms.
-/
namespace GinjaxVerif

/-- `C` channels of order-`k` tensor images on the box `dims` (channel, pixel, tensor index). -/
structure Blk (R : Type) (d : Nat) where
  C : Nat
  dims : Fin d → Nat
  k : Nat
  val : Nat → Pix d → List (Fin d) → R

/-- channel `c` as an image -/
def Blk.img {R : Type} {d : Nat} (B : Blk R d) (c : Nat) : Img R d := ⟨B.dims, B.k, B.val c⟩

/-- extensional equality: same channel count, extents, order, and equal values on channels `< C`,
pixels of the box and index lists of length `k` -/
def Blk.Equiv {R : Type} {d : Nat} (A B : Blk R d) : Prop :=
  A.C = B.C ∧ A.dims = B.dims ∧ A.k = B.k ∧
    ∀ c, c < A.C → ∀ y, InBox A.dims y → ∀ n : List (Fin d), n.length = A.k →
      A.val c y n = B.val c y n

/-- `times_group_element` on every channel of a block of parity `p` -/
def tgeBlk {R : Type} [Zero R] [Add R] [Mul R] [IntCast R] {d : Nat} (M : Mat d) (p : Nat)
    (B : Blk R d) : Blk R d :=
  { C := B.C, dims := rotDims M B.dims, k := B.k, val := fun c => (tge M p (B.img c)).val }

/-! ### pooling -/

/-- pixel `a` of the patch of output pixel `y` (patch side `P`) -/
def patchPix {d : Nat} (P : Nat) (y a : Pix d) : Pix d := fun j => y j * (P : Int) + a j

/-- strided VALID convolution with the constant filter `w` on `P^d` patches
(`average_pool`: `convolve(image, w·ones((P,)*D), stride=P, padding="VALID")`) -/
def poolConst {R : Type} [Zero R] [Add R] [Mul R] {d : Nat} (P : Nat) (w : R) (B : Blk R d) :
    Blk R d :=
  { C := B.C, dims := fun j => B.dims j / P, k := B.k
    val := fun c y n => sumBox (fun _ => P) (fun a => B.val c (patchPix P y a) n * w) }

/-- **`average_pool`**: the filter value is `1 / P^D` -/
def averagePool {R : Type} [Zero R] [Add R] [Mul R] [One R] [Div R] [NatCast R] {d : Nat} (P : Nat)
    (B : Blk R d) : Blk R d :=
  poolConst P (1 / ((P ^ d : Nat) : R)) B

/-- spec of average pooling: the mean over the patch -/
def patchMean {R : Type} [Zero R] [Add R] [Div R] [NatCast R] {d : Nat} (P : Nat) (B : Blk R d) :
    Blk R d :=
  { C := B.C, dims := fun j => B.dims j / P, k := B.k
    val := fun c y n => sumBox (fun _ => P) (fun a => B.val c (patchPix P y a) n) / ((P ^ d : Nat) : R) }

/-- **`unpool`** (nearest neighbour): every pixel becomes a `P^d` patch of itself -/
def unpool {R : Type} {d : Nat} (P : Nat) (B : Blk R d) : Blk R d :=
  { C := B.C, dims := fun j => B.dims j * P, k := B.k
    val := fun c q n => B.val c (fun j => q j / (P : Int)) n }

/-- per-axis options of the transposed convolution `unpool` is implemented with:
ones filter of side `P`, `lhs_dilation = P`, zero padding `P − 1` on both sides -/
def unpoolAx {d : Nat} (P : Nat) (N : Fin d → Nat) : Fin d → AxisOpt :=
  fun j => { N := N j, M := P, lo := P - 1, hi := P - 1, ld := P }

/-- `unpool` as the code computes it: `convolve_with(ones((P,)*D), padding=((P−1,P−1),)*D,
lhs_dilation=(P,)*D)` (one channel, scalar filter: the direct sum of `convSpec`) -/
def unpoolConv {R : Type} [Zero R] [Add R] [Mul R] [One R] {d : Nat} (P : Nat) (B : Blk R d) :
    Blk R d :=
  { C := B.C, dims := fun j => (unpoolAx P B.dims j).outLen, k := B.k
    val := fun c q n =>
      sumBox (fun _ => P) (fun a =>
        padVal (unpoolAx P B.dims) (fun y => B.val c y n) (fun j => q j * 1 + a j * 1) * 1) }

/-- the positions of a `P^d` patch in the row-major order of `conv_general_dilated_patches` -/
def boxList : (d : Nat) → Nat → List (Pix d)
  | 0, _ => [fun i => i.elim0]
  | d + 1, P => (List.range P).flatMap (fun (a : Nat) => (boxList d P).map (fun t => consFn ((a : Nat) : Int) t))

/-- `argmax` with first-index tie breaking: the running best is replaced only by a strictly
larger value -/
def argmaxFirst {α R : Type} [LT R] [DecidableLT R] (f : α → R) : α → List α → α
  | best, [] => best
  | best, x :: xs => if f best < f x then argmaxFirst f x xs else argmaxFirst f best xs

def argmaxList {α R : Type} [LT R] [DecidableLT R] (f : α → R) (dflt : α) : List α → α
  | [] => dflt
  | a :: l => argmaxFirst f a l

/-- the patch position selected by `max_pool(..., use_norm=True)` for output pixel `y`: the first
position (row-major) whose pixel has maximal norm — compared through squared norms -/
def maxPos {R : Type} [Zero R] [Add R] [Mul R] [LT R] [DecidableLT R] {d : Nat} (P : Nat)
    (A : Img R d) (y : Pix d) : Pix d :=
  argmaxList (fun a => normSq A (patchPix P y a)) (fun _ => 0) (boxList d P)

/-- **`max_pool` / `MaxNormPool`** (per channel) -/
def maxPool {R : Type} [Zero R] [Add R] [Mul R] [LT R] [DecidableLT R] {d : Nat} (P : Nat)
    (B : Blk R d) : Blk R d :=
  { C := B.C, dims := fun j => B.dims j / P, k := B.k
    val := fun c y n => B.val c (patchPix P y (maxPos P (B.img c) y)) n }

/-- `max_pool` with the raw value of a scalar image as comparator (`use_norm=False`) -/
def maxPoolRaw {R : Type} [LT R] [DecidableLT R] {d : Nat} (P : Nat) (B : Blk R d) : Blk R d :=
  { C := B.C, dims := fun j => B.dims j / P, k := B.k
    val := fun c y n =>
      B.val c (patchPix P y
        (argmaxList (fun a => B.val c (patchPix P y a) []) (fun _ => 0) (boxList d P))) n }

/-! ### translations of periodic images (`np.roll`) -/

/-- `roll(A, t)` along the spatial axes: `A'(y) = A((y − t) mod N)` -/
def rollBlk {R : Type} {d : Nat} (t : Pix d) (B : Blk R d) : Blk R d :=
  { B with val := fun c y n => B.val c (fun j => (y j - t j) % (B.dims j : Int)) n }

/-! ### group normalisation -/

/-- number of pixels of a box -/
def boxCount {d : Nat} (N : Fin d → Nat) : Nat := prodFin d N

/-- `Σ` over the `cpg` channels of group `grp` and all pixels -/
def grpSum {R : Type} [Zero R] [Add R] {d : Nat} (dims : Fin d → Nat) (cpg grp : Nat)
    (f : Nat → Pix d → R) : R :=
  sumFin cpg (fun c' => sumBox dims (fun y => f (grp * cpg + c'.val) y))

section Norm
variable {R : Type} [Zero R] [Add R] [Mul R] [Sub R] [Div R] [NatCast R] {d : Nat}

/-- mean of component `n` over (channels of the group × pixels) -/
def grpMean (B : Blk R d) (cpg grp : Nat) (n : List (Fin d)) : R :=
  grpSum B.dims cpg grp (fun c y => B.val c y n) / ((cpg * boxCount B.dims : Nat) : R)

/-- biased variance of a scalar block over (channels of the group × pixels) (`jnp.var`) -/
def grpVar (B : Blk R d) (cpg grp : Nat) : R :=
  grpSum B.dims cpg grp (fun c y =>
      (B.val c y [] - grpMean B cpg grp []) * (B.val c y [] - grpMean B cpg grp []))
    / ((cpg * boxCount B.dims : Nat) : R)

/-- `eqx.nn.GroupNorm(groups, channels, eps, channelwise_affine=False)` with the statistics given:
`(x − mean) · rsqrt(max(0, var) + eps)` -/
def normCoreWith (rsqrt max0 : R → R) (eps : R) (cpg : Nat) (mean var : Nat → R) (B : Blk R d) :
    Blk R d :=
  { B with val := fun c y n => (B.val c y n - mean (c / cpg)) * rsqrt (max0 (var (c / cpg)) + eps) }

def normCore (rsqrt max0 : R → R) (eps : R) (G : Nat) (B : Blk R d) : Blk R d :=
  normCoreWith rsqrt max0 eps (B.C / G) (fun grp => grpMean B (B.C / G) grp [])
    (fun grp => grpVar B (B.C / G) grp) B

/-- channel-wise affine map `weight[c] · x + bias[c]` -/
def affine (weight bias : Nat → R) (B : Blk R d) : Blk R d :=
  { B with val := fun c y n => weight c * B.val c y n + bias c }

def scaleCh (scale : Nat → R) (B : Blk R d) : Blk R d :=
  { B with val := fun c y n => B.val c y n * scale c }

/-- **`GroupNorm` on a scalar block `(0,0)`**: `eqx.nn.GroupNorm(groups, channels, eps)` -/
def groupNormScalar (rsqrt max0 : R → R) (eps : R) (G : Nat) (weight bias : Nat → R)
    (B : Blk R d) : Blk R d :=
  affine weight bias (normCore rsqrt max0 eps G B)

/-- **`GroupNorm` on a pseudo-scalar block `(0,1)`, repaired code (D4)**: normalisation without
affine parameters, then a learnable per-channel scale, no additive bias -/
def groupNormPseudo (rsqrt max0 : R → R) (eps : R) (G : Nat) (scale : Nat → R) (B : Blk R d) :
    Blk R d :=
  scaleCh scale (normCore rsqrt max0 eps G B)

/-- legacy behaviour (before 3c11951): the pseudo-scalar block went through the affine
`eqx.nn.GroupNorm` with its additive bias -/
def groupNormPseudoLegacy (rsqrt max0 : R → R) (eps : R) (G : Nat) (weight bias : Nat → R)
    (B : Blk R d) : Blk R d :=
  groupNormScalar rsqrt max0 eps G weight bias B

/-- covariance `XᵀX / n` of the mean-centred vectors of a group -/
def grpCov (B : Blk R d) (cpg grp : Nat) (i j : Fin d) : R :=
  grpSum B.dims cpg grp (fun c y =>
      (B.val c y [i] - grpMean B cpg grp [i]) * (B.val c y [j] - grpMean B cpg grp [j]))
    / ((cpg * boxCount B.dims : Nat) : R)

abbrev RMat (R : Type) (d : Nat) := Fin d → Fin d → R

def addEps (eps : R) (Cv : RMat R d) : RMat R d := fun i j => Cv i j + (if i = j then eps else 0)

/-- `_group_norm_K1(method="eigh")` with the statistics given: `W · (x − mean)` per pixel, `W` the
whitening matrix of the pixel's channel group -/
def whitenWith (cpg : Nat) (mean : Nat → Fin d → R) (W : Nat → RMat R d) (B : Blk R d) : Blk R d :=
  { B with val := fun c y n =>
      match n with
      | [i] => sumFin d (fun l => W (c / cpg) i l * (B.val c y [l] - mean (c / cpg) l))
      | _ => 0 }

/-- **`_group_norm_K1`**: mean-centre per group, covariance, `W = S(cov + eps·I)` where the
parameter `S` stands for `C ↦ U diag(λ^{-1/2}) Uᵀ` (`eigh`) -/
def groupNormK1 (S : RMat R d → RMat R d) (eps : R) (G : Nat) (B : Blk R d) : Blk R d :=
  whitenWith (B.C / G) (fun grp i => grpMean B (B.C / G) grp [i])
    (fun grp => S (addEps eps (grpCov B (B.C / G) grp))) B

/-- per-channel spatial mean (`mean_vec`) -/
def chanMean (B : Blk R d) (c : Nat) (n : List (Fin d)) : R :=
  sumBox B.dims (fun y => B.val c y n) / ((boxCount B.dims : Nat) : R)

/-- `whitened * scale + bias * mean_vec` -/
def vecAffine (scale bias : Nat → R) (X Wh : Blk R d) : Blk R d :=
  { Wh with val := fun c y n => Wh.val c y n * scale c + bias c * chanMean X c n }

/-- **`GroupNorm` on a vector block `(1,p)`** -/
def groupNormVector (S : RMat R d → RMat R d) (eps : R) (G : Nat) (scale bias : Nat → R)
    (B : Blk R d) : Blk R d :=
  vecAffine scale bias B (groupNormK1 S eps G B)

/-- mutation witness / legacy variant: additive bias on a vector block -/
def groupNormVectorAddBias (S : RMat R d → RMat R d) (eps : R) (G : Nat) (scale bias : Nat → R)
    (B : Blk R d) : Blk R d :=
  { B with val := fun c y n => (groupNormK1 S eps G B).val c y n * scale c + bias c }

/-! ### vector-neuron nonlinearity -/

/-- `k_vec = einsum("ij,j...->i...", W, x)` -/
def vnDir (W : Nat → Nat → R) (B : Blk R d) (c : Nat) (y : Pix d) (n : List (Fin d)) : R :=
  sumFin B.C (fun j => W c j.val * B.val j.val y n)

/-- `k_vec / (norm(k_vec) + eps)` -/
def vnDirHat (sqrtF : R → R) (eps : R) (W : Nat → Nat → R) (B : Blk R d) (c : Nat) (y : Pix d)
    (n : List (Fin d)) : R :=
  vnDir W B c y n / (sqrtF (sumIdx d B.k (fun m => vnDir W B c y m * vnDir W B c y m)) + eps)

/-- `⟨x, k̂⟩` -/
def vnInner (sqrtF : R → R) (eps : R) (W : Nat → Nat → R) (B : Blk R d) (c : Nat) (y : Pix d) : R :=
  sumIdx d B.k (fun m => B.val c y m * vnDirHat sqrtF eps W B c y m)

/-- **`VectorNeuronNonlinear` on a block of type `(k,p) ≠ (0,0)`** -/
def vnNonlinear (sqrtF absF act : R → R) (eps : R) (W : Nat → Nat → R) (B : Blk R d) : Blk R d :=
  { B with val := fun c y n =>
      let ip := vnInner sqrtF eps W B c y
      let vpar := ip * vnDirHat sqrtF eps W B c y n
      let h := act ip / (absF ip + eps)
      h * vpar + (B.val c y n - vpar) }

end Norm

/-- `VectorNeuronNonlinear` on the scalar block `(0,0)`: the activation, pointwise -/
def vnScalar {R : Type} {d : Nat} (act : R → R) (B : Blk R d) : Blk R d :=
  { B with val := fun c y n => act (B.val c y n) }

end GinjaxVerif
