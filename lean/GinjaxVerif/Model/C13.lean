import GinjaxVerif.Model.NDArr

/-!
# C13 — model of the re-layouts of `MultiImage` (`src/ginjax/geometric/multi_image.py`)

`MultiImage.data` is an association list with Python `dict` semantics (`dictSet`: assigning an
existing key keeps its position, a new key goes to the end).  Every method is transcribed call
by call into the mini-numpy of `Model/NDArr.lean`: the `moveaxis` offsets `-(1+k)` and `-1` go
through `normAxis`, the slices `slice(0,-size)` / `slice(-size, axis_size)` through `pySlice`,
`reshape(... (-1,) ...)` through `reshapeInfer`.

The functions are total; the conditions under which the Python raises (its `assert`s and the
errors numpy would raise) are the separate Boolean predicates `…Ok`, which the driver evaluates
to answer `rejected`.  The loops `out = self.empty(); for …: out.append(k, parity, f(block))`
are written `appendAll (empty m) (blocks …)`: the block handed to `append` never depends on `out`.
-/
namespace GinjaxVerif.C13
open GinjaxVerif.ND GinjaxVerif.ND.NDArr

/-- the key of a block: `(k, parity)` -/
abbrev Key := Nat × Nat

/-! ## Python `dict` as an association list -/

/-- `key in d` -/
def hasKey {β : Type} (key : Key) (d : List (Key × β)) : Bool := d.any (fun e => e.1 == key)

/-- `d[key]` (as an option) -/
def dictGet {β : Type} (key : Key) : List (Key × β) → Option β
  | [] => none
  | (k, v) :: rest => if k = key then some v else dictGet key rest

/-- `d[key] = v`: an existing key keeps its position, a new key is appended at the end -/
def dictSet {β : Type} (key : Key) (v : β) : List (Key × β) → List (Key × β)
  | [] => [(key, v)]
  | (k, w) :: rest => if k = key then (k, v) :: rest else (k, w) :: dictSet key v rest

/-- `{k: v for k, v in items}` -/
def toDict {β : Type} (items : List (Key × β)) : List (Key × β) :=
  items.foldl (fun d e => dictSet e.1 e.2 d) []

/-- the keys in iteration order -/
def keysOf {β : Type} (d : List (Key × β)) : List Key := d.map (·.1)

/-! ## MultiImage -/

/-- `MultiImage`: dimension, boundary flags and the dict of blocks in insertion order -/
structure MI (α : Type) where
  D : Nat
  isTorus : List Bool
  data : List (Key × NDArr α)
  deriving DecidableEq, Repr

/-- `GeometricImage` as far as the re-layouts see it -/
structure GImg (α : Type) where
  data : NDArr α
  parity : Nat
  D : Nat
  isTorus : List Bool
  deriving DecidableEq, Repr

section
variable {α : Type} [Inhabited α]

/-- `MultiImage(data, D, is_torus)`: the constructor copies the dict with a comprehension -/
def MI.new (data : List (Key × NDArr α)) (D : Nat) (isTorus : List Bool) : MI α :=
  ⟨D, isTorus, toDict data⟩

/-- `self.copy()` -/
def MI.copy (m : MI α) : MI α := MI.new m.data m.D m.isTorus

/-- `self.empty()` -/
def MI.empty (m : MI α) : MI α := MI.new [] m.D m.isTorus

/-- `get_n_leading`: `ndim - (D + k)` of the first block, `0` for an empty multi image -/
def MI.nLeading (m : MI α) : Nat :=
  match m.data with
  | [] => 0
  | ((k, _), blk) :: _ => blk.shape.length - (m.D + k)

/-- `get_spatial_dims`: `shape[prior : prior + D]` of the first block -/
def MI.spatialDims (m : MI α) : List Nat :=
  match m.data with
  | [] => []
  | ((k, _), blk) :: _ => (blk.shape.drop (blk.shape.length - (k + m.D))).take m.D

/-- `get_L`: length of the first axis of the first block -/
def MI.getL (m : MI α) : Nat :=
  match m.data with
  | [] => 0
  | (_, blk) :: _ => blk.shape.headD 0

/-- `get_signature`: `((k,p), shape[n_leading - 1])` per block -/
def MI.signature (m : MI α) : List (Key × Nat) :=
  m.data.map fun e => (e.1, e.2.shape.getD (m.nLeading - 1) 0)

/-- the signature along an arbitrary axis (what the docstring of `concat_inverse` asks the caller
to build by hand) -/
def MI.signatureAt (m : MI α) (axis : Nat) : List (Key × Nat) :=
  m.data.map fun e => (e.1, e.2.shape.getD axis 0)

/-- `append(k, parity, image_block, axis)` (the mutation, returned as a new value) -/
def MI.append (m : MI α) (k parity : Nat) (blk : NDArr α) (axis : Nat := 0) : MI α :=
  let key : Key := (k, parity % 2)
  match dictGet key m.data with
  | some old => { m with data := dictSet key (concat axis old blk) m.data }
  | none => { m with data := dictSet key blk m.data }

/-- the `assert`s of `append` and the shape agreement `jnp.concatenate` demands.  The axis must
be a leading axis only when the block is concatenated onto an existing one (repaired behaviour,
fix D11; see `appendOkLegacy`). -/
def MI.appendOk (m : MI α) (k parity : Nat) (blk : NDArr α) (axis : Nat := 0) : Bool :=
  (k == 0 || blk.shape.drop (blk.shape.length - k) == List.replicate k m.D)
    && (m.D != 1 || k == 0)
    && (match dictGet (k, parity % 2) m.data with
        | some old => decide (axis < m.nLeading) && concatOk axis old blk
        | none => true)

/-- the `assert`s of `append` before fix D11: the axis had to be a leading axis of any non-empty
multi image, even when a new type was merely stored -/
def MI.appendOkLegacy (m : MI α) (k parity : Nat) (blk : NDArr α) (axis : Nat := 0) : Bool :=
  (m.data.isEmpty || decide (axis < m.nLeading)) && m.appendOk k parity blk axis

/-- a loop of `append`s of ready-made blocks -/
def appendAll (m : MI α) (items : List (Key × NDArr α)) (axis : Nat := 0) : MI α :=
  items.foldl (fun out e => out.append e.1.1 e.1.2 e.2 axis) m

/-- all `append`s of a loop are accepted -/
def appendAllOk (m : MI α) (items : List (Key × NDArr α)) (axis : Nat := 0) : Bool :=
  (items.foldl (fun (st : MI α × Bool) e =>
      (st.1.append e.1.1 e.1.2 e.2 axis, st.2 && st.1.appendOk e.1.1 e.1.2 e.2 axis))
    (m, true)).2

/-! ### to_vector / from_vector -/

/-- `to_vector`: `reduce(lambda x, y: concatenate([x, y.reshape(-1)]), values, zeros(0))` -/
def MI.toVector (m : MI α) : NDArr α :=
  m.data.foldl (fun x e => concat 0 x e.2.flatten) ⟨[0], #[]⟩

/-- the blocks `vector[idx : idx + img.size].reshape(img.shape)` with the running `idx` -/
def fromVectorBlocks (v : NDArr α) : Nat → List (Key × NDArr α) → List (Key × NDArr α)
  | _, [] => []
  | idx, (key, img) :: rest =>
    (key, (pySliceAxis 0 idx (idx + img.shape.prod : Nat) v).reshape img.shape)
      :: fromVectorBlocks v (idx + img.shape.prod) rest

/-- `MultiImage.from_vector(vector, multi_image)` -/
def MI.fromVector (v : NDArr α) (tmpl : MI α) : MI α :=
  appendAll tmpl.empty (fromVectorBlocks v 0 tmpl.data)

/-- numpy accepts every `reshape` of `from_vector` iff the vector is 1-d and long enough -/
def MI.fromVectorOk (v : NDArr α) (tmpl : MI α) : Bool :=
  v.shape.length == 1
    && decide ((tmpl.data.map (fun e => e.2.shape.prod)).sum ≤ v.shape.headD 0)
    && appendAllOk tmpl.empty (fromVectorBlocks v 0 tmpl.data)

/-! ### to_scalar_multi_image / from_scalar_multi_image -/

/-- one iteration of `to_scalar_multi_image`:
`image = moveaxis(image, n_batch_axes, -(1+k))`; `image.reshape(shape[:n_batch_axes+D] + (-1,))`;
`moveaxis(image, -1, n_batch_axes)` -/
def toScalarBlock (D nb k : Nat) (img : NDArr α) : NDArr α :=
  let img1 := img.moveaxis nb (normAxis img.shape.length (-(1 + (k : Int))))
  let img2 := img1.reshapeInfer (img1.shape.take (nb + D)) []
  img2.moveaxis (normAxis img2.shape.length (-1)) nb

/-- `to_scalar_multi_image` -/
def MI.toScalar (m : MI α) : MI α :=
  let nb := m.nLeading - 1
  appendAll m.empty (m.data.map fun e => ((0, 0), toScalarBlock m.D nb e.1.1 e.2)) nb

/-- the `assert` of `to_scalar_multi_image`, numpy's `-1` inference, and the `append`s -/
def MI.toScalarOk (m : MI α) : Bool :=
  let nb := m.nLeading - 1
  decide (m.nLeading ≥ 1)
    && m.data.all (fun e =>
        let img1 := e.2.moveaxis nb (normAxis e.2.shape.length (-(1 + (e.1.1 : Int))))
        decide (nb < e.2.shape.length) && decide (e.1.1 < e.2.shape.length)
          && img1.reshapeInferOk (img1.shape.take (nb + m.D)) [])
    && appendAllOk m.empty (m.data.map fun e => ((0, 0), toScalarBlock m.D nb e.1.1 e.2)) nb

/-- the blocks of `from_scalar_multi_image` with the running `idx`:
`image[..., idx : idx+length].reshape(image.shape[:nb] + spatial + (c,) + (D,)*k)` followed by
`moveaxis(…, -(1+k), nb)` -/
def fromScalarBlocks (D nb : Nat) (spatial : List Nat) (image : NDArr α) :
    Nat → List (Key × Nat) → List (Key × NDArr α)
  | _, [] => []
  | idx, ((k, parity), c) :: rest =>
    let length := c * D ^ k
    let sl := pySliceAxis (image.shape.length - 1) idx (idx + length : Nat) image
    let reshaped := sl.reshape (image.shape.take nb ++ spatial ++ [c] ++ List.replicate k D)
    ((k, parity), reshaped.moveaxis (normAxis reshaped.shape.length (-(1 + (k : Int)))) nb)
      :: fromScalarBlocks D nb spatial image (idx + length) rest

/-- `from_scalar_multi_image(layout)` -/
def MI.fromScalar (m : MI α) (layout : List (Key × Nat)) : MI α :=
  let spatial := m.spatialDims
  let nb := m.nLeading - 1
  let blk := (dictGet (0, 0) m.data).getD default
  let image := blk.moveaxis nb (normAxis blk.shape.length (-1))
  appendAll m.empty (fromScalarBlocks m.D nb spatial image 0 layout)

/-- the `assert` of `from_scalar_multi_image`; the slices must have the length the `reshape`
expects -/
def MI.fromScalarOk (m : MI α) (layout : List (Key × Nat)) : Bool :=
  let nb := m.nLeading - 1
  let blk := (dictGet (0, 0) m.data).getD default
  let image := blk.moveaxis nb (normAxis blk.shape.length (-1))
  keysOf m.data == [(0, 0)] && decide (m.nLeading ≥ 1)
    && decide ((layout.map fun e => e.2 * m.D ^ e.1.1).sum ≤ blk.shape.getD nb 0)
    && appendAllOk m.empty (fromScalarBlocks m.D nb m.spatialDims image 0 layout)

/-! ### concat / concat_inverse -/

/-- `self.concat(other, axis)` -/
def MI.concat (m other : MI α) (axis : Nat := 0) : MI α :=
  appendAll m.copy other.data axis

/-- the `assert`s of `concat` and of its `append`s -/
def MI.concatOk (m other : MI α) (axis : Nat := 0) : Bool :=
  m.D == other.D && m.isTorus == other.isTorus && appendAllOk m.copy other.data axis

/-- the two blocks (for `a` and for `b`) one iteration of `concat_inverse` appends -/
def splitBlock (axis size : Nat) (blk : NDArr α) : Option (NDArr α) × Option (NDArr α) :=
  let axisSize := blk.shape.getD axis 0
  if size = 0 then (some blk, none)
  else if size = axisSize then (none, some blk)
  else (some (pySliceAxis axis 0 (-(size : Int)) blk),
        some (pySliceAxis axis (-(size : Int)) axisSize blk))

/-- `concat_inverse(signature, axis)`: returns `(a, b)` -/
def MI.concatInverse (m : MI α) (sig : List (Key × Nat)) (axis : Nat := 0) : MI α × MI α :=
  let sd := toDict sig
  let parts := m.data.map fun e => (e.1, splitBlock axis ((dictGet e.1 sd).getD 0) e.2)
  (appendAll m.empty (parts.filterMap fun e => e.2.1.map fun x => (e.1, x)),
   appendAll m.empty (parts.filterMap fun e => e.2.2.map fun x => (e.1, x)))

/-- `assert 0 <= size <= axis_size` for every block (and `axis` must be an axis) -/
def MI.concatInverseOk (m : MI α) (sig : List (Key × Nat)) (axis : Nat := 0) : Bool :=
  let sd := toDict sig
  m.data.all fun e =>
    decide (axis < e.2.shape.length) && decide ((dictGet e.1 sd).getD 0 ≤ e.2.shape.getD axis 0)

/-! ### expand / combine_axes / merge_axes / reshape_pmap -/

/-- `expand(axis, size)`: `reshape(shape[:axis] + (-1, size) + shape[axis+1:])` -/
def MI.expand (m : MI α) (axis size : Nat) : MI α :=
  appendAll m.empty (m.data.map fun e =>
    (e.1, e.2.reshapeInfer (e.2.shape.take axis) (size :: e.2.shape.drop (axis + 1))))

def MI.expandOk (m : MI α) (axis size : Nat) : Bool :=
  m.data.all fun e =>
    decide (axis < e.2.shape.length)
      && e.2.reshapeInferOk (e.2.shape.take axis) (size :: e.2.shape.drop (axis + 1))

/-- `combine_axes(axes)` and `merge_axes(axes)` (same reshape):
`reshape(shape[:axes[0]] + (-1,) + shape[axes[-1]+1:])` -/
def MI.combineAxes (m : MI α) (axes : List Nat) : MI α :=
  let first := axes.headD 0
  let last := axes.getLastD 0
  appendAll m.empty (m.data.map fun e =>
    (e.1, e.2.reshapeInfer (e.2.shape.take first) (e.2.shape.drop (last + 1))))

/-- `assert list(axes) == list(range(axes[0], axes[-1] + 1))` and numpy's `-1` inference -/
def MI.combineAxesOk (m : MI α) (axes : List Nat) : Bool :=
  let first := axes.headD 0
  let last := axes.getLastD 0
  !axes.isEmpty && axes == (List.range (last + 1)).drop first
    && m.data.all fun e =>
      e.2.reshapeInferOk (e.2.shape.take first) (e.2.shape.drop (last + 1))

/-- `merge_axes(axes)` -/
def MI.mergeAxes (m : MI α) (axes : List Nat) : MI α := m.combineAxes axes

/-- `assert len(axes) > 1` and numpy's `-1` inference -/
def MI.mergeAxesOk (m : MI α) (axes : List Nat) : Bool :=
  let first := axes.headD 0
  let last := axes.getLastD 0
  decide (axes.length > 1)
    && m.data.all fun e =>
      e.2.reshapeInferOk (e.2.shape.take first) (e.2.shape.drop (last + 1))

/-- `reshape_pmap(devices, axis)` with `nDev = len(devices)`:
`reshape(shape[:axis] + (nDev, get_L() // nDev) + shape[axis+1:])` -/
def MI.reshapePmap (m : MI α) (nDev : Nat) (axis : Nat := 0) : MI α :=
  let l := m.getL
  appendAll m.empty (m.data.map fun e =>
    (e.1, e.2.reshape (e.2.shape.take axis ++ [nDev, l / nDev] ++ e.2.shape.drop (axis + 1))))

/-- `assert get_L() % nDev == 0` (Python raises on `% 0`) and numpy's size check -/
def MI.reshapePmapOk (m : MI α) (nDev : Nat) (axis : Nat := 0) : Bool :=
  let l := m.getL
  nDev != 0 && l % nDev == 0
    && m.data.all fun e =>
      e.2.reshapeOk (e.2.shape.take axis ++ [nDev, l / nDev] ++ e.2.shape.drop (axis + 1))

/-! ### from_images / to_images -/

/-- `GeometricImage(data, parity, D, is_torus)`: the constructor reduces the parity mod 2 -/
def GImg.new (data : NDArr α) (parity D : Nat) (isTorus : List Bool) : GImg α :=
  ⟨data, parity % 2, D, isTorus⟩

/-- `image.k = len(shape) - D` -/
def GImg.k (g : GImg α) : Nat := g.data.shape.length - g.D

/-- `to_images`: per block, `reshape((-1,) + spatial + (D,)*k)` and one image per row -/
def MI.toImages (m : MI α) : List (GImg α) :=
  m.data.flatMap fun e =>
    (e.2.reshapeInfer [] (m.spatialDims ++ List.replicate e.1.1 m.D)).rows.map fun x =>
      GImg.new x e.1.2 m.D m.isTorus

/-- `MultiImage.from_images(images, n_lead_axes, axis)` (`D`, `is_torus` from the first image) -/
def MI.fromImages (imgs : List (GImg α)) (nLead : Nat := 1) (axis : Nat := 0) : MI α :=
  let d := (imgs.head?.map (·.D)).getD 0
  let t := (imgs.head?.map (·.isTorus)).getD []
  appendAll (MI.new [] d t)
    (imgs.map fun g => ((g.k, g.parity), g.data.addLeading nLead)) axis

def MI.fromImagesOk (imgs : List (GImg α)) (nLead : Nat := 1) (axis : Nat := 0) : Bool :=
  let d := (imgs.head?.map (·.D)).getD 0
  let t := (imgs.head?.map (·.isTorus)).getD []
  !imgs.isEmpty && appendAllOk (MI.new [] d t)
    (imgs.map fun g => ((g.k, g.parity), g.data.addLeading nLead)) axis

/-! ### pytree flatten / unflatten -/

/-- Python's tuple order on `(k, parity)` -/
def keyLe (a b : Key) : Bool := a.1 < b.1 || (a.1 == b.1 && a.2 ≤ b.2)

/-- `tree_flatten` followed by jax's flattening of the `data` dict: leaves in sorted key order;
the static part carries the sorted keys, `D` and `is_torus` -/
def MI.treeFlatten (m : MI α) : List (NDArr α) × (List Key × Nat × List Bool) :=
  let sorted := m.data.mergeSort fun a b => keyLe a.1 b.1
  (sorted.map (·.2), (sorted.map (·.1), m.D, m.isTorus))

/-- jax's unflattening of the dict followed by `tree_unflatten` (= the constructor) -/
def MI.treeUnflatten (aux : List Key × Nat × List Bool) (leaves : List (NDArr α)) : MI α :=
  MI.new (aux.1.zip leaves) aux.2.1 aux.2.2

/-- what `jax.jit(lambda m: m)(m)` does to the container -/
def MI.treeRoundtrip (m : MI α) : MI α :=
  let f := m.treeFlatten
  MI.treeUnflatten f.2 f.1

/-- `GeometricImage.tree_flatten` / `tree_unflatten` (through the constructor) -/
def GImg.treeRoundtrip (g : GImg α) : GImg α := GImg.new g.data g.parity g.D g.isTorus

end
end GinjaxVerif.C13
