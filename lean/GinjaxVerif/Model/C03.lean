/-!
# C03 — executable model of `get_unique_invariant_filters` (core Lean only)

Anchors: `geometric/common.py` (`get_unique_invariant_filters`, `get_invariant_filters*`,
`make_all_operators`, `make_C2_group`), `functional_geometric_image.py` (`times_group_element`).

A filter of side `M`, order `k` in dimension `d` is a function on the index type
`FIdx d M k = (pixel : Fin d → Fin M) × (tensor index : Fin k → Fin d)`; flattened row-major
(`allIdx`) it is the `List Int` the code calls a row of `filter_matrix`.

The group action is the library's formula
`(g·A)(y, n) = det(g)^p · Σ_j Π_i g[n_i][j_i] · A(src_g y, j)`, `src_g y = (y − c)·g + c`, `c = (M−1)/2`.
For a signed permutation matrix (`g[a][b] = s a` if `b = σ a`, else `0`) the sum has one non-zero
term: `(g·A)(y, n) = det(g)^p · Π_i s(n_i) · A(src_g y, σ ∘ n)` with
`(src_g y)(σ a) = y a` if `s a = 1`, `M−1−y a` if `s a = −1` (`coef`, `srcIdx` below; the dense
formula is `actLit`, kept literally for the cross-check in the driver and for connection to the
general action model of C02).
-/

namespace GinjaxVerif.C03

/-! ## signed permutations -/

/-- Signed permutation matrix in sparse form: row `a` has its only non-zero entry `sgn a` in column
`perm a`; `inv` is the inverse permutation (validity is the decidable predicate `Valid`). -/
structure SPerm (d : Nat) where
  perm : Fin d → Fin d
  inv : Fin d → Fin d
  sgn : Fin d → Int

namespace SPerm
variable {d : Nat}

/-- the dense matrix entry `g[a][b]` -/
def entry (g : SPerm d) (a b : Fin d) : Int := if b = g.perm a then g.sgn a else 0

def Valid (g : SPerm d) : Prop :=
  (∀ a, g.inv (g.perm a) = a) ∧ (∀ b, g.perm (g.inv b) = b) ∧ ∀ a, g.sgn a = 1 ∨ g.sgn a = -1

instance (g : SPerm d) : Decidable g.Valid := by unfold Valid; exact inferInstance

/-- sign of the permutation: `(-1)^(number of inversions)` -/
def permSign (g : SPerm d) : Int :=
  ((List.finRange d).map fun b =>
    ((List.finRange d).map fun a =>
      if a < b then (if g.perm a < g.perm b then (1 : Int) else -1) else 1).prod).prod

/-- determinant of the signed permutation matrix: sign of the permutation times the entries -/
def det (g : SPerm d) : Int := g.permSign * ((List.finRange d).map g.sgn).prod

/-- trace of the matrix -/
def trace (g : SPerm d) : Int := ((List.finRange d).map fun a => g.entry a a).sum

end SPerm

/-! ## dense matrices (what the driver receives) -/

abbrev Mat := List (List Int)

def Mat.get (m : Mat) (a b : Nat) : Int := (m.getD a []).getD b 0

/-- Laplace expansion along the first row (exact integer determinant) -/
def detLaplace : Nat → Mat → Int
  | 0, _ => 1
  | n + 1, m =>
    match m with
    | [] => 0
    | row :: rest =>
      ((List.range (n + 1)).map fun c =>
        (if c % 2 = 0 then (1 : Int) else -1) * row.getD c 0 *
          detLaplace n (rest.map fun r => r.eraseIdx c)).sum

def findCol (row : List Int) : Option Nat := row.findIdx? (· != 0)

/-- Parse a dense `d × d` integer matrix as a signed permutation; `none` unless every row and column
has exactly one non-zero entry and that entry is `±1`. -/
def SPerm.ofMat? (d : Nat) (m : Mat) : Option (SPerm d) :=
  if m.length ≠ d ∨ m.any (fun r => r.length ≠ d) then none
  else
    let cols : List (Option Nat) := m.map findCol
    if h : 0 < d then
      let z : Fin d := ⟨0, h⟩
      let toFin (n : Nat) : Fin d := if h' : n < d then ⟨n, h'⟩ else z
      let perm : Fin d → Fin d := fun a => toFin ((cols.getD a.val none).getD 0)
      let inv : Fin d → Fin d := fun b =>
        toFin ((cols.findIdx? (fun c => c == some b.val)).getD 0)
      let sgn : Fin d → Int := fun a => m.get a.val (perm a).val
      let g : SPerm d := ⟨perm, inv, sgn⟩
      if g.Valid ∧ (List.finRange d).all (fun a => (List.finRange d).all fun b =>
          g.entry a b == m.get a.val b.val) then some g else none
    else some ⟨fun a => a, fun a => a, fun _ => 1⟩

def SPerm.toMat {d : Nat} (g : SPerm d) : Mat :=
  (List.finRange d).map fun a => (List.finRange d).map fun b => g.entry a b

/-! ## the index type and its row-major enumeration -/

structure FIdx (d M k : Nat) where
  px : Fin d → Fin M
  tn : Fin k → Fin d

/-- prepend a value to a finite function -/
def consFn {m n : Nat} (x : Fin m) (f : Fin n → Fin m) : Fin (n + 1) → Fin m :=
  fun i => Fin.cases x f i

/-- all functions `Fin n → Fin m`, lexicographic with coordinate 0 most significant -/
def allFuns : (n m : Nat) → List (Fin n → Fin m)
  | 0, _ => [fun i => i.elim0]
  | n + 1, m => (List.finRange m).flatMap fun x => (allFuns n m).map fun f => consFn x f

/-- all indices, in the order of the flattened array of shape `(M,)*d + (d,)*k` -/
def allIdx (d M k : Nat) : List (FIdx d M k) :=
  (allFuns d M).flatMap fun x => (allFuns k d).map fun t => ⟨x, t⟩

def funEqb {n m : Nat} (f g : Fin n → Fin m) : Bool := (List.finRange n).all fun a => f a == g a

def FIdx.eqb {d M k : Nat} (i j : FIdx d M k) : Bool := funEqb i.px j.px && funEqb i.tn j.tn

/-! ## the monomial action of a signed permutation on filters -/

section Action
variable {d M k : Nat}

/-- `y ↦ y` for sign `+1`, `y ↦ M−1−y` otherwise -/
def flipAx (s : Int) (y : Fin M) : Fin M := if s = 1 then y else y.rev

/-- the index `(src_g y, σ ∘ n)` from which `(g·A)(y, n)` is read -/
def srcIdx (g : SPerm d) (j : FIdx d M k) : FIdx d M k where
  px := fun b => flipAx (g.sgn (g.inv b)) (j.px (g.inv b))
  tn := fun i => g.perm (j.tn i)

/-- the coefficient `det(g)^p · Π_i s(n_i)` -/
def coef (g : SPerm d) (p : Nat) (j : FIdx d M k) : Int :=
  g.det ^ p * ((List.finRange k).map fun i => g.sgn (j.tn i)).prod

/-- `(g·A)(j)` in monomial form -/
def act (g : SPerm d) (p : Nat) (A : FIdx d M k → Int) (j : FIdx d M k) : Int :=
  coef g p j * A (srcIdx g j)

/-- the basis filter `e_i` -/
def basis (i : FIdx d M k) (j : FIdx d M k) : Int := if FIdx.eqb j i then 1 else 0

/-- `(Σ_{g ∈ ops} g·e_i)(j)`: one entry of the code's `filter_matrix` row `i` -/
def groupSum (ops : List (SPerm d)) (p : Nat) (i j : FIdx d M k) : Int :=
  (ops.map fun g => act g p (basis i) j).sum

end Action

/-! ## the literal dense formula (for the cross-check and the link to C02) -/

section Literal
variable {d M k : Nat}

/-- `2·(src_g y)_b = Σ_a (2 y_a − (M−1)) g[a][b] + (M−1)` as an integer -/
def srcLit2 (g : Fin d → Fin d → Int) (y : Fin d → Fin M) (b : Fin d) : Int :=
  ((List.finRange d).map fun a => (2 * (y a).val - ((M : Int) - 1)) * g a b).sum + ((M : Int) - 1)

/-- `det(g)^p · Σ_j Π_i g[n_i][j_i] · A(src, j)`; `none` when the source pixel is off the grid -/
def actLit (g : Fin d → Fin d → Int) (det : Int) (p : Nat) (A : FIdx d M k → Int)
    (j : FIdx d M k) : Option Int :=
  let s2 := fun b => srcLit2 g j.px b
  if h : ∀ b, s2 b % 2 = 0 ∧ 0 ≤ s2 b / 2 ∧ s2 b / 2 < M then
    let src : Fin d → Fin M := fun b => ⟨(s2 b / 2).toNat, by have := h b; omega⟩
    some (det ^ p * ((allFuns k d).map fun t =>
      ((List.finRange k).map fun i => g (j.tn i) (t i)).prod * A ⟨src, t⟩).sum)
  else none

end Literal

/-! ## the pipeline of `get_unique_invariant_filters` -/

/-- rows of `filter_matrix`: the group sum of every basis element, flattened row-major -/
def filterMatrix {d : Nat} (ops : List (SPerm d)) (M k p : Nat) : List (List Int) :=
  (allIdx d M k).map fun i => (allIdx d M k).map fun j => groupSum ops p i j

def isZeroRow (r : List Int) : Bool := r.all (· == 0)

def negRow (r : List Int) : List Int := r.map fun v => -v

/-- multiply by the sign of the first non-zero entry -/
def normLead (r : List Int) : List Int :=
  match r.find? (· != 0) with
  | some x => if x < 0 then negRow r else r
  | none => r

/-- keep the last occurrence of every element -/
def dedup : List (List Int) → List (List Int)
  | [] => []
  | a :: l => if l.contains a then dedup l else a :: dedup l

/-- lexicographic `≤` on rows (rows have equal length) -/
def lexLe : List Int → List Int → Bool
  | [], _ => true
  | _ :: _, [] => false
  | a :: l, b :: m => if a < b then true else if b < a then false else lexLe l m

/-- `np.unique(rows, axis=0)`: distinct rows, sorted lexicographically -/
def uniqueRows (rows : List (List Int)) : List (List Int) := (dedup rows).mergeSort lexLe

/-- drop zero rows, make the leading non-zero entry positive, `np.unique` -/
def uniqueInvariantFilters {d : Nat} (ops : List (SPerm d)) (M k p : Nat) : List (List Int) :=
  uniqueRows (((filterMatrix ops M k p).filter fun r => !isZeroRow r).map normLead)

/-- divide by the gcd of the entries (the remaining steps of the code — sign by row sum, max-abs
scaling, `normalize`, `rectify`, sorting by `bigness` — are non-zero rescalings and a reordering,
which the property leaves free; the primitive vector is the canonical representative) -/
def primitive (r : List Int) : List Int :=
  let g := r.foldl (fun acc v => Nat.gcd acc v.natAbs) 0
  if g = 0 then r else r.map fun v => v / (g : Int)

/-! ## the character count (the property's formula) -/

/-- number of pixels of the `M^d` grid fixed by `g` -/
def fixedPixels {d : Nat} (g : SPerm d) (M : Nat) : Nat :=
  ((allFuns d M).filter fun x =>
    funEqb (fun b => flipAx (g.sgn (g.inv b)) (x (g.inv b))) x).length

/-- `Σ_g #fixedpixels(g) · tr(g)^k · det(g)^p` (to be divided by `|G|`) -/
def characterSum {d : Nat} (ops : List (SPerm d)) (M k p : Nat) : Int :=
  (ops.map fun g => (fixedPixels g M : Int) * g.trace ^ k * g.det ^ p).sum

/-! ## `get_invariant_filters`: assembling the bank -/

/-- `get_invariant_filters_dict` + `_list` + `MultiImage.from_images`: loop `M`, `k`, parity in this
order; blocks keyed by `(k, parity % 2)` in order of first appearance; a block is
`(number of filters, M)`; `none` when there is no filter at all (the code asserts) or when two
filters of one key have different side lengths (concatenate fails). -/
def assembleBank {d : Nat} (ops : List (SPerm d)) (Ms ks ps : List Nat) :
    Option (List ((Nat × Nat) × (Nat × Nat))) :=
  let fams : List ((Nat × Nat) × (Nat × Nat)) :=
    Ms.flatMap fun M => ks.flatMap fun k => ps.map fun p =>
      ((k, p % 2), ((uniqueInvariantFilters ops M k p).length, M))
  let step (acc : Option (List ((Nat × Nat) × (Nat × Nat)))) (e : (Nat × Nat) × (Nat × Nat)) :=
    match acc with
    | none => none
    | some l =>
      if e.2.1 = 0 then some l
      else match l.find? (fun x => x.1 == e.1) with
        | none => some (l ++ [e])
        | some x =>
          if x.2.2 = e.2.2 then
            some (l.map fun y => if y.1 == e.1 then (y.1, (y.2.1 + e.2.1, y.2.2)) else y)
          else none
  match fams.foldl step (some []) with
  | some [] => none
  | r => r

/-! ## the operator lists of the library -/

def permsOf : List Nat → List (List Nat)
  | [] => [[]]
  | l => l.flatMap fun x => (permsOf (l.erase x)).map fun r => x :: r
termination_by l => l.length
decreasing_by
  simp only [List.length_erase]
  split
  · cases l with
    | nil => simp at *
    | cons a t => simp
  · rename_i h; exact absurd ‹x ∈ l› h

def signChoices : Nat → List (List Int)
  | 0 => [[]]
  | n + 1 => [1, -1].flatMap fun s => (signChoices n).map fun r => s :: r

/-- `make_all_operators(D)`: `permutation_matrix(seq) @ diag(signs)`, permutations outer (in
`itertools.permutations` order), signs inner (`itertools.product([1,-1])` order).  Entry
`[a][b] = (b = seq[a]) · signs[b]`. -/
def allOperators (d : Nat) : List Mat :=
  (permsOf (List.range d)).flatMap fun seq => (signChoices d).map fun sg =>
    (List.range d).map fun a => (List.range d).map fun b =>
      if b = seq.getD a 0 then sg.getD b 0 else 0

/-- `make_C2_group(D)`: the diagonal sign matrices -/
def c2Group (d : Nat) : List Mat :=
  (signChoices d).map fun sg =>
    (List.range d).map fun a => (List.range d).map fun b => if a = b then sg.getD a 0 else 0

end GinjaxVerif.C03
