import GinjaxVerif.Model.C17
/-!
# C17 (use of the batches) — model of `ginjax/ml/training.py: evaluate`, `loss_reducer`,
`multi_image_reducer`, `map_loss_in_batches`, `map_plus_loss_in_batches`.

Core Lean only (no Mathlib): compiled into the correspondence driver.  The batches are the ones of
the modelled `getBatches` of `Model/C17.lean` (not re-defined here), so a batch of a multi-image is
`MI κ (List (List α))`: per type `nd` device rows of `B / nd` opaque samples.

* `eqx.filter_pmap(map_and_loss, in_axes=(None, 0, 0, None), out_axes=(0, None[, 0]))` hands device
  row `d` of every block of `x` and of `y` to `map_and_loss` (`unstack`), and stacks the results on a
  new leading axis.
* `map_and_loss(model, x, y, aux)` is the shape used by the repository's scripts:
  `pred = jax.vmap(model)(x)`, `loss = smse_loss(pred, y)` (any loss that is the `jnp.mean` over the
  batch of a per-sample loss `ℓ pred_sample target_sample`), returned with `pred` in the 3-tuple form.
* under `vmap` the model is traced once, so the keys of its output and their order do not depend on
  the sample: a model is a list `(output key, function of the input sample)`.
* `none` = the code raises.  `jnp.mean` of an empty array (NaN, no exception) cannot occur on an
  accepted path: `mean [] = 0 / 0` is never inspected.
-/
namespace GinjaxVerif.C17
open GinjaxVerif.C15 (allSome MI lookup getL sliceTraj appendKey stackMerge)

variable {α β κ κ' R : Type}

/-- `jnp.mean` of a 1-d array -/
def mean [Zero R] [Add R] [Div R] [NatCast R] (l : List R) : R := l.sum / (l.length : R)

/-- the entries of the leading axis of a multi-image, each a multi-image with the same keys in the
same order (`vmap` / `pmap` with `in_axes=0`); blocks of different leading extent are refused. -/
def unstack (m : MI κ (List β)) : Option (List (MI κ β)) :=
  if m.all (fun kb => kb.2.length == getL m) then
    allSome ((List.range (getL m)).map (fun r => sliceTraj r m))
  else none

/-- a per-sample model: output keys in insertion order, each with the function of the input sample -/
abbrev Net (κ α κ' β : Type) := List (κ' × (MI κ α → β))

/-- the model applied to one sample -/
def applyNet (fs : Net κ α κ' β) (s : MI κ α) : MI κ' β := fs.map (fun e => (e.1, e.2 s))

/-- `jax.vmap(model, in_axes=(0, None), out_axes=(0, None))(x, aux)[0]`: the outputs stacked leaf by leaf -/
def vmapNet (fs : Net κ α κ' β) (xs : List (MI κ α)) : MI κ' (List β) :=
  fs.map (fun e => (e.1, xs.map e.2))

section Loss
variable [Zero R] [Add R] [Div R] [NatCast R]

/-- `map_and_loss(model, x, y, aux)` on what one device sees: the mean over the samples of the
per-sample loss of (prediction for input sample `r`, target sample `r`), and the mapped samples. -/
def mapAndLoss (fs : Net κ α κ' β) (ℓ : MI κ' β → MI κ α → R) (xd yd : MI κ (List α)) :
    Option (R × MI κ' (List β)) :=
  match unstack xd, unstack yd with
  | some xs, some ys =>
    if xs.length ≠ ys.length then none else       -- shape error inside the loss
    some (mean (List.zipWith (fun x y => ℓ (applyNet fs x) y) xs ys), vmapNet fs xs)
  | _, _ => none

/-- `evaluate(model, map_and_loss, x, y, aux, return_map)` on one batch (both branches: the loss
is the same expression, `return_map=False` drops the second component): `filter_pmap` over the
device axis, `jnp.mean(loss, axis=0)`, `out.merge_axes([0, 1])`. -/
def evaluate [DecidableEq κ'] (fs : Net κ α κ' β) (ℓ : MI κ' β → MI κ α → R)
    (xb yb : MI κ (List (List α))) : Option (R × MI κ' (List β)) :=
  match unstack xb, unstack yb with
  | some xds, some yds =>
    if xds.length ≠ yds.length then none else     -- pmap: mapped axes of different size
    match allSome (List.zipWith (mapAndLoss fs ℓ) xds yds) with
    | none => none
    | some res => some (mean (res.map Prod.fst), stackMerge (res.map Prod.snd))
  | _, _ => none

/-- `loss_reducer(ls)`: `jnp.mean(jnp.stack(ls), axis=0)`; `jnp.stack([])` raises -/
def lossReducer (ls : List R) : Option R := if ls.isEmpty then none else some (mean ls)

end Loss

/-- `a.concat(b)` (axis 0): `out = a.copy(); for key, block in b.items(): out.append(key, block)` -/
def miConcat [DecidableEq κ'] (a b : MI κ' (List β)) : MI κ' (List β) :=
  b.foldl (fun acc kb => appendKey (· ++ ·) acc kb.1 kb.2) a

/-- `multi_image_reducer(ls)`: `functools.reduce(concat, ls, ls[0].empty())`; `ls[0]` raises on `[]` -/
def multiImageReducer [DecidableEq κ'] (ls : List (MI κ' (List β))) : Option (MI κ' (List β)) :=
  match ls with
  | [] => none
  | _ :: _ => some (ls.foldl miConcat [])

section Loss
variable [Zero R] [Add R] [Div R] [NatCast R] [DecidableEq κ']

/-- the common loop: `X_batches, Y_batches = get_batches((x, y), B, key, devices)` and `evaluate`
on every pair `zip(X_batches, Y_batches)` -/
def evalBatches (perm : Option (List Nat)) (B nd : Nat) (fs : Net κ α κ' β)
    (ℓ : MI κ' β → MI κ α → R) (x y : MI κ (List α)) : Option (List (R × MI κ' (List β))) :=
  match getBatches perm B nd [x, y] with
  | some [xbs, ybs] => allSome (List.zipWith (evaluate fs ℓ) xbs ybs)
  | _ => none

/-- `map_loss_in_batches(map_and_loss, model, x, y, B, key, devices)` -/
def mapLossInBatches (perm : Option (List Nat)) (B nd : Nat) (fs : Net κ α κ' β)
    (ℓ : MI κ' β → MI κ α → R) (x y : MI κ (List α)) : Option R :=
  match evalBatches perm B nd fs ℓ x y with
  | none => none
  | some res => lossReducer (res.map Prod.fst)

/-- `map_plus_loss_in_batches(…)`: `(loss_reducer(losses), multi_image_reducer(out_maps))` -/
def mapPlusLossInBatches (perm : Option (List Nat)) (B nd : Nat) (fs : Net κ α κ' β)
    (ℓ : MI κ' β → MI κ α → R) (x y : MI κ (List α)) : Option (R × MI κ' (List β)) :=
  match evalBatches perm B nd fs ℓ x y with
  | none => none
  | some res =>
    match lossReducer (res.map Prod.fst), multiImageReducer (res.map Prod.snd) with
    | some v, some out => some (v, out)
    | _, _ => none

end Loss

/-! ## specification helpers -/

/-- sample `i` of the multi-image `mkMI L sig` -/
def smpAt (sig : List (κ × (Nat → α))) (i : Nat) : MI κ α := sig.map (fun e => (e.1, e.2 i))

/-- the per-sample loss: prediction for input sample `i` against target sample `j` -/
def pairLoss (fs : Net κ α κ' β) (ℓ : MI κ' β → MI κ α → R) (sigx sigy : List (κ × (Nat → α)))
    (i j : Nat) : R := ℓ (applyNet fs (smpAt sigx i)) (smpAt sigy j)

/-- entry `i` of the index array, `0` beyond its end -/
def idxAt (π : List Nat) (i : Nat) : Nat := (π[i]?).getD 0

end GinjaxVerif.C17
