/-!
# C10 — symmetrisation wrappers: model of `GroupAverage`, `Climate1D`, `ModelWrapper`
(`ginjax/models.py`) and of the `MultiImage` plumbing they use (`append`, `concat_inverse`,
`expand`, `combine_axes`, `to_scalar_multi_image`, `from_scalar_multi_image`).

Core Lean only (no Mathlib): this file is compiled into the correspondence driver.

Blocks are index functions with explicit sizes; re-layouts (`reshape`, `moveaxis`) are row-major
div/mod arithmetic on the indices.  Dictionaries are association lists with Python `dict`
semantics (insertion order, `append` concatenates onto an existing entry in place).

The group action itself is *not* modelled here (it is the subject of C02): `groupAverageCode` is
parametric in the action; only the two axis reflections `Climate1D` needs are concrete.
-/
namespace GinjaxVerif.C10

/-! ## GroupAverage -/

/-- the running sum of `GroupAverage.__call__`:
`sum_image = None; for …: sum_image = t if sum_image is None else sum_image + t`. -/
def sumCode {Y : Type} [Add Y] : List Y → Option Y
  | [] => none
  | t :: ts => some (ts.foldl (· + ·) t)

/-- `GroupAverage.__call__`.  `tr` is the code's `gg.T`, `actX`/`actY` are
`MultiImage.times_group_element` on the input / output signature, `scale n y` is `y / n`
(`MultiImage.__truediv__`, i.e. `y * (1.0 / n)`). -/
def groupAverageCode {G X Y : Type} [Add Y] (tr : G → G) (actX : G → X → X) (actY : G → Y → Y)
    (scale : Nat → Y → Y) (alwaysAverage inference : Bool) (ops : List G) (f : X → Y) (x : X) : Y :=
  if (alwaysAverage || inference) && decide (ops.length > 0) then
    match sumCode (ops.map fun g => actY (tr g) (f (actX g x))) with
    | some s => scale ops.length s
    | none => f x
  else f x

/-! ## dictionaries -/

/-- a `(k, parity)` key -/
abbrev Key := Nat × Nat

def dLookup {B : Type} : List (Key × B) → Key → Option B
  | [], _ => none
  | (k, b) :: rest, key => if k = key then some b else dLookup rest key

/-- `MultiImage.append`: concatenate onto the existing entry (its position is kept), otherwise
insert at the end. -/
def dAppend {B : Type} (cat : B → B → B) : List (Key × B) → Key → B → List (Key × B)
  | [], key, b => [(key, b)]
  | (k, b0) :: rest, key, b =>
    if k = key then (k, cat b0 b) :: rest else (k, b0) :: dAppend cat rest key b

/-- a sequence of `append` calls -/
def appendAll {B : Type} (cat : B → B → B) (d : List (Key × B)) (calls : List (Key × B)) :
    List (Key × B) :=
  calls.foldl (fun d c => dAppend cat d c.1 c.2) d

/-- `d[key] = v` -/
def dSet {B : Type} : List (Key × B) → Key → B → List (Key × B)
  | [], key, b => [(key, b)]
  | (k, b0) :: rest, key, b => if k = key then (k, b) :: rest else (k, b0) :: dSet rest key b

/-- `{key: size for key, size in signature}` -/
def dictOf {B : Type} (l : List (Key × B)) : List (Key × B) :=
  l.foldl (fun d c => dSet d c.1 c.2) []

def keysOf {B : Type} (d : List (Key × B)) : List Key := d.map (·.1)

/-! ## blocks -/

/-- 2-D block `(channels, lon, lat[, 2])`: `val channel x y component` (component 0 for `k = 0`) -/
structure Blk2 (R : Type) where
  ch : Nat
  val : Nat → Nat → Nat → Nat → R

/-- scalar-valued block with a split leading axis `(c, t, lon, lat)` -/
structure BlkE (R : Type) where
  c : Nat
  val : Nat → Nat → Nat → Nat → R

/-- 1-D block `(rows, lon)` -/
structure Blk1 (R : Type) where
  rows : Nat
  val : Nat → Nat → R

abbrev MI2 (R : Type) := List (Key × Blk2 R)
abbrev MI1 (R : Type) := List (Key × Blk1 R)

/-- `get_signature` (channel count per key) -/
def sig2 {R : Type} (x : MI2 R) : List (Key × Nat) := x.map fun kb => (kb.1, kb.2.ch)
def sig1 {R : Type} (x : MI1 R) : List (Key × Nat) := x.map fun kb => (kb.1, kb.2.rows)

/-- concatenation along the leading axis -/
def catE {R : Type} (a b : BlkE R) : BlkE R :=
  ⟨a.c + b.c, fun c t x y => if c < a.c then a.val c t x y else b.val (c - a.c) t x y⟩

def cat1 {R : Type} (a b : Blk1 R) : Blk1 R :=
  ⟨a.rows + b.rows, fun r x => if r < a.rows then a.val r x else b.val (r - a.rows) x⟩

/-! ## Climate1D -/

structure ClimCfg where
  /-- `spatial_dims = (n_lons, n_lats)` -/
  nx : Nat
  ny : Nat
  past : Nat
  future : Nat
  /-- `constant_fields_2d` -/
  constFields : List (Key × Nat)
  /-- `output_keys` -/
  outputKeys : List (Key × Nat)

def allowedKey (key : Key) : Bool := key = (0, 0) || key = (0, 1) || key = (1, 0)

def constSize (cf : List (Key × Nat)) (key : Key) : Nat := (dLookup cf key).getD 0

/-- `concat_inverse`, first result: everything but the last `size` channels of each block -/
def dynPart {R : Type} (s : Nat) (b : Blk2 R) : Option (Blk2 R) :=
  if s = 0 then some b else if s = b.ch then none else some ⟨b.ch - s, b.val⟩

/-- `concat_inverse`, second result: the last `size` channels -/
def constPart {R : Type} (s : Nat) (b : Blk2 R) : Option (Blk2 R) :=
  if s = 0 then none else if s = b.ch then some b
  else some ⟨s, fun c x y comp => b.val (b.ch - s + c) x y comp⟩

def splitDyn {R : Type} (cf : List (Key × Nat)) (x : MI2 R) : MI2 R :=
  x.filterMap fun kb => (dynPart (constSize cf kb.1) kb.2).map fun b => (kb.1, b)

def splitConst {R : Type} (cf : List (Key × Nat)) (x : MI2 R) : MI2 R :=
  x.filterMap fun kb => (constPart (constSize cf kb.1) kb.2).map fun b => (kb.1, b)

/-- `expand(0, T)` followed by the component selection `image[..., comp]`:
`(c*T, x, y[, 2]) -> (c, T, x, y)` -/
def expandComp {R : Type} (T : Nat) (b : Blk2 R) (comp : Nat) : BlkE R :=
  ⟨b.ch / T, fun c t x y => b.val (c * T + t) x y comp⟩

/-- the `append` calls issued by the loop of the *legacy* `to1d`, in dict order -/
def callsLegacy {R : Type} (T : Nat) (dyn : MI2 R) : List (Key × BlkE R) :=
  dyn.flatMap fun kb =>
    if kb.1.1 = 0 then [(kb.1, expandComp T kb.2 0)]
    else [((0, 1), expandComp T kb.2 0), ((0, 0), expandComp T kb.2 1)]

/-- `sorted(items, key = k)` for `k ∈ {0, 1}` (stable) -/
def sortByK {B : Type} (d : List (Key × B)) : List (Key × B) :=
  d.filter (fun kb => kb.1.1 = 0) ++ d.filter (fun kb => ¬ kb.1.1 = 0)

/-- the repaired loop (D5): the `k = 0` types first -/
def callsRepaired {R : Type} (T : Nat) (dyn : MI2 R) : List (Key × BlkE R) :=
  callsLegacy T (sortByK dyn)

/-- `(c, T, x, y) -> (y, c, T, x) -> (y*c*T, x)` (`moveaxis(-1, 0)`, `reshape((-1, n_lons))`):
row-major decode of the row index -/
def bandE {R : Type} (T ny : Nat) (e : BlkE R) : Blk1 R :=
  ⟨ny * (e.c * T), fun r x => e.val (r / T % e.c) (r % T) x (r / T / e.c)⟩

/-- constant fields: `(c, x, y) -> (y, c, x) -> (y*c, x)` -/
def bandC {R : Type} (ny : Nat) (b : Blk2 R) : Blk1 R :=
  ⟨ny * b.ch, fun r x => b.val (r % b.ch) x (r / b.ch) 0⟩

def to1dWith {R : Type} (calls : Nat → MI2 R → List (Key × BlkE R)) (cfg : ClimCfg) (x : MI2 R) :
    MI1 R :=
  let dyn := splitDyn cfg.constFields x
  let cst := splitConst cfg.constFields x
  let out := appendAll catE [] (calls cfg.past dyn)
  let out1 : MI1 R := out.map fun ke => (ke.1, bandE cfg.past cfg.ny ke.2)
  appendAll cat1 out1 (cst.map fun kb => (kb.1, bandC cfg.ny kb.2))

/-- `Climate1D.to1d` after the repair of D5 -/
def climateTo1d {R : Type} (cfg : ClimCfg) (x : MI2 R) : MI1 R := to1dWith callsRepaired cfg x

/-- `Climate1D.to1d` as it was (defect D5) -/
def climateTo1dLegacy {R : Type} (cfg : ClimCfg) (x : MI2 R) : MI1 R := to1dWith callsLegacy cfg x

/-- what `to1d` accepts: a non-empty input, only the three supported types, constant fields only
of order 0, a dynamic channel count divisible by `past_steps` -/
def to1dValid {R : Type} (cfg : ClimCfg) (x : MI2 R) : Bool :=
  !x.isEmpty && decide (0 < cfg.past) &&
  x.all fun kb =>
    let s := constSize cfg.constFields kb.1
    allowedKey kb.1 && decide (s ≤ kb.2.ch) && decide ((kb.2.ch - s) % cfg.past = 0) &&
      (kb.1.1 == 0 || s == 0)

/-- `get_1d_signature` on a dict -/
def get1dSignature (sig : List (Key × Nat)) (ny : Nat) : List (Key × Nat) :=
  appendAll (· + ·) [] ((dictOf sig).flatMap fun kn =>
    if kn.1.1 = 0 then [(kn.1, kn.2 * ny)] else [((0, 0), kn.2 * ny), ((0, 1), kn.2 * ny)])

/-- `(y*c*F, x) --expand(0,F)--> (y*c, F, x) --reshape--> (ny, c, F, x) --moveaxis(0,-1)-->
(c, F, x, y)` -/
def img1 {R : Type} (F ny : Nat) (b : Blk1 R) : BlkE R :=
  let C := b.rows / F / ny
  ⟨C, fun c t x y => b.val ((y * C + c) * F + t) x⟩

def chanCount (kd : List (Key × Nat)) (F : Nat) (key : Key) : Nat :=
  match dLookup kd key with
  | some n => n / F
  | none => 0

/-- `combine_axes((0, 1))` on a scalar block: `(c, F, x, y) -> (c*F, x, y)`, first `c` channels -/
def from1dScalar {R : Type} (F : Nat) (img : BlkE R) (c : Nat) : Blk2 R :=
  ⟨c * F, fun ch x y _ => img.val (ch / F) (ch % F) x y⟩

/-- `vec_x = pseudoscalar_image[c_pseudoscalar:]`, `vec_y = scalar_image[c_scalar:]`,
`stack([vec_x, vec_y], -1)`, `combine_axes((0, 1))` -/
def from1dVector {R : Type} (F : Nat) (pImg sImg : BlkE R) (cP cS cV : Nat) : Blk2 R :=
  ⟨cV * F, fun ch x y comp =>
    if comp = 0 then pImg.val (cP + ch / F) (ch % F) x y else sImg.val (cS + ch / F) (ch % F) x y⟩

def optEntry {B : Type} (c : Bool) (key : Key) (b : B) : List (Key × B) := if c then [(key, b)] else []

/-- the image `(c, F, x, y)` read off the 1-D block under `key` (a default where the code asserts
the block to be present: `from1dValid` says when the code would raise) -/
def from1dImg {R : Type} [Inhabited R] (F ny : Nat) (z : MI1 R) (key : Key) : BlkE R :=
  ((dLookup z key).map (img1 F ny)).getD ⟨0, fun _ _ _ _ => default⟩

/-- `Climate1D.from1d` -/
def climateFrom1d {R : Type} [Inhabited R] (cfg : ClimCfg) (z : MI1 R) : MI2 R :=
  let kd := dictOf cfg.outputKeys
  let F := cfg.future
  let cS := chanCount kd F (0, 0)
  let cP := chanCount kd F (0, 1)
  let cV := chanCount kd F (1, 0)
  let sI := from1dImg F cfg.ny z (0, 0)
  let pI := from1dImg F cfg.ny z (0, 1)
  optEntry (dLookup kd (0, 0)).isSome (0, 0) (from1dScalar F sI cS) ++
  optEntry (dLookup kd (0, 1)).isSome (0, 1) (from1dScalar F pI cP) ++
  optEntry (dLookup kd (1, 0)).isSome (1, 0) (from1dVector F pI sI cP cS cV)

/-- what `from1d` accepts -/
def from1dValid {R : Type} (cfg : ClimCfg) (z : MI1 R) : Bool :=
  let kd := dictOf cfg.outputKeys
  let F := cfg.future
  let cS := chanCount kd F (0, 0)
  let cP := chanCount kd F (0, 1)
  let cV := chanCount kd F (1, 0)
  let okBlk (key : Key) (want : Nat) : Bool :=
    match dLookup z key with
    | none => true
    | some b => decide (b.rows % (cfg.ny * F) = 0) && decide (b.rows / F / cfg.ny = want)
  decide (0 < F) && decide (0 < cfg.ny) && decide (0 < cfg.nx) &&
  z.all (fun kb => decide (kb.2.rows % F = 0)) &&
  okBlk (0, 0) (cS + cV) && okBlk (0, 1) (cP + cV) &&
  (!(dLookup kd (0, 0)).isSome || (dLookup z (0, 0)).isSome) &&
  (!(dLookup kd (0, 1)).isSome || (dLookup z (0, 1)).isSome) &&
  (!(dLookup kd (1, 0)).isSome || ((dLookup z (0, 0)).isSome && (dLookup z (0, 1)).isSome))

/-! ### the axis reflections used by `Climate1D` -/

/-- index reversal on an axis of extent `n`; the identity outside the range, so that it is an
involution of `ℕ` -/
def rev (n i : Nat) : Nat := if i < n then n - 1 - i else i

def sgn {R : Type} [Neg R] (neg : Bool) (v : R) : R := if neg then -v else v

/-- sign of `det(g)^p · g_{comp,comp}^k` for `g = diag(-1, 1)` (longitude reflection), `k ≤ 1` -/
def signLon (key : Key) (comp : Nat) : Bool := xor (key.2 % 2 == 1) (key.1 != 0 && comp == 0)

/-- the same for `g = diag(1, -1)` (equator reflection) -/
def signEq (key : Key) (comp : Nat) : Bool := xor (key.2 % 2 == 1) (key.1 != 0 && comp != 0)

/-- `times_group_element(diag(-1, 1))` on a 2-D multi-image of order ≤ 1 -/
def flipLon2 {R : Type} [Neg R] (nx : Nat) (x : MI2 R) : MI2 R :=
  x.map fun kb => (kb.1, ⟨kb.2.ch, fun c i j comp => sgn (signLon kb.1 comp) (kb.2.val c (rev nx i) j comp)⟩)

/-- `times_group_element(diag(1, -1))` on a 2-D multi-image of order ≤ 1 -/
def flipEq2 {R : Type} [Neg R] (ny : Nat) (x : MI2 R) : MI2 R :=
  x.map fun kb => (kb.1, ⟨kb.2.ch, fun c i j comp => sgn (signEq kb.1 comp) (kb.2.val c i (rev ny j) comp)⟩)

/-- `times_group_element([[-1]])` on a 1-D multi-image (scalars and pseudo-scalars) -/
def flip1 {R : Type} [Neg R] (nx : Nat) (z : MI1 R) : MI1 R :=
  z.map fun kb => (kb.1, ⟨kb.2.rows, fun r i => sgn (kb.1.2 % 2 == 1) (kb.2.val r (rev nx i))⟩)

/-- `MultiImage.__add__` on two results of `from1d` (identical key lists: pairing by key and by
position coincide; `__add__` itself belongs to C12) -/
def add2 {R : Type} [Add R] (a b : MI2 R) : MI2 R :=
  List.zipWith (fun p q => (p.1, ⟨p.2.ch, fun c i j comp => p.2.val c i j comp + q.2.val c i j comp⟩)) a b

def map2 {R : Type} (h : R → R) (a : MI2 R) : MI2 R :=
  a.map fun kb => (kb.1, ⟨kb.2.ch, fun c i j comp => h (kb.2.val c i j comp)⟩)

/-- the combination step of `Climate1D.__call__`: `(x1 + x2) / 2` with
`x1 = from1d(a)`, `x2 = from1d(b).times_group_element(equator_flip)` -/
def climateCombine {R : Type} [Inhabited R] [Add R] [Neg R] (half : R → R) (cfg : ClimCfg)
    (a b : MI1 R) : MI2 R :=
  map2 half (add2 (climateFrom1d cfg a) (flipEq2 cfg.ny (climateFrom1d cfg b)))

/-- `Climate1D.__call__` around an arbitrary inner 1-D model -/
def climateCall {R : Type} [Inhabited R] [Add R] [Neg R] (half : R → R) (cfg : ClimCfg)
    (inner : MI1 R → MI1 R) (x : MI2 R) : MI2 R :=
  climateCombine half cfg (inner (climateTo1d cfg x)) (inner (climateTo1d cfg (flipEq2 cfg.ny x)))

/-! ## ModelWrapper -/

/-- block `(channels, spatial…, tensor…)` with flat spatial and flat tensor index -/
structure BlkT (R : Type) where
  ch : Nat
  val : Nat → Nat → Nat → R

def catT {R : Type} (a b : BlkT R) : BlkT R :=
  ⟨a.ch + b.ch, fun c p t => if c < a.ch then a.val c p t else b.val (c - a.ch) p t⟩

/-- `(c, spatial, tensor) -> (spatial, c, tensor) -> (spatial, c*D^k) -> (c*D^k, spatial)` -/
def flattenT {R : Type} (D k : Nat) (b : BlkT R) : BlkT R :=
  ⟨b.ch * D ^ k, fun s p _ => b.val (s / D ^ k) p (s % D ^ k)⟩

/-- `to_scalar_multi_image` (a dict with at most the key `(0,0)`) -/
def toScalar {R : Type} (D : Nat) (x : List (Key × BlkT R)) : List (Key × BlkT R) :=
  appendAll catT [] (x.map fun kb => ((0, 0), flattenT D kb.1.1 kb.2))

/-- the `append` calls of `from_scalar_multi_image(layout)`, `idx` being the running offset -/
def fromScalarCalls {R : Type} (D : Nat) (arr : BlkT R) : Nat → List (Key × Nat) → List (Key × BlkT R)
  | _, [] => []
  | idx, (key, n) :: rest =>
    ((key.1, key.2 % 2), (⟨n, fun c p t => arr.val (idx + (c * D ^ key.1 + t)) p 0⟩ : BlkT R)) ::
      fromScalarCalls D arr (idx + n * D ^ key.1) rest

def fromScalar {R : Type} (D : Nat) (layout : List (Key × Nat)) (arr : BlkT R) : List (Key × BlkT R) :=
  appendAll catT [] (fromScalarCalls D arr 0 layout)

def layoutSize (D : Nat) (layout : List (Key × Nat)) : Nat :=
  layout.foldl (fun acc kn => acc + kn.2 * D ^ kn.1.1) 0

/-- `ModelWrapper.__call__` around a plain array model; `none` where the code raises `KeyError`
(empty input) -/
def modelWrapperCall {R : Type} (D : Nat) (outputKeys : List (Key × Nat)) (inner : BlkT R → BlkT R)
    (x : List (Key × BlkT R)) : Option (List (Key × BlkT R)) :=
  (dLookup (toScalar D x) (0, 0)).map fun arr => fromScalar D outputKeys (inner arr)

def sigT {R : Type} (x : List (Key × BlkT R)) : List (Key × Nat) := x.map fun kb => (kb.1, kb.2.ch)

end GinjaxVerif.C10
