import GinjaxVerif.Lemmas.Layer
import GinjaxVerif.Lemmas.ConvShift
import GinjaxVerif.Lemmas.SignedPerm

/-!
# The convolve-and-contract layer commutes with the symmetry group (C06): lemmas

* `actBlock`, `actMI`: the action on blocks with their declared `(k, parity)` (permute-and-flip form);
* `filterBlock_inv`: a weight combination of `g`-invariant filters is `g`-invariant (weights are scalars);
* `contract_push`: convolution followed by contraction commutes with the action
  (`sgn (t ++ t ++ t') = sgn t'`, re-indexing `t ↦ t.map σ`);
* `det_pow_combine`: `det^{p_s} · det^{(p_s+p_t)%2} = det^{p_t}`;
* `sumBox_srcPix`: the spatial sum is invariant under the pixel bijection;
* `convPartSpec_push`, `biasSpec_push`, `layerSpec_push`.
-/
namespace GinjaxVerif.Layer

open GinjaxVerif GinjaxVerif.C20 Finset

variable {R : Type} [CommRing R] {d : Nat}

/-! ### the action on blocks -/

/-- `g·b` for a block of declared type `t = (k, p)`: every channel image is transformed by the
permute-and-flip form of the action with the scalar `det(g)^p` -/
def actBlock (g : SP d) (t : Ty) (b : Block R d) : Block R d :=
  { chans := b.chans
    dims := fun i => b.dims (g.σ i)
    val := fun c y T => (pf g ((det g.mat) ^ t.2) ⟨b.dims, t.1, b.val c⟩).val y T }

/-- `g·x`: every block with its own type (same keys, same order) -/
def actMI (g : SP d) (x : MImg R d) : MImg R d := x.map (fun e => (e.1, actBlock g e.1 e.2))

/-- the code's action (`times_group_element`, model `tge`) on a block of declared type `t` -/
def tgeBlock (M : Mat d) (t : Ty) (b : Block R d) : Block R d :=
  { chans := b.chans
    dims := rotDims M b.dims
    val := fun c y T => (tge M t.2 ⟨b.dims, t.1, b.val c⟩).val y T }

def tgeMI (M : Mat d) (x : MImg R d) : MImg R d := x.map (fun e => (e.1, tgeBlock M e.1 e.2))

/-- the layer with the per-axis options transported along the axes -/
def Params.push (g : SP d) (P : Params R d) : Params R d := { P with ax := pushAx g P.ax }

theorem sigOf_actMI (g : SP d) (x : MImg R d) : sigOf (actMI g x) = sigOf x := by
  simp [sigOf, actMI, actBlock, List.map_map, Function.comp_def]

theorem sigOf_tgeMI (M : Mat d) (x : MImg R d) : sigOf (tgeMI M x) = sigOf x := by
  simp [sigOf, tgeMI, tgeBlock, List.map_map, Function.comp_def]

/-! ### small algebra -/

theorem sumIdx_mul_left (k : Nat) (c : R) (f : List (Fin d) → R) :
    sumIdx d k (fun n => c * f n) = c * sumIdx d k f := by
  induction k generalizing f with
  | zero => rfl
  | succ k ih =>
    simp only [sumIdx]
    rw [← sumFin_mul_left]
    apply sumFin_congr'
    intro a
    exact ih (fun n => f (a :: n))

theorem sumIdx_add (k : Nat) (f f' : List (Fin d) → R) :
    sumIdx d k (fun n => f n + f' n) = sumIdx d k f + sumIdx d k f' := by
  induction k generalizing f f' with
  | zero => rfl
  | succ k ih =>
    simp only [sumIdx]
    rw [← sumFin_add]
    apply sumFin_congr'
    intro a
    exact ih (fun n => f (a :: n)) (fun n => f' (a :: n))

theorem pow_mod_two_of_sq (e : Int) (he : e * e = 1) (n : Nat) : e ^ n = e ^ (n % 2) := by
  conv_lhs => rw [← Nat.div_add_mod n 2]
  rw [pow_add, pow_mul]
  have : e ^ 2 = 1 := by rw [pow_two]; exact he
  rw [this, one_pow, one_mul]

/-- `det^{p_s} · det^{(p_s+p_t)%2} = det^{p_t}` -/
theorem det_pow_combine (g : SP d) (a b : Nat) :
    (det g.mat) ^ a * (det g.mat) ^ ((a + b) % 2) = (det g.mat) ^ b := by
  rw [← pow_add, pow_mod_two_of_sq _ g.det_mul_self (a + (a + b) % 2),
    pow_mod_two_of_sq _ g.det_mul_self b]
  congr 1
  omega

/-- the sign of a contracted index pattern: `sgn (t ++ (t ++ t')) = sgn t'` -/
theorem sgn_contract (g : SP d) (t t' : List (Fin d)) : g.sgn (t ++ (t ++ t')) = g.sgn t' := by
  rw [SP.sgn_append, SP.sgn_append, ← mul_assoc, g.sgn_mul_self, one_mul]

/-- **the spatial sum over the box is invariant under the pixel bijection of `g`** -/
theorem sumBox_srcPix (g : SP d) (N : Fin d → Nat) (f : Pix d → R) :
    sumBox (fun i => N (g.σ i)) (fun y => f (g.srcPix (fun i => N (g.σ i)) y)) = sumBox N f := by
  rw [sumBox_eq, sumBox_eq]
  refine Finset.sum_bij' (fun y _ => g.srcPix (fun i => N (g.σ i)) y)
    (fun z _ => g.inv.srcPix N z) ?_ ?_ ?_ ?_ ?_
  · intro y hy; rw [mem_boxF] at hy ⊢; exact srcPix_inBox g N y hy
  · intro z hz; rw [mem_boxF] at hz ⊢; exact inv_srcPix_inBox g N z hz
  · intro y _; exact srcPix_left_inv g N y
  · intro z _; exact srcPix_right_inv g N z
  · intro y _; rfl

/-! ### invariant banks -/

/-- every filter of the bank is `g`-invariant as an image of its declared type `(k, p)` on the filter
box `M` — at every pixel of the box and every tensor multi-index of length `k` — and the filter box
itself is mapped to itself -/
def BankInv (g : SP d) (M : Fin d → Nat) (bank : MImg R d) : Prop :=
  (∀ i, M (g.σ i) = M i) ∧
  ∀ key F, lookup bank key = some F → ∀ f a T, InBox M a → T.length = key.1 →
    (pf g ((det g.mat) ^ key.2) ⟨M, key.1, F.val f⟩).val a T = F.val f a T

/-- the same, phrased with the extensional equality of images `Img.Equiv` -/
theorem bankInv_of_equiv (g : SP d) (M : Fin d → Nat) (bank : MImg R d) (hM : ∀ i, M (g.σ i) = M i)
    (h : ∀ key F, lookup bank key = some F → ∀ f,
      (pf g ((det g.mat) ^ key.2) (⟨M, key.1, F.val f⟩ : Img R d)).Equiv ⟨M, key.1, F.val f⟩) :
    BankInv g M bank := by
  refine ⟨hM, ?_⟩
  intro key F hF f a T ha hT
  have hs := h key F hF f
  have hd : (pf g ((det g.mat) ^ key.2) (⟨M, key.1, F.val f⟩ : Img R d)).dims = M := hs.1
  exact hs.2.2 a (by rw [hd]; exact ha) T hT

/-- **a weight combination of invariant filters is invariant** (the weights are scalars) -/
theorem filterBlock_inv (g : SP d) (P : Params R d) (hinv : BankInv g (fun j => (P.ax j).M) P.bank)
    (s t : Ty) (o c : Nat) (a : Pix d) (T : List (Fin d)) (ha : InBox (fun j => (P.ax j).M) a)
    (hT : T.length = s.1 + t.1) :
    filterBlock P s t o c a T =
      pfBank g ((det g.mat) ^ ((s.2 + t.2) % 2)) (fun j => (P.ax j).M) (filterBlock P s t) o c a T := by
  unfold filterBlock pfBank
  cases hl : lookup P.bank (filterKey s t) with
  | none => simp
  | some F =>
    simp only
    have h := hinv.2 (filterKey s t) F hl
    rw [← sumFin_mul_left, ← sumFin_mul_left]
    apply sumFin_congr'
    intro f
    rw [← h f.val a T ha (by simpa [filterKey] using hT)]
    simp only [pf, filterKey]
    ring

/-! ### convolution followed by contraction commutes with the action -/

/-- the convolution at tensor multi-index `n` only reads the filter at `n.drop kI`, on its box -/
theorem convSpec_congr_flt (cfg : ConvCfg d) (img flt flt' : Bank R d) (n : List (Fin d))
    (hfl : ∀ o c a, InBox (fun j => (cfg.ax j).M) a →
      flt o c a (n.drop cfg.kI) = flt' o c a (n.drop cfg.kI))
    (b o : Nat) (x : Pix d) :
    convSpec cfg img flt b o x n = convSpec cfg img flt' b o x n := by
  simp only [convSpec]
  apply sumFin_congr'
  intro c
  rw [sumBox_eq, sumBox_eq]
  apply Finset.sum_congr rfl
  intro a ha
  rw [mem_boxF] at ha
  rw [hfl o c.val a ha]

/-- index-level equivariance of `convContractSpec`: transform the image (scalar `cI`), use a filter
that is invariant with scalar `cF`, transport the options; the result is transformed with the
*contracted* tensor order (only the trailing index list `t'` picks up signs) and scalar `cI·cF`. -/
theorem contract_push (g : SP d) (cfg : ConvCfg d) (hs : ∀ j, (cfg.ax j).Sym)
    (hf : ∀ j, (cfg.ax j).Fits) (cI cF : Int) (img flt : Bank R d)
    (hflt : ∀ o c a T, InBox (fun j => (cfg.ax (g.σ j)).M) a → T.length = cfg.kF →
      flt o c a T = pfBank g cF (fun j => (cfg.ax j).M) flt o c a T)
    (b o : Nat) (i' : Pix d) (t' : List (Fin d)) (ht' : cfg.kI + t'.length = cfg.kF) :
    convContractSpec (cfg.push g) (pfBank g cI (fun j => (cfg.ax j).N) img) flt b o i' t'
      = ((cI * cF : Int) : R) * (((g.sgn t' : Int) : R) *
          convContractSpec cfg img flt b o (g.srcPix (fun i => (cfg.ax (g.σ i)).outLen) i')
            (t'.map g.σ)) := by
  unfold convContractSpec
  have hkI : (cfg.push g).kI = cfg.kI := rfl
  rw [hkI]
  -- 1. replace the filter by its transformed copy (they agree on the filter box), 2. push `g` through
  have step : ∀ t : List (Fin d), t.length = cfg.kI →
      convSpec (cfg.push g) (pfBank g cI (fun j => (cfg.ax j).N) img) flt b o i' (t ++ (t ++ t'))
        = ((cI * cF : Int) : R) * (((g.sgn t' : Int) : R) *
            convSpec cfg img flt b o (g.srcPix (fun i => (cfg.ax (g.σ i)).outLen) i')
              (t.map g.σ ++ (t.map g.σ ++ t'.map g.σ))) := by
    intro t ht
    rw [convSpec_congr_flt (cfg.push g) _ flt (pfBank g cF (fun j => (cfg.ax j).M) flt)
      (t ++ (t ++ t')) (fun o c a ha => hflt o c a _ ha (by
        have : (cfg.push g).kI = cfg.kI := rfl
        rw [this, List.drop_left' ht, List.length_append, ht, ht']))]
    rw [convSpec_push g cfg hs hf cI cF img flt b o i' (t ++ (t ++ t')), sgn_contract]
    simp only [List.map_append]
  rw [sumIdx_congr_len cfg.kI _ _ step]
  rw [sumIdx_map g.σ cfg.kI (fun u => ((cI * cF : Int) : R) * (((g.sgn t' : Int) : R) *
      convSpec cfg img flt b o (g.srcPix (fun i => (cfg.ax (g.σ i)).outLen) i')
        (u ++ (u ++ t'.map g.σ))))]
  rw [sumIdx_mul_left, sumIdx_mul_left]

/-! ### the convolution stage of the layer -/

theorem actBlock_val_eq (g : SP d) (t : Ty) (b : Block R d) (N : Fin d → Nat) (hd : b.dims = N) :
    (fun (_ : Nat) c y T => (actBlock g t b).val c y T)
      = pfBank g ((det g.mat) ^ t.2) N (fun _ c y T => b.val c y T) := by
  funext _ c y T
  simp only [actBlock, pf, pfBank, hd]

/-- **the defining sum commutes with the action**: on the transformed input, with the transported
options and a `g`-invariant bank, the convolution part of target type `t` is the transformed
convolution part with scalar `det^{p_t}` and the tensor signs of order `k_t`.  Holds for every
weight value. -/
theorem convPartSpec_push (g : SP d) (P : Params R d) (hs : ∀ j, (P.ax j).Sym)
    (hf : ∀ j, (P.ax j).Fits) (hinv : BankInv g (fun j => (P.ax j).M) P.bank) (x : MImg R d)
    (hx : ∀ e ∈ x, e.2.dims = fun j => (P.ax j).N) (t : Ty) (o : Nat) (i' : Pix d)
    (T : List (Fin d)) (hT : T.length = t.1) :
    convPartSpec (P.push g) (actMI g x) t o i' T
      = (((det g.mat) ^ t.2 : Int) : R) * (((g.sgn T : Int) : R) *
          convPartSpec P x t o (g.srcPix (fun i => (P.ax (g.σ i)).outLen) i') (T.map g.σ)) := by
  unfold convPartSpec actMI
  induction x with
  | nil => simp
  | cons e x ih =>
    have ih' := ih (fun e' he' => hx e' (List.mem_cons_of_mem _ he'))
    simp only [List.map_cons, List.foldr_cons]
    rw [ih']
    have hterm :
        (if hasFilter (bankSig (P.push g)) e.1 t then
          convContractSpec (layerCfg (P.push g).ax e.1 t (actBlock g e.1 e.2).chans 0)
            (fun _ c y T => (actBlock g e.1 e.2).val c y T) (filterBlock (P.push g) e.1 t) 0 o i' T
          else 0)
        = (((det g.mat) ^ t.2 : Int) : R) * (((g.sgn T : Int) : R) *
          (if hasFilter (bankSig P) e.1 t then
            convContractSpec (layerCfg P.ax e.1 t e.2.chans 0) (fun _ c y T => e.2.val c y T)
              (filterBlock P e.1 t) 0 o (g.srcPix (fun i => (P.ax (g.σ i)).outLen) i') (T.map g.σ)
           else 0)) := by
      have hb : bankSig (P.push g) = bankSig P := rfl
      have hfb : filterBlock (P.push g) e.1 t = filterBlock P e.1 t := rfl
      rw [hb, hfb]
      split
      · have hcfg : layerCfg (P.push g).ax e.1 t (actBlock g e.1 e.2).chans 0
            = (layerCfg P.ax e.1 t e.2.chans 0).push g := rfl
        rw [hcfg, actBlock_val_eq g e.1 e.2 (fun j => (P.ax j).N) (hx e (by simp))]
        refine (contract_push g (layerCfg P.ax e.1 t e.2.chans 0) hs hf ((det g.mat) ^ e.1.2)
          ((det g.mat) ^ ((e.1.2 + t.2) % 2)) (fun _ c y T => e.2.val c y T) (filterBlock P e.1 t)
          (fun o c a T ha hTl => filterBlock_inv g P hinv e.1 t o c a T (by
            intro j
            have := ha j
            rw [show (layerCfg P.ax e.1 t e.2.chans 0).ax = P.ax from rfl, hinv.1 j] at this
            exact this) hTl) 0 o i' T (by simp [layerCfg, hT])).trans ?_
        rw [det_pow_combine]
        rfl
      · simp
    rw [hterm]
    ring

/-! ### the bias stage -/

/-- **the bias commutes with the action**: the additive constant only touches `(0,0)` blocks, on
which the action fixes constants; the mean-scaled bias commutes because the spatial sum over the box
is invariant under the pixel bijection and the tensor part transforms monomially. -/
theorem biasSpec_push (g : SP d) (mode : BiasMode) (bias : Ty → Nat → R) (mu : R) (dims : Fin d → Nat)
    (t : Ty) (c c' : Nat → Pix d → List (Fin d) → R)
    (hc : ∀ o i' T, T.length = t.1 → c' o i' T = (((det g.mat) ^ t.2 : Int) : R) *
      (((g.sgn T : Int) : R) * c o (g.srcPix (fun i => dims (g.σ i)) i') (T.map g.σ)))
    (o : Nat) (i' : Pix d) (T : List (Fin d)) (hT : T.length = t.1) :
    biasSpec mode bias mu (fun i => dims (g.σ i)) t c' o i' T
      = (((det g.mat) ^ t.2 : Int) : R) * (((g.sgn T : Int) : R) *
          biasSpec mode bias mu dims t c o (g.srcPix (fun i => dims (g.σ i)) i') (T.map g.σ)) := by
  have hsum : sumBox (fun i => dims (g.σ i)) (fun y => c' o y T)
      = (((det g.mat) ^ t.2 : Int) : R) * (((g.sgn T : Int) : R) *
          sumBox dims (fun y => c o y (T.map g.σ))) := by
    simp only [hc _ _ T hT]
    rw [sumBox_mul_left, sumBox_mul_left,
      sumBox_srcPix g dims (fun y => c o y (T.map g.σ))]
  unfold biasSpec
  by_cases hA : t = (0, 0) ∧ (mode = .auto ∨ mode = .scalar ∨ mode = .true_)
  · rw [if_pos hA, if_pos hA, hc _ _ T hT]
    have hT0 : T = [] := by
      have : T.length = 0 := by rw [hT, hA.1]
      exact List.eq_nil_of_length_eq_zero this
    have ht2 : t.2 = 0 := by rw [hA.1]
    subst hT0
    simp [ht2]
  · rw [if_neg hA, if_neg hA]
    by_cases hM : mode = .mean ∨ ((mode = .auto ∨ mode = .true_) ∧ t ≠ (0, 0))
    · rw [if_pos hM, if_pos hM, hsum, hc _ _ T hT]
      ring
    · rw [if_neg hM, if_neg hM, hc _ _ T hT]

/-- **the layer's spec commutes with the action** (permute-and-flip form) -/
theorem layerSpec_push (g : SP d) (P : Params R d) (hs : ∀ j, (P.ax j).Sym)
    (hf : ∀ j, (P.ax j).Fits) (hinv : BankInv g (fun j => (P.ax j).M) P.bank) (x : MImg R d)
    (hx : ∀ e ∈ x, e.2.dims = fun j => (P.ax j).N) (t : Ty) (o : Nat) (i' : Pix d)
    (T : List (Fin d)) (hT : T.length = t.1) :
    layerSpec (P.push g) (actMI g x) t o i' T
      = (((det g.mat) ^ t.2 : Int) : R) * (((g.sgn T : Int) : R) *
          layerSpec P x t o (g.srcPix (fun i => outDims P (g.σ i)) i') (T.map g.σ)) := by
  unfold layerSpec
  have hd : outDims (P.push g) = fun i => outDims P (g.σ i) := rfl
  rw [hd]
  exact biasSpec_push g P.mode P.bias P.mu (outDims P) t (convPartSpec P x t)
    (convPartSpec (P.push g) (actMI g x) t)
    (fun o i' T hT => convPartSpec_push g P hs hf hinv x hx t o i' T hT) o i' T hT

/-! ### the spec only looks at pixels inside the input box -/

theorem convPartSpec_congr (P : Params R d) (hN : ∀ j, 0 < (P.ax j).N) (x : MImg R d)
    (f f' : Ty → Block R d → Block R d) (hch : ∀ e ∈ x, (f e.1 e.2).chans = (f' e.1 e.2).chans)
    (hv : ∀ e ∈ x, ∀ c y T, InBox (fun j => (P.ax j).N) y → (f e.1 e.2).val c y T = (f' e.1 e.2).val c y T)
    (t : Ty) (o : Nat) (i : Pix d) (T : List (Fin d)) :
    convPartSpec P (x.map (fun e => (e.1, f e.1 e.2))) t o i T
      = convPartSpec P (x.map (fun e => (e.1, f' e.1 e.2))) t o i T := by
  unfold convPartSpec
  induction x with
  | nil => rfl
  | cons e x ih =>
    simp only [List.map_cons, List.foldr_cons]
    rw [ih (fun e' he' => hch e' (List.mem_cons_of_mem _ he'))
      (fun e' he' => hv e' (List.mem_cons_of_mem _ he'))]
    congr 1
    split
    · rw [hch e (by simp)]
      unfold convContractSpec
      apply sumIdx_congr
      intro u
      exact convSpec_congr (layerCfg P.ax e.1 t (f' e.1 e.2).chans 0) hN _ _ _ _
        (fun _ c y T hy => hv e (by simp) c y T hy) (fun _ _ _ _ _ => rfl) 0 o i _
    · rfl

/-! ### the transformed call really uses the transported options -/

/-- padding specifications that do not distinguish the axes (every string mode, integer padding,
and explicit pairs that are the same on all axes) -/
def _root_.GinjaxVerif.PadMode.AxisIndep (d : Nat) : PadMode → Prop
  | .explicit pads => ∀ i j : Fin d, pads[i.val]? = pads[j.val]?
  | _ => True

theorem any_perm (σ : Equiv.Perm (Fin d)) (f : Fin d → Bool) :
    (List.finRange d).any (fun j => f (σ j)) = (List.finRange d).any f := by
  rw [Bool.eq_iff_iff]
  simp only [List.any_eq_true, List.mem_finRange, true_and]
  constructor
  · rintro ⟨j, h⟩; exact ⟨σ j, h⟩
  · rintro ⟨j, h⟩; exact ⟨σ.symm j, by simpa using h⟩

theorem dispatchAxis_indep (mode : PadMode) (hm : mode.AxisIndep d) (anyT t : Bool) (M rd : Nat)
    (i j : Fin d) : dispatchAxis mode anyT t M rd i.val = dispatchAxis mode anyT t M rd j.val := by
  cases mode with
  | explicit pads => simp only [dispatchAxis]; rw [hm i j]
  | _ => rfl

/-- **the padding dispatch of `convolve_ravel` on the transformed input yields the transported
options**: the layer object is the same in `layer(g·x)` (same filters, stride, dilations, padding
argument); the extents and the `is_torus` flags travel with the image.  When the layer's own options
do not distinguish the axes that `g` exchanges, the dispatch on `(N∘σ, is_torus∘σ)` is `pushAx g`
of the dispatch on `(N, is_torus)`. -/
theorem dispatch_push (g : SP d) (mode : PadMode) (hm : mode.AxisIndep d)
    (torus : Fin d → Bool) (N M stride rd ld : Fin d → Nat)
    (hM : ∀ i, M (g.σ i) = M i) (hst : ∀ i, stride (g.σ i) = stride i)
    (hrd : ∀ i, rd (g.σ i) = rd i) (hld : ∀ i, ld (g.σ i) = ld i) (ax : Fin d → AxisOpt)
    (h : dispatch mode torus N M stride rd ld = some ax) :
    dispatch mode (fun i => torus (g.σ i)) (fun i => N (g.σ i)) M stride rd ld
      = some (pushAx g ax) := by
  have hany : (List.finRange d).any (fun i => torus (g.σ i)) = (List.finRange d).any torus :=
    any_perm g.σ torus
  have key : ∀ j : Fin d,
      dispatchAxis mode ((List.finRange d).any fun i => torus (g.σ i)) (torus (g.σ j)) (M j) (rd j) j.val
        = dispatchAxis mode ((List.finRange d).any torus) (torus (g.σ j)) (M (g.σ j)) (rd (g.σ j))
            (g.σ j).val := by
    intro j
    rw [hany, hM, hrd]
    exact dispatchAxis_indep mode hm _ _ _ _ j (g.σ j)
  simp only [dispatch] at h ⊢
  split at h
  · cases h
  · rename_i hc1
    rw [if_neg hc1]
    split at h
    · rename_i hc2
      cases h
      have hc2' : (List.finRange d).all (fun j =>
          (dispatchAxis mode ((List.finRange d).any fun i => torus (g.σ i)) (torus (g.σ j)) (M j)
            (rd j) j.val).isSome) = true := by
        rw [List.all_eq_true] at hc2 ⊢
        intro j _
        rw [key j]
        exact hc2 (g.σ j) (List.mem_finRange _)
      rw [if_pos hc2']
      congr 1
      funext j
      simp only [pushAx, key j, hM, hst, hrd, hld]
    · cases h

/-! ### cyclic translations on toroidal axes -/

/-- the input block translated cyclically by `s` on the axes flagged in `tor` -/
def shiftBlock (N : Fin d → Nat) (tor : Fin d → Bool) (s : Pix d) (b : Block R d) : Block R d :=
  { b with val := fun c y T => b.val c (shiftPix N tor s y) T }

def shiftMI (N : Fin d → Nat) (tor : Fin d → Bool) (s : Pix d) (x : MImg R d) : MImg R d :=
  x.map (fun e => (e.1, shiftBlock N tor s e.2))

theorem shift_unshift (N y s : Int) (hy : 0 ≤ y ∧ y < N) : ((y - s) % N - (-s)) % N = y := by
  have : ((y - s) % N - (-s)) % N = (y - s - (-s)) % N := by
    rw [Int.sub_emod, Int.emod_emod_of_dvd _ (dvd_refl _), ← Int.sub_emod]
  rw [this]
  have : y - s - -s = y := by ring
  rw [this]
  exact Int.emod_eq_of_lt hy.1 hy.2

theorem shiftPix_inBox (D N : Fin d → Nat) (tor : Fin d → Bool) (s : Pix d)
    (hD : ∀ j, tor j = true → D j = N j ∧ 0 < N j) (y : Pix d) (hy : InBox D y) :
    InBox D (shiftPix N tor s y) := by
  intro j
  simp only [shiftPix]
  by_cases hj : tor j = true
  · obtain ⟨h1, h2⟩ := hD j hj
    have hN : (0 : Int) < N j := by exact_mod_cast h2
    rw [if_pos hj, h1]
    exact ⟨Int.emod_nonneg _ (ne_of_gt hN), Int.emod_lt_of_pos _ hN⟩
  · rw [if_neg hj]; exact hy j

/-- the spatial sum over a box whose toroidal axes have the image's extent is shift-invariant -/
theorem sumBox_shift (D N : Fin d → Nat) (tor : Fin d → Bool) (s : Pix d)
    (hD : ∀ j, tor j = true → D j = N j ∧ 0 < N j) (f : Pix d → R) :
    sumBox D (fun y => f (shiftPix N tor s y)) = sumBox D f := by
  rw [sumBox_eq, sumBox_eq]
  have hinv : ∀ (s : Pix d) (y : Pix d), InBox D y →
      shiftPix N tor (fun j => -s j) (shiftPix N tor s y) = y := by
    intro s y hy
    funext j
    simp only [shiftPix]
    by_cases hj : tor j = true
    · obtain ⟨h1, _⟩ := hD j hj
      have := hy j
      rw [h1] at this
      simp only [hj, if_true]
      exact shift_unshift _ _ _ this
    · simp [hj]
  refine Finset.sum_bij' (fun y _ => shiftPix N tor s y)
    (fun z _ => shiftPix N tor (fun j => -s j) z) ?_ ?_ ?_ ?_ ?_
  · intro y hy; rw [mem_boxF] at hy ⊢; exact shiftPix_inBox D N tor s hD y hy
  · intro z hz; rw [mem_boxF] at hz ⊢; exact shiftPix_inBox D N tor _ hD z hz
  · intro y hy; rw [mem_boxF] at hy; exact hinv s y hy
  · intro z hz
    rw [mem_boxF] at hz
    have := hinv (fun j => -s j) z hz
    simpa using this
  · intro y _; rfl

theorem convPartSpec_shift (P : Params R d) (tor : Fin d → Bool)
    (htor : ∀ j, tor j = true → (P.ax j).TorusAxis) (s : Pix d) (x : MImg R d) (t : Ty) (o : Nat)
    (i : Pix d) (hi : InBox (outDims P) i) (T : List (Fin d)) :
    convPartSpec P (shiftMI (fun j => (P.ax j).N) tor s x) t o i T
      = convPartSpec P x t o (shiftPix (fun j => (P.ax j).N) tor s i) T := by
  unfold convPartSpec shiftMI
  induction x with
  | nil => rfl
  | cons e x ih =>
    simp only [List.map_cons, List.foldr_cons]
    rw [ih]
    congr 1
    split
    · unfold convContractSpec
      apply sumIdx_congr
      intro u
      exact conv_shift (layerCfg P.ax e.1 t e.2.chans 0) tor htor s (fun _ c y T => e.2.val c y T)
        (filterBlock P e.1 t) 0 o i hi _
    · rfl

theorem biasSpec_shift (mode : BiasMode) (bias : Ty → Nat → R) (mu : R) (D N : Fin d → Nat)
    (tor : Fin d → Bool) (s : Pix d) (hD : ∀ j, tor j = true → D j = N j ∧ 0 < N j) (t : Ty)
    (c c' : Nat → Pix d → List (Fin d) → R)
    (hc : ∀ o i T, InBox D i → c' o i T = c o (shiftPix N tor s i) T)
    (o : Nat) (i : Pix d) (hi : InBox D i) (T : List (Fin d)) :
    biasSpec mode bias mu D t c' o i T = biasSpec mode bias mu D t c o (shiftPix N tor s i) T := by
  have hsum : sumBox D (fun y => c' o y T) = sumBox D (fun y => c o y T) := by
    rw [← sumBox_shift D N tor s hD (fun y => c o y T), sumBox_eq, sumBox_eq]
    apply Finset.sum_congr rfl
    intro y hy
    rw [mem_boxF] at hy
    exact hc o y T hy
  unfold biasSpec
  rw [hc o i T hi, hsum]

/-- **on toroidal axes (TORUS wrap, no image dilation) the layer's spec commutes with every cyclic
translation** -/
theorem layerSpec_shift (P : Params R d) (tor : Fin d → Bool)
    (htor : ∀ j, tor j = true → (P.ax j).TorusAxis) (s : Pix d) (x : MImg R d) (t : Ty) (o : Nat)
    (i : Pix d) (hi : InBox (outDims P) i) (T : List (Fin d)) :
    layerSpec P (shiftMI (fun j => (P.ax j).N) tor s x) t o i T
      = layerSpec P x t o (shiftPix (fun j => (P.ax j).N) tor s i) T := by
  unfold layerSpec
  apply biasSpec_shift P.mode P.bias P.mu (outDims P) (fun j => (P.ax j).N) tor s _ t
    (convPartSpec P x t) _ _ o i hi T
  · intro j hj
    exact ⟨torus_outLen _ (htor j hj), (htor j hj).2.2.2.2.1⟩
  · intro o i T hi
    exact convPartSpec_shift P tor htor s x t o i hi T

end GinjaxVerif.Layer
