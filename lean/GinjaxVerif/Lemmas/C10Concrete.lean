import GinjaxVerif.Lemmas.C10Average
import GinjaxVerif.Lemmas.ActionLaws
import Mathlib.Algebra.Group.Pi.Basic
import Mathlib.Algebra.BigOperators.Group.List.Basic

/-!
# C10 ↔ C02: the abstract averaging theorem instantiated with the concrete image action

The hypotheses of `C10.avg_equivariant_of_laws` are discharged by the action laws of C02 for every
operator whose axis permutation preserves the extents `N` (all of `B_d` on square/cubic images, the
flip group `C2^d` on any extents).  Images are total functions of the pixel (the permute-and-flip
form is a bijection of `ℤ^d`, so the laws hold as equalities); on the box the action is the model
`tge` of `times_group_element` (`actV_eq_tge`).
-/
namespace GinjaxVerif.C10

open GinjaxVerif

variable {R : Type} [CommRing R] {d : Nat}

/-- values of one image as a total function of (pixel, tensor index) -/
abbrev V (R : Type) (d : Nat) := (Fin d → Int) → List (Fin d) → R

/-- the action on one image of parity `p` and extents `N` (permute-and-flip form) -/
def actV (N : Fin d → Nat) (g : SP d) (p : Nat) (v : V R d) : V R d :=
  fun y n => (((det g.mat) ^ p : Int) : R) * (((g.sgn n : Int) : R) * v (g.srcPix N y) (n.map g.σ))

/-- operators whose axis permutation preserves the extents -/
def Preserves (N : Fin d → Nat) (g : SP d) : Prop := ∀ i, N (g.σ i) = N i

theorem preserves_fun {N : Fin d → Nat} {g : SP d} (h : Preserves N g) : (fun i => N (g.σ i)) = N :=
  funext h

/-- on the box, `actV` is the model of the code's `times_group_element` -/
theorem actV_eq_tge (N : Fin d → Nat) (g : SP d) (hg : Preserves N g) (p k : Nat) (v : V R d)
    (y : Fin d → Int) (hy : InBox N y) (n : List (Fin d)) :
    (tge g.mat p ⟨N, k, v⟩).val y n = actV N g p v y n := by
  have hy' : InBox (tge g.mat p (⟨N, k, v⟩ : Img R d)).dims y := by
    simp only [tge, rotDims_mat', preserves_fun hg]; exact hy
  rw [(tge_seq_pf g p (⟨N, k, v⟩ : Img R d)).2.2 y hy' n]
  simp only [pf, actV, preserves_fun hg]

instance : Mul (SP d) := ⟨SP.mul⟩

theorem mul_def (g h : SP d) : g * h = g.mul h := rfl

theorem preserves_mul {N : Fin d → Nat} {g h : SP d} (hg : Preserves N g) (hh : Preserves N h) :
    Preserves N (g * h) := by
  intro i; rw [mul_def, SP.mul_σ, hh, hg]

theorem preserves_inv {N : Fin d → Nat} {g : SP d} (hg : Preserves N g) : Preserves N g.inv := by
  intro i
  have := hg (g.σ.symm i)
  simp only [Equiv.apply_symm_apply] at this
  rw [SP.inv_σ]; exact this.symm

theorem inv_mul_rev (g h : SP d) : (g * h).inv = h.inv * g.inv := by
  apply SP.ext'
  · intro i; simp [mul_def]
  · intro i; simp [mul_def, mul_comm]

theorem actV_mul (N : Fin d → Nat) (g h : SP d) (hg : Preserves N g) (hh : Preserves N h) (p : Nat)
    (v : V R d) : actV N (g * h) p v = actV N g p (actV N h p v) := by
  funext y n
  have hsrc := SP.srcPix_mul g h N y
  rw [preserves_fun hh] at hsrc
  have hgh : (fun i => N (h.σ (g.σ i))) = N := by funext i; rw [hh, hg]
  rw [hgh] at hsrc
  simp only [actV, mul_def, SP.det_mul', SP.sgn_mul, SP.map_mul, mul_pow, ← hsrc]
  push_cast
  ring

theorem actV_one (N : Fin d → Nat) (p : Nat) (v : V R d) : actV N SP.one p v = v := by
  funext y n
  simp [actV, SP.det_one', SP.sgn_one, SP.map_one, SP.srcPix_one]

theorem actV_cancel (N : Fin d → Nat) (g : SP d) (hg : Preserves N g) (p : Nat) (v : V R d) :
    actV N g p (actV N g.inv p v) = v := by
  rw [← actV_mul N g g.inv hg (preserves_inv hg), mul_def, SP.mul_inv, actV_one]

theorem actV_add (N : Fin d → Nat) (g : SP d) (p : Nat) (u v : V R d) :
    actV N g p (u + v) = actV N g p u + actV N g p v := by
  funext y n; simp only [actV, Pi.add_apply]; ring

theorem actV_smul (N : Fin d → Nat) (g : SP d) (p : Nat) (r : R) (v : V R d) :
    actV N g p (fun y n => r * v y n) = fun y n => r * actV N g p v y n := by
  funext y n; simp only [actV]; ring

/-- a multi-image with blocks indexed by `ι` (type and channel), block `i` having parity `par i` -/
def actMI {ι : Type} (N : Fin d → Nat) (par : ι → Nat) (g : SP d) (x : ι → V R d) : ι → V R d :=
  fun i => actV N g (par i) (x i)

/-- **Group averaging of an arbitrary model is equivariant for the concrete image action.**
For every operator list of signed permutations preserving the extents and closed under right
multiplication by `h`, every function `f` between multi-images (any types, parities, channel
counts), and every scale `r` (the code's `1/len(operators)`):
`r · Σ_g g⁻¹·f(g·(h·x)) = h · (r · Σ_g g⁻¹·f(g·x))`, where `g⁻¹` has matrix `g.matᵀ`. -/
theorem groupAverage_equivariant_concrete {ι κ : Type} (N : Fin d → Nat) (parX : ι → Nat)
    (parY : κ → Nat) (ops : List (SP d)) (hops : ∀ g ∈ ops, Preserves N g) (h : SP d)
    (hh : Preserves N h) (hclosed : (ops.map (· * h)).Perm ops)
    (f : (ι → V R d) → (κ → V R d)) (r : R) (x : ι → V R d) :
    (fun i y n => r * avgSum SP.inv (actMI N parX) (actMI N parY) ops f (actMI N parX h x) i y n)
      = actMI N parY h (fun i y n => r * avgSum SP.inv (actMI N parX) (actMI N parY) ops f x i y n) := by
  exact avg_equivariant_of_laws (M := SP d) (X := ι → V R d) (Y := κ → V R d)
    (Preserves N) SP.inv (actMI N parX) (actMI N parY) (fun y i p n => r * y i p n)
    (fun g hg => preserves_inv hg)
    (fun g h x hg hh => by funext i; exact actV_mul N g h hg hh (parX i) (x i))
    (fun g h y hg hh => by funext i; exact actV_mul N g h hg hh (parY i) (y i))
    (fun g h _ _ => inv_mul_rev g h)
    (fun g y hg => by funext i; exact actV_cancel N g hg (parY i) (y i))
    (fun g a b _ => by funext i; exact actV_add N g (parY i) (a i) (b i))
    (fun g y _ => by funext i; exact actV_smul N g (parY i) r (y i))
    ops hops h hh hclosed f x

/-! ### the general case: extents permuted by the operators (non-square images)

The action of `g` on an image of extents `D` yields extents `D ∘ σ_g`; `actV N' g` is indexed by the
extents `N'` of the RESULT.  The inner model may look at the extents of its input and is assumed to
return images of the same extents (as every model of the library does on SAME/torus inputs). -/

/-- on the box, `actV (D ∘ σ) g` is `tge` on an image of extents `D` (no hypothesis on `g`) -/
theorem actV_eq_tge' (D : Fin d → Nat) (g : SP d) (p k : Nat) (v : V R d)
    (y : Fin d → Int) (hy : InBox (fun i => D (g.σ i)) y) (n : List (Fin d)) :
    (tge g.mat p ⟨D, k, v⟩).val y n = actV (fun i => D (g.σ i)) g p v y n := by
  have hy' : InBox (tge g.mat p (⟨D, k, v⟩ : Img R d)).dims y := by
    simp only [tge, rotDims_mat']; exact hy
  rw [(tge_seq_pf g p (⟨D, k, v⟩ : Img R d)).2.2 y hy' n]
  simp only [pf, actV]

/-- fetching through `g` (result extents `M ∘ σ_g`) then through `h` (result extents `M`) -/
theorem srcPix_mul' (g h : SP d) (M : Fin d → Nat) (y : Fin d → Int) :
    h.srcPix M (g.srcPix (fun i => M (g.σ i)) y) = (g * h).srcPix (fun i => M (g.σ i)) y := by
  funext j
  simp only [SP.srcPix, mul_def, SP.mul_σ_symm, SP.mul_s, Equiv.apply_symm_apply]
  rcases g.hs (g.σ.symm (h.σ.symm j)) with a | a <;> rcases h.hs (h.σ.symm j) with b | b <;>
    simp [a, b]

/-- **composition law with the extents threaded through**: `g·(h·v) = (g h)·v` -/
theorem actV_comp (M : Fin d → Nat) (g h : SP d) (p : Nat) (v : V R d) :
    actV (fun i => M (g.σ i)) g p (actV M h p v) = actV (fun i => M (g.σ i)) (g * h) p v := by
  funext y n
  simp only [actV, mul_def, SP.det_mul', SP.sgn_mul, SP.map_mul, mul_pow]
  rw [show h.srcPix M (g.srcPix (fun i => M (g.σ i)) y) = (g.mul h).srcPix (fun i => M (g.σ i)) y
    from srcPix_mul' g h M y]
  push_cast
  ring

theorem actV_add' (N : Fin d → Nat) (g : SP d) (p : Nat) (u v : V R d) :
    actV N g p (u + v) = actV N g p u + actV N g p v := actV_add N g p u v

theorem actMI_comp {ι : Type} (M : Fin d → Nat) (par : ι → Nat) (g h : SP d) (x : ι → V R d) :
    actMI (fun i => M (g.σ i)) par g (actMI M par h x) = actMI (fun i => M (g.σ i)) par (g * h) x := by
  funext i; exact actV_comp M g h (par i) (x i)

theorem actMI_list_sum {κ : Type} (N : Fin d → Nat) (par : κ → Nat) (g : SP d)
    (l : List (κ → V R d)) : actMI N par g l.sum = (l.map (actMI N par g)).sum := by
  induction l with
  | nil =>
    funext i y n
    simp [actMI, actV]
  | cons a l ih =>
    simp only [List.sum_cons, List.map_cons, ← ih]
    funext i
    exact actV_add N g (par i) (a i) (l.sum i)

theorem inv_eq_mul_inv (g h : SP d) : g.inv = h * (g * h).inv := by
  rw [inv_mul_rev]
  show g.inv = h.mul (h.inv.mul g.inv)
  rw [← SP.mul_assoc, SP.mul_inv, SP.one_mul]

/-- the un-scaled sum the wrapper forms on an input of extents `N`:
`Σ_{g ∈ ops} g⁻¹ · f(N ∘ σ_g, g · x)` -/
def avgSumN {ι κ : Type} (parX : ι → Nat) (parY : κ → Nat) (ops : List (SP d))
    (f : (Fin d → Nat) → (ι → V R d) → (κ → V R d)) (N : Fin d → Nat) (x : ι → V R d) : κ → V R d :=
  (ops.map fun g =>
    actMI N parY g.inv (f (fun i => N (g.σ i)) (actMI (fun i => N (g.σ i)) parX g x))).sum

/-- **Group averaging of an arbitrary extents-preserving model is equivariant, non-square images
included**: for EVERY operator list of signed permutations closed under right multiplication by
`h`, every `f`, every extents `N`:
`avg(N ∘ σ_h, h·x) = h · avg(N, x)`. -/
theorem groupAverage_equivariant_nonsquare {ι κ : Type} (parX : ι → Nat) (parY : κ → Nat)
    (ops : List (SP d)) (h : SP d) (hclosed : (ops.map (· * h)).Perm ops)
    (f : (Fin d → Nat) → (ι → V R d) → (κ → V R d)) (N : Fin d → Nat) (x : ι → V R d) :
    avgSumN parX parY ops f (fun i => N (h.σ i)) (actMI (fun i => N (h.σ i)) parX h x)
      = actMI (fun i => N (h.σ i)) parY h (avgSumN parX parY ops f N x) := by
  unfold avgSumN
  rw [actMI_list_sum, List.map_map]
  -- term of `g` on the left = `h ·` (term of `g * h` on the right)
  have hterm : ∀ g ∈ ops,
      actMI (fun i => N (h.σ i)) parY g.inv
          (f (fun i => N (h.σ (g.σ i)))
            (actMI (fun i => N (h.σ (g.σ i))) parX g (actMI (fun i => N (h.σ i)) parX h x)))
        = ((actMI (fun i => N (h.σ i)) parY h ∘ fun k : SP d =>
            actMI N parY k.inv (f (fun i => N (k.σ i)) (actMI (fun i => N (k.σ i)) parX k x)))
            ∘ (· * h)) g := by
    intro g _
    simp only [Function.comp]
    rw [actMI_comp (fun i => N (h.σ i)) parX g h x]
    have hσ : (fun i => N ((g * h).σ i)) = fun i => N (h.σ (g.σ i)) := rfl
    rw [hσ, actMI_comp N parY h (g * h).inv, ← inv_eq_mul_inv g h]
  rw [List.map_congr_left hterm, ← List.map_map (g := (actMI (fun i => N (h.σ i)) parY h ∘ _))]
  exact (hclosed.map _).sum_eq

/-- the transpose the code applies is the matrix of the inverse operator -/
theorem transpose_is_inverse (g : SP d) : g.inv.mat = Mat.transpose g.mat := SP.mat_inv g

end GinjaxVerif.C10
