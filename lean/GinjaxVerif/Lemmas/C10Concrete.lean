import GinjaxVerif.Lemmas.C10Average
import GinjaxVerif.Lemmas.ActionLaws
import Mathlib.Algebra.Group.Pi.Basic
import Mathlib.Algebra.BigOperators.Group.List.Basic

/-!
# C10 ↔ C02: the abstract averaging theorem instantiated with the concrete image action

The hypotheses of `C10.avg_equivariant_of_laws` are discharged by the action laws of C02 for every
operator whose axis permutation preserves the extents `N` (all of `B_d` on square/cubic images, the
flip group `C2^d` on any extents).  Images are total functions of the pixel (the permute-and-flip
form is a bijection of `ℤ^d`, so the laws hold as equalities); on the box the action is the model
`tge` of `times_group_element` (`actV_eq_tge`).
-/
namespace GinjaxVerif.C10

open GinjaxVerif

variable {R : Type} [CommRing R] {d : Nat}

/-- values of one image as a total function of (pixel, tensor index) -/
abbrev V (R : Type) (d : Nat) := (Fin d → Int) → List (Fin d) → R

/-- the action on one image of parity `p` and extents `N` (permute-and-flip form) -/
def actV (N : Fin d → Nat) (g : SP d) (p : Nat) (v : V R d) : V R d :=
  fun y n => (((det g.mat) ^ p : Int) : R) * (((g.sgn n : Int) : R) * v (g.srcPix N y) (n.map g.σ))

/-- operators whose axis permutation preserves the extents -/
def Preserves (N : Fin d → Nat) (g : SP d) : Prop := ∀ i, N (g.σ i) = N i

theorem preserves_fun {N : Fin d → Nat} {g : SP d} (h : Preserves N g) : (fun i => N (g.σ i)) = N :=
  funext h

/-- on the box, `actV` is the model of the code's `times_group_element` -/
theorem actV_eq_tge (N : Fin d → Nat) (g : SP d) (hg : Preserves N g) (p k : Nat) (v : V R d)
    (y : Fin d → Int) (hy : InBox N y) (n : List (Fin d)) :
    (tge g.mat p ⟨N, k, v⟩).val y n = actV N g p v y n := by
  have hy' : InBox (tge g.mat p (⟨N, k, v⟩ : Img R d)).dims y := by
    simp only [tge, rotDims_mat', preserves_fun hg]; exact hy
  rw [(tge_seq_pf g p (⟨N, k, v⟩ : Img R d)).2.2 y hy' n]
  simp only [pf, actV, preserves_fun hg]

instance : Mul (SP d) := ⟨SP.mul⟩

theorem mul_def (g h : SP d) : g * h = g.mul h := rfl

theorem preserves_mul {N : Fin d → Nat} {g h : SP d} (hg : Preserves N g) (hh : Preserves N h) :
    Preserves N (g * h) := by
  intro i; rw [mul_def, SP.mul_σ, hh, hg]

theorem preserves_inv {N : Fin d → Nat} {g : SP d} (hg : Preserves N g) : Preserves N g.inv := by
  intro i
  have := hg (g.σ.symm i)
  simp only [Equiv.apply_symm_apply] at this
  rw [SP.inv_σ]; exact this.symm

theorem inv_mul_rev (g h : SP d) : (g * h).inv = h.inv * g.inv := by
  apply SP.ext'
  · intro i; simp [mul_def]
  · intro i; simp [mul_def, mul_comm]

theorem actV_mul (N : Fin d → Nat) (g h : SP d) (hg : Preserves N g) (hh : Preserves N h) (p : Nat)
    (v : V R d) : actV N (g * h) p v = actV N g p (actV N h p v) := by
  funext y n
  have hsrc := SP.srcPix_mul g h N y
  rw [preserves_fun hh] at hsrc
  have hgh : (fun i => N (h.σ (g.σ i))) = N := by funext i; rw [hh, hg]
  rw [hgh] at hsrc
  simp only [actV, mul_def, SP.det_mul', SP.sgn_mul, SP.map_mul, mul_pow, ← hsrc]
  push_cast
  ring

theorem actV_one (N : Fin d → Nat) (p : Nat) (v : V R d) : actV N SP.one p v = v := by
  funext y n
  simp [actV, SP.det_one', SP.sgn_one, SP.map_one, SP.srcPix_one]

theorem actV_cancel (N : Fin d → Nat) (g : SP d) (hg : Preserves N g) (p : Nat) (v : V R d) :
    actV N g p (actV N g.inv p v) = v := by
  rw [← actV_mul N g g.inv hg (preserves_inv hg), mul_def, SP.mul_inv, actV_one]

theorem actV_add (N : Fin d → Nat) (g : SP d) (p : Nat) (u v : V R d) :
    actV N g p (u + v) = actV N g p u + actV N g p v := by
  funext y n; simp only [actV, Pi.add_apply]; ring

theorem actV_smul (N : Fin d → Nat) (g : SP d) (p : Nat) (r : R) (v : V R d) :
    actV N g p (fun y n => r * v y n) = fun y n => r * actV N g p v y n := by
  funext y n; simp only [actV]; ring

/-- a multi-image with blocks indexed by `ι` (type and channel), block `i` having parity `par i` -/
def actMI {ι : Type} (N : Fin d → Nat) (par : ι → Nat) (g : SP d) (x : ι → V R d) : ι → V R d :=
  fun i => actV N g (par i) (x i)

/-- **Group averaging of an arbitrary model is equivariant for the concrete image action.**
For every operator list of signed permutations preserving the extents and closed under right
multiplication by `h`, every function `f` between multi-images (any types, parities, channel
counts), and every scale `r` (the code's `1/len(operators)`):
`r · Σ_g g⁻¹·f(g·(h·x)) = h · (r · Σ_g g⁻¹·f(g·x))`, where `g⁻¹` has matrix `g.matᵀ`. -/
theorem groupAverage_equivariant_concrete {ι κ : Type} (N : Fin d → Nat) (parX : ι → Nat)
    (parY : κ → Nat) (ops : List (SP d)) (hops : ∀ g ∈ ops, Preserves N g) (h : SP d)
    (hh : Preserves N h) (hclosed : (ops.map (· * h)).Perm ops)
    (f : (ι → V R d) → (κ → V R d)) (r : R) (x : ι → V R d) :
    (fun i y n => r * avgSum SP.inv (actMI N parX) (actMI N parY) ops f (actMI N parX h x) i y n)
      = actMI N parY h (fun i y n => r * avgSum SP.inv (actMI N parX) (actMI N parY) ops f x i y n) := by
  exact avg_equivariant_of_laws (M := SP d) (X := ι → V R d) (Y := κ → V R d)
    (Preserves N) SP.inv (actMI N parX) (actMI N parY) (fun y i p n => r * y i p n)
    (fun g hg => preserves_inv hg)
    (fun g h x hg hh => by funext i; exact actV_mul N g h hg hh (parX i) (x i))
    (fun g h y hg hh => by funext i; exact actV_mul N g h hg hh (parY i) (y i))
    (fun g h _ _ => inv_mul_rev g h)
    (fun g y hg => by funext i; exact actV_cancel N g hg (parY i) (y i))
    (fun g a b _ => by funext i; exact actV_add N g (parY i) (a i) (b i))
    (fun g y _ => by funext i; exact actV_smul N g (parY i) r (y i))
    ops hops h hh hclosed f x

/-- the transpose the code applies is the matrix of the inverse operator -/
theorem transpose_is_inverse (g : SP d) : g.inv.mat = Mat.transpose g.mat := SP.mat_inv g

end GinjaxVerif.C10
