import GinjaxVerif.Lemmas.C08Basic
import Mathlib.Algebra.Field.Basic

/-!
# C08 — the vector-neuron nonlinearity commutes with the action

The direction `k = W·x` is a channel mixing (linear, equivariant); its norm and the inner product
`⟨x, k̂⟩` are invariant (`sgn² = 1`, `c² = 1`, re-indexing of the index sum by `σ`), so the scalar
factors `h`, `⟨x, k̂⟩` are invariant and the output is a combination of equivariant tensors with
invariant coefficients.  `sqrtF`, `absF`, `act`, `eps`, `W` are arbitrary.
-/
namespace GinjaxVerif

open Finset

variable {R : Type} {d : Nat} [Field R]

theorem vnDir_rel (W : Nat → Nat → R) (g : SP d) (c : Int) (B B' : Blk R d)
    (h : B'.Equiv (pfBlk g c B)) (ch : Nat) (y : Pix d) (hy : InBox (fun i => B.dims (g.σ i)) y)
    (n : List (Fin d)) (hn : n.length = B.k) :
    vnDir W B' ch y n = ((c : Int) : R) * (((g.sgn n : Int) : R) *
      vnDir W B ch (g.srcPix (fun i => B.dims (g.σ i)) y) (n.map g.σ)) := by
  obtain ⟨hC, hd, hk, hv⟩ := h
  have hd' : B'.dims = fun i => B.dims (g.σ i) := hd
  have hC' : B'.C = B.C := hC
  have hk' : B'.k = B.k := hk
  unfold vnDir
  rw [hC', ← sumFin_mul_left, ← sumFin_mul_left]
  apply sumFin_congr_fin
  intro j
  rw [hv j.val (by have := j.isLt; omega) y (by rw [hd']; exact hy) n (by omega), pfBlk_val]
  ring

theorem vnNormSq_rel (W : Nat → Nat → R) (g : SP d) (c : Int) (hc : c * c = 1) (B B' : Blk R d)
    (h : B'.Equiv (pfBlk g c B)) (ch : Nat) (y : Pix d) (hy : InBox (fun i => B.dims (g.σ i)) y) :
    sumIdx d B'.k (fun m => vnDir W B' ch y m * vnDir W B' ch y m)
      = sumIdx d B.k (fun m => vnDir W B ch (g.srcPix (fun i => B.dims (g.σ i)) y) m *
          vnDir W B ch (g.srcPix (fun i => B.dims (g.σ i)) y) m) := by
  have hk' : B'.k = B.k := h.2.2.1
  rw [hk', ← sumIdx_pf_sq g c hc B.k (vnDir W B ch (g.srcPix (fun i => B.dims (g.σ i)) y))
    (vnDir W B ch (g.srcPix (fun i => B.dims (g.σ i)) y))]
  apply sumIdx_congr_len
  intro m hm
  rw [vnDir_rel W g c B B' h ch y hy m hm]

theorem vnDirHat_rel (sqrtF : R → R) (eps : R) (W : Nat → Nat → R) (g : SP d) (c : Int)
    (hc : c * c = 1) (B B' : Blk R d) (h : B'.Equiv (pfBlk g c B)) (ch : Nat) (y : Pix d)
    (hy : InBox (fun i => B.dims (g.σ i)) y) (n : List (Fin d)) (hn : n.length = B.k) :
    vnDirHat sqrtF eps W B' ch y n = ((c : Int) : R) * (((g.sgn n : Int) : R) *
      vnDirHat sqrtF eps W B ch (g.srcPix (fun i => B.dims (g.σ i)) y) (n.map g.σ)) := by
  unfold vnDirHat
  rw [vnNormSq_rel W g c hc B B' h ch y hy, vnDir_rel W g c B B' h ch y hy n hn,
    mul_div_assoc, mul_div_assoc]

theorem vnInner_rel (sqrtF : R → R) (eps : R) (W : Nat → Nat → R) (g : SP d) (c : Int)
    (hc : c * c = 1) (B B' : Blk R d) (h : B'.Equiv (pfBlk g c B)) (ch : Nat) (hch : ch < B.C)
    (y : Pix d) (hy : InBox (fun i => B.dims (g.σ i)) y) :
    vnInner sqrtF eps W B' ch y
      = vnInner sqrtF eps W B ch (g.srcPix (fun i => B.dims (g.σ i)) y) := by
  have h0 := h
  obtain ⟨hC, hd, hk, hv⟩ := h
  have hd' : B'.dims = fun i => B.dims (g.σ i) := hd
  have hC' : B'.C = B.C := hC
  have hk' : B'.k = B.k := hk
  unfold vnInner
  rw [hk', ← sumIdx_pf_sq g c hc B.k (B.val ch (g.srcPix (fun i => B.dims (g.σ i)) y))
    (vnDirHat sqrtF eps W B ch (g.srcPix (fun i => B.dims (g.σ i)) y))]
  apply sumIdx_congr_len
  intro m hm
  rw [vnDirHat_rel sqrtF eps W g c hc B B' h0 ch y hy m hm,
    hv ch (by omega) y (by rw [hd']; exact hy) m (by omega), pfBlk_val]

/-- **`VectorNeuronNonlinear` commutes with the action** on every block type, for every mixing
matrix, every activation / square root / absolute value function and every `eps` -/
theorem vnNonlinear_rel (sqrtF absF act : R → R) (eps : R) (W : Nat → Nat → R) (g : SP d) (c : Int)
    (hc : c * c = 1) (B B' : Blk R d) (h : B'.Equiv (pfBlk g c B)) :
    (vnNonlinear sqrtF absF act eps W B').Equiv
      (pfBlk g c (vnNonlinear sqrtF absF act eps W B)) := by
  have h0 := h
  obtain ⟨hC, hd, hk, hv⟩ := h
  have hd' : B'.dims = fun i => B.dims (g.σ i) := hd
  have hC' : B'.C = B.C := hC
  have hk' : B'.k = B.k := hk
  refine ⟨hC, hd, hk, ?_⟩
  intro ch hch y hy n hn
  have hch' : ch < B.C := by
    have : ch < B'.C := hch
    omega
  have hy' : InBox (fun i => B.dims (g.σ i)) y := by
    have : InBox B'.dims y := hy
    rw [hd'] at this; exact this
  have hn' : n.length = B.k := by
    have : n.length = B'.k := hn
    omega
  rw [pfBlk_val]
  show act (vnInner sqrtF eps W B' ch y) / (absF (vnInner sqrtF eps W B' ch y) + eps)
        * (vnInner sqrtF eps W B' ch y * vnDirHat sqrtF eps W B' ch y n)
      + (B'.val ch y n - vnInner sqrtF eps W B' ch y * vnDirHat sqrtF eps W B' ch y n) = _
  rw [vnInner_rel sqrtF eps W g c hc B B' h0 ch hch' y hy',
    vnDirHat_rel sqrtF eps W g c hc B B' h0 ch y hy' n hn', hv ch hch y hy n hn, pfBlk_val]
  simp only [vnNonlinear]
  ring

end GinjaxVerif
