import GinjaxVerif.Lemmas.C14Methods

/-!
# C14 — block-level lemmas for `get_component`

A block of type `(k, p)` with one leading axis has shape `(c * T) :: (S ++ (D,)*k)`
(`c` channels, `T = future_steps`, channel-major).  `expBlock` turns it into the
`(time, spatial, c * D^k)` layout; `compTail` selects the component(s) and moves them in front.
-/
namespace GinjaxVerif.C14
open GinjaxVerif.ND GinjaxVerif.ND.NDArr GinjaxVerif.C13

variable {R : Type} [Inhabited R]

section Exp
variable {D T c k : Nat} {S : List Nat} {X : NDArr R}

omit [Inhabited R] in
theorem exp_step1 (hsh : X.shape = (c * T) :: (S ++ List.replicate k D)) (hT : 0 < T)
    (hpos : 0 < (S ++ List.replicate k D).prod) :
    X.reshapeInfer [] (T :: (S ++ List.replicate k D))
      = X.reshape (c :: T :: (S ++ List.replicate k D)) := by
  unfold reshapeInfer
  have : inferDim X.shape.prod [] (T :: (S ++ List.replicate k D)) = c := by
    have h := inferDim_lead [c] (T :: (S ++ List.replicate k D))
      (by simpa using Nat.mul_pos hT hpos)
    have e : X.shape.prod = ([c] ++ T :: (S ++ List.replicate k D)).prod := by
      rw [hsh]; simp [Nat.mul_assoc]
    rw [e, h]; simp
  rw [this]; rfl

theorem exp_shape2 (hS : S.length = D) (a : NDArr R)
    (ha : a.shape = c :: T :: (S ++ List.replicate k D)) :
    (a.moveaxis 0 (1 + D)).shape = (T :: S) ++ c :: List.replicate k D := by
  rw [shape_moveaxis, ha]
  have := moveList_fwd ([] : List Nat) (T :: S) (List.replicate k D) c
  simp only [List.length_nil, List.length_cons, Nat.zero_add, List.nil_append, hS] at this
  rw [Nat.add_comm 1 D]
  simpa using this

/-- shape, well-formedness and read-out of `expBlock`: component `ci * D^k + ravel t` at time `tt`
and pixel `s` is `X[ci * T + tt, s, t]` -/
theorem expBlock_spec (hsh : X.shape = (c * T) :: (S ++ List.replicate k D)) (hS : S.length = D)
    (hT : 0 < T) (hSpos : 0 < S.prod) (hD : 0 < D) :
    (expBlock D T S k X).shape = (T :: S) ++ [c * D ^ k] ∧ (expBlock D T S k X).WF ∧
    ∀ (tt ci : Nat) (s t : List Nat), tt < T → ci < c → InRange S s →
      InRange (List.replicate k D) t →
      (expBlock D T S k X).get ((tt :: s) ++ [ci * D ^ k + ravel (List.replicate k D) t])
        = X.get ((ci * T + tt) :: (s ++ t)) := by
  have hpos : 0 < (S ++ List.replicate k D).prod := by
    rw [List.prod_append, prod_replicate_nat]; exact Nat.mul_pos hSpos (Nat.pow_pos hD)
  have h1 := exp_step1 hsh hT hpos
  set e1 := X.reshape (c :: T :: (S ++ List.replicate k D)) with he1
  have he1s : e1.shape = c :: T :: (S ++ List.replicate k D) := rfl
  have h2s := exp_shape2 (D := D) hS e1 he1s
  have hTS : 0 < (T :: S).prod := by simpa using Nat.mul_pos hT hSpos
  have hinf : inferDim (e1.moveaxis 0 (1 + D)).shape.prod (T :: S) [] = c * D ^ k := by
    have := inferDim_block (T :: S) (c :: List.replicate k D) [] (by simpa using hTS)
    rw [h2s]
    simpa [prod_replicate_nat] using this
  have hexp : expBlock D T S k X = (e1.moveaxis 0 (1 + D)).reshape ((T :: S) ++ [c * D ^ k]) := by
    unfold expBlock
    simp only [h1]
    unfold reshapeInfer
    rw [hinf]
  refine ⟨by rw [hexp]; rfl, ?_, ?_⟩
  · rw [hexp]
    apply wf_reshape (wf_moveaxis _ _ _)
    rw [h2s]
    simp [List.prod_append]
  · intro tt ci s t htt hci hs ht
    rw [hexp]
    have hq : (c :: List.replicate k D).prod = c * D ^ k := by simp
    have hrav : ravel (c :: List.replicate k D) (ci :: t)
        = ci * D ^ k + ravel (List.replicate k D) t := by
      simp [ravel]
    have hm := get_reshape_merge (e1.moveaxis 0 (1 + D)) (s₁ := T :: S) (i₁ := tt :: s)
      (c :: List.replicate k D) (ci :: t) [] []
      (by rw [h2s]; simp) (by simp [hs.length_eq]) (by simp [ht.length_eq])
    rw [hq, hrav] at hm
    simp only [List.append_nil] at hm
    rw [hm]
    have hf := get_moveaxis_fwd e1 [] (T :: S) (List.replicate k D) c (by rw [he1s]; rfl)
      [] (tt :: s) t ci trivial ⟨htt, hs⟩ ht hci
    simp only [List.length_nil, List.length_cons, Nat.zero_add, List.nil_append, hS] at hf
    rw [Nat.add_comm 1 D]
    simp only [List.cons_append] at hf ⊢
    rw [hf]
    have hsp := get_reshape_split X (s₁ := []) (i₁ := []) (S ++ List.replicate k D) (s ++ t)
      c T ci tt (by simpa using hsh) rfl
    simpa using hsp

end Exp

/-! ## the tail: select, move the selected components in front, merge with time -/

section Tail
variable {D T W : Nat} {S : List Nat}

/-- `moveaxis(cd, -1, 0).reshape((-1,) + spatial)` of a block `cd` of shape `(T, spatial, W)`:
entry `(jj * T + tt, s)` is `cd[tt, s, jj]` -/
theorem tail_core (cd : NDArr R) (hsh : cd.shape = (T :: S) ++ [W]) (hS : S.length = D)
    (hSpos : 0 < S.prod) :
    ((cd.moveaxis (normAxis cd.shape.length (-1)) 0).reshapeInfer [] S).shape = (W * T) :: S ∧
    ∀ (jj tt : Nat) (s : List Nat), jj < W → tt < T → InRange S s →
      ((cd.moveaxis (normAxis cd.shape.length (-1)) 0).reshapeInfer [] S).get ((jj * T + tt) :: s)
        = cd.get ((tt :: s) ++ [jj]) := by
  have hlen : cd.shape.length = D + 2 := by rw [hsh]; simp [hS]
  have hax : normAxis cd.shape.length (-1) = D + 1 := by
    rw [normAxis_neg_one (by omega), hlen]; rfl
  rw [hax]
  have hms : (cd.moveaxis (D + 1) 0).shape = W :: T :: S := by
    rw [shape_moveaxis, hsh]
    have := moveList_bwd ([] : List Nat) (T :: S) [] W
    simp only [List.length_nil, List.length_cons, Nat.zero_add, List.nil_append, hS] at this
    simpa using this
  have hre : (cd.moveaxis (D + 1) 0).reshapeInfer [] S
      = (cd.moveaxis (D + 1) 0).reshape ((W * T) :: S) := by
    have := reshapeInfer_lead (x := cd.moveaxis (D + 1) 0) (lead := [W, T]) (rest := S)
      (by rw [hms]; rfl) hSpos
    simpa using this
  rw [hre]
  refine ⟨rfl, ?_⟩
  intro jj tt s hjj htt hs
  have hm := get_reshape_merge (cd.moveaxis (D + 1) 0) (s₁ := []) (i₁ := []) [W, T] [jj, tt] S s
    (by rw [hms]; rfl) rfl rfl
  simp only [List.nil_append, List.prod_cons, List.prod_nil, Nat.mul_one, ravel, Nat.add_zero,
    List.cons_append] at hm
  rw [hm]
  have hb := get_moveaxis_bwd cd [] (T :: S) [] W (by rw [hsh]; rfl) [] (tt :: s) [] jj trivial
    ⟨htt, hs⟩ trivial hjj
  simp only [List.length_nil, List.length_cons, Nat.zero_add, List.nil_append, hS,
    List.append_nil] at hb
  rw [hb]

/-- `data[..., i]` followed by the tail: entry `(tt, s)` is `data[tt, s, i]` -/
theorem compTail_idx (data : NDArr R) {Wd : Nat} (hsh : data.shape = (T :: S) ++ [Wd])
    (hS : S.length = D) (hT : 0 < T) (hSpos : 0 < S.prod) (i : Nat) :
    (compTail T S (.idx i) data).shape = T :: S ∧
    ∀ (tt : Nat) (s : List Nat), tt < T → InRange S s →
      (compTail T S (.idx i) data).get (tt :: s) = data.get ((tt :: s) ++ [i]) := by
  have hsel : (indexLast i data).shape = T :: S := by
    unfold indexLast; rw [shape_ofFn, hsh, List.dropLast_concat]
  have hTS : 0 < (T :: S).prod := by simpa using Nat.mul_pos hT hSpos
  have hcd : (indexLast i data).reshapeInfer (T :: S) []
      = (indexLast i data).reshape ((T :: S) ++ [1]) := by
    unfold reshapeInfer
    have := inferDim_block (T :: S) [] [] (by simpa using hTS)
    simp only [List.append_nil, List.prod_nil] at this
    rw [hsel, this]
  have hcore := tail_core (D := D) (T := T) (W := 1) (S := S)
    ((indexLast i data).reshape ((T :: S) ++ [1])) rfl hS hSpos
  unfold compTail selectComp
  simp only [hcd]
  refine ⟨by rw [hcore.1, Nat.one_mul], ?_⟩
  intro tt s htt hs
  have := hcore.2 0 tt s (by omega) htt hs
  rw [Nat.zero_mul, Nat.zero_add] at this
  rw [this]
  have hr := get_reshape_of_ravel_eq (indexLast i data) ((T :: S) ++ [1]) ((tt :: s) ++ [0])
    (tt :: s) (by
      rw [hsel, ravel_append _ _ (by simp [hs.length_eq])]
      simp [ravel])
  rw [hr]
  unfold indexLast
  rw [get_ofFn _ (by rw [hsh, List.dropLast_concat]; exact ⟨htt, hs⟩)]

/-- `data[..., lo:hi]` followed by the tail: entry `(jj * T + tt, s)` is `data[tt, s, lo + jj]` -/
theorem compTail_slice (data : NDArr R) {Wd : Nat} (hsh : data.shape = (T :: S) ++ [Wd])
    (hS : S.length = D) (hT : 0 < T) (hSpos : 0 < S.prod) {lo hi : Nat} (hlo : lo ≤ hi)
    (hhi : hi ≤ Wd) :
    (compTail T S (.slice lo hi) data).shape = ((hi - lo) * T) :: S ∧
    ∀ (jj tt : Nat) (s : List Nat), jj < hi - lo → tt < T → InRange S s →
      (compTail T S (.slice lo hi) data).get ((jj * T + tt) :: s)
        = data.get ((tt :: s) ++ [lo + jj]) := by
  have hlen : data.shape.length - 1 = (T :: S).length := by rw [hsh]; simp
  have hTS : 0 < (T :: S).prod := by simpa using Nat.mul_pos hT hSpos
  have hgd : data.shape.getD (T :: S).length 0 = Wd := by rw [hsh]; exact getD_mid _ _ _
  have hsl : pySliceAxis (data.shape.length - 1) (lo : Int) (hi : Int) data
      = sliceAxis (T :: S).length lo hi data := by
    unfold pySliceAxis
    rw [hlen, hgd, pySlice_of_le hlo hhi]
  have hsls : (sliceAxis (T :: S).length lo hi data).shape = (T :: S) ++ [hi - lo] := by
    rw [shape_sliceAxis, hsh]; exact set_last _ _ _
  have hcd : (sliceAxis (T :: S).length lo hi data).reshapeInfer (T :: S) []
      = sliceAxis (T :: S).length lo hi data := by
    unfold reshapeInfer
    have := inferDim_block (T :: S) [hi - lo] [] (by simpa using hTS)
    simp only [List.append_nil] at this
    rw [hsls, this]
    simp only [List.prod_cons, List.prod_nil, Nat.mul_one]
    rw [← hsls, reshape_self]
  have hcore := tail_core (D := D) (T := T) (W := hi - lo) (S := S)
    (sliceAxis (T :: S).length lo hi data) hsls hS hSpos
  unfold compTail selectComp
  simp only [hsl, hcd]
  refine ⟨hcore.1, ?_⟩
  intro jj tt s hjj htt hs
  rw [hcore.2 jj tt s hjj htt hs]
  have hir : InRange (data.shape.set (T :: S).length (hi - lo)) ((tt :: s) ++ [jj]) := by
    rw [hsh, set_last, inRange_append (by simp [hs.length_eq])]
    exact ⟨⟨htt, hs⟩, hjj, trivial⟩
  rw [get_slice _ _ _ _ hir]
  have hl : (tt :: s).length = (T :: S).length := by simp [hs.length_eq]
  rw [← hl, getD_mid, set_last, Nat.add_comm]

end Tail

end GinjaxVerif.C14
