import GinjaxVerif.Lemmas.C07Shift

/-!
# C07 — translations of the U-Net: pooling, image-dilated up-convolution, concat

* `up_srcIdx_shift`   the 1-D core of the up-convolution (filter side 2, zero padding `(1,1)`, image
  dilation 2): rolling the input by `t` rolls the output by `2t` — the zero padding coincides with the
  interleaved zeros of the periodic dilated signal;
* `conv_shift_gen`    `conv_shift` with separate per-axis maps on the input and the output;
* `poolBlock_sh`      max pooling of an image rolled by `t·P` is the pooled image rolled by `t`
  (relational form of C08's `maxPool_roll`);
* `concatMI_sh`       `concat` is pointwise in the pixel.
-/
namespace GinjaxVerif.C07

open GinjaxVerif GinjaxVerif.C20 GinjaxVerif.Layer Finset

variable {R : Type} {d : Nat}

/-- the per-axis options of the up-convolution -/
def AxisOpt.UpAxis (o : AxisOpt) : Prop :=
  o.M = 2 ∧ o.w = 0 ∧ o.lo = 1 ∧ o.hi = 1 ∧ o.stride = 1 ∧ o.rd = 1 ∧ o.ld = 2 ∧ 0 < o.N

theorem up_srcIdx (o : AxisOpt) (h : AxisOpt.UpAxis o) (q : Int) :
    o.srcIdx q = if 0 ≤ q - 1 ∧ q - 1 < 2 * (o.N : Int) - 1 ∧ (q - 1) % 2 = 0
      then some (((q - 1) / 2) % (o.N : Int)) else none := by
  obtain ⟨_, hw, hlo, _, _, _, hld, hN⟩ := h
  have hD := o.dilLen_cast hN
  simp only [AxisOpt.srcIdx, hlo, hld, hD, hw]
  simp only [Nat.cast_one, Nat.cast_ofNat, Nat.cast_zero, mul_zero, add_zero, sub_zero]
  have : ((o.N : Int) - 1) * 2 + 1 = 2 * (o.N : Int) - 1 := by ring
  rw [this]

/-- **1-D core of the up-path**: output position `i` rolled by `2t` reads the source pixel rolled by
`t` -/
theorem up_srcIdx_shift (o : AxisOpt) (h : AxisOpt.UpAxis o) (t i a : Int)
    (hi : 0 ≤ i ∧ i < 2 * (o.N : Int)) (ha : 0 ≤ a ∧ a < 2) :
    o.srcIdx ((i - 2 * t) % (2 * (o.N : Int)) + a)
      = (o.srcIdx (i + a)).map (fun u => (u - t) % (o.N : Int)) := by
  have hN : (0 : Int) < (o.N : Int) := by exact_mod_cast h.2.2.2.2.2.2.2
  have h2N : (0 : Int) < 2 * (o.N : Int) := by omega
  rw [up_srcIdx o h, up_srcIdx o h]
  set i2 := (i - 2 * t) % (2 * (o.N : Int)) with hi2
  have r1 : 0 ≤ i2 := Int.emod_nonneg _ (ne_of_gt h2N)
  have r2 : i2 < 2 * (o.N : Int) := Int.emod_lt_of_pos _ h2N
  have par : i2 % 2 = i % 2 := by
    have : i2 % 2 = (i - 2 * t) % 2 := by
      rw [hi2]; exact Int.emod_emod_of_dvd _ (Dvd.intro _ rfl)
    omega
  by_cases hv : (i + a - 1) % 2 = 0
  · have hv2 : (i2 + a - 1) % 2 = 0 := by omega
    rw [if_pos ⟨by omega, by omega, hv2⟩, if_pos ⟨by omega, by omega, hv⟩, Option.map_some]
    congr 1
    -- i + a - 1 = 2 m
    obtain ⟨m, hm⟩ : ∃ m, i + a - 1 = 2 * m := ⟨(i + a - 1) / 2, by omega⟩
    have hm0 : 0 ≤ m ∧ m < (o.N : Int) := by omega
    have e1 : (i + a - 1) / 2 = m := by omega
    have hi2' : i2 = ((m - t) % (o.N : Int)) * 2 + (1 - a) := by
      have : i - 2 * t = (m - t) * ((2 : Nat) : Int) + (1 - a) := by push_cast; omega
      rw [hi2, this]
      have := emod_patch o.N 2 (m - t) (1 - a) (by constructor <;> push_cast <;> omega)
      push_cast at this ⊢
      rw [show (2 : Int) * (o.N : Int) = (o.N : Int) * 2 by ring]
      exact this
    have e2 : (i2 + a - 1) / 2 = (m - t) % (o.N : Int) := by omega
    rw [e1, e2, Int.emod_emod_of_dvd _ (dvd_refl _), Int.emod_eq_of_lt hm0.1 hm0.2]
  · have hv2 : ¬ (i2 + a - 1) % 2 = 0 := by omega
    rw [if_neg (fun hh => hv2 hh.2.2), if_neg (fun hh => hv hh.2.2)]
    rfl

/-! ### the convolution with separate maps on input and output pixels -/

/-- `conv_shift` with a per-axis map `shO` on output pixels and `shI` on source pixels, related by the
1-D identity `srcIdx (shO i·stride + a·rd) = (srcIdx (i·stride + a·rd)).map shI` on the output box
and the filter box -/
theorem conv_shift_gen [CommRing R] (cfg : ConvCfg d) (shO shI : Fin d → Int → Int)
    (hkey : ∀ j (i a : Int), 0 ≤ i ∧ i < ((cfg.ax j).outLen : Int) → 0 ≤ a ∧ a < ((cfg.ax j).M : Int) →
      (cfg.ax j).srcIdx (shO j i * ((cfg.ax j).stride : Int) + a * ((cfg.ax j).rd : Int))
        = ((cfg.ax j).srcIdx (i * ((cfg.ax j).stride : Int) + a * ((cfg.ax j).rd : Int))).map (shI j))
    (img flt : Bank R d) (b o : Nat) (i : Pix d) (hi : InBox cfg.outDims i) (n : List (Fin d)) :
    convSpec cfg (fun b c y m => img b c (fun j => shI j (y j)) m) flt b o i n
      = convSpec cfg img flt b o (fun j => shO j (i j)) n := by
  simp only [convSpec]
  apply sumFin_congr'
  intro c
  rw [sumBox_eq, sumBox_eq]
  apply Finset.sum_congr rfl
  intro a ha
  rw [mem_boxF] at ha
  congr 1
  have key : ∀ j, (cfg.ax j).srcIdx (shO j (i j) * ((cfg.ax j).stride : Int) + a j * ((cfg.ax j).rd : Int))
      = ((cfg.ax j).srcIdx (i j * ((cfg.ax j).stride : Int) + a j * ((cfg.ax j).rd : Int))).map (shI j) :=
    fun j => hkey j (i j) (a j) (hi j) (ha j)
  rw [padVal_eq, padVal_eq]
  have hok : PadOK cfg.ax (fun j => shO j (i j) * ((cfg.ax j).stride : Int) + a j * ((cfg.ax j).rd : Int)) ↔
      PadOK cfg.ax (fun j => i j * ((cfg.ax j).stride : Int) + a j * ((cfg.ax j).rd : Int)) := by
    unfold PadOK
    constructor <;> intro h j <;> have := h j <;> simp only [key j, Option.isSome_map] at this ⊢ <;> exact this
  by_cases h : PadOK cfg.ax (fun j => i j * ((cfg.ax j).stride : Int) + a j * ((cfg.ax j).rd : Int))
  · rw [if_pos h, if_pos (hok.mpr h)]
    congr 1
    funext j
    obtain ⟨u, hu⟩ := Option.isSome_iff_exists.mp (h j)
    have hu' : (cfg.ax j).srcIdx (i j * ((cfg.ax j).stride : Int) + a j * ((cfg.ax j).rd : Int)) = some u := hu
    show shI j (((cfg.ax j).srcIdx (i j * ((cfg.ax j).stride : Int) + a j * ((cfg.ax j).rd : Int))).getD 0)
      = ((cfg.ax j).srcIdx (shO j (i j) * ((cfg.ax j).stride : Int) + a j * ((cfg.ax j).rd : Int))).getD 0
    rw [key j, hu']
    simp only [Option.map_some, Option.getD_some]
  · rw [if_neg h, if_neg (fun h' => h (hok.mp h'))]

/-- extent of the up-convolution's output -/
theorem up_outLen' (o : AxisOpt) (h : AxisOpt.UpAxis o) : o.outLen = 2 * o.N := by
  obtain ⟨h2, h6, h7, h8, h3, h4, h5, hN⟩ := h
  exact (up_outLen o o.N hN rfl h2 h3 h4 h5 h6 h7 h8).1

/-- **the up-convolution commutes with translations**: the input rolled by `t` on the toroidal axes
gives the output rolled by `2t` -/
theorem conv_shift_up [CommRing R] (cfg : ConvCfg d) (tor : Fin d → Bool)
    (hup : ∀ j, AxisOpt.UpAxis (cfg.ax j)) (t : Pix d) (img flt : Bank R d) (b o : Nat) (i : Pix d)
    (hi : InBox cfg.outDims i) (n : List (Fin d)) :
    convSpec cfg (fun b c y m => img b c (shiftPix (fun j => (cfg.ax j).N) tor t y) m) flt b o i n
      = convSpec cfg img flt b o
          (shiftPix (fun j => (cfg.ax j).outLen) tor (fun j => 2 * t j) i) n := by
  have := conv_shift_gen cfg
    (fun j u => if tor j then (u - 2 * t j) % (((cfg.ax j).outLen : Nat) : Int) else u)
    (fun j u => if tor j then (u - t j) % ((cfg.ax j).N : Int) else u) ?_ img flt b o i hi n
  · exact this
  · intro j i a hi ha
    have hU := hup j
    obtain ⟨h2, _, _, _, h3, h4, _, _⟩ := hU
    by_cases hj : tor j = true
    · simp only [hj, if_true]
      rw [h3, h4]
      simp only [Nat.cast_one, mul_one]
      have hout : (((cfg.ax j).outLen : Nat) : Int) = 2 * ((cfg.ax j).N : Int) := by
        rw [up_outLen' _ (hup j)]; push_cast; ring
      rw [hout] at hi ⊢
      rw [h2] at ha
      exact up_srcIdx_shift (cfg.ax j) (hup j) (t j) i a hi (by exact_mod_cast ha)
    · have hj' : tor j = false := by simpa using hj
      simp only [hj', Bool.false_eq_true, if_false]
      cases (cfg.ax j).srcIdx (i * ((cfg.ax j).stride : Int) + a * ((cfg.ax j).rd : Int)) <;> rfl

/-! ### the up-convolution layer -/

theorem convPartSpec_shift_up [CommRing R] (P : Params R d) (tor : Fin d → Bool)
    (hup : ∀ j, AxisOpt.UpAxis (P.ax j)) (s : Pix d) (x : MImg R d) (t : Ty) (o : Nat) (i : Pix d)
    (hi : InBox (Layer.outDims P) i) (T : List (Fin d)) :
    convPartSpec P (shiftMI (fun j => (P.ax j).N) tor s x) t o i T
      = convPartSpec P x t o (shiftPix (Layer.outDims P) tor (fun j => 2 * s j) i) T := by
  unfold convPartSpec shiftMI
  induction x with
  | nil => rfl
  | cons e x ih =>
    simp only [List.map_cons, List.foldr_cons]
    rw [ih]
    congr 1
    split
    · unfold convContractSpec
      apply sumIdx_congr
      intro u
      exact conv_shift_up (layerCfg P.ax e.1 t e.2.chans 0) tor hup s (fun _ c y T => e.2.val c y T)
        (filterBlock P e.1 t) 0 o i hi _
    · rfl

/-- **the up-convolution layer's spec**: input rolled by `s` ⇒ output rolled by `2s` -/
theorem layerSpec_shift_up [CommRing R] (P : Params R d) (tor : Fin d → Bool)
    (hup : ∀ j, AxisOpt.UpAxis (P.ax j)) (s : Pix d) (x : MImg R d) (t : Ty) (o : Nat) (i : Pix d)
    (hi : InBox (Layer.outDims P) i) (T : List (Fin d)) :
    layerSpec P (shiftMI (fun j => (P.ax j).N) tor s x) t o i T
      = layerSpec P x t o (shiftPix (Layer.outDims P) tor (fun j => 2 * s j) i) T := by
  unfold layerSpec
  apply biasSpec_shift P.mode P.bias P.mu (Layer.outDims P) (Layer.outDims P) tor (fun j => 2 * s j) _ t
    (convPartSpec P x t) _ _ o i hi T
  · intro j _
    refine ⟨rfl, ?_⟩
    show 0 < (P.ax j).outLen
    rw [up_outLen' _ (hup j)]
    have := (hup j).2.2.2.2.2.2.2
    omega
  · intro o i T hi
    exact convPartSpec_shift_up P tor hup s x t o i hi T

/-! ### nodes on multi-images -/

section Nodes
variable [Field R]

/-- explicit padding `((1,1),…)` dispatches to the up-convolution options on every axis -/
theorem dispatch_up_axis (torus : Fin d → Bool) (N : Fin d → Nat) (hN : ∀ j, 0 < N j)
    (ax : Fin d → AxisOpt)
    (h : dispatch (.explicit (List.replicate d (1, 1))) torus N (fun _ => 2) (fun _ => 1) (fun _ => 1)
      (fun _ => 2) = some ax) (j : Fin d) : AxisOpt.UpAxis (ax j) ∧ (ax j).N = N j := by
  obtain ⟨ax0, h0, hf⟩ := dispatch_explicit_some torus N 2 1 2 1
  rw [h] at h0
  cases h0
  obtain ⟨h1, h2, h3, h4, h5, h6, h7, h8⟩ := hf j
  exact ⟨⟨h2, h6, h7, h8, h3, h4, h5, by rw [h1]; exact hN j⟩, h1⟩

theorem evalConvUp_sh (s : Pix d) (c : ConvSpec R d) (x x' y : MI R d) (hx : x.Consistent)
    (hrel : SRel s x' x) (hpad : c.pad = .explicit (List.replicate d (1, 1))) (hst : c.stride = 1)
    (hld : c.ld = 2) (hrd : c.rd = 1) (hM : c.M = 2) (hN : ∀ j, 0 < x.dims j)
    (hn : KeysNodup c.target) (hy : evalConv c x = some y) :
    (∃ y', evalConv c x' = some y' ∧ SRel (fun j => 2 * s j) y' y) ∧
      y.dims = fun j => 2 * x.dims j := by
  obtain ⟨hd', ht', hb'⟩ := hrel
  have hsig : sigOf x'.blocks = sigOf x.blocks := SRel.sigOf ⟨hd', ht', hb'⟩
  unfold evalConv at hy ⊢
  rw [hd', ht']
  cases hdis : c.dispatch x.torus x.dims with
  | none => rw [hdis] at hy; cases hy
  | some ax =>
    rw [hdis] at hy
    simp only at hy ⊢
    have hdis0 : dispatch (.explicit (List.replicate d (1, 1))) x.torus x.dims (fun _ => 2) (fun _ => 1)
        (fun _ => 1) (fun _ => 2) = some ax := by
      have := hdis
      unfold ConvSpec.dispatch at this
      rw [hpad, hst, hld, hrd, hM] at this
      exact this
    have hup : ∀ j, AxisOpt.UpAxis (ax j) := fun j => (dispatch_up_axis x.torus x.dims hN ax hdis0 j).1
    have hNax : (fun j => (ax j).N) = x.dims :=
      funext (fun j => (dispatch_up_axis x.torus x.dims hN ax hdis0 j).2)
    have hout : ∀ j, (ax j).outLen = 2 * x.dims j := fun j => by
      rw [up_outLen' _ (hup j), (dispatch_up_axis x.torus x.dims hN ax hdis0 j).2]
    split at hy
    · rename_i hacc
      cases hy
      set P := c.toParams ax (1 / ((boxCount (fun j => (ax j).outLen) : Nat) : R)) with hP
      have hacc' : accepts P c.declared x'.blocks = true := by
        rw [accepts_congr P P c.declared x.blocks x'.blocks rfl rfl hsig]; exact hacc
      rw [if_pos hacc']
      refine ⟨⟨_, rfl, ?_⟩, funext hout⟩
      refine ⟨rfl, rfl, ?_⟩
      have hk1 := (C11.layer_keys P x.blocks hn).1
      have hk2 := (C11.layer_keys P x'.blocks hn).1
      have hkeys : sigOf (layerV P x'.blocks) = sigOf (layerV P x.blocks) := by
        rw [hk1, hk2, hsig]
      have hnd : ((layerV P x.blocks).map Prod.fst).Nodup := by
        have : (layerV P x.blocks).map Prod.fst = keysOf (sigOf (layerV P x.blocks)) := by
          simp [keysOf, sigOf, List.map_map, Function.comp_def]
        rw [this, hk1]
        exact List.Nodup.sublist (List.Sublist.map _ List.filter_sublist) hn
      have hfst : (layerV P x'.blocks).map Prod.fst = (layerV P x.blocks).map Prod.fst := by
        have := congrArg (List.map Prod.fst) hkeys
        simpa [sigOf, List.map_map, Function.comp_def] using this
      show List.Forall₂ (fun e' e => e'.1 = e.1 ∧
          SBRel (shiftPix (fun j => (ax j).outLen) x.torus (fun j => 2 * s j)) e.1 e'.2 e.2)
        (layerV P x'.blocks) (layerV P x.blocks)
      apply forall2_of_lookup
        (fun t b' b => SBRel (shiftPix (fun j => (ax j).outLen) x.torus (fun j => 2 * s j)) t b' b)
        _ _ hfst hnd
      intro t b' b hb1 hb2
      have hmem : (t, b.chans) ∈ sigOf (layerV P x.blocks) :=
        List.mem_map.2 ⟨(t, b), lookup_mem _ _ _ hb2, rfl⟩
      rw [hk1] at hmem
      have htar : (t, b.chans) ∈ c.target := ((mem_convContractOut _ _ _ _).1 hmem).1
      obtain ⟨_, h2⟩ := C11.layer_eq_spec P x.blocks hn t b.chans htar
      obtain ⟨_, h2'⟩ := C11.layer_eq_spec P x'.blocks hn t b.chans htar
      obtain ⟨_, d1, v1⟩ := h2 b hb2
      obtain ⟨c2, d2, v2⟩ := h2' b' hb1
      have hNpos : ∀ j, 0 < (P.ax j).N := fun j => (hup j).2.2.2.2.2.2.2
      have hsame : SameOn (fun j => (P.ax j).N) x'.blocks
          (shiftMI (fun j => (P.ax j).N) x.torus s x.blocks) := by
        show SameOn (fun j => (ax j).N) x'.blocks (shiftMI (fun j => (ax j).N) x.torus s x.blocks)
        rw [hNax]
        exact sameOn_of_srel x.dims x.torus s _ _ hb' hx
      refine ⟨c2, d2.trans d1.symm, rfl, ?_⟩
      intro o ho i hi T hT
      have hT' : T.length = t.1 := hT
      have hi' : InBox (Layer.outDims P) i := by
        have : InBox b.dims i := hi
        rw [d1] at this; exact this
      show b'.val o i T = b.val o (shiftPix (fun j => (ax j).outLen) x.torus (fun j => 2 * s j) i) T
      rw [v2 o ho i T hT', layerSpec_congr_rel P hNpos _ _ hsame t,
        layerSpec_shift_up P x.torus hup s x.blocks t o i hi' T, v1 o ho _ T hT']
      rfl
    · cases hy

/-! ### pooling -/

theorem shiftPix_patchPix (P : Nat) (N : Fin d → Nat) (hdiv : ∀ j, P ∣ N j) (tor : Fin d → Bool)
    (t y a : Pix d) (ha : InBox (fun _ => P) a) :
    shiftPix N tor (fun j => t j * (P : Int)) (patchPix P y a)
      = patchPix P (shiftPix (fun j => N j / P) tor t y) a := by
  funext j
  simp only [shiftPix, patchPix]
  by_cases hj : tor j = true
  · simp only [hj, if_true]
    have hN : N j = N j / P * P := (Nat.div_mul_cancel (hdiv j)).symm
    have h1 : y j * (P : Int) + a j - t j * (P : Int) = (y j - t j) * (P : Int) + a j := by ring
    rw [h1]
    conv_lhs => rw [hN]
    exact emod_patch (N j / P) P (y j - t j) (a j) (ha j)
  · have hj' : tor j = false := by simpa using hj
    simp only [hj', Bool.false_eq_true, if_false]

/-- **max pooling of an image rolled by `t·P` is the pooled image rolled by `t`** (relational form;
no uniqueness of the maximum is needed: the same patch is looked at in the same order) -/
theorem maxPool_sh [LinearOrder R] (P : Nat) (hP : 0 < P) (tor : Fin d → Bool) (t : Pix d)
    (B B' : Blk R d) (hdiv : ∀ j, P ∣ B.dims j) (hpos : ∀ j, 0 < B.dims j)
    (h : ShBlk (shiftPix B.dims tor (fun j => t j * (P : Int))) B' B) :
    ShBlk (shiftPix (fun j => B.dims j / P) tor t) (maxPool P B') (maxPool P B) := by
  obtain ⟨hC, hd, hk, hv⟩ := h
  refine ⟨hC, by simp only [maxPool, hd], hk, ?_⟩
  intro c hc y hy n hn
  have hy' : InBox (fun j => B.dims j / P) y := hy
  have hdpos : ∀ j, tor j = true → (B.dims j / P) = (B.dims j / P) ∧ 0 < B.dims j / P := fun j _ =>
    ⟨rfl, Nat.div_pos (Nat.le_of_dvd (hpos j) (hdiv j)) hP⟩
  have hsy : InBox (fun j => B.dims j / P) (shiftPix (fun j => B.dims j / P) tor t y) :=
    shiftPix_inBox _ _ tor t hdpos y hy'
  -- norms of the patch positions
  have hnorm : ∀ a, InBox (fun _ => P) a →
      normSq (B'.img c) (patchPix P y a)
        = normSq (B.img c) (patchPix P (shiftPix (fun j => B.dims j / P) tor t y) a) := by
    intro a ha
    unfold normSq
    simp only [Blk.img]
    rw [hk]
    apply sumIdx_congr_len
    intro m hm
    rw [hv c hc _ (patchPix_inBox P B.dims hdiv y a hy' ha) m hm,
      shiftPix_patchPix P B.dims hdiv tor t y a ha]
  have hpos' : maxPos P (B'.img c) y
      = maxPos P (B.img c) (shiftPix (fun j => B.dims j / P) tor t y) := by
    unfold maxPos
    apply argmaxList_congr
    intro a ha
    exact hnorm a ((mem_boxList d P a).mp ha)
  have hmem : InBox (fun _ => P) (maxPos P (B.img c) (shiftPix (fun j => B.dims j / P) tor t y)) := by
    rw [← mem_boxList]
    exact argmaxList_mem _ _ _ (boxList_ne_nil d P hP)
  show B'.val c (patchPix P y (maxPos P (B'.img c) y)) n
    = B.val c (patchPix P (shiftPix (fun j => B.dims j / P) tor t y)
        (maxPos P (B.img c) (shiftPix (fun j => B.dims j / P) tor t y))) n
  rw [hpos', hv c hc _ (patchPix_inBox P B.dims hdiv y _ hy' hmem) n hn,
    shiftPix_patchPix P B.dims hdiv tor t y _ hmem]

theorem evalPool_sh [LinearOrder R] (P : Nat) (hP : 0 < P) (t : Pix d) (x x' : MI R d)
    (hx : x.Consistent) (hN : ∀ j, 0 < x.dims j) (hdiv : ∀ j, P ∣ x.dims j)
    (hrel : SRel (fun j => t j * (P : Int)) x' x) : SRel t (evalPool P x') (evalPool P x) := by
  obtain ⟨hd, ht, hb⟩ := hrel
  refine ⟨by show (fun j => x'.dims j / P) = fun j => x.dims j / P; rw [hd], ht, ?_⟩
  have key : ∀ (l' l : MImg R d),
      List.Forall₂ (fun e' e => e'.1 = e.1 ∧
        SBRel (shiftPix x.dims x.torus (fun j => t j * (P : Int))) e.1 e'.2 e.2) l' l →
      (∀ e ∈ l, e.2.dims = x.dims) →
      List.Forall₂ (fun e' e => e'.1 = e.1 ∧ SBRel (shiftPix (fun j => x.dims j / P) x.torus t) e.1 e'.2 e.2)
        (l'.map (fun e => (e.1, ofBlk (maxPool P (toBlk e.1 e.2)))))
        (l.map (fun e => (e.1, ofBlk (maxPool P (toBlk e.1 e.2))))) := by
    intro l' l hl
    induction hl with
    | nil => intro _; exact List.Forall₂.nil
    | @cons e' e r' r hab _ ih =>
      intro hdm
      obtain ⟨hk, hbr⟩ := hab
      refine List.Forall₂.cons ⟨hk, ?_⟩ (ih (fun a ha => hdm a (List.mem_cons_of_mem _ ha)))
      simp only
      rw [hk]
      unfold SBRel at hbr ⊢
      rw [toBlk_ofBlk _ _ rfl, toBlk_ofBlk _ _ rfl]
      have hed : e.2.dims = x.dims := hdm e (by simp)
      have := maxPool_sh P hP x.torus t (toBlk e.1 e.2) (toBlk e.1 e'.2)
        (by show ∀ j, P ∣ e.2.dims j; rw [hed]; exact hdiv)
        (by show ∀ j, 0 < e.2.dims j; rw [hed]; exact hN)
        (by show ShBlk (shiftPix e.2.dims x.torus _) _ _; rw [hed]; exact hbr)
      have hd2 : (fun j => (toBlk e.1 e.2).dims j / P) = fun j => x.dims j / P := by
        show (fun j => e.2.dims j / P) = _; rw [hed]
      rw [hd2] at this
      exact this
  exact key _ _ hb hx

/-! ### `concat` -/

omit [Field R] in
theorem catBlock_sh (sh : Pix d → Pix d) (t : Ty) (o' o n' n : Block R d) (hdm : n.dims = o.dims)
    (ho : SBRel sh t o' o) (hn : SBRel sh t n' n) : SBRel sh t (catBlock o' n') (catBlock o n) := by
  obtain ⟨oC, od, ok, ov⟩ := ho
  obtain ⟨nC, _, _, nv⟩ := hn
  have oC' : o'.chans = o.chans := oC
  have nC' : n'.chans = n.chans := nC
  refine ⟨by show o'.chans + n'.chans = o.chans + n.chans; rw [oC', nC'], od, ok, ?_⟩
  intro c hcl y hy T hT
  have hcl' : c < o.chans + n.chans := hcl
  have hy' : InBox o.dims y := hy
  show (if c < o'.chans then o'.val c y T else n'.val (c - o'.chans) y T)
    = (if c < o.chans then o.val c (sh y) T else n.val (c - o.chans) (sh y) T)
  rw [oC']
  by_cases hlt : c < o.chans
  · rw [if_pos hlt, if_pos hlt]
    exact ov c hlt y hy T hT
  · rw [if_neg hlt, if_neg hlt]
    exact nv (c - o.chans) (by show c - o.chans < n.chans; omega) y
      (by show InBox n.dims y; rw [hdm]; exact hy') T hT

omit [Field R] in
theorem appendMI_sh (sh : Pix d → Pix d) (D : Fin d → Nat) (t : Ty) (b' b : Block R d)
    (hb : SBRel sh t b' b) (hbd : b.dims = D) :
    ∀ (acc' acc : MImg R d),
      List.Forall₂ (fun e' e => e'.1 = e.1 ∧ SBRel sh e.1 e'.2 e.2) acc' acc →
      (∀ e ∈ acc, e.2.dims = D) →
      List.Forall₂ (fun e' e => e'.1 = e.1 ∧ SBRel sh e.1 e'.2 e.2)
        (appendMI acc' t b') (appendMI acc t b) := by
  intro acc' acc h
  induction h with
  | nil => intro _; exact List.Forall₂.cons ⟨rfl, hb⟩ List.Forall₂.nil
  | @cons e' e r' r hee _ ih =>
    intro hD
    obtain ⟨k', v'⟩ := e'
    obtain ⟨k, v⟩ := e
    obtain ⟨hk, hbr⟩ := hee
    simp only at hk hbr
    subst hk
    have hvD : v.dims = D := hD (k', v) (by simp)
    by_cases hkt : k' = t
    · subst hkt
      simp only [appendMI, if_true]
      exact List.Forall₂.cons ⟨rfl, catBlock_sh sh k' v' v b' b (by rw [hbd, hvD]) hbr hb⟩ (by assumption)
    · simp only [appendMI, if_neg hkt]
      exact List.Forall₂.cons ⟨rfl, hbr⟩ (ih (fun e he => hD e (List.mem_cons_of_mem _ he)))

omit [Field R] in
theorem concatBlocks_sh (sh : Pix d → Pix d) (D : Fin d → Nat) :
    ∀ (l' l : MImg R d), List.Forall₂ (fun e' e => e'.1 = e.1 ∧ SBRel sh e.1 e'.2 e.2) l' l →
      (∀ e ∈ l, e.2.dims = D) →
      ∀ (acc' acc : MImg R d), List.Forall₂ (fun e' e => e'.1 = e.1 ∧ SBRel sh e.1 e'.2 e.2) acc' acc →
        (∀ e ∈ acc, e.2.dims = D) →
        List.Forall₂ (fun e' e => e'.1 = e.1 ∧ SBRel sh e.1 e'.2 e.2)
          (l'.foldl (fun a e => appendMI a e.1 e.2) acc') (l.foldl (fun a e => appendMI a e.1 e.2) acc) := by
  intro l' l h
  induction h with
  | nil => intro _ acc' acc ha _; exact ha
  | @cons e' e r' r hee _ ih =>
    intro hl acc' acc ha hD
    obtain ⟨hk, hbr⟩ := hee
    simp only [List.foldl_cons]
    rw [hk]
    exact ih (fun e he => hl e (List.mem_cons_of_mem _ he)) _ _
      (appendMI_sh sh D e.1 e'.2 e.2 hbr (hl e (by simp)) acc' acc ha hD)
      (appendMI_dims D e.1 e.2 (hl e (by simp)) acc hD)

omit [Field R] in
theorem concatMI_sh (s : Pix d) (a a' b b' : MI R d) (hac : a.Consistent) (hbc : b.Consistent)
    (ha : SRel s a' a) (hb : SRel s b' b) (y : MI R d) (hy : concatMI a b = some y) :
    ∃ y', concatMI a' b' = some y' ∧ SRel s y' y := by
  obtain ⟨had, hat, hab⟩ := ha
  obtain ⟨hbd, hbt, hbb⟩ := hb
  unfold concatMI at hy ⊢
  split at hy
  · rename_i hc
    cases hy
    simp only [Bool.and_eq_true] at hc
    obtain ⟨h1, h2⟩ := hc
    have e1 : a.torus = b.torus := (sameFn_iff _ _).1 h1
    have e2 : a.dims = b.dims := (sameFn_iff _ _).1 h2
    have c1 : sameFn a'.torus b'.torus = true := by rw [sameFn_iff, hat, hbt, e1]
    have c2 : sameFn a'.dims b'.dims = true := by rw [sameFn_iff, had, hbd, e2]
    rw [c1, c2]
    simp only [Bool.and_self, if_true]
    refine ⟨_, rfl, had, hat, ?_⟩
    exact concatBlocks_sh _ a.dims b'.blocks b.blocks (by rw [e2, e1]; exact hbb)
      (fun e he => by rw [hbc e he, e2]) a'.blocks a.blocks hab hac
  · cases hy

end Nodes

/-! ### translation schedules -/

/-- a stride-1 convolution with an odd filter and inferred padding -/
def SameConv (c : ConvSpec R d) : Prop := c.pad = .none ∧ c.stride = 1 ∧ c.ld = 1 ∧ c.M % 2 = 1

/-- the up-convolution -/
def UpConv (c : ConvSpec R d) : Prop :=
  c.pad = .explicit (List.replicate d (1, 1)) ∧ c.stride = 1 ∧ c.ld = 2 ∧ c.rd = 1 ∧ c.M = 2

/-- **how a translation travels through a network**: `ShiftSched torus net N s s'` — on inputs with
extents `N`, rolling the input by `s` rolls the output by `s'` (same convolutions, normalisations,
nonlinearities keep the translation; pooling by `P` divides it by `P`; the up-convolution doubles it;
the operands of `+` and `concat` must be rolled alike) -/
def ShiftSched (torus : Fin d → Bool) : Net R d → (Fin d → Nat) → Pix d → Pix d → Prop
  | .identity, _, s, s' => s' = s
  | .convContract c, N, s, s' =>
    KeysNodup c.target ∧ (∀ j, 0 < N j) ∧
      ((SameConv c ∧ s' = s) ∨ (UpConv c ∧ s' = fun j => 2 * s j))
  | .layerNorm _, N, s, s' => (∀ j, 0 < N j) ∧ s' = s
  | .vnNonlinear _, _, s, s' => s' = s
  | .maxNormPool P, N, s, s' => 0 < P ∧ (∀ j, 0 < N j) ∧ (∀ j, P ∣ N j) ∧ s = fun j => s' j * (P : Int)
  | .seq a b, N, s, s' =>
    ∃ sm Nm, outDims torus a N = some Nm ∧ ShiftSched torus a N s sm ∧ ShiftSched torus b Nm sm s'
  | .residual body, N, s, s' => s' = s ∧ outDims torus body N = some N ∧ ShiftSched torus body N s s
  | .skipConcat dn body up, N, s, s' =>
    s' = s ∧ ∃ s1 s2 N1 N2, outDims torus dn N = some N1 ∧ outDims torus body N1 = some N2 ∧
      ShiftSched torus dn N s s1 ∧ ShiftSched torus body N1 s1 s2 ∧ ShiftSched torus up N2 s2 s

/-- **the induction**: for every parameter value, any bank -/
theorem eval_shift_sched [Field R] [LinearOrder R] (F : Fns R d) :
    ∀ (net : Net R d) (x x' y : MI R d) (s s' : Pix d), x.Consistent → SRel s x' x →
      ShiftSched x.torus net x.dims s s' → eval F net x = some y →
      ∃ y', eval F net x' = some y' ∧ SRel s' y' y := by
  intro net
  induction net with
  | identity =>
    intro x x' y s s' _ hr hw h
    cases h
    have hs : s' = s := hw
    rw [hs]
    exact ⟨x', rfl, hr⟩
  | convContract c =>
    intro x x' y s s' hx hr hw h
    obtain ⟨hn, hN, hcase⟩ := hw
    rcases hcase with ⟨⟨w1, w2, w3, w4⟩, hs⟩ | ⟨⟨w1, w2, w3, w4, w5⟩, hs⟩
    · rw [hs]; exact (evalConv_sh s c x x' y hx hr w1 w2 w3 w4 hN hn h).1
    · rw [hs]; exact (evalConvUp_sh s c x x' y hx hr w1 w2 w3 w4 w5 hN hn h).1
  | layerNorm n =>
    intro x x' y s s' hx hr hw h
    obtain ⟨hN, hs⟩ := hw
    rw [hs]
    exact evalNorm_sh F n s x x' y hx hN hr h
  | vnNonlinear v =>
    intro x x' y s s' _ hr hw h
    have hs : s' = s := hw
    rw [hs]
    exact evalVN_sh F v s x x' y hr h
  | maxNormPool P =>
    intro x x' y s s' hx hr hw h
    obtain ⟨hP, hN, hdiv, rfl⟩ := hw
    simp only [eval] at h ⊢
    cases h
    exact ⟨_, rfl, evalPool_sh P hP s' x x' hx hN hdiv hr⟩
  | seq a b iha ihb =>
    intro x x' y s s' hx hr hw h
    obtain ⟨sm, Nm, hNm, wa, wb⟩ := hw
    simp only [eval] at h ⊢
    cases hz : eval F a x with
    | none => rw [hz] at h; cases h
    | some z =>
      rw [hz] at h
      simp only [Option.bind_some] at h
      obtain ⟨z', hz', rz⟩ := iha x x' z s sm hx hr wa hz
      obtain ⟨z1, z2, z3⟩ := eval_shape F a x z hx hz
      rw [hNm] at z3
      cases z3
      rw [hz']
      simp only [Option.bind_some]
      exact ihb z z' y sm s' z1 rz (by rw [z2]; exact wb) h
  | residual body ih =>
    intro x x' y s s' hx hr hw h
    obtain ⟨hs, hod, wb⟩ := hw
    rw [hs]
    simp only [eval] at h ⊢
    cases hz : eval F body x with
    | none => rw [hz] at h; cases h
    | some z =>
      rw [hz] at h
      simp only [Option.bind_some] at h
      obtain ⟨z', hz', rz⟩ := ih x x' z s s hx hr wb hz
      rw [hz']
      simp only [Option.bind_some]
      obtain ⟨_, _, z3⟩ := eval_shape F body x z hx hz
      rw [hod] at z3
      have hzd : z.dims = x.dims := (Option.some.inj z3).symm
      exact addMI_sh s z z' x x' hzd rz hr y h
  | skipConcat dn body up ih1 ih2 ih3 =>
    intro x x' y s s' hx hr hw h
    obtain ⟨hs, s1, s2, N1, N2, hN1, hN2, w1, w2, w3⟩ := hw
    rw [hs]
    simp only [eval] at h ⊢
    cases h1 : eval F dn x with
    | none => rw [h1] at h; cases h
    | some x1 =>
      rw [h1] at h
      simp only [Option.bind_some] at h
      cases h2 : eval F body x1 with
      | none => rw [h2] at h; cases h
      | some x2 =>
        rw [h2] at h
        simp only [Option.bind_some] at h
        cases h3 : eval F up x2 with
        | none => rw [h3] at h; cases h
        | some x3 =>
          rw [h3] at h
          simp only [Option.bind_some] at h
          obtain ⟨a1, a2, a3⟩ := eval_shape F dn x x1 hx h1
          obtain ⟨b1, b2, b3⟩ := eval_shape F body x1 x2 a1 h2
          obtain ⟨c1, _, _⟩ := eval_shape F up x2 x3 b1 h3
          rw [hN1] at a3
          cases a3
          rw [a2, hN2] at b3
          cases b3
          obtain ⟨x1', e1, r1⟩ := ih1 x x' x1 s s1 hx hr w1 h1
          obtain ⟨x2', e2, r2⟩ := ih2 x1 x1' x2 s1 s2 a1 r1 (by rw [a2]; exact w2) h2
          obtain ⟨x3', e3, r3⟩ := ih3 x2 x2' x3 s2 s b1 r2 (by rw [b2, a2]; exact w3) h3
          rw [e1]
          simp only [Option.bind_some]
          rw [e2]
          simp only [Option.bind_some]
          rw [e3]
          simp only [Option.bind_some]
          exact concatMI_sh s x3 x3' x x' c1 hx r3 hr y h

/-! ### the schedule of the U-Net -/

section UNet

theorem outDims_conv_same (torus : Fin d → Bool) (c : ConvSpec R d) (N : Fin d → Nat) (h : SameConv c)
    (hN : ∀ j, 0 < N j) : outDims torus (.convContract c) N = some N := by
  obtain ⟨hpad, hst, hld, hM⟩ := h
  obtain ⟨ax, hax, hfacts⟩ := dispatch_none_some torus N c.M c.rd hM
  have hdis : c.dispatch torus N = some ax := by
    unfold ConvSpec.dispatch; rw [hpad, hst, hld]; exact hax
  simp only [outDims, hdis, Option.map_some]
  congr 1
  funext j
  obtain ⟨h1, h2, h3, h4, h5, h6⟩ := hfacts j
  exact (same_outLen (ax j) (N j) c.M c.rd hM (hN j) h1 h2 h3 h4 h5 h6).1

theorem outDims_conv_up (torus : Fin d → Bool) (c : ConvSpec R d) (N : Fin d → Nat) (h : UpConv c)
    (hN : ∀ j, 0 < N j) : outDims torus (.convContract c) N = some (fun j => 2 * N j) := by
  obtain ⟨hpad, hst, hld, hrd, hM⟩ := h
  obtain ⟨ax, hax, hfacts⟩ := dispatch_explicit_some torus N c.M c.rd c.ld 1
  have hdis : c.dispatch torus N = some ax := by
    unfold ConvSpec.dispatch; rw [hpad, hst]; exact hax
  simp only [outDims, hdis, Option.map_some]
  congr 1
  funext j
  obtain ⟨h1, h2, h3, h4, h5, h6, h7, h8⟩ := hfacts j
  exact (up_outLen (ax j) (N j) (hN j) h1 (h2.trans hM) h3 (h4.trans hrd) (h5.trans hld) h6 h7 h8).1

/-- "the translation passes unchanged and the extents are kept" -/
def SchedSame (torus : Fin d → Bool) (net : Net R d) (N : Fin d → Nat) (s : Pix d) : Prop :=
  ShiftSched torus net N s s ∧ outDims torus net N = some N

theorem schedSame_identity (torus : Fin d → Bool) (N : Fin d → Nat) (s : Pix d) :
    SchedSame torus (.identity : Net R d) N s := ⟨rfl, rfl⟩

theorem schedSame_seq (torus : Fin d → Bool) (a b : Net R d) (N : Fin d → Nat) (s : Pix d)
    (ha : SchedSame torus a N s) (hb : SchedSame torus b N s) : SchedSame torus (.seq a b) N s := by
  refine ⟨⟨s, N, ha.2, ha.1, hb.1⟩, ?_⟩
  simp only [outDims, ha.2, Option.bind_some]
  exact hb.2

theorem schedSame_chain (torus : Fin d → Bool) (N : Fin d → Nat) (s : Pix d) :
    ∀ ns : List (Net R d), (∀ n ∈ ns, SchedSame torus n N s) → SchedSame torus (chain ns) N s
  | [], _ => schedSame_identity torus N s
  | n :: ns, h =>
    schedSame_seq torus n (chain ns) N s (h n (by simp))
      (schedSame_chain torus N s ns (fun m hm => h m (List.mem_cons_of_mem _ hm)))

theorem schedSame_mkConvBlock (θ : ParamFam R) (id : List Nat) (torus : Fin d → Bool)
    (a : BlockArgs R d) (hpad : a.pad = .none) (hld : a.ld = 1) (hM : a.M % 2 = 1)
    (hn : KeysNodup a.outKeys) (N : Fin d → Nat) (hN : ∀ j, 0 < N j) (s : Pix d) :
    SchedSame torus (mkConvBlock θ id a) N s := by
  have hsame : SameConv (R := R) (d := d)
      { declared := a.inKeys, target := a.outKeys, bank := a.bank, M := a.M,
        weights := θ.convW id, bias := θ.convB id, mode := a.bias, pad := a.pad, stride := 1, rd := a.rd,
        ld := a.ld } := ⟨hpad, rfl, hld, hM⟩
  have h3 : SchedSame torus (mkConv θ id a) N s :=
    ⟨⟨hn, hN, Or.inl ⟨hsame, rfl⟩⟩, outDims_conv_same torus _ N hsame hN⟩
  have h1 : SchedSame torus (mkNorm θ id a) N s := by
    unfold mkNorm; split
    · exact ⟨⟨hN, rfl⟩, rfl⟩
    · exact schedSame_identity torus N s
  have h2 : SchedSame torus (mkNonlin θ id a) N s := by
    unfold mkNonlin; split
    · exact ⟨rfl, rfl⟩
    · exact schedSame_identity torus N s
  unfold mkConvBlock
  split
  · exact schedSame_seq torus _ _ N s h1 (schedSame_seq torus _ _ N s h2 h3)
  · exact schedSame_seq torus _ _ N s h3 (schedSame_seq torus _ _ N s h1 h2)

theorem schedSame_levelBlocks (θ : ParamFam R) (torus : Fin d → Bool) (c : NetArgs R d)
    (h : NetShiftOK c) (id : List Nat) (inK : Sig) (ch : Nat) (N : Fin d → Nat) (hN : ∀ j, 0 < N j)
    (s : Pix d) : ∀ n ∈ levelBlocks θ c id inK (midAt c.mid ch), SchedSame torus n N s := by
  intro n hn
  obtain ⟨j, _, rfl⟩ := List.mem_map.1 hn
  exact schedSame_mkConvBlock θ _ torus _ rfl rfl h.odd
    (by show KeysNodup (midAt c.mid ch); unfold KeysNodup; rw [keysOf_midAt]; exact h.midNodup) N hN s

/-- the levels of the U-Net pass a translation by `t·2^n` unchanged -/
theorem levelNet_schedSame (θ : ParamFam R) (torus : Fin d → Bool) (c : NetArgs R d)
    (h : NetShiftOK c) (hup : c.upM = 2) (t : Pix d) :
    ∀ (n l : Nat) (N : Fin d → Nat), (∀ j, 0 < N j) → (∀ j, 2 ^ n ∣ N j) →
      SchedSame torus (levelNet θ c n l) N (fun j => t j * (2 : Int) ^ n)
  | 0, _, N, _, _ => schedSame_identity torus N _
  | n + 1, l, N, hN, hdiv => by
    have h2 : ∀ j, 2 ∣ N j := fun j => Dvd.dvd.trans (Dvd.intro_left (2 ^ n) (by rw [pow_succ])) (hdiv j)
    have hN1 : ∀ j, 0 < N j / 2 := fun j => by
      obtain ⟨k, hk⟩ := h2 j
      have := hN j
      omega
    have hdiv1 : ∀ j, 2 ^ n ∣ N j / 2 := fun j => by
      apply Nat.dvd_div_of_mul_dvd
      have := hdiv j
      rw [pow_succ, Nat.mul_comm] at this
      exact this
    have hdouble : (fun j => 2 * (N j / 2)) = N := funext (fun j => Nat.mul_div_cancel' (h2 j))
    have hdown := schedSame_chain torus (fun j => N j / 2) (fun j => t j * (2 : Int) ^ n) _
      (schedSame_levelBlocks θ torus c h [1, l] (midAt c.mid (c.depth * 2 ^ (l - 1))) (c.depth * 2 ^ l)
        (fun j => N j / 2) hN1 _)
    have hrec := levelNet_schedSame θ torus c h hup t n (l + 1) (fun j => N j / 2) hN1 hdiv1
    have hbody := schedSame_seq torus _ _ _ _ hdown hrec
    have hupc : UpConv (R := R) (d := d)
        { declared := midAt c.mid (c.depth * 2 ^ (l - 1 + 1)),
          target := midAt c.mid (c.depth * 2 ^ (l - 1)), bank := c.upBank, M := c.upM,
          weights := θ.convW [2, l - 1], bias := θ.convB [2, l - 1], mode := c.bias,
          pad := .explicit (List.replicate d (1, 1)), stride := 1, rd := 1, ld := 2 } :=
      ⟨rfl, rfl, rfl, rfl, hup⟩
    have hupB := schedSame_chain torus N (fun j => t j * (2 : Int) ^ (n + 1)) _
      (schedSame_levelBlocks θ torus c h [3, l - 1] (midAt c.mid (c.depth * 2 ^ l))
        (c.depth * 2 ^ (l - 1)) N hN _)
    have hs2 : (fun j => 2 * (t j * (2 : Int) ^ n)) = fun j => t j * (2 : Int) ^ (n + 1) := by
      funext j; rw [pow_succ]; ring
    have e3 : outDims torus (upConv θ c (l - 1)) (fun j => N j / 2) = some (fun j => 2 * (N j / 2)) :=
      outDims_conv_up torus _ _ hupc hN1
    unfold levelNet
    refine schedSame_seq torus _ _ N _ ⟨⟨rfl, fun j => t j * (2 : Int) ^ n, fun j => t j * (2 : Int) ^ n,
      fun j => N j / 2, fun j => N j / 2, rfl, hbody.2, ?_, hbody.1, ?_⟩, ?_⟩ hupB
    · refine ⟨by decide, hN, h2, ?_⟩
      funext j
      rw [pow_succ]; push_cast; ring
    · refine ⟨by show KeysNodup (midAt c.mid _); unfold KeysNodup; rw [keysOf_midAt]; exact h.midNodup,
        hN1, Or.inr ⟨hupc, hs2.symm⟩⟩
    · have e1 := hbody.2
      simp only [outDims, Option.bind_some] at e1 ⊢
      rw [e1]
      simp only [Option.bind_some]
      rw [e3, hdouble]

/-- **the schedule of the U-Net**: a translation by `t·2^num_downsamples` passes through -/
theorem mkUNet_schedSame (θ : ParamFam R) (torus : Fin d → Bool) (c : NetArgs R d)
    (h : NetShiftOK c) (hup : c.upM = 2) (t : Pix d) (N : Fin d → Nat) (hN : ∀ j, 0 < N j)
    (hdiv : ∀ j, 2 ^ c.numDown ∣ N j) :
    SchedSame torus (mkUNet θ c) N (fun j => t j * (2 : Int) ^ c.numDown) := by
  unfold mkUNet
  refine schedSame_seq torus _ _ N _ ?_ (schedSame_seq torus _ _ N _ ?_ ?_)
  · apply schedSame_chain
    intro n hn
    obtain ⟨j, _, rfl⟩ := List.mem_map.1 hn
    exact schedSame_mkConvBlock θ _ torus _ rfl rfl h.odd h.midNodup N hN _
  · exact levelNet_schedSame θ torus c h hup t c.numDown 1 N hN hdiv
  · have hsame : SameConv (R := R) (d := d)
        { declared := c.mid, target := c.outSig, bank := c.bank, M := c.M,
          weights := θ.convW [4], bias := θ.convB [4], mode := c.bias, pad := .none, stride := 1, rd := 1,
          ld := 1 } := ⟨rfl, rfl, rfl, h.odd⟩
    exact ⟨⟨h.outNodup, hN, Or.inl ⟨hsame, rfl⟩⟩, outDims_conv_same torus _ N hsame hN⟩

end UNet

end GinjaxVerif.C07
