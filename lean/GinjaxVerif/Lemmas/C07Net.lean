import GinjaxVerif.Lemmas.C07Conv
import GinjaxVerif.Lemmas.C07Layers
import Mathlib.Data.List.Forall2

/-!
# C07 — structural induction over `Net`: every well-formed network maps related inputs to related
outputs

* `WellFormed g torus net N`  static conditions, threaded through the net with `outDims`: every
  convolution has padding that is the same on both sides of every axis and does not distinguish the
  axes, unit stride, positive extents, distinct target keys, a `g`-invariant bank and a filter that
  fits; every pooling patch length divides the extents; group-norm layers are declared for `k ≤ 1`.
* `PoolGeneric F net x`       the runtime hypothesis, by recursion over the evaluation: wherever a
  `MaxNormPool` is evaluated, every patch of every channel of its input has a unique pixel of maximal
  norm.
* `eval_shape`                extents and flags of the output are those of `outDims`; blocks stay
  consistent with the recorded extents.
* `eval_rel`                  the induction.
-/
namespace GinjaxVerif.C07

open GinjaxVerif GinjaxVerif.C20 GinjaxVerif.Layer

variable {R : Type} {d : Nat}

/-- **static well-formedness** of a network for the group element `g` on inputs with flags `torus` and
extents `N` -/
def WellFormed [CommRing R] (g : SP d) (torus : Fin d → Bool) : Net R d → (Fin d → Nat) → Prop
  | .identity, _ => True
  | .convContract c, N =>
    c.pad.Symmetric ∧ c.pad.AxisIndep d ∧ c.stride = 1 ∧ 0 < c.ld ∧ (∀ j, 0 < N j) ∧
      KeysNodup c.target ∧ BankInv g (fun _ => c.M) c.bank ∧
      ∀ ax, c.dispatch torus N = some ax → ∀ j, (ax j).Fits
  | .layerNorm n, _ => ∀ b ∈ n.declared, b.1.1 ≤ 1
  | .vnNonlinear _, _ => True
  | .maxNormPool P, N => ∀ j, P ∣ N j
  | .seq a b, N => WellFormed g torus a N ∧ ∀ N', outDims torus a N = some N' → WellFormed g torus b N'
  | .residual body, N => WellFormed g torus body N
  | .skipConcat dn body up, N =>
    WellFormed g torus dn N ∧ ∀ N1, outDims torus dn N = some N1 →
      WellFormed g torus body N1 ∧ ∀ N2, outDims torus body N1 = some N2 → WellFormed g torus up N2

/-- **per-patch uniqueness of the maximal norm wherever a `MaxNormPool` is evaluated** -/
def PoolGeneric [Field R] [LinearOrder R] (F : Fns R d) : Net R d → MI R d → Prop
  | .maxNormPool P, x => PoolUnique P x
  | .seq a b, x => PoolGeneric F a x ∧ ∀ y, eval F a x = some y → PoolGeneric F b y
  | .residual body, x => PoolGeneric F body x
  | .skipConcat dn body up, x =>
    PoolGeneric F dn x ∧ ∀ y, eval F dn x = some y →
      PoolGeneric F body y ∧ ∀ z, eval F body y = some z → PoolGeneric F up z
  | _, _ => True

/-! ### shapes -/

section Shape
variable [Field R]

theorem normBlock_dims (F : Fns R d) (n : NormSpec R) (t : Ty) (b : Block R d) :
    (normBlock F n t b).dims = b.dims := by
  unfold normBlock
  split
  · rfl
  · split <;> rfl

theorem vnBlock_dims (F : Fns R d) (v : VNSpec R) (t : Ty) (b : Block R d) :
    (vnBlock F v t b).dims = b.dims := by
  unfold vnBlock
  split <;> rfl

omit [Field R] in
theorem appendMI_dims (D : Fin d → Nat) (t : Ty) (b : Block R d) (hb : b.dims = D) :
    ∀ acc : MImg R d, (∀ e ∈ acc, e.2.dims = D) → ∀ e ∈ appendMI acc t b, e.2.dims = D
  | [], _, e, he => by
    simp only [appendMI, List.mem_singleton] at he
    rw [he]; exact hb
  | (k, v) :: r, hD, e, he => by
    by_cases hk : k = t
    · simp only [appendMI, if_pos hk] at he
      rcases List.mem_cons.1 he with rfl | he
      · exact hD (k, v) (by simp)
      · exact hD e (List.mem_cons_of_mem _ he)
    · simp only [appendMI, if_neg hk] at he
      rcases List.mem_cons.1 he with rfl | he
      · exact hD (k, v) (by simp)
      · exact appendMI_dims D t b hb r (fun e he => hD e (List.mem_cons_of_mem _ he)) e he

omit [Field R] in
theorem concatBlocks_dims (D : Fin d → Nat) :
    ∀ (l acc : MImg R d), (∀ e ∈ l, e.2.dims = D) → (∀ e ∈ acc, e.2.dims = D) →
      ∀ e ∈ l.foldl (fun a e => appendMI a e.1 e.2) acc, e.2.dims = D
  | [], _, _, hD => hD
  | e :: r, acc, hl, hD => by
    simp only [List.foldl_cons]
    exact concatBlocks_dims D r _ (fun e he => hl e (List.mem_cons_of_mem _ he))
      (appendMI_dims D e.1 e.2 (hl e (by simp)) acc hD)

theorem evalConv_shape (c : ConvSpec R d) (x y : MI R d) (h : evalConv c x = some y) :
    y.Consistent ∧ y.torus = x.torus ∧
      (c.dispatch x.torus x.dims).map (fun ax j => (ax j).outLen) = some y.dims := by
  unfold evalConv at h
  cases hdis : c.dispatch x.torus x.dims with
  | none => rw [hdis] at h; cases h
  | some ax =>
    rw [hdis] at h
    simp only at h
    split at h
    · cases h
      refine ⟨?_, rfl, rfl⟩
      intro e he
      funext j
      exact C11.layer_outDims _ x.blocks e he j
    · cases h

variable [LinearOrder R]

/-- **extents and flags of the output** are those of the static calculus, and the blocks have the
recorded extents -/
theorem eval_shape (F : Fns R d) : ∀ (net : Net R d) (x y : MI R d), x.Consistent →
    eval F net x = some y →
    y.Consistent ∧ y.torus = x.torus ∧ outDims x.torus net x.dims = some y.dims := by
  intro net
  induction net with
  | identity => intro x y hx h; cases h; exact ⟨hx, rfl, rfl⟩
  | convContract c => intro x y _ h; exact evalConv_shape c x y h
  | layerNorm n =>
    intro x y hx h
    simp only [eval, evalNorm] at h
    split at h
    · cases h
      refine ⟨?_, rfl, rfl⟩
      intro e he
      obtain ⟨e0, he0, rfl⟩ := List.mem_map.1 he
      show (normBlock F n e0.1 e0.2).dims = x.dims
      rw [normBlock_dims]; exact hx e0 he0
    · cases h
  | vnNonlinear v =>
    intro x y hx h
    simp only [eval, evalVN] at h
    split at h
    · cases h
      refine ⟨?_, rfl, rfl⟩
      intro e he
      obtain ⟨e0, he0, rfl⟩ := List.mem_map.1 he
      show (vnBlock F v e0.1 e0.2).dims = x.dims
      rw [vnBlock_dims]; exact hx e0 he0
    · cases h
  | maxNormPool P =>
    intro x y hx h
    simp only [eval] at h
    cases h
    refine ⟨?_, rfl, rfl⟩
    intro e he
    obtain ⟨e0, he0, rfl⟩ := List.mem_map.1 he
    show (fun j => e0.2.dims j / P) = fun j => x.dims j / P
    rw [hx e0 he0]
  | seq a b iha ihb =>
    intro x y hx h
    simp only [eval] at h
    cases hz : eval F a x with
    | none => rw [hz] at h; cases h
    | some z =>
      rw [hz] at h
      obtain ⟨z1, z2, z3⟩ := iha x z hx hz
      obtain ⟨y1, y2, y3⟩ := ihb z y z1 h
      refine ⟨y1, y2.trans z2, ?_⟩
      simp only [outDims, z3, Option.bind_some]
      rw [← z2]; exact y3
  | residual body ih =>
    intro x y hx h
    simp only [eval] at h
    cases hz : eval F body x with
    | none => rw [hz] at h; cases h
    | some z =>
      rw [hz] at h
      obtain ⟨z1, z2, z3⟩ := ih x z hx hz
      simp only [Option.bind_some] at h
      unfold addMI at h
      split at h
      · cases h
        refine ⟨?_, z2, z3⟩
        intro e he
        obtain ⟨e0, he0, rfl⟩ := List.mem_map.1 he
        show (addEntry x.blocks e0).2.dims = z.dims
        unfold addEntry
        simp only
        split
        · exact z1 e0 he0
        · exact z1 e0 he0
      · cases h
  | skipConcat dn body up ih1 ih2 ih3 =>
    intro x y hx h
    simp only [eval] at h
    cases h1 : eval F dn x with
    | none => rw [h1] at h; cases h
    | some x1 =>
      rw [h1] at h
      simp only [Option.bind_some] at h
      cases h2 : eval F body x1 with
      | none => rw [h2] at h; cases h
      | some x2 =>
        rw [h2] at h
        simp only [Option.bind_some] at h
        cases h3 : eval F up x2 with
        | none => rw [h3] at h; cases h
        | some x3 =>
          rw [h3] at h
          simp only [Option.bind_some] at h
          obtain ⟨a1, a2, a3⟩ := ih1 x x1 hx h1
          obtain ⟨b1, b2, b3⟩ := ih2 x1 x2 a1 h2
          obtain ⟨c1, c2, c3⟩ := ih3 x2 x3 b1 h3
          unfold concatMI at h
          split at h
          · rename_i hc
            cases h
            simp only [Bool.and_eq_true] at hc
            have e2 : x3.dims = x.dims := (sameFn_iff _ _).1 hc.2
            refine ⟨?_, (c2.trans b2).trans a2, ?_⟩
            · exact concatBlocks_dims x3.dims x.blocks x3.blocks
                (fun e he => by rw [hx e he, e2]) c1
            · simp only [outDims, a3, Option.bind_some]
              rw [← a2, b3]
              simp only [Option.bind_some]
              rw [← b2]; exact c3
          · cases h

end Shape

/-! ### the induction -/

/-- **every well-formed network maps related inputs to related outputs** (wherever it evaluates): for
every value of every learnable array, every activation / square root / absolute value function, and
every matrix function `S` that commutes with conjugation by signed permutations. -/
theorem eval_rel [Field R] [LinearOrder R] (g : SP d) (F : Fns R d) (hS : ConjEquivariant F.S) :
    ∀ (net : Net R d) (x x' y : MI R d), x.Consistent → Rel g x' x →
      WellFormed g x.torus net x.dims → PoolGeneric F net x → eval F net x = some y →
      ∃ y', eval F net x' = some y' ∧ Rel g y' y := by
  intro net
  induction net with
  | identity => intro x x' y _ hr _ _ h; cases h; exact ⟨x', rfl, hr⟩
  | convContract c =>
    intro x x' y hx hr hw _ h
    obtain ⟨w1, w2, w3, w4, w5, w6, w7, w8⟩ := hw
    exact evalConv_rel g c x x' hx hr w1 w2 w3 w4 w5 w6 w7 w8 y h
  | layerNorm n => intro x x' y _ hr _ _ h; exact evalNorm_rel F hS n g x x' hr y h
  | vnNonlinear v => intro x x' y _ hr _ _ h; exact evalVN_rel F v g x x' hr y h
  | maxNormPool P =>
    intro x x' y hx hr hw hp h
    simp only [eval] at h ⊢
    cases h
    exact ⟨_, rfl, evalPool_rel P g x x' hx hr hw hp⟩
  | seq a b iha ihb =>
    intro x x' y hx hr hw hp h
    simp only [eval] at h ⊢
    cases hz : eval F a x with
    | none => rw [hz] at h; cases h
    | some z =>
      rw [hz] at h
      simp only [Option.bind_some] at h
      obtain ⟨wa, wb⟩ := hw
      obtain ⟨pa, pb⟩ := hp
      obtain ⟨z', hz', rz⟩ := iha x x' z hx hr wa pa hz
      obtain ⟨z1, z2, z3⟩ := eval_shape F a x z hx hz
      rw [hz']
      simp only [Option.bind_some]
      exact ihb z z' y z1 rz (by rw [z2]; exact wb _ z3) (pb z hz) h
  | residual body ih =>
    intro x x' y hx hr hw hp h
    simp only [eval] at h ⊢
    cases hz : eval F body x with
    | none => rw [hz] at h; cases h
    | some z =>
      rw [hz] at h
      simp only [Option.bind_some] at h
      obtain ⟨z', hz', rz⟩ := ih x x' z hx hr hw hp hz
      rw [hz']
      simp only [Option.bind_some]
      exact addMI_rel g z z' x x' rz hr y h
  | skipConcat dn body up ih1 ih2 ih3 =>
    intro x x' y hx hr hw hp h
    simp only [eval] at h ⊢
    cases h1 : eval F dn x with
    | none => rw [h1] at h; cases h
    | some x1 =>
      rw [h1] at h
      simp only [Option.bind_some] at h
      cases h2 : eval F body x1 with
      | none => rw [h2] at h; cases h
      | some x2 =>
        rw [h2] at h
        simp only [Option.bind_some] at h
        cases h3 : eval F up x2 with
        | none => rw [h3] at h; cases h
        | some x3 =>
          rw [h3] at h
          simp only [Option.bind_some] at h
          obtain ⟨w1, w23⟩ := hw
          obtain ⟨p1, p23⟩ := hp
          obtain ⟨a1, a2, a3⟩ := eval_shape F dn x x1 hx h1
          obtain ⟨b1, b2, b3⟩ := eval_shape F body x1 x2 a1 h2
          obtain ⟨c1, _, _⟩ := eval_shape F up x2 x3 b1 h3
          obtain ⟨w2, w3⟩ := w23 _ a3
          obtain ⟨p2, p3⟩ := p23 x1 h1
          obtain ⟨x1', e1, r1⟩ := ih1 x x' x1 hx hr w1 p1 h1
          obtain ⟨x2', e2, r2⟩ := ih2 x1 x1' x2 a1 r1 (by rw [a2]; exact w2) p2 h2
          have w3' := w3 x2.dims (by rw [← a2]; exact b3)
          obtain ⟨x3', e3, r3⟩ := ih3 x2 x2' x3 b1 r2 (by rw [b2, a2]; exact w3') (p3 x2 h2) h3
          rw [e1]
          simp only [Option.bind_some]
          rw [e2]
          simp only [Option.bind_some]
          rw [e3]
          simp only [Option.bind_some]
          exact (concatMI_rel g x3 x3' x x' c1 hx r3 hr y h).1

/-! ### extensional equality of multi-images -/

/-- same keys in the same order, same extents and flags, and blockwise `Blk.Equiv` with the order of
the key -/
def MI.Equiv (a b : MI R d) : Prop :=
  a.dims = b.dims ∧ a.torus = b.torus ∧
    List.Forall₂ (fun e' e => e'.1 = e.1 ∧ (toBlk e.1 e'.2).Equiv (toBlk e.1 e.2)) a.blocks b.blocks

theorem rel_iff_equiv_act [CommRing R] (g : SP d) (y' y : MI R d) :
    Rel g y' y ↔ MI.Equiv y' (act g y) := by
  constructor
  · rintro ⟨h1, h2, h3⟩
    refine ⟨h1, h2, ?_⟩
    show List.Forall₂ _ y'.blocks (List.map _ y.blocks)
    rw [List.forall₂_map_right_iff]
    exact h3
  · rintro ⟨h1, h2, h3⟩
    refine ⟨h1, h2, ?_⟩
    have h3' : List.Forall₂ _ y'.blocks (List.map _ y.blocks) := h3
    rw [List.forall₂_map_right_iff] at h3'
    exact h3'

theorem rel_iff_equiv_tgeAct [CommRing R] (g : SP d) (y' y : MI R d) :
    Rel g y' y ↔ MI.Equiv y' (tgeAct g.mat y) := by
  have key : ∀ (e' e : Ty × Block R d),
      (e'.1 = e.1 ∧ BRel g e.1 e'.2 e.2) ↔
      (e'.1 = e.1 ∧ (toBlk e.1 e'.2).Equiv (toBlk e.1 (tgeBlock g.mat e.1 e.2))) := by
    intro e' e
    have hb : toBlk e.1 (tgeBlock g.mat e.1 e.2) = tgeBlk g.mat e.1.2 (toBlk e.1 e.2) := rfl
    rw [hb]
    constructor
    · rintro ⟨hk, h⟩; exact ⟨hk, h.trans (tgeBlk_equiv_pfBlk g e.1.2 _).symm⟩
    · rintro ⟨hk, h⟩; exact ⟨hk, h.trans (tgeBlk_equiv_pfBlk g e.1.2 _)⟩
  constructor
  · rintro ⟨h1, h2, h3⟩
    refine ⟨by rw [h1]; exact (rotDims_mat' g y.dims).symm,
      by rw [h2]; exact (transport_mat' g y.torus).symm, ?_⟩
    show List.Forall₂ _ y'.blocks (List.map _ y.blocks)
    rw [List.forall₂_map_right_iff]
    exact List.Forall₂.imp (fun e' e h => (key e' e).1 h) h3
  · rintro ⟨h1, h2, h3⟩
    refine ⟨h1.trans (rotDims_mat' g y.dims), h2.trans (transport_mat' g y.torus), ?_⟩
    have h3' : List.Forall₂ _ y'.blocks (List.map _ y.blocks) := h3
    rw [List.forall₂_map_right_iff] at h3'
    exact List.Forall₂.imp (fun e' e h => (key e' e).2 h) h3'

end GinjaxVerif.C07
