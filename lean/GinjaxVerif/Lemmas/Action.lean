import GinjaxVerif.Model.Action
import Mathlib.Algebra.BigOperators.Fin
import Mathlib.Algebra.BigOperators.Pi
import Mathlib.Algebra.BigOperators.Ring.Finset
import Mathlib.Data.Fintype.BigOperators
import Mathlib.Algebra.Group.End
import Mathlib.Tactic.Ring
import Mathlib.Tactic.Linarith

/-!
# Signed permutations and the permute-and-flip form of the action

`SP d` is the hyperoctahedral group `B_d` presented as (axis permutation, signs).  The matrix the
code receives is `g.mat`.  The main results: the einsum collapses to a monomial (`tactL_mat`), the
code's doubled-coordinate source pixel is permute-and-flip (`src2_mat`), and the model of
`times_group_element` equals the permute-and-flip form `pf` (`tge_eq_pf`).
-/
namespace GinjaxVerif

open Finset

variable {R : Type} {d : Nat}

theorem sumFin_eq [AddCommMonoid R] (n : Nat) (f : Fin n → R) : sumFin n f = ∑ i, f i := by
  induction n with
  | zero => simp [sumFin]
  | succ n ih => simp [sumFin, ih, Fin.sum_univ_succ]

theorem prodFin_eq [CommMonoid R] (n : Nat) (f : Fin n → R) : prodFin n f = ∏ i, f i := by
  induction n with
  | zero => simp [prodFin]
  | succ n ih => simp [prodFin, ih, Fin.prod_univ_succ]

/-- An element of `B_d`: `g.mat i j = if j = σ i then s i else 0`. -/
structure SP (d : Nat) where
  σ : Equiv.Perm (Fin d)
  s : Fin d → Int
  hs : ∀ i, s i = 1 ∨ s i = -1

namespace SP

def mat (g : SP d) : Mat d := fun i j => if j = g.σ i then g.s i else 0

/-- sign picked up by a tensor index list: `Π_i s(n_i)` -/
def sgn (g : SP d) (n : List (Fin d)) : Int := (n.map g.s).prod

theorem s_mul_self (g : SP d) (i : Fin d) : g.s i * g.s i = 1 := by
  rcases g.hs i with h | h <;> simp [h]

theorem s_natAbs (g : SP d) (i : Fin d) : (g.s i).natAbs = 1 := by
  rcases g.hs i with h | h <;> simp [h]

theorem sgn_mul_self (g : SP d) (n : List (Fin d)) : g.sgn n * g.sgn n = 1 := by
  induction n with
  | nil => simp [sgn]
  | cons a n ih =>
    simp only [sgn, List.map_cons, List.prod_cons] at *
    calc g.s a * (List.map g.s n).prod * (g.s a * (List.map g.s n).prod)
        = (g.s a * g.s a) * ((List.map g.s n).prod * (List.map g.s n).prod) := by ring
      _ = 1 := by rw [g.s_mul_self, ih]; ring

@[simp] theorem sgn_nil (g : SP d) : g.sgn [] = 1 := rfl
@[simp] theorem sgn_cons (g : SP d) (a : Fin d) (n : List (Fin d)) :
    g.sgn (a :: n) = g.s a * g.sgn n := by simp [sgn]

theorem sgn_append (g : SP d) (n m : List (Fin d)) : g.sgn (n ++ m) = g.sgn n * g.sgn m := by
  simp [sgn]

/-- identity -/
protected def one : SP d := ⟨1, fun _ => 1, fun _ => Or.inl rfl⟩

/-- product: `(g.mul h).mat = g.mat * h.mat` -/
protected def mul (g h : SP d) : SP d :=
  ⟨h.σ * g.σ, fun i => g.s i * h.s (g.σ i), fun i => by
    rcases g.hs i with a | a <;> rcases h.hs (g.σ i) with b | b <;> simp [a, b]⟩

/-- inverse: `g.inv.mat = g.matᵀ` -/
protected def inv (g : SP d) : SP d :=
  ⟨g.σ.symm, fun i => g.s (g.σ.symm i), fun i => g.hs _⟩

@[simp] theorem one_σ (i : Fin d) : (SP.one : SP d).σ i = i := rfl
@[simp] theorem one_s (i : Fin d) : (SP.one : SP d).s i = 1 := rfl
@[simp] theorem mul_σ (g h : SP d) (i : Fin d) : (g.mul h).σ i = h.σ (g.σ i) := rfl
@[simp] theorem mul_s (g h : SP d) (i : Fin d) : (g.mul h).s i = g.s i * h.s (g.σ i) := rfl
@[simp] theorem inv_σ (g : SP d) (i : Fin d) : g.inv.σ i = g.σ.symm i := rfl
@[simp] theorem inv_s (g : SP d) (i : Fin d) : g.inv.s i = g.s (g.σ.symm i) := rfl
@[simp] theorem mul_σ_symm (g h : SP d) (i : Fin d) :
    (g.mul h).σ.symm i = g.σ.symm (h.σ.symm i) := rfl
@[simp] theorem inv_σ_symm (g : SP d) (i : Fin d) : g.inv.σ.symm i = g.σ i := rfl

theorem mat_apply (g : SP d) (i j : Fin d) : g.mat i j = if j = g.σ i then g.s i else 0 := rfl

theorem mat_one : (SP.one : SP d).mat = Mat.one d := by
  funext i j
  rw [mat_apply, one_σ, one_s, Mat.one]
  by_cases h : i = j
  · subst h; simp
  · rw [if_neg h, if_neg (fun h' => h h'.symm)]

theorem mat_mul (g h : SP d) : (g.mul h).mat = Mat.mul g.mat h.mat := by
  funext i j
  rw [mat_apply, mul_σ, mul_s, Mat.mul, sumFin_eq, Finset.sum_eq_single (g.σ i)]
  · rw [mat_apply, mat_apply, if_pos rfl]; split <;> simp
  · intro b _ hb; rw [mat_apply, if_neg hb]; simp
  · intro h; exact absurd (Finset.mem_univ _) h

theorem mat_inv (g : SP d) : g.inv.mat = Mat.transpose g.mat := by
  funext i j
  rw [mat_apply, inv_σ, inv_s, Mat.transpose, mat_apply]
  by_cases h : i = g.σ j
  · subst h; simp
  · have : ¬ j = g.σ.symm i := by
      intro hj; apply h; rw [hj]; simp
    rw [if_neg this, if_neg h]

end SP

/-! ### The einsum collapses on a signed permutation -/

theorem tactL_mat [CommRing R] (g : SP d) (n : List (Fin d)) (v : List (Fin d) → R) :
    tactL g.mat n v = ((g.sgn n : Int) : R) * v (n.map g.σ) := by
  induction n generalizing v with
  | nil => simp [tactL]
  | cons m n ih =>
    simp only [tactL, sumFin_eq, ih, SP.sgn_cons, List.map_cons]
    rw [Finset.sum_eq_single (g.σ m)]
    · simp only [SP.mat, if_true]; push_cast; ring
    · intro b _ hb; simp [SP.mat, hb]
    · intro h; exact absurd (Finset.mem_univ _) h

/-! ### Extents and source pixels -/

theorem rotDims_mat (g : SP d) (dims : Fin d → Nat) (i : Fin d) :
    rotDims g.mat dims i = dims (g.σ i) := by
  simp only [rotDims, sumFin_eq, SP.mat]
  rw [Finset.sum_eq_single (g.σ i)]
  · simp [Int.natAbs_mul, g.s_natAbs]
  · intro b _ hb; simp [hb]
  · intro h; exact absurd (Finset.mem_univ _) h

/-- permute-and-flip source pixel: coordinate `σ i` of the source is `y i` or its mirror image
`N' i − 1 − y i` (`N'` the extents of the transformed image). -/
def SP.srcPix (g : SP d) (N' : Fin d → Nat) (y : Fin d → Int) : Fin d → Int :=
  fun j => if g.s (g.σ.symm j) = 1 then y (g.σ.symm j) else (N' (g.σ.symm j) : Int) - 1 - y (g.σ.symm j)

theorem src2_mat (g : SP d) (dims : Fin d → Nat) (y : Fin d → Int) (j : Fin d) :
    src2 g.mat dims y j = 2 * g.srcPix (rotDims g.mat dims) y j := by
  simp only [src2, sumFin_eq, SP.srcPix]
  rw [Finset.sum_eq_single (g.σ.symm j)]
  · have hd : rotDims g.mat dims (g.σ.symm j) = dims j := by rw [rotDims_mat]; simp
    simp only [SP.mat, Equiv.apply_symm_apply, if_true, hd]
    rcases g.hs (g.σ.symm j) with h | h <;> simp only [h] <;> simp <;> ring
  · intro b _ hb
    have : ¬ j = g.σ b := by intro h; apply hb; rw [h]; simp
    simp [SP.mat, this]
  · intro h; exact absurd (Finset.mem_univ _) h

theorem srcPix_inBox (g : SP d) (dims : Fin d → Nat) (y : Fin d → Int)
    (hy : InBox (fun i => dims (g.σ i)) y) : InBox dims (g.srcPix (fun i => dims (g.σ i)) y) := by
  intro j
  have := hy (g.σ.symm j)
  simp only [Equiv.apply_symm_apply] at this
  simp only [SP.srcPix, Equiv.apply_symm_apply]
  split <;> constructor <;> omega

theorem rintHalf_two_mul (m : Int) : rintHalf (2 * m) = m := by
  simp [rintHalf]

theorem rotDims_mat' (g : SP d) (dims : Fin d → Nat) :
    rotDims g.mat dims = fun i => dims (g.σ i) := funext (rotDims_mat g dims)

theorem rotatedKey_mat (g : SP d) (dims : Fin d → Nat) (y : Fin d → Int)
    (hy : InBox (rotDims g.mat dims) y) :
    rotatedKey g.mat dims y = g.srcPix (rotDims g.mat dims) y := by
  funext j
  simp only [rotatedKey, src2_mat, rintHalf_two_mul]
  rw [rotDims_mat'] at hy ⊢
  have := srcPix_inBox g dims y hy j
  exact Int.emod_eq_of_lt this.1 this.2

theorem src2_div_mat (g : SP d) (dims : Fin d → Nat) (y : Fin d → Int) :
    (fun j => src2 g.mat dims y j / 2) = g.srcPix (rotDims g.mat dims) y := by
  funext j; rw [src2_mat]; simp

/-! ### The permute-and-flip form of the action -/

/-- `pf g c A`: extents travel with the axes, the pixel is fetched by permute-and-flip, the tensor
picks up `Π s(n_i)` and is re-indexed by `σ`, times a scalar `c` (`det^p`). -/
def pf {R : Type} [Mul R] [IntCast R] (g : SP d) (c : Int) (A : Img R d) : Img R d :=
  { dims := fun i => A.dims (g.σ i)
    k := A.k
    val := fun y n =>
      ((c : Int) : R) * (((g.sgn n : Int) : R) * A.val (g.srcPix (fun i => A.dims (g.σ i)) y) (n.map g.σ)) }

theorem tge_eq_pf [CommRing R] (g : SP d) (p : Nat) (A : Img R d) :
    (tge g.mat p A).dims = (pf g ((det g.mat) ^ p) A).dims ∧ (tge g.mat p A).k = (pf g ((det g.mat) ^ p) A).k ∧
    ∀ y, InBox (tge g.mat p A).dims y → ∀ n,
      (tge g.mat p A).val y n = (pf g ((det g.mat) ^ p) A).val y n := by
  refine ⟨rotDims_mat' g A.dims, rfl, ?_⟩
  intro y hy n
  simp only [tge, pf, tactL_mat]
  simp only [tge] at hy
  rw [rotatedKey_mat g A.dims y hy, rotDims_mat']

theorem actSpec_eq_pf [CommRing R] (g : SP d) (p : Nat) (A : Img R d) :
    (actSpec g.mat p A).dims = (pf g ((det g.mat) ^ p) A).dims ∧
    ∀ y n, (actSpec g.mat p A).val y n = (pf g ((det g.mat) ^ p) A).val y n := by
  refine ⟨rotDims_mat' g A.dims, ?_⟩
  intro y n
  simp only [actSpec, pf, tactL_mat, src2_div_mat, rotDims_mat']

end GinjaxVerif
