import GinjaxVerif.Lemmas.C07Build
import GinjaxVerif.Properties.C09
import Mathlib.Data.Quot

/-!
# C07 — plumbing for the instantiation of C09's hypothesis `hC07`

C09 (`trained_equivariant`) is stated for an abstract forward map `eval : Plan → P → List B → X → Y`
with strict equalities `g • b = b`, `f (g • x) = g • f x`.  Here the concrete types are built:

* `Plan := Net R d`  a network whose learnable values and banks are ignored: `instantiate θ bk` writes
  the parameter family `θ` (addressed by the path of the node) and the bank `bk M` (`M` the filter side of
  the node) into every node;
* `P := ParamFam R`;
* `B := FB R d`      a keyed filter block up to equality on its box (quotient), with the group action
  `actBlock` and the scalar multiplication by `R`;
* `X := Input R d`   consistent multi-images with positive extents, `g • x = act g x`;
* `Y := Option (MIQ R d)`  multi-images up to `MI.Equiv` (quotient); `none` where the code raises.
-/
namespace GinjaxVerif.C07

open GinjaxVerif GinjaxVerif.C20 GinjaxVerif.Layer

variable {R : Type} {d : Nat}

/-! ### instantiating a plan -/

/-- write the learnable values `θ` (by path) and the bank `bk M` (`M` the node's filter side) into every
node -/
def instantiate (θ : ParamFam R) (bk : Nat → MImg R d) : List Nat → Net R d → Net R d
  | _, .identity => .identity
  | p, .convContract c => .convContract { c with bank := bk c.M, weights := θ.convW p, bias := θ.convB p }
  | p, .layerNorm n => .layerNorm { n with scale := θ.normScale p, bias := θ.normBias p }
  | p, .vnNonlinear v => .vnNonlinear { v with W := θ.vnW p }
  | _, .maxNormPool P => .maxNormPool P
  | p, .seq a b => .seq (instantiate θ bk (p ++ [0]) a) (instantiate θ bk (p ++ [1]) b)
  | p, .residual body => .residual (instantiate θ bk (p ++ [0]) body)
  | p, .skipConcat a b c =>
    .skipConcat (instantiate θ bk (p ++ [0]) a) (instantiate θ bk (p ++ [1]) b)
      (instantiate θ bk (p ++ [2]) c)

/-- `WellFormed` without the clause on the bank (which is not part of the plan) -/
def WellFormedPlan (torus : Fin d → Bool) : Net R d → (Fin d → Nat) → Prop
  | .identity, _ => True
  | .convContract c, N =>
    c.pad.Symmetric ∧ c.pad.AxisIndep d ∧ c.stride = 1 ∧ 0 < c.ld ∧ (∀ j, 0 < N j) ∧
      KeysNodup c.target ∧ ∀ ax, c.dispatch torus N = some ax → ∀ j, (ax j).Fits
  | .layerNorm n, _ => ∀ b ∈ n.declared, b.1.1 ≤ 1
  | .vnNonlinear _, _ => True
  | .maxNormPool P, N => ∀ j, P ∣ N j
  | .seq a b, N => WellFormedPlan torus a N ∧ ∀ N', outDims torus a N = some N' → WellFormedPlan torus b N'
  | .residual body, N => WellFormedPlan torus body N
  | .skipConcat dn body up, N =>
    WellFormedPlan torus dn N ∧ ∀ N1, outDims torus dn N = some N1 →
      WellFormedPlan torus body N1 ∧ ∀ N2, outDims torus body N1 = some N2 → WellFormedPlan torus up N2

theorem outDims_instantiate (θ : ParamFam R) (bk : Nat → MImg R d) (torus : Fin d → Bool) :
    ∀ (net : Net R d) (p : List Nat) (N : Fin d → Nat),
      outDims torus (instantiate θ bk p net) N = outDims torus net N := by
  intro net
  induction net with
  | identity => intro _ _; rfl
  | convContract c => intro _ _; rfl
  | layerNorm n => intro _ _; rfl
  | vnNonlinear v => intro _ _; rfl
  | maxNormPool P => intro _ _; rfl
  | seq a b iha ihb =>
    intro p N
    simp only [instantiate, outDims, iha]
    cases outDims torus a N with
    | none => rfl
    | some N' => simp only [Option.bind_some, ihb]
  | residual body ih => intro p N; simp only [instantiate, outDims, ih]
  | skipConcat a b c iha ihb ihc =>
    intro p N
    simp only [instantiate, outDims, iha]
    cases outDims torus a N with
    | none => rfl
    | some N1 =>
      simp only [Option.bind_some, ihb]
      cases outDims torus b N1 with
      | none => rfl
      | some N2 => simp only [Option.bind_some, ihc]

theorem wellFormedPlan_of_wellFormed [CommRing R] (g : SP d) (torus : Fin d → Bool) :
    ∀ (net : Net R d) (N : Fin d → Nat), WellFormed g torus net N → WellFormedPlan torus net N := by
  intro net
  induction net with
  | identity => intro _ _; trivial
  | convContract c =>
    intro N h
    obtain ⟨w1, w2, w3, w4, w5, w6, _, w8⟩ := h
    exact ⟨w1, w2, w3, w4, w5, w6, w8⟩
  | layerNorm n => intro _ h; exact h
  | vnNonlinear v => intro _ _; trivial
  | maxNormPool P => intro _ h; exact h
  | seq a b iha ihb => intro N h; exact ⟨iha N h.1, fun N' hN' => ihb N' (h.2 N' hN')⟩
  | residual body ih => intro N h; exact ih N h
  | skipConcat a b c iha ihb ihc =>
    intro N h
    exact ⟨iha N h.1, fun N1 h1 => ⟨ihb N1 (h.2 N1 h1).1,
      fun N2 h2 => ihc N2 ((h.2 N1 h1).2 N2 h2)⟩⟩

/-- a plan that is well formed (bank aside), instantiated with any parameters and banks invariant
under `g`, is well formed -/
theorem wellFormed_instantiate [CommRing R] (g : SP d) (torus : Fin d → Bool) (θ : ParamFam R)
    (bk : Nat → MImg R d) (hbk : ∀ M, BankInv g (fun _ => M) (bk M)) :
    ∀ (net : Net R d) (p : List Nat) (N : Fin d → Nat),
      WellFormedPlan torus net N → WellFormed g torus (instantiate θ bk p net) N := by
  intro net
  induction net with
  | identity => intro _ _ _; trivial
  | convContract c =>
    intro p N h
    obtain ⟨w1, w2, w3, w4, w5, w6, w8⟩ := h
    exact ⟨w1, w2, w3, w4, w5, w6, hbk c.M, w8⟩
  | layerNorm n => intro _ _ h; exact h
  | vnNonlinear v => intro _ _ _; trivial
  | maxNormPool P => intro _ _ h; exact h
  | seq a b iha ihb =>
    intro p N h
    refine ⟨iha _ N h.1, ?_⟩
    intro N' hN'
    rw [outDims_instantiate] at hN'
    exact ihb _ N' (h.2 N' hN')
  | residual body ih => intro p N h; exact ih _ N h
  | skipConcat a b c iha ihb ihc =>
    intro p N h
    refine ⟨iha _ N h.1, ?_⟩
    intro N1 h1
    rw [outDims_instantiate] at h1
    refine ⟨ihb _ N1 (h.2 N1 h1).1, ?_⟩
    intro N2 h2
    rw [outDims_instantiate] at h2
    exact ihc _ N2 ((h.2 N1 h1).2 N2 h2)

theorem noPool_instantiate (θ : ParamFam R) (bk : Nat → MImg R d) :
    ∀ (net : Net R d) (p : List Nat), NoPool net → NoPool (instantiate θ bk p net) := by
  intro net
  induction net with
  | identity => intro _ _; trivial
  | convContract c => intro _ _; trivial
  | layerNorm n => intro _ _; trivial
  | vnNonlinear v => intro _ _; trivial
  | maxNormPool P => intro _ h; exact h
  | seq a b iha ihb => intro p h; exact ⟨iha _ h.1, ihb _ h.2⟩
  | residual body ih => intro p h; exact ih _ h
  | skipConcat a b c iha ihb ihc => intro p h; exact ⟨iha _ h.1, ihb _ h.2.1, ihc _ h.2.2⟩

/-! ### the inverse element: `x` is related to `g·x` by `g⁻¹` -/

theorem brel_inv [CommRing R] (g : SP d) (t : Ty) (b : Block R d) :
    BRel g.inv t b (actBlock g t b) := by
  unfold BRel
  rw [toBlk_actBlock]
  refine ⟨rfl, ?_, rfl, ?_⟩
  · funext i
    simp [pfBlk, toBlk]
  · intro c _ y hy n _
    have hA := pf_mul (R := R) g.inv g ((det g.inv.mat) ^ t.2) ((det g.mat) ^ t.2) ((toBlk t b).img c)
    have hone := pf_one (R := R) ((toBlk t b).img c)
    have hy' : InBox (pf g.inv ((det g.inv.mat) ^ t.2) (pf g ((det g.mat) ^ t.2) ((toBlk t b).img c))).dims y := by
      simp only [pf, Blk.img, toBlk, SP.inv_σ, Equiv.apply_symm_apply]
      exact hy
    have h1 := hA.2.2 y hy' n
    have hc : (det g.inv.mat) ^ t.2 * (det g.mat) ^ t.2 = 1 := by
      rw [SP.det_inv]; exact g.det_pow_mul_self t.2
    rw [SP.inv_mul, hc] at h1
    have h2 := hone.2.2 y (by simpa [pf, Blk.img, toBlk] using hy) n
    show (toBlk t b).val c y n = _
    have h3 : (pfBlk g.inv ((det g.inv.mat) ^ t.2) (pfBlk g ((det g.mat) ^ t.2) (toBlk t b))).val c y n
        = (pf g.inv ((det g.inv.mat) ^ t.2) (pf g ((det g.mat) ^ t.2) ((toBlk t b).img c))).val y n := rfl
    rw [h3, h1, h2]
    rfl

theorem rel_inv [CommRing R] (g : SP d) (x : MI R d) : Rel g.inv x (act g x) := by
  refine ⟨?_, ?_, ?_⟩
  · funext i; simp [act]
  · funext i; simp [act]
  · show List.Forall₂ _ x.blocks (List.map _ x.blocks)
    rw [List.forall₂_map_right_iff, List.forall₂_same]
    intro e _
    exact ⟨rfl, brel_inv g e.1 e.2⟩

theorem act_consistent [CommRing R] (g : SP d) (x : MI R d) (hx : x.Consistent) :
    (act g x).Consistent := MRel.consistent (rel_act g x) hx

end GinjaxVerif.C07

namespace GinjaxVerif.C07

open GinjaxVerif GinjaxVerif.C20 GinjaxVerif.Layer

variable {R : Type} {d : Nat}

/-! ### filter-bank leaves up to equality on their box -/

/-- one leaf of a filter bank: the block of `invariant_filters` stored under `key` -/
structure FBlk (R : Type) (d : Nat) where
  key : Ty
  blk : Block R d

/-- same key, shape, and values on the box at tensor multi-indices of the key's order (for every
filter index) -/
def FBlk.Eqv (a b : FBlk R d) : Prop :=
  a.key = b.key ∧ a.blk.chans = b.blk.chans ∧ a.blk.dims = b.blk.dims ∧
    ∀ f y (T : List (Fin d)), InBox a.blk.dims y → T.length = a.key.1 →
      a.blk.val f y T = b.blk.val f y T

instance FBlk.setoid (R : Type) (d : Nat) : Setoid (FBlk R d) where
  r := FBlk.Eqv
  iseqv :=
    { refl := fun _ => ⟨rfl, rfl, rfl, fun _ _ _ _ _ => rfl⟩
      symm := by
        rintro a b ⟨h1, h2, h3, h4⟩
        exact ⟨h1.symm, h2.symm, h3.symm, fun f y T hy hT =>
          (h4 f y T (by rw [h3]; exact hy) (by rw [h1]; exact hT)).symm⟩
      trans := by
        rintro a b c ⟨h1, h2, h3, h4⟩ ⟨k1, k2, k3, k4⟩
        exact ⟨h1.trans k1, h2.trans k2, h3.trans k3, fun f y T hy hT =>
          (h4 f y T hy hT).trans (k4 f y T (by rw [← h3]; exact hy) (by rw [← h1]; exact hT))⟩ }

/-- **the type `B` of bank leaves** -/
abbrev FB (R : Type) (d : Nat) := Quotient (FBlk.setoid R d)

def FBlk.act [CommRing R] (g : SP d) (a : FBlk R d) : FBlk R d := ⟨a.key, actBlock g a.key a.blk⟩

def FBlk.smul [Mul R] (c : R) (a : FBlk R d) : FBlk R d :=
  ⟨a.key, { a.blk with val := fun f y T => c * a.blk.val f y T }⟩

theorem FBlk.act_congr [CommRing R] (g : SP d) (a b : FBlk R d) (h : a ≈ b) :
    FBlk.act g a ≈ FBlk.act g b := by
  obtain ⟨h1, h2, h3, h4⟩ := h
  refine ⟨h1, h2, ?_, ?_⟩
  · show (fun i => a.blk.dims (g.σ i)) = fun i => b.blk.dims (g.σ i)
    rw [h3]
  · intro f y T hy hT
    have hy' : InBox (fun i => a.blk.dims (g.σ i)) y := hy
    have hT' : T.length = a.key.1 := hT
    show (pf g _ ⟨a.blk.dims, a.key.1, a.blk.val f⟩).val y T = (pf g _ ⟨b.blk.dims, b.key.1, b.blk.val f⟩).val y T
    simp only [pf]
    rw [h4 f _ (T.map g.σ) (srcPix_inBox g a.blk.dims y hy') (by simpa using hT'), h1, h3]

theorem FBlk.smul_congr [Mul R] (c : R) (a b : FBlk R d) (h : a ≈ b) :
    FBlk.smul c a ≈ FBlk.smul c b := by
  obtain ⟨h1, h2, h3, h4⟩ := h
  refine ⟨h1, h2, h3, ?_⟩
  intro f y T hy hT
  show c * a.blk.val f y T = c * b.blk.val f y T
  rw [h4 f y T hy hT]

/-- multiplication of a leaf by a scalar (what an optimiser step may do to it) -/
instance [Mul R] : SMul R (FB R d) :=
  ⟨fun c => Quotient.map (FBlk.smul c) (FBlk.smul_congr c)⟩

/-- the group: the elements of `B_d` satisfying `S` -/
instance (S : SP d → Prop) [CommRing R] : SMul (Subtype S) (FB R d) :=
  ⟨fun g => Quotient.map (FBlk.act g.1) (FBlk.act_congr g.1)⟩

instance (S : SP d → Prop) [CommRing R] : SMulCommClass (Subtype S) R (FB R d) where
  smul_comm g c b := by
    induction b using Quotient.inductionOn with
    | _ a =>
      apply Quotient.sound
      refine ⟨rfl, rfl, rfl, ?_⟩
      intro f y T _ _
      show (pf g.1 _ ⟨a.blk.dims, a.key.1, fun y T => c * a.blk.val f y T⟩).val y T
        = c * (pf g.1 _ ⟨a.blk.dims, a.key.1, a.blk.val f⟩).val y T
      simp only [pf, FBlk.smul]
      ring

/-! ### inputs and outputs -/

/-- **the type `X`**: consistent multi-images with positive extents -/
def Input (R : Type) (d : Nat) := { x : MI R d // x.Consistent ∧ ∀ j, 0 < x.dims j }

instance (S : SP d → Prop) [CommRing R] : SMul (Subtype S) (Input R d) :=
  ⟨fun g x => ⟨act g.1 x.1, act_consistent g.1 x.1 x.2.1, fun j => x.2.2 (g.1.σ j)⟩⟩

theorem blkEquiv_forall2_refl (l : MImg R d) :
    List.Forall₂ (fun e' e => e'.1 = e.1 ∧ (toBlk e.1 e'.2).Equiv (toBlk e.1 e.2)) l l := by
  rw [List.forall₂_same]
  intro e _
  exact ⟨rfl, Blk.Equiv.refl _⟩

theorem MI.Equiv.refl (a : MI R d) : MI.Equiv a a := ⟨rfl, rfl, blkEquiv_forall2_refl a.blocks⟩

theorem MI.Equiv.symm {a b : MI R d} (h : MI.Equiv a b) : MI.Equiv b a := by
  obtain ⟨h1, h2, h3⟩ := h
  refine ⟨h1.symm, h2.symm, ?_⟩
  generalize a.blocks = la at h3 ⊢
  generalize b.blocks = lb at h3 ⊢
  induction h3 with
  | nil => exact List.Forall₂.nil
  | cons hab _ ih =>
    obtain ⟨hk, he⟩ := hab
    exact List.Forall₂.cons ⟨hk.symm, by rw [hk]; exact he.symm⟩ ih

theorem MI.Equiv.trans {a b c : MI R d} (h : MI.Equiv a b) (h' : MI.Equiv b c) : MI.Equiv a c := by
  obtain ⟨h1, h2, h3⟩ := h
  obtain ⟨k1, k2, k3⟩ := h'
  refine ⟨h1.trans k1, h2.trans k2, ?_⟩
  generalize a.blocks = la at h3
  generalize b.blocks = lb at h3 k3
  generalize c.blocks = lc at k3
  induction h3 generalizing lc with
  | nil => cases k3; exact List.Forall₂.nil
  | cons hab _ ih =>
    cases k3 with
    | cons hbc hrest =>
      obtain ⟨hk, he⟩ := hab
      obtain ⟨hk', he'⟩ := hbc
      refine List.Forall₂.cons ⟨hk.trans hk', ?_⟩ (ih _ hrest)
      rw [hk'] at he
      exact he.trans he'

instance MI.setoid (R : Type) (d : Nat) : Setoid (MI R d) where
  r := MI.Equiv
  iseqv := ⟨MI.Equiv.refl, MI.Equiv.symm, MI.Equiv.trans⟩

/-- multi-images up to blockwise extensional equality -/
abbrev MIQ (R : Type) (d : Nat) := Quotient (MI.setoid R d)

theorem pfBlk_congr [CommRing R] (g : SP d) (c : Int) {A B : Blk R d} (h : A.Equiv B) :
    (pfBlk g c A).Equiv (pfBlk g c B) := by
  obtain ⟨h1, h2, h3, h4⟩ := h
  refine ⟨h1, ?_, h3, ?_⟩
  · show (fun i => A.dims (g.σ i)) = fun i => B.dims (g.σ i)
    rw [h2]
  · intro ch hch y hy n hn
    have hy' : InBox (fun i => A.dims (g.σ i)) y := hy
    have hn' : n.length = A.k := hn
    rw [pfBlk_val, pfBlk_val, h4 ch hch _ (srcPix_inBox g A.dims y hy') (n.map g.σ)
      (by simpa using hn'), h2]

theorem act_equiv [CommRing R] (g : SP d) {a b : MI R d} (h : MI.Equiv a b) :
    MI.Equiv (act g a) (act g b) := by
  obtain ⟨h1, h2, h3⟩ := h
  refine ⟨by show (fun i => a.dims (g.σ i)) = fun i => b.dims (g.σ i); rw [h1],
    by show (fun i => a.torus (g.σ i)) = fun i => b.torus (g.σ i); rw [h2], ?_⟩
  show List.Forall₂ _ (List.map _ a.blocks) (List.map _ b.blocks)
  rw [List.forall₂_map_left_iff, List.forall₂_map_right_iff]
  refine List.Forall₂.imp ?_ h3
  rintro e' e ⟨hk, he⟩
  refine ⟨hk, ?_⟩
  show (toBlk e.1 (actBlock g e'.1 e'.2)).Equiv (toBlk e.1 (actBlock g e.1 e.2))
  rw [hk, toBlk_actBlock, toBlk_actBlock]
  exact pfBlk_congr g _ he

/-- **the type `Y`**: `none` where the code raises -/
instance (S : SP d → Prop) [CommRing R] : SMul (Subtype S) (Option (MIQ R d)) :=
  ⟨fun g y => y.map (Quotient.map (act g.1) (fun _ _ h => act_equiv g.1 h))⟩

/-! ### the forward map of C09's statement -/

open Classical in
/-- the bank of the instantiated plan: the leaves with filter side `M0`, by their representatives -/
noncomputable def bankOf (M0 : Nat) (bank : List (FB R d)) : MImg R d :=
  bank.filterMap (fun q =>
    if q.out.blk.dims = (fun _ => M0) then some (q.out.key, q.out.blk) else none)

/-- **the forward map**: the plan instantiated with the parameters and the bank, evaluated -/
noncomputable def netOf (plan : Net R d) (θ : ParamFam R) (bank : List (FB R d)) : Net R d :=
  instantiate θ (fun M => bankOf M bank) [] plan

noncomputable def evalQ [Field R] [LinearOrder R] (F : Fns R d) (plan : Net R d)
    (θ : ParamFam R) (bank : List (FB R d)) (x : Input R d) : Option (MIQ R d) :=
  (eval F (netOf plan θ bank) x.1).map (fun y => (⟦y⟧ : MIQ R d))

/-- invariance of the leaves (strict equality in the quotient) is `BankInv` of the bank -/
theorem bankInv_bankOf [CommRing R] (S : SP d → Prop) (M0 : Nat) (bank : List (FB R d))
    (hb : ∀ b ∈ bank, ∀ g : Subtype S, g • b = b) (g : SP d) (hg : S g) :
    BankInv g (fun _ => M0) (bankOf M0 bank) := by
  refine ⟨fun _ => rfl, ?_⟩
  intro key Fb hl f a T ha hT
  have hmem := lookup_mem _ _ _ hl
  unfold bankOf at hmem
  obtain ⟨q, hq, hqe⟩ := List.mem_filterMap.1 hmem
  split at hqe
  · rename_i hdims
    simp only [Option.some.injEq, Prod.mk.injEq] at hqe
    obtain ⟨hk, hblk⟩ := hqe
    have hinv := hb q hq ⟨g, hg⟩
    have hq' : q = ⟦q.out⟧ := (Quotient.out_eq q).symm
    have h1 : (⟨g, hg⟩ : Subtype S) • q = ⟦FBlk.act g q.out⟧ := by
      conv_lhs => rw [hq']
      rfl
    rw [h1] at hinv
    conv_rhs at hinv => rw [hq']
    have he : FBlk.act g q.out ≈ q.out := Quotient.exact hinv
    obtain ⟨_, _, _, h4⟩ := he
    have hFd : Fb.dims = fun _ => M0 := by rw [← hblk]; exact hdims
    have := h4 f a T (by
      show InBox (fun i => q.out.blk.dims (g.σ i)) a
      rw [hdims]; exact ha) (by show T.length = q.out.key.1; rw [hk]; exact hT)
    have e : (FBlk.act g q.out).blk.val f a T
        = (pf g ((det g.mat) ^ key.2) ⟨fun _ => M0, key.1, Fb.val f⟩).val a T := by
      show (pf g ((det g.mat) ^ q.out.key.2) ⟨q.out.blk.dims, q.out.key.1, q.out.blk.val f⟩).val a T = _
      rw [hk, hblk, hFd]
    rw [← e, this, hblk]
  · cases hqe

/-- what the plan must satisfy (it does not mention parameters or bank values) -/
def PlanOK (plan : Net R d) : Prop :=
  NoPool plan ∧
    ∀ (torus : Fin d → Bool) (N : Fin d → Nat), (∀ j, 0 < N j) → WellFormedPlan torus plan N

/-- the instantiated plan is well formed for every `g` of the group under which the leaves are
invariant -/
theorem wellFormed_netOf [CommRing R] (S : SP d → Prop) (plan : Net R d) (θ : ParamFam R)
    (bank : List (FB R d)) (hb : ∀ b ∈ bank, ∀ g : Subtype S, g • b = b) (g : SP d) (hg : S g)
    (torus : Fin d → Bool) (N : Fin d → Nat) (hw : WellFormedPlan torus plan N) :
    WellFormed g torus (netOf plan θ bank) N :=
  wellFormed_instantiate g torus θ _ (fun M => bankInv_bankOf S M bank hb g hg) plan [] N hw

/-- **the hypothesis `hC07` of `C09.trained_equivariant`, proved**: for every plan without pooling
that is well formed (bank aside) on all inputs with positive extents, for EVERY parameter family and
every bank whose leaves are invariant, the forward map is equivariant. -/
theorem hC07_discharged [Field R] [LinearOrder R] (S : SP d → Prop) (hSinv : ∀ g, S g → S g.inv)
    (F : Fns R d) (hS : ConjEquivariant F.S) :
    ∀ plan : Net R d, PlanOK plan → ∀ (θ : ParamFam R) (bank : List (FB R d)),
      (∀ b ∈ bank, ∀ g : Subtype S, g • b = b) →
      C09.Equivariant (Subtype S) (evalQ F plan θ bank) := by
  intro plan hp θ bank hb g x
  obtain ⟨hnp, hw⟩ := hp
  have hwf : ∀ g' : SP d, S g' → ∀ (torus : Fin d → Bool) (N : Fin d → Nat), (∀ j, 0 < N j) →
      WellFormed g' torus (netOf plan θ bank) N :=
    fun g' hg' torus N hN => wellFormed_netOf S plan θ bank hb g' hg' torus N (hw torus N hN)
  have hgen : ∀ z, PoolGeneric F (netOf plan θ bank) z :=
    poolGeneric_of_noPool F _ (noPool_instantiate θ _ plan [] hnp)
  show (eval F (netOf plan θ bank) (act g.1 x.1)).map (fun y => (⟦y⟧ : MIQ R d))
    = ((eval F (netOf plan θ bank) x.1).map (fun y => (⟦y⟧ : MIQ R d))).map
        (Quotient.map (act g.1) (fun _ _ h => act_equiv g.1 h))
  cases h : eval F (netOf plan θ bank) x.1 with
  | some y =>
    obtain ⟨y', e1, r⟩ := eval_rel g.1 F hS _ x.1 (act g.1 x.1) y x.2.1 (rel_act g.1 x.1)
      (hwf g.1 g.2 _ _ x.2.2) (hgen _) h
    rw [e1]
    simp only [Option.map_some]
    congr 1
    exact Quotient.sound ((rel_iff_equiv_act g.1 y' y).1 r)
  | none =>
    cases h' : eval F (netOf plan θ bank) (act g.1 x.1) with
    | none => rfl
    | some z =>
      exfalso
      obtain ⟨y, e1, _⟩ := eval_rel g.1.inv F hS _ (act g.1 x.1) x.1 z (act_consistent g.1 x.1 x.2.1)
        (rel_inv g.1 x.1) (hwf g.1.inv (hSinv _ g.2) _ _ (fun j => x.2.2 (g.1.σ j))) (hgen _) h'
      rw [h] at e1
      cases e1

end GinjaxVerif.C07
