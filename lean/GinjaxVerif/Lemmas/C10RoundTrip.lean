import GinjaxVerif.Lemmas.C10Climate

/-!
# C10 — `from1d ∘ to1d`: segment extraction from a latitude band
-/
namespace GinjaxVerif.C10

variable {R : Type}

/-- blocks agree on their channels (all positions, the first `nc` components) -/
def Blk2.Equiv (nc : Nat) (a b : Blk2 R) : Prop :=
  a.ch = b.ch ∧ ∀ c x y comp, c < a.ch → comp < nc → a.val c x y comp = b.val c x y comp

/-- number of components of a block of order `k ≤ 1` at `D = 2` -/
def ncomp (key : Key) : Nat := if key.1 = 0 then 1 else 2

/-- optional blocks agree -/
def OptEquiv (key : Key) : Option (Blk2 R) → Option (Blk2 R) → Prop
  | none, none => True
  | some a, some b => Blk2.Equiv (ncomp key) a b
  | _, _ => False

/-- reading merged channel `off*F + g` of latitude `y` back from the band of `E` -/
theorem seg_general (T F ny : Nat) (E : BlkE R) (hny : 0 < ny) (hF : F ∣ E.c * T)
    (off g x y : Nat) (hg : off * F + g < E.c * T) :
    (img1 F ny (bandE T ny E)).val (off + g / F) (g % F) x y = flatE T E (off * F + g) x y := by
  rw [flatE_img1, img1_c_mul F ny (E.c * T) _ hny (bandE_rows T ny E) hF, bandE_at _ _ _ _ _ _ hg]

theorem seg_general0 (T F ny : Nat) (E : BlkE R) (hny : 0 < ny) (hF : F ∣ E.c * T)
    (g x y : Nat) (hg : g < E.c * T) :
    (img1 F ny (bandE T ny E)).val (g / F) (g % F) x y = flatE T E g x y := by
  have := seg_general T F ny E hny hF 0 g x y (by simpa using hg)
  simpa using this

section
variable (T F ny : Nat) (hT : 0 < T) (hny : 0 < ny)
include hT hny

omit hT in
theorem seg_single (b : Blk2 R) (comp : Nat) (hdT : T ∣ b.ch) (hdF : F ∣ b.ch)
    (g x y : Nat) (hg : g < b.ch) :
    (img1 F ny (bandE T ny (expandComp T b comp))).val (g / F) (g % F) x y = b.val g x y comp := by
  have hc := expandComp_c_mul T b comp hdT
  rw [seg_general0 T F ny _ hny (by rw [hc]; exact hdF) g x y (by rw [hc]; exact hg), flatE_expandComp]

theorem seg_pair_left (a b : Blk2 R) (ca cb : Nat) (haT : T ∣ a.ch) (hbT : T ∣ b.ch)
    (haF : F ∣ a.ch) (hbF : F ∣ b.ch) (g x y : Nat) (hg : g < a.ch) :
    (img1 F ny (bandE T ny (catE (expandComp T a ca) (expandComp T b cb)))).val (g / F) (g % F) x y
      = a.val g x y ca := by
  have hca := expandComp_c_mul T a ca haT
  have hcb := expandComp_c_mul T b cb hbT
  have hc : (catE (expandComp T a ca) (expandComp T b cb)).c * T = a.ch + b.ch := by
    rw [catE_c, Nat.add_mul, hca, hcb]
  rw [seg_general0 T F ny _ hny (by rw [hc]; exact Nat.dvd_add haF hbF) g x y (by rw [hc]; omega),
    flatE_catE T hT, hca, if_pos hg, flatE_expandComp]

theorem seg_pair_right (a b : Blk2 R) (ca cb : Nat) (haT : T ∣ a.ch) (hbT : T ∣ b.ch)
    (haF : F ∣ a.ch) (hbF : F ∣ b.ch) (g x y : Nat) (hg : g < b.ch) :
    (img1 F ny (bandE T ny (catE (expandComp T a ca) (expandComp T b cb)))).val
        (a.ch / F + g / F) (g % F) x y = b.val g x y cb := by
  have hca := expandComp_c_mul T a ca haT
  have hcb := expandComp_c_mul T b cb hbT
  have hc : (catE (expandComp T a ca) (expandComp T b cb)).c * T = a.ch + b.ch := by
    rw [catE_c, Nat.add_mul, hca, hcb]
  have hoff : a.ch / F * F = a.ch := Nat.div_mul_cancel haF
  rw [seg_general T F ny _ hny (by rw [hc]; exact Nat.dvd_add haF hbF) (a.ch / F) g x y
      (by rw [hc, hoff]; omega),
    flatE_catE T hT, hca, hoff, if_neg (by omega), flatE_expandComp]
  congr 1
  omega

end

/-! ### `from1d`, read at one key -/

theorem dLookup_three {B : Type} (c1 c2 c3 : Bool) (b1 b2 b3 : B) (key : Key) :
    dLookup (optEntry c1 (0, 0) b1 ++ optEntry c2 (0, 1) b2 ++ optEntry c3 (1, 0) b3) key =
      if key = (0, 0) then (if c1 then some b1 else none)
      else if key = (0, 1) then (if c2 then some b2 else none)
      else if key = (1, 0) then (if c3 then some b3 else none)
      else none := by
  by_cases h0 : key = (0, 0)
  · subst h0; cases c1 <;> cases c2 <;> cases c3 <;> simp [optEntry]
  · by_cases h1 : key = (0, 1)
    · subst h1; cases c1 <;> cases c2 <;> cases c3 <;> simp [optEntry]
    · by_cases h2 : key = (1, 0)
      · subst h2; cases c1 <;> cases c2 <;> cases c3 <;> simp [optEntry]
      · have h0' : ¬ (0, 0) = key := fun e => h0 e.symm
        have h1' : ¬ (0, 1) = key := fun e => h1 e.symm
        have h2' : ¬ (1, 0) = key := fun e => h2 e.symm
        cases c1 <;> cases c2 <;> cases c3 <;> simp [optEntry, h0, h1, h2, h0', h1', h2']

theorem keysOf_three {B : Type} (c1 c2 c3 : Bool) (b1 b2 b3 : B) :
    keysOf (optEntry c1 (0, 0) b1 ++ optEntry c2 (0, 1) b2 ++ optEntry c3 (1, 0) b3) =
      (if c1 then [((0, 0) : Key)] else []) ++ (if c2 then [(0, 1)] else []) ++
        (if c3 then [(1, 0)] else []) := by
  cases c1 <;> cases c2 <;> cases c3 <;> rfl


/-! ### the two kinds of blocks `from1d` cuts out of a band -/

theorem from1dImg_of_some [Inhabited R] (F ny : Nat) (z : MI1 R) (key : Key) (b : Blk1 R)
    (h : dLookup z key = some b) : from1dImg F ny z key = img1 F ny b := by
  simp [from1dImg, h]

/-- the leading (true scalar / pseudo-scalar) part of a band comes back as the block it was -/
theorem scalar_back (T F ny : Nat) (hT : 0 < T) (hny : 0 < ny) (s : Blk2 R) (V : Option (Blk2 R))
    (cv : Nat) (zb : Blk1 R)
    (hz : some zb = (catAll catE none
      ([expandComp T s 0] ++ V.toList.map fun b => expandComp T b cv)).map (bandE T ny))
    (hsT : T ∣ s.ch) (hsF : F ∣ s.ch) (hvT : ∀ v, V = some v → T ∣ v.ch) (hvF : ∀ v, V = some v → F ∣ v.ch) :
    Blk2.Equiv 1 (from1dScalar F (img1 F ny zb) (s.ch / F)) s := by
  refine ⟨Nat.div_mul_cancel hsF, ?_⟩
  intro c x y comp hc hcomp
  have hc' : c < s.ch := by
    have : (from1dScalar F (img1 F ny zb) (s.ch / F)).ch = s.ch := Nat.div_mul_cancel hsF
    rw [this] at hc; exact hc
  have hcomp0 : comp = 0 := by omega
  subst hcomp0
  cases V with
  | none =>
    simp only [Option.toList_none, List.map_nil, List.append_nil, catAll, Option.map_some,
      Option.some.injEq] at hz
    subst hz
    exact seg_single T F ny hny s 0 hsT hsF c x y hc'
  | some v =>
    simp only [Option.toList_some, List.map_cons, List.map_nil, List.cons_append, List.nil_append,
      catAll, Option.map_some, Option.some.injEq] at hz
    subst hz
    exact seg_pair_left T F ny hT hny s v 0 cv hsT (hvT v rfl) hsF (hvF v rfl) c x y hc'

/-- channel count (in units of `F`) of an optional block: `c_scalar`, `c_pseudoscalar` of `from1d` -/
def offCount (F : Nat) : Option (Blk2 R) → Nat
  | some s => s.ch / F
  | none => 0

/-- the trailing (vector component) part of a band comes back as that component -/
theorem vector_back (T F ny : Nat) (hT : 0 < T) (hny : 0 < ny) (S : Option (Blk2 R)) (v : Blk2 R)
    (cv : Nat) (zb : Blk1 R)
    (hz : some zb = (catAll catE none
      ((S.toList.map fun b => expandComp T b 0) ++ [expandComp T v cv])).map (bandE T ny))
    (hvT : T ∣ v.ch) (hvF : F ∣ v.ch) (hsT : ∀ s, S = some s → T ∣ s.ch) (hsF : ∀ s, S = some s → F ∣ s.ch)
    (g x y : Nat) (hg : g < v.ch) :
    (img1 F ny zb).val (offCount F S + g / F) (g % F) x y
      = v.val g x y cv := by
  cases S with
  | none =>
    simp only [Option.toList_none, List.map_nil, List.nil_append, catAll, Option.map_some,
      Option.some.injEq] at hz
    subst hz
    simp only [offCount, Nat.zero_add]
    exact seg_single T F ny hny v cv hvT hvF g x y hg
  | some s =>
    simp only [Option.toList_some, List.map_cons, List.map_nil, List.cons_append, List.nil_append,
      catAll, Option.map_some, Option.some.injEq] at hz
    subst hz
    exact seg_pair_right T F ny hT hny s v 0 cv (hsT s rfl) hvT (hsF s rfl) hvF g x y hg

/-! ### helpers of the round-trip theorem -/

theorem keysOf_sig2 (x : MI2 R) : keysOf (sig2 x) = keysOf x := by
  simp [sig2, keysOf, Function.comp_def]

theorem dLookup_sig2 (x : MI2 R) (key : Key) : dLookup (sig2 x) key = (dLookup x key).map (·.ch) :=
  dLookup_map_val (fun _ (b : Blk2 R) => b.ch) x key

theorem chanCount_sig2 (x : MI2 R) (F : Nat) (key : Key) :
    chanCount (sig2 x) F key = offCount F (dLookup x key) := by
  unfold chanCount
  rw [dLookup_sig2]
  cases dLookup x key <;> rfl

theorem dLookup_to1d_noconst (cfg : ClimCfg) (x : MI2 R) (hconst : cfg.constFields = [])
    (hnd : (keysOf x).Nodup) (hal : Allowed x) (key : Key) :
    dLookup (climateTo1d cfg x) key =
      (catAll catE none
        ((if key.1 = 0 then (dLookup x key).toList.map fun b => expandComp cfg.past b 0 else []) ++
         (if key = (0, 0) then (dLookup x (1, 0)).toList.map fun b => expandComp cfg.past b 1
          else if key = (0, 1) then (dLookup x (1, 0)).toList.map fun b => expandComp cfg.past b 0
          else []))).map (bandE cfg.past cfg.ny) := by
  rw [dLookup_climateTo1d cfg x hnd, hconst, splitDyn_nil, splitConst_nil,
    gather_callsRepaired _ x hnd hal]
  simp [catAll_nil]

theorem k01_ne_k00 : ¬ ((0, 1) : Key) = (0, 0) := by decide

theorem catAll_some_exists {B : Type} (cat : B → B → B) (a : B) (l : List B) :
    ∃ b, catAll cat (some a) l = some b := by
  induction l generalizing a with
  | nil => exact ⟨a, rfl⟩
  | cons c l ih => exact ih (cat a c)

theorem catAll_none_cons_exists {B : Type} (cat : B → B → B) (a : B) (l : List B) :
    ∃ b, catAll cat none (a :: l) = some b := catAll_some_exists cat a l

end GinjaxVerif.C10
