import GinjaxVerif.Lemmas.C13
import Mathlib.Data.List.Induction

/-!
# C13 — a loop of `append`s over repeated, interleaved keys; `to_images ∘ from_images`

`appendAll_interleaved` is the by-key description of `for … : out.append(k, parity, blk)` starting
from an empty multi image, for an **arbitrary** sequence of keys (repetitions, interleaving): the
resulting dict has the keys in order of first occurrence (`firstOcc`), and under every key the
left-to-right concatenation (`concatAll`) of the blocks appended under that key, in their original
relative order.

`toImages_fromImages_grouped` applies it to `MultiImage.from_images` followed by `to_images`: the
images come back grouped by type, types in order of first occurrence, stable inside a type.
-/
namespace GinjaxVerif.C13
open GinjaxVerif.ND GinjaxVerif.ND.NDArr

/-! ## keys in order of first occurrence -/

/-- the distinct keys of a list, in order of first occurrence -/
def firstOcc : List Key → List Key
  | [] => []
  | k :: ks => k :: (firstOcc ks).filter (· ≠ k)

theorem mem_firstOcc {a : Key} : ∀ {ks : List Key}, a ∈ firstOcc ks ↔ a ∈ ks
  | [] => by simp [firstOcc]
  | k :: ks => by
    simp only [firstOcc, List.mem_cons, List.mem_filter, mem_firstOcc (ks := ks),
      decide_eq_true_eq]
    by_cases h : a = k <;> simp [h]

theorem nodup_firstOcc : ∀ ks : List Key, (firstOcc ks).Nodup
  | [] => by simp [firstOcc]
  | k :: ks => by
    simp only [firstOcc, List.nodup_cons, List.mem_filter, decide_eq_true_eq]
    exact ⟨fun h => h.2 rfl, (nodup_firstOcc ks).filter _⟩

/-- one more key at the end: nothing changes if it occurred before, else it goes to the end -/
theorem firstOcc_snoc (k : Key) : ∀ ks : List Key,
    firstOcc (ks ++ [k]) = if k ∈ ks then firstOcc ks else firstOcc ks ++ [k]
  | [] => by simp [firstOcc]
  | a :: ks => by
    simp only [List.cons_append, firstOcc, firstOcc_snoc k ks, List.mem_cons]
    by_cases hk : k ∈ ks
    · simp [hk]
    · by_cases ha : k = a
      · subst ha
        simp [hk, List.filter_append]
      · simp [hk, ha, List.filter_append]

/-! ## dicts given as a function of their key list -/

section Dict
variable {β : Type}

theorem keysOf_mapKeys (g : Key → β) (L : List Key) : keysOf (L.map fun k => (k, g k)) = L := by
  simp [keysOf, List.map_map, Function.comp_def]

theorem dictGet_mapKeys (g : Key → β) (key : Key) : ∀ L : List Key,
    dictGet key (L.map fun k => (k, g k)) = if key ∈ L then some (g key) else none
  | [] => by simp [dictGet]
  | a :: L => by
    simp only [List.map_cons, dictGet, dictGet_mapKeys g key L, List.mem_cons]
    by_cases h : a = key
    · subst h; simp
    · have h' : ¬ key = a := fun hh => h hh.symm
      simp [h, h']

theorem dictSet_mapKeys (g : Key → β) (key : Key) (v : β) : ∀ L : List Key, L.Nodup → key ∈ L →
    dictSet key v (L.map fun k => (k, g k)) = L.map fun k => (k, if k = key then v else g k)
  | [], _, h => by simp at h
  | a :: L, hn, hmem => by
    simp only [List.nodup_cons] at hn
    simp only [List.map_cons, dictSet]
    by_cases h : a = key
    · subst h
      simp only [if_true]
      congr 1
      apply List.map_congr_left
      intro k hk
      have : k ≠ a := fun hh => hn.1 (hh ▸ hk)
      simp [this]
    · have hmem' : key ∈ L := by
        rcases List.mem_cons.1 hmem with hh | hh
        · exact absurd hh.symm h
        · exact hh
      simp only [h, if_false]
      rw [dictSet_mapKeys g key v L hn.2 hmem']

end Dict

/-! ## the loop of `append`s over arbitrary keys -/

section Loop
variable {α : Type} [Inhabited α]

/-- left-to-right concatenation of a non-empty list of blocks (what a run of `append`s under one
key builds) -/
def concatAll (ax : Nat) : List (NDArr α) → NDArr α
  | [] => default
  | x :: xs => xs.foldl (concat ax) x

theorem concatAll_singleton (ax : Nat) (x : NDArr α) : concatAll ax [x] = x := rfl

theorem concatAll_snoc (ax : Nat) (xs : List (NDArr α)) (y : NDArr α) (h : xs ≠ []) :
    concatAll ax (xs ++ [y]) = concat ax (concatAll ax xs) y := by
  cases xs with
  | nil => exact absurd rfl h
  | cons x xs => simp [concatAll, List.foldl_append]

/-- the blocks appended under `key`, in their original order -/
def blocksOf (key : Key) (items : List (Key × NDArr α)) : List (NDArr α) :=
  (items.filter fun e => e.1 = key).map (·.2)

omit [Inhabited α] in
theorem blocksOf_snoc (key : Key) (items : List (Key × NDArr α)) (e : Key × NDArr α) :
    blocksOf key (items ++ [e]) = blocksOf key items ++ (if e.1 = key then [e.2] else []) := by
  unfold blocksOf
  rw [List.filter_append, List.map_append]
  by_cases h : e.1 = key <;> simp [h]

omit [Inhabited α] in
theorem blocksOf_eq_nil {key : Key} {items : List (Key × NDArr α)} (h : key ∉ keysOf items) :
    blocksOf key items = [] := by
  unfold blocksOf
  rw [List.map_eq_nil_iff, List.filter_eq_nil_iff]
  intro e he
  simp only [decide_eq_true_eq]
  intro hk
  exact h (hk ▸ List.mem_map_of_mem he)

omit [Inhabited α] in
theorem blocksOf_ne_nil {key : Key} {items : List (Key × NDArr α)} (h : key ∈ keysOf items) :
    blocksOf key items ≠ [] := by
  obtain ⟨e, he, hk⟩ := List.mem_map.1 h
  intro hnil
  have : e.2 ∈ blocksOf key items :=
    List.mem_map_of_mem (List.mem_filter.2 ⟨he, by simpa using hk⟩)
  rw [hnil] at this
  simp at this

/-- **a loop of `append`s over repeated, interleaved keys**, started on an empty multi image: the
keys appear in order of first occurrence; under each key sits the concatenation, left to right, of
the blocks appended under it -/
theorem appendAll_interleaved (m : MI α) (hm : m.data = []) (items : List (Key × NDArr α))
    (ax : Nat) (hp : ∀ e ∈ items, e.1.2 < 2) :
    (appendAll m items ax).data
      = (firstOcc (keysOf items)).map fun key => (key, concatAll ax (blocksOf key items)) := by
  induction items using List.reverseRecOn with
  | nil => simp [appendAll_nil, hm, firstOcc]
  | append_singleton items e ih =>
    obtain ⟨⟨k, p⟩, blk⟩ := e
    have hpp : p < 2 := hp ((k, p), blk) (by simp)
    have ih := ih (fun e he => hp e (by simp [he]))
    rw [appendAll_append, appendAll_cons, appendAll_nil]
    simp only [keysOf_append, keysOf_cons, keysOf_nil]
    rw [firstOcc_snoc]
    generalize appendAll m items ax = out at ih ⊢
    by_cases hmem : (k, p) ∈ keysOf items
    · rw [if_pos hmem]
      have hL : (k, p) ∈ firstOcc (keysOf items) := mem_firstOcc.2 hmem
      have hget : dictGet (k, p) out.data = some (concatAll ax (blocksOf (k, p) items)) := by
        rw [ih, dictGet_mapKeys, if_pos hL]
      rw [append_present out blk _ ax hpp hget, ih,
        dictSet_mapKeys _ _ _ _ (nodup_firstOcc _) hL]
      apply List.map_congr_left
      intro key _
      rw [blocksOf_snoc]
      by_cases hk : key = (k, p)
      · subst hk
        simp only [if_true]
        rw [concatAll_snoc _ _ _ (blocksOf_ne_nil hmem)]
      · have hk' : ¬ (k, p) = key := fun hh => hk hh.symm
        simp only [hk, hk', if_false, List.append_nil]
    · rw [if_neg hmem]
      have hfresh : (k, p) ∉ keysOf out.data := by
        rw [ih, keysOf_mapKeys, mem_firstOcc]; exact hmem
      rw [append_fresh out blk ax hpp hfresh, ih, List.map_append]
      congr 1
      · apply List.map_congr_left
        intro key hkey
        have hk' : ¬ (k, p) = key := by
          intro hh
          apply hmem
          rw [hh]
          exact mem_firstOcc.1 hkey
        rw [blocksOf_snoc]
        simp only [hk', if_false, List.append_nil]
      · rw [List.map_singleton, blocksOf_snoc, blocksOf_eq_nil hmem]
        simp [concatAll_singleton]

/-- the keys of such a loop's result -/
theorem keysOf_appendAll_interleaved (m : MI α) (hm : m.data = []) (items : List (Key × NDArr α))
    (ax : Nat) (hp : ∀ e ∈ items, e.1.2 < 2) :
    keysOf (appendAll m items ax).data = firstOcc (keysOf items) := by
  rw [appendAll_interleaved m hm items ax hp, keysOf_mapKeys]

/-- by key: what such a loop leaves under `key` -/
theorem dictGet_appendAll_interleaved (m : MI α) (hm : m.data = []) (items : List (Key × NDArr α))
    (ax : Nat) (hp : ∀ e ∈ items, e.1.2 < 2) (key : Key) :
    dictGet key (appendAll m items ax).data
      = if key ∈ keysOf items then some (concatAll ax (blocksOf key items)) else none := by
  rw [appendAll_interleaved m hm items ax hp, dictGet_mapKeys]
  simp only [mem_firstOcc]

/-! ## images: blocks with a new leading axis of extent 1 concatenate to the stack -/

theorem foldl_concat_stack' (s : List Nat) (acc xs : List (NDArr α))
    (h : ∀ x ∈ xs, x.shape = s ∧ x.WF) :
    (xs.map fun x => x.reshape (1 :: x.shape)).foldl (concat 0) (stack s acc)
      = stack s (acc ++ xs) := by
  induction xs generalizing acc with
  | nil => simp
  | cons x xs ih =>
    obtain ⟨hxs, hxw⟩ := h x List.mem_cons_self
    rw [List.map_cons, List.foldl_cons, reshape_one_eq_stack hxw, hxs, concat_stack,
      ih _ (fun y hy => h y (List.mem_cons_of_mem _ hy))]
    simp

theorem concatAll_addLeading (s : List Nat) (xs : List (NDArr α)) (hne : xs ≠ [])
    (h : ∀ x ∈ xs, x.shape = s ∧ x.WF) :
    concatAll 0 (xs.map fun x => x.addLeading 1) = stack s xs := by
  cases xs with
  | nil => exact absurd rfl hne
  | cons x xs =>
    obtain ⟨hxs, hxw⟩ := h x List.mem_cons_self
    have hadd : ∀ y : NDArr α, y.addLeading 1 = y.reshape (1 :: y.shape) := fun y => rfl
    simp only [List.map_cons, concatAll, hadd]
    rw [reshape_one_eq_stack hxw, hxs,
      foldl_concat_stack' s [x] xs (fun y hy => h y (List.mem_cons_of_mem _ hy))]
    rfl

/-- the type of an image as `from_images` sees it -/
def imgKey (g : GImg α) : Key := (g.k, g.parity)

/-- **`to_images(from_images(images))` is the list grouped by type**: types in order of first
occurrence, the images of one type in their original relative order — for every list of images
(types may repeat and interleave) of common `D`, flags and spatial shape -/
theorem toImages_fromImages_grouped (imgs : List (GImg α)) (D : Nat) (T : List Bool)
    (S : List Nat) (hS : S.length = D) (hne : imgs ≠ [])
    (h : ∀ g ∈ imgs, g.D = D ∧ g.isTorus = T ∧ g.parity < 2 ∧ g.data.WF ∧ 0 < g.data.shape.prod
      ∧ ∃ k, g.data.shape = S ++ List.replicate k D) :
    (MI.fromImages imgs).toImages
      = (firstOcc (imgs.map imgKey)).flatMap fun key => imgs.filter fun g => imgKey g = key := by
  -- the shape of every image in terms of its own type
  have hshape : ∀ g ∈ imgs, g.data.shape = S ++ List.replicate (imgKey g).1 D := by
    intro g hg
    obtain ⟨hD, _, _, _, _, k, hk⟩ := h g hg
    have : g.k = k := by
      unfold GImg.k
      rw [hk, hD]
      simp [hS]
    simp only [imgKey, this, hk]
  -- the items handed to `append`
  let items : List (Key × NDArr α) := imgs.map fun g => (imgKey g, g.data.addLeading 1)
  have hkeys : keysOf items = imgs.map imgKey := by
    simp [items, keysOf, List.map_map, Function.comp_def]
  have hblocks : ∀ key, blocksOf key items
      = ((imgs.filter fun g => imgKey g = key).map (·.data)).map fun x => x.addLeading 1 := by
    intro key
    simp only [blocksOf, items, List.filter_map, List.map_map, Function.comp_def]
  have hpar : ∀ e ∈ items, e.1.2 < 2 := by
    intro e he
    obtain ⟨g, hg, rfl⟩ := List.mem_map.1 he
    exact (h g hg).2.2.1
  -- head of the list: `D` and the flags
  obtain ⟨g0, rest, himgs⟩ := List.exists_cons_of_ne_nil hne
  have hg0 := h g0 (by rw [himgs]; exact List.mem_cons_self)
  have hd0 : (imgs.head?.map (·.D)).getD 0 = D := by rw [himgs]; simpa using hg0.1
  have ht0 : (imgs.head?.map (·.isTorus)).getD [] = T := by rw [himgs]; simpa using hg0.2.1
  -- the dict built by `from_images`
  let imgsOf : Key → List (GImg α) := fun key => imgs.filter fun g => imgKey g = key
  let blockOf : Key → NDArr α := fun key =>
    stack (S ++ List.replicate key.1 D) ((imgsOf key).map (·.data))
  have hmemOf : ∀ key, ∀ g ∈ imgsOf key, g ∈ imgs ∧ imgKey g = key := by
    intro key g hg
    have := List.mem_filter.1 hg
    exact ⟨this.1, by simpa using this.2⟩
  have hdata : (appendAll (MI.new [] D T) items 0).data
      = (firstOcc (imgs.map imgKey)).map fun key => (key, blockOf key) := by
    rw [appendAll_interleaved _ rfl items 0 hpar, hkeys]
    apply List.map_congr_left
    intro key hkey
    have hkey' : key ∈ imgs.map imgKey := mem_firstOcc.1 hkey
    rw [hblocks key]
    congr 1
    apply concatAll_addLeading
    · obtain ⟨g, hg, hk⟩ := List.mem_map.1 hkey'
      intro hnil
      have : g.data ∈ (imgs.filter fun g => imgKey g = key).map (·.data) :=
        List.mem_map_of_mem (List.mem_filter.2 ⟨hg, by simpa using hk⟩)
      rw [hnil] at this
      simp at this
    · intro x hx
      obtain ⟨g, hg, rfl⟩ := List.mem_map.1 hx
      obtain ⟨hgi, hgk⟩ := hmemOf key g hg
      exact ⟨by rw [hshape g hgi, hgk], (h g hgi).2.2.2.1⟩
  have hm : MI.fromImages imgs
      = ⟨D, T, (firstOcc (imgs.map imgKey)).map fun key => (key, blockOf key)⟩ := by
    unfold MI.fromImages
    simp only [hd0, ht0]
    exact MI.eq_mk _ (by rw [appendAll_D]; rfl) (by rw [appendAll_isTorus]; rfl) hdata
  -- the spatial extents `to_images` reads off the first block
  have hsp : (⟨D, T, (firstOcc (imgs.map imgKey)).map fun key => (key, blockOf key)⟩ : MI α).spatialDims
      = S := by
    unfold MI.spatialDims
    rw [himgs]
    simp only [List.map_cons, firstOcc, blockOf, shape_stack]
    have : (((imgsOf (imgKey g0)).map (·.data)).length
        :: (S ++ List.replicate (imgKey g0).1 D)).length - ((imgKey g0).1 + D) = 1 := by
      simp [hS]; omega
    rw [this, List.drop_one, List.tail_cons, ← hS, List.take_left]
  rw [hm]
  unfold MI.toImages
  rw [hsp, List.flatMap_map]
  apply List.flatMap_congr
  intro key hkey
  have hkey' : key ∈ imgs.map imgKey := mem_firstOcc.1 hkey
  simp only [blockOf]
  have hxs : ∀ x ∈ (imgsOf key).map (·.data),
      x.shape = S ++ List.replicate key.1 D ∧ x.WF := by
    intro x hx
    obtain ⟨g, hg, rfl⟩ := List.mem_map.1 hx
    obtain ⟨hgi, hgk⟩ := hmemOf key g hg
    exact ⟨by rw [hshape g hgi, hgk], (h g hgi).2.2.2.1⟩
  -- the block is reshaped onto itself
  have hpos : 0 < ([] : List Nat).prod * (S ++ List.replicate key.1 D).prod := by
    obtain ⟨g, hg, hk⟩ := List.mem_map.1 hkey'
    have := (h g hg).2.2.2.2.1
    rw [hshape g hg, hk] at this
    simpa using this
  have hresh : (stack (S ++ List.replicate key.1 D) ((imgsOf key).map (·.data))).reshapeInfer []
      (S ++ List.replicate key.1 D)
      = stack (S ++ List.replicate key.1 D) ((imgsOf key).map (·.data)) := by
    unfold reshapeInfer
    have h2 : (stack (S ++ List.replicate key.1 D) ((imgsOf key).map (·.data))).shape
        = [] ++ ((imgsOf key).map (·.data)).length :: (S ++ List.replicate key.1 D) := by
      rw [shape_stack]; rfl
    rw [h2, inferDim_self _ _ _ hpos, ← h2, reshape_self]
  rw [hresh, rows_stack hxs, List.map_map]
  conv_rhs => rw [← List.map_id (List.filter _ imgs)]
  apply List.map_congr_left
  intro g hg
  obtain ⟨hgi, hgk⟩ := hmemOf key g hg
  obtain ⟨hD, hT, hp2, _⟩ := h g hgi
  cases g with
  | mk data parity D' T' =>
    simp only [imgKey] at hgk
    simp only at hD hT hp2
    subst hD hT
    simp only [Function.comp_apply, GImg.new, id_eq, ← hgk]
    rw [Nat.mod_eq_of_lt hp2]

end Loop

end GinjaxVerif.C13
