import GinjaxVerif.Model.Conv
import GinjaxVerif.Lemmas.Action
import Mathlib.Data.Int.Interval
import Mathlib.Data.Fintype.Pi
import Mathlib.Data.Fin.Tuple.Basic

/-!
# Box sums as `Finset` sums

`sumBox M f = ∑ a ∈ boxF M, f a` with `boxF M = Π_j [0, M j) ⊆ (Fin d → ℤ)`.
-/
namespace GinjaxVerif

open Finset

variable {R : Type} {d : Nat}

/-- the box `Π_j [0, M j)` as a finset of integer points -/
def boxF (M : Fin d → Nat) : Finset (Pix d) :=
  Fintype.piFinset (fun j => Finset.Ico (0 : Int) (M j))

theorem mem_boxF (M : Fin d → Nat) (a : Pix d) : a ∈ boxF M ↔ InBox M a := by
  simp [boxF, InBox, Fintype.mem_piFinset]

theorem consFn_eq {α : Type} {n : Nat} (a : α) (t : Fin n → α) : consFn a t = Fin.cons a t := rfl

theorem sumFin_eq_Ico [AddCommMonoid R] (n : Nat) (h : Int → R) :
    sumFin n (fun a => h (a.val : Int)) = ∑ a ∈ Finset.Ico (0 : Int) n, h a := by
  rw [sumFin_eq]
  refine Finset.sum_bij' (fun (a : Fin n) _ => (a.val : Int))
    (fun z hz => ⟨z.toNat, by
      rw [Finset.mem_Ico] at hz; omega⟩) ?_ ?_ ?_ ?_ ?_
  · intro a _; rw [Finset.mem_Ico]; constructor <;> omega
  · intro z _; exact Finset.mem_univ _
  · intro a _; apply Fin.ext; simp
  · intro z hz; rw [Finset.mem_Ico] at hz; simp; omega
  · intro a _; rfl

theorem sumBox_eq [AddCommMonoid R] : ∀ {d : Nat} (M : Fin d → Nat) (f : Pix d → R),
    sumBox M f = ∑ a ∈ boxF M, f a
  | 0, M, f => by
    have : boxF M = {fun i => i.elim0} := by
      ext a
      rw [mem_boxF, Finset.mem_singleton]
      constructor
      · intro _; funext i; exact i.elim0
      · intro _ i; exact i.elim0
    rw [this, Finset.sum_singleton]; rfl
  | d + 1, M, f => by
    simp only [sumBox]
    have ih : ∀ a : Fin (M 0), sumBox (fun i => M i.succ) (fun t => f (consFn (a.val : Int) t))
        = ∑ t ∈ boxF (fun i => M i.succ), f (Fin.cons (a.val : Int) t) := fun a => sumBox_eq _ _
    simp only [ih]
    rw [sumFin_eq_Ico (M 0) (fun z => ∑ t ∈ boxF (fun i => M i.succ), f (Fin.cons z t))]
    rw [← Finset.sum_product']
    refine Finset.sum_bij' (fun (p : Int × (Fin d → Int)) _ => (Fin.cons p.1 p.2 : Pix (d + 1)))
      (fun r _ => (r 0, Fin.tail r)) ?_ ?_ ?_ ?_ ?_
    · intro p hp
      rw [Finset.mem_product, mem_boxF, Finset.mem_Ico] at hp
      rw [mem_boxF]
      intro i
      refine Fin.cases ?_ ?_ i
      · simpa using hp.1
      · intro j; simpa using hp.2 j
    · intro r hr
      rw [mem_boxF] at hr
      rw [Finset.mem_product, mem_boxF, Finset.mem_Ico]
      exact ⟨hr 0, fun j => hr j.succ⟩
    · intro p _; simp
    · intro r _; simp
    · intro p _; rfl

theorem sumBox_add [AddCommMonoid R] (M : Fin d → Nat) (f g : Pix d → R) :
    sumBox M (fun a => f a + g a) = sumBox M f + sumBox M g := by
  simp only [sumBox_eq, Finset.sum_add_distrib]

theorem sumBox_mul_left [CommSemiring R] (M : Fin d → Nat) (c : R) (f : Pix d → R) :
    sumBox M (fun a => c * f a) = c * sumBox M f := by
  simp only [sumBox_eq, Finset.mul_sum]

theorem sumFin_add [AddCommMonoid R] (n : Nat) (f g : Fin n → R) :
    sumFin n (fun a => f a + g a) = sumFin n f + sumFin n g := by
  simp only [sumFin_eq, Finset.sum_add_distrib]

theorem sumFin_mul_left [CommSemiring R] (n : Nat) (c : R) (f : Fin n → R) :
    sumFin n (fun a => c * f a) = c * sumFin n f := by
  simp only [sumFin_eq, Finset.mul_sum]

end GinjaxVerif
