import GinjaxVerif.Lemmas.C16Rollout

/-!
# C16 — naturality of the autoregressive data path in the frames (helper lemmas)

A *framewise map* `φ : κ → α → β` transforms every frame of a multi image separately, by a
function that may depend on the tensor type (= key) of the block it sits in, never on its channel
position.  `mapK ψ` is the general keyed map of an association list; `mapMI φ` and `mapMI2 φ` are
its instances on blocks with one (`List α`) and two (`List (List α)`) leading axes.

Every helper of `Model/C16.lean` (`append`, `appendEach`, `concatInverseAux`, `expand`, `stepKey`,
`stepLoop`, `appendAxis1`, `concatAxis1`, `combineAxes01`, `mapLoop`) commutes with the map, on
**all** inputs: which branch is taken (rejections included) depends on keys and lengths only, and
those are untouched by the map.  No well-typedness hypothesis is used anywhere.
-/
namespace GinjaxVerif.C16

set_option linter.unusedSectionVars false
set_option linter.unusedSimpArgs false
set_option linter.unusedVariables false

variable {κ : Type} [DecidableEq κ] {α β γ δ σ : Type}

/-- keyed map of an association list: the value of key `k` goes through `ψ k`; keys and order stay -/
def mapK (ψ : κ → β → γ) (x : List (κ × β)) : List (κ × γ) := x.map fun kb => (kb.1, ψ kb.1 kb.2)

/-- a framewise map on a multi image with one leading axis -/
def mapMI (φ : κ → α → β) (x : MI κ α) : MI κ β := x.map fun kb => (kb.1, kb.2.map (φ kb.1))

/-- a framewise map on an `expand`ed multi image (two leading axes) -/
def mapMI2 (φ : κ → α → β) (x : MI2 κ α) : MI2 κ β :=
  x.map fun kb => (kb.1, kb.2.map (List.map (φ kb.1)))

omit [DecidableEq κ] in
theorem mapMI_eq_mapK (φ : κ → α → β) (x : MI κ α) :
    mapMI φ x = mapK (fun k => List.map (φ k)) x := rfl

omit [DecidableEq κ] in
theorem mapMI2_eq_mapK (φ : κ → α → β) (x : MI2 κ α) :
    mapMI2 φ x = mapK (fun k => List.map (List.map (φ k))) x := rfl

omit [DecidableEq κ] in
@[simp] theorem mapK_nil (ψ : κ → β → γ) : mapK ψ ([] : List (κ × β)) = [] := rfl

omit [DecidableEq κ] in
@[simp] theorem mapK_cons (ψ : κ → β → γ) (k : κ) (b : β) (x : List (κ × β)) :
    mapK ψ ((k, b) :: x) = (k, ψ k b) :: mapK ψ x := rfl

omit [DecidableEq κ] in
@[simp] theorem mapMI_nil (φ : κ → α → β) : mapMI φ ([] : MI κ α) = [] := rfl

omit [DecidableEq κ] in
@[simp] theorem mapMI2_nil (φ : κ → α → β) : mapMI2 φ ([] : MI2 κ α) = [] := rfl

omit [DecidableEq κ] in
theorem keys_mapK (ψ : κ → β → γ) (x : List (κ × β)) : keys (mapK ψ x) = keys x := by
  simp [keys, mapK, List.map_map, Function.comp_def]

omit [DecidableEq κ] in
theorem keys_mapMI (φ : κ → α → β) (x : MI κ α) : keys (mapMI φ x) = keys x :=
  keys_mapK (fun k => List.map (φ k)) x

omit [DecidableEq κ] in
theorem sig_mapMI (φ : κ → α → β) (x : MI κ α) : sig (mapMI φ x) = sig x := by
  simp [sig, mapMI, List.map_map, Function.comp_def]

omit [DecidableEq κ] in
theorem mapMI_id (x : MI κ α) : mapMI (fun _ a => a) x = x := by
  simp [mapMI]

omit [DecidableEq κ] in
theorem mapMI_comp (φ : κ → α → β) (χ : κ → β → γ) (x : MI κ α) :
    mapMI χ (mapMI φ x) = mapMI (fun k a => χ k (φ k a)) x := by
  simp [mapMI, List.map_map, Function.comp_def]

theorem lookup_mapK (ψ : κ → β → γ) (x : List (κ × β)) (k : κ) :
    List.lookup k (mapK ψ x) = (List.lookup k x).map (ψ k) := by
  induction x with
  | nil => rfl
  | cons kb r ih =>
    obtain ⟨k', b⟩ := kb
    rw [mapK_cons, lookup_cons_ite, lookup_cons_ite]
    by_cases h : k' = k
    · subst h; simp
    · simp [h, ih]

theorem lookup_mapMI (φ : κ → α → β) (x : MI κ α) (k : κ) :
    List.lookup k (mapMI φ x) = (List.lookup k x).map (List.map (φ k)) :=
  lookup_mapK (fun k => List.map (φ k)) x k

theorem lookup_mapMI2 (φ : κ → α → β) (x : MI2 κ α) (k : κ) :
    List.lookup k (mapMI2 φ x) = (List.lookup k x).map (List.map (List.map (φ k))) :=
  lookup_mapK (fun k => List.map (List.map (φ k))) x k

/-! ### `append`, `appendEach` -/

/-- `MultiImage.append` commutes with a keyed map that distributes over the concatenation -/
theorem append_mapK [Append β] [Append γ] (ψ : κ → β → γ)
    (hψ : ∀ k a b, ψ k (a ++ b) = ψ k a ++ ψ k b) (k : κ) (b : β) (x : List (κ × β)) :
    append k (ψ k b) (mapK ψ x) = mapK ψ (append k b x) := by
  induction x with
  | nil => rfl
  | cons kb r ih =>
    obtain ⟨k', b'⟩ := kb
    by_cases h : k' = k
    · subst h
      simp [append, hψ]
    · simp [append, h, ih]

theorem append_mapMI (φ : κ → α → β) (k : κ) (b : List α) (x : MI κ α) :
    append k (b.map (φ k)) (mapMI φ x) = mapMI φ (append k b x) :=
  append_mapK (fun k => List.map (φ k)) (fun _ _ _ => List.map_append) k b x

theorem append_mapMI2 (φ : κ → α → β) (k : κ) (b : List (List α)) (x : MI2 κ α) :
    append k (b.map (List.map (φ k))) (mapMI2 φ x) = mapMI2 φ (append k b x) :=
  append_mapK (fun k => List.map (List.map (φ k))) (fun _ _ _ => List.map_append) k b x

/-- the `out.append(key, g(block))` loop commutes with keyed maps on the blocks (`ψ`) and on the
results (`χ`) as soon as `g` does -/
theorem appendEach_mapK {β' γ' : Type} [Append γ] [Append γ'] (g : β → Option γ)
    (g' : β' → Option γ') (ψ : κ → β → β') (χ : κ → γ → γ')
    (hχ : ∀ k a b, χ k (a ++ b) = χ k a ++ χ k b)
    (hg : ∀ k b, g' (ψ k b) = (g b).map (χ k)) (x : List (κ × β)) (out : List (κ × γ)) :
    appendEach g' (mapK ψ x) (mapK χ out) = (appendEach g x out).map (mapK χ) := by
  induction x generalizing out with
  | nil => rfl
  | cons kb r ih =>
    obtain ⟨k, b⟩ := kb
    rw [mapK_cons]
    simp only [appendEach]
    rw [hg]
    cases h : g b with
    | none => rfl
    | some e =>
      simp only [Option.map_some]
      rw [append_mapK χ hχ, ih]

/-! ### `concat_inverse` -/

theorem concatInverseAux_mapMI (φ : κ → α → β) (consts : List (κ × Nat)) (x a b : MI κ α) :
    concatInverseAux consts (mapMI φ x) (mapMI φ a) (mapMI φ b)
      = (concatInverseAux consts x a b).map fun p => (mapMI φ p.1, mapMI φ p.2) := by
  induction x generalizing a b with
  | nil => rfl
  | cons kb r ih =>
    obtain ⟨k, blk⟩ := kb
    have e : mapMI φ ((k, blk) :: r) = (k, blk.map (φ k)) :: mapMI φ r := rfl
    rw [e]
    simp only [concatInverseAux, List.length_map]
    by_cases h1 : constSize consts k > blk.length
    · simp [h1]
    · simp only [h1, if_false]
      by_cases h2 : constSize consts k = 0
      · simp only [h2, if_true]
        rw [append_mapMI, ih]
      · simp only [h2, if_false]
        by_cases h3 : constSize consts k = blk.length
        · simp only [h3, if_true]
          rw [append_mapMI, ih]
        · simp only [h3, if_false]
          rw [← List.map_take, ← List.map_drop, append_mapMI, append_mapMI, ih]

theorem concatInverse_mapMI (φ : κ → α → β) (consts : List (κ × Nat)) (x : MI κ α) :
    concatInverse consts (mapMI φ x)
      = (concatInverse consts x).map fun p => (mapMI φ p.1, mapMI φ p.2) :=
  concatInverseAux_mapMI φ consts x [] []

/-! ### `expand`, `combine_axes` -/

theorem expand_map (g : α → β) (size : Nat) (l : List α) :
    expand size (l.map g) = (expand size l).map (List.map (List.map g)) := by
  unfold expand
  simp only [List.length_map]
  split
  · rfl
  · simp only [Option.map_some, List.map_map, Option.some.injEq]
    apply List.map_congr_left
    intro i _
    simp [Function.comp_def, List.map_take, List.map_drop]

theorem expandMI_mapMI (φ : κ → α → β) (size : Nat) (x : MI κ α) :
    expandMI size (mapMI φ x) = (expandMI size x).map (mapMI2 φ) := by
  have := appendEach_mapK (κ := κ) (expand (α := α) size) (expand (α := β) size)
    (fun k => List.map (φ k)) (fun k => List.map (List.map (φ k)))
    (fun _ _ _ => List.map_append) (fun k b => expand_map (φ k) size b) x []
  exact this

theorem combineAxes01_mapMI2 (φ : κ → α → β) (x : MI2 κ α) :
    combineAxes01 (mapMI2 φ x) = (combineAxes01 x).map (mapMI φ) := by
  have := appendEach_mapK (κ := κ) (fun rows : List (List α) => some (flattenRows rows))
    (fun rows : List (List β) => some (flattenRows rows))
    (fun k => List.map (List.map (φ k))) (fun k => List.map (φ k))
    (fun _ _ _ => List.map_append)
    (fun k b => by simp [flattenRows, List.map_flatten]) x []
  exact this

/-! ### the loop of `autoregressive_step` -/

theorem zipWith_window_map (g : α → β) (future : Nat) (win o : List (List α)) :
    List.zipWith (fun w p => w.drop future ++ p) (win.map (List.map g)) (o.map (List.map g))
      = (List.zipWith (fun w p => w.drop future ++ p) win o).map (List.map g) := by
  rw [List.map_zipWith, List.zipWith_map]
  congr 1
  funext w p
  simp [List.map_drop]

theorem stepKey_mapMI (φ : κ → α → β) (future : Nat) (dynE outE : MI2 κ α) (cst : MI κ α)
    (k : κ) (acc : MI κ α) :
    stepKey future (mapMI2 φ dynE) (mapMI2 φ outE) (mapMI φ cst) k (mapMI φ acc)
      = (stepKey future dynE outE cst k acc).map (mapMI φ) := by
  unfold stepKey
  rw [lookup_mapMI2, lookup_mapMI2, lookup_mapMI]
  cases hd : List.lookup k dynE with
  | none =>
    cases hc : List.lookup k cst with
    | none => rfl
    | some c => simp [append_mapMI]
  | some win =>
    cases ho : List.lookup k outE with
    | none => rfl
    | some o =>
      simp only [Option.map_some, List.length_map]
      by_cases hl : win.length = o.length
      · simp only [hl, if_true]
        rw [zipWith_window_map]
        have e : flattenRows ((List.zipWith (fun w p => w.drop future ++ p) win o).map
              (List.map (φ k)))
            = (flattenRows (List.zipWith (fun w p => w.drop future ++ p) win o)).map (φ k) := by
          simp [flattenRows, List.map_flatten]
        rw [e, append_mapMI]
        cases hc : List.lookup k cst with
        | none => rfl
        | some c => simp [append_mapMI]
      · simp [hl]

theorem stepLoop_mapMI (φ : κ → α → β) (future : Nat) (dynE outE : MI2 κ α) (cst : MI κ α)
    (ks : List κ) (acc : MI κ α) :
    stepLoop future (mapMI2 φ dynE) (mapMI2 φ outE) (mapMI φ cst) ks (mapMI φ acc)
      = (stepLoop future dynE outE cst ks acc).map (mapMI φ) := by
  induction ks generalizing acc with
  | nil => rfl
  | cons k r ih =>
    simp only [stepLoop]
    rw [stepKey_mapMI]
    cases h : stepKey future dynE outE cst k acc with
    | none => rfl
    | some acc' =>
      simp only [Option.map_some]
      exact ih acc'

/-- `autoregressive_step` is natural in the frames, on every input (the rejecting ones included) -/
theorem autoregressiveStep_mapMI (φ : κ → α → β) (past : Nat) (consts : List (κ × Nat))
    (x y : MI κ α) (future : Nat) :
    autoregressiveStep past consts (mapMI φ x) (mapMI φ y) future
      = (autoregressiveStep past consts x y future).map (mapMI φ) := by
  unfold autoregressiveStep
  by_cases hf : future ≠ 1
  · simp [hf]
  · simp only [hf, if_false]
    rw [concatInverse_mapMI]
    cases hci : concatInverse consts x with
    | none => rfl
    | some dc =>
      obtain ⟨dyn, cst⟩ := dc
      simp only [Option.map_some]
      rw [expandMI_mapMI]
      cases hd : expandMI past dyn with
      | none => rfl
      | some dynE =>
        simp only [Option.map_some]
        rw [expandMI_mapMI]
        cases ho : expandMI future y with
        | none => rfl
        | some outE =>
          simp only [Option.map_some]
          rw [keys_mapMI]
          exact stepLoop_mapMI φ future dynE outE cst (keys x) []

/-! ### the loop of `autoregressive_map` -/

theorem zipWith_append_map (g : α → β) (a b : List (List α)) :
    List.zipWith (· ++ ·) (a.map (List.map g)) (b.map (List.map g))
      = (List.zipWith (· ++ ·) a b).map (List.map g) := by
  rw [List.map_zipWith, List.zipWith_map]
  congr 1
  funext w p
  simp

theorem appendAxis1_mapMI2 (φ : κ → α → β) (k : κ) (b : List (List α)) (x : MI2 κ α) :
    appendAxis1 k (b.map (List.map (φ k))) (mapMI2 φ x)
      = (appendAxis1 k b x).map (mapMI2 φ) := by
  induction x with
  | nil => rfl
  | cons kb r ih =>
    obtain ⟨k', b'⟩ := kb
    have e : mapMI2 φ ((k', b') :: r) = (k', b'.map (List.map (φ k'))) :: mapMI2 φ r := rfl
    rw [e]
    simp only [appendAxis1]
    by_cases h : k' = k
    · subst h
      simp only [if_true, List.length_map]
      by_cases hl : b'.length = b.length
      · simp only [hl, if_true, Option.map_some, zipWith_append_map]
        rfl
      · simp [hl]
    · simp only [h, if_false]
      rw [ih]
      cases appendAxis1 k b r with
      | none => rfl
      | some r' => rfl

theorem concatAxis1_mapMI2 (φ : κ → α → β) (out pe : MI2 κ α) :
    concatAxis1 (mapMI2 φ out) (mapMI2 φ pe) = (concatAxis1 out pe).map (mapMI2 φ) := by
  induction pe generalizing out with
  | nil => rfl
  | cons kb r ih =>
    obtain ⟨k, b⟩ := kb
    have e : mapMI2 φ ((k, b) :: r) = (k, b.map (List.map (φ k))) :: mapMI2 φ r := rfl
    rw [e]
    simp only [concatAxis1]
    rw [appendAxis1_mapMI2]
    cases appendAxis1 k b out with
    | none => rfl
    | some out' =>
      simp only [Option.map_some]
      exact ih out'

/-- loop invariant of the naturality of `autoregressive_map`: the two loops, started on a state
and its image, stay on a state and its image -/
theorem mapLoop_mapMI (φ : κ → α → β) (f : MI κ α → σ → MI κ α × σ)
    (f' : MI κ β → σ → MI κ β × σ)
    (hf : ∀ x s, f' (mapMI φ x) s = (mapMI φ (f x s).1, (f x s).2))
    (past : Nat) (consts : List (κ × Nat)) (n : Nat) (x : MI κ α) (s : σ) (out : MI2 κ α) :
    mapLoop f' past consts n (mapMI φ x) s (mapMI2 φ out)
      = (mapLoop f past consts n x s out).map fun r => (mapMI2 φ r.1, r.2) := by
  induction n generalizing x s out with
  | zero => rfl
  | succ n ih =>
    simp only [mapLoop]
    rw [hf]
    simp only
    rw [autoregressiveStep_mapMI]
    cases h1 : autoregressiveStep past consts x (f x s).1 with
    | none => rfl
    | some x' =>
      simp only [Option.map_some]
      rw [expandMI_mapMI]
      cases h2 : expandMI 1 (f x s).1 with
      | none => rfl
      | some pe =>
        simp only [Option.map_some]
        rw [concatAxis1_mapMI2]
        cases h3 : concatAxis1 out pe with
        | none => rfl
        | some out' =>
          simp only [Option.map_some]
          exact ih x' (f x s).2 out'

end GinjaxVerif.C16
