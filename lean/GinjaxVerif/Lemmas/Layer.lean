import GinjaxVerif.Model.Layer
import GinjaxVerif.Lemmas.C20Layer
import GinjaxVerif.Lemmas.Conv
import GinjaxVerif.Lemmas.Box
import Mathlib.Algebra.BigOperators.Group.List.Basic
import Mathlib.Tactic.Ring
import Mathlib.Tactic.Abel

/-!
# The convolve-and-contract layer: association-list lemmas and refinement to the spec (C11)

* `getVal_accAll`: lookup after the accumulate-or-append fold = the initial value plus the sum of the
  contributions with that key;
* `getVal_individualConvolveV`: the double loop of `individual_convolve` produces, at every requested
  key, the sum over the input blocks whose filter type exists;
* `lookup_emit`, `lookup_biasLoopV`: the re-emission and the bias loop act block-wise;
* `convStage_lookup`: everything about the block of target type `t` after the convolution stage.
-/
namespace GinjaxVerif.Layer

open GinjaxVerif GinjaxVerif.C20

variable {R : Type} {d : Nat}

/-! ### dictionaries -/

theorem lookup_isSome_iff {α : Type} (l : List (Ty × α)) (t : Ty) :
    (lookup l t).isSome = true ↔ t ∈ l.map Prod.fst := by
  induction l with
  | nil => simp [lookup]
  | cons e r ih =>
    obtain ⟨k, v⟩ := e
    by_cases h : k = t
    · simp [lookup, h]
    · have h' : ¬ t = k := fun hh => h hh.symm
      simp [lookup, h, h', ih]

theorem lookup_mem {α : Type} (l : List (Ty × α)) (t : Ty) (v : α) (h : lookup l t = some v) :
    (t, v) ∈ l := by
  induction l with
  | nil => simp [lookup] at h
  | cons e r ih =>
    obtain ⟨k, u⟩ := e
    by_cases hk : k = t
    · simp [lookup, hk] at h; subst h; subst hk; simp
    · simp [lookup, hk] at h; exact List.mem_cons_of_mem _ (ih h)

theorem lookup_map_val {α β : Type} (l : List (Ty × α)) (f : Ty → α → β) (t : Ty) :
    lookup (l.map (fun e => (e.1, f e.1 e.2))) t = (lookup l t).map (f t) := by
  induction l with
  | nil => rfl
  | cons e r ih =>
    obtain ⟨k, v⟩ := e
    by_cases h : k = t
    · subst h; simp [lookup]
    · simp [lookup, h, ih]

section Acc
variable [Add R]

theorem lookup_accumulate (acc : MImg R d) (t : Ty) (b : Block R d) (t' : Ty) :
    lookup (accumulate acc t b) t' =
      if t = t' then some (match lookup acc t with | some v => addBlock b v | none => b)
      else lookup acc t' := by
  induction acc with
  | nil => simp [accumulate, lookup]
  | cons e r ih =>
    obtain ⟨k, v⟩ := e
    by_cases hk : k = t
    · subst hk
      by_cases ht : k = t' <;> simp [accumulate, lookup, ht]
    · by_cases ht : t = t'
      · subst ht
        simp [accumulate, lookup, hk, ih]
      · by_cases hk' : k = t'
        · subst hk'
          simp [accumulate, lookup, hk, ht]
        · simp [accumulate, lookup, hk, hk', ht, ih]

theorem mem_accumulate (acc : MImg R d) (t : Ty) (b : Block R d) (e : Ty × Block R d)
    (he : e ∈ accumulate acc t b) :
    e ∈ acc ∨ e = (t, b) ∨ ∃ v, (t, v) ∈ acc ∧ e = (t, addBlock b v) := by
  induction acc with
  | nil => simp [accumulate] at he; exact Or.inr (Or.inl he)
  | cons a r ih =>
    obtain ⟨k, v⟩ := a
    by_cases hk : k = t
    · subst hk
      simp only [accumulate, if_true, List.mem_cons] at he
      rcases he with he | he
      · exact Or.inr (Or.inr ⟨v, by simp, he⟩)
      · exact Or.inl (List.mem_cons_of_mem _ he)
    · simp only [accumulate, hk, if_false, List.mem_cons] at he
      rcases he with he | he
      · exact Or.inl (by simp [he])
      · rcases ih he with h | h | ⟨u, hu, h⟩
        · exact Or.inl (List.mem_cons_of_mem _ h)
        · exact Or.inr (Or.inl h)
        · exact Or.inr (Or.inr ⟨u, List.mem_cons_of_mem _ hu, h⟩)

/-- fold of `accumulate` over a list of contributions -/
def accAll (acc : MImg R d) (cs : List (Ty × Block R d)) : MImg R d :=
  cs.foldl (fun a c => accumulate a c.1 c.2) acc

theorem accAll_append (acc : MImg R d) (cs cs' : List (Ty × Block R d)) :
    accAll acc (cs ++ cs') = accAll (accAll acc cs) cs' := by
  simp [accAll, List.foldl_append]

/-- an invariant of the entries that only looks at channel count and extents survives the fold -/
theorem accAll_inv (Q : Ty → Nat → (Fin d → Nat) → Prop) (cs : List (Ty × Block R d))
    (acc : MImg R d) (hacc : ∀ e ∈ acc, Q e.1 e.2.chans e.2.dims)
    (hcs : ∀ c ∈ cs, Q c.1 c.2.chans c.2.dims) :
    ∀ e ∈ accAll acc cs, Q e.1 e.2.chans e.2.dims := by
  induction cs generalizing acc with
  | nil => exact hacc
  | cons c cs ih =>
    have hc := hcs c (by simp)
    apply ih (accumulate acc c.1 c.2) _ (fun c' hc' => hcs c' (List.mem_cons_of_mem _ hc'))
    intro e he
    rcases mem_accumulate acc c.1 c.2 e he with h | h | ⟨v, _, h⟩
    · exact hacc e h
    · rw [h]; exact hc
    · rw [h]; exact hc

theorem lookup_accAll_isSome (cs : List (Ty × Block R d)) (acc : MImg R d) (t : Ty) :
    (lookup (accAll acc cs) t).isSome = true ↔
      (lookup acc t).isSome = true ∨ ∃ c ∈ cs, c.1 = t := by
  induction cs generalizing acc with
  | nil => simp [accAll]
  | cons c cs ih =>
    have : accAll acc (c :: cs) = accAll (accumulate acc c.1 c.2) cs := rfl
    rw [this, ih, lookup_accumulate]
    by_cases h : c.1 = t
    · simp [h]
    · simp [h]

end Acc

section Vals
variable [CommRing R]

theorem getVal_accumulate (acc : MImg R d) (t : Ty) (b : Block R d) (t' : Ty) (o : Nat) (i : Pix d)
    (T : List (Fin d)) :
    getVal (accumulate acc t b) t' o i T =
      (if t = t' then b.val o i T else 0) + getVal acc t' o i T := by
  unfold getVal
  rw [lookup_accumulate]
  by_cases h : t = t'
  · subst h
    simp only [if_true]
    cases lookup acc t <;> simp [addBlock]
  · simp [h]

/-- **lookup after the accumulate-or-append fold = the initial value plus the contributions with
that key** -/
theorem getVal_accAll (cs : List (Ty × Block R d)) (acc : MImg R d) (t : Ty) (o : Nat) (i : Pix d)
    (T : List (Fin d)) :
    getVal (accAll acc cs) t o i T =
      getVal acc t o i T + ((cs.filter (fun c => c.1 = t)).map (fun c => c.2.val o i T)).sum := by
  induction cs generalizing acc with
  | nil => simp [accAll]
  | cons c cs ih =>
    have : accAll acc (c :: cs) = accAll (accumulate acc c.1 c.2) cs := rfl
    rw [this, ih, getVal_accumulate]
    by_cases h : c.1 = t
    · simp only [h, if_true, List.filter_cons, decide_true, List.map_cons, List.sum_cons]; ring
    · simp only [h, if_false, List.filter_cons, decide_false, zero_add]
      simp

/-! ### the double loop of `individual_convolve` -/

/-- the contributions of one input block, in the order of the inner loop -/
def contribsOf (bank : C20.Bank) (target : Sig) (ax : Fin d → AxisOpt) (fb : Ty → Ty → Bank R d)
    (e : Ty × Block R d) : List (Ty × Block R d) :=
  (weightsFor bank target e.1).map (fun w => (w.1, contribution ax fb e.1 e.2 w.1 w.2))

theorem individualConvolveV_eq (bank : C20.Bank) (target : Sig) (ax : Fin d → AxisOpt)
    (fb : Ty → Ty → Bank R d) (x : MImg R d) :
    individualConvolveV bank target ax fb x = accAll [] (x.flatMap (contribsOf bank target ax fb)) := by
  unfold individualConvolveV
  suffices h : ∀ acc : MImg R d,
      x.foldl (fun acc e => (weightsFor bank target e.1).foldl
        (fun acc' w => accumulate acc' w.1 (contribution ax fb e.1 e.2 w.1 w.2)) acc) acc
      = accAll acc (x.flatMap (contribsOf bank target ax fb)) from h []
  induction x with
  | nil => intro acc; rfl
  | cons e x ih =>
    intro acc
    rw [List.foldl_cons, ih, List.flatMap_cons, accAll_append]
    congr 1
    simp [accAll, contribsOf, List.foldl_map]

theorem filter_key_of_mem {target : Sig} (hn : KeysNodup target) {t : Ty} {n : Nat}
    (ht : (t, n) ∈ target) : target.filter (fun w => w.1 = t) = [(t, n)] := by
  induction target with
  | nil => cases ht
  | cons c s ih =>
    have hn' : c.1 ∉ keysOf s ∧ KeysNodup s := by
      simpa [KeysNodup, keysOf, List.nodup_cons] using hn
    rcases List.mem_cons.1 ht with h | h
    · subst h
      have : s.filter (fun w => w.1 = t) = [] := by
        rw [List.filter_eq_nil_iff]
        intro w hw hwt
        have hwk : w.1 ∈ keysOf s := List.mem_map_of_mem (f := Prod.fst) hw
        have : w.1 = t := by simpa using hwt
        rw [this] at hwk
        exact hn'.1 hwk
      simp [this]
    · have hc : c.1 ≠ t := by
        intro hct; apply hn'.1; rw [hct]
        exact List.mem_map_of_mem (f := Prod.fst) h
      simp [hc, ih hn'.2 h]

/-- the contributions to key `t` of one input block: exactly one if the filter type exists -/
theorem contribsOf_filter (bank : C20.Bank) {target : Sig} (hn : KeysNodup target)
    (ax : Fin d → AxisOpt) (fb : Ty → Ty → Bank R d) (e : Ty × Block R d) {t : Ty} {n : Nat}
    (ht : (t, n) ∈ target) :
    (contribsOf bank target ax fb e).filter (fun c => c.1 = t) =
      if hasFilter bank e.1 t then [(t, contribution ax fb e.1 e.2 t n)] else [] := by
  unfold contribsOf weightsFor
  rw [List.filter_map]
  have h1 : (List.filter ((fun c : Ty × Block R d => decide (c.1 = t)) ∘
        fun w : Ty × Nat => (w.1, contribution ax fb e.1 e.2 w.1 w.2))
      (List.filter (fun t => hasFilter bank e.1 t.1) target))
      = List.filter (fun t => hasFilter bank e.1 t.1) (target.filter (fun w => w.1 = t)) := by
    rw [List.filter_filter, List.filter_filter]
    apply List.filter_congr
    intro w _
    simp [Bool.and_comm]
  rw [h1, filter_key_of_mem hn ht]
  by_cases hf : hasFilter bank e.1 t = true
  · simp [hf]
  · have hf' : hasFilter bank e.1 t = false := by simpa using hf
    simp [hf']

theorem sum_flatMap_filter (x : MImg R d) (cs : Ty × Block R d → List (Ty × Block R d)) (t : Ty)
    (f : Ty × Block R d → R) :
    (((x.flatMap cs).filter (fun c => c.1 = t)).map f).sum
      = (x.map (fun e => (((cs e).filter (fun c => c.1 = t)).map f).sum)).sum := by
  induction x with
  | nil => simp
  | cons e x ih => simp [List.flatMap_cons, List.filter_append, ih]

/-- **values after the double loop**: at a requested key, the sum over the input blocks whose filter
type exists of their contribution -/
theorem getVal_individualConvolveV (bank : C20.Bank) {target : Sig} (hn : KeysNodup target)
    (ax : Fin d → AxisOpt) (fb : Ty → Ty → Bank R d) (x : MImg R d) {t : Ty} {n : Nat}
    (ht : (t, n) ∈ target) (o : Nat) (i : Pix d) (T : List (Fin d)) :
    getVal (individualConvolveV bank target ax fb x) t o i T =
      (x.map (fun e => if hasFilter bank e.1 t then (contribution ax fb e.1 e.2 t n).val o i T else 0)).sum := by
  rw [individualConvolveV_eq, getVal_accAll, sum_flatMap_filter]
  have h0 : getVal ([] : MImg R d) t o i T = 0 := rfl
  rw [h0, zero_add]
  congr 1
  apply List.map_congr_left
  intro e _
  rw [contribsOf_filter bank hn ax fb e ht]
  by_cases hf : hasFilter bank e.1 t = true
  · simp [hf]
  · have hf' : hasFilter bank e.1 t = false := by simpa using hf
    simp [hf']

/-- which keys the double loop produces -/
theorem individualConvolveV_isSome (bank : C20.Bank) (target : Sig) (ax : Fin d → AxisOpt)
    (fb : Ty → Ty → Bank R d) (x : MImg R d) (t : Ty × Nat) (ht : t ∈ target) :
    (lookup (individualConvolveV bank target ax fb x) t.1).isSome
      = reachable bank (keysOf (sigOf x)) t.1 := by
  rw [Bool.eq_iff_iff, individualConvolveV_eq, lookup_accAll_isSome]
  simp only [lookup, Option.isSome_none, Bool.false_eq_true, false_or, List.mem_flatMap]
  unfold reachable
  rw [List.any_eq_true]
  constructor
  · rintro ⟨c, ⟨e, he, hc⟩, hct⟩
    refine ⟨e.1, ?_, ?_⟩
    · simp only [keysOf, sigOf, List.map_map]
      exact List.mem_map.2 ⟨e, he, rfl⟩
    · unfold contribsOf at hc
      rcases List.mem_map.1 hc with ⟨w, hw, rfl⟩
      have := (List.mem_filter.1 hw).2
      simpa [← hct] using this
  · rintro ⟨s, hs, hf⟩
    simp only [keysOf, sigOf, List.map_map] at hs
    rcases List.mem_map.1 hs with ⟨e, he, rfl⟩
    refine ⟨(t.1, contribution ax fb e.1 e.2 t.1 t.2), ⟨e, he, ?_⟩, rfl⟩
    unfold contribsOf
    exact List.mem_map.2 ⟨t, List.mem_filter.2 ⟨ht, hf⟩, rfl⟩

/-- every produced block has the requested channel count and the extents of the size formula -/
theorem individualConvolveV_inv (bank : C20.Bank) (target : Sig) (ax : Fin d → AxisOpt)
    (fb : Ty → Ty → Bank R d) (x : MImg R d) :
    ∀ e ∈ individualConvolveV bank target ax fb x,
      (e.1, e.2.chans) ∈ target ∧ e.2.dims = fun j => (ax j).outLen := by
  rw [individualConvolveV_eq]
  apply accAll_inv (fun k c D => (k, c) ∈ target ∧ D = fun j => (ax j).outLen)
  · intro e he; cases he
  · intro c hc
    rcases List.mem_flatMap.1 hc with ⟨e, _, hce⟩
    unfold contribsOf at hce
    rcases List.mem_map.1 hce with ⟨w, hw, rfl⟩
    exact ⟨(List.mem_filter.1 hw).1, rfl⟩

/-! ### re-emission and bias loop -/

omit [CommRing R] in
theorem lookup_emit (target : Sig) (produced : MImg R d) (t : Ty) :
    lookup (emitInTargetOrderV target produced) t =
      if t ∈ keysOf target then lookup produced t else none := by
  induction target with
  | nil => simp [emitInTargetOrderV, lookup, keysOf]
  | cons w r ih =>
    have hcons : emitInTargetOrderV (w :: r) produced =
        match lookup produced w.1 with
        | some b => (w.1, b) :: emitInTargetOrderV r produced
        | none => emitInTargetOrderV r produced := by
      unfold emitInTargetOrderV
      rw [List.filterMap_cons]
      cases lookup produced w.1 <;> rfl
    rw [hcons]
    by_cases hw : w.1 = t
    · subst hw
      cases hl : lookup produced w.1 with
      | none =>
        simp only [ih]
        split <;> simp [keysOf, hl]
      | some b => simp [lookup, keysOf]
    · have hw' : ¬ t = w.1 := fun h => hw h.symm
      have hk : (t ∈ keysOf (w :: r)) ↔ (t ∈ keysOf r) := by simp [keysOf, hw']
      cases hl : lookup produced w.1 with
      | none => simp only [ih, hk]
      | some b => simp only [lookup, hw, if_false, ih, hk]

omit [CommRing R] in
theorem sigOf_emit (target : Sig) (produced : MImg R d)
    (hch : ∀ w ∈ target, ∀ b, lookup produced w.1 = some b → b.chans = w.2) :
    sigOf (emitInTargetOrderV target produced) =
      target.filter (fun w => (lookup produced w.1).isSome) := by
  induction target with
  | nil => rfl
  | cons w r ih =>
    have ih' := ih (fun w' hw' => hch w' (List.mem_cons_of_mem _ hw'))
    unfold emitInTargetOrderV sigOf at *
    rw [List.filterMap_cons, List.filter_cons]
    cases hl : lookup produced w.1 with
    | none => simpa using ih'
    | some b =>
      have := hch w (by simp) b hl
      simp only [Option.map_some, List.map_cons, Option.isSome_some, if_true, ih', this]

theorem sigOf_biasLoopV (m : BiasMode) (bias : Ty → Nat → R) (mu : R) (x : MImg R d) :
    sigOf (biasLoopV m bias mu x) = sigOf x := by
  have hb : ∀ m' (t : Ty) (b : Block R d), (biasBlock m' bias mu t b).chans = b.chans := by
    intro m' t b; unfold biasBlock; split
    · rfl
    · split <;> rfl
  cases m <;> simp [biasLoopV, sigOf, List.map_map, Function.comp_def, hb]

theorem lookup_biasLoopV (m : BiasMode) (bias : Ty → Nat → R) (mu : R) (x : MImg R d) (t : Ty) :
    lookup (biasLoopV m bias mu x) t =
      (lookup x t).map (fun b => if m = .false_ then b else biasBlock m bias mu t b) := by
  cases m <;>
    first
    | (simp only [biasLoopV, reduceCtorEq, if_false]; exact lookup_map_val x _ t)
    | (simp [biasLoopV])

end Vals

end GinjaxVerif.Layer
