import GinjaxVerif.Lemmas.C05LC
import Mathlib.GroupTheory.Perm.Cycle.Type
import Mathlib.LinearAlgebra.Matrix.Permutation

/-!
# C05 — the Levi-Civita symbol of the code is the sign of the permutation, in every dimension

`permutation_parity` (`constants.py`) counts the cycles of `pi` with a marking loop and returns
`-2·((n − c) % 2) + 1`.  Here the loop (`walk`, `cycleCount`, `permParity` of `Model/C05.lean`,
unchanged) is proved correct for every `n` and every permutation:

* `walk_spec` / `walk_cycle`: the inner `while` started at `j` with fuel `n` marks exactly the cycle
  of `j`;
* `fold_spec`: after the outer loop has processed `j < J` the marks are the union of the cycles
  meeting `[0, J)` and the counter is the number of cycle minima below `J`;
* `card_minCyc`: the number of cycle minima is `|cycleType| + (n − |support|)`;
* `permParity_eq_sign`: hence `permParity = Equiv.Perm.sign`.

Consequences: `leviCivitaSym_eq_sign` (and the two zero cases), `det_mat_eq_sign`, and
`LCSign_general : ∀ d (g : SP d), LCSign g`.
-/
namespace GinjaxVerif.C05
open GinjaxVerif Finset Equiv Equiv.Perm

variable {n : Nat}

/-! ### the list of a permutation, marks -/

/-- the list `pi` the code receives for the permutation `π` -/
def piL (π : Perm (Fin n)) : List Nat := (List.finRange n).map (fun i => (π i).val)

@[simp] theorem piL_length (π : Perm (Fin n)) : (piL π).length = n := by simp [piL]

theorem piL_getD (π : Perm (Fin n)) (i : Fin n) : (piL π).getD i.val 0 = (π i).val := by
  simp [piL, List.getD_eq_getElem?_getD]

theorem getD_set_true (a : List Bool) (k x : Nat) (hk : k < a.length) :
    (a.set k true).getD x false = true ↔ (k = x ∨ a.getD x false = true) := by
  simp only [List.getD_eq_getElem?_getD, List.getElem?_set]
  by_cases h : k = x
  · subst h; simp [hk]
  · simp [h]

/-! ### the inner loop -/

/-- **inner loop**: started at `i` with marks `a`, `walk` additionally marks `π^s i` for exactly those
`1 ≤ s ≤ fuel` such that none of `π i, …, π^s i` is `j`. -/
theorem walk_spec (π : Perm (Fin n)) (j : Fin n) :
    ∀ (fuel : Nat) (i : Fin n) (a : List Bool), a.length = n →
      (walk (piL π) j.val fuel i.val a).length = n ∧
      ∀ x : Fin n, (walk (piL π) j.val fuel i.val a).getD x.val false = true ↔
        (a.getD x.val false = true ∨
          ∃ s, 1 ≤ s ∧ s ≤ fuel ∧ x = (π ^ s) i ∧ ∀ r, 1 ≤ r → r ≤ s → (π ^ r) i ≠ j) := by
  intro fuel
  induction fuel with
  | zero =>
    intro i a ha
    refine ⟨ha, fun x => ?_⟩
    simp only [walk]
    constructor
    · exact Or.inl
    · rintro (h | ⟨s, h1, h0, _⟩)
      · exact h
      · omega
  | succ fuel ih =>
    intro i a ha
    simp only [walk, piL_getD]
    by_cases hij : (π i).val = j.val
    · rw [if_pos hij]
      refine ⟨ha, fun x => ⟨Or.inl, ?_⟩⟩
      rintro (h | ⟨s, h1, _, _, hr⟩)
      · exact h
      · exact absurd (Fin.ext hij) (by simpa using hr 1 le_rfl h1)
    · rw [if_neg hij]
      have hlen : (a.set (π i).val true).length = n := by simp [ha]
      obtain ⟨hl, hm⟩ := ih (π i) (a.set (π i).val true) hlen
      refine ⟨hl, fun x => ?_⟩
      rw [hm x, getD_set_true a _ _ (by rw [ha]; exact (π i).isLt)]
      have hne : π i ≠ j := fun h => hij (by rw [h])
      constructor
      · rintro ((h | h) | ⟨s, h1, hs, hx, hr⟩)
        · refine Or.inr ⟨1, le_rfl, by omega, ?_, ?_⟩
          · simpa using (Fin.ext h).symm
          · intro r hr1 hr2
            have : r = 1 := by omega
            subst this; simpa using hne
        · exact Or.inl h
        · refine Or.inr ⟨s + 1, by omega, by omega, ?_, ?_⟩
          · rw [hx, pow_succ, Perm.mul_apply]
          · intro r hr1 hr2
            rcases Nat.lt_or_ge 1 r with h | h
            · obtain ⟨r', rfl⟩ : ∃ r', r = r' + 1 := ⟨r - 1, by omega⟩
              have := hr r' (by omega) (by omega)
              rwa [pow_succ, Perm.mul_apply]
            · have : r = 1 := by omega
              subst this; simpa using hne
      · rintro (h | ⟨s, h1, hs, hx, hr⟩)
        · exact Or.inl (Or.inr h)
        · rcases Nat.lt_or_ge 1 s with h | h
          · obtain ⟨s', rfl⟩ : ∃ s', s = s' + 1 := ⟨s - 1, by omega⟩
            refine Or.inr ⟨s', by omega, by omega, ?_, ?_⟩
            · rw [hx, pow_succ, Perm.mul_apply]
            · intro r hr1 hr2
              have := hr (r + 1) (by omega) (by omega)
              rwa [pow_succ, Perm.mul_apply] at this
          · have : s = 1 := by omega
            subst this
            refine Or.inl (Or.inl ?_)
            rw [hx]; simp

/-- **inner loop, as called**: started at `j` with fuel `n` it marks exactly the rest of the cycle
of `j`. -/
theorem walk_cycle (π : Perm (Fin n)) (j : Fin n) (a : List Bool) (ha : a.length = n) :
    (walk (piL π) j.val n j.val a).length = n ∧
    ∀ x : Fin n, (walk (piL π) j.val n j.val a).getD x.val false = true ↔
      (a.getD x.val false = true ∨ (SameCycle π j x ∧ x ≠ j)) := by
  obtain ⟨hl, hm⟩ := walk_spec π j n j a ha
  refine ⟨hl, fun x => ?_⟩
  rw [hm x]
  apply or_congr Iff.rfl
  constructor
  · rintro ⟨s, h1, _, hx, hr⟩
    refine ⟨?_, ?_⟩
    · rw [hx]; exact sameCycle_pow_right.mpr (SameCycle.refl _ _)
    · rw [hx]; exact hr s h1 le_rfl
  · rintro ⟨hsc, hne⟩
    have hj : j ∈ π.support := by
      by_contra h
      exact hne (hsc.eq_of_left (notMem_support.mp h)).symm
    obtain ⟨i, hi, hix⟩ := hsc.exists_pow_eq_of_mem_support hj
    have hin : i < n := by
      have := Finset.card_le_univ (π.cycleOf j).support
      simp only [Fintype.card_fin] at this
      omega
    have hi0 : 0 < i := by
      rcases Nat.eq_zero_or_pos i with h | h
      · subst h; exact absurd hix.symm (by simpa using hne)
      · exact h
    have hP : ∃ s, 0 < s ∧ (π ^ s) j = x := ⟨i, hi0, hix⟩
    classical
    have hspec := Nat.find_spec hP
    have hle : Nat.find hP ≤ i := Nat.find_min' hP ⟨hi0, hix⟩
    refine ⟨Nat.find hP, hspec.1, by omega, hspec.2.symm, ?_⟩
    intro r hr1 hr2 hrj
    rcases Nat.lt_or_ge r (Nat.find hP) with h | h
    · refine Nat.find_min hP (m := Nat.find hP - r) (by omega) ⟨by omega, ?_⟩
      have : (π ^ (Nat.find hP - r)) ((π ^ r) j) = x := by
        rw [← Perm.mul_apply, ← pow_add, Nat.sub_add_cancel hr2]; exact hspec.2
      rwa [hrj] at this
    · have : r = Nat.find hP := by omega
      rw [this, hspec.2] at hrj
      exact hne hrj

/-! ### the outer loop -/

/-- `j` is the least element of its cycle -/
def minCyc (π : Perm (Fin n)) (j : Fin n) : Prop := ∀ x, SameCycle π j x → j ≤ x

instance (π : Perm (Fin n)) : DecidablePred (minCyc π) := fun _ => by
  unfold minCyc; infer_instance

/-- the body of the `for j in range(n)` loop of `cycleCount` -/
def stepCC (pi : List Nat) (st : List Bool × Nat) (j : Nat) : List Bool × Nat :=
  if st.1.getD j false then st else (walk pi j pi.length j (st.1.set j true), st.2 + 1)

theorem cycleCount_eq_foldl (pi : List Nat) :
    cycleCount pi = (List.range pi.length).foldl (stepCC pi) (List.replicate pi.length false, 0) :=
  rfl

/-- loop invariant of the outer loop, as a predicate on the state after `J` iterations -/
def CCInv (π : Perm (Fin n)) (J : Nat) (st : List Bool × Nat) : Prop :=
  st.1.length = n ∧
  (∀ x : Fin n, st.1.getD x.val false = true ↔ ∃ j' : Fin n, j'.val < J ∧ SameCycle π j' x) ∧
  st.2 = #{j' : Fin n | j'.val < J ∧ minCyc π j'}

theorem CCInv_zero (π : Perm (Fin n)) : CCInv π 0 (List.replicate n false, 0) := by
  refine ⟨by simp, fun x => ?_, ?_⟩
  · simp [List.getD_eq_getElem?_getD]
  · simp

theorem CCInv_step (π : Perm (Fin n)) (J : Nat) (hJ : J < n) (st : List Bool × Nat)
    (h : CCInv π J st) : CCInv π (J + 1) (stepCC (piL π) st J) := by
  obtain ⟨hlen, hmarks, hcount⟩ := h
  let jf : Fin n := ⟨J, hJ⟩
  unfold stepCC
  by_cases hm : st.1.getD J false = true
  · rw [if_pos hm]
    obtain ⟨j0, hj0, hsc0⟩ := (hmarks jf).mp hm
    refine ⟨hlen, fun x => ?_, ?_⟩
    · rw [hmarks x]
      constructor
      · rintro ⟨j', hj', hsc⟩; exact ⟨j', by omega, hsc⟩
      · rintro ⟨j', hj', hsc⟩
        rcases Nat.lt_or_ge j'.val J with h | h
        · exact ⟨j', h, hsc⟩
        · have : j' = jf := Fin.ext (by simp only [jf]; omega)
          subst this
          exact ⟨j0, hj0, hsc0.trans hsc⟩
    · rw [hcount]
      congr 1
      ext j'
      simp only [mem_filter, mem_univ, true_and]
      constructor
      · rintro ⟨h1, h2⟩; exact ⟨by omega, h2⟩
      · rintro ⟨h1, h2⟩
        refine ⟨?_, h2⟩
        rcases Nat.lt_or_ge j'.val J with h | h
        · exact h
        · have : j' = jf := Fin.ext (by simp only [jf]; omega)
          subst this
          have := h2 j0 hsc0.symm
          rw [Fin.le_def] at this
          simp only [jf] at this
          omega
  · rw [if_neg hm]
    have hno : ¬ ∃ j' : Fin n, j'.val < J ∧ SameCycle π j' jf := fun h => hm ((hmarks jf).mpr h)
    have hlen' : (st.1.set J true).length = n := by simp [hlen]
    obtain ⟨hl, hw⟩ := walk_cycle π jf (st.1.set J true) hlen'
    simp only [piL_length]
    refine ⟨hl, fun x => ?_, ?_⟩
    · show (walk (piL π) jf.val n jf.val (st.1.set J true)).getD x.val false = true ↔ _
      rw [hw x, getD_set_true _ _ _ (by rw [hlen]; exact hJ), hmarks x]
      constructor
      · rintro ((h | ⟨j', hj', hsc⟩) | ⟨hsc, _⟩)
        · have : x = jf := Fin.ext h.symm
          exact ⟨jf, by simp [jf], this ▸ SameCycle.refl _ _⟩
        · exact ⟨j', by omega, hsc⟩
        · exact ⟨jf, by simp [jf], hsc⟩
      · rintro ⟨j', hj', hsc⟩
        rcases Nat.lt_or_ge j'.val J with h | h
        · exact Or.inl (Or.inr ⟨j', h, hsc⟩)
        · have : j' = jf := Fin.ext (by simp only [jf]; omega)
          subst this
          by_cases hx : x = jf
          · exact Or.inl (Or.inl (by rw [hx]))
          · exact Or.inr ⟨hsc, hx⟩
    · show st.2 + 1 = _
      have hmin : minCyc π jf := by
        intro x hsc
        by_contra hlt
        rw [Fin.le_def, not_le] at hlt
        exact hno ⟨x, hlt, hsc.symm⟩
      have hset : (univ.filter (fun j' : Fin n => j'.val < J + 1 ∧ minCyc π j'))
          = insert jf (univ.filter (fun j' : Fin n => j'.val < J ∧ minCyc π j')) := by
        ext j'
        simp only [mem_filter, mem_univ, true_and, mem_insert]
        constructor
        · rintro ⟨h1, h2⟩
          rcases Nat.lt_or_ge j'.val J with h | h
          · exact Or.inr ⟨h, h2⟩
          · exact Or.inl (Fin.ext (by simp only [jf]; omega))
        · rintro (h | ⟨h1, h2⟩)
          · subst h; exact ⟨by simp [jf], hmin⟩
          · exact ⟨by omega, h2⟩
      rw [hset, card_insert_of_notMem, hcount]
      simp [jf]

theorem fold_spec (π : Perm (Fin n)) : ∀ J, J ≤ n →
    CCInv π J ((List.range J).foldl (stepCC (piL π)) (List.replicate n false, 0)) := by
  intro J
  induction J with
  | zero => intro _; exact CCInv_zero π
  | succ J ih =>
    intro hJ
    rw [List.range_succ, List.foldl_append, List.foldl_cons, List.foldl_nil]
    exact CCInv_step π J (by omega) _ (ih (by omega))

/-- **the marking loop counts the cycles** (fixed points included): its counter ends at the number
of cycle minima. -/
theorem cycleCount_snd (π : Perm (Fin n)) :
    (cycleCount (piL π)).2 = #{j : Fin n | minCyc π j} := by
  rw [cycleCount_eq_foldl, piL_length]
  have h := (fold_spec π n le_rfl).2.2
  rw [h]
  congr 1
  ext j
  simp

/-! ### the number of cycle minima and the sign -/

theorem exists_minCyc (π : Perm (Fin n)) (a : Fin n) : ∃ m, minCyc π m ∧ SameCycle π m a := by
  have hne : (univ.filter (fun x => SameCycle π a x)).Nonempty :=
    ⟨a, by simp only [mem_filter, mem_univ, true_and]; exact SameCycle.refl _ _⟩
  have hmem := Finset.min'_mem _ hne
  simp only [mem_filter, mem_univ, true_and] at hmem
  refine ⟨_, fun x hx => ?_, hmem.symm⟩
  exact Finset.min'_le _ x (by simp only [mem_filter, mem_univ, true_and]; exact hmem.trans hx)

theorem minCyc_of_fixed (π : Perm (Fin n)) (j : Fin n) (h : j ∉ π.support) : minCyc π j := by
  intro x hx
  rw [hx.eq_of_left (notMem_support.mp h)]

/-- the cycle minima inside the support are in bijection with the cycle factors -/
theorem card_minCyc_support (π : Perm (Fin n)) :
    #((univ.filter (minCyc π)).filter (fun j => j ∈ π.support)) = #π.cycleFactorsFinset := by
  apply Finset.card_bij (fun j _ => π.cycleOf j)
  · intro j hj
    simp only [mem_filter, mem_univ, true_and] at hj
    exact cycleOf_mem_cycleFactorsFinset_iff.mpr hj.2
  · intro a ha b hb hab
    simp only [mem_filter, mem_univ, true_and] at ha hb
    have hsc : SameCycle π a b := (sameCycle_iff_cycleOf_eq_of_mem_support ha.2 hb.2).mpr hab
    exact le_antisymm (ha.1 b hsc) (hb.1 a hsc.symm)
  · intro c hc
    obtain ⟨a, ha⟩ := (mem_cycleFactorsFinset_iff.mp hc).1.nonempty_support
    obtain ⟨m, hm, hsc⟩ := exists_minCyc π a
    have haS : a ∈ π.support := mem_cycleFactorsFinset_support_le hc ha
    refine ⟨m, ?_, ?_⟩
    · simp only [mem_filter, mem_univ, true_and]
      exact ⟨hm, hsc.mem_support_iff.mpr haS⟩
    · rw [hsc.cycleOf_eq]; exact (cycle_is_cycleOf ha hc).symm

theorem card_minCyc (π : Perm (Fin n)) :
    #{j : Fin n | minCyc π j} = Multiset.card π.cycleType + (n - #π.support) := by
  have hsplit := Finset.card_filter_add_card_filter_not (s := univ.filter (minCyc π))
    (fun j => j ∈ π.support)
  have h2 : (univ.filter (minCyc π)).filter (fun j => ¬ j ∈ π.support) = π.supportᶜ := by
    ext j
    simp only [mem_filter, mem_univ, true_and, mem_compl]
    exact ⟨fun h => h.2, fun h => ⟨minCyc_of_fixed π j h, h⟩⟩
  rw [card_minCyc_support, h2, Finset.card_compl, Fintype.card_fin] at hsplit
  rw [← hsplit, cycleType_def, Multiset.card_map]
  rfl

theorem neg_two_mul_mod (k : Nat) : (-2 : Int) * ((k % 2 : Nat) : Int) + 1 = (-1) ^ k := by
  rcases Nat.even_or_odd k with h | h
  · rw [Nat.even_iff.mp h, h.neg_one_pow]; norm_num
  · rw [Nat.odd_iff.mp h, h.neg_one_pow]; norm_num

theorem hasDup_iff (l : List Nat) : hasDup l = true ↔ ¬ l.Nodup := by
  induction l with
  | nil => simp [hasDup]
  | cons x xs ih =>
    simp only [hasDup, Bool.or_eq_true, List.contains_iff_mem, ih, List.nodup_cons]
    tauto

theorem piL_nodup (π : Perm (Fin n)) : (piL π).Nodup :=
  (List.nodup_finRange n).map (fun _ _ hab => π.injective (Fin.ext hab))

/-- **`permutation_parity` computes the sign**: for every `n` and every permutation `π` of
`Fin n`, the code's cycle-counting loop run on the list `[π 0, …, π (n-1)]` returns `sign π`. -/
theorem permParity_eq_sign (n : Nat) (π : Perm (Fin n)) :
    permParity ((List.finRange n).map (fun i => (π i).val)) = ((Perm.sign π : ℤˣ) : ℤ) := by
  show permParity (piL π) = _
  unfold permParity
  rw [if_neg (by rw [hasDup_iff]; exact not_not.mpr (piL_nodup π)), piL_length, cycleCount_snd,
    card_minCyc, neg_two_mul_mod, sign_of_cycleType]
  have h1 := π.sum_cycleType
  have h2 : #π.support ≤ n := by
    have := Finset.card_le_univ π.support
    simpa using this
  have h3 : Multiset.card π.cycleType + (n - #π.support) ≤ n := by
    rw [← card_minCyc]
    have := Finset.card_le_univ (univ.filter (minCyc π))
    simpa using this
  have h4 : π.cycleType.sum + Multiset.card π.cycleType
      = (n - (Multiset.card π.cycleType + (n - #π.support))) + 2 * Multiset.card π.cycleType := by
    omega
  rw [h4, pow_add, pow_mul]
  simp

/-! ### the symbol as the code builds it -/

variable {d : Nat}

theorem leviCivitaSym_of_length_ne (m : List (Fin d)) (h : m.length ≠ d) :
    leviCivitaSym d m = 0 := by
  simp [leviCivitaSym, h]

theorem leviCivitaSym_of_dup (m : List (Fin d)) (h : ¬ m.Nodup) : leviCivitaSym d m = 0 := by
  have hd : hasDup (m.map (·.val)) = true := by
    rw [hasDup_iff]; exact fun hn => h (List.Nodup.of_map _ hn)
  simp [leviCivitaSym, permParity, hd]

/-- on the index list of a permutation the symbol is its sign -/
theorem leviCivitaSym_perm (π : Perm (Fin d)) :
    leviCivitaSym d ((List.finRange d).map π) = ((Perm.sign π : ℤˣ) : ℤ) := by
  unfold leviCivitaSym
  rw [if_pos (by simp), List.map_map]
  exact permParity_eq_sign d π

/-- the permutation `i ↦ m[i]` of a duplicate-free index list of full length -/
noncomputable def permOfList (m : List (Fin d)) (hl : m.length = d) (hn : m.Nodup) :
    Perm (Fin d) :=
  Equiv.ofBijective (fun i => m[i.val]'(by rw [hl]; exact i.isLt))
    (Finite.injective_iff_bijective.mp (fun _ _ hab => Fin.ext ((hn.getElem_inj_iff).mp hab)))

theorem permOfList_apply (m : List (Fin d)) (hl : m.length = d) (hn : m.Nodup) (i : Fin d) :
    permOfList m hl hn i = m[i.val]'(by rw [hl]; exact i.isLt) := rfl

theorem map_permOfList (m : List (Fin d)) (hl : m.length = d) (hn : m.Nodup) :
    (List.finRange d).map (permOfList m hl hn) = m := by
  apply List.ext_getElem
  · simp [hl]
  · intro i h1 h2
    simp [permOfList_apply]

/-- **the Levi-Civita symbol of the code is the usual one**: `0` on index lists of the wrong length
or with a repeated entry, otherwise the sign of the permutation `i ↦ m[i]`. -/
theorem leviCivitaSym_eq_sign (m : List (Fin d)) (hl : m.length = d) (hn : m.Nodup) :
    leviCivitaSym d m = ((Perm.sign (permOfList m hl hn) : ℤˣ) : ℤ) := by
  rw [← leviCivitaSym_perm, map_permOfList]

theorem leviCivitaSym_eq (m : List (Fin d)) :
    leviCivitaSym d m =
      if h : m.length = d ∧ m.Nodup then ((Perm.sign (permOfList m h.1 h.2) : ℤˣ) : ℤ) else 0 := by
  split
  · next h => exact leviCivitaSym_eq_sign m h.1 h.2
  · next h =>
    by_cases hl : m.length = d
    · exact leviCivitaSym_of_dup m (fun hn => h ⟨hl, hn⟩)
    · exact leviCivitaSym_of_length_ne m hl

/-! ### the sign identity, every dimension -/

/-- the determinant (Laplace expansion of the model) of a signed permutation matrix is
`sign σ · Π s` -/
theorem det_mat_eq_sign (g : SP d) :
    det g.mat = ((Perm.sign g.σ : ℤˣ) : ℤ) * ∏ a, g.s a := by
  rw [GinjaxVerif.det_eq]
  have : Matrix.of g.mat = Matrix.diagonal g.s * g.σ.permMatrix ℤ := by
    ext i j
    rw [Matrix.diagonal_mul]
    simp only [Matrix.of_apply, SP.mat, Equiv.Perm.permMatrix, PEquiv.toMatrix_apply,
      Equiv.toPEquiv_apply, Option.mem_def, Option.some.injEq]
    by_cases h : j = g.σ i
    · simp [h]
    · have h' : ¬ g.σ i = j := fun hh => h hh.symm
      simp [h, h']
  rw [this, Matrix.det_mul, Matrix.det_diagonal, Matrix.det_permutation]
  push_cast
  ring

theorem sgn_map_perm (g : SP d) (π : Perm (Fin d)) :
    g.sgn ((List.finRange d).map π) = ∏ a, g.s a := by
  unfold SP.sgn
  rw [List.map_map, ← Fin.prod_univ_def]
  exact Equiv.prod_comp π g.s

theorem prod_s_mul_self (g : SP d) : (∏ a, g.s a) * (∏ a, g.s a) = 1 := by
  rw [← Finset.prod_mul_distrib]
  simp [g.s_mul_self]

theorem sign_mul_self_int (π : Perm (Fin d)) :
    ((Perm.sign π : ℤˣ) : ℤ) * ((Perm.sign π : ℤˣ) : ℤ) = 1 := by
  rw [← Units.val_mul, Int.units_mul_self]; rfl

/-- **the sign identity of the Levi-Civita symbol in every dimension**:
`ε(m) = det g · Π s(m_i) · ε(σ m)` for every `g ∈ B_d` and every index list. -/
theorem LCSign_general (g : SP d) : LCSign g := by
  intro m
  by_cases hl : m.length = d
  · by_cases hn : m.Nodup
    · rw [← map_permOfList m hl hn]
      generalize permOfList m hl hn = π
      have hcomp : ((List.finRange d).map π).map g.σ = (List.finRange d).map (g.σ * π) := by
        rw [List.map_map]; rfl
      rw [hcomp, leviCivitaSym_perm, leviCivitaSym_perm, det_mat_eq_sign, sgn_map_perm,
        Perm.sign_mul, Units.val_mul]
      have e : ((Perm.sign g.σ : ℤˣ) : ℤ) * (∏ a, g.s a) * (∏ a, g.s a) *
            (((Perm.sign g.σ : ℤˣ) : ℤ) * ((Perm.sign π : ℤˣ) : ℤ))
          = (((Perm.sign g.σ : ℤˣ) : ℤ) * ((Perm.sign g.σ : ℤˣ) : ℤ)) *
            ((∏ a, g.s a) * (∏ a, g.s a)) * ((Perm.sign π : ℤˣ) : ℤ) := by ring
      rw [e, sign_mul_self_int, prod_s_mul_self]; ring
    · rw [leviCivitaSym_of_dup m hn,
        leviCivitaSym_of_dup (m.map g.σ) (fun h => hn (List.Nodup.of_map _ h))]
      simp
  · rw [leviCivitaSym_of_length_ne m hl,
      leviCivitaSym_of_length_ne (m.map g.σ) (by simpa using hl)]
    simp

/-- the general statement of `Lemmas/C05LC.lean`, proved -/
theorem leviCivita_sign_general : leviCivita_sign_statement := fun _ g => LCSign_general g

end GinjaxVerif.C05
