import GinjaxVerif.Lemmas.C14Fold
import GinjaxVerif.Lemmas.C13Scalar

/-!
# C14 — container-level lemmas for the per-image methods of `MultiImage`
-/
namespace GinjaxVerif.C14
open GinjaxVerif.ND GinjaxVerif.ND.NDArr GinjaxVerif.C13

variable {R : Type} [Inhabited R]

/-- the layout of a multi image whose blocks all have `nl` leading axes (with their own extents),
the common spatial shape `S` and the tensor axes `(D,)*k` of their type; no empty image
(`reshape((-1,) + …)` must be able to infer the `-1`) -/
structure Laid (m : MI R) (nl : Nat) (S : List Nat) : Prop where
  spatial : S.length = m.D
  blocks : ∀ e ∈ m.data, ∃ lead : List Nat,
    lead.length = nl ∧ e.2.shape = lead ++ (S ++ List.replicate e.1.1 m.D)
  pos : 0 < S.prod
  dpos : 0 < m.D

omit [Inhabited R] in
theorem Laid.rest_pos {m : MI R} {nl : Nat} {S : List Nat} (h : Laid m nl S) (k : Nat) :
    0 < (S ++ List.replicate k m.D).prod := by
  rw [List.prod_append, prod_replicate_nat]
  exact Nat.mul_pos h.pos (Nat.pow_pos h.dpos)

omit [Inhabited R] in
/-- `get_spatial_dims()` returns the common spatial shape -/
theorem spatialDims_of_laid {m : MI R} {nl : Nat} {S : List Nat} (h : Laid m nl S)
    (hne : m.data ≠ []) : m.spatialDims = S := by
  obtain ⟨e0, rest, hd⟩ := List.exists_cons_of_ne_nil hne
  obtain ⟨lead, hl, hsh⟩ := h.blocks e0 (by rw [hd]; exact List.mem_cons_self)
  obtain ⟨⟨k, p⟩, X⟩ := e0
  simp only at hsh
  unfold MI.spatialDims
  rw [hd]
  simp only
  have hlen : X.shape.length - (k + m.D) = lead.length := by
    rw [hsh]; simp [h.spatial]; omega
  rw [hlen, hsh, List.drop_left, ← h.spatial, List.take_left]

omit [Inhabited R] in
/-- `get_n_leading()` returns the common number of leading axes -/
theorem nLeading_of_laid {m : MI R} {nl : Nat} {S : List Nat} (h : Laid m nl S)
    (hne : m.data ≠ []) : m.nLeading = nl := by
  obtain ⟨e0, rest, hd⟩ := List.exists_cons_of_ne_nil hne
  obtain ⟨lead, hl, hsh⟩ := h.blocks e0 (by rw [hd]; exact List.mem_cons_self)
  obtain ⟨⟨k, p⟩, X⟩ := e0
  simp only at hsh
  unfold MI.nLeading
  rw [hd]
  simp only
  rw [hsh]; simp [h.spatial]; omega

omit [Inhabited R] in
theorem keysOf_map_key (d : List (Key × NDArr R)) (F : Key × NDArr R → NDArr R) :
    keysOf (d.map fun e => (e.1, F e)) = keysOf d := by
  simp [keysOf, List.map_map, Function.comp_def]

/-- the loop `out = MultiImage({}, D', flags); for key, blk in items(): out.append(key, F(blk))`
maps the blocks and keeps keys and order -/
theorem perBlock_container (m : MI R) (hm : m.Valid) (D' : Nat) (t : List Bool)
    (F : Key × NDArr R → NDArr R) (ax : Nat) :
    appendAll (MI.new [] D' t) (m.data.map fun e => (e.1, F e)) ax
      = ⟨D', t, m.data.map fun e => (e.1, F e)⟩ := by
  have := appendAll_empty (⟨D', t, []⟩ : MI R) (m.data.map fun e => (e.1, F e)) ax
    (by
      intro e he
      obtain ⟨e', he', rfl⟩ := List.mem_map.1 he
      exact hm.parity e' he')
    (by rw [keysOf_map_key]; exact hm.nodup)
  exact this

omit [Inhabited R] in
/-- by key: the block stored under the key of `e` is `F e` -/
theorem perBlock_get (m : MI R) (hm : m.Valid) (F : Key × NDArr R → NDArr R) {e : Key × NDArr R}
    (he : e ∈ m.data) : dictGet e.1 (m.data.map fun e => (e.1, F e)) = some (F e) := by
  have hn : (keysOf (m.data.map fun e => (e.1, F e))).Nodup := by
    rw [keysOf_map_key]; exact hm.nodup
  exact dictGet_of_mem hn (e := (e.1, F e)) (List.mem_map.2 ⟨e, he, rfl⟩)

/-- a loop of `append(0, 0, y, axis)` starting from an empty multi image leaves one scalar block:
the left fold of `concat axis` -/
theorem appendAll_scalar (m : MI R) (ax : Nat) (y0 : NDArr R) (ys : List (NDArr R)) :
    appendAll m.empty ((y0 :: ys).map fun y => (((0, 0) : Key), y)) ax
      = ⟨m.D, m.isTorus, [((0, 0), ys.foldl (concat ax) y0)]⟩ := by
  rw [List.map_cons, appendAll_cons]
  have hfirst : (m.empty.append 0 0 y0 ax) = ⟨m.D, m.isTorus, [((0, 0), y0)]⟩ := by
    simp [MI.append, MI.empty, MI.new, toDict, dictGet, dictSet]
  simp only
  rw [hfirst]
  have hdata := appendAll_same_key (⟨m.D, m.isTorus, [((0, 0), y0)]⟩ : MI R) (0, 0) (by decide) y0
    ys ax [] [] rfl (by simp)
  have hD := appendAll_D (⟨m.D, m.isTorus, [((0, 0), y0)]⟩ : MI R)
    (ys.map fun y => (((0, 0) : Key), y)) ax
  have hT := appendAll_isTorus (⟨m.D, m.isTorus, [((0, 0), y0)]⟩ : MI R)
    (ys.map fun y => (((0, 0) : Key), y)) ax
  exact MI.eq_mk _ hD hT hdata

omit [Inhabited R] in
/-- `m.nLeading` of a multi image with batch shape `B` and a channel axis -/
theorem nLeading_of_shaped {m : MI R} {B S : List Nat} (hs : m.Shaped B S) (hne : m.data ≠ []) :
    m.nLeading = B.length + 1 := by
  obtain ⟨e0, rest, hd⟩ := List.exists_cons_of_ne_nil hne
  obtain ⟨c, hc⟩ := hs.blocks e0 (by rw [hd]; exact List.mem_cons_self)
  obtain ⟨⟨k0, p0⟩, X0⟩ := e0
  simp only at hc
  unfold MI.nLeading
  rw [hd]
  simp only
  rw [rank_of_shape hc hs.spatial]; omega

end GinjaxVerif.C14
