import GinjaxVerif.Lemmas.C05

/-!
# C05 — structural induction over expression trees

`eval_good`: for every well-typed tree (`tyOf … = some t`), (1) the evaluated image has the
declared type `t`, and (2) evaluating on a transformed environment gives the permute-and-flip
transform of the original result with the scalar `det^t.p` — i.e. the declared parity is the one
with which the result transforms — and the declared parity / boundary flags are carried along.
-/
namespace GinjaxVerif.C05
open GinjaxVerif Finset

variable {R : Type} {d : Nat}

theorem fnEq_iff {α : Type} [DecidableEq α] (a b : Fin d → α) : fnEq a b = true ↔ a = b := by
  simp [fnEq, List.all_eq_true, funext_iff]

theorem det_pow_mod (g : SP d) (n : Nat) : det g.mat ^ (n % 2) = det g.mat ^ n := by
  conv_rhs => rw [← Nat.div_add_mod n 2, pow_add, pow_mul, sq, g.det_mul_self, one_pow, one_mul]

theorem lcPairs_length (k : Nat) (idxs : List Nat) : (lcPairs k idxs).length = idxs.length := by
  simp [lcPairs]

/-- does the tree contain a Levi-Civita contraction? -/
def hasLC : Expr R → Bool
  | .leaf _ => false
  | .add a b => hasLC a || hasLC b
  | .sub a b => hasLC a || hasLC b
  | .smul _ a => hasLC a
  | .mul a b => hasLC a || hasLC b
  | .transpose _ a => hasLC a
  | .contract _ _ a => hasLC a
  | .multicontract _ a => hasLC a
  | .leviCivita _ _ => true
  | .norm a => hasLC a
  | .conv a _ => hasLC a

/-- does the tree contain a convolution? -/
def hasConv : Expr R → Bool
  | .leaf _ => false
  | .add a b => hasConv a || hasConv b
  | .sub a b => hasConv a || hasConv b
  | .smul _ a => hasConv a
  | .mul a b => hasConv a || hasConv b
  | .transpose _ a => hasConv a
  | .contract _ _ a => hasConv a
  | .multicontract _ a => hasConv a
  | .leviCivita _ a => hasConv a
  | .norm a => hasConv a
  | .conv _ _ => true

section Main
variable [CommRing R]

/-- What the induction needs from the convolution (default options).  `dims`, `k`, `congr` are
routine for the direct-sum model `convI`; **`hConv` is the equivariance of convolution, discharged
by C01's `conv_act`** (symmetric padding, stride 1, odd filter, flags travelling with the axes). -/
structure ConvHyp (convF : (Fin d → Bool) → Img R d → Img R d → Img R d) : Prop where
  dims : ∀ tor A F, (convF tor A F).dims = A.dims
  k : ∀ tor A F, (convF tor A F).k = A.k + F.k
  congr : ∀ tor (A A' F F' : Img R d), A.SEq A' → F.SEq F' → (convF tor A F).SEq (convF tor A' F')
  hConv : ∀ (g : SP d) (c c' : Int) (tor : Fin d → Bool) (A F : Img R d), (d = 2 ∨ d = 3) →
    (∀ i, F.dims i % 2 = 1) →
    (convF (fun i => tor (g.σ i)) (pf g c A) (pf g c' F)).SEq (pf g (c * c') (convF tor A F))

/-- `env'` is `env` transformed by `g`, every leaf with its own declared parity -/
def EnvAct (g : SP d) (env env' : Nat → GImg R d) : Prop :=
  ∀ i, (env' i).img.SEq (pf g (det g.mat ^ (env i).p) (env i).img) ∧ (env' i).p = (env i).p ∧
    (env' i).torus = fun j => (env i).torus (g.σ j)

/-- the invariant of the induction -/
structure Good (g : SP d) (t : Ty d) (G G' : GImg R d) : Prop where
  dims : G.img.dims = t.dims
  k : G.img.k = t.k
  p : G.p = t.p
  torus : G.torus = t.torus
  seq : G'.img.SEq (pf g (det g.mat ^ t.p) G.img)
  p' : G'.p = t.p
  torus' : G'.torus = fun j => t.torus (g.σ j)

theorem lift1 (g : SP d) {tab : Img R d → Img R d} (htab : ∀ A, (tab A).SEq A)
    (op : Img R d → Img R d) (c c' : Int)
    (hcongr : ∀ A A', A.SEq A' → (op A).SEq (op A'))
    {A A' : Img R d} (hact : (op (pf g c A)).SEq (pf g c' (op A)))
    (hA : A'.SEq (pf g c A)) : (tab (op A')).SEq (pf g c' (tab (op A))) :=
  (htab _).trans ((hcongr _ _ hA).trans (hact.trans (pf_congr g c' (htab _).symm)))

theorem lift2 (g : SP d) {tab : Img R d → Img R d} (htab : ∀ A, (tab A).SEq A)
    (op : Img R d → Img R d → Img R d) (c c' c'' : Int)
    (hcongr : ∀ A A' B B', A.dims = B.dims → A.SEq A' → B.SEq B' → (op A B).SEq (op A' B'))
    {A A' B B' : Img R d} (hd : A.dims = B.dims)
    (hact : (op (pf g c A) (pf g c' B)).SEq (pf g c'' (op A B)))
    (hA : A'.SEq (pf g c A)) (hB : B'.SEq (pf g c' B)) :
    (tab (op A' B')).SEq (pf g c'' (tab (op A B))) := by
  have hd' : A'.dims = B'.dims := by
    rw [hA.1, hB.1]; simp only [pf, hd]
  exact (htab _).trans ((hcongr _ _ _ _ hd' hA hB).trans
    (hact.trans (pf_congr g c'' (htab _).symm)))

theorem eval_good (g : SP d) (tab : Img R d → Img R d) (htab : ∀ A, (tab A).SEq A)
    (sqrtF : R → R) (convF : (Fin d → Bool) → Img R d → Img R d → Img R d)
    (env env' : Nat → GImg R d) (henv : EnvAct g env env') :
    ∀ (e : Expr R) (t : Ty d), (hasLC e = true → LCSign g) → (hasConv e = true → ConvHyp convF) →
      tyOf (fun i => (env i).ty) e = some t →
      Good g t (eval tab sqrtF convF env e) (eval tab sqrtF convF env' e) := by
  intro e
  induction e with
  | leaf i =>
    intro t _ _ ht
    simp only [tyOf, Option.some.injEq] at ht
    subst ht
    obtain ⟨h1, h2, h3⟩ := henv i
    exact ⟨rfl, rfl, rfl, rfl, h1, h2, h3⟩
  | add a b iha ihb =>
    intro t hlc hcv ht
    simp only [tyOf] at ht
    cases hta : tyOf (fun i => (env i).ty) a with
    | none => simp [hta] at ht
    | some ta =>
    cases htb : tyOf (fun i => (env i).ty) b with
    | none => simp [hta, htb] at ht
    | some tb =>
    simp only [hta, htb] at ht
    split at ht
    · rename_i hc
      simp only [Bool.and_eq_true, fnEq_iff, beq_iff_eq] at hc
      obtain ⟨⟨⟨hdims, _⟩, hp⟩, _⟩ := hc
      simp only [Option.some.injEq] at ht
      subst ht
      have ga := iha ta (fun h => hlc (by simp [hasLC, h])) (fun h => hcv (by simp [hasConv, h])) hta
      have gb := ihb tb (fun h => hlc (by simp [hasLC, h])) (fun h => hcv (by simp [hasConv, h])) htb
      have hd : (eval tab sqrtF convF env a).img.dims = (eval tab sqrtF convF env b).img.dims := by
        rw [ga.dims, gb.dims, hdims]
      refine ⟨?_, ?_, ?_, ?_, ?_, ?_, ?_⟩
      · exact (htab _).1.trans ga.dims
      · exact (htab _).2.1.trans ga.k
      · simp only [eval, GImg.mk', ga.p]
      · exact ga.torus
      · simp only [eval, GImg.mk', det_pow_mod]
        refine lift2 g htab addI _ _ _ (fun _ _ _ _ => addI_congr) hd (add_act g _ _ _ hd) ga.seq ?_
        rw [hp]; exact gb.seq
      · simp only [eval, GImg.mk', ga.p']
      · exact ga.torus'
    · simp at ht
  | sub a b iha ihb =>
    intro t hlc hcv ht
    simp only [tyOf] at ht
    cases hta : tyOf (fun i => (env i).ty) a with
    | none => simp [hta] at ht
    | some ta =>
    cases htb : tyOf (fun i => (env i).ty) b with
    | none => simp [hta, htb] at ht
    | some tb =>
    simp only [hta, htb] at ht
    split at ht
    · rename_i hc
      simp only [Bool.and_eq_true, fnEq_iff, beq_iff_eq] at hc
      obtain ⟨⟨⟨hdims, _⟩, hp⟩, _⟩ := hc
      simp only [Option.some.injEq] at ht
      subst ht
      have ga := iha ta (fun h => hlc (by simp [hasLC, h])) (fun h => hcv (by simp [hasConv, h])) hta
      have gb := ihb tb (fun h => hlc (by simp [hasLC, h])) (fun h => hcv (by simp [hasConv, h])) htb
      have hd : (eval tab sqrtF convF env a).img.dims = (eval tab sqrtF convF env b).img.dims := by
        rw [ga.dims, gb.dims, hdims]
      refine ⟨?_, ?_, ?_, ?_, ?_, ?_, ?_⟩
      · exact (htab _).1.trans ga.dims
      · exact (htab _).2.1.trans ga.k
      · simp only [eval, GImg.mk', ga.p]
      · exact ga.torus
      · simp only [eval, GImg.mk', det_pow_mod]
        refine lift2 g htab subI _ _ _ (fun _ _ _ _ => subI_congr) hd (sub_act g _ _ _ hd) ga.seq ?_
        rw [hp]; exact gb.seq
      · simp only [eval, GImg.mk', ga.p']
      · exact ga.torus'
    · simp at ht
  | smul c a iha =>
    intro t hlc hcv ht
    simp only [tyOf] at ht
    cases hta : tyOf (fun i => (env i).ty) a with
    | none => simp [hta] at ht
    | some ta =>
    simp only [hta, Option.some.injEq] at ht
    subst ht
    have ga := iha ta (fun h => hlc (by simp [hasLC, h])) (fun h => hcv (by simp [hasConv, h])) hta
    refine ⟨?_, ?_, ?_, ?_, ?_, ?_, ?_⟩
    · exact (htab _).1.trans ga.dims
    · exact (htab _).2.1.trans ga.k
    · simp only [eval, GImg.mk', ga.p]
    · exact ga.torus
    · simp only [eval, GImg.mk', det_pow_mod]
      exact lift1 g htab (smulI c) _ _ (fun _ _ => smulI_congr c) (smul_act g _ c _) ga.seq
    · simp only [eval, GImg.mk', ga.p']
    · exact ga.torus'
  | mul a b iha ihb =>
    intro t hlc hcv ht
    simp only [tyOf] at ht
    cases hta : tyOf (fun i => (env i).ty) a with
    | none => simp [hta] at ht
    | some ta =>
    cases htb : tyOf (fun i => (env i).ty) b with
    | none => simp [hta, htb] at ht
    | some tb =>
    simp only [hta, htb] at ht
    split at ht
    · rename_i hc
      simp only [Bool.and_eq_true, fnEq_iff] at hc
      obtain ⟨hdims, _⟩ := hc
      simp only [Option.some.injEq] at ht
      subst ht
      have ga := iha ta (fun h => hlc (by simp [hasLC, h])) (fun h => hcv (by simp [hasConv, h])) hta
      have gb := ihb tb (fun h => hlc (by simp [hasLC, h])) (fun h => hcv (by simp [hasConv, h])) htb
      have hd : (eval tab sqrtF convF env a).img.dims = (eval tab sqrtF convF env b).img.dims := by
        rw [ga.dims, gb.dims, hdims]
      refine ⟨?_, ?_, ?_, ?_, ?_, ?_, ?_⟩
      · exact (htab _).1.trans ga.dims
      · refine (htab _).2.1.trans ?_
        simp only [mulI, ga.k, gb.k]
      · simp only [eval, GImg.mk', ga.p, gb.p]
      · exact ga.torus
      · simp only [eval, GImg.mk', det_pow_mod, pow_add]
        exact lift2 g htab mulI _ _ _ (fun _ _ _ _ => mulI_congr) hd (mul_act g _ _ _ _ hd)
          ga.seq gb.seq
      · simp only [eval, GImg.mk', ga.p', gb.p']
      · exact ga.torus'
    · simp at ht
  | transpose π a iha =>
    intro t hlc hcv ht
    simp only [tyOf] at ht
    cases hta : tyOf (fun i => (env i).ty) a with
    | none => simp [hta] at ht
    | some ta =>
    simp only [hta] at ht
    split at ht
    · rename_i hc
      simp only [Option.some.injEq] at ht
      subst ht
      have ga := iha ta (fun h => hlc (by simp [hasLC, h])) (fun h => hcv (by simp [hasConv, h])) hta
      refine ⟨?_, ?_, ?_, ?_, ?_, ?_, ?_⟩
      · exact (htab _).1.trans ga.dims
      · exact (htab _).2.1.trans ga.k
      · simp only [eval, GImg.mk', ga.p]
      · exact ga.torus
      · simp only [eval, GImg.mk', det_pow_mod]
        exact lift1 g htab (transposeI π) _ _ (fun _ _ => transposeI_congr π)
          (transpose_act g _ π _ (isPermOfRange_spec hc).2) ga.seq
      · simp only [eval, GImg.mk', ga.p']
      · exact ga.torus'
    · simp at ht
  | contract i j a iha =>
    intro t hlc hcv ht
    simp only [tyOf] at ht
    cases hta : tyOf (fun i => (env i).ty) a with
    | none => simp [hta] at ht
    | some ta =>
    simp only [hta] at ht
    split at ht
    · rename_i hc
      simp only [Bool.and_eq_true, decide_eq_true_eq] at hc
      obtain ⟨_, hwf⟩ := hc
      simp only [Option.some.injEq] at ht
      subst ht
      have ga := iha ta (fun h => hlc (by simp [hasLC, h])) (fun h => hcv (by simp [hasConv, h])) hta
      refine ⟨?_, ?_, ?_, ?_, ?_, ?_, ?_⟩
      · exact (htab _).1.trans ga.dims
      · refine (htab _).2.1.trans ?_
        simp only [multicontractI, ga.k, List.length_cons, List.length_nil]
      · simp only [eval, GImg.mk', ga.p]
      · exact ga.torus
      · simp only [eval, GImg.mk', det_pow_mod]
        exact lift1 g htab (multicontractI [(i, j)]) _ _ (fun _ _ => multicontractI_congr _)
          (multicontract_act g _ _ _ (by rw [ga.k]; exact hwf)) ga.seq
      · simp only [eval, GImg.mk', ga.p']
      · exact ga.torus'
    · simp at ht
  | multicontract ps a iha =>
    intro t hlc hcv ht
    simp only [tyOf] at ht
    cases hta : tyOf (fun i => (env i).ty) a with
    | none => simp [hta] at ht
    | some ta =>
    simp only [hta] at ht
    split at ht
    · rename_i hc
      simp only [Bool.and_eq_true, decide_eq_true_eq] at hc
      obtain ⟨_, hwf⟩ := hc
      simp only [Option.some.injEq] at ht
      subst ht
      have ga := iha ta (fun h => hlc (by simp [hasLC, h])) (fun h => hcv (by simp [hasConv, h])) hta
      refine ⟨?_, ?_, ?_, ?_, ?_, ?_, ?_⟩
      · exact (htab _).1.trans ga.dims
      · refine (htab _).2.1.trans ?_
        simp only [multicontractI, ga.k]
      · simp only [eval, GImg.mk', ga.p]
      · exact ga.torus
      · simp only [eval, GImg.mk', det_pow_mod]
        exact lift1 g htab (multicontractI ps) _ _ (fun _ _ => multicontractI_congr _)
          (multicontract_act g _ _ _ (by rw [ga.k]; exact hwf)) ga.seq
      · simp only [eval, GImg.mk', ga.p']
      · exact ga.torus'
    · simp at ht
  | leviCivita idxs a iha =>
    intro t hlc hcv ht
    simp only [tyOf] at ht
    cases hta : tyOf (fun i => (env i).ty) a with
    | none => simp [hta] at ht
    | some ta =>
    simp only [hta] at ht
    split at ht
    · rename_i hc
      simp only [Bool.and_eq_true, decide_eq_true_eq, beq_iff_eq] at hc
      obtain ⟨_, hwf⟩ := hc
      simp only [Option.some.injEq] at ht
      subst ht
      have ga := iha ta (fun h => hlc (by simp [hasLC])) (fun h => hcv (by simp [hasConv, h])) hta
      have hg : LCSign g := hlc (by simp [hasLC])
      refine ⟨?_, ?_, ?_, ?_, ?_, ?_, ?_⟩
      · exact (htab _).1.trans ga.dims
      · refine (htab _).2.1.trans ?_
        simp only [leviCivitaI, multicontractI, outerLC, ga.k, lcPairs_length]
      · simp only [eval, GImg.mk', ga.p]
      · exact ga.torus
      · simp only [eval, GImg.mk', det_pow_mod, pow_add, pow_one]
        exact lift1 g htab (leviCivitaI idxs) _ _ (fun _ _ => leviCivitaI_congr idxs)
          (leviCivita_act g hg _ idxs _ (by rw [ga.k]; exact hwf)) ga.seq
      · simp only [eval, GImg.mk', ga.p']
      · exact ga.torus'
    · simp at ht
  | norm a iha =>
    intro t hlc hcv ht
    simp only [tyOf] at ht
    cases hta : tyOf (fun i => (env i).ty) a with
    | none => simp [hta] at ht
    | some ta =>
    simp only [hta, Option.some.injEq] at ht
    subst ht
    have ga := iha ta (fun h => hlc (by simp [hasLC, h])) (fun h => hcv (by simp [hasConv, h])) hta
    refine ⟨?_, ?_, ?_, ?_, ?_, ?_, ?_⟩
    · exact (htab _).1.trans ga.dims
    · exact (htab _).2.1
    · simp only [eval, GImg.mk']
    · exact ga.torus
    · simp only [eval, GImg.mk', pow_zero]
      exact lift1 g htab (normI sqrtF) _ _ (fun _ _ => normI_congr sqrtF)
        (norm_act g _ (g.det_pow_mul_self _) sqrtF _) ga.seq
    · simp only [eval, GImg.mk']
    · exact ga.torus'
  | conv a f iha =>
    intro t hlc hcv ht
    simp only [tyOf] at ht
    cases hta : tyOf (fun i => (env i).ty) a with
    | none => simp [hta] at ht
    | some ta =>
    simp only [hta] at ht
    split at ht
    · rename_i hc
      simp only [Bool.and_eq_true, Bool.or_eq_true, beq_iff_eq, List.all_eq_true,
        List.mem_finRange, forall_const] at hc
      obtain ⟨hd23, hodd⟩ := hc
      simp only [Option.some.injEq] at ht
      subst ht
      have ga := iha ta (fun h => hlc (by simp [hasLC, h])) (fun h => hcv (by simp [hasConv])) hta
      have hC : ConvHyp convF := hcv (by simp [hasConv])
      obtain ⟨hf1, hf2, hf3⟩ := henv f
      refine ⟨?_, ?_, ?_, ?_, ?_, ?_, ?_⟩
      · exact (htab _).1.trans ((hC.dims _ _ _).trans ga.dims)
      · refine (htab _).2.1.trans ((hC.k _ _ _).trans ?_)
        simp only [ga.k, GImg.ty]
      · simp only [eval, GImg.mk', ga.p, GImg.ty]
      · exact ga.torus
      · simp only [eval, GImg.mk', det_pow_mod, pow_add, GImg.ty]
        rw [ga.torus', ← ga.torus]
        refine (htab _).trans (((hC.congr _ _ _ _ _ ga.seq hf1).trans
          (hC.hConv g _ _ _ _ _ hd23 hodd)).trans (pf_congr g _ (htab _).symm))
      · simp only [eval, GImg.mk', ga.p', hf2, GImg.ty]
      · exact ga.torus'
    · simp at ht

end Main

/-! ### well-typedness is invariant under the group -/

/-- the type of a transformed image: extents and flags travel with the axes -/
def Ty.act (g : SP d) (t : Ty d) : Ty d :=
  ⟨fun i => t.dims (g.σ i), t.k, t.p, fun i => t.torus (g.σ i)⟩

theorem fnEq_comp {α : Type} [DecidableEq α] (g : SP d) (a b : Fin d → α) :
    fnEq (fun i => a (g.σ i)) (fun i => b (g.σ i)) = fnEq a b := by
  rw [Bool.eq_iff_iff, fnEq_iff, fnEq_iff]
  constructor
  · intro h
    funext j
    have := congrFun h (g.σ.symm j)
    simpa using this
  · intro h; rw [h]

theorem all_comp (g : SP d) (P : Fin d → Bool) :
    (List.finRange d).all (fun i => P (g.σ i)) = (List.finRange d).all P := by
  rw [Bool.eq_iff_iff]
  simp only [List.all_eq_true, List.mem_finRange, forall_const]
  constructor
  · intro h j
    have := h (g.σ.symm j)
    simpa using this
  · intro h i; exact h _

/-- **well-typedness is invariant under the group**: the checker accepts the tree on transformed
leaves iff it accepts it on the original ones, with the transformed type -/
theorem tyOf_act (g : SP d) (sig : Nat → Ty d) (e : Expr R) :
    tyOf (fun i => (sig i).act g) e = (tyOf sig e).map (Ty.act g) := by
  induction e with
  | leaf i => rfl
  | add a b iha ihb | sub a b iha ihb =>
    simp only [tyOf, iha, ihb]
    cases tyOf sig a <;> cases tyOf sig b <;> simp [Ty.act, fnEq_comp]
  | smul c a iha =>
    simp only [tyOf, iha]
    cases tyOf sig a <;> simp [Ty.act]
  | mul a b iha ihb =>
    simp only [tyOf, iha, ihb]
    cases tyOf sig a <;> cases tyOf sig b <;> simp [Ty.act, fnEq_comp]
  | transpose π a iha | contract i j a iha | multicontract ps a iha | leviCivita idxs a iha =>
    simp only [tyOf, iha]
    cases tyOf sig a <;> simp [Ty.act]
  | norm a iha =>
    simp only [tyOf, iha]
    cases tyOf sig a <;> simp [Ty.act]
  | conv a f iha =>
    simp only [tyOf, iha]
    have hall : (∀ x : Fin d, (sig f).dims (g.σ x) % 2 = 1) ↔ (∀ x : Fin d, (sig f).dims x % 2 = 1) :=
      ⟨fun h j => by simpa using h (g.σ.symm j), fun h i => h _⟩
    cases tyOf sig a <;> simp [Ty.act, hall]

end GinjaxVerif.C05
