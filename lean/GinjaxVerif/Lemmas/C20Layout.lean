import GinjaxVerif.Lemmas.C20Layer
/-!
# C20 — lemmas about extents, `append` semantics (concat / flatten / unflatten) and positions
-/
namespace GinjaxVerif.C20

/-! ### extents -/

theorem convExtent_same (N M rd : Nat) (hM : M % 2 = 1) :
    convExtent N M 1 (((M - 1) / 2) * rd) (((M - 1) / 2) * rd) 1 rd = N := by
  unfold convExtent
  have h2 : (M - 1) / 2 * 2 = M - 1 := by omega
  have h3 : (M - 1) / 2 * rd + (M - 1) / 2 * rd = (M - 1) * rd := by
    rw [← Nat.add_mul]; congr 1; omega
  by_cases hN : N = 0
  · subst hN; simp; omega
  · simp [hN]
    have : N - 1 + 1 = N := by omega
    rw [if_neg (by omega)]; omega

theorem convDims_same (M rd : Nat) (hM : M % 2 = 1) (dims : List Nat) :
    convDims M { rhsDil := rd } dims = some dims := by
  unfold convDims
  simp only
  rw [if_neg (by omega)]
  congr 1
  conv => rhs; rw [← List.map_id dims]
  apply List.map_congr_left
  intro N _
  exact convExtent_same N M rd hM

/-- pooling by 2 followed by the equivariant up-convolution (filter side 2, padding (1,1), stride 1,
lhs dilation 2) restores an even positive extent -/
theorem unet_extent_roundtrip (N : Nat) (hpos : 0 < N) (heven : N % 2 = 0) :
    convExtent (N / 2) 2 1 1 1 2 1 = N := by
  unfold convExtent
  have : N / 2 ≠ 0 := by omega
  simp [this]
  rw [if_neg (by omega)]; omega

/-- the conventional counterpart: `ConvTranspose(kernel 2, stride 2, "VALID")` after the pool -/
theorem unet_extent_roundtrip_conventional (N : Nat) (hpos : 0 < N) (heven : N % 2 = 0) :
    (N / 2 - 1) * 2 + (2 - 1) * 1 + 1 = N := by omega

theorem div_pow_succ (N i : Nat) : N / 2 ^ i / 2 = N / 2 ^ (i + 1) := by
  rw [Nat.div_div_eq_div_mul, Nat.pow_succ]

theorem level_even (N ds i : Nat) (hdiv : 2 ^ ds ∣ N) (hpos : 0 < N) (hi : i < ds) :
    0 < N / 2 ^ i ∧ (N / 2 ^ i) % 2 = 0 := by
  obtain ⟨q, rfl⟩ := hdiv
  have hq : 0 < q := by
    rcases Nat.eq_zero_or_pos q with h | h
    · subst h; simp at hpos
    · exact h
  obtain ⟨j, rfl⟩ : ∃ j, ds = i + (j + 1) := ⟨ds - i - 1, by omega⟩
  have e : 2 ^ (i + (j + 1)) * q = 2 ^ i * (2 * (2 ^ j * q)) := by
    rw [Nat.pow_add, Nat.pow_succ]; simp [Nat.mul_comm, Nat.mul_left_comm]
  rw [e, Nat.mul_div_cancel_left _ (Nat.pow_pos (by omega))]
  have : 0 < 2 ^ j * q := Nat.mul_pos (Nat.pow_pos (by omega)) hq
  omega


/-! ### `append` semantics: concat, flatten, unflatten -/

theorem appendBlock_new (sig : Sig) (b : Ty × Nat) (h : b.1 ∉ keysOf sig) :
    appendBlock sig b = sig ++ [b] := by
  unfold appendBlock
  rw [if_neg]
  intro hh; exact h ((anyKey_iff sig b.1).1 hh)

theorem appendBlock_old (sig : Sig) (b : Ty × Nat) (h : b.1 ∈ keysOf sig) :
    appendBlock sig b = sig.map (fun a => if a.1 == b.1 then (a.1, a.2 + b.2) else a) := by
  unfold appendBlock
  rw [if_pos ((anyKey_iff sig b.1).2 h)]

theorem foldl_appendBlock_nodup (l acc : Sig) (h : KeysNodup (acc ++ l)) :
    l.foldl appendBlock acc = acc ++ l := by
  induction l generalizing acc with
  | nil => simp
  | cons b l ih =>
    have hb : b.1 ∉ keysOf acc := by
      have := h
      simp only [KeysNodup, keysOf, List.map_append, List.map_cons, List.nodup_append] at this
      intro hmem
      exact this.2.2 _ hmem _ (List.mem_cons_self) rfl
    rw [List.foldl_cons, appendBlock_new _ _ hb, ih]
    · simp
    · simpa using h

/-- `from_scalar_multi_image(layout)` returns exactly the layout (distinct keys) -/
theorem fromScalar_layout (layout : Sig) (h : KeysNodup layout) :
    layout.foldl appendBlock [] = layout := by
  simpa using foldl_appendBlock_nodup layout [] (by simpa using h)

theorem foldl_toScalar (D : Nat) (l : Sig) (n : Nat) :
    l.foldl (fun acc b => appendBlock acc ((0, 0), b.2 * D ^ b.1.1)) [((0, 0), n)] =
      [((0, 0), n + scalarSize D l)] := by
  induction l generalizing n with
  | nil => simp [scalarSize]
  | cons b l ih =>
    rw [List.foldl_cons, appendBlock_old _ _ (by simp [keysOf])]
    simp only [List.map_cons, List.map_nil, BEq.rfl, if_true]
    rw [ih]
    simp [scalarSize, Nat.add_assoc]

/-- `to_scalar_multi_image` on signatures: one scalar block with `Σ c·D^k` channels -/
theorem toScalar_sig (x : MI) (h : x.sig ≠ []) :
    (toScalar x).sig = [((0, 0), scalarSize x.D x.sig)] := by
  unfold toScalar
  cases hs : x.sig with
  | nil => exact absurd hs h
  | cons b l =>
    simp only [List.foldl_cons]
    rw [appendBlock_new _ _ (by simp [keysOf])]
    simp only [List.nil_append]
    rw [foldl_toScalar]
    simp [scalarSize]

theorem keysOf_midAt (mid : Sig) (c : Nat) : keysOf (midAt mid c) = keysOf mid := by
  simp [keysOf, midAt, List.map_map, Function.comp_def]

theorem midAt_eq (mid : Sig) (c : Nat) : midAt mid c = (keysOf mid).map (fun t => (t, c)) := by
  simp [keysOf, midAt, List.map_map, Function.comp_def]

theorem keysOf_map_update (a : Sig) (t : Ty) (c' : Nat) :
    keysOf (a.map (fun a => if a.1 == t then (a.1, a.2 + c') else a)) = keysOf a := by
  unfold keysOf
  rw [List.map_map]
  apply List.map_congr_left
  intro x _
  simp only [Function.comp_apply]
  split <;> rfl

theorem foldl_appendBlock_uniform (ks : List Ty) (c' : Nat) (a : Sig) (hn : ks.Nodup)
    (hsub : ∀ t ∈ ks, t ∈ keysOf a) :
    (ks.map (fun t => (t, c'))).foldl appendBlock a =
      a.map (fun b => if b.1 ∈ ks then (b.1, b.2 + c') else b) := by
  induction ks generalizing a with
  | nil => simp
  | cons t ks ih =>
    have hn' := List.nodup_cons.1 hn
    rw [List.map_cons, List.foldl_cons, appendBlock_old _ _ (hsub t (by simp))]
    rw [ih _ hn'.2]
    · rw [List.map_map]
      apply List.map_congr_left
      intro x _
      simp only [Function.comp_apply]
      by_cases hx : x.1 = t
      · have : t ∉ ks := hn'.1
        simp [hx, this]
      · have hx' : (x.1 == t) = false := by simpa using hx
        simp [hx', hx]
    · intro t' ht'
      rw [keysOf_map_update]
      exact hsub t' (by simp [ht'])

/-- the skip concatenation doubles the channels of every type:
`midAt mid c` concatenated with `midAt mid c'` is `midAt mid (c + c')` -/
theorem concatSig_midAt (mid : Sig) (hn : KeysNodup mid) (c c' : Nat) :
    concatSig (midAt mid c) (midAt mid c') = midAt mid (c + c') := by
  unfold concatSig
  rw [midAt_eq mid c', foldl_appendBlock_uniform _ _ _ hn (by intro t ht; rw [keysOf_midAt]; exact ht)]
  unfold midAt
  rw [List.map_map]
  apply List.map_congr_left
  intro b hb
  have : b.1 ∈ keysOf mid := List.mem_map_of_mem hb
  simp [this]

theorem addSig_self (a : Sig) : addSig a a = some a := by
  unfold addSig
  simp

/-! ### positions -/

/-- **flatten then unflatten puts every component back**: the scalar channel that
`to_scalar_multi_image` assigns to component `comp` of channel `ch` of block `key` is read back by
`from_scalar_multi_image(signature)` as exactly `(key, ch, comp)`. -/
theorem fromScalar_toScalar_positions (D : Nat) (sig : Sig) (key : Ty) (ch comp pos : Nat)
    (h : toScalarPos D sig key ch comp = some pos) :
    fromScalarPos D sig pos = some (key, ch, comp) := by
  induction sig generalizing pos with
  | nil => simp [toScalarPos] at h
  | cons b rest ih =>
    obtain ⟨t, c⟩ := b
    unfold toScalarPos at h
    unfold fromScalarPos
    by_cases htk : t = key
    · subst htk
      simp only [if_true] at h
      by_cases hc : ch < c ∧ comp < D ^ t.1
      · rw [if_pos hc] at h
        have hpos : pos = ch * D ^ t.1 + comp := by simpa using h.symm
        have hm : 0 < D ^ t.1 := by omega
        have hlt : pos < c * D ^ t.1 := by
          have h1 : (ch + 1) * D ^ t.1 ≤ c * D ^ t.1 := Nat.mul_le_mul_right _ hc.1
          rw [Nat.add_mul] at h1
          omega
        rw [if_pos hlt, hpos]
        have e1 : (ch * D ^ t.1 + comp) / D ^ t.1 = ch := by
          rw [Nat.add_comm, Nat.add_mul_div_right _ _ hm, Nat.div_eq_of_lt hc.2]; simp
        have e2 : (ch * D ^ t.1 + comp) % D ^ t.1 = comp := by
          rw [Nat.add_comm, Nat.add_mul_mod_self_right, Nat.mod_eq_of_lt hc.2]
        rw [e1, e2]
      · rw [if_neg hc] at h; cases h
    · rw [if_neg htk] at h
      cases hr : toScalarPos D rest key ch comp with
      | none => rw [hr] at h; cases h
      | some p' =>
        rw [hr] at h
        have hpos : pos = p' + c * D ^ t.1 := by simpa using h.symm
        rw [if_neg (by omega)]
        have : pos - c * D ^ t.1 = p' := by omega
        rw [this]
        exact ih p' hr

/-- every declared component has a position, below the total size -/
theorem toScalarPos_lt (D : Nat) (sig : Sig) (key : Ty) (ch comp pos : Nat)
    (h : toScalarPos D sig key ch comp = some pos) : pos < scalarSize D sig := by
  induction sig generalizing pos with
  | nil => simp [toScalarPos] at h
  | cons b rest ih =>
    obtain ⟨t, c⟩ := b
    unfold toScalarPos at h
    have hs : scalarSize D ((t, c) :: rest) = c * D ^ t.1 + scalarSize D rest := by simp [scalarSize]
    by_cases htk : t = key
    · subst htk
      simp only [if_true] at h
      by_cases hc : ch < c ∧ comp < D ^ t.1
      · rw [if_pos hc] at h
        have hpos : pos = ch * D ^ t.1 + comp := by simpa using h.symm
        have h1 : (ch + 1) * D ^ t.1 ≤ c * D ^ t.1 := Nat.mul_le_mul_right _ hc.1
        rw [Nat.add_mul] at h1
        omega
      · rw [if_neg hc] at h; cases h
    · rw [if_neg htk] at h
      cases hr : toScalarPos D rest key ch comp with
      | none => rw [hr] at h; cases h
      | some p' =>
        rw [hr] at h
        have hpos : pos = p' + c * D ^ t.1 := by simpa using h.symm
        have := ih p' hr
        omega

end GinjaxVerif.C20
