import GinjaxVerif.Model.Conv
import GinjaxVerif.Lemmas.Action

/-!
# The code's convolution pipeline computes the direct sum

`convImpl` (tensor expansion by ones, N…C / …IO re-layout with channel index `ravel(T)·c_count + c`,
grouped XLA convolution with `feature_group_count = D^(k+k')`) equals `convSpec`; the fused
`convolve_contract` equals convolution followed by contraction.
-/
namespace GinjaxVerif

variable {R : Type} {d : Nat}

theorem ravelT_lt : ∀ (T : List (Fin d)), ravelT T < d ^ T.length
  | [] => by simp [ravelT]
  | a :: t => by
    have ih := ravelT_lt t
    have ha := a.isLt
    simp only [ravelT, List.length_cons, Nat.pow_succ]
    calc a.val * d ^ t.length + ravelT t < a.val * d ^ t.length + d ^ t.length := by omega
      _ = (a.val + 1) * d ^ t.length := by ring
      _ ≤ d * d ^ t.length := Nat.mul_le_mul_right _ ha
      _ = d ^ t.length * d := by ring

theorem unravelT_ravelT : ∀ (T : List (Fin d)) (k : Nat), T.length = k → unravelT d k (ravelT T) = T
  | [], k, h => by subst h; rfl
  | a :: t, k, h => by
    subst h
    have hd : 0 < d := Nat.lt_of_le_of_lt (Nat.zero_le _) a.isLt
    have hlt := ravelT_lt t
    have hpos : 0 < d ^ t.length := Nat.pow_pos hd
    simp only [List.length_cons, unravelT, hd, dite_true, ravelT]
    have h1 : (a.val * d ^ t.length + ravelT t) / d ^ t.length = a.val := by
      rw [Nat.add_comm, Nat.add_mul_div_right _ _ hpos, Nat.div_eq_of_lt hlt, Nat.zero_add]
    have h2 : (a.val * d ^ t.length + ravelT t) % d ^ t.length = ravelT t := by
      rw [Nat.add_comm, Nat.add_mul_mod_self_right, Nat.mod_eq_of_lt hlt]
    rw [h2, unravelT_ravelT t t.length rfl]
    congr 1
    apply Fin.ext
    simp only [h1]
    exact Nat.mod_eq_of_lt a.isLt

theorem pow_pos_of_list (T : List (Fin d)) (K : Nat) (h : T.length = K) : 0 < d ^ K := by
  cases T with
  | nil => subst h; simp
  | cons a t => exact Nat.pow_pos (Nat.lt_of_le_of_lt (Nat.zero_le _) a.isLt)

/-- channel arithmetic of the N…C / …IO layout -/
theorem chan_div (m c n : Nat) (hc : c < n) : (m * n + c) / n = m := by
  have hn : 0 < n := Nat.lt_of_le_of_lt (Nat.zero_le _) hc
  rw [Nat.add_comm, Nat.add_mul_div_right _ _ hn, Nat.div_eq_of_lt hc, Nat.zero_add]

theorem chan_mod (m c n : Nat) (hc : c < n) : (m * n + c) % n = c := by
  rw [Nat.add_comm, Nat.add_mul_mod_self_right, Nat.mod_eq_of_lt hc]

section
variable [Zero R] [Add R] [Mul R]

omit [Mul R] in
theorem sumFin_congr' (n : Nat) (f g : Fin n → R) (h : ∀ i, f i = g i) : sumFin n f = sumFin n g := by
  have : f = g := funext h
  rw [this]

omit [Mul R] in
theorem sumBox_congr' {d : Nat} (M : Fin d → Nat) (f g : Pix d → R) (h : ∀ a, f a = g a) :
    sumBox M f = sumBox M g := by
  have : f = g := funext h
  rw [this]

/-- **The pipeline of `convolve` computes the direct sum**, for every batch entry, output channel
`o < out_c`, output position and tensor multi-index of length `k + k'`; every option set. -/
theorem convImpl_eq_convSpec (cfg : ConvCfg d) (img flt : Bank R d) (b o : Nat) (x : Pix d)
    (T : List (Fin d)) (hT : T.length = cfg.kI + cfg.kF) (ho : o < cfg.outC) :
    convImpl cfg img flt b o x T = convSpec cfg img flt b o x T := by
  have hG : 0 < d ^ (cfg.kI + cfg.kF) := pow_pos_of_list T _ hT
  have hOG : d ^ (cfg.kI + cfg.kF) * cfg.outC / d ^ (cfg.kI + cfg.kF) = cfg.outC :=
    Nat.mul_div_cancel_left _ hG
  simp only [convImpl, xlaConv, convSpec, hOG]
  rw [chan_div _ _ _ ho, chan_mod _ _ _ ho]
  apply sumFin_congr'
  intro c
  apply sumBox_congr'
  intro a
  rw [chan_div _ _ _ c.isLt, chan_mod _ _ _ c.isLt, unravelT_ravelT T _ hT]

theorem convImplNoExpand_eq (cfg : ConvCfg d) (K : Nat) (img flt : Bank R d) (b o : Nat) (x : Pix d)
    (T : List (Fin d)) (hT : T.length = K) (ho : o < cfg.outC) :
    convImplNoExpand cfg K img flt b o x T =
      sumFin cfg.inC (fun c =>
        sumBox (fun j => (cfg.ax j).M) (fun a =>
          padVal cfg.ax (fun y => img b c.val y T)
              (fun j => x j * ((cfg.ax j).stride : Int) + a j * ((cfg.ax j).rd : Int))
            * flt o c.val a T)) := by
  have hG : 0 < d ^ K := pow_pos_of_list T _ hT
  have hOG : d ^ K * cfg.outC / d ^ K = cfg.outC := Nat.mul_div_cancel_left _ hG
  simp only [convImplNoExpand, xlaConv, hOG]
  rw [chan_div _ _ _ ho, chan_mod _ _ _ ho]
  apply sumFin_congr'
  intro c
  apply sumBox_congr'
  intro a
  rw [chan_div _ _ _ c.isLt, chan_mod _ _ _ c.isLt, unravelT_ravelT T _ hT]

end

theorem sumIdx_congr_len [Zero R] [Add R] (k : Nat) (f f' : List (Fin d) → R)
    (h : ∀ n, n.length = k → f n = f' n) : sumIdx d k f = sumIdx d k f' := by
  induction k generalizing f f' with
  | zero => exact h [] rfl
  | succ k ih =>
    simp only [sumIdx]
    apply sumFin_congr'
    intro a
    apply ih
    intro n hn
    exact h (a :: n) (by simp [hn])

/-- **The fused convolve-and-contract equals convolution followed by Kronecker contraction** of
each image index with the corresponding leading filter index (filter order `kF = kI + k'`). -/
theorem convContractImpl_eq_spec [CommRing R] (cfg : ConvCfg d) (img flt : Bank R d) (b o : Nat)
    (x : Pix d) (t' : List (Fin d)) (hk : cfg.kI ≤ cfg.kF) (ht' : t'.length = cfg.kF - cfg.kI)
    (ho : o < cfg.outC) :
    convContractImpl cfg img flt b o x t' =
      convContractSpec { cfg with kF := cfg.kF } img flt b o x t' := by
  simp only [convContractImpl, convContractSpec]
  apply sumIdx_congr_len
  intro t ht
  rw [convImplNoExpand_eq cfg cfg.kF _ flt b o x (t ++ t') (by simp [ht, ht']; omega) ho]
  simp only [convSpec]
  apply sumFin_congr'
  intro c
  apply sumBox_congr'
  intro a
  have h1 : (t ++ t').take cfg.kI = t := by rw [List.take_left' ht]
  have h2 : (t ++ (t ++ t')).take cfg.kI = t := by rw [List.take_left' ht]
  have h3 : (t ++ (t ++ t')).drop cfg.kI = t ++ t' := by rw [List.drop_left' ht]
  rw [h1, h2, h3]

end GinjaxVerif
