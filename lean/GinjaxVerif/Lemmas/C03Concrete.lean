import GinjaxVerif.Model.C03
import GinjaxVerif.Lemmas.C03Monomial
import Mathlib.GroupTheory.Perm.Sign
import Mathlib.GroupTheory.Perm.Fin
import Mathlib.Algebra.BigOperators.Fin
import Mathlib.Algebra.BigOperators.Pi
import Mathlib.Algebra.BigOperators.Ring.Finset
import Mathlib.Data.Fintype.BigOperators
import Mathlib.Data.Int.Order.Units

/-!
# C03 — the concrete monomial representation on filters

`SP d` is the hyperoctahedral group `B_d` (signed permutation matrices `g[a][b] = s a · [b = σ a]`,
multiplication = matrix product).  It acts on the filter index type `FIdx d M k` of the model by
permuting and flipping pixels and permuting tensor indices; with the sign
`ε(g,(x,t)) = det(g)^p · Π_i s(σ⁻¹ t_i)` this is a sign cocycle, for **every** `d`, `M`, `k`, `p`,
and its "pull" form is exactly the model's `act` (`coef`, `srcIdx`).
-/

namespace GinjaxVerif.C03

open scoped BigOperators

/-- signed permutation, `g[a][b] = s a` if `b = σ a` else `0` -/
@[ext] structure SP (d : ℕ) where
  σ : Equiv.Perm (Fin d)
  s : Fin d → ℤˣ

namespace SP
variable {d : ℕ}

/-- matrix product: `(g h)[a][c] = Σ_b g[a][b] h[b][c] = s_g a · s_h (σ_g a) · [c = σ_h (σ_g a)]` -/
instance : Mul (SP d) := ⟨fun g h => ⟨h.σ * g.σ, fun a => g.s a * h.s (g.σ a)⟩⟩
instance : One (SP d) := ⟨⟨1, fun _ => 1⟩⟩
instance : Inv (SP d) := ⟨fun g => ⟨g.σ⁻¹, fun a => (g.s (g.σ⁻¹ a))⁻¹⟩⟩

@[simp] theorem mul_σ (g h : SP d) : (g * h).σ = h.σ * g.σ := rfl
@[simp] theorem mul_s (g h : SP d) (a : Fin d) : (g * h).s a = g.s a * h.s (g.σ a) := rfl
@[simp] theorem one_σ : (1 : SP d).σ = 1 := rfl
@[simp] theorem one_s (a : Fin d) : (1 : SP d).s a = 1 := rfl
@[simp] theorem inv_σ (g : SP d) : g⁻¹.σ = g.σ⁻¹ := rfl
@[simp] theorem inv_s (g : SP d) (a : Fin d) : g⁻¹.s a = (g.s (g.σ⁻¹ a))⁻¹ := rfl

instance group : Group (SP d) where
  mul_assoc g h k := by
    ext a <;> simp [mul_assoc]
  one_mul g := by ext a <;> simp
  mul_one g := by ext a <;> simp
  inv_mul_cancel g := by ext a <;> simp

/-- the dense matrix entry -/
def entry (g : SP d) (a b : Fin d) : ℤ := if b = g.σ a then (g.s a : ℤ) else 0

/-- matrix multiplication is the group multiplication -/
theorem entry_mul (g h : SP d) (a c : Fin d) :
    (g * h).entry a c = ∑ b, g.entry a b * h.entry b c := by
  unfold entry
  rw [Finset.sum_eq_single (g.σ a)]
  · by_cases hc : c = h.σ (g.σ a) <;> simp [hc]
  · intro b _ hb; simp [hb]
  · intro h; exact absurd (Finset.mem_univ _) h

/-- determinant of the signed permutation matrix -/
def det : SP d →* ℤˣ where
  toFun g := Equiv.Perm.sign g.σ * ∏ a, g.s a
  map_one' := by simp
  map_mul' g h := by
    simp only [mul_σ, mul_s, map_mul, Finset.prod_mul_distrib]
    rw [Equiv.prod_comp g.σ h.s]
    ac_rfl

/-- trace of the signed permutation matrix -/
def trace (g : SP d) : ℤ := ∑ a, g.entry a a

/-- the model-level (core Lean) view of a signed permutation -/
def toCore (g : SP d) : SPerm d := ⟨g.σ, g.σ.symm, fun a => (g.s a : ℤ)⟩

theorem toCore_valid (g : SP d) : g.toCore.Valid := by
  refine ⟨fun a => ?_, fun b => ?_, fun a => ?_⟩
  · simp [toCore]
  · simp [toCore]
  · rcases Int.units_eq_one_or (g.s a) with h | h <;> simp [toCore, h]

theorem toCore_entry (g : SP d) (a b : Fin d) : g.toCore.entry a b = g.entry a b := rfl

end SP

/-! ### finiteness of the index type -/

section Idx
variable {d M k : ℕ}

def FIdx.equivProd : FIdx d M k ≃ (Fin d → Fin M) × (Fin k → Fin d) where
  toFun i := (i.px, i.tn)
  invFun x := ⟨x.1, x.2⟩
  left_inv _ := rfl
  right_inv _ := rfl

instance : DecidableEq (FIdx d M k) := FIdx.equivProd.decidableEq
instance : Fintype (FIdx d M k) := Fintype.ofEquiv _ FIdx.equivProd.symm

@[ext] theorem FIdx.ext' {i j : FIdx d M k} (h1 : i.px = j.px) (h2 : i.tn = j.tn) : i = j := by
  cases i; cases j; simp_all

theorem flipAx_one (y : Fin M) : flipAx 1 y = y := by simp [flipAx]

theorem flipAx_neg_one (y : Fin M) : flipAx (-1) y = y.rev := by simp [flipAx]

theorem flipAx_mul (s t : ℤˣ) (y : Fin M) :
    flipAx ((s * t : ℤˣ) : ℤ) y = flipAx (s : ℤ) (flipAx (t : ℤ) y) := by
  rcases Int.units_eq_one_or s with hs | hs <;> rcases Int.units_eq_one_or t with ht | ht <;>
    simp [hs, ht, flipAx_one, flipAx_neg_one]

/-- `g·e_(x,t) = ± e_(g•(x,t))`: pixels are permuted and flipped, tensor indices go through `σ⁻¹` -/
instance filterMulAction : MulAction (SP d) (FIdx d M k) where
  smul g j := ⟨fun a => flipAx (g.s a : ℤ) (j.px (g.σ a)), fun i => g.σ.symm (j.tn i)⟩
  one_smul j := by
    ext1
    · funext a; exact flipAx_one _
    · rfl
  mul_smul g h j := by
    ext1
    · funext a
      change flipAx (((g.s a * h.s (g.σ a) : ℤˣ)) : ℤ) (j.px ((h.σ * g.σ) a)) = _
      rw [flipAx_mul]; rfl
    · funext i
      change (h.σ * g.σ).symm (j.tn i) = g.σ.symm (h.σ.symm (j.tn i))
      rfl

theorem smul_px (g : SP d) (j : FIdx d M k) (a : Fin d) :
    (g • j).px a = flipAx (g.s a : ℤ) (j.px (g.σ a)) := rfl

theorem smul_tn (g : SP d) (j : FIdx d M k) (i : Fin k) : (g • j).tn i = g.σ.symm (j.tn i) := rfl

/-- the model's source index is the action of the inverse -/
theorem srcIdx_toCore (g : SP d) (j : FIdx d M k) : srcIdx g.toCore j = g⁻¹ • j := by
  ext1
  · funext b
    rw [smul_px]
    simp only [srcIdx, SP.toCore, SP.inv_s, SP.inv_σ, Int.units_inv_eq_self]
    rfl
  · funext i
    rw [smul_tn]
    simp [srcIdx, SP.toCore, Equiv.Perm.inv_def]

end Idx

/-! ### the sign cocycle -/

section Coc
variable {d M k : ℕ}

/-- `ε(g, j) = det(g)^p · Π_i s((g•j).tn i)` as a unit of `ℤ` -/
def epsU (p : ℕ) (g : SP d) (j : FIdx d M k) : ℤˣ := SP.det g ^ p * ∏ i, g.s ((g • j).tn i)

theorem epsU_mul (p : ℕ) (g h : SP d) (j : FIdx d M k) :
    epsU p (g * h) j = epsU p g (h • j) * epsU p h j := by
  unfold epsU
  rw [map_mul, mul_pow, mul_smul]
  have : ∀ i, (g * h).s ((g • h • j).tn i) = g.s ((g • h • j).tn i) * h.s ((h • j).tn i) := by
    intro i
    rw [SP.mul_s]
    congr 2
    rw [smul_tn g]
    simp
  simp only [this, Finset.prod_mul_distrib]
  rw [mul_mul_mul_comm]

variable (K : Type*) [Field K]

/-- the cocycle of the filter representation, for every `d`, `M`, `k`, `p` -/
def filterCocycle (d M k p : ℕ) : Cocycle (SP d) (FIdx d M k) K where
  ε g j := ((epsU p g j : ℤˣ) : ℤ)
  sq g j := by
    rcases Int.units_eq_one_or (epsU p g j) with h | h <;> simp [h]
  mul g h j := by
    rw [epsU_mul]; push_cast; ring

/-- restriction of a cocycle to a subgroup (`G` is any group of signed permutations) -/
def Cocycle.restrict {G ι : Type*} [Group G] [MulAction G ι] (c : Cocycle G ι K)
    (H : Subgroup G) : Cocycle H ι K where
  ε g j := c.ε g j
  sq g j := c.sq g j
  mul g h j := c.mul g h j

end Coc

/-! ### the core model's `det`, `coef`, `act` are the abstract objects -/

section Link
variable {d M k : ℕ}

theorem permSign_toCore (g : SP d) : g.toCore.permSign = ((Equiv.Perm.sign g.σ : ℤˣ) : ℤ) := by
  rw [Equiv.Perm.sign_eq_prod_prod_Iio]
  unfold SPerm.permSign
  simp only [← Fin.prod_univ_def]
  push_cast
  refine Finset.prod_congr rfl fun b _ => ?_
  rw [← Finset.filter_gt_eq_Iio, Finset.prod_filter]
  refine Finset.prod_congr rfl fun a _ => ?_
  by_cases hab : a < b
  · simp only [hab, if_true]
    by_cases h2 : g.σ a < g.σ b <;> simp [SP.toCore, h2]
  · simp [hab]

theorem det_toCore (g : SP d) : g.toCore.det = ((SP.det g : ℤˣ) : ℤ) := by
  unfold SPerm.det
  rw [permSign_toCore, ← Fin.prod_univ_def]
  simp [SP.det, SP.toCore]

theorem trace_toCore (g : SP d) : g.toCore.trace = g.trace := by
  unfold SPerm.trace SP.trace
  rw [← Fin.sum_univ_def]
  rfl

/-- the model's coefficient is the cocycle evaluated at the source index -/
theorem coef_toCore (p : ℕ) (g : SP d) (j : FIdx d M k) :
    coef g.toCore p j = ((epsU p g (g⁻¹ • j) : ℤˣ) : ℤ) := by
  unfold coef epsU
  rw [det_toCore, ← Fin.prod_univ_def, smul_inv_smul]
  simp [SP.toCore]

variable (K : Type*) [Field K]

/-- **the model's action is the monomial representation** -/
theorem act_toCore (p : ℕ) (g : SP d) (A : FIdx d M k → ℤ) (j : FIdx d M k) :
    ((act g.toCore p A j : ℤ) : K)
      = rho (filterCocycle K d M k p) g (fun i => (A i : K)) j := by
  unfold act
  rw [coef_toCore, srcIdx_toCore, rho_apply]
  simp [filterCocycle]

end Link

/-! ### the literal formula of the library collapses to the monomial form -/

section Literal
variable {d M k : ℕ}

/-- the tensor part of the library's einsum, `Σ_t Π_i g[n_i][t_i] · A(x, t)`, has exactly one
non-zero term on a signed permutation matrix -/
theorem einsum_collapse (g : SP d) (A : FIdx d M k → ℤ) (x : Fin d → Fin M) (n : Fin k → Fin d) :
    ∑ t : Fin k → Fin d, (∏ i, g.entry (n i) (t i)) * A ⟨x, t⟩
      = (∏ i, (g.s (n i) : ℤ)) * A ⟨x, fun i => g.σ (n i)⟩ := by
  rw [Finset.sum_eq_single (fun i => g.σ (n i))]
  · simp [SP.entry]
  · intro t _ ht
    have : ∃ i, t i ≠ g.σ (n i) := by
      by_contra h
      push Not at h
      exact ht (funext h)
    obtain ⟨i, hi⟩ := this
    rw [Finset.prod_eq_zero (Finset.mem_univ i)]
    · simp
    · simp [SP.entry, hi]
  · intro h; exact absurd (Finset.mem_univ _) h

/-- the literal action `det(g)^p · Σ_t Π_i g[n_i][t_i] · A(src_g y, t)` (source pixel as in the
model) equals the model's `act`, i.e. the monomial representation -/
theorem literal_eq_act (p : ℕ) (g : SP d) (A : FIdx d M k → ℤ) (j : FIdx d M k) :
    ((SP.det g : ℤˣ) : ℤ) ^ p *
        ∑ t : Fin k → Fin d, (∏ i, g.entry (j.tn i) (t i)) * A ⟨(srcIdx g.toCore j).px, t⟩
      = act g.toCore p A j := by
  rw [einsum_collapse]
  unfold act coef
  rw [det_toCore, ← Fin.prod_univ_def, mul_assoc]
  rfl

end Literal

end GinjaxVerif.C03
