import GinjaxVerif.Model.C07
import GinjaxVerif.Lemmas.LayerEquiv
import GinjaxVerif.Lemmas.C08Basic

/-!
# C07 — basics: the action on multi-images with flags, the relation "is (extensionally) the
transformed multi-image", conversion between the block types of `Model/Layer.lean` and `Model/C08.lean`

`Rel g x' x` says: `x'` has the keys of `x` in the same order, the transported extents and flags, and
every block of `x'` agrees — on its channels, on the pixels of its box and on tensor multi-indices of
the declared order — with the transformed block `g·b` of the declared type `(k, p)`.  Every layer is
shown to map related inputs to related outputs; `Rel g (act g x) x` holds by definition.
-/
namespace GinjaxVerif.C07

open GinjaxVerif GinjaxVerif.C20 GinjaxVerif.Layer

variable {R : Type} {d : Nat}

/-- **`g·x`** on a multi-image with flags: every block with its declared type, extents and `is_torus`
travel with the axes -/
def act [CommRing R] (g : SP d) (x : MI R d) : MI R d :=
  { blocks := actMI g x.blocks, dims := fun i => x.dims (g.σ i), torus := fun i => x.torus (g.σ i) }

/-- the code's own action (`times_group_element`, model `tge`; flags by the rule `transport`) -/
def tgeAct [CommRing R] (M : Mat d) (x : MI R d) : MI R d :=
  { blocks := tgeMI M x.blocks, dims := rotDims M x.dims, torus := GinjaxVerif.transport M x.torus }

/-- `b'` is (extensionally) `g·b`, both of declared type `t` -/
def BRel [Mul R] [IntCast R] (g : SP d) (t : Ty) (b' b : Block R d) : Prop :=
  (toBlk t b').Equiv (pfBlk g ((det g.mat) ^ t.2) (toBlk t b))

def MRel [Mul R] [IntCast R] (g : SP d) (x' x : MImg R d) : Prop :=
  List.Forall₂ (fun e' e => e'.1 = e.1 ∧ BRel g e.1 e'.2 e.2) x' x

structure Rel [Mul R] [IntCast R] (g : SP d) (x' x : MI R d) : Prop where
  dims : x'.dims = fun i => x.dims (g.σ i)
  torus : x'.torus = fun i => x.torus (g.σ i)
  blocks : MRel g x'.blocks x.blocks

/-- all blocks have the extents recorded in `dims` -/
def MI.Consistent (x : MI R d) : Prop := ∀ e ∈ x.blocks, e.2.dims = x.dims

theorem toBlk_actBlock [CommRing R] (g : SP d) (t : Ty) (b : Block R d) :
    toBlk t (actBlock g t b) = pfBlk g ((det g.mat) ^ t.2) (toBlk t b) := rfl

theorem mrel_actMI [CommRing R] (g : SP d) (x : MImg R d) : MRel g (actMI g x) x := by
  unfold MRel actMI
  induction x with
  | nil => exact List.Forall₂.nil
  | cons e x ih =>
    exact List.Forall₂.cons ⟨rfl, by unfold BRel; rw [toBlk_actBlock]; exact Blk.Equiv.refl _⟩ ih

/-- **the transformed input is related to the input** -/
theorem rel_act [CommRing R] (g : SP d) (x : MI R d) : Rel g (act g x) x :=
  ⟨rfl, rfl, mrel_actMI g x.blocks⟩

theorem mrel_tgeMI [CommRing R] (g : SP d) (x : MImg R d) : MRel g (tgeMI g.mat x) x := by
  unfold MRel tgeMI
  induction x with
  | nil => exact List.Forall₂.nil
  | cons e x ih =>
    refine List.Forall₂.cons ⟨rfl, ?_⟩ ih
    exact tgeBlk_equiv_pfBlk g e.1.2 (toBlk e.1 e.2)

/-- the code's action on the input is related to the input as well -/
theorem rel_tgeAct [CommRing R] (g : SP d) (x : MI R d) : Rel g (tgeAct g.mat x) x :=
  ⟨rotDims_mat' g x.dims, transport_mat' g x.torus, mrel_tgeMI g x.blocks⟩

/-! ### consequences of the relation -/

section
variable [Mul R] [IntCast R]

theorem MRel.sigOf {g : SP d} {x' x : MImg R d} (h : MRel g x' x) : sigOf x' = sigOf x := by
  unfold MRel at h
  induction h with
  | nil => rfl
  | cons hab _ ih =>
    obtain ⟨hk, hC, _⟩ := hab
    simp only [Layer.sigOf, List.map_cons] at ih ⊢
    rw [ih]
    congr 1
    exact Prod.ext hk hC

theorem MRel.lookup {g : SP d} {x' x : MImg R d} (h : MRel g x' x) (t : Ty) :
    (Layer.lookup x' t = none ∧ Layer.lookup x t = none) ∨
      ∃ b' b, Layer.lookup x' t = some b' ∧ Layer.lookup x t = some b ∧ BRel g t b' b := by
  unfold MRel at h
  induction h with
  | nil => exact Or.inl ⟨rfl, rfl⟩
  | @cons e' e r' r hab _ ih =>
    obtain ⟨k', v'⟩ := e'
    obtain ⟨k, v⟩ := e
    obtain ⟨hk, hb⟩ := hab
    simp only at hk hb
    subst hk
    by_cases hkt : k' = t
    · subst hkt
      exact Or.inr ⟨v', v, by simp [Layer.lookup], by simp [Layer.lookup], hb⟩
    · simpa [Layer.lookup, hkt] using ih

theorem MRel.consistent {g : SP d} {x' x : MI R d} (h : Rel g x' x) (hx : x.Consistent) :
    x'.Consistent := by
  obtain ⟨hd, _, hb⟩ := h
  unfold MI.Consistent at hx ⊢
  unfold MRel at hb
  generalize x'.blocks = l' at hb
  generalize hl : x.blocks = l at hb hx
  clear hl
  induction hb with
  | nil => intro e he; cases he
  | @cons e' e r' r hab _ ih =>
    intro a ha
    rcases List.mem_cons.1 ha with rfl | ha
    · obtain ⟨_, _, hdm, _⟩ := hab
      have h1 : a.2.dims = fun i => e.2.dims (g.σ i) := hdm
      rw [h1, hx e (by simp), hd]
    · exact ih (fun e he => hx e (List.mem_cons_of_mem _ he)) a ha

/-- blockwise maps preserve the relation -/
theorem MRel.map {g : SP d} {x' x : MImg R d} (h : MRel g x' x) (f : Ty → Block R d → Block R d)
    (hf : ∀ t b' b, (t, b) ∈ x → BRel g t b' b → BRel g t (f t b') (f t b)) :
    MRel g (x'.map (fun e => (e.1, f e.1 e.2))) (x.map (fun e => (e.1, f e.1 e.2))) := by
  unfold MRel at h ⊢
  induction h with
  | nil => exact List.Forall₂.nil
  | @cons e' e r' r hab _ ih =>
    obtain ⟨hk, hb⟩ := hab
    refine List.Forall₂.cons ⟨hk, ?_⟩ (ih (fun t b' b hm => hf t b' b (List.mem_cons_of_mem _ hm)))
    simp only
    rw [hk]
    exact hf e.1 e'.2 e.2 (by simp) hb

end

/-! ### conversions between the two block types -/

theorem toBlk_ofBlk (t : Ty) (B : Blk R d) (hk : B.k = t.1) : toBlk t (ofBlk B) = B := by
  cases B; simp only [toBlk, ofBlk] at hk ⊢; subst hk; rfl

theorem ofBlk_toBlk (t : Ty) (b : Block R d) : ofBlk (toBlk t b) = b := rfl

end GinjaxVerif.C07
