import GinjaxVerif.Lemmas.C16

/-!
# C16 — helper lemmas for the rollout loop (`concat(axis=1)`, `combine_axes`, loop invariant)
-/
namespace GinjaxVerif.C16

set_option linter.unusedSectionVars false
set_option linter.unusedSimpArgs false
set_option linter.unusedVariables false

variable {κ : Type} [DecidableEq κ] {α β γ σ : Type}

/-! ### small list facts -/

theorem chunks_one (l : List α) : chunks 1 l = l.map fun a => [a] := by
  apply List.ext_getElem?
  intro i
  unfold chunks
  simp only [List.getElem?_map, Nat.div_one]
  by_cases hi : i < l.length
  · rw [List.getElem?_range hi, List.getElem?_eq_getElem hi]
    simp only [Option.map_some, Option.some.injEq]
    rw [drop_take_one, List.getElem?_eq_getElem hi]
    rfl
  · rw [List.getElem?_eq_none (by simpa using hi), List.getElem?_eq_none (by simpa using hi)]
    rfl

theorem range_map_toList (b : List α) :
    ((List.range b.length).map fun i => (b[i]?).toList) = b.map fun a => [a] := by
  apply List.ext_getElem?
  intro i
  simp only [List.getElem?_map]
  by_cases hi : i < b.length
  · rw [List.getElem?_range hi, List.getElem?_eq_getElem hi]
    simp [List.getElem?_eq_getElem hi]
  · rw [List.getElem?_eq_none (by simpa using hi), List.getElem?_eq_none (by simpa using hi)]
    rfl

theorem filterMap_singleton (φ : Nat → Option α) (t : Nat) : [t].filterMap φ = (φ t).toList := by
  cases h : φ t <;> simp [h]

/-! ### `append(axis=1)` and `concat(axis=1)` -/

theorem appendAxis1_fresh {k : κ} {b : List (List α)} {out : MI2 κ α} (h : k ∉ keys out) :
    appendAxis1 k b out = some (out ++ [(k, b)]) := by
  induction out with
  | nil => rfl
  | cons kr out ih =>
    obtain ⟨k', r⟩ := kr
    simp only [keys_cons, List.mem_cons, not_or] at h
    simp only [appendAxis1, if_neg (fun e : k' = k => h.1 e.symm), ih h.2, List.cons_append]

theorem concatAxis1_fresh :
    ∀ (E out : MI2 κ α), (keys E).Nodup → (∀ k ∈ keys E, k ∉ keys out) →
      concatAxis1 out E = some (out ++ E) := by
  intro E
  induction E with
  | nil => intro out _ _; simp [concatAxis1]
  | cons kb E ih =>
    intro out hn hd
    obtain ⟨k, b⟩ := kb
    simp only [keys_cons, List.nodup_cons] at hn
    simp only [concatAxis1, appendAxis1_fresh (hd k (by simp))]
    rw [ih _ hn.2]
    · simp
    · intro k' hk'
      simp only [keys_append, keys_cons, keys_nil, List.mem_append, List.mem_singleton, not_or]
      exact ⟨hd k' (by simp [hk']), fun e => hn.1 (e ▸ hk')⟩

/-- update of one entry -/
def updRow (k : κ) (b : List (List α)) (kr : κ × List (List α)) : κ × List (List α) :=
  if kr.1 = k then (kr.1, List.zipWith (· ++ ·) kr.2 b) else kr

theorem appendAxis1_present {k : κ} {b : List (List α)} :
    ∀ {out : MI2 κ α} {rows : List (List α)}, (keys out).Nodup → out.lookup k = some rows →
      rows.length = b.length → appendAxis1 k b out = some (out.map (updRow k b)) := by
  intro out
  induction out with
  | nil => intro rows _ h _; cases h
  | cons kr out ih =>
    intro rows hn hl hlen
    obtain ⟨k', r⟩ := kr
    simp only [keys_cons, List.nodup_cons] at hn
    rw [lookup_cons_ite] at hl
    by_cases e : k' = k
    · rw [if_pos e] at hl
      cases hl
      subst e
      simp only [appendAxis1, if_true, hlen, List.map_cons, updRow]
      congr 2
      -- the rest is untouched: k does not occur in it
      symm
      calc out.map (updRow k' b) = out.map id := by
            apply List.map_congr_left
            intro kr hkr
            have : kr.1 ≠ k' := fun e => hn.1 (e ▸ List.mem_map.2 ⟨kr, hkr, rfl⟩)
            simp [updRow, this]
        _ = out := by simp
    · rw [if_neg e] at hl
      simp only [appendAxis1, if_neg e, ih hn.2 hl hlen, List.map_cons, updRow]

theorem keys_map_updRow (k : κ) (b : List (List α)) (out : MI2 κ α) :
    keys (out.map (updRow k b)) = keys out := by
  simp only [keys, List.map_map]
  apply List.map_congr_left
  intro kr _
  simp only [Function.comp_apply, updRow]
  split <;> rfl

theorem lookup_map_updRow_ne {k k' : κ} (b : List (List α)) (out : MI2 κ α) (h : k ≠ k') :
    List.lookup k' (out.map (updRow k b)) = List.lookup k' out := by
  induction out with
  | nil => rfl
  | cons kr out ih =>
    obtain ⟨k2, r⟩ := kr
    simp only [List.map_cons, updRow]
    by_cases e : k2 = k
    · subst e
      simp only [if_true, lookup_cons_ite, if_neg h]
      exact ih
    · simp only [if_neg e, lookup_cons_ite]
      rw [ih]

/-- what one entry looks like after `concat(axis=1)` with `E` -/
def mergeRow (E : MI2 κ α) (kr : κ × List (List α)) : κ × List (List α) :=
  (kr.1, match E.lookup kr.1 with
    | some b => List.zipWith (· ++ ·) kr.2 b
    | none => kr.2)

theorem concatAxis1_present :
    ∀ (E out : MI2 κ α), (keys E).Nodup → (keys out).Nodup →
      (∀ kb ∈ E, ∃ rows, out.lookup kb.1 = some rows ∧ rows.length = kb.2.length) →
      concatAxis1 out E = some (out.map (mergeRow E)) := by
  intro E
  induction E with
  | nil =>
    intro out _ _ _
    have : mergeRow ([] : MI2 κ α) = id := funext fun kr => by simp [mergeRow]
    simp [concatAxis1, this]
  | cons kb E ih =>
    intro out hn hno hp
    obtain ⟨k, b⟩ := kb
    simp only [keys_cons, List.nodup_cons] at hn
    obtain ⟨rows, hl, hlen⟩ := hp (k, b) List.mem_cons_self
    simp only [concatAxis1, appendAxis1_present hno hl hlen]
    rw [ih _ hn.2 (by rw [keys_map_updRow]; exact hno)]
    · rw [List.map_map]
      congr 1
      apply List.map_congr_left
      intro kr hkr
      simp only [Function.comp_apply, mergeRow, updRow]
      by_cases e : kr.1 = k
      · rw [if_pos e]
        simp only [lookup_cons_ite]
        rw [if_pos e.symm, e, lookup_eq_none_of_not_mem hn.1]
      · rw [if_neg e]
        simp only [lookup_cons_ite]
        rw [if_neg (fun e' : k = kr.1 => e e'.symm)]
    · intro kb' hkb'
      have hne : k ≠ kb'.1 := fun e => hn.1 (e ▸ List.mem_map.2 ⟨kb', hkb', rfl⟩)
      rw [lookup_map_updRow_ne _ _ hne]
      exact hp kb' (List.mem_cons_of_mem _ hkb')

/-! ### the accumulated rows -/

/-- the prediction is a dict with the output signature `osig` (in any key order) -/
def PredOK (osig : κ → Option Nat) (p : MI κ α) : Prop :=
  (keys p).Nodup ∧ ∀ k, (p.lookup k).map List.length = osig k

/-- the output signature provides one frame per dynamic channel of every input type that has a
dynamic part -/
def SigFits (past : Nat) (consts : List (κ × Nat)) (sx : List (κ × Nat)) (osig : κ → Option Nat) :
    Prop :=
  ∀ kl ∈ sx, (constSize consts kl.1 = 0 ∨ constSize consts kl.1 < kl.2) →
    osig kl.1 = some ((kl.2 - constSize consts kl.1) / past)

theorem predFits_of {past : Nat} {consts : List (κ × Nat)} {osig : κ → Option Nat}
    {y p : MI κ α} (hp : PredOK osig p) (hpos : ∀ k c, osig k = some c → 0 < c)
    (hfit : SigFits past consts (sig y) osig) : PredFits past consts y p := by
  refine ⟨hp.1, ?_, ?_⟩
  · intro kb hkb
    have h1 := lookup_of_mem hp.1 (show (kb.1, kb.2) ∈ p from hkb)
    have h2 := hp.2 kb.1
    rw [h1] at h2
    exact hpos _ _ h2.symm
  · intro kb hkb hd
    have h1 := hfit (kb.1, kb.2.length) (List.mem_map.2 ⟨kb, hkb, rfl⟩) hd
    have h2 := hp.2 kb.1
    rw [h1] at h2
    cases hl : List.lookup kb.1 p with
    | none => rw [hl] at h2; cases h2
    | some b =>
      rw [hl] at h2
      simp only [Option.map_some, Option.some.injEq] at h2
      exact ⟨b, rfl, h2⟩

/-- `out_x` after `t` steps -/
def rowsAt (preds : Nat → MI κ α) : Nat → MI2 κ α
  | 0 => []
  | t + 1 => (preds 0).map fun kb => (kb.1, specRows preds (t + 1) kb.1 kb.2.length)

theorem specRows_succ (preds : Nat → MI κ α) (t : Nat) (k : κ) {bt : List α}
    (hl : (preds t).lookup k = some bt) :
    specRows preds (t + 1) k bt.length
      = List.zipWith (· ++ ·) (specRows preds t k bt.length) (bt.map fun a => [a]) := by
  unfold specRows
  rw [← range_map_toList bt, List.zipWith_map, List.zipWith_self]
  apply List.map_congr_left
  intro i _
  rw [List.range_succ, List.filterMap_append, filterMap_singleton, hl]
  rfl

theorem specRows_zero (preds : Nat → MI κ α) (k : κ) (c : Nat) :
    specRows preds 0 k c = (List.range c).map fun _ => [] := by
  simp [specRows]

theorem specRows_one (preds : Nat → MI κ α) (k : κ) {b0 : List α}
    (hl : (preds 0).lookup k = some b0) :
    specRows preds 1 k b0.length = b0.map fun a => [a] := by
  rw [specRows_succ preds 0 k hl, specRows_zero, ← range_map_toList b0, List.zipWith_map,
    List.zipWith_self]
  simp

theorem concat_rowsAt {osig : κ → Option Nat} (preds : Nat → MI κ α) (t : Nat)
    (h0 : PredOK osig (preds 0)) (ht : PredOK osig (preds t)) :
    concatAxis1 (rowsAt preds t) ((preds t).map fun kb => (kb.1, chunks 1 kb.2))
      = some (rowsAt preds (t + 1)) := by
  cases t with
  | zero =>
    rw [rowsAt, concatAxis1_fresh _ _ (by rw [keys_map_snd (fun kb => chunks 1 kb.2)]; exact h0.1)
      (by simp)]
    simp only [List.nil_append, rowsAt]
    congr 1
    apply List.map_congr_left
    intro kb hkb
    rw [specRows_one preds kb.1 (lookup_of_mem h0.1 (show (kb.1, kb.2) ∈ preds 0 from hkb)),
      chunks_one]
  | succ t =>
    have hk0 : keys (rowsAt preds (t + 1)) = keys (preds 0) := by
      simp only [rowsAt]
      exact keys_map_snd (fun (kb : κ × List α) => specRows preds (t + 1) kb.1 kb.2.length) _
    rw [concatAxis1_present _ _ (by rw [keys_map_snd (fun kb => chunks 1 kb.2)]; exact ht.1)
      (by rw [hk0]; exact h0.1)]
    · simp only [rowsAt, List.map_map]
      congr 1
      apply List.map_congr_left
      intro kb hkb
      have hl0 := lookup_of_mem h0.1 (show (kb.1, kb.2) ∈ preds 0 from hkb)
      have e0 := h0.2 kb.1
      rw [hl0] at e0
      have et := ht.2 kb.1
      rw [← e0] at et
      cases hlt : List.lookup kb.1 (preds (t + 1)) with
      | none => rw [hlt] at et; cases et
      | some bt =>
        rw [hlt] at et
        simp only [Option.map_some, Option.some.injEq] at et
        simp only [Function.comp_apply, mergeRow]
        rw [lookup_map_snd (fun _ b => chunks 1 b), hlt]
        simp only [Option.map_some]
        rw [← et, specRows_succ preds (t + 1) kb.1 hlt, chunks_one]
    · intro kb hkb
      obtain ⟨kb', hkb', rfl⟩ := List.mem_map.1 hkb
      simp only
      have hlt := lookup_of_mem ht.1 (show (kb'.1, kb'.2) ∈ preds (t + 1) from hkb')
      have et := ht.2 kb'.1
      rw [hlt] at et
      have e0 := h0.2 kb'.1
      rw [← et] at e0
      cases hl0 : List.lookup kb'.1 (preds 0) with
      | none => rw [hl0] at e0; cases e0
      | some b0 =>
        rw [hl0] at e0
        simp only [Option.map_some, Option.some.injEq] at e0
        refine ⟨specRows preds (t + 1) kb'.1 b0.length, ?_, ?_⟩
        · simp only [rowsAt]
          rw [lookup_map_snd (fun (k : κ) (b : List α) => specRows preds (t + 1) k b.length), hl0]
          rfl
        · simp [specRows, chunks, e0]

theorem combine_rowsAt (preds : Nat → MI κ α) (n : Nat) (h0 : 0 < n → (keys (preds 0)).Nodup) :
    combineAxes01 (rowsAt preds n) = some (specRollout preds n) := by
  cases n with
  | zero => simp [combineAxes01, rowsAt, appendEach, specRollout]
  | succ n =>
    unfold combineAxes01
    rw [appendEach_eq (fun rows => some (flattenRows rows)) flattenRows _ []
      (by
        simp only [rowsAt]
        rw [keys_map_snd (fun (kb : κ × List α) => specRows preds (n + 1) kb.1 kb.2.length)]
        exact h0 (by omega))
      (by simp) (by intro _ _; rfl)]
    simp [rowsAt, specRollout, flattenRows, Function.comp_def]

end GinjaxVerif.C16
