import GinjaxVerif.Lemmas.C15

/-!
# C15 — naturality of the windowing data path in the frames (helper lemmas)

A *framewise map* `φ : κ → α → β` transforms every frame of a multi image separately, by a
function that may depend on the key (tensor type) of the block it sits in.  `mapK ψ` is the keyed
map of an association list; `mapMI φ`, `mapMI2 φ`, `mapMI3 φ` are its instances on blocks with one,
two and three leading axes.

Every helper of `Model/C15.lean` commutes with the map on **all** inputs (rejections depend on
keys, lengths and indices only).
-/
namespace GinjaxVerif.C15

set_option linter.unusedSectionVars false
set_option linter.unusedSimpArgs false
set_option linter.unusedVariables false

variable {α β γ δ κ : Type}

/-- keyed map of an association list: the value of key `k` goes through `ψ k` -/
def mapK (ψ : κ → β → γ) (m : MI κ β) : MI κ γ := m.map fun kb => (kb.1, ψ kb.1 kb.2)

/-- a framewise map on a multi image with one leading axis (channel·time) -/
def mapMI (φ : κ → α → β) (m : MI κ (List α)) : MI κ (List β) :=
  m.map fun kb => (kb.1, kb.2.map (φ kb.1))

/-- a framewise map on a multi image with two leading axes (sample, channel·step) -/
def mapMI2 (φ : κ → α → β) (m : MI κ (List (List α))) : MI κ (List (List β)) :=
  m.map fun kb => (kb.1, kb.2.map (List.map (φ kb.1)))

/-- a framewise map on a multi image with three leading axes -/
def mapMI3 (φ : κ → α → β) (m : MI κ (List (List (List α)))) : MI κ (List (List (List β))) :=
  m.map fun kb => (kb.1, kb.2.map (List.map (List.map (φ kb.1))))

theorem mapMI_eq_mapK (φ : κ → α → β) (m : MI κ (List α)) :
    mapMI φ m = mapK (fun k => List.map (φ k)) m := rfl

theorem mapMI2_eq_mapK (φ : κ → α → β) (m : MI κ (List (List α))) :
    mapMI2 φ m = mapK (fun k => List.map (List.map (φ k))) m := rfl

theorem mapMI3_eq_mapK (φ : κ → α → β) (m : MI κ (List (List (List α)))) :
    mapMI3 φ m = mapK (fun k => List.map (List.map (List.map (φ k)))) m := rfl

@[simp] theorem mapK_nil (ψ : κ → β → γ) : mapK ψ ([] : MI κ β) = [] := rfl

@[simp] theorem mapK_cons (ψ : κ → β → γ) (k : κ) (b : β) (m : MI κ β) :
    mapK ψ ((k, b) :: m) = (k, ψ k b) :: mapK ψ m := rfl

theorem mapK_append (ψ : κ → β → γ) (m m' : MI κ β) :
    mapK ψ (m ++ m') = mapK ψ m ++ mapK ψ m' := by
  simp [mapK]

theorem mapMI_id (m : MI κ (List α)) : mapMI (fun _ a => a) m = m := by
  simp [mapMI]

theorem mapMI_comp (φ : κ → α → β) (χ : κ → β → γ) (m : MI κ (List α)) :
    mapMI χ (mapMI φ m) = mapMI (fun k a => χ k (φ k a)) m := by
  simp [mapMI, List.map_map, Function.comp_def]

theorem lookup_mapK [DecidableEq κ] (ψ : κ → β → γ) (m : MI κ β) (k : κ) :
    lookup k (mapK ψ m) = (lookup k m).map (ψ k) := by
  induction m with
  | nil => rfl
  | cons kb r ih =>
    obtain ⟨k', b⟩ := kb
    rw [mapK_cons]
    simp only [lookup]
    by_cases h : k' = k
    · subst h; simp
    · simp [h, ih]

/-! ### little numpy -/

theorem allSome_map (g : β → γ) (l : List (Option β)) :
    allSome (l.map (Option.map g)) = (allSome l).map (List.map g) := by
  induction l with
  | nil => rfl
  | cons a r ih =>
    cases a with
    | none => rfl
    | some a =>
      simp only [List.map_cons, Option.map_some, allSome, ih]
      cases allSome r <;> rfl

theorem chunk_map (g : α → β) (T : Nat) (l : List α) :
    chunk T (l.map g) = (chunk T l).map (List.map g) := by
  simp only [chunk, List.length_map, List.map_map]
  apply List.map_congr_left
  intro i _
  simp [Function.comp_def, List.map_take, List.map_drop]

theorem expandAxis0_map (g : α → β) (T : Nat) (l : List α) :
    expandAxis0 T (l.map g) = (expandAxis0 T l).map (List.map (List.map g)) := by
  unfold expandAxis0
  simp only [List.length_map]
  split
  · rfl
  · simp [chunk_map]

theorem gather_map (g : α → β) (l : List α) (idxs : List Nat) :
    gather (l.map g) idxs = (gather l idxs).map (List.map g) := by
  unfold gather
  rw [← allSome_map, List.map_map]
  congr 1
  apply List.map_congr_left
  intro i _
  simp

theorem gather2_map (g : α → β) (l : List α) (idxs : List (List Nat)) :
    gather2 (l.map g) idxs = (gather2 l idxs).map (List.map (List.map g)) := by
  unfold gather2
  rw [← allSome_map, List.map_map]
  congr 1
  apply List.map_congr_left
  intro i _
  simp [gather_map]

theorem moveaxis10_natural (g : β → γ) (n : Nat) (ll : List (List β)) :
    moveaxis10 n (ll.map (List.map g)) = (moveaxis10 n ll).map (List.map g) := by
  simp only [moveaxis10, List.map_map]
  apply List.map_congr_left
  intro w _
  simp only [Function.comp_def, List.filterMap_map, List.map_filterMap]
  congr 1
  funext r
  simp

theorem windowsBlock_map (g : α → β) (steps s : Nat) (idxs : List (List Nat))
    (img : List (List α)) :
    windowsBlock steps s idxs (img.map (List.map g))
      = (windowsBlock steps s idxs img).map (List.map (List.map (List.map g))) := by
  unfold windowsBlock
  have e : ((img.map (List.map g)).map (List.drop s)).map (fun ch => gather2 ch idxs)
      = ((img.map (List.drop s)).map (fun ch => gather2 ch idxs)).map
          (Option.map (List.map (List.map g))) := by
    simp only [List.map_map]
    apply List.map_congr_left
    intro ch _
    simp [Function.comp_def, ← List.map_drop, gather2_map]
  simp only [e, allSome_map, List.length_map]
  cases allSome ((img.map (List.drop s)).map (fun ch => gather2 ch idxs)) with
  | none => rfl
  | some G =>
    simp only [Option.map_some]
    split
    · rfl
    · simp only [Option.map_some, Option.some.injEq]
      exact moveaxis10_natural (List.map g) idxs.length G

/-! ### keyed loops -/

/-- the shape of `expandMI`, `windowsMI` and `sliceTraj`: an all-or-nothing map over the items that
keeps the key -/
theorem allSome_keyed {β' γ' : Type} (g : β → Option γ) (g' : β' → Option γ') (ψ : κ → β → β')
    (χ : κ → γ → γ') (hg : ∀ k b, g' (ψ k b) = (g b).map (χ k)) (m : MI κ β) :
    allSome ((mapK ψ m).map (fun kb => (g' kb.2).map (fun e => (kb.1, e))))
      = (allSome (m.map (fun kb => (g kb.2).map (fun e => (kb.1, e))))).map (mapK χ) := by
  induction m with
  | nil => rfl
  | cons kb r ih =>
    obtain ⟨k, b⟩ := kb
    rw [mapK_cons]
    simp only [List.map_cons, hg]
    cases g b with
    | none => rfl
    | some e =>
      simp only [Option.map_some, allSome, ih]
      cases allSome (r.map (fun kb => (g kb.2).map (fun e => (kb.1, e)))) <;> rfl

theorem expandMI_mapMI (φ : κ → α → β) (T : Nat) (dyn : MI κ (List α)) :
    expandMI T (mapMI φ dyn) = (expandMI T dyn).map (mapMI2 φ) :=
  allSome_keyed (expandAxis0 T) (expandAxis0 T) (fun k => List.map (φ k))
    (fun k => List.map (List.map (φ k))) (fun k b => expandAxis0_map (φ k) T b) dyn

theorem windowsMI_mapMI2 (φ : κ → α → β) (steps s : Nat) (idxs : List (List Nat))
    (ex : MI κ (List (List α))) :
    windowsMI steps s idxs (mapMI2 φ ex) = (windowsMI steps s idxs ex).map (mapMI3 φ) :=
  allSome_keyed (windowsBlock steps s idxs) (windowsBlock steps s idxs)
    (fun k => List.map (List.map (φ k))) (fun k => List.map (List.map (List.map (φ k))))
    (fun k b => windowsBlock_map (φ k) steps s idxs b) ex

/-- `vmap`'s slicing of trajectory `b`, for any per-key map `θ` of the slices -/
theorem sliceTraj_mapK (θ : κ → β → γ) (b : Nat) (m : MI κ (List β)) :
    sliceTraj b (mapK (fun k => List.map (θ k)) m) = (sliceTraj b m).map (mapK θ) :=
  allSome_keyed (fun l : List β => l[b]?) (fun l : List γ => l[b]?) (fun k => List.map (θ k)) θ
    (fun k l => by simp) m

theorem sliceTraj_mapMI2 (φ : κ → α → β) (b : Nat) (m : MI κ (List (List α))) :
    sliceTraj b (mapMI2 φ m) = (sliceTraj b m).map (mapMI φ) :=
  sliceTraj_mapK (fun k => List.map (φ k)) b m

theorem combine12_mapMI3 (φ : κ → α → β) (m : MI κ (List (List (List α)))) :
    combine12 (mapMI3 φ m) = mapMI2 φ (combine12 m) := by
  simp only [combine12, mapVals, mapMI3, mapMI2, List.map_map]
  apply List.map_congr_left
  intro kb _
  simp [Function.comp_def, List.map_flatten]

theorem getL_mapMI2 (φ : κ → α → β) (m : MI κ (List (List α))) : getL (mapMI2 φ m) = getL m := by
  cases m with
  | nil => rfl
  | cons kb r => simp [mapMI2, getL]

/-! ### `append`, the constants, the pooling -/

theorem appendKey_mapK [DecidableEq κ] (ψ : κ → β → γ) (cat : β → β → β) (cat' : γ → γ → γ)
    (hcat : ∀ k a b, ψ k (cat a b) = cat' (ψ k a) (ψ k b)) (m : MI κ β) (k : κ) (b : β) :
    appendKey cat' (mapK ψ m) k (ψ k b) = mapK ψ (appendKey cat m k b) := by
  induction m with
  | nil => rfl
  | cons kb r ih =>
    obtain ⟨k₀, b₀⟩ := kb
    by_cases h0 : k₀ = k
    · subst h0
      simp [appendKey, hcat]
    · simp [appendKey, h0, ih]

theorem zipWith_append_map (g : α → β) (a b : List (List α)) :
    List.zipWith (· ++ ·) (a.map (List.map g)) (b.map (List.map g))
      = (List.zipWith (· ++ ·) a b).map (List.map g) := by
  rw [List.map_zipWith, List.zipWith_map]
  congr 1
  funext w p
  simp

theorem appendConsts_mapMI [DecidableEq κ] (φ : κ → α → β) (n : Nat) (const : MI κ (List α))
    (x : MI κ (List (List α))) :
    appendConsts n (mapMI φ const) (mapMI2 φ x) = mapMI2 φ (appendConsts n const x) := by
  unfold appendConsts
  induction const generalizing x with
  | nil => rfl
  | cons kc r ih =>
    obtain ⟨k, c⟩ := kc
    have e : mapMI φ ((k, c) :: r) = (k, c.map (φ k)) :: mapMI φ r := rfl
    rw [e]
    simp only [List.foldl_cons]
    have h := appendKey_mapK (κ := κ) (fun k => List.map (List.map (φ k)))
      (List.zipWith (· ++ ·)) (List.zipWith (· ++ ·))
      (fun k a b => (zipWith_append_map (φ k) a b).symm) x k (List.replicate n c)
    simp only [List.map_replicate] at h
    rw [← mapMI2_eq_mapK, ← mapMI2_eq_mapK] at h
    rw [h]
    exact ih _

theorem poolMI_mapMI2 (φ : κ → α → β) (pool : α → α) (pool' : β → β)
    (h : ∀ k a, φ k (pool a) = pool' (φ k a)) (m : MI κ (List (List α))) :
    poolMI pool' (mapMI2 φ m) = mapMI2 φ (poolMI pool m) := by
  simp only [poolMI, mapVals, mapMI2, List.map_map]
  apply List.map_congr_left
  intro kb _
  simp [Function.comp_def, h]

theorem iter_poolMI_mapMI2 (φ : κ → α → β) (pool : α → α) (pool' : β → β)
    (h : ∀ k a, φ k (pool a) = pool' (φ k a)) (ds : Nat) (m : MI κ (List (List α))) :
    iter (poolMI pool') ds (mapMI2 φ m) = mapMI2 φ (iter (poolMI pool) ds m) := by
  induction ds generalizing m with
  | zero => rfl
  | succ n ih =>
    simp only [iter]
    rw [poolMI_mapMI2 φ pool pool' h, ih]

/-! ### `vmap`'s stacking -/

theorem filterMap_lookup_map [DecidableEq κ] (ψ : κ → β → γ) (L : List (MI κ β)) (k : κ) :
    (L.map (mapK ψ)).filterMap (lookup k) = (L.filterMap (lookup k)).map (ψ k) := by
  induction L with
  | nil => rfl
  | cons r t ih =>
    simp only [List.map_cons, List.filterMap_cons, lookup_mapK]
    cases lookup k r with
    | none => simpa using ih
    | some b => simpa using ih

theorem stackMerge_mapK [DecidableEq κ] (θ : κ → β → γ) (rs : List (MI κ (List β))) :
    stackMerge (rs.map (mapK (fun k => List.map (θ k))))
      = mapK (fun k => List.map (θ k)) (stackMerge rs) := by
  cases rs with
  | nil => rfl
  | cons r t =>
    show (mapK (fun k => List.map (θ k)) r).map (fun kb =>
        (kb.1, (((r :: t).map (mapK (fun k => List.map (θ k)))).filterMap (lookup kb.1)).flatten))
      = mapK (fun k => List.map (θ k))
          (r.map (fun kb => (kb.1, ((r :: t).filterMap (lookup kb.1)).flatten)))
    simp only [mapK, List.map_map]
    apply List.map_congr_left
    intro kb _
    have := filterMap_lookup_map (fun k => List.map (θ k)) (r :: t) kb.1
    simp only [Function.comp_def, this, List.map_flatten]

theorem stackMerge_mapMI2 [DecidableEq κ] (φ : κ → α → β) (rs : List (MI κ (List (List α)))) :
    stackMerge (rs.map (mapMI2 φ)) = mapMI2 φ (stackMerge rs) :=
  stackMerge_mapK (fun k => List.map (φ k)) rs

theorem all_length_mapMI2 (φ : κ → α → β) (B : Nat) (m : MI κ (List (List α))) :
    (mapMI2 φ m).all (fun kb => kb.2.length = B) = m.all (fun kb => kb.2.length = B) := by
  simp [mapMI2, List.all_map, Function.comp_def]

/-! ### `times_series_to_multi_images` -/

theorem toWindows_mapMI [DecidableEq κ] (φ : κ → α → β) (pool : α → α) (pool' : β → β)
    (hpool : ∀ k a, φ k (pool a) = pool' (φ k a)) (T p f dt s ds : Nat)
    (dyn const : MI κ (List α)) :
    toWindows pool' T p f dt s ds (mapMI φ dyn) (mapMI φ const)
      = (toWindows pool T p f dt s ds dyn const).map fun r => (mapMI2 φ r.1, mapMI2 φ r.2) := by
  unfold toWindows
  have he : (mapMI φ dyn).isEmpty = dyn.isEmpty := by cases dyn <;> rfl
  rw [he]
  by_cases hd : dyn.isEmpty = true
  · simp [hd]
  · have hd' : dyn.isEmpty = false := by simpa using hd
    simp only [hd', Bool.false_eq_true, if_false]
    cases timeSeriesIdxs p f dt ((T : Int) - s) with
    | none => rfl
    | some io =>
      obtain ⟨inI, outI⟩ := io
      simp only
      rw [expandMI_mapMI]
      cases expandMI T dyn with
      | none => rfl
      | some ex =>
        simp only [Option.map_some]
        rw [windowsMI_mapMI2, windowsMI_mapMI2]
        cases windowsMI p s inI ex with
        | none => rfl
        | some x3 =>
          cases windowsMI f s outI ex with
          | none => rfl
          | some y3 =>
            simp only [Option.map_some, combine12_mapMI3, getL_mapMI2, appendConsts_mapMI,
              iter_poolMI_mapMI2 φ pool pool' hpool]

/-! ### `batch_time_series` -/

/-- the function `vmap` maps over the trajectories -/
def trajWindows [DecidableEq κ] (pool : α → α) (T p f dt s ds : Nat)
    (dyn const : MI κ (List (List α))) (b : Nat) :
    Option (MI κ (List (List α)) × MI κ (List (List α))) :=
  match sliceTraj b dyn, sliceTraj b const with
  | some d, some c => toWindows pool T p f dt s ds d c
  | _, _ => none

/-- `batchTimeSeries` with its two `match`es named -/
theorem batchTimeSeries_eq [DecidableEq κ] (pool : α → α) (T p f dt s ds : Nat)
    (dyn const : MI κ (List (List α))) :
    batchTimeSeries pool T p f dt s ds dyn const
      = if getL dyn = 0 then none else
        if ¬ ((dyn ++ const).all (fun kb => kb.2.length = getL dyn)) then none else
        (allSome ((List.range (getL dyn)).map (trajWindows pool T p f dt s ds dyn const))).map
          fun rs => (stackMerge (rs.map Prod.fst), stackMerge (rs.map Prod.snd)) := by
  unfold batchTimeSeries
  simp only
  split
  · rfl
  · split
    · rfl
    · split
      · rename_i h
        have h' : allSome ((List.range (getL dyn)).map (trajWindows pool T p f dt s ds dyn const))
            = none := h
        rw [h']; rfl
      · rename_i rs h
        have h' : allSome ((List.range (getL dyn)).map (trajWindows pool T p f dt s ds dyn const))
            = some rs := h
        rw [h']; rfl

theorem trajWindows_mapMI2 [DecidableEq κ] (φ : κ → α → β) (pool : α → α) (pool' : β → β)
    (hpool : ∀ k a, φ k (pool a) = pool' (φ k a)) (T p f dt s ds : Nat)
    (dyn const : MI κ (List (List α))) (b : Nat) :
    trajWindows pool' T p f dt s ds (mapMI2 φ dyn) (mapMI2 φ const) b
      = (trajWindows pool T p f dt s ds dyn const b).map
          fun r => (mapMI2 φ r.1, mapMI2 φ r.2) := by
  unfold trajWindows
  rw [sliceTraj_mapMI2, sliceTraj_mapMI2]
  cases sliceTraj b dyn with
  | none => rfl
  | some d =>
    cases sliceTraj b const with
    | none => rfl
    | some c => exact toWindows_mapMI φ pool pool' hpool T p f dt s ds d c

theorem batchTimeSeries_mapMI2 [DecidableEq κ] (φ : κ → α → β) (pool : α → α) (pool' : β → β)
    (hpool : ∀ k a, φ k (pool a) = pool' (φ k a)) (T p f dt s ds : Nat)
    (dyn const : MI κ (List (List α))) :
    batchTimeSeries pool' T p f dt s ds (mapMI2 φ dyn) (mapMI2 φ const)
      = (batchTimeSeries pool T p f dt s ds dyn const).map
          fun r => (mapMI2 φ r.1, mapMI2 φ r.2) := by
  rw [batchTimeSeries_eq, batchTimeSeries_eq]
  simp only [getL_mapMI2, List.all_append, all_length_mapMI2]
  by_cases hB : getL dyn = 0
  · simp [hB]
  · simp only [hB, if_false]
    split
    · rfl
    · have e : (List.range (getL dyn)).map
            (trajWindows pool' T p f dt s ds (mapMI2 φ dyn) (mapMI2 φ const))
          = ((List.range (getL dyn)).map (trajWindows pool T p f dt s ds dyn const)).map
              (Option.map fun r => (mapMI2 φ r.1, mapMI2 φ r.2)) := by
        rw [List.map_map]
        apply List.map_congr_left
        intro b _
        exact trajWindows_mapMI2 φ pool pool' hpool T p f dt s ds dyn const b
      rw [e, allSome_map]
      cases allSome ((List.range (getL dyn)).map (trajWindows pool T p f dt s ds dyn const)) with
      | none => rfl
      | some rs =>
        simp only [Option.map_some, List.map_map, Function.comp_def]
        rw [← stackMerge_mapMI2, ← stackMerge_mapMI2]
        simp only [List.map_map, Function.comp_def]

end GinjaxVerif.C15
