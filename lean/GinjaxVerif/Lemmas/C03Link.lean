import GinjaxVerif.Lemmas.ActionLaws
import GinjaxVerif.Lemmas.SignedPerm
import GinjaxVerif.Lemmas.C03Literal
import Mathlib.LinearAlgebra.Matrix.Permutation
import Mathlib.Data.Fin.Tuple.Basic

/-!
# C03 ↔ C02: the monomial action on filters IS the model of `times_group_element`

C03 works with filters as functions on the index type `FIdx d M k` and with its own sparse signed
permutations (`SPerm`, `C03.SP`); C02 works with images `Img R d` (pixels `Fin d → Int`, tensor
indices `List (Fin d)`) and with `GinjaxVerif.SP d`.  This file ties the two:

* `imgOfFilter A` is the filter `A` seen as a C02 image of extents `(M,…,M)` and order `k`;
* `tactL_eq_sum_allFuns` identifies C02's einsum `tactL` with C03's sum over `allFuns k d`;
* `act_eq_tge`: `C03.act` of a signed permutation, evaluated at a filter index, is the value of C02's
  model `tge` of the code's `times_group_element` on the filter image — for every signed
  permutation, parity, side, order, dimension;
* `groupSum_eq_sum_tge`: the entries of `filter_matrix` are sums of `tge` images of basis filters.
-/

namespace GinjaxVerif.C03
open scoped BigOperators

variable {d M k : ℕ}

/-! ### (1) filters as images; index conversions -/

/-- the pixel of a filter index as a C02 pixel position -/
def pixOf (x : Fin d → Fin M) : Fin d → Int := fun b => ((x b).val : Int)

/-- the tensor index of a filter index as a C02 tensor multi-index -/
def tnOf (t : Fin k → Fin d) : List (Fin d) := List.ofFn t

/-- a C02 (pixel, tensor index) pair inside the box, with the right length, as a filter index -/
def toFIdx (y : Fin d → Int) (n : List (Fin d)) (hy : ∀ b, 0 ≤ y b ∧ y b < (M : Int))
    (hn : n.length = k) : FIdx d M k :=
  ⟨fun b => ⟨(y b).toNat, by have := hy b; omega⟩, fun i => n[i.val]'(by rw [hn]; exact i.isLt)⟩

/-- **the filter `A` as a C02 image**: extents `(M,…,M)`, tensor order `k`, value `A (y, n)` on the
box for index lists of length `k`, `0` elsewhere -/
def imgOfFilter (A : FIdx d M k → Int) : Img Int d where
  dims := fun _ => M
  k := k
  val := fun y n =>
    if h : (∀ b, 0 ≤ y b ∧ y b < (M : Int)) ∧ n.length = k then A (toFIdx y n h.1 h.2) else 0

@[simp] theorem imgOfFilter_dims (A : FIdx d M k → Int) : (imgOfFilter A).dims = fun _ => M := rfl
@[simp] theorem imgOfFilter_k (A : FIdx d M k → Int) : (imgOfFilter A).k = k := rfl

theorem pixOf_inBox (x : Fin d → Fin M) : InBox (fun _ => M) (pixOf x) := by
  intro b
  have := (x b).isLt
  simp only [pixOf]
  omega

@[simp] theorem tnOf_length (t : Fin k → Fin d) : (tnOf t).length = k := by simp [tnOf]

theorem toFIdx_pixOf_tnOf (x : Fin d → Fin M) (t : Fin k → Fin d)
    (hy : ∀ b, 0 ≤ pixOf x b ∧ pixOf x b < (M : Int)) (hn : (tnOf t).length = k) :
    toFIdx (pixOf x) (tnOf t) hy hn = ⟨x, t⟩ := by
  apply FIdx.ext'
  · funext b; apply Fin.ext; simp [toFIdx, pixOf]
  · funext i; simp [toFIdx, tnOf]

/-- reading the image at the converted index returns the filter entry -/
theorem imgOfFilter_val_mk (A : FIdx d M k → Int) (x : Fin d → Fin M) (t : Fin k → Fin d) :
    (imgOfFilter A).val (pixOf x) (tnOf t) = A ⟨x, t⟩ := by
  have h : (∀ b, 0 ≤ pixOf x b ∧ pixOf x b < (M : Int)) ∧ (tnOf t).length = k :=
    ⟨pixOf_inBox x, tnOf_length t⟩
  simp only [imgOfFilter]
  rw [dif_pos h, toFIdx_pixOf_tnOf]

theorem imgOfFilter_val (A : FIdx d M k → Int) (j : FIdx d M k) :
    (imgOfFilter A).val (pixOf j.px) (tnOf j.tn) = A j :=
  imgOfFilter_val_mk A j.px j.tn

/-- the conversions are inverse to each other (box pixel, list of the right length) -/
theorem pixOf_tnOf_toFIdx (y : Fin d → Int) (n : List (Fin d))
    (hy : ∀ b, 0 ≤ y b ∧ y b < (M : Int)) (hn : n.length = k) :
    pixOf (toFIdx (M := M) y n hy hn).px = y ∧ tnOf (toFIdx (M := M) y n hy hn).tn = n := by
  constructor
  · funext b
    have := hy b
    simp only [pixOf, toFIdx]
    omega
  · apply List.ext_getElem
    · simp [hn]
    · intro i h1 h2
      simp [tnOf, toFIdx]

/-! ### (2) the two sums over tensor indices -/

/-- C02's einsum `tactL` (nested `sumFin`s over index lists) is C03's sum over the enumeration
`allFuns k d` of all index functions -/
theorem tactL_eq_sum_allFuns (G : GinjaxVerif.Mat d) :
    ∀ {k : ℕ} (n : Fin k → Fin d) (v : List (Fin d) → Int),
    tactL G (tnOf n) v
      = ((allFuns k d).map fun t =>
          ((List.finRange k).map fun i => G (n i) (t i)).prod * v (tnOf t)).sum
  | 0, n, v => by
    simp [tnOf, tactL, allFuns]
  | k + 1, n, v => by
    have ih := fun a => tactL_eq_sum_allFuns G (fun i => n i.succ) (fun j => v (a :: j))
    rw [sum_allFuns]
    simp only [tnOf, List.ofFn_succ, tactL, sumFin_eq, Int.cast_id] at ih ⊢
    simp only [ih, sum_allFuns, ← Fin.prod_univ_def]
    rw [← (Fin.consEquiv (fun _ : Fin (k + 1) => Fin d)).sum_comp, Fintype.sum_prod_type]
    refine Finset.sum_congr rfl fun a _ => ?_
    rw [Finset.mul_sum]
    refine Finset.sum_congr rfl fun t _ => ?_
    simp only [Fin.consEquiv_apply, Fin.prod_univ_succ, Fin.cons_zero, Fin.cons_succ]
    ring

/-- the dense form of `tge` on a filter image, for **every** matrix `G`: C03's literal summation
over `allFuns`, the source pixel being the code's `rotatedKey` -/
theorem tge_val_dense (G : GinjaxVerif.Mat d) (p : ℕ) (A : FIdx d M k → Int)
    (y : Fin d → Int) (n : Fin k → Fin d) :
    (tge G p (imgOfFilter A)).val y (tnOf n)
      = GinjaxVerif.det G ^ p * ((allFuns k d).map fun t =>
          ((List.finRange k).map fun i => G (n i) (t i)).prod *
            (imgOfFilter A).val (rotatedKey G (fun _ => M) y) (tnOf t)).sum := by
  simp only [tge, imgOfFilter_dims, Int.cast_id]
  rw [tactL_eq_sum_allFuns]

/-! ### the signed permutations of C02 as signed permutations of C03 -/

/-- C02's `SP d` in the sparse core form of the C03 model -/
def ofAction (g : GinjaxVerif.SP d) : SPerm d := ⟨g.σ, g.σ.symm, g.s⟩

/-- C02's `SP d` as C03's group of signed permutations -/
def spOfAction (g : GinjaxVerif.SP d) : SP d := ⟨g.σ, fun a => if g.s a = 1 then 1 else -1⟩

theorem spOfAction_toCore (g : GinjaxVerif.SP d) : (spOfAction g).toCore = ofAction g := by
  simp only [SP.toCore, spOfAction, ofAction, SPerm.mk.injEq, true_and]
  funext a
  rcases g.hs a with h | h <;> simp [h]

theorem ofAction_valid (g : GinjaxVerif.SP d) : (ofAction g).Valid := by
  rw [← spOfAction_toCore]; exact SP.toCore_valid _

/-- same matrix -/
theorem ofAction_entry (g : GinjaxVerif.SP d) (a b : Fin d) : (ofAction g).entry a b = g.mat a b :=
  rfl

/-- the other direction: C03's signed permutations as C02's -/
def toAction (g : SP d) : GinjaxVerif.SP d :=
  ⟨g.σ, fun a => (g.s a : ℤ), fun a => by
    rcases Int.units_eq_one_or (g.s a) with h | h <;> simp [h]⟩

theorem ofAction_toAction (g : SP d) : ofAction (toAction g) = g.toCore := rfl

theorem toAction_mat (g : SP d) (a b : Fin d) : (toAction g).mat a b = g.entry a b := rfl

/-- the determinant of a signed permutation matrix is `sign σ · Π s` -/
theorem det_mat_eq (g : GinjaxVerif.SP d) :
    GinjaxVerif.det g.mat = ((Equiv.Perm.sign g.σ : ℤˣ) : ℤ) * ∏ a, g.s a := by
  rw [det_eq]
  have : Matrix.of g.mat = Matrix.diagonal g.s * g.σ.permMatrix ℤ := by
    ext i j
    rw [Matrix.diagonal_mul]
    simp only [Matrix.of_apply, GinjaxVerif.SP.mat, Equiv.Perm.permMatrix, PEquiv.toMatrix_apply,
      Equiv.toPEquiv_apply, Option.mem_def, Option.some.injEq]
    by_cases h : j = g.σ i
    · simp [h]
    · have h' : ¬ g.σ i = j := fun hh => h hh.symm
      simp [h, h']
  rw [this, Matrix.det_mul, Matrix.det_diagonal, Matrix.det_permutation]
  push_cast
  ring

/-- same determinant: C03's `SPerm.det` (inversion count times entries) is C02's Laplace `det` of
the matrix -/
theorem ofAction_det (g : GinjaxVerif.SP d) : (ofAction g).det = GinjaxVerif.det g.mat := by
  rw [← spOfAction_toCore, det_toCore, det_mat_eq]
  simp only [SP.det, MonoidHom.coe_mk, OneHom.coe_mk, spOfAction]
  push_cast
  congr 1
  refine Finset.prod_congr rfl fun a _ => ?_
  rcases g.hs a with h | h <;> simp [h]

/-! ### (3) the link -/

/-- C03's source pixel is C02's permute-and-flip source pixel on the constant extent `M` -/
theorem srcPix_pixOf (g : GinjaxVerif.SP d) (j : FIdx d M k) :
    g.srcPix (fun _ => M) (pixOf j.px) = pixOf (srcIdx (ofAction g) j).px := by
  funext b
  have hlt := (j.px (g.σ.symm b)).isLt
  simp only [GinjaxVerif.SP.srcPix, pixOf, srcIdx, ofAction]
  by_cases h : g.s (g.σ.symm b) = 1
  · rw [if_pos h, h, flipAx_one]
  · have h' : g.s (g.σ.symm b) = -1 := (g.hs _).resolve_left h
    rw [if_neg h, h', flipAx_neg_one, Fin.val_rev]
    omega

theorem map_tnOf (g : GinjaxVerif.SP d) (j : FIdx d M k) :
    (tnOf j.tn).map g.σ = tnOf (srcIdx (M := M) (ofAction g) j).tn := by
  simp only [tnOf, List.map_ofFn, srcIdx, ofAction]
  rfl

/-- C03's coefficient is `det^p` times C02's index sign -/
theorem coef_ofAction (g : GinjaxVerif.SP d) (p : ℕ) (j : FIdx d M k) :
    coef (ofAction g) p j = GinjaxVerif.det g.mat ^ p * g.sgn (tnOf j.tn) := by
  unfold coef
  rw [ofAction_det]
  simp only [GinjaxVerif.SP.sgn, tnOf, List.ofFn_eq_map, ofAction, List.map_map]
  rfl

/-- **THE LINK.**  For every signed permutation `g` of C02, every parity `p`, filter `A` and filter
index `j`: the value of C02's model `tge` of the code's `times_group_element`, applied to the filter
seen as an image, at the pixel and tensor index of `j`, is C03's monomial action `act`. -/
theorem tge_imgOfFilter (g : GinjaxVerif.SP d) (p : ℕ) (A : FIdx d M k → Int) (j : FIdx d M k) :
    (tge g.mat p (imgOfFilter A)).val (pixOf j.px) (tnOf j.tn) = act (ofAction g) p A j := by
  have hbox : InBox (tge g.mat p (imgOfFilter A)).dims (pixOf j.px) := by
    have : (tge g.mat p (imgOfFilter A)).dims = fun _ => M := by
      simp only [tge, imgOfFilter_dims]
      rw [rotDims_mat']
    rw [this]
    exact pixOf_inBox j.px
  rw [(tge_seq_pf g p (imgOfFilter A)).2.2 _ hbox]
  simp only [pf, imgOfFilter_dims, Int.cast_id]
  rw [srcPix_pixOf, map_tnOf, imgOfFilter_val, act, coef_ofAction, mul_assoc]

/-- the extents and the order of the transformed filter image are those of a filter -/
theorem tge_imgOfFilter_dims (g : GinjaxVerif.SP d) (p : ℕ) (A : FIdx d M k → Int) :
    (tge g.mat p (imgOfFilter A)).dims = (fun _ => M) ∧ (tge g.mat p (imgOfFilter A)).k = k := by
  refine ⟨?_, rfl⟩
  simp only [tge, imgOfFilter_dims]
  rw [rotDims_mat']

/-- the transformed filter image is the image of the transformed filter (on the box, for index
lists of the right length: `Img.Equiv`) -/
theorem tge_imgOfFilter_equiv (g : GinjaxVerif.SP d) (p : ℕ) (A : FIdx d M k → Int) :
    (tge g.mat p (imgOfFilter A)).Equiv (imgOfFilter (act (ofAction g) p A)) := by
  obtain ⟨hd, hk⟩ := tge_imgOfFilter_dims g p A
  refine ⟨hd, hk, ?_⟩
  intro y hy n hn
  rw [hd] at hy
  rw [hk] at hn
  obtain ⟨h1, h2⟩ := pixOf_tnOf_toFIdx (M := M) y n hy hn
  have := tge_imgOfFilter g p A (toFIdx y n hy hn)
  rw [h1, h2] at this
  rw [this]
  simp only [imgOfFilter]
  rw [dif_pos ⟨hy, hn⟩]

/-- the same for C03's own group `C03.SP` (the one the C03 theorems quantify over) -/
theorem tge_imgOfFilter_toCore (g : SP d) (p : ℕ) (A : FIdx d M k → Int) (j : FIdx d M k) :
    (tge (toAction g).mat p (imgOfFilter A)).val (pixOf j.px) (tnOf j.tn)
      = act g.toCore p A j := by
  rw [tge_imgOfFilter, ofAction_toAction]

/-- … and for **every matrix the C02 model accepts** (`isSignedPerm`): there is a valid sparse
signed permutation with the same entries and determinant whose C03 action is `tge` of the matrix -/
theorem tge_imgOfFilter_of_isSignedPerm (G : GinjaxVerif.Mat d) (hG : isSignedPerm G = true) :
    ∃ g : SPerm d, g.Valid ∧ (∀ a b, g.entry a b = G a b) ∧ g.det = GinjaxVerif.det G ∧
      ∀ (M k p : ℕ) (A : FIdx d M k → Int) (j : FIdx d M k),
        (tge G p (imgOfFilter A)).val (pixOf j.px) (tnOf j.tn) = act g p A j := by
  obtain ⟨g, rfl⟩ := exists_SP_of_isSignedPerm G hG
  exact ⟨ofAction g, ofAction_valid g, ofAction_entry g, ofAction_det g,
    fun M k p A j => tge_imgOfFilter g p A j⟩

/-- the literal dense formula of the C03 model (`actLit`, what the C03 driver cross-checks against
the library) evaluates to the C02 model's value -/
theorem actLit_eq_tge (g : GinjaxVerif.SP d) (p : ℕ) (A : FIdx d M k → Int) (j : FIdx d M k) :
    actLit g.mat (GinjaxVerif.det g.mat) p A j
      = some ((tge g.mat p (imgOfFilter A)).val (pixOf j.px) (tnOf j.tn)) := by
  rw [tge_imgOfFilter, ← ofAction_det, ← spOfAction_toCore]
  have h := actLit_toCore p (spOfAction g) A j
  have he : (spOfAction g).toCore.entry = g.mat := by
    rw [spOfAction_toCore]; rfl
  rw [he] at h
  exact h

/-! ### (4) the rows of `filter_matrix` are group sums of `tge` images -/

/-- entry `j` of row `i` of the code's `filter_matrix` (`groupSum`) is the sum over the operators of
the C02 model of `times_group_element` applied to the basis filter `e_i`, read at `j` -/
theorem groupSum_tge (ops : List (GinjaxVerif.SP d)) (p : ℕ) (i j : FIdx d M k) :
    groupSum (ops.map ofAction) p i j
      = (ops.map fun g =>
          (tge g.mat p (imgOfFilter (basis i))).val (pixOf j.px) (tnOf j.tn)).sum := by
  unfold groupSum
  rw [List.map_map]
  congr 1
  apply List.map_congr_left
  intro g _
  simp only [Function.comp_apply]
  rw [tge_imgOfFilter]

/-- the same with the operator list given in C03's group (as in `groupSum_eq_avg`,
`model_family_basis`) -/
theorem groupSum_tge_toCore (ops : List (SP d)) (p : ℕ) (i j : FIdx d M k) :
    groupSum (ops.map SP.toCore) p i j
      = (ops.map fun g =>
          (tge (toAction g).mat p (imgOfFilter (basis i))).val (pixOf j.px) (tnOf j.tn)).sum := by
  have := groupSum_tge (ops.map toAction) p i j
  rw [List.map_map, List.map_map] at this
  exact this

end GinjaxVerif.C03
