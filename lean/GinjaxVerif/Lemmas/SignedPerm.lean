import GinjaxVerif.Lemmas.Action
import Mathlib.Data.Fintype.EquivFin
import Mathlib.Data.Fintype.Card

/-!
# The decidable predicate `isSignedPerm` is exactly "is `g.mat` for some `g : SP d`"

So the theorems stated for `g : SP d` cover every matrix the driver (and the properties) accept:
the hyperoctahedral group `B_d`.
-/
namespace GinjaxVerif

variable {d : Nat}

theorem filter_length_one {α : Type} (l : List α) (p : α → Bool) (h : (l.filter p).length = 1) :
    ∃ a, a ∈ l ∧ p a = true ∧ ∀ b ∈ l, p b = true → b = a := by
  obtain ⟨a, ha⟩ := List.length_eq_one_iff.mp h
  have hm : a ∈ l.filter p := by rw [ha]; simp
  rw [List.mem_filter] at hm
  refine ⟨a, hm.1, hm.2, ?_⟩
  intro b hb hpb
  have : b ∈ l.filter p := List.mem_filter.mpr ⟨hb, hpb⟩
  rw [ha] at this
  simpa using this

theorem filter_eq_single {α : Type} [DecidableEq α] (l : List α) (a : α) (hn : l.Nodup)
    (ha : a ∈ l) : l.filter (fun j => decide (j = a)) = [a] := by
  rw [List.filter_eq, List.count_eq_one_of_mem hn ha]; rfl

theorem isSignedPerm_spec (M : Mat d) (h : isSignedPerm M = true) :
    (∀ i j, M i j = 0 ∨ M i j = 1 ∨ M i j = -1) ∧
    (∀ i, ∃ j, M i j ≠ 0 ∧ ∀ j', M i j' ≠ 0 → j' = j) ∧
    (∀ j, ∃ i, M i j ≠ 0 ∧ ∀ i', M i' j ≠ 0 → i' = i) := by
  simp only [isSignedPerm, Bool.and_eq_true, List.all_eq_true, List.mem_finRange, forall_const,
    Bool.or_eq_true, decide_eq_true_eq, beq_iff_eq] at h
  obtain ⟨⟨ha, hb⟩, hc⟩ := h
  refine ⟨fun i j => ?_, fun i => ?_, fun j => ?_⟩
  · rcases ha i j with (h | h) | h
    · exact Or.inl h
    · exact Or.inr (Or.inl h)
    · exact Or.inr (Or.inr h)
  · obtain ⟨j, _, hj, huniq⟩ := filter_length_one _ _ (hb i)
    refine ⟨j, by simpa using hj, fun j' hj' => huniq j' (List.mem_finRange _) (by simpa using hj')⟩
  · obtain ⟨i, _, hi, huniq⟩ := filter_length_one _ _ (hc j)
    refine ⟨i, by simpa using hi, fun i' hi' => huniq i' (List.mem_finRange _) (by simpa using hi')⟩

/-- Every matrix accepted by `isSignedPerm` is the matrix of an element of `SP d`. -/
theorem exists_SP_of_isSignedPerm (M : Mat d) (h : isSignedPerm M = true) :
    ∃ g : SP d, g.mat = M := by
  obtain ⟨hval, hrow, hcol⟩ := isSignedPerm_spec M h
  choose σf hσ1 hσ2 using hrow
  have hinj : Function.Injective σf := by
    intro i i' hii
    obtain ⟨i0, _, hu⟩ := hcol (σf i)
    have h1 := hu i (hσ1 i)
    have h2 := hu i' (by rw [hii]; exact hσ1 i')
    rw [h1, h2]
  have hbij : Function.Bijective σf := ⟨hinj, Finite.injective_iff_surjective.mp hinj⟩
  refine ⟨⟨Equiv.ofBijective σf hbij, fun i => M i (σf i), fun i => ?_⟩, ?_⟩
  · rcases hval i (σf i) with h0 | h1 | h1
    · exact absurd h0 (hσ1 i)
    · exact Or.inl h1
    · exact Or.inr h1
  · funext i j
    simp only [SP.mat_apply, Equiv.ofBijective_apply]
    by_cases hj : j = σf i
    · rw [if_pos hj, hj]
    · rw [if_neg hj]
      by_contra hne
      exact hj (hσ2 i j (fun h0 => hne h0.symm))

/-- Conversely the matrix of every `g : SP d` is accepted. -/
theorem isSignedPerm_mat (g : SP d) : isSignedPerm g.mat = true := by
  simp only [isSignedPerm, Bool.and_eq_true, List.all_eq_true, List.mem_finRange, forall_const,
    Bool.or_eq_true, decide_eq_true_eq, beq_iff_eq]
  refine ⟨⟨fun i j => ?_, fun i => ?_⟩, fun j => ?_⟩
  · rw [SP.mat_apply]
    split
    · rcases g.hs i with h | h
      · exact Or.inl (Or.inr h)
      · exact Or.inr h
    · exact Or.inl (Or.inl rfl)
  · have : (List.finRange d).filter (fun j => g.mat i j != 0) = [g.σ i] := by
      have hne : ∀ j, (g.mat i j != 0) = decide (j = g.σ i) := by
        intro j
        rw [SP.mat_apply]
        by_cases hj : j = g.σ i
        · rcases g.hs i with h | h <;> simp [hj, h]
        · simp [hj]
      simp only [hne]
      exact filter_eq_single _ _ (List.nodup_finRange d) (List.mem_finRange _)
    rw [this]; rfl
  · have : (List.finRange d).filter (fun i => g.mat i j != 0) = [g.σ.symm j] := by
      have hne : ∀ i, (g.mat i j != 0) = decide (i = g.σ.symm j) := by
        intro i
        rw [SP.mat_apply]
        by_cases hi : i = g.σ.symm j
        · subst hi
          rcases g.hs (g.σ.symm j) with h | h <;> simp [h]
        · have : ¬ j = g.σ i := fun hh => hi (by rw [hh]; simp)
          simp [hi, this]
      simp only [hne]
      exact filter_eq_single _ _ (List.nodup_finRange d) (List.mem_finRange _)
    rw [this]; rfl

end GinjaxVerif
