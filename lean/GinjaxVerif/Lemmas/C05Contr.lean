import GinjaxVerif.Model.C05Contr
import GinjaxVerif.Lemmas.C05Sym
import Mathlib.Data.List.Lex
import Mathlib.Data.List.Sort
import Mathlib.Data.List.Perm.Subperm

/-!
# C05 — lemmas on the model of `get_contraction_indices` (`Model/C05Contr.lean`)

* `mem_combinations`: `itertools.combinations` = the sublists of the given length;
* `pairsL`: `combinations(range k, 2)` in pair form, strictly sorted, `x < y < k`;
* `sortLex` of a sorted list / `uniqueRows` (members, strict sortedness);
* `IsNormalPairing`, `normalForm`, `PairingEquiv`;
* `contractionIndices_eq`: for `swappable = []` the pipeline is `uniqueRows` of the flattened
  normal-form pairings;
* `wfPairs_iff`: well-formedness of `multicontract` = distinct positions below `k`.
-/
namespace GinjaxVerif.C05
open GinjaxVerif

/-! ### pairs, flat rows -/

/-- a pair as the two-element list the Python sorts -/
def toL (p : Nat × Nat) : List Nat := [p.1, p.2]

/-- the flat row of a list of pairs (`np.array(pairs).reshape(2m)`) -/
def flatPairs (q : List (Nat × Nat)) : List Nat := (q.map toL).flatten

@[simp] theorem flatPairs_nil : flatPairs [] = [] := rfl
@[simp] theorem flatPairs_cons (p : Nat × Nat) (q) : flatPairs (p :: q) = p.1 :: p.2 :: flatPairs q := rfl

theorem flatPairs_append (a b : List (Nat × Nat)) : flatPairs (a ++ b) = flatPairs a ++ flatPairs b := by
  simp [flatPairs]

@[simp] theorem pairsOfRow_flatPairs (q : List (Nat × Nat)) : pairsOfRow (flatPairs q) = q := by
  induction q with
  | nil => rfl
  | cons p q ih => simp [pairsOfRow, ih]

theorem mem_flatPairs {q : List (Nat × Nat)} {x : Nat} :
    x ∈ flatPairs q ↔ ∃ p ∈ q, x = p.1 ∨ x = p.2 := by
  induction q with
  | nil => simp
  | cons p q ih => simp [ih, or_assoc]

theorem flatPairs_length (q : List (Nat × Nat)) : (flatPairs q).length = 2 * q.length := by
  induction q with
  | nil => rfl
  | cons p q ih => simp [ih]; omega

theorem nodup_of_flatPairs_nodup {q : List (Nat × Nat)} (h : (flatPairs q).Nodup) : q.Nodup := by
  induction q with
  | nil => exact List.nodup_nil
  | cons p q ih =>
    rw [flatPairs_cons, List.nodup_cons, List.nodup_cons] at h
    refine List.nodup_cons.mpr ⟨fun hp => ?_, ih h.2.2⟩
    exact h.2.1 (mem_flatPairs.mpr ⟨p, hp, Or.inr rfl⟩)

theorem allDistinct_iff (l : List Nat) : allDistinct l = true ↔ l.Nodup := by
  induction l with
  | nil => simp [allDistinct]
  | cons x xs ih => simp [allDistinct, ih]

/-! ### `itertools.combinations` -/

theorem mem_combinations {α : Type} {n : Nat} {xs l : List α} :
    l ∈ combinations n xs ↔ l.Sublist xs ∧ l.length = n := by
  induction xs generalizing n l with
  | nil =>
    cases n with
    | zero => simp [combinations]
    | succ n =>
      simp only [combinations, List.not_mem_nil, List.sublist_nil, false_iff, not_and]
      rintro rfl; simp
  | cons x xs ih =>
    cases n with
    | zero =>
      simp only [combinations, List.mem_singleton, List.length_eq_zero_iff]
      constructor
      · rintro rfl; exact ⟨List.nil_sublist _, rfl⟩
      · exact fun h => h.2
    | succ n =>
      simp only [combinations, List.mem_append, List.mem_map, ih, List.sublist_cons_iff]
      constructor
      · rintro (⟨a, ⟨ha, hl⟩, rfl⟩ | ⟨h1, h2⟩)
        · exact ⟨Or.inr ⟨a, rfl, ha⟩, by simp [hl]⟩
        · exact ⟨Or.inl h1, h2⟩
      · rintro ⟨h1 | ⟨r, rfl, hr⟩, h2⟩
        · exact Or.inr ⟨h1, h2⟩
        · exact Or.inl ⟨r, ⟨hr, by simpa using h2⟩, rfl⟩

theorem combinations_map {α β : Type} (f : α → β) (n : Nat) (xs : List α) :
    combinations n (xs.map f) = (combinations n xs).map (List.map f) := by
  induction xs generalizing n with
  | nil => cases n <;> simp [combinations]
  | cons x xs ih =>
    cases n with
    | zero => simp [combinations]
    | succ n => simp [combinations, ih, Function.comp_def]

theorem combinations_one {α : Type} (xs : List α) : combinations 1 xs = xs.map ([·]) := by
  induction xs with
  | nil => rfl
  | cons x xs ih => simp [combinations, ih]

/-- `combinations(xs, 2)` as pairs -/
def pairsL : List Nat → List (Nat × Nat)
  | [] => []
  | x :: xs => xs.map (fun y => (x, y)) ++ pairsL xs

theorem combinations_two (xs : List Nat) : combinations 2 xs = (pairsL xs).map toL := by
  induction xs with
  | nil => rfl
  | cons x xs ih => simp [combinations, combinations_one, pairsL, ih, toL, Function.comp_def]

/-- the lexicographic order of pairs -/
def pairLt (p q : Nat × Nat) : Prop := p.1 < q.1 ∨ (p.1 = q.1 ∧ p.2 < q.2)

instance : DecidableRel pairLt := fun p q => by unfold pairLt; infer_instance

theorem toL_lt_iff (p q : Nat × Nat) : toL p < toL q ↔ pairLt p q := by
  simp [toL, pairLt, List.cons_lt_cons_iff]

theorem mem_pairsL {xs : List Nat} (hxs : xs.Pairwise (· < ·)) {p : Nat × Nat} :
    p ∈ pairsL xs ↔ p.1 ∈ xs ∧ p.2 ∈ xs ∧ p.1 < p.2 := by
  induction xs with
  | nil => simp [pairsL]
  | cons x xs ih =>
    rw [List.pairwise_cons] at hxs
    obtain ⟨hx, hxs⟩ := hxs
    simp only [pairsL, List.mem_append, List.mem_map, ih hxs, List.mem_cons]
    constructor
    · rintro (⟨y, hy, rfl⟩ | ⟨h1, h2, h3⟩)
      · exact ⟨Or.inl rfl, Or.inr hy, hx y hy⟩
      · exact ⟨Or.inr h1, Or.inr h2, h3⟩
    · rintro ⟨h1 | h1, h2 | h2, h3⟩
      · omega
      · exact Or.inl ⟨p.2, h2, by rw [← h1]⟩
      · have := hx _ h1; omega
      · exact Or.inr ⟨h1, h2, h3⟩

theorem pairwise_pairsL {xs : List Nat} (hxs : xs.Pairwise (· < ·)) : (pairsL xs).Pairwise pairLt := by
  induction xs with
  | nil => simp [pairsL]
  | cons x xs ih =>
    have hxs' := hxs
    rw [List.pairwise_cons] at hxs
    obtain ⟨hx, hxs⟩ := hxs
    simp only [pairsL]
    rw [List.pairwise_append]
    refine ⟨?_, ih hxs, ?_⟩
    · rw [List.pairwise_map]
      exact hxs.imp (fun h => Or.inr ⟨rfl, h⟩)
    · intro a ha b hb
      rw [List.mem_map] at ha
      obtain ⟨y, _, rfl⟩ := ha
      exact Or.inl (hx _ ((mem_pairsL hxs).mp hb).1)

theorem pairLt_irrefl (p : Nat × Nat) : ¬ pairLt p p := by unfold pairLt; omega
theorem pairLt_trans {p q r : Nat × Nat} (h1 : pairLt p q) (h2 : pairLt q r) : pairLt p r := by
  unfold pairLt at *; omega
theorem pairLt_asymm {p q : Nat × Nat} (h1 : pairLt p q) : ¬ pairLt q p := by
  unfold pairLt at *; omega

instance : Std.Antisymm pairLt := ⟨fun _ _ h1 h2 => absurd h2 (pairLt_asymm h1)⟩

/-! ### `sorted` and `np.unique(axis=0)` -/

theorem sortLex_of_pairwise {l : List (List Nat)} (h : l.Pairwise (· < ·)) : sortLex l = l := by
  induction l with
  | nil => rfl
  | cons a l ih =>
    rw [List.pairwise_cons] at h
    have : sortLex (a :: l) = insertLex a (sortLex l) := rfl
    rw [this, ih h.2]
    cases l with
    | nil => rfl
    | cons b l =>
      have hab : a < b := h.1 b (List.mem_cons_self)
      simp [insertLex, lt_asymm hab]

theorem mem_insertUnique {a x : List Nat} {l : List (List Nat)} :
    x ∈ insertUnique a l ↔ x = a ∨ x ∈ l := by
  induction l with
  | nil => simp [insertUnique]
  | cons b l ih =>
    simp only [insertUnique]
    split
    · simp only [List.mem_cons, ih]; tauto
    · split
      · rename_i h; subst h; simp
      · simp

theorem mem_uniqueRows {x : List Nat} {l : List (List Nat)} : x ∈ uniqueRows l ↔ x ∈ l := by
  induction l with
  | nil => simp [uniqueRows]
  | cons a l ih =>
    have : uniqueRows (a :: l) = insertUnique a (uniqueRows l) := rfl
    rw [this, mem_insertUnique, ih, List.mem_cons]

theorem pairwise_insertUnique {a : List Nat} {l : List (List Nat)} (h : l.Pairwise (· < ·)) :
    (insertUnique a l).Pairwise (· < ·) := by
  induction l with
  | nil => simp [insertUnique]
  | cons b l ih =>
    rw [List.pairwise_cons] at h
    simp only [insertUnique]
    split
    · rename_i hba
      rw [List.pairwise_cons]
      refine ⟨fun x hx => ?_, ih h.2⟩
      rcases mem_insertUnique.mp hx with rfl | hx
      · exact hba
      · exact h.1 x hx
    · split
      · exact List.pairwise_cons.mpr h
      · rename_i hba hne
        have hab : a < b := by
          rcases lt_trichotomy a b with h | h | h
          · exact h
          · exact absurd h hne
          · exact absurd h hba
        rw [List.pairwise_cons]
        refine ⟨fun x hx => ?_, List.pairwise_cons.mpr h⟩
        rcases List.mem_cons.mp hx with rfl | hx
        · exact hab
        · exact lt_trans hab (h.1 x hx)

theorem pairwise_uniqueRows (l : List (List Nat)) : (uniqueRows l).Pairwise (· < ·) := by
  induction l with
  | nil => simp [uniqueRows]
  | cons a l ih => exact pairwise_insertUnique ih

theorem nodup_uniqueRows (l : List (List Nat)) : (uniqueRows l).Nodup :=
  (pairwise_uniqueRows l).imp (fun h => ne_of_lt h)

/-! ### normal-form pairings -/

/-- `q` is a list of `m` pairs `(x, y)`, `x < y < k`, no index twice, the pairs in increasing
(lexicographic) order: the normal form of a set of `m` disjoint unordered pairs out of `k` -/
structure IsNormalPairing (k m : Nat) (q : List (Nat × Nat)) : Prop where
  length : q.length = m
  lt : ∀ p ∈ q, p.1 < p.2 ∧ p.2 < k
  nodup : (flatPairs q).Nodup
  sorted : q.Pairwise pairLt

theorem mem_combinations_pairsL {k m : Nat} {q : List (Nat × Nat)} :
    q ∈ combinations m (pairsL (List.range k)) ↔
      q.length = m ∧ (∀ p ∈ q, p.1 < p.2 ∧ p.2 < k) ∧ q.Pairwise pairLt := by
  have hr : (List.range k).Pairwise (· < ·) := List.pairwise_lt_range
  rw [mem_combinations]
  constructor
  · rintro ⟨hs, hl⟩
    refine ⟨hl, fun p hp => ?_, (pairwise_pairsL hr).sublist hs⟩
    have := (mem_pairsL hr).mp (hs.subset hp)
    simp only [List.mem_range] at this
    omega
  · rintro ⟨hl, hlt, hsort⟩
    refine ⟨?_, hl⟩
    refine List.sublist_of_subperm_of_pairwise (r := pairLt) ?_ hsort (pairwise_pairsL hr)
    refine List.subperm_of_subset (hsort.imp (fun {a b} (h : pairLt a b) (e : a = b) => pairLt_irrefl b (e ▸ h))) ?_
    intro p hp
    have := hlt p hp
    exact (mem_pairsL hr).mpr ⟨List.mem_range.mpr (by omega), List.mem_range.mpr this.2, this.1⟩

theorem sortedRow_flatPairs {q : List (Nat × Nat)} (hlt : ∀ p ∈ q, p.1 < p.2)
    (hsort : q.Pairwise pairLt) : sortedRow (flatPairs q) = flatPairs q := by
  unfold sortedRow
  rw [pairsOfRow_flatPairs]
  have h1 : q.map (fun p => if p.1 ≤ p.2 then [p.1, p.2] else [p.2, p.1]) = q.map toL := by
    apply List.map_congr_left
    intro p hp
    have := hlt p hp
    simp [toL, Nat.le_of_lt this]
  rw [h1, sortLex_of_pairwise]
  · rfl
  · rw [List.pairwise_map]
    exact hsort.imp (fun h => (toL_lt_iff _ _).mpr h)

/-- the pairing `(0,1), (2,3), …, (2m-2, 2m-1)` -/
def canonPairing (m : Nat) : List (Nat × Nat) := (List.range m).map (fun i => (2 * i, 2 * i + 1))

theorem flatPairs_canonPairing (m : Nat) : flatPairs (canonPairing m) = List.range (2 * m) := by
  induction m with
  | zero => rfl
  | succ m ih =>
    have : 2 * (m + 1) = (2 * m + 1) + 1 := by omega
    rw [canonPairing, List.range_succ, List.map_append, flatPairs_append, ← canonPairing, ih, this,
      List.range_succ, List.range_succ]
    simp

theorem canonPairing_normal {k m : Nat} (h : 2 * m ≤ k) : IsNormalPairing k m (canonPairing m) where
  length := by simp [canonPairing]
  lt := by
    intro p hp
    simp only [canonPairing, List.mem_map, List.mem_range] at hp
    obtain ⟨i, hi, rfl⟩ := hp
    simp only; omega
  nodup := by rw [flatPairs_canonPairing]; exact List.nodup_range
  sorted := by
    rw [canonPairing, List.pairwise_map]
    exact List.pairwise_lt_range.imp (fun {a b} h => Or.inl (show 2 * a < 2 * b by omega))

/-- the pipeline for `swappable = []`: `np.unique` of the flattened normal-form pairings -/
def normalRows (k m : Nat) : List (List Nat) :=
  ((combinations m (pairsL (List.range k))).filter (fun q => allDistinct (flatPairs q))).map flatPairs

theorem mem_normalRows {k m : Nat} {r : List Nat} :
    r ∈ normalRows k m ↔ ∃ q, IsNormalPairing k m q ∧ flatPairs q = r := by
  simp only [normalRows, List.mem_map, List.mem_filter, mem_combinations_pairsL, allDistinct_iff]
  constructor
  · rintro ⟨q, ⟨⟨h1, h2, h3⟩, h4⟩, rfl⟩
    exact ⟨q, ⟨h1, h2, h4, h3⟩, rfl⟩
  · rintro ⟨q, ⟨h1, h2, h4, h3⟩, rfl⟩
    exact ⟨q, ⟨⟨h1, h2, h3⟩, h4⟩, rfl⟩

/-- for `swappable = []` and arguments passing the asserts, the code-shaped model is: the
lexicographically sorted distinct rows of the flattened normal-form pairings, regrouped. -/
theorem rows_eq (k m : Nat) :
    (combinations m (combinations 2 (List.range k))).map List.flatten
      = (combinations m (pairsL (List.range k))).map flatPairs := by
  rw [combinations_two, combinations_map, List.map_map]
  rfl

/-- when the asserts hold there is at least one row (the `IndexError` branch is dead) -/
theorem rows_nonempty {k m : Nat} (h : 2 * m ≤ k) :
    ((combinations m (combinations 2 (List.range k))).map List.flatten).isEmpty = false := by
  rw [rows_eq]
  have hc : IsNormalPairing k m (canonPairing m) := canonPairing_normal h
  have : canonPairing m ∈ combinations m (pairsL (List.range k)) :=
    mem_combinations_pairsL.mpr ⟨hc.length, hc.lt, hc.sorted⟩
  cases hl : combinations m (pairsL (List.range k)) with
  | nil => rw [hl] at this; cases this
  | cons a l => rfl

/-- for `swappable = []` and arguments passing the asserts, the code-shaped model is: the
lexicographically sorted distinct rows of the flattened normal-form pairings, regrouped -/
theorem contractionIndices_eq {k f : Nat} (h1 : (k + f) % 2 = 0) (h2 : f ≤ k) :
    contractionIndices k f [] = some ((uniqueRows (normalRows k ((k - f) / 2))).map pairsOfRow) := by
  have hne := rows_nonempty (k := k) (m := (k - f) / 2) (by omega)
  unfold contractionIndices
  simp only [h1, ne_eq, not_true_eq_false, ↓reduceIte, Nat.not_lt.mpr h2, hne,
    Bool.false_eq_true, replaceSwappable, restoreSwappable]
  rw [rows_eq]
  congr 2
  rw [normalRows, List.filter_map, List.map_map]
  congr 1
  apply List.map_congr_left
  intro q hq
  rw [List.mem_filter, mem_combinations_pairsL] at hq
  exact sortedRow_flatPairs (fun p hp => (hq.1.2.1 p hp).1) hq.1.2.2

theorem contractionIndices_isSome_iff (k f : Nat) (sw : List (Nat × Nat)) :
    (contractionIndices k f sw).isSome = true ↔ (k + f) % 2 = 0 ∧ f ≤ k := by
  unfold contractionIndices
  by_cases h1 : (k + f) % 2 = 0
  · by_cases h2 : f ≤ k
    · have hne := rows_nonempty (k := k) (m := (k - f) / 2) (by omega)
      simp [h1, h2, Nat.not_lt.mpr h2, hne]
    · simp [h1, h2, Nat.lt_of_not_le h2]
  · simp [h1]

/-! ### the normal form of an arbitrary list of pairs -/

/-- `sorted([x, y])` -/
def sortInside (p : Nat × Nat) : Nat × Nat := if p.1 ≤ p.2 then p else (p.2, p.1)

def pairLe (p q : Nat × Nat) : Prop := p.1 < q.1 ∨ (p.1 = q.1 ∧ p.2 ≤ q.2)
instance : DecidableRel pairLe := fun p q => by unfold pairLe; infer_instance

/-- sort inside the pairs, then sort the pairs -/
def normalForm (ps : List (Nat × Nat)) : List (Nat × Nat) :=
  (ps.map sortInside).insertionSort pairLe

/-- the same set of unordered pairs (with multiplicity): equal up to the order of the pairs and
the order inside the pairs -/
def SamePairing (ps qs : List (Nat × Nat)) : Prop := (ps.map sortInside).Perm (qs.map sortInside)

theorem SamePairing.refl (ps : List (Nat × Nat)) : SamePairing ps ps := List.Perm.refl _
theorem SamePairing.symm {ps qs : List (Nat × Nat)} (h : SamePairing ps qs) : SamePairing qs ps :=
  List.Perm.symm h
theorem SamePairing.trans {ps qs rs : List (Nat × Nat)} (h : SamePairing ps qs)
    (h' : SamePairing qs rs) : SamePairing ps rs := List.Perm.trans h h'

theorem SamePairing.of_perm {ps qs : List (Nat × Nat)} (h : ps.Perm qs) : SamePairing ps qs :=
  h.map _

theorem sortInside_swap (p : Nat × Nat) : sortInside p.swap = sortInside p := by
  unfold sortInside
  obtain ⟨a, b⟩ := p
  simp only [Prod.swap]
  split <;> split <;> first | rfl | (simp only [Prod.mk.injEq]; omega)

theorem SamePairing.of_swapInside {ps qs : List (Nat × Nat)}
    (h : List.Forall₂ (fun p q => q = p ∨ q = p.swap) ps qs) : SamePairing ps qs := by
  unfold SamePairing
  induction h with
  | nil => exact List.Perm.refl _
  | cons hpq _ ih =>
    rcases hpq with rfl | rfl
    · exact ih.cons _
    · rw [List.map_cons, List.map_cons, sortInside_swap]; exact ih.cons _

theorem sortInside_idem (p : Nat × Nat) : sortInside (sortInside p) = sortInside p := by
  unfold sortInside
  split
  · simp [*]
  · rename_i h; simp only; rw [if_pos (by omega)]

theorem sortInside_of_le {p : Nat × Nat} (h : p.1 ≤ p.2) : sortInside p = p := by simp [sortInside, h]

instance : Std.Total pairLe := ⟨fun a b => by unfold pairLe; omega⟩
instance : IsTrans (Nat × Nat) pairLe := ⟨fun a b c h1 h2 => by unfold pairLe at *; omega⟩

theorem normalForm_perm (ps : List (Nat × Nat)) : (normalForm ps).Perm (ps.map sortInside) :=
  List.perm_insertionSort _ _

theorem normalForm_pairwise (ps : List (Nat × Nat)) : (normalForm ps).Pairwise pairLe :=
  List.pairwise_insertionSort _ _

theorem map_sortInside_normalForm (ps : List (Nat × Nat)) :
    (normalForm ps).map sortInside = normalForm ps := by
  conv_rhs => rw [← List.map_id (normalForm ps)]
  apply List.map_congr_left
  intro p hp
  have := (normalForm_perm ps).mem_iff.mp hp
  rw [List.mem_map] at this
  obtain ⟨p0, _, rfl⟩ := this
  exact sortInside_idem p0

theorem samePairing_normalForm (ps : List (Nat × Nat)) : SamePairing ps (normalForm ps) := by
  unfold SamePairing
  rw [map_sortInside_normalForm]
  exact (normalForm_perm ps).symm

theorem perm_flatPairs_sortInside (ps : List (Nat × Nat)) :
    (flatPairs (ps.map sortInside)).Perm (flatPairs ps) := by
  induction ps with
  | nil => exact List.Perm.refl _
  | cons p ps ih =>
    simp only [List.map_cons, flatPairs_cons]
    unfold sortInside
    split
    · exact (ih.cons _).cons _
    · exact ((ih.cons _).cons _).trans (List.Perm.swap _ _ _)

theorem SamePairing.perm_flatPairs {ps qs : List (Nat × Nat)} (h : SamePairing ps qs) :
    (flatPairs ps).Perm (flatPairs qs) :=
  (perm_flatPairs_sortInside ps).symm.trans
    (((h.map toL).flatten).trans (perm_flatPairs_sortInside qs))

theorem ne_of_flatPairs_nodup {q : List (Nat × Nat)} (h : (flatPairs q).Nodup) :
    ∀ p ∈ q, p.1 ≠ p.2 := by
  induction q with
  | nil => simp
  | cons p q ih =>
    rw [flatPairs_cons, List.nodup_cons, List.nodup_cons] at h
    intro p' hp'
    rcases List.mem_cons.mp hp' with rfl | hp'
    · intro e; exact h.1 (e ▸ List.mem_cons_self)
    · exact ih h.2.2 p' hp'

/-- the normal form of `m` pairs over distinct indices below `k` is a normal-form pairing -/
theorem normalForm_normal {k : Nat} {ps : List (Nat × Nat)}
    (hk : ∀ x ∈ flatPairs ps, x < k) (hnd : (flatPairs ps).Nodup) :
    IsNormalPairing k ps.length (normalForm ps) := by
  have hperm := (samePairing_normalForm ps).perm_flatPairs
  have hnd' : (flatPairs (normalForm ps)).Nodup := hperm.nodup_iff.mp hnd
  have hle : ∀ p ∈ normalForm ps, p.1 ≤ p.2 := by
    intro p hp
    have := (normalForm_perm ps).mem_iff.mp hp
    rw [List.mem_map] at this
    obtain ⟨p0, _, rfl⟩ := this
    unfold sortInside; split <;> omega
  refine ⟨by rw [(normalForm_perm ps).length_eq, List.length_map], fun p hp => ?_, hnd', ?_⟩
  · have hne := ne_of_flatPairs_nodup hnd' p hp
    have h2 : p.2 < k := hk _ (hperm.mem_iff.mpr (mem_flatPairs.mpr ⟨p, hp, Or.inr rfl⟩))
    have := hle p hp
    omega
  · have := (normalForm_pairwise ps).and (nodup_of_flatPairs_nodup hnd')
    refine this.imp (fun {a b} ⟨h1, h2⟩ => ?_)
    unfold pairLe at h1; unfold pairLt
    have : a.2 ≠ b.2 ∨ a.1 ≠ b.1 := by
      by_contra hc
      exact h2 (Prod.ext (by omega) (by omega))
    omega

/-- a normal-form pairing is its own normal form; two normal-form pairings of the same set of
unordered pairs are equal -/
theorem IsNormalPairing.eq_of_samePairing {k m k' m' : Nat} {q q' : List (Nat × Nat)}
    (hq : IsNormalPairing k m q) (hq' : IsNormalPairing k' m' q') (h : SamePairing q q') : q = q' := by
  have e : ∀ {k m} {q : List (Nat × Nat)}, IsNormalPairing k m q → q.map sortInside = q := by
    intro k m q hq
    conv_rhs => rw [← List.map_id q]
    exact List.map_congr_left (fun p hp => sortInside_of_le (Nat.le_of_lt (hq.lt p hp).1))
  unfold SamePairing at h
  rw [e hq, e hq'] at h
  exact h.eq_of_pairwise' hq.sorted hq'.sorted

/-! ### well-formedness of `multicontract` -/

theorem wfPairs_iff (ps : List (Nat × Nat)) (b : List Bool) :
    wfPairs ps b = true ↔ (flatPairs ps).Nodup ∧ ∀ x ∈ flatPairs ps, b[x]? = some false := by
  induction ps generalizing b with
  | nil => simp [wfPairs]
  | cons p ps ih =>
    obtain ⟨i, j⟩ := p
    rw [wfPairs_cons, ih]
    simp only [flatPairs_cons, List.nodup_cons, List.mem_cons, getElem?_set_set_false]
    constructor
    · rintro ⟨hij, hi, hj, hnd, hall⟩
      refine ⟨⟨?_, ?_, hnd⟩, ?_⟩
      · rintro (h | h)
        · exact hij h
        · exact (hall i h).1 rfl
      · intro h; exact (hall j h).2.1 rfl
      · rintro x (rfl | rfl | hx)
        · exact hi
        · exact hj
        · exact (hall x hx).2.2
    · rintro ⟨⟨h1, h2, hnd⟩, hall⟩
      refine ⟨fun e => h1 (Or.inl e), hall i (Or.inl rfl), hall j (Or.inr (Or.inl rfl)), hnd, ?_⟩
      intro x hx
      refine ⟨?_, ?_, hall x (Or.inr (Or.inr hx))⟩
      · rintro rfl; exact h1 (Or.inr hx)
      · rintro rfl; exact h2 hx

theorem wfPairs_replicate_iff (ps : List (Nat × Nat)) (k : Nat) :
    wfPairs ps (List.replicate k false) = true ↔ (flatPairs ps).Nodup ∧ ∀ x ∈ flatPairs ps, x < k := by
  rw [wfPairs_iff]
  simp [List.getElem?_replicate]

theorem wfPairs_of_samePairing {ps qs : List (Nat × Nat)} (h : SamePairing ps qs) (k : Nat)
    (hwf : wfPairs ps (List.replicate k false) = true) : wfPairs qs (List.replicate k false) = true := by
  rw [wfPairs_replicate_iff] at *
  have hp := h.perm_flatPairs
  exact ⟨hp.nodup_iff.mp hwf.1, fun x hx => hwf.2 x (hp.mem_iff.mpr hx)⟩

theorem forall₂_sortInside (ps : List (Nat × Nat)) :
    List.Forall₂ (fun p q => q = p ∨ q = p.swap) ps (ps.map sortInside) := by
  induction ps with
  | nil => exact List.Forall₂.nil
  | cons p ps ih =>
    refine List.Forall₂.cons ?_ ih
    unfold sortInside; split
    · exact Or.inl rfl
    · exact Or.inr rfl

theorem multicontractI_sortInside {R : Type} {d : Nat} [Zero R] [Add R] (ps : List (Nat × Nat))
    (A : Img R d) : multicontractI (ps.map sortInside) A = multicontractI ps A := by
  simp only [multicontractI, List.length_map]
  congr 1
  funext y r
  exact mcGo_swapInside (A.val y) (forall₂_sortInside ps) _ r

end GinjaxVerif.C05
