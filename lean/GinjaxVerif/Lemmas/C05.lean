import GinjaxVerif.Model.C05
import GinjaxVerif.Lemmas.ActionLaws
import Mathlib.Data.List.Perm.Basic
import Mathlib.Data.List.Perm.Subperm
import Mathlib.Data.List.ReduceOption
import Mathlib.Algebra.BigOperators.Group.List.Basic

/-!
# C05 — E2: the fibre operations commute with the permute-and-flip action `pf g c`

List calculus for `fill` / `unperm`, the einsum re-indexing `mcGo_act`, one `_act` lemma and one
congruence lemma (w.r.t. strong extensional equality `Img.SEq`) per operation.
-/
namespace GinjaxVerif.C05
open GinjaxVerif Finset

variable {R : Type} {d : Nat}

/-! ### list calculus -/

theorem sgn_perm (g : SP d) {n m : List (Fin d)} (h : n.Perm m) : g.sgn n = g.sgn m := by
  unfold SP.sgn
  exact (h.map g.s).prod_eq

theorem fill_perm {α : Type} (asg : List (Option α)) (r : List α) :
    (fill asg r).Perm (asg.reduceOption ++ r) := by
  induction asg generalizing r with
  | nil => simp [fill]
  | cons o as ih =>
    cases o with
    | some a => simpa [fill, List.reduceOption_cons_of_some] using ih r
    | none =>
      cases r with
      | nil => simpa [fill, List.reduceOption_cons_of_none] using ih []
      | cons x r =>
        simp only [fill, List.reduceOption_cons_of_none]
        exact ((ih r).cons x).trans List.perm_middle.symm

theorem fill_map {α β : Type} (f : α → β) (asg : List (Option α)) (r : List α) :
    (fill asg r).map f = fill (asg.map (Option.map f)) (r.map f) := by
  induction asg generalizing r with
  | nil => simp [fill]
  | cons o as ih =>
    cases o with
    | some a => simp [fill, ih]
    | none =>
      cases r with
      | nil => simpa [fill] using ih []
      | cons x r => simp [fill, ih]

theorem reduceOption_set_perm {α : Type} (asg : List (Option α)) (i : Nat) (a : α)
    (h : asg[i]? = some none) : ((asg.set i (some a)).reduceOption).Perm (a :: asg.reduceOption) := by
  induction asg generalizing i with
  | nil => simp at h
  | cons o as ih =>
    cases i with
    | zero =>
      simp at h; subst h
      simp [List.reduceOption_cons_of_none, List.reduceOption_cons_of_some]
    | succ i =>
      simp at h
      cases o with
      | none => simpa [List.reduceOption_cons_of_none] using ih i h
      | some b =>
        simp only [List.set_cons_succ, List.reduceOption_cons_of_some]
        exact ((ih i h).cons b).trans (List.Perm.swap a b _)

theorem wfPairs_cons (i j : Nat) (ps : List (Nat × Nat)) (b : List Bool) :
    wfPairs ((i, j) :: ps) b = true ↔
      i ≠ j ∧ b[i]? = some false ∧ b[j]? = some false ∧ wfPairs ps ((b.set i true).set j true) = true := by
  simp [wfPairs, and_assoc]

theorem isSome_getElem?_none {α : Type} (asg : List (Option α)) (i : Nat)
    (h : (asg.map Option.isSome)[i]? = some false) : asg[i]? = some none := by
  rw [List.getElem?_map] at h
  cases hh : asg[i]? with
  | none => simp [hh] at h
  | some o => cases o with
    | none => rfl
    | some x => simp [hh] at h

theorem sgn_set_set (g : SP d) (asg : List (Option (Fin d))) (i j : Nat) (a : Fin d) (hij : i ≠ j)
    (hi : asg[i]? = some none) (hj : asg[j]? = some none) :
    g.sgn ((asg.set i (some a)).set j (some a)).reduceOption = g.sgn asg.reduceOption := by
  have hj' : (asg.set i (some a))[j]? = some none := by
    rw [List.getElem?_set_ne hij]; exact hj
  rw [sgn_perm g (reduceOption_set_perm _ j a hj'), SP.sgn_cons,
    sgn_perm g (reduceOption_set_perm _ i a hi), SP.sgn_cons, ← mul_assoc, g.s_mul_self, one_mul]


/-- **the einsum of a contraction commutes with the fibre action**: signs of the two copies of each
summed letter cancel (`s a * s a = 1`), the sum is re-indexed by `σ`. -/
theorem mcGo_act [CommRing R] (g : SP d) (c : R) (v : List (Fin d) → R) (ps : List (Nat × Nat))
    (asg : List (Option (Fin d))) (r : List (Fin d))
    (hwf : wfPairs ps (asg.map Option.isSome) = true) :
    mcGo (fun n => c * (((g.sgn n : Int) : R) * v (n.map g.σ))) ps asg r
      = c * (((g.sgn asg.reduceOption : Int) : R) * ((g.sgn r : Int) : R) *
          mcGo v ps (asg.map (Option.map g.σ)) (r.map g.σ)) := by
  induction ps generalizing asg with
  | nil =>
    simp only [mcGo, fill_map, sgn_perm g (fill_perm asg r), SP.sgn_append]
    push_cast; ring
  | cons pr ps ih =>
    obtain ⟨i, j⟩ := pr
    rw [wfPairs_cons] at hwf
    obtain ⟨hij, hi, hj, hwf'⟩ := hwf
    have hi' := isSome_getElem?_none asg i hi
    have hj' := isSome_getElem?_none asg j hj
    simp only [mcGo, sumFin_eq]
    have key : ∀ a : Fin d,
        mcGo (fun n => c * (((g.sgn n : Int) : R) * v (n.map g.σ))) ps
            ((asg.set i (some a)).set j (some a)) r
        = c * (((g.sgn asg.reduceOption : Int) : R) * ((g.sgn r : Int) : R) *
          mcGo v ps (((asg.map (Option.map g.σ)).set i (some (g.σ a))).set j (some (g.σ a)))
            (r.map g.σ)) := by
      intro a
      rw [ih]
      · rw [sgn_set_set g asg i j a hij hi' hj']
        simp [List.map_set]
      · simpa [List.map_set] using hwf'
    simp only [key, ← Finset.mul_sum]
    congr 2
    exact Equiv.sum_comp g.σ (fun b =>
      mcGo v ps (((asg.map (Option.map g.σ)).set i (some b)).set j (some b)) (r.map g.σ))

/-! ### `unperm` (the index map of `jnp.transpose`) -/

theorem unperm_map {α β : Type} (f : α → β) (π : List Nat) (t : List α) :
    (unperm π t).map f = unperm π (t.map f) := by
  simp [unperm, List.map_filterMap, List.getElem?_map, List.map_drop]

theorem isPermOfRange_spec {π : List Nat} {k : Nat} (h : isPermOfRange π k = true) :
    π.length = k ∧ π.Perm (List.range π.length) := by
  simp only [isPermOfRange, Bool.and_eq_true, beq_iff_eq, List.all_eq_true, List.mem_range,
    List.contains_iff_mem] at h
  obtain ⟨hl, hm⟩ := h
  refine ⟨hl, ?_⟩
  rw [hl]
  have hsub : (List.range k) ⊆ π := fun j hj => hm j (List.mem_range.mp hj)
  have := (List.subperm_of_subset List.nodup_range hsub).perm_of_length_le (by simp [hl])
  exact this.symm

theorem map_idxOf_self (l : List Nat) (h : l.Nodup) : l.map (fun j => l.idxOf j) = List.range l.length := by
  apply List.ext_getElem
  · simp
  · intro i h1 h2
    simp only [List.getElem_map, List.getElem_range]
    exact h.idxOf_getElem i _

theorem range_filterMap_getElem? {α : Type} (t : List α) (k : Nat) :
    (List.range k).filterMap (fun j => t[j]?) = t.take k := by
  induction k with
  | zero => simp
  | succ k ih =>
    rw [List.range_succ, List.filterMap_append, ih, List.take_add_one]
    cases h : t[k]? <;> simp [h]

theorem unperm_perm {α : Type} (π : List Nat) (t : List α) (h : π.Perm (List.range π.length)) :
    (unperm π t).Perm t := by
  have hnd : π.Nodup := h.nodup_iff.mpr List.nodup_range
  have h1 : ((List.range π.length).filterMap (fun j => t[π.idxOf j]?)).Perm (t.take π.length) := by
    refine (h.symm.filterMap _).trans ?_
    have : π.filterMap (fun j => t[π.idxOf j]?) = (π.map (fun j => π.idxOf j)).filterMap (fun j => t[j]?) := by
      rw [List.filterMap_map]; rfl
    rw [this, map_idxOf_self π hnd, range_filterMap_getElem?]
  unfold unperm
  exact (h1.append_right _).trans (by rw [List.take_append_drop])

/-! ### E2: each fibre operation commutes with `pf g c` -/

section E2
variable [CommRing R]

theorem add_act (g : SP d) (c : Int) (A B : Img R d) (hd : A.dims = B.dims) :
    (addI (pf g c A) (pf g c B)).SEq (pf g c (addI A B)) := by
  refine ⟨rfl, rfl, ?_⟩
  intro y _ n
  simp only [addI, pf, hd]; ring

theorem sub_act (g : SP d) (c : Int) (A B : Img R d) (hd : A.dims = B.dims) :
    (subI (pf g c A) (pf g c B)).SEq (pf g c (subI A B)) := by
  refine ⟨rfl, rfl, ?_⟩
  intro y _ n
  simp only [subI, pf, hd]; ring

theorem smul_act (g : SP d) (c : Int) (r : R) (A : Img R d) :
    (smulI r (pf g c A)).SEq (pf g c (smulI r A)) := by
  refine ⟨rfl, rfl, ?_⟩
  intro y _ n
  simp only [smulI, pf]; ring

/-- tensor product: the signs of the two blocks multiply, the scalars (`det^p`, `det^p'`) multiply,
the index list splits at `A.k`. -/
theorem mul_act (g : SP d) (c c' : Int) (A B : Img R d) (hd : A.dims = B.dims) :
    (mulI (pf g c A) (pf g c' B)).SEq (pf g (c * c') (mulI A B)) := by
  refine ⟨rfl, rfl, ?_⟩
  intro y _ n
  have hs : g.sgn n = g.sgn (n.take A.k) * g.sgn (n.drop A.k) := by
    rw [← SP.sgn_append, List.take_append_drop]
  simp only [mulI, pf, hd, List.map_take, List.map_drop, hs]
  push_cast; ring

theorem transpose_act (g : SP d) (c : Int) (π : List Nat) (A : Img R d)
    (hπ : π.Perm (List.range π.length)) :
    (transposeI π (pf g c A)).SEq (pf g c (transposeI π A)) := by
  refine ⟨rfl, rfl, ?_⟩
  intro y _ n
  simp only [transposeI, pf, unperm_map, sgn_perm g (unperm_perm π n hπ)]

theorem multicontract_act (g : SP d) (c : Int) (ps : List (Nat × Nat)) (A : Img R d)
    (hwf : wfPairs ps (List.replicate A.k false) = true) :
    (multicontractI ps (pf g c A)).SEq (pf g c (multicontractI ps A)) := by
  refine ⟨rfl, rfl, ?_⟩
  intro y _ r
  simp only [multicontractI, pf]
  rw [mcGo_act g _ _ ps _ r (by simpa using hwf)]
  simp [List.reduceOption_replicate_none]

theorem contract_act (g : SP d) (c : Int) (i j : Nat) (A : Img R d)
    (hwf : wfPairs [(i, j)] (List.replicate A.k false) = true) :
    (multicontractI [(i, j)] (pf g c A)).SEq (pf g c (multicontractI [(i, j)] A)) :=
  multicontract_act g c _ A hwf

/-- the sign identity of the Levi-Civita symbol under `g`: `ε(m) = det g · Π s(m_i) · ε(σ m)` -/
def LCSign (g : SP d) : Prop :=
  ∀ m : List (Fin d), leviCivitaSym d m = det g.mat * g.sgn m * leviCivitaSym d (m.map g.σ)

theorem outerLC_act (g : SP d) (hg : LCSign g) (c : Int) (A : Img R d) :
    (outerLC (pf g c A)).SEq (pf g (c * det g.mat) (outerLC A)) := by
  refine ⟨rfl, rfl, ?_⟩
  intro y _ n
  have hs : g.sgn n = g.sgn (n.take A.k) * g.sgn (n.drop A.k) := by
    rw [← SP.sgn_append, List.take_append_drop]
  simp only [outerLC, pf, List.map_take, hs]
  rw [hg (n.drop A.k), List.map_drop]
  push_cast; ring

theorem sumIdx_congr' (k : Nat) (f f' : List (Fin d) → R) (h : ∀ n, f n = f' n) :
    sumIdx d k f = sumIdx d k f' := by
  have : f = f' := funext h
  rw [this]

theorem normSq_pf (g : SP d) (c : Int) (hc : c * c = 1) (A : Img R d) (y : Fin d → Int) :
    normSq (pf g c A) y = normSq A (g.srcPix (fun i => A.dims (g.σ i)) y) := by
  unfold normSq
  have hk : (pf g c A).k = A.k := rfl
  rw [hk, ← sumIdx_map g.σ A.k (fun n => A.val (g.srcPix (fun i => A.dims (g.σ i)) y) n *
      A.val (g.srcPix (fun i => A.dims (g.σ i)) y) n)]
  apply sumIdx_congr'
  intro n
  simp only [pf]
  have h1 : ((c : Int) : R) * ((c : Int) : R) = 1 := by
    rw [← Int.cast_mul, hc]; simp
  have h2 : ((g.sgn n : Int) : R) * ((g.sgn n : Int) : R) = 1 := by
    rw [← Int.cast_mul, SP.sgn_mul_self]; simp
  calc _ = (((c : Int) : R) * ((c : Int) : R)) *
            (((g.sgn n : Int) : R) * ((g.sgn n : Int) : R)) *
            (A.val (g.srcPix (fun i => A.dims (g.σ i)) y) (n.map g.σ) *
             A.val (g.srcPix (fun i => A.dims (g.σ i)) y) (n.map g.σ)) := by ring
    _ = _ := by rw [h1, h2]; ring

/-- the pixel norm is an honest scalar of even parity whatever the type of the operand, for any
`sqrtF` -/
theorem norm_act (g : SP d) (c : Int) (hc : c * c = 1) (sqrtF : R → R) (A : Img R d) :
    (normI sqrtF (pf g c A)).SEq (pf g 1 (normI sqrtF A)) := by
  refine ⟨rfl, rfl, ?_⟩
  intro y _ n
  cases n with
  | nil =>
    show sqrtF (normSq (pf g c A) y) = ((1 : Int) : R) * (((g.sgn [] : Int) : R) *
      sqrtF (normSq A (g.srcPix (fun i => A.dims (g.σ i)) y)))
    rw [normSq_pf g c hc]; simp
  | cons a n => simp [normI, pf]

end E2

/-! ### congruence w.r.t. strong extensional equality; Levi-Civita contraction -/

section Congr
variable [CommRing R]

omit [CommRing R] in
theorem SEq.val_eq {A A' : Img R d} (h : A.SEq A') (y : Fin d → Int) (hy : InBox A.dims y) :
    A.val y = A'.val y := funext (h.2.2 y hy)

theorem addI_congr {A A' B B' : Img R d} (hd : A.dims = B.dims) (hA : A.SEq A') (hB : B.SEq B') :
    (addI A B).SEq (addI A' B') :=
  ⟨hA.1, hA.2.1, fun y hy n => by
    simp only [addI, hA.2.2 y hy n, hB.2.2 y (hd ▸ hy) n]⟩

theorem subI_congr {A A' B B' : Img R d} (hd : A.dims = B.dims) (hA : A.SEq A') (hB : B.SEq B') :
    (subI A B).SEq (subI A' B') :=
  ⟨hA.1, hA.2.1, fun y hy n => by
    simp only [subI, hA.2.2 y hy n, hB.2.2 y (hd ▸ hy) n]⟩

theorem mulI_congr {A A' B B' : Img R d} (hd : A.dims = B.dims) (hA : A.SEq A') (hB : B.SEq B') :
    (mulI A B).SEq (mulI A' B') :=
  ⟨hA.1, by simp only [mulI, hA.2.1, hB.2.1], fun y hy n => by
    simp only [mulI, hA.2.2 y hy _, hB.2.2 y (hd ▸ hy) _, hA.2.1]⟩

theorem smulI_congr (c : R) {A A' : Img R d} (hA : A.SEq A') : (smulI c A).SEq (smulI c A') :=
  ⟨hA.1, hA.2.1, fun y hy n => by simp only [smulI, hA.2.2 y hy n]⟩

omit [CommRing R] in
theorem transposeI_congr (π : List Nat) {A A' : Img R d} (hA : A.SEq A') :
    (transposeI π A).SEq (transposeI π A') :=
  ⟨hA.1, hA.2.1, fun y hy n => by simp only [transposeI, hA.2.2 y hy _]⟩

theorem multicontractI_congr (ps : List (Nat × Nat)) {A A' : Img R d} (hA : A.SEq A') :
    (multicontractI ps A).SEq (multicontractI ps A') :=
  ⟨hA.1, by simp only [multicontractI, hA.2.1], fun y hy n => by
    simp only [multicontractI, SEq.val_eq hA y hy, hA.2.1]⟩

theorem outerLC_congr {A A' : Img R d} (hA : A.SEq A') : (outerLC A).SEq (outerLC A') :=
  ⟨hA.1, by simp only [outerLC, hA.2.1], fun y hy n => by
    simp only [outerLC, hA.2.2 y hy _, hA.2.1]⟩

theorem leviCivitaI_congr (idxs : List Nat) {A A' : Img R d} (hA : A.SEq A') :
    (leviCivitaI idxs A).SEq (leviCivitaI idxs A') := by
  unfold leviCivitaI
  rw [hA.2.1]
  exact multicontractI_congr _ (outerLC_congr hA)

theorem normI_congr (sqrtF : R → R) {A A' : Img R d} (hA : A.SEq A') :
    (normI sqrtF A).SEq (normI sqrtF A') :=
  ⟨hA.1, rfl, fun y hy n => by
    cases n with
    | nil => simp only [normI, normSq, SEq.val_eq hA y hy, hA.2.1]
    | cons a n => rfl⟩

/-- Levi-Civita contraction: outer product with `ε` (which transforms with `det g`), then `D − 1`
Kronecker contractions -/
theorem leviCivita_act (g : SP d) (hg : LCSign g) (c : Int) (idxs : List Nat) (A : Img R d)
    (hwf : wfPairs (lcPairs A.k idxs) (List.replicate (A.k + d) false) = true) :
    (leviCivitaI idxs (pf g c A)).SEq (pf g (c * det g.mat) (leviCivitaI idxs A)) := by
  unfold leviCivitaI
  have hk : (pf g c A).k = A.k := rfl
  rw [hk]
  exact (multicontractI_congr _ (outerLC_act g hg c A)).trans
    (multicontract_act g _ _ (outerLC A) hwf)

end Congr
end GinjaxVerif.C05
