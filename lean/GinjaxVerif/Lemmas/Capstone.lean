import GinjaxVerif.Properties.C03
import GinjaxVerif.Properties.C06
import GinjaxVerif.Lemmas.C07Train

/-!
# Capstone: generated invariant filters ⇒ invariant bank ⇒ equivariant layer

C03 proves that every row returned by the executable model `uniqueInvariantFilters` of
`get_unique_invariant_filters` is fixed by every operator of the operator list (`model_family_basis`),
and that the monomial action it talks about is C02's model `tge` of `times_group_element`
(`Lemmas/C03Link.lean`).  C06 / C07 assume `Layer.BankInv g M bank`.  This file closes the gap:

* `unflatZ`, `member_invariant`   the integer form of C03's invariance clause;
* `ClosedOps`                     "the operator list is a finite group": non-empty, duplicate free,
                                  closed under the matrix product;
* `bankOfFamily`                  the Lean counterpart of `get_invariant_filters(Ms=[M], ks, parities, D,
                                  operators)` assembled by `MultiImage.from_images`: loop `k`, parity; key
                                  `(k, parity % 2)` in order of first appearance; families of one key
                                  concatenated; empty families skipped; values cast from `ℤ` to any
                                  commutative ring and multiplied by an arbitrary factor per filter;
* `bankOfFamily_shape`            its keys and block shapes are C03's `assembleBank`;
* `bankOfFamily_mem_invariant`, **`bankOfFamily_invariant`**: `Layer.BankInv (toAction h) (fun _ => M)`
                                  for every `h` of the operator list;
* `leavesOfBank`, `leaves_invariant`   the same for the bank leaves of C09 / C07 (`FB`);
* `layerSpec_equivariant_generated`, `layer_equivariant_generated`  C06 with the bank hypothesis
                                  discharged.

The network corollaries are in `Properties/C07.lean` (section `Generated`).
-/
namespace GinjaxVerif.Capstone

open GinjaxVerif GinjaxVerif.C20 GinjaxVerif.Layer

variable {d : ℕ}

/-! ### (0) operator lists that are groups -/

/-- the operator list is (the element list of) a finite group of signed permutation matrices:
non-empty, without repetitions, closed under the matrix product (`B_d` = `make_all_operators(D)`, its
rotation subgroup, `C2^d` = `make_C2_group(D)`, cyclic groups, …).  Without `nodup` the group sums are
not invariant (`[1, g, g]`). -/
structure ClosedOps (ops : List (C03.SP d)) : Prop where
  ne : ops ≠ []
  nodup : ops.Nodup
  closed : ∀ g ∈ ops, ∀ h ∈ ops, g * h ∈ ops

theorem ClosedOps.exists_enumerates {ops : List (C03.SP d)} (hops : ClosedOps ops) :
    ∃ H : Subgroup (C03.SP d), C03.Enumerates ops H := by
  obtain ⟨H, hH⟩ := C03.exists_subgroup_of_closed ops hops.ne hops.closed
  exact ⟨H, hops.nodup, hH⟩

/-- a closed list contains the inverses of its members -/
theorem ClosedOps.inv_mem {ops : List (C03.SP d)} (hops : ClosedOps ops) (h : C03.SP d)
    (hh : h ∈ ops) : h⁻¹ ∈ ops := by
  obtain ⟨H, hH⟩ := C03.exists_subgroup_of_closed ops hops.ne hops.closed
  exact (hH _).2 (H.inv_mem ((hH _).1 hh))

/-- C02 → C03 → C02 is the identity -/
theorem toAction_spOfAction (g : GinjaxVerif.SP d) : C03.toAction (C03.spOfAction g) = g := by
  cases g with
  | mk σ s hs =>
    simp only [C03.toAction, C03.spOfAction, SP.mk.injEq, true_and]
    funext a
    rcases hs a with h | h <;> simp [h]

/-- the inverse in C03's group is the inverse of C02's signed permutations -/
theorem toAction_inv (h : C03.SP d) : C03.toAction h⁻¹ = (C03.toAction h).inv := by
  simp only [C03.toAction, SP.inv, C03.SP.inv_σ, C03.SP.inv_s, SP.mk.injEq]
  refine ⟨rfl, ?_⟩
  funext a
  simp only [Int.units_inv_eq_self]
  rfl

/-! ### (1) the integer form of C03's invariance clause -/

/-- read a flattened integer row back as a filter (C03's `unflat` before the cast) -/
def unflatZ (d M k : ℕ) (r : List ℤ) : C03.FIdx d M k → ℤ :=
  fun j => r.getD ((C03.allIdx d M k).idxOf j) 0

theorem unflat_eq_cast (K : Type*) [Field K] (M k : ℕ) (r : List ℤ) :
    C03.unflat K d M k r = fun j => ((unflatZ d M k r j : ℤ) : K) := rfl

/-- **every row of the generated family is fixed by every operator** (C03's `model_family_basis`,
first clause, read over `ℤ`): the monomial action `act` of every member of the operator list leaves
the filter unchanged — every `d`, `M`, `k`, `p`. -/
theorem member_invariant {ops : List (C03.SP d)} {H : Subgroup (C03.SP d)} [Fintype H]
    (hE : C03.Enumerates ops H) (M k p : ℕ) (r : List ℤ)
    (hr : r ∈ C03.uniqueInvariantFilters (ops.map C03.SP.toCore) M k p)
    (h : C03.SP d) (hh : h ∈ ops) :
    C03.act h.toCore p (unflatZ d M k r) = unflatZ d M k r := by
  have hb := (C03.model_family_basis (M := M) (k := k) ℚ p ops H hE (fun _ => 1) (by simp)).1
  have hv : C03.unflat ℚ d M k r ∈ C03.modelFamily ℚ ops M k p := List.mem_map_of_mem hr
  obtain ⟨n, hn⟩ := List.get_of_mem hv
  have h1 := hb n ⟨h, (hE.mem h).1 hh⟩
  simp only [one_smul] at h1
  rw [hn] at h1
  funext j
  apply Int.cast_injective (α := ℚ)
  rw [C03.act_toCore ℚ]
  exact congrFun h1 j

theorem member_invariant_closed {ops : List (C03.SP d)} (hops : ClosedOps ops) (M k p : ℕ)
    (r : List ℤ) (hr : r ∈ C03.uniqueInvariantFilters (ops.map C03.SP.toCore) M k p)
    (h : C03.SP d) (hh : h ∈ ops) :
    C03.act h.toCore p (unflatZ d M k r) = unflatZ d M k r := by
  obtain ⟨H, hE⟩ := hops.exists_enumerates
  have : Fintype H := Fintype.ofFinite H
  exact member_invariant hE M k p r hr h hh

/-- the zero filter (an out-of-range filter index reads the empty row) is invariant -/
theorem act_unflatZ_nil (g : C03.SPerm d) (M k p : ℕ) :
    C03.act g p (unflatZ d M k []) = unflatZ d M k [] := by
  funext j
  simp [C03.act, unflatZ]

/-! ### (2) from `act … A = A` to the `pf` form on the box, over any commutative ring -/

section PF
variable {R : Type} [CommRing R]

/-- a filter fixed by C03's `act` (with parity exponent `p`), seen as an image, cast to `R` and
multiplied by any constant `c`, equals its permute-and-flip transform with scalar `det^q` whenever
`q ≡ p (mod 2)` — at every pixel of the box and every index list of the filter's order -/
theorem filterImg_invariant (g : GinjaxVerif.SP d) {M k : ℕ} (p q : ℕ) (hq : p % 2 = q % 2)
    (A : C03.FIdx d M k → ℤ) (hA : C03.act (C03.ofAction g) p A = A) (c : R)
    (a : Pix d) (T : List (Fin d)) (ha : InBox (fun _ => M) a) (hT : T.length = k) :
    (pf g ((det g.mat) ^ q)
        (⟨fun _ => M, k, fun y n => c * (((C03.imgOfFilter A).val y n : ℤ) : R)⟩ : Img R d)).val a T
      = c * (((C03.imgOfFilter A).val a T : ℤ) : R) := by
  obtain ⟨hd, hk⟩ := C03.tge_imgOfFilter_dims g p A
  have hbox : InBox (tge g.mat p (C03.imgOfFilter A)).dims a := by rw [hd]; exact ha
  have e1 := (tge_seq_pf g p (C03.imgOfFilter A)).2.2 a hbox T
  have e2 := (C03.tge_imgOfFilter_equiv g p A).2.2 a hbox T (by rw [hk]; exact hT)
  rw [hA] at e2
  rw [e1] at e2
  simp only [pf, Int.cast_id, C03.imgOfFilter_dims] at e2
  have hdet : (det g.mat) ^ q = (det g.mat) ^ p := by
    rw [pow_mod_two_of_sq _ g.det_mul_self q, pow_mod_two_of_sq _ g.det_mul_self p, hq]
  simp only [pf]
  rw [← e2, hdet]
  push_cast
  ring

end PF

/-! ### (3) the generated bank -/

/-- the families in loop order (`for k in ks: for parity in parities:`), keyed as
`MultiImage.from_images` keys them: `(k, parity % 2)` -/
def families (ops : List (C03.SP d)) (M : ℕ) (ks ps : List ℕ) : List (Ty × List (List ℤ)) :=
  ks.flatMap fun k => ps.map fun p =>
    ((k, p % 2), C03.uniqueInvariantFilters (ops.map C03.SP.toCore) M k p)

/-- `MultiImage.from_images` on one more family: nothing for an empty family; a new key is appended;
an existing key gets the new filters concatenated and keeps its position -/
def mergeStep (l : List (Ty × List (List ℤ))) (e : Ty × List (List ℤ)) : List (Ty × List (List ℤ)) :=
  if e.2.length = 0 then l
  else match l.find? (fun x => x.1 == e.1) with
    | none => l ++ [e]
    | some _ => l.map fun y => if y.1 == e.1 then (y.1, y.2 ++ e.2) else y

/-- rows per key, in dict order -/
def mergedFamilies (ops : List (C03.SP d)) (M : ℕ) (ks ps : List ℕ) : List (Ty × List (List ℤ)) :=
  (families ops M ks ps).foldl mergeStep []

/-- one block `(number of filters, (M,)*d, (d,)*k)` of the bank: filter `f` is row `f` read back as a
filter, seen as an image (`imgOfFilter`), cast to `R` and multiplied by the factor `t f` -/
def blockOfRows (R : Type) [CommRing R] (d M : ℕ) (key : Ty) (t : ℕ → R) (rows : List (List ℤ)) :
    Block R d :=
  { chans := rows.length
    dims := fun _ => M
    val := fun f a T =>
      t f * (((C03.imgOfFilter (unflatZ d M key.1 (rows.getD f []))).val a T : ℤ) : R) }

/-- **the generated filter bank** `get_invariant_filters(Ms=[M], ks, parities, D, operators)` as the
`invariant_filters` argument of the layers (`Layer.MImg`): values cast from `ℤ` to `R`, filter `f` of
the block of key `key` multiplied by the arbitrary factor `t key f` (the code's sign / max-abs /
`normalize` rescaling; invariance does not need `t ≠ 0`) -/
def bankOfFamily (R : Type) [CommRing R] (ops : List (C03.SP d)) (M : ℕ) (ks ps : List ℕ)
    (t : Ty → ℕ → R) : MImg R d :=
  (mergedFamilies ops M ks ps).map fun e => (e.1, blockOfRows R d M e.1 (t e.1) e.2)

/-! #### keys and shapes are C03's `assembleBank` -/

/-- the shape entry `((k, parity), (number of filters, M))` of a keyed family -/
def shapeOf (M : ℕ) (e : Ty × List (List ℤ)) : (ℕ × ℕ) × (ℕ × ℕ) := (e.1, (e.2.length, M))

/-- the loop body of `C03.assembleBank` -/
def sigStep (acc : Option (List ((ℕ × ℕ) × (ℕ × ℕ)))) (e : (ℕ × ℕ) × (ℕ × ℕ)) :
    Option (List ((ℕ × ℕ) × (ℕ × ℕ))) :=
  match acc with
  | none => none
  | some l =>
    if e.2.1 = 0 then some l
    else match l.find? (fun x => x.1 == e.1) with
      | none => some (l ++ [e])
      | some x =>
        if x.2.2 = e.2.2 then
          some (l.map fun y => if y.1 == e.1 then (y.1, (y.2.1 + e.2.1, y.2.2)) else y)
        else none

theorem assembleBank_eq (ops : List (C03.SPerm d)) (Ms ks ps : List ℕ) :
    C03.assembleBank ops Ms ks ps =
      match (Ms.flatMap fun M => ks.flatMap fun k => ps.map fun p =>
          ((k, p % 2), ((C03.uniqueInvariantFilters ops M k p).length, M))).foldl sigStep (some []) with
      | some [] => none
      | r => r := rfl

theorem sigStep_shape (M : ℕ) (l : List (Ty × List (List ℤ))) (e : Ty × List (List ℤ)) :
    sigStep (some (l.map (shapeOf M))) (shapeOf M e) = some ((mergeStep l e).map (shapeOf M)) := by
  have e1 : (shapeOf M e).1 = e.1 := rfl
  have e2 : (shapeOf M e).2.1 = e.2.length := rfl
  have e3 : (shapeOf M e).2.2 = M := rfl
  unfold sigStep mergeStep
  simp only [e1, e2, e3]
  by_cases h0 : e.2.length = 0
  · simp [h0]
  · simp only [h0, if_false]
    rw [List.find?_map]
    have hcomp : ((fun x : (ℕ × ℕ) × (ℕ × ℕ) => x.1 == e.1) ∘ shapeOf M)
        = fun x : Ty × List (List ℤ) => x.1 == e.1 := rfl
    rw [hcomp]
    cases hfind : l.find? (fun x => x.1 == e.1) with
    | none => simp
    | some x =>
      have e4 : (shapeOf M x).2.2 = M := rfl
      simp only [Option.map_some, e4, if_true, Option.some.injEq, List.map_map]
      apply List.map_congr_left
      intro y _
      simp only [Function.comp_apply]
      have e5 : (shapeOf M y).1 = y.1 := rfl
      rw [e5]
      by_cases hk : (y.1 == e.1) = true
      · rw [if_pos hk, if_pos hk]; simp [shapeOf]
      · rw [if_neg hk, if_neg hk]

theorem foldl_sigStep_shape (M : ℕ) (fams l : List (Ty × List (List ℤ))) :
    (fams.map (shapeOf M)).foldl sigStep (some (l.map (shapeOf M)))
      = some ((fams.foldl mergeStep l).map (shapeOf M)) := by
  induction fams generalizing l with
  | nil => rfl
  | cons e fams ih =>
    simp only [List.map_cons, List.foldl_cons]
    rw [sigStep_shape, ih]

/-- **keys, dict order and block shapes of the generated bank are those of C03's `assembleBank`** (the
model of `get_invariant_filters` + `MultiImage.from_images` that the C03 harness compares with the
library); `none` (the code asserts) exactly when the bank is empty -/
theorem bankOfFamily_shape (R : Type) [CommRing R] (ops : List (C03.SP d)) (M : ℕ) (ks ps : List ℕ)
    (t : Ty → ℕ → R) :
    C03.assembleBank (ops.map C03.SP.toCore) [M] ks ps =
      match (bankOfFamily R ops M ks ps t).map (fun e => (e.1, (e.2.chans, M))) with
      | [] => none
      | l => some l := by
  rw [assembleBank_eq]
  have hf : ([M].flatMap fun M => ks.flatMap fun k => ps.map fun p =>
      ((k, p % 2), ((C03.uniqueInvariantFilters (ops.map C03.SP.toCore) M k p).length, M)))
      = (families ops M ks ps).map (shapeOf M) := by
    simp only [List.flatMap_cons, List.flatMap_nil, List.append_nil, families, List.map_flatMap,
      List.map_map]
    rfl
  rw [hf]
  have h := foldl_sigStep_shape M (families ops M ks ps) []
  simp only [List.map_nil] at h
  rw [h]
  have hb : (bankOfFamily R ops M ks ps t).map (fun e => (e.1, (e.2.chans, M)))
      = (mergedFamilies ops M ks ps).map (shapeOf M) := by
    simp only [bankOfFamily, List.map_map]
    rfl
  rw [hb]
  unfold mergedFamilies
  generalize List.map (shapeOf M) (List.foldl mergeStep [] (families ops M ks ps)) = L
  cases L <;> rfl

/-! #### every filter of the generated bank is invariant -/

/-- what every row stored under `key` satisfies: it is fixed by `act` of every operator, for a parity
exponent congruent to the key's parity -/
def RowInv (ops : List (C03.SP d)) (M : ℕ) (key : Ty) (r : List ℤ) : Prop :=
  ∃ p, p % 2 = key.2 % 2 ∧
    ∀ h ∈ ops, C03.act h.toCore p (unflatZ d M key.1 r) = unflatZ d M key.1 r

theorem rowInv_nil (ops : List (C03.SP d)) (M : ℕ) (key : Ty) : RowInv ops M key [] :=
  ⟨key.2, rfl, fun h _ => act_unflatZ_nil h.toCore M key.1 key.2⟩

theorem families_rowInv {ops : List (C03.SP d)} (hops : ClosedOps ops) (M : ℕ) (ks ps : List ℕ) :
    ∀ e ∈ families ops M ks ps, ∀ r ∈ e.2, RowInv ops M e.1 r := by
  intro e he r hr
  simp only [families, List.mem_flatMap, List.mem_map] at he
  obtain ⟨k, _, p, _, rfl⟩ := he
  exact ⟨p, by simp, fun h hh => member_invariant_closed hops M k p r hr h hh⟩

theorem mergeStep_rowInv (ops : List (C03.SP d)) (M : ℕ) (l : List (Ty × List (List ℤ)))
    (e : Ty × List (List ℤ)) (hl : ∀ x ∈ l, ∀ r ∈ x.2, RowInv ops M x.1 r)
    (he : ∀ r ∈ e.2, RowInv ops M e.1 r) :
    ∀ x ∈ mergeStep l e, ∀ r ∈ x.2, RowInv ops M x.1 r := by
  unfold mergeStep
  split
  · exact hl
  · split
    · intro x hx
      rw [List.mem_append, List.mem_singleton] at hx
      rcases hx with hx | rfl
      · exact hl x hx
      · exact he
    · intro x hx r hr
      rw [List.mem_map] at hx
      obtain ⟨y, hy, rfl⟩ := hx
      by_cases hk : (y.1 == e.1) = true
      · rw [if_pos hk] at hr ⊢
        simp only at hr ⊢
        rw [List.mem_append] at hr
        rcases hr with hr | hr
        · exact hl y hy r hr
        · have : y.1 = e.1 := by simpa using hk
          rw [this]; exact he r hr
      · rw [if_neg hk] at hr ⊢
        exact hl y hy r hr

theorem foldl_mergeStep_rowInv (ops : List (C03.SP d)) (M : ℕ) (fams l : List (Ty × List (List ℤ)))
    (hf : ∀ e ∈ fams, ∀ r ∈ e.2, RowInv ops M e.1 r)
    (hl : ∀ x ∈ l, ∀ r ∈ x.2, RowInv ops M x.1 r) :
    ∀ x ∈ fams.foldl mergeStep l, ∀ r ∈ x.2, RowInv ops M x.1 r := by
  induction fams generalizing l with
  | nil => exact hl
  | cons e fams ih =>
    rw [List.foldl_cons]
    exact ih _ (fun e' he' => hf e' (List.mem_cons_of_mem _ he'))
      (mergeStep_rowInv ops M l e hl (hf e (by simp)))

theorem mergedFamilies_rowInv {ops : List (C03.SP d)} (hops : ClosedOps ops) (M : ℕ)
    (ks ps : List ℕ) : ∀ x ∈ mergedFamilies ops M ks ps, ∀ r ∈ x.2, RowInv ops M x.1 r :=
  foldl_mergeStep_rowInv ops M _ [] (families_rowInv hops M ks ps) (by simp)

section Inv
variable {R : Type} [CommRing R]

/-- every entry of the generated bank has extents `(M,…,M)` and every one of its filters — at EVERY
filter index — is invariant in the sense of `Layer.BankInv` under every operator of the list -/
theorem bankOfFamily_mem_invariant {ops : List (C03.SP d)} (hops : ClosedOps ops) (M : ℕ)
    (ks ps : List ℕ) (t : Ty → ℕ → R) (h : C03.SP d) (hh : h ∈ ops) :
    ∀ e ∈ bankOfFamily R ops M ks ps t, e.2.dims = (fun _ => M) ∧
      ∀ f a T, InBox (fun _ => M) a → T.length = e.1.1 →
        (pf (C03.toAction h) ((det (C03.toAction h).mat) ^ e.1.2)
          ⟨fun _ => M, e.1.1, e.2.val f⟩).val a T = e.2.val f a T := by
  intro e he
  simp only [bankOfFamily, List.mem_map] at he
  obtain ⟨x, hx, rfl⟩ := he
  refine ⟨rfl, ?_⟩
  intro f a T ha hT
  have hrow : RowInv ops M x.1 (x.2.getD f []) := by
    rw [List.getD_eq_getElem?_getD]
    cases hg : x.2[f]? with
    | none => exact rowInv_nil ops M x.1
    | some r => exact mergedFamilies_rowInv hops M ks ps x hx r (List.mem_of_getElem? hg)
  obtain ⟨p, hp, hinv⟩ := hrow
  exact filterImg_invariant (C03.toAction h) p x.1.2 hp _ (hinv h hh) (t x.1 f) a T ha hT

/-- **(b) THE GENERATED BANK IS INVARIANT.**  For every operator list that is a finite group of signed
permutation matrices, every side `M`, every list of orders `ks` and parities `ps`, every commutative
ring `R` and every rescaling `t`: every operator `h` of the list, as C02's signed permutation
`toAction h` (matrix `h.entry`, `C03.toAction_mat`), leaves the bank
`get_invariant_filters(Ms=[M], ks, ps, D, ops)` invariant in exactly the sense C06 / C07 require. -/
theorem bankOfFamily_invariant {ops : List (C03.SP d)} (hops : ClosedOps ops) (M : ℕ)
    (ks ps : List ℕ) (t : Ty → ℕ → R) (h : C03.SP d) (hh : h ∈ ops) :
    BankInv (C03.toAction h) (fun _ => M) (bankOfFamily R ops M ks ps t) := by
  refine ⟨fun _ => rfl, ?_⟩
  intro key F hF f a T ha hT
  exact (bankOfFamily_mem_invariant hops M ks ps t h hh (key, F) (lookup_mem _ _ _ hF)).2 f a T ha hT

/-- the same with the operator given as a signed permutation of C02 (`g : GinjaxVerif.SP d`, matrix
`g.mat`) whose C03 form belongs to the list -/
theorem bankOfFamily_invariant_action {ops : List (C03.SP d)} (hops : ClosedOps ops) (M : ℕ)
    (ks ps : List ℕ) (t : Ty → ℕ → R) (g : GinjaxVerif.SP d) (hg : C03.spOfAction g ∈ ops) :
    BankInv g (fun _ => M) (bankOfFamily R ops M ks ps t) := by
  have := bankOfFamily_invariant hops M ks ps t (C03.spOfAction g) hg
  rwa [toAction_spOfAction] at this

/-! ### (4) the bank leaves of C09 / C07 -/

/-- the array leaves of a bank (`C07.FB`: keyed blocks up to equality on their box) -/
def leavesOfBank (bank : MImg R d) : List (C07.FB R d) :=
  bank.map fun e => (⟦⟨e.1, e.2⟩⟧ : C07.FB R d)

/-- the group of C09's statement: the operators of the list, as signed permutations of C02 -/
def InOps (ops : List (C03.SP d)) (g : GinjaxVerif.SP d) : Prop := ∃ h ∈ ops, g = C03.toAction h

theorem inOps_inv {ops : List (C03.SP d)} (hops : ClosedOps ops) (g : GinjaxVerif.SP d)
    (hg : InOps ops g) : InOps ops g.inv := by
  obtain ⟨h, hh, rfl⟩ := hg
  exact ⟨h⁻¹, hops.inv_mem h hh, (toAction_inv h).symm⟩

/-- every leaf of a generated bank is strictly invariant (equality in the quotient `FB`) under every
operator of the list: the hypothesis `C09.BankInvariant` -/
theorem leaves_invariant {ops : List (C03.SP d)} (hops : ClosedOps ops) (M : ℕ)
    (ks ps : List ℕ) (t : Ty → ℕ → R) :
    ∀ b ∈ leavesOfBank (bankOfFamily R ops M ks ps t), ∀ g : Subtype (InOps ops), g • b = b := by
  intro b hb g
  obtain ⟨g, h, hh, rfl⟩ := g
  simp only [leavesOfBank, List.mem_map] at hb
  obtain ⟨e, he, rfl⟩ := hb
  obtain ⟨hd, hv⟩ := bankOfFamily_mem_invariant hops M ks ps t h hh e he
  apply Quotient.sound
  refine ⟨rfl, rfl, ?_, ?_⟩
  · show (fun i => e.2.dims ((C03.toAction h).σ i)) = e.2.dims
    rw [hd]
  · intro f y T hy hT
    have hy' : InBox (fun _ => M) y := by
      have : InBox (fun i => e.2.dims ((C03.toAction h).σ i)) y := hy
      rw [hd] at this
      exact this
    have := hv f y T hy' hT
    show (pf (C03.toAction h) _ ⟨e.2.dims, e.1.1, e.2.val f⟩).val y T = e.2.val f y T
    rw [hd]
    exact this

/-! ### (5) C06 with the bank hypothesis discharged -/

/-- **C06 (spec) for the generated bank**: a layer whose `invariant_filters` is the generated bank of
side `M` commutes with every operator of the list, for every weight / bias / `μ` value; remaining
hypotheses: symmetric options that fit, input blocks on the layer's grid. -/
theorem layerSpec_equivariant_generated {ops : List (C03.SP d)} (hops : ClosedOps ops) (M : ℕ)
    (ks ps : List ℕ) (t : Ty → ℕ → R) (h : C03.SP d) (hh : h ∈ ops) (P : Params R d)
    (hM : ∀ j, (P.ax j).M = M) (hbank : P.bank = bankOfFamily R ops M ks ps t)
    (hs : ∀ j, (P.ax j).Sym) (hf : ∀ j, (P.ax j).Fits) (x : MImg R d)
    (hx : ∀ e ∈ x, e.2.dims = fun j => (P.ax j).N) (ty : Ty) (n o : ℕ) (i' : Pix d)
    (T : List (Fin d)) (hT : T.length = ty.1) :
    layerSpec (P.push (C03.toAction h)) (actMI (C03.toAction h) x) ty o i' T
      = (actBlock (C03.toAction h) ty ⟨n, outDims P, layerSpec P x ty⟩).val o i' T := by
  have hinv : BankInv (C03.toAction h) (fun j => (P.ax j).M) P.bank := by
    rw [hbank, show (fun j => (P.ax j).M) = fun _ => M from funext hM]
    exact bankOfFamily_invariant hops M ks ps t h hh
  exact C06.layerSpec_equivariant (C03.toAction h) P hs hf hinv x hx ty n o i' T hT

/-- **C06 (model of the code) for the generated bank** -/
theorem layer_equivariant_generated {ops : List (C03.SP d)} (hops : ClosedOps ops) (M : ℕ)
    (ks ps : List ℕ) (t : Ty → ℕ → R) (h : C03.SP d) (hh : h ∈ ops) (P : Params R d)
    (hM : ∀ j, (P.ax j).M = M) (hbank : P.bank = bankOfFamily R ops M ks ps t)
    (hn : KeysNodup P.target) (hs : ∀ j, (P.ax j).Sym) (hf : ∀ j, (P.ax j).Fits) (x : MImg R d)
    (hx : ∀ e ∈ x, e.2.dims = fun j => (P.ax j).N) (ty : Ty) (n : ℕ) (ht : (ty, n) ∈ P.target) :
    (lookup (layerV (P.push (C03.toAction h)) (actMI (C03.toAction h) x)) ty).isSome
        = (lookup (layerV P x) ty).isSome ∧
    ∀ b b', lookup (layerV P x) ty = some b →
      lookup (layerV (P.push (C03.toAction h)) (actMI (C03.toAction h) x)) ty = some b' →
      b'.chans = (actBlock (C03.toAction h) ty b).chans ∧
      b'.dims = (actBlock (C03.toAction h) ty b).dims ∧
      ∀ o, o < n → ∀ (i' : Pix d) (T : List (Fin d)), T.length = ty.1 →
        b'.val o i' T = (actBlock (C03.toAction h) ty b).val o i' T := by
  have hinv : BankInv (C03.toAction h) (fun j => (P.ax j).M) P.bank := by
    rw [hbank, show (fun j => (P.ax j).M) = fun _ => M from funext hM]
    exact bankOfFamily_invariant hops M ks ps t h hh
  exact C06.layer_equivariant (C03.toAction h) P hn hs hf hinv x hx ty n ht

end Inv

/-! ### non-vacuity -/

/-- the rotation group of the square, `[1, r, r², r³]` -/
def rotOps : List (C03.SP 2) :=
  [1, C03.rot90, C03.rot90 * C03.rot90, C03.rot90 * C03.rot90 * C03.rot90]

/-- `ClosedOps` is satisfiable (and checkable by `decide`) -/
theorem rotOps_closed : ClosedOps rotOps :=
  ⟨by simp [rotOps], by decide, by decide⟩

theorem rotOps_charSum : C03.characterSum (rotOps.map C03.SP.toCore) 3 0 0 = 12 := by decide

/-- the generated family is not empty: three rotation-invariant scalar `3 × 3` filters (C03's
character count) -/
theorem rotOps_card : (C03.uniqueInvariantFilters (rotOps.map C03.SP.toCore) 3 0 0).length = 3 := by
  obtain ⟨H, hE⟩ := rotOps_closed.exists_enumerates
  have : Fintype H := Fintype.ofFinite H
  have h := C03.model_family_card (M := 3) (k := 0) 0 rotOps H hE
  rw [rotOps_charSum] at h
  have h4 : (rotOps.length : ℤ) = 4 := rfl
  rw [h4] at h
  omega

/-- … so the generated bank has a scalar block of three filters, and `bankOfFamily_invariant` says
something about it -/
example (t : Ty → ℕ → ℚ) :
    (bankOfFamily ℚ rotOps 3 [0] [0] t).map (fun e => (e.1, e.2.chans)) = [((0, 0), 3)] := by
  simp [bankOfFamily, mergedFamilies, families, mergeStep, blockOfRows, rotOps_card]

example (t : Ty → ℕ → ℚ) (h : C03.SP 2) (hh : h ∈ rotOps) :
    BankInv (C03.toAction h) (fun _ => 3) (bankOfFamily ℚ rotOps 3 [0, 1, 2] [0, 1] t) :=
  bankOfFamily_invariant rotOps_closed 3 _ _ t h hh

end GinjaxVerif.Capstone
