import GinjaxVerif.Model.C18
import GinjaxVerif.Lemmas.C12
import Mathlib.Algebra.BigOperators.Group.Finset.Basic
import Mathlib.Algebra.BigOperators.Group.List.Basic
import Mathlib.Algebra.BigOperators.Ring.Finset
import Mathlib.Algebra.BigOperators.Fin
import Mathlib.Algebra.BigOperators.Field
import Mathlib.Algebra.Order.BigOperators.Group.Finset
import Mathlib.Algebra.Order.BigOperators.Group.List
import Mathlib.Algebra.Order.Field.Basic
import Mathlib.Algebra.Field.Basic
import Mathlib.Tactic.Ring
import Mathlib.Tactic.Linarith
import Mathlib.Tactic.Positivity

/-!
# C18 — lemmas: the model's list folds as `Finset` sums, index calculus of the row-major layout
-/
namespace GinjaxVerif.C18
open GinjaxVerif.C12
open Finset

section Sums
variable {R : Type} [AddCommMonoid R]

theorem sumRange_eq (n : Nat) (f : Nat → R) : sumRange n f = ∑ j ∈ range n, f j := by
  unfold sumRange
  induction n with
  | zero => simp
  | succ n ih => rw [List.range_succ, List.map_append, List.sum_append, ih, Finset.sum_range_succ]; simp

/-- a sum over `a·b` consecutive positions is a double sum (row-major split of an axis) -/
theorem sum_range_mul (a b : Nat) (f : Nat → R) :
    ∑ j ∈ range (a * b), f j = ∑ i ∈ range a, ∑ k ∈ range b, f (i * b + k) := by
  induction a with
  | zero => simp
  | succ a ih =>
    rw [Nat.succ_mul, Finset.sum_range_add, ih, Finset.sum_range_succ]

/-- the contiguous chunk of batch entry `i` of a `(·, C, P, n)` array, in coordinates -/
theorem chunk_sum (g : Nat → R) (C P n i : Nat) :
    ∑ j ∈ range (C * P * n), g (i * (C * P * n) + j)
      = ∑ ch ∈ range C, ∑ p ∈ range P, ∑ m ∈ range n, g (off C P n i ch p m) := by
  rw [sum_range_mul (C * P) n, sum_range_mul C P]
  refine Finset.sum_congr rfl (fun ch _ => Finset.sum_congr rfl (fun p _ => Finset.sum_congr rfl (fun m _ => ?_)))
  congr 1
  simp only [off]
  ring

/-- after `reshape (b, C'·steps, rest) → (b, C', steps, rest)`: position of `(i, c, s, (p, m))` -/
theorem ts_index (C' steps P n i c s p m : Nat) :
    ((i * C' + c) * steps + s) * (P * n) + (p * n + m) = off (C' * steps) P n i (c * steps + s) p m := by
  simp only [off]
  ring

theorem list_sum_map_finset_sum {α : Type} (l : List α) (s : Finset Nat) (g : Nat → α → R) :
    ∑ k ∈ s, (l.map (g k)).sum = (l.map (fun a => ∑ k ∈ s, g k a)).sum := by
  induction l with
  | nil => simp
  | cons a l ih => simp [Finset.sum_add_distrib, ih]

end Sums

section Shapes

theorem prod_cons (a : Nat) (l : List Nat) : Block.prod (a :: l) = a * Block.prod l := rfl

theorem prod_append (l m : List Nat) : Block.prod (l ++ m) = Block.prod l * Block.prod m := by
  induction l with
  | nil => simp [Block.prod]
  | cons a l ih => rw [List.cons_append, prod_cons, prod_cons, ih, Nat.mul_assoc]

end Shapes

/-- what the losses require of an argument: unique keys, at least one block, every block of shape
`(L, C_t, spatial…, (D,)*k)` with common batch size `L` and spatial extents `sp` -/
structure LossWF {R : Type} (x : MI R) (L : Nat) (sp : List Nat) : Prop where
  wf : x.WF
  ne : x.data ≠ []
  dim : sp.length = x.D
  shape : ∀ kv ∈ x.data, ∃ C, kv.2.shape = L :: C :: (sp ++ List.replicate kv.1.1 x.D)

namespace LossWF
variable {R : Type} {x : MI R} {L : Nat} {sp : List Nat}

theorem nLeading_eq (h : LossWF x L sp) : MI.nLeading x = 2 := by
  obtain ⟨_, hne, hdim, hshape⟩ := h
  cases hd : x.data with
  | nil => exact absurd hd hne
  | cons kv rest =>
    obtain ⟨C, hC⟩ := hshape kv (by rw [hd]; exact List.mem_cons_self ..)
    obtain ⟨t, b⟩ := kv
    simp only at hC
    simp only [MI.nLeading, hd, hC, List.length_cons, List.length_append, List.length_replicate, hdim]
    omega

theorem spatialDims_eq (h : LossWF x L sp) : spatialDims x = sp := by
  obtain ⟨_, hne, hdim, hshape⟩ := h
  cases hd : x.data with
  | nil => exact absurd hd hne
  | cons kv rest =>
    obtain ⟨C, hC⟩ := hshape kv (by rw [hd]; exact List.mem_cons_self ..)
    obtain ⟨t, b⟩ := kv
    simp only at hC
    simp only [spatialDims, hd, hC, List.length_cons, List.length_append, List.length_replicate, hdim]
    have : x.D + t.1 + 1 + 1 - (t.1 + x.D) = 2 := by omega
    rw [this]
    simp only [List.drop_succ_cons, List.drop_zero]
    rw [← hdim, List.take_left]

theorem spatialSize_eq (h : LossWF x L sp) : spatialSize x = Block.prod sp := by
  rw [spatialSize, h.spatialDims_eq]

theorem getL_eq (h : LossWF x L sp) : getL x = L := by
  obtain ⟨_, hne, hdim, hshape⟩ := h
  cases hd : x.data with
  | nil => exact absurd hd hne
  | cons kv rest =>
    obtain ⟨C, hC⟩ := hshape kv (by rw [hd]; exact List.mem_cons_self ..)
    obtain ⟨t, b⟩ := kv
    simp only at hC
    simp [getL, hd, hC]

/-- shape data of one block -/
theorem block_dims (h : LossWF x L sp) {kv : Key × Block R} (hkv : kv ∈ x.data) :
    pixOf kv.2 x.D = Block.prod sp ∧
    Block.prod kv.2.shape.tail = chanOf kv.2 * Block.prod sp * compOf kv.2 x.D ∧
    Block.prod (kv.2.shape.drop 2) = Block.prod sp * compOf kv.2 x.D ∧
    compOf kv.2 x.D = Block.prod (List.replicate kv.1.1 x.D) := by
  obtain ⟨C, hC⟩ := h.shape kv hkv
  have hdim := h.dim
  have h1 : (sp ++ List.replicate kv.1.1 x.D).take x.D = sp := by rw [← hdim, List.take_left]
  have h2 : (sp ++ List.replicate kv.1.1 x.D).drop x.D = List.replicate kv.1.1 x.D := by
    rw [← hdim, List.drop_left]
  refine ⟨?_, ?_, ?_, ?_⟩
  · simp only [pixOf, hC, List.drop_succ_cons, List.drop_zero, h1]
  · simp only [chanOf, compOf, hC, List.tail_cons, List.getD_cons_succ, List.getD_cons_zero,
      prod_cons, List.drop_succ_cons, h2]
    rw [prod_append, Nat.mul_assoc]
  · simp only [compOf, hC, List.drop_succ_cons, List.drop_zero, h2]
    rw [prod_append]
  · simp only [compOf, hC, List.drop_succ_cons, h2]

end LossWF

/-! ### block level: the code's chunk sums are the coordinate sums of the property -/
section BlockLevel
variable {R : Type} [Field R]

theorem blockLoss_eq (a b : Block R) (C P n S i : Nat) (hc : Block.prod a.shape.tail = C * P * n) :
    blockLoss a b S i
      = (∑ ch ∈ range C, ∑ p ∈ range P, ∑ m ∈ range n, sq a b (off C P n i ch p m)) / (S : R) := by
  simp only [blockLoss, hc, sumRange_eq]
  rw [chunk_sum]

theorem smseBlockSpec_eq (a b : Block R) (C P n i : Nat) :
    smseBlockSpec a b C P n i
      = (∑ ch ∈ range C, ∑ p ∈ range P, ∑ m ∈ range n, sq a b (off C P n i ch p m)) / (P : R) := by
  simp only [smseBlockSpec, sumRange_eq]

theorem tsBlockSpec_eq (a b : Block R) (C P n steps i s : Nat) :
    tsBlockSpec a b C P n steps i s
      = (∑ c ∈ range (C / steps), ∑ p ∈ range P, ∑ m ∈ range n,
          sq a b (off C P n i (c * steps + s) p m)) / (P : R) := by
  simp only [tsBlockSpec, sumRange_eq]

theorem tsBlock_eq (a b : Block R) (C P n steps S i s : Nat) (hC : chanOf a = C) (hdiv : steps ∣ C)
    (hrest : Block.prod (a.shape.drop 2) = P * n) :
    tsBlock a b steps S i s
      = (∑ c ∈ range (C / steps), ∑ p ∈ range P, ∑ m ∈ range n,
          sq a b (off C P n i (c * steps + s) p m)) / (S : R) := by
  have hC' : a.shape.getD 1 0 = C := hC
  simp only [tsBlock, hC', hrest, sumRange_eq]
  congr 1
  refine Finset.sum_congr rfl (fun c _ => ?_)
  rw [sum_range_mul P n]
  refine Finset.sum_congr rfl (fun p _ => Finset.sum_congr rfl (fun m _ => ?_))
  rw [ts_index, Nat.div_mul_cancel hdiv]

/-- channels `c·steps + s` for all `(c, s)` are exactly all channels -/
theorem steps_sum (h : Nat → R) (C steps : Nat) (hdiv : steps ∣ C) :
    ∑ s ∈ range steps, ∑ c ∈ range (C / steps), h (c * steps + s) = ∑ ch ∈ range C, h ch := by
  rw [Finset.sum_comm]
  conv_rhs => rw [← Nat.div_mul_cancel hdiv]
  rw [sum_range_mul]

/-- **block level `timestep_sum_eq_smse`** -/
theorem tsBlockSpec_sum (a b : Block R) (C P n steps i : Nat) (hdiv : steps ∣ C) :
    ∑ s ∈ range steps, tsBlockSpec a b C P n steps i s = smseBlockSpec a b C P n i := by
  simp only [tsBlockSpec_eq, smseBlockSpec_eq]
  rw [← Finset.sum_div]
  congr 1
  exact steps_sum (fun ch => ∑ p ∈ range P, ∑ m ∈ range n, sq a b (off C P n i ch p m)) C steps hdiv

end BlockLevel

/-! ### multi-image level -/
section MILevel
variable {R : Type} [Field R]

omit [Field R] in
theorem hasAll_iff (x y : MI R) : hasAll x y = true ↔ ∀ t ∈ MI.keys x, t ∈ MI.keys y := by
  simp [hasAll, List.all_eq_true]

/-- **`smse_eq_spec`**: the code (chunk sums, block of `y` looked up by key) computes the sentence
of the property, per batch entry. -/
theorem smsePerBatch_eq_spec {x y : MI R} {L : Nat} {sp : List Nat} (h : LossWF x L sp)
    (hy : hasAll x y = true) :
    smsePerBatch x y = some ((List.range L).map (smseSpec x y)) := by
  simp only [smsePerBatch, h.nLeading_eq, hy, h.getL_eq, beq_self_eq_true, Bool.and_self, if_true,
    Option.some.injEq]
  refine List.map_congr_left (fun i _ => ?_)
  unfold smseSpec
  congr 1
  refine List.map_congr_left (fun kv hkv => ?_)
  obtain ⟨h1, h2, -, -⟩ := h.block_dims hkv
  rw [blockLoss_eq _ _ _ _ _ _ _ h2, smseBlockSpec_eq, h.spatialSize_eq, h1]

omit [Field R] in
theorem stepsOk_iff (x : MI R) (steps : Nat) :
    stepsOk x steps = true ↔ 0 < steps ∧ ∀ kv ∈ x.data, steps ∣ chanOf kv.2 := by
  simp only [stepsOk, Bool.and_eq_true, decide_eq_true_eq, List.all_eq_true, beq_iff_eq, chanOf]
  constructor
  · rintro ⟨h0, h⟩; exact ⟨h0, fun kv hkv => Nat.dvd_of_mod_eq_zero (h kv hkv)⟩
  · rintro ⟨h0, h⟩; exact ⟨h0, fun kv hkv => Nat.mod_eq_zero_of_dvd (h kv hkv)⟩

/-- **`timestep_eq_spec`** -/
theorem timestepMatrix_eq_spec {x y : MI R} {L : Nat} {sp : List Nat} (h : LossWF x L sp)
    (hy : hasAll x y = true) (steps : Nat) (hs : stepsOk x steps = true) :
    timestepMatrix x y steps
      = some ((List.range L).map (fun i => (List.range steps).map (tsSpec x y steps i))) := by
  simp only [timestepMatrix, h.nLeading_eq, hy, hs, h.getL_eq, beq_self_eq_true, Bool.and_self, if_true,
    Option.some.injEq]
  refine List.map_congr_left (fun i _ => List.map_congr_left (fun s _ => ?_))
  unfold tsSpec
  congr 1
  refine List.map_congr_left (fun kv hkv => ?_)
  obtain ⟨h1, -, h3, -⟩ := h.block_dims hkv
  have hdiv := ((stepsOk_iff x steps).mp hs).2 kv hkv
  rw [tsBlock_eq _ _ _ _ _ _ _ _ _ rfl hdiv h3, tsBlockSpec_eq, h.spatialSize_eq, h1]

/-- **`timestep_sum_eq_smse`** (per batch entry): the per-step losses add up to the total -/
theorem tsSpec_sum {x : MI R} (y : MI R) (steps : Nat) (hs : stepsOk x steps = true) (i : Nat) :
    ∑ s ∈ range steps, tsSpec x y steps i s = smseSpec x y i := by
  unfold tsSpec smseSpec
  rw [list_sum_map_finset_sum]
  congr 1
  refine List.map_congr_left (fun kv hkv => ?_)
  exact tsBlockSpec_sum _ _ _ _ _ _ _ (((stepsOk_iff x steps).mp hs).2 kv hkv)

end MILevel

end GinjaxVerif.C18
