import GinjaxVerif.Model.C20
/-!
# C20 — lemmas about the ConvContract signature model (`individualConvolve`, re-ordering, bias loop)
-/
namespace GinjaxVerif.C20

/-- key-distinctness of a signature -/
def KeysNodup (s : Sig) : Prop := (keysOf s).Nodup

theorem anyKey_iff (acc : Sig) (t : Ty) : (acc.any (fun a => a.1 == t)) = true ↔ t ∈ keysOf acc := by
  simp [keysOf, List.any_eq_true]

theorem mem_insertNew (acc : Sig) (b x : Ty × Nat) :
    x ∈ insertNew acc b ↔ x ∈ acc ∨ (x = b ∧ b.1 ∉ keysOf acc) := by
  unfold insertNew
  by_cases h : (acc.any (fun a => a.1 == b.1)) = true
  · have := (anyKey_iff acc b.1).1 h
    simp [h]; intro hx hb; exact absurd this hb
  · have h' : b.1 ∉ keysOf acc := fun hh => h ((anyKey_iff acc b.1).2 hh)
    simp [h, h']

theorem foldl_insertNew_mem (l acc : Sig) (x : Ty × Nat) :
    x ∈ l.foldl insertNew acc → x ∈ acc ∨ x ∈ l := by
  induction l generalizing acc with
  | nil => simp
  | cons b l ih =>
    intro h
    rcases ih _ h with h | h
    · rcases (mem_insertNew acc b x).1 h with h | ⟨rfl, _⟩ <;> simp [*]
    · simp [h]

theorem keys_insertNew (acc : Sig) (b : Ty × Nat) (t : Ty) :
    t ∈ keysOf (insertNew acc b) ↔ t ∈ keysOf acc ∨ t = b.1 := by
  unfold insertNew
  by_cases h : (acc.any (fun a => a.1 == b.1)) = true
  · have := (anyKey_iff acc b.1).1 h
    simp [h]; rintro rfl; exact this
  · simp [h, keysOf]

theorem keys_foldl_insertNew (l acc : Sig) (t : Ty) :
    t ∈ keysOf (l.foldl insertNew acc) ↔ t ∈ keysOf acc ∨ t ∈ keysOf l := by
  induction l generalizing acc with
  | nil => simp [keysOf]
  | cons b l ih =>
    simp only [List.foldl_cons, ih, keys_insertNew]
    simp [keysOf, or_assoc]

theorem individualConvolve_sub (bank : Bank) (target : Sig) (xs : List Ty) (acc : Sig) (x : Ty × Nat) :
    x ∈ xs.foldl (fun acc s => (weightsFor bank target s).foldl insertNew acc) acc → x ∈ acc ∨ x ∈ target := by
  induction xs generalizing acc with
  | nil => intro h; exact Or.inl h
  | cons s xs ih =>
    intro h
    rcases ih _ h with h | h
    · rcases foldl_insertNew_mem _ _ _ h with h | h
      · exact Or.inl h
      · exact Or.inr (List.mem_filter.1 h).1
    · exact Or.inr h

theorem individualConvolve_keys (bank : Bank) (target : Sig) (xs : List Ty) (acc : Sig) (t : Ty) :
    t ∈ keysOf (xs.foldl (fun acc s => (weightsFor bank target s).foldl insertNew acc) acc) ↔
      t ∈ keysOf acc ∨ ∃ s ∈ xs, t ∈ keysOf (weightsFor bank target s) := by
  induction xs generalizing acc with
  | nil => simp
  | cons s xs ih =>
    simp only [List.foldl_cons, ih, keys_foldl_insertNew]
    simp [or_assoc]


theorem eq_of_key_eq {s : Sig} (hs : KeysNodup s) {a b : Ty × Nat} (ha : a ∈ s) (hb : b ∈ s)
    (h : a.1 = b.1) : a = b := by
  induction s with
  | nil => cases ha
  | cons c s ih =>
    have hn : c.1 ∉ keysOf s ∧ KeysNodup s := by
      simpa [KeysNodup, keysOf, List.nodup_cons] using hs
    have key : ∀ x ∈ s, x.1 ≠ c.1 := by
      intro x hx hx1; apply hn.1; rw [← hx1]; exact List.mem_map_of_mem hx
    rcases List.mem_cons.1 ha with rfl | ha' <;> rcases List.mem_cons.1 hb with rfl | hb'
    · rfl
    · exact absurd h.symm (key _ hb')
    · exact absurd h (key _ ha')
    · exact ih hn.2 ha' hb'

theorem filterMap_eq_filter_of {α} (l : List α) (f : α → Option α) (p : α → Bool)
    (h : ∀ x ∈ l, f x = if p x then some x else none) : l.filterMap f = l.filter p := by
  induction l with
  | nil => rfl
  | cons a l ih =>
    have ha := h a (by simp)
    have ih' := ih (fun x hx => h x (by simp [hx]))
    by_cases hp : p a <;> simp [ha, hp, ih']

theorem key_mem_weightsFor (bank : Bank) {target : Sig} (t : Ty × Nat) (ht : t ∈ target) (s : Ty) :
    t.1 ∈ keysOf (weightsFor bank target s) ↔ hasFilter bank s t.1 = true := by
  unfold weightsFor keysOf
  constructor
  · intro h
    rcases List.mem_map.1 h with ⟨b, hb, hbt⟩
    have := (List.mem_filter.1 hb).2
    simpa [hbt] using this
  · intro h
    exact List.mem_map.2 ⟨t, List.mem_filter.2 ⟨ht, by simpa using h⟩, rfl⟩

theorem key_mem_individualConvolve (bank : Bank) {target : Sig} (xs : List Ty) (t : Ty × Nat)
    (ht : t ∈ target) :
    t.1 ∈ keysOf (individualConvolve bank target xs) ↔ reachable bank xs t.1 = true := by
  unfold individualConvolve reachable
  rw [individualConvolve_keys]
  simp only [keysOf, List.map_nil, List.not_mem_nil, false_or, List.any_eq_true]
  constructor
  · rintro ⟨s, hs, h⟩; exact ⟨s, hs, (key_mem_weightsFor bank t ht s).1 h⟩
  · rintro ⟨s, hs, h⟩; exact ⟨s, hs, (key_mem_weightsFor bank t ht s).2 h⟩

/-- the repaired re-ordering step computes the spec: requested reachable targets, requested order -/
theorem emitInTargetOrder_eq (bank : Bank) (target : Sig) (hn : KeysNodup target) (xs : List Ty) :
    emitInTargetOrder target (individualConvolve bank target xs) =
      target.filter (fun t => reachable bank xs t.1) := by
  unfold emitInTargetOrder
  apply filterMap_eq_filter_of
  intro t ht
  by_cases hr : reachable bank xs t.1 = true
  · simp only [hr, if_true]
    have hk := (key_mem_individualConvolve bank xs t ht).2 hr
    cases hf : (individualConvolve bank target xs).find? (fun b => b.1 == t.1) with
    | none =>
      exfalso
      rw [List.find?_eq_none] at hf
      rcases List.mem_map.1 hk with ⟨b, hb, hbt⟩
      exact hf b hb (by simp [hbt])
    | some b =>
      have hb := List.mem_of_find?_eq_some hf
      have hb1 : b.1 = t.1 := by simpa using List.find?_some hf
      have hbt : b ∈ target := by
        rcases individualConvolve_sub bank target xs [] b hb with h | h
        · cases h
        · exact h
      rw [eq_of_key_eq hn hbt ht hb1]
  · have hr' : reachable bank xs t.1 = false := by simpa using hr
    simp only [hr', Bool.false_eq_true, if_false]
    rw [List.find?_eq_none]
    intro b hb hbt
    apply hr
    apply (key_mem_individualConvolve bank xs t ht).1
    have : b.1 = t.1 := by simpa using hbt
    rw [← this]; exact List.mem_map_of_mem hb

theorem biasOut_repaired (m : BiasMode) (sig : Sig) : biasOut biasBranch m sig = sig := by
  have : ∀ m', sig.filterMap (biasBranch m') = sig := by
    intro m'
    have : biasBranch m' = some := by
      funext b; unfold biasBranch; split
      · rfl
      · split <;> rfl
    rw [this, List.filterMap_some]
  cases m <;> simp [biasOut, this]

/-- **the layer returns the spec** for every bias setting (repaired code) -/
theorem convContractSig_eq_out (bank : Bank) (target : Sig) (hn : KeysNodup target) (bias : BiasMode)
    (x : Sig) : convContractSig bank target bias (keysOf x) = convContractOut bank x target := by
  unfold convContractSig convContractOut
  rw [biasOut_repaired, emitInTargetOrder_eq bank target hn]


theorem mem_convContractOut (bank : Bank) (x target : Sig) (b : Ty × Nat) :
    b ∈ convContractOut bank x target ↔ b ∈ target ∧ reachable bank (keysOf x) b.1 = true := by
  simp [convContractOut, List.mem_filter]

theorem convContractOut_eq_self (bank : Bank) (x target : Sig)
    (h : ∀ b ∈ target, reachable bank (keysOf x) b.1 = true) : convContractOut bank x target = target := by
  unfold convContractOut
  exact List.filter_eq_self.2 h

theorem reachable_iff (bank : Bank) (ins : List Ty) (t : Ty) :
    reachable bank ins t = true ↔ ∃ s ∈ ins, filterKey s t ∈ bank.keys := by
  simp [reachable, hasFilter, List.any_eq_true]

end GinjaxVerif.C20
