import GinjaxVerif.Lemmas.C08Basic
import Mathlib.Tactic.LinearCombination
import Mathlib.Tactic.Positivity
import Mathlib.Order.Basic

/-!
# C08 — pooling and unpooling: index arithmetic, argmax, relational equivariance, shifts
-/
namespace GinjaxVerif

open Finset

variable {R : Type} {d : Nat}

/-! ### patch arithmetic -/

theorem cast_div_mul (P N : Nat) (h : P ∣ N) : ((N : Nat) : Int) = ((N / P : Nat) : Int) * (P : Int) := by
  have := Nat.div_mul_cancel h
  exact_mod_cast this.symm

theorem patchPix_inBox (P : Nat) (N : Fin d → Nat) (hdiv : ∀ j, P ∣ N j) (y a : Pix d)
    (hy : InBox (fun j => N j / P) y) (ha : InBox (fun _ => P) a) : InBox N (patchPix P y a) := by
  intro j
  have h1 : 0 ≤ y j ∧ y j < ((N j / P : Nat) : Int) := hy j
  have h2 : 0 ≤ a j ∧ a j < (P : Int) := ha j
  have hN := cast_div_mul P (N j) (hdiv j)
  have hP : (0 : Int) ≤ (P : Int) := Int.natCast_nonneg P
  simp only [patchPix]
  constructor
  · have : 0 ≤ y j * (P : Int) := mul_nonneg h1.1 hP
    omega
  · rw [hN]
    have h3 : (y j + 1) * (P : Int) ≤ ((N j / P : Nat) : Int) * (P : Int) :=
      mul_le_mul_of_nonneg_right (by omega) hP
    have h4 : (y j + 1) * (P : Int) = y j * P + P := by ring
    omega

/-- the pixel map of `g` maps the patch of `y` onto the patch of the image of `y`, permuting and
flipping the positions inside the patch (needs `P ∣ N`) -/
theorem srcPix_patchPix (g : SP d) (P : Nat) (N : Fin d → Nat) (hdiv : ∀ j, P ∣ N j) (y a : Pix d) :
    g.srcPix (fun i => N (g.σ i)) (patchPix P y a)
      = patchPix P (g.srcPix (fun i => N (g.σ i) / P) y) (g.srcPix (fun _ => P) a) := by
  funext j
  have hN := cast_div_mul P (N (g.σ (g.σ.symm j))) (hdiv _)
  simp only [SP.srcPix, patchPix]
  split
  · rfl
  · rw [hN]; ring

theorem sumBox_srcPix_const [AddCommMonoid R] (g : SP d) (P : Nat) (f : Pix d → R) :
    sumBox (fun _ => P) (fun a => f (g.srcPix (fun _ => P) a)) = sumBox (fun _ => P) f :=
  sumBox_srcPix g (fun _ => P) f

/-! ### average pooling -/

theorem poolConst_rel [CommRing R] (g : SP d) (c : Int) (P : Nat) (w : R) (B B' : Blk R d)
    (hdiv : ∀ j, P ∣ B.dims j) (h : B'.Equiv (pfBlk g c B)) :
    (poolConst P w B').Equiv (pfBlk g c (poolConst P w B)) := by
  obtain ⟨hC, hd, hk, hv⟩ := h
  have hd' : B'.dims = fun i => B.dims (g.σ i) := hd
  refine ⟨hC, ?_, hk, ?_⟩
  · funext j
    simp only [poolConst, pfBlk, hd']
  · intro ch hch y hy n hn
    simp only [poolConst] at hch hy hn
    have hy' : InBox (fun i => B.dims (g.σ i) / P) y := by rw [hd'] at hy; exact hy
    rw [pfBlk_val]
    simp only [poolConst]
    rw [sumBox_congr_inBox _ _ (fun a => (((c : Int) : R) * ((g.sgn n : Int) : R)) *
      (B.val ch (patchPix P (g.srcPix (fun i => B.dims (g.σ i) / P) y) (g.srcPix (fun _ => P) a))
        (n.map g.σ) * w))]
    · rw [sumBox_srcPix_const g P (fun a => (((c : Int) : R) * ((g.sgn n : Int) : R)) *
        (B.val ch (patchPix P (g.srcPix (fun i => B.dims (g.σ i) / P) y) a) (n.map g.σ) * w)),
        sumBox_mul_left]
      ring
    · intro a ha
      have hin : InBox B'.dims (patchPix P y a) := by
        rw [hd']; exact patchPix_inBox P _ (fun j => hdiv _) y a hy' ha
      rw [hv ch hch _ hin n hn, pfBlk_val, srcPix_patchPix g P B.dims hdiv]
      ring

/-! ### unpooling -/

theorem flip_div (N q : Int) (P : Nat) (hP : 0 < P) :
    (N * (P : Int) - 1 - q) / (P : Int) = N - 1 - q / (P : Int) := by
  have hP' : (0 : Int) < (P : Int) := by exact_mod_cast hP
  have h1 := Int.emod_add_mul_ediv q (P : Int)
  have h2 : N * (P : Int) - 1 - q = ((P : Int) - 1 - q % (P : Int)) + (P : Int) * (N - 1 - q / (P : Int)) := by
    linear_combination h1
  rw [h2, Int.add_mul_ediv_left _ _ (ne_of_gt hP')]
  have h3 := Int.emod_nonneg q (ne_of_gt hP')
  have h4 := Int.emod_lt_of_pos q hP'
  rw [Int.ediv_eq_zero_of_lt (by omega) (by omega)]
  ring

theorem srcPix_div (g : SP d) (P : Nat) (hP : 0 < P) (N : Fin d → Nat) (q : Pix d) :
    g.srcPix (fun i => N (g.σ i)) (fun j => q j / (P : Int))
      = fun j => g.srcPix (fun i => N (g.σ i) * P) q j / (P : Int) := by
  funext j
  simp only [SP.srcPix]
  split
  · rfl
  · push_cast
    rw [flip_div _ _ P hP]

theorem div_inBox (P : Nat) (hP : 0 < P) (N : Fin d → Nat) (q : Pix d)
    (hq : InBox (fun j => N j * P) q) : InBox N (fun j => q j / (P : Int)) := by
  intro j
  have h : 0 ≤ q j ∧ q j < ((N j * P : Nat) : Int) := hq j
  have hP' : (0 : Int) < (P : Int) := by exact_mod_cast hP
  constructor
  · exact Int.ediv_nonneg h.1 (le_of_lt hP')
  · apply Int.ediv_lt_of_lt_mul hP'
    have : ((N j * P : Nat) : Int) = (N j : Int) * (P : Int) := by push_cast; ring
    omega

theorem unpool_rel [CommRing R] (g : SP d) (c : Int) (P : Nat) (hP : 0 < P) (B B' : Blk R d)
    (h : B'.Equiv (pfBlk g c B)) : (unpool P B').Equiv (pfBlk g c (unpool P B)) := by
  obtain ⟨hC, hd, hk, hv⟩ := h
  have hd' : B'.dims = fun i => B.dims (g.σ i) := hd
  refine ⟨hC, ?_, hk, ?_⟩
  · funext j
    simp only [unpool, pfBlk, hd']
  · intro ch hch q hq n hn
    simp only [unpool] at hch hq hn
    rw [pfBlk_val]
    simp only [unpool]
    have hin : InBox B'.dims (fun j => q j / (P : Int)) := div_inBox P hP _ q hq
    rw [hv ch hch _ hin n hn, pfBlk_val, srcPix_div g P hP B.dims q]

/-! ### argmax with first-index tie breaking -/

section Argmax
variable {α : Type} [LinearOrder R]

/-- if `a` occurs among the candidates and strictly dominates every other candidate, the scan
returns `a` -/
theorem argmaxFirst_unique (f : α → R) (a : α) : ∀ (l : List α) (best : α), a ∈ best :: l →
    (∀ b, b ∈ best :: l → b ≠ a → f b < f a) → argmaxFirst f best l = a
  | [], best, ha, _ => by
    simp only [List.mem_cons, List.not_mem_nil, or_false] at ha
    simp [argmaxFirst, ha]
  | x :: xs, best, ha, hmax => by
    simp only [argmaxFirst]
    by_cases hlt : f best < f x
    · rw [if_pos hlt]
      apply argmaxFirst_unique f a xs x
      · rcases List.mem_cons.mp ha with h | h
        · -- a = best: then f a < f x, impossible
          exfalso
          subst h
          by_cases hx : x = a
          · subst hx; exact lt_irrefl _ hlt
          · exact lt_asymm hlt (hmax x (by simp) hx)
        · exact h
      · intro b hb hne
        exact hmax b (List.mem_cons_of_mem _ hb) hne
    · rw [if_neg hlt]
      apply argmaxFirst_unique f a xs best
      · rcases List.mem_cons.mp ha with h | h
        · rw [h]; simp
        · rcases List.mem_cons.mp h with h' | h'
          · by_cases hb : best = a
            · rw [hb]; simp
            · exfalso
              apply hlt
              rw [← h']
              exact hmax best (by simp) hb
          · exact List.mem_cons_of_mem _ h'
      · intro b hb hne
        apply hmax b _ hne
        rcases List.mem_cons.mp hb with h | h
        · rw [h]; simp
        · exact List.mem_cons_of_mem _ (List.mem_cons_of_mem _ h)

theorem argmaxList_unique (f : α → R) (dflt a : α) (l : List α) (ha : a ∈ l)
    (hmax : ∀ b, b ∈ l → b ≠ a → f b < f a) : argmaxList f dflt l = a := by
  cases l with
  | nil => cases ha
  | cons x xs => exact argmaxFirst_unique f a xs x ha hmax

/-- **for a list with a unique maximum the maximiser does not depend on the order of the list**:
every permutation of the list yields the same element -/
theorem argmax_unique_perm (f : α → R) (dflt a : α) (l l' : List α) (hp : l'.Perm l) (ha : a ∈ l)
    (hmax : ∀ b, b ∈ l → b ≠ a → f b < f a) :
    argmaxList f dflt l' = argmaxList f dflt l := by
  rw [argmaxList_unique f dflt a l ha hmax,
    argmaxList_unique f dflt a l' (hp.mem_iff.mpr ha) (fun b hb => hmax b (hp.mem_iff.mp hb))]

theorem argmaxFirst_congr (f f' : α → R) : ∀ (l : List α) (best : α),
    (∀ b, b ∈ best :: l → f b = f' b) → argmaxFirst f best l = argmaxFirst f' best l
  | [], _, _ => rfl
  | x :: xs, best, h => by
    simp only [argmaxFirst]
    rw [h best (by simp), h x (by simp)]
    split
    · exact argmaxFirst_congr f f' xs x (fun b hb => h b (List.mem_cons_of_mem _ hb))
    · apply argmaxFirst_congr f f' xs best
      intro b hb
      apply h
      rcases List.mem_cons.mp hb with h' | h'
      · rw [h']; simp
      · exact List.mem_cons_of_mem _ (List.mem_cons_of_mem _ h')

theorem argmaxList_congr (f f' : α → R) (dflt : α) (l : List α) (h : ∀ b, b ∈ l → f b = f' b) :
    argmaxList f dflt l = argmaxList f' dflt l := by
  cases l with
  | nil => rfl
  | cons x xs => exact argmaxFirst_congr f f' xs x h

theorem argmaxFirst_mem (f : α → R) : ∀ (l : List α) (best : α), argmaxFirst f best l ∈ best :: l
  | [], best => by simp [argmaxFirst]
  | x :: xs, best => by
    simp only [argmaxFirst]
    split
    · exact List.mem_cons_of_mem _ (argmaxFirst_mem f xs x)
    · rcases List.mem_cons.mp (argmaxFirst_mem f xs best) with h | h
      · rw [h]; simp
      · exact List.mem_cons_of_mem _ (List.mem_cons_of_mem _ h)

theorem argmaxList_mem (f : α → R) (dflt : α) (l : List α) (hl : l ≠ []) : argmaxList f dflt l ∈ l := by
  cases l with
  | nil => exact absurd rfl hl
  | cons x xs => exact argmaxFirst_mem f xs x

end Argmax

/-! ### the patch positions -/

theorem mem_boxList : ∀ (d P : Nat) (a : Pix d), a ∈ boxList d P ↔ InBox (fun _ => P) a
  | 0, P, a => by
    simp only [boxList, List.mem_singleton]
    constructor
    · intro _ i; exact i.elim0
    · intro _; funext i; exact i.elim0
  | d + 1, P, a => by
    simp only [boxList, List.mem_flatMap, List.mem_range, List.mem_map]
    constructor
    · rintro ⟨x, hx, t, ht, rfl⟩
      have iht := (mem_boxList d P t).mp ht
      intro i
      refine Fin.cases ?_ ?_ i
      · simp only [consFn, Fin.cases_zero]; omega
      · intro j; simpa [consFn] using iht j
    · intro h
      have h0 : 0 ≤ a 0 ∧ a 0 < (P : Int) := h 0
      refine ⟨(a 0).toNat, ?_, fun j => a j.succ, ?_, ?_⟩
      · omega
      · exact (mem_boxList d P _).mpr (fun j => h j.succ)
      · funext i
        refine Fin.cases ?_ ?_ i
        · simp only [consFn, Fin.cases_zero]; omega
        · intro j; simp [consFn]

theorem boxList_ne_nil (d P : Nat) (hP : 0 < P) : boxList d P ≠ [] := by
  intro h
  have : (fun _ => 0 : Pix d) ∈ boxList d P := by
    rw [mem_boxList]; intro i
    show (0 : Int) ≤ 0 ∧ (0 : Int) < (P : Int)
    exact ⟨le_refl _, by exact_mod_cast hP⟩
  rw [h] at this
  cases this

/-! ### norm-based max pooling -/

/-- **hypothesis of the max-pool clause**: in every patch of every channel the maximal squared norm
is attained at exactly one pixel -/
def UniqueMax [Zero R] [Add R] [Mul R] [LT R] (P : Nat) (B : Blk R d) : Prop :=
  ∀ c, c < B.C → ∀ y, InBox (fun j => B.dims j / P) y →
    ∃ a, InBox (fun _ => P) a ∧ ∀ b, InBox (fun _ => P) b → b ≠ a →
      normSq (B.img c) (patchPix P y b) < normSq (B.img c) (patchPix P y a)

theorem maxPos_eq [CommRing R] [LinearOrder R] (P : Nat) (A : Img R d) (y a : Pix d)
    (ha : InBox (fun _ => P) a)
    (hmax : ∀ b, InBox (fun _ => P) b → b ≠ a →
      normSq A (patchPix P y b) < normSq A (patchPix P y a)) : maxPos P A y = a := by
  unfold maxPos
  apply argmaxList_unique
  · exact (mem_boxList d P a).mpr ha
  · intro b hb hne
    exact hmax b ((mem_boxList d P b).mp hb) hne

theorem maxPool_rel [CommRing R] [LinearOrder R] (g : SP d) (c : Int) (hc : c * c = 1) (P : Nat)
    (B B' : Blk R d) (hdiv : ∀ j, P ∣ B.dims j) (hu : UniqueMax P B)
    (h : B'.Equiv (pfBlk g c B)) : (maxPool P B').Equiv (pfBlk g c (maxPool P B)) := by
  have h0 := h
  obtain ⟨hC, hd, hk, hv⟩ := h
  have hd' : B'.dims = fun i => B.dims (g.σ i) := hd
  have hC' : B'.C = B.C := hC
  refine ⟨hC, ?_, hk, ?_⟩
  · funext j
    simp only [maxPool, pfBlk, hd']
  · intro ch hch y hy n hn
    simp only [maxPool] at hch hy hn
    have hy' : InBox (fun i => B.dims (g.σ i) / P) y := by rw [hd'] at hy; exact hy
    have hchB : ch < B.C := by omega
    -- the patch of the source image that the patch of `y` is mapped onto
    have hY : InBox (fun j => B.dims j / P) (g.srcPix (fun i => B.dims (g.σ i) / P) y) :=
      srcPix_inBox g (fun j => B.dims j / P) y hy'
    obtain ⟨a, ha, hmax⟩ := hu ch hchB _ hY
    have hposB : maxPos P (B.img ch) (g.srcPix (fun i => B.dims (g.σ i) / P) y) = a :=
      maxPos_eq P _ _ a ha hmax
    -- the maximiser in the transformed patch
    have ha' : InBox (fun _ => P) (g.inv.srcPix (fun _ => P) a) :=
      inv_srcPix_inBox g (fun _ => P) a ha
    have hnorm : ∀ b, InBox (fun _ => P) b →
        normSq (B'.img ch) (patchPix P y b) = normSq (B.img ch)
          (patchPix P (g.srcPix (fun i => B.dims (g.σ i) / P) y) (g.srcPix (fun _ => P) b)) := by
      intro b hb
      rw [normSq_rel g c hc B B' h0 ch hchB _
        (patchPix_inBox P _ (fun j => hdiv _) y b hy' hb), srcPix_patchPix g P B.dims hdiv]
    have hright : g.srcPix (fun _ => P) (g.inv.srcPix (fun _ => P) a) = a :=
      srcPix_right_inv g (fun _ => P) a
    have hposB' : maxPos P (B'.img ch) y = g.inv.srcPix (fun _ => P) a := by
      apply maxPos_eq P _ _ _ ha'
      intro b hb hne
      rw [hnorm b hb, hnorm _ ha', hright]
      apply hmax _ (srcPix_inBox g (fun _ => P) b hb)
      intro hba
      apply hne
      have := congrArg (g.inv.srcPix (fun _ => P)) hba
      rw [← this]
      exact (srcPix_left_inv g (fun _ => P) b).symm
    rw [pfBlk_val]
    simp only [maxPool]
    rw [hposB', hposB]
    have hin : InBox B'.dims (patchPix P y (g.inv.srcPix (fun _ => P) a)) := by
      rw [hd']; exact patchPix_inBox P _ (fun j => hdiv _) y _ hy' ha'
    rw [hv ch hch _ hin n hn, pfBlk_val, srcPix_patchPix g P B.dims hdiv, hright]

/-! ### translations by multiples of the patch length -/

theorem emod_patch (Q P : Nat) (m r : Int) (hr : 0 ≤ r ∧ r < (P : Int)) :
    (m * (P : Int) + r) % ((Q * P : Nat) : Int) = (m % (Q : Int)) * (P : Int) + r := by
  rcases Nat.eq_zero_or_pos Q with hQ | hQ
  · subst hQ; simp
  · have hQ' : (0 : Int) < (Q : Int) := by exact_mod_cast hQ
    have hP : (0 : Int) ≤ (P : Int) := Int.natCast_nonneg P
    have h1 := Int.emod_add_mul_ediv m (Q : Int)
    have h2 : m * (P : Int) + r
        = ((m % (Q : Int)) * (P : Int) + r) + ((Q * P : Nat) : Int) * (m / (Q : Int)) := by
      push_cast
      linear_combination (-(P : Int)) * h1
    rw [h2, Int.add_mul_emod_self_left]
    have h3 := Int.emod_nonneg m (ne_of_gt hQ')
    have h4 := Int.emod_lt_of_pos m hQ'
    apply Int.emod_eq_of_lt
    · have : 0 ≤ (m % (Q : Int)) * (P : Int) := mul_nonneg h3 hP
      omega
    · have h5 : (m % (Q : Int) + 1) * (P : Int) ≤ (Q : Int) * (P : Int) :=
        mul_le_mul_of_nonneg_right (by omega) hP
      have h6 : (m % (Q : Int) + 1) * (P : Int) = m % (Q : Int) * P + P := by ring
      push_cast
      omega

/-- position `a` of the patch of `y` in the image rolled by `t·P` is position `a` of the patch of
`(y − t) mod Q` in the original image -/
theorem roll_patchPix (P : Nat) (N : Fin d → Nat) (hdiv : ∀ j, P ∣ N j) (t y a : Pix d)
    (ha : InBox (fun _ => P) a) :
    (fun j => (patchPix P y a j - t j * (P : Int)) % (N j : Int))
      = patchPix P (fun j => (y j - t j) % ((N j / P : Nat) : Int)) a := by
  funext j
  simp only [patchPix]
  have hN : N j = N j / P * P := (Nat.div_mul_cancel (hdiv j)).symm
  have h1 : y j * (P : Int) + a j - t j * (P : Int) = (y j - t j) * (P : Int) + a j := by ring
  rw [h1]
  conv_lhs => rw [hN]
  exact emod_patch (N j / P) P (y j - t j) (a j) (ha j)

theorem poolConst_roll [CommRing R] (P : Nat) (w : R) (B : Blk R d) (hdiv : ∀ j, P ∣ B.dims j)
    (t : Pix d) :
    (poolConst P w (rollBlk (fun j => t j * (P : Int)) B)).Equiv (rollBlk t (poolConst P w B)) := by
  refine ⟨rfl, rfl, rfl, ?_⟩
  intro ch _ y _ n _
  simp only [poolConst, rollBlk]
  apply sumBox_congr_inBox
  intro a ha
  rw [roll_patchPix P B.dims hdiv t y a ha]

theorem normSq_roll [Zero R] [Add R] [Mul R] (B : Blk R d) (t : Pix d) (ch : Nat) (y : Pix d) :
    normSq ((rollBlk t B).img ch) y
      = normSq (B.img ch) (fun j => (y j - t j) % (B.dims j : Int)) := rfl

theorem maxPool_roll [CommRing R] [LinearOrder R] (P : Nat) (hP : 0 < P) (B : Blk R d)
    (hdiv : ∀ j, P ∣ B.dims j) (t : Pix d) :
    (maxPool P (rollBlk (fun j => t j * (P : Int)) B)).Equiv (rollBlk t (maxPool P B)) := by
  refine ⟨rfl, rfl, rfl, ?_⟩
  intro ch _ y _ n _
  have hpos : maxPos P ((rollBlk (fun j => t j * (P : Int)) B).img ch) y
      = maxPos P (B.img ch) (fun j => (y j - t j) % ((B.dims j / P : Nat) : Int)) := by
    unfold maxPos
    apply argmaxList_congr
    intro a ha
    rw [normSq_roll, roll_patchPix P B.dims hdiv t y a ((mem_boxList d P a).mp ha)]
  have hmem : InBox (fun _ => P)
      (maxPos P (B.img ch) (fun j => (y j - t j) % ((B.dims j / P : Nat) : Int))) := by
    rw [← mem_boxList]
    exact argmaxList_mem _ _ _ (boxList_ne_nil d P hP)
  show B.val ch (fun j => (patchPix P y (maxPos P ((rollBlk (fun j => t j * (P : Int)) B).img ch) y) j
      - t j * (P : Int)) % (B.dims j : Int)) n
    = B.val ch (patchPix P (fun j => (y j - t j) % ((B.dims j / P : Nat) : Int))
        (maxPos P (B.img ch) (fun j => (y j - t j) % ((B.dims j / P : Nat) : Int)))) n
  rw [hpos, roll_patchPix P B.dims hdiv t y _ hmem]

theorem div_emod_patch (N P : Nat) (hP : 0 < P) (q t : Int) :
    ((q - t * (P : Int)) % ((N * P : Nat) : Int)) / (P : Int) = (q / (P : Int) - t) % (N : Int) := by
  have hP' : (0 : Int) < (P : Int) := by exact_mod_cast hP
  have h1 := Int.emod_add_mul_ediv q (P : Int)
  have h3 := Int.emod_nonneg q (ne_of_gt hP')
  have h4 := Int.emod_lt_of_pos q hP'
  have h2 : q - t * (P : Int) = (q / (P : Int) - t) * (P : Int) + q % (P : Int) := by
    linear_combination (-1 : Int) * h1
  rw [h2, emod_patch N P _ _ ⟨h3, h4⟩, Int.add_comm, Int.add_mul_ediv_right _ _ (ne_of_gt hP'),
    Int.ediv_eq_zero_of_lt h3 h4]
  ring

theorem unpool_roll (P : Nat) (hP : 0 < P) (B : Blk R d) (t : Pix d) :
    (unpool P (rollBlk t B)).Equiv (rollBlk (fun j => t j * (P : Int)) (unpool P B)) := by
  refine ⟨rfl, rfl, rfl, ?_⟩
  intro ch _ q _ n _
  simp only [unpool, rollBlk]
  congr 1
  funext j
  exact (div_emod_patch (B.dims j) P hP (q j) (t j)).symm

end GinjaxVerif
