import GinjaxVerif.Lemmas.C07Basic
import GinjaxVerif.Lemmas.C08Norm
import GinjaxVerif.Lemmas.C08VN
import GinjaxVerif.Lemmas.C08Pool

/-!
# C07 — the blockwise nodes (normalisation, nonlinearity, pooling) and the two binary operations
(`+`, `concat`) map related inputs to related outputs

The blockwise nodes are discharged by the relational lemmas of C08 (`groupNorm*_rel`,
`vnNonlinear_rel`, `vnScalar_rel`, `maxPool_rel`) through the conversion `toBlk` / `ofBlk`; `+` and
`concat` by linearity / blockwise nature of the action.
-/
namespace GinjaxVerif.C07

open GinjaxVerif GinjaxVerif.C20 GinjaxVerif.Layer

variable {R : Type} {d : Nat}

theorem sameFn_iff {α : Type} [BEq α] [LawfulBEq α] (a b : Fin d → α) : sameFn a b = true ↔ a = b := by
  unfold sameFn
  rw [List.all_eq_true]
  constructor
  · intro h; funext j; exact eq_of_beq (h j (List.mem_finRange j))
  · intro h j _; rw [h]; exact beq_self_eq_true _

/-! ### blockwise nodes -/

section Blockwise
variable [Field R]

theorem normBlock_rel (F : Fns R d) (hS : ConjEquivariant F.S) (n : NormSpec R) (g : SP d) (t : Ty)
    (hk : t.1 ≤ 1) (b' b : Block R d) (h : BRel g t b' b) :
    BRel g t (normBlock F n t b') (normBlock F n t b) := by
  unfold normBlock
  by_cases h0 : t = (0, 0)
  · subst h0
    simp only [if_true]
    unfold BRel at h ⊢
    rw [toBlk_ofBlk _ _ rfl, toBlk_ofBlk _ _ rfl]
    simp only [pow_zero] at h ⊢
    exact groupNormScalar_rel F.rsqrt F.max0 n.eps 1 _ _ g _ _ rfl (one_dvd _) h
  · rw [if_neg h0, if_neg h0]
    by_cases h1 : t.1 = 0
    · rw [if_pos h1, if_pos h1]
      unfold BRel at h ⊢
      rw [toBlk_ofBlk _ _ rfl, toBlk_ofBlk _ _ rfl]
      exact groupNormPseudo_rel F.rsqrt F.max0 n.eps 1 _ g _ (detpow_sq g t.2) _ _ h1 (one_dvd _) h
    · rw [if_neg h1, if_neg h1]
      unfold BRel at h ⊢
      rw [toBlk_ofBlk _ _ rfl, toBlk_ofBlk _ _ rfl]
      have hk1 : (toBlk t b).k = 1 := by show t.1 = 1; omega
      exact groupNormVector_rel F.S hS n.eps 1 _ _ g _ (detpow_sq g t.2) _ _ hk1 (one_dvd _) h

theorem vnBlock_rel (F : Fns R d) (v : VNSpec R) (g : SP d) (t : Ty) (b' b : Block R d)
    (h : BRel g t b' b) : BRel g t (vnBlock F v t b') (vnBlock F v t b) := by
  unfold vnBlock
  by_cases h0 : t = (0, 0)
  · subst h0
    simp only [if_true]
    unfold BRel at h ⊢
    rw [toBlk_ofBlk _ _ rfl, toBlk_ofBlk _ _ rfl]
    simp only [pow_zero] at h ⊢
    exact vnScalar_rel F.act g _ _ rfl h
  · rw [if_neg h0, if_neg h0]
    unfold BRel at h ⊢
    rw [toBlk_ofBlk _ _ rfl, toBlk_ofBlk _ _ rfl]
    exact vnNonlinear_rel F.sqrtF F.absF F.act v.eps (v.W t) g _ (detpow_sq g t.2) _ _ h

theorem poolBlock_rel [LinearOrder R] (P : Nat) (g : SP d) (t : Ty) (b' b : Block R d)
    (hdiv : ∀ j, P ∣ b.dims j) (hu : UniqueMax P (toBlk t b)) (h : BRel g t b' b) :
    BRel g t (ofBlk (maxPool P (toBlk t b'))) (ofBlk (maxPool P (toBlk t b))) := by
  unfold BRel at h ⊢
  rw [toBlk_ofBlk _ _ rfl, toBlk_ofBlk _ _ rfl]
  exact maxPool_rel g _ (detpow_sq g t.2) P _ _ hdiv hu h

end Blockwise

/-! ### the nodes on multi-images -/

section Nodes
variable [Field R]

omit [Field R] in
theorem mem_sigOf_of_mem {x : MImg R d} {t : Ty} {b : Block R d} (h : (t, b) ∈ x) :
    (t, b.chans) ∈ sigOf x := List.mem_map.2 ⟨(t, b), h, rfl⟩

theorem evalNorm_rel (F : Fns R d) (hS : ConjEquivariant F.S) (n : NormSpec R) (g : SP d)
    (x x' : MI R d) (hrel : Rel g x' x) (y : MI R d) (hy : evalNorm F n x = some y) :
    ∃ y', evalNorm F n x' = some y' ∧ Rel g y' y := by
  obtain ⟨hd, ht, hb⟩ := hrel
  unfold evalNorm at hy ⊢
  rw [hb.sigOf]
  split at hy
  · rename_i hc
    cases hy
    rw [if_pos hc]
    refine ⟨_, rfl, hd, ht, ?_⟩
    simp only [Bool.and_eq_true] at hc
    apply hb.map (normBlock F n)
    intro t b' b hm hbr
    have h1 : n.declared.contains (t, b.chans) = true :=
      List.all_eq_true.1 hc.2 _ (mem_sigOf_of_mem hm)
    have h2 : (t, b.chans) ∈ n.declared := by simpa using h1
    have hk : t.1 ≤ 1 := by
      have := List.all_eq_true.1 hc.1 _ h2
      simpa using this
    exact normBlock_rel F hS n g t hk b' b hbr
  · cases hy

theorem evalVN_rel (F : Fns R d) (v : VNSpec R) (g : SP d) (x x' : MI R d) (hrel : Rel g x' x)
    (y : MI R d) (hy : evalVN F v x = some y) : ∃ y', evalVN F v x' = some y' ∧ Rel g y' y := by
  obtain ⟨hd, ht, hb⟩ := hrel
  unfold evalVN at hy ⊢
  rw [hb.sigOf]
  split at hy
  · rename_i hc
    cases hy
    rw [if_pos hc]
    exact ⟨_, rfl, hd, ht, hb.map (vnBlock F v) (fun t b' b _ hbr => vnBlock_rel F v g t b' b hbr)⟩
  · cases hy

/-- per-patch uniqueness of the maximal norm in every block of a multi-image -/
def PoolUnique [LinearOrder R] (P : Nat) (x : MI R d) : Prop :=
  ∀ e ∈ x.blocks, UniqueMax P (toBlk e.1 e.2)

theorem evalPool_rel [LinearOrder R] (P : Nat) (g : SP d) (x x' : MI R d) (hx : x.Consistent)
    (hrel : Rel g x' x) (hdiv : ∀ j, P ∣ x.dims j) (hu : PoolUnique P x) :
    Rel g (evalPool P x') (evalPool P x) := by
  obtain ⟨hd, ht, hb⟩ := hrel
  refine ⟨?_, ht, ?_⟩
  · show (fun j => x'.dims j / P) = fun i => x.dims (g.σ i) / P
    rw [hd]
  · apply hb.map (fun t b => ofBlk (maxPool P (toBlk t b)))
    intro t b' b hm hbr
    exact poolBlock_rel P g t b' b (by rw [hx _ hm]; exact hdiv) (hu _ hm) hbr

/-! ### `+` -/

theorem sumBlock_rel (g : SP d) (t : Ty) (a' a v' v : Block R d) (hc : v.chans = a.chans)
    (hdm : v.dims = a.dims) (ha : BRel g t a' a) (hv : BRel g t v' v) :
    BRel g t (sumBlock a' v') (sumBlock a v) := by
  obtain ⟨aC, ad, ak, av⟩ := ha
  obtain ⟨vC, vd, vk, vv⟩ := hv
  refine ⟨aC, ad, ak, ?_⟩
  intro c hcl y hy T hT
  have aC' : a'.chans = a.chans := aC
  have vC' : v'.chans = v.chans := vC
  have ad' : a'.dims = fun i => a.dims (g.σ i) := ad
  have vd' : v'.dims = fun i => v.dims (g.σ i) := vd
  have hcl' : c < a'.chans := hcl
  have hy' : InBox a'.dims y := hy
  rw [pfBlk_val]
  show a'.val c y T + v'.val c y T = _
  have q1 : a'.val c y T = _ := av c hcl y hy T hT
  have q2 : v'.val c y T = _ := vv c (by show c < v'.chans; omega) y
    (by show InBox v'.dims y; rw [vd', hdm, ← ad']; exact hy') T hT
  rw [q1, q2, pfBlk_val, pfBlk_val]
  simp only [toBlk, sumBlock, hdm]
  ring

theorem addMI_rel (g : SP d) (a a' b b' : MI R d) (ha : Rel g a' a) (hb : Rel g b' b)
    (y : MI R d) (hy : addMI a b = some y) : ∃ y', addMI a' b' = some y' ∧ Rel g y' y := by
  obtain ⟨had, hat, hab⟩ := ha
  obtain ⟨hbd, hbt, hbb⟩ := hb
  unfold addMI at hy ⊢
  rw [hab.sigOf, hbb.sigOf]
  split at hy
  · rename_i hc
    cases hy
    simp only [Bool.and_eq_true] at hc
    obtain ⟨⟨h1, h2⟩, h3⟩ := hc
    have e1 : a.torus = b.torus := (sameFn_iff _ _).1 h1
    have c1 : sameFn a'.torus b'.torus = true := by rw [sameFn_iff, hat, hbt, e1]
    -- the shape check and the blockwise relation, together, along the two lists
    have key : ∀ (l' l : MImg R d), MRel g l' l → l.all (addOk b.blocks) = true →
        l'.all (addOk b'.blocks) = true ∧
        MRel g (l'.map (addEntry b'.blocks)) (l.map (addEntry b.blocks)) := by
      intro l' l hl
      unfold MRel at hl ⊢
      induction hl with
      | nil => intro _; exact ⟨rfl, List.Forall₂.nil⟩
      | @cons e' e r' r hee _ ih =>
        intro hall
        simp only [List.all_cons, Bool.and_eq_true] at hall
        obtain ⟨hhead, htail⟩ := hall
        obtain ⟨ih1, ih2⟩ := ih htail
        obtain ⟨hk, hbr⟩ := hee
        rcases hbb.lookup e.1 with ⟨hn', hn⟩ | ⟨v', v, hv', hv, hvr⟩
        · unfold addOk at hhead; rw [hn] at hhead; cases hhead
        · unfold addOk at hhead; rw [hv] at hhead
          simp only [Bool.and_eq_true, beq_iff_eq] at hhead
          obtain ⟨q1, q2⟩ := hhead
          have q2' : v.dims = e.2.dims := (sameFn_iff _ _).1 q2
          have hC : e'.2.chans = e.2.chans := hbr.1
          have hD : e'.2.dims = fun i => e.2.dims (g.σ i) := hbr.2.1
          have hvC : v'.chans = v.chans := hvr.1
          have hvD : v'.dims = fun i => v.dims (g.σ i) := hvr.2.1
          refine ⟨?_, List.Forall₂.cons ⟨hk, ?_⟩ ih2⟩
          · simp only [List.all_cons, Bool.and_eq_true]
            refine ⟨?_, ih1⟩
            unfold addOk
            rw [hk, hv']
            simp only [Bool.and_eq_true, beq_iff_eq]
            exact ⟨by rw [hvC, q1, hC], by rw [sameFn_iff, hvD, q2', hD]⟩
          · unfold addEntry
            simp only
            rw [hk, hv', hv]
            exact sumBlock_rel g e.1 e'.2 e.2 v' v q1 q2' hbr hvr
    obtain ⟨k1, k2⟩ := key _ _ hab h2
    rw [c1, k1, h3]
    simp only [Bool.and_self, if_true]
    exact ⟨_, rfl, had, hat, k2⟩
  · cases hy

/-! ### `concat` -/

theorem catBlock_rel (g : SP d) (t : Ty) (o' o n' n : Block R d) (hdm : n.dims = o.dims)
    (ho : BRel g t o' o) (hn : BRel g t n' n) : BRel g t (catBlock o' n') (catBlock o n) := by
  obtain ⟨oC, od, ok, ov⟩ := ho
  obtain ⟨nC, nd, nk, nv⟩ := hn
  have oC' : o'.chans = o.chans := oC
  have nC' : n'.chans = n.chans := nC
  have od' : o'.dims = fun i => o.dims (g.σ i) := od
  have nd' : n'.dims = fun i => n.dims (g.σ i) := nd
  refine ⟨by show o'.chans + n'.chans = o.chans + n.chans; rw [oC', nC'], od, ok, ?_⟩
  intro c hcl y hy T hT
  have hcl' : c < o'.chans + n'.chans := hcl
  have hy' : InBox o'.dims y := hy
  rw [pfBlk_val]
  show (if c < o'.chans then o'.val c y T else n'.val (c - o'.chans) y T) = _
  by_cases hlt : c < o'.chans
  · have q : o'.val c y T = _ := ov c hlt y hy T hT
    rw [if_pos hlt, q, pfBlk_val]
    simp only [toBlk, catBlock]
    rw [if_pos (by omega)]
  · have q : n'.val (c - o'.chans) y T = _ := nv (c - o'.chans)
      (by show c - o'.chans < n'.chans; omega) y
      (by show InBox n'.dims y; rw [nd', hdm, ← od']; exact hy') T hT
    rw [if_neg hlt, q, pfBlk_val]
    simp only [toBlk, catBlock, hdm]
    rw [if_neg (by omega), oC']

theorem appendMI_rel (g : SP d) (D : Fin d → Nat) (t : Ty) (b' b : Block R d) (hb : BRel g t b' b)
    (hbd : b.dims = D) :
    ∀ (acc' acc : MImg R d), MRel g acc' acc → (∀ e ∈ acc, e.2.dims = D) →
      MRel g (appendMI acc' t b') (appendMI acc t b) ∧ (∀ e ∈ appendMI acc t b, e.2.dims = D) := by
  intro acc' acc h
  unfold MRel at h ⊢
  induction h with
  | nil =>
    intro _
    refine ⟨List.Forall₂.cons ⟨rfl, hb⟩ List.Forall₂.nil, ?_⟩
    intro e he
    simp only [appendMI, List.mem_singleton] at he
    rw [he]; exact hbd
  | @cons e' e r' r hee _ ih =>
    intro hD
    obtain ⟨k', v'⟩ := e'
    obtain ⟨k, v⟩ := e
    obtain ⟨hk, hbr⟩ := hee
    simp only at hk hbr
    subst hk
    have hvD : v.dims = D := hD (k', v) (by simp)
    by_cases hkt : k' = t
    · subst hkt
      simp only [appendMI, if_true]
      refine ⟨List.Forall₂.cons ⟨rfl, catBlock_rel g k' v' v b' b (by rw [hbd, hvD]) hbr hb⟩ (by assumption), ?_⟩
      intro e he
      rcases List.mem_cons.1 he with rfl | he
      · exact hvD
      · exact hD e (List.mem_cons_of_mem _ he)
    · simp only [appendMI, if_neg hkt]
      obtain ⟨i1, i2⟩ := ih (fun e he => hD e (List.mem_cons_of_mem _ he))
      refine ⟨List.Forall₂.cons ⟨rfl, hbr⟩ i1, ?_⟩
      intro e he
      rcases List.mem_cons.1 he with rfl | he
      · exact hvD
      · exact i2 e he

theorem concatBlocks_rel (g : SP d) (D : Fin d → Nat) :
    ∀ (l' l : MImg R d), MRel g l' l → (∀ e ∈ l, e.2.dims = D) →
      ∀ (acc' acc : MImg R d), MRel g acc' acc → (∀ e ∈ acc, e.2.dims = D) →
        MRel g (l'.foldl (fun a e => appendMI a e.1 e.2) acc') (l.foldl (fun a e => appendMI a e.1 e.2) acc)
        ∧ (∀ e ∈ l.foldl (fun a e => appendMI a e.1 e.2) acc, e.2.dims = D) := by
  intro l' l h
  unfold MRel at h
  induction h with
  | nil => intro _ acc' acc ha hD; exact ⟨ha, hD⟩
  | @cons e' e r' r hee _ ih =>
    intro hl acc' acc ha hD
    obtain ⟨hk, hbr⟩ := hee
    simp only [List.foldl_cons]
    rw [hk]
    obtain ⟨a1, a2⟩ := appendMI_rel g D e.1 e'.2 e.2 hbr (hl e (by simp)) acc' acc ha hD
    exact ih (fun e he => hl e (List.mem_cons_of_mem _ he)) _ _ a1 a2

theorem concatMI_rel (g : SP d) (a a' b b' : MI R d) (hac : a.Consistent) (hbc : b.Consistent)
    (ha : Rel g a' a) (hb : Rel g b' b) (y : MI R d) (hy : concatMI a b = some y) :
    (∃ y', concatMI a' b' = some y' ∧ Rel g y' y) ∧ y.Consistent := by
  obtain ⟨had, hat, hab⟩ := ha
  obtain ⟨hbd, hbt, hbb⟩ := hb
  unfold concatMI at hy ⊢
  split at hy
  · rename_i hc
    cases hy
    simp only [Bool.and_eq_true] at hc
    obtain ⟨h1, h2⟩ := hc
    have e1 : a.torus = b.torus := (sameFn_iff _ _).1 h1
    have e2 : a.dims = b.dims := (sameFn_iff _ _).1 h2
    have c1 : sameFn a'.torus b'.torus = true := by rw [sameFn_iff, hat, hbt, e1]
    have c2 : sameFn a'.dims b'.dims = true := by rw [sameFn_iff, had, hbd, e2]
    rw [c1, c2]
    simp only [Bool.and_self, if_true]
    obtain ⟨r1, r2⟩ := concatBlocks_rel g a.dims b'.blocks b.blocks hbb
      (fun e he => by rw [hbc e he, e2]) a'.blocks a.blocks hab hac
    exact ⟨⟨_, rfl, had, hat, r1⟩, r2⟩
  · cases hy

end Nodes

end GinjaxVerif.C07
