import GinjaxVerif.Lemmas.C08Norm
import GinjaxVerif.Lemmas.ActionLaws
import GinjaxVerif.Lemmas.Box
import Mathlib.Analysis.Matrix.Order

/-!
# C08 — the symmetric inverse square root commutes with orthogonal conjugation
-/
namespace GinjaxVerif

open Matrix
open scoped MatrixOrder

variable {d : Nat}

/-- the matrix function of the whitening, `A ↦ A^{-1/2}`: the inverse of the positive
semidefinite square root (`CFC.sqrt`, continuous functional calculus of `√·`).  Outside the
positive semidefinite matrices `CFC.sqrt` is `0`, and so is `invSqrtPD`. -/
noncomputable def invSqrtPD (A : Matrix (Fin d) (Fin d) ℝ) : Matrix (Fin d) (Fin d) ℝ :=
  (CFC.sqrt A)⁻¹

/-- conjugation by an orthogonal matrix preserves positive semidefiniteness -/
theorem posSemidef_conj_orth {g A : Matrix (Fin d) (Fin d) ℝ} (hA : A.PosSemidef) :
    (g * A * gᵀ).PosSemidef := by
  have := hA.mul_mul_conjTranspose_same g
  simpa [conjTranspose_eq_transpose_of_trivial] using this

/-- **the positive semidefinite square root commutes with orthogonal conjugation** -/
theorem sqrt_conj_orth (g A : Matrix (Fin d) (Fin d) ℝ) (hg : gᵀ * g = 1) :
    CFC.sqrt (g * A * gᵀ) = g * CFC.sqrt A * gᵀ := by
  have hg' : g * gᵀ = 1 := mul_eq_one_comm.mp hg
  by_cases hA : A.PosSemidef
  · have h1 : (g * CFC.sqrt A * gᵀ).PosSemidef := posSemidef_conj_orth (CFC.sqrt_nonneg A).posSemidef
    refine CFC.sqrt_unique ?_ h1.nonneg
    calc g * CFC.sqrt A * gᵀ * (g * CFC.sqrt A * gᵀ)
        = g * CFC.sqrt A * (gᵀ * g) * CFC.sqrt A * gᵀ := by simp only [Matrix.mul_assoc]
      _ = g * (CFC.sqrt A * CFC.sqrt A) * gᵀ := by rw [hg, Matrix.mul_one]; simp only [Matrix.mul_assoc]
      _ = g * A * gᵀ := by rw [CFC.sqrt_mul_sqrt_self A hA.nonneg]
  · have hB : ¬ (g * A * gᵀ).PosSemidef := by
      intro hB
      apply hA
      have := posSemidef_conj_orth (g := gᵀ) hB
      rw [transpose_transpose] at this
      have e : gᵀ * (g * A * gᵀ) * g = A := by
        calc gᵀ * (g * A * gᵀ) * g = (gᵀ * g) * A * (gᵀ * g) := by simp only [Matrix.mul_assoc]
          _ = A := by rw [hg, Matrix.one_mul, Matrix.mul_one]
      rwa [e] at this
    rw [CFC.sqrt_of_not_nonneg (fun h => hA h.posSemidef),
      CFC.sqrt_of_not_nonneg (fun h => hB h.posSemidef)]
    simp

/-- **`invSqrt_conjEquivariant`**: for every orthogonal `g` and EVERY matrix `A`
(positive definite or not) `(g A gᵀ)^{-1/2} = g A^{-1/2} gᵀ` -/
theorem invSqrt_conjEquivariant (g A : Matrix (Fin d) (Fin d) ℝ) (hg : gᵀ * g = 1) :
    invSqrtPD (g * A * gᵀ) = g * invSqrtPD A * gᵀ := by
  have hg' : g * gᵀ = 1 := mul_eq_one_comm.mp hg
  unfold invSqrtPD
  rw [sqrt_conj_orth g A hg, Matrix.mul_inv_rev, Matrix.mul_inv_rev,
    Matrix.inv_eq_left_inv hg', Matrix.inv_eq_left_inv hg, Matrix.mul_assoc]

/-- on a positive definite matrix `invSqrtPD A` is a positive definite `W` with `W A W = 1` -/
theorem invSqrtPD_spec {A : Matrix (Fin d) (Fin d) ℝ} (hA : A.PosDef) :
    (invSqrtPD A).PosDef ∧ invSqrtPD A * A * invSqrtPD A = 1 := by
  have hs : (CFC.sqrt A).PosSemidef := (CFC.sqrt_nonneg A).posSemidef
  have hmul : CFC.sqrt A * CFC.sqrt A = A := CFC.sqrt_mul_sqrt_self A hA.posSemidef.nonneg
  have hu : IsUnit (CFC.sqrt A).det := by
    have : IsUnit A.det := (Matrix.isUnit_iff_isUnit_det A).mp hA.isUnit
    rw [← hmul, Matrix.det_mul] at this
    exact isUnit_of_mul_isUnit_left this
  have hpd : (CFC.sqrt A).PosDef := hs.posDef_iff_isUnit.mpr ((Matrix.isUnit_iff_isUnit_det _).mpr hu)
  refine ⟨hpd.inv, ?_⟩
  unfold invSqrtPD
  calc (CFC.sqrt A)⁻¹ * A * (CFC.sqrt A)⁻¹
      = (CFC.sqrt A)⁻¹ * (CFC.sqrt A * CFC.sqrt A) * (CFC.sqrt A)⁻¹ := by rw [hmul]
    _ = ((CFC.sqrt A)⁻¹ * CFC.sqrt A) * (CFC.sqrt A * (CFC.sqrt A)⁻¹) := by
        simp only [Matrix.mul_assoc]
    _ = 1 := by rw [Matrix.nonsing_inv_mul _ hu, Matrix.mul_nonsing_inv _ hu, Matrix.one_mul]

/-- **uniqueness**: a positive semidefinite `W` with `W A W = 1` is `invSqrtPD A` -/
theorem invSqrtPD_unique {A W : Matrix (Fin d) (Fin d) ℝ} (hW : W.PosSemidef)
    (h : W * A * W = 1) : W = invSqrtPD A := by
  have hu : IsUnit W.det := by
    have : IsUnit (W * (A * W)).det := by rw [← Matrix.mul_assoc, h]; simp
    rw [Matrix.det_mul] at this
    exact isUnit_of_mul_isUnit_left this
  have hA : W⁻¹ * W⁻¹ = A := by
    calc W⁻¹ * W⁻¹ = W⁻¹ * (W * A * W) * W⁻¹ := by rw [h, Matrix.mul_one]
      _ = (W⁻¹ * W) * A * (W * W⁻¹) := by simp only [Matrix.mul_assoc]
      _ = A := by rw [Matrix.nonsing_inv_mul _ hu, Matrix.mul_nonsing_inv _ hu, Matrix.one_mul, Matrix.mul_one]
  unfold invSqrtPD
  rw [CFC.sqrt_unique hA hW.inv.nonneg, Matrix.nonsing_inv_nonsing_inv _ hu]


/-! ### bridge to the project's types (`RMat ℝ d`, `SP.conj`, `conjMat`, `ConjEquivariant`) -/

/-- the integer matrix of a signed permutation as a real matrix -/
def SP.matR (g : SP d) : Matrix (Fin d) (Fin d) ℝ := (Matrix.of g.mat).map (Int.cast : Int → ℝ)

/-- signed permutation matrices are orthogonal (from C02's `SP.mat_mul`, `SP.mat_inv`,
`SP.inv_mul`, `SP.mat_one`) -/
theorem SP.matR_orth (g : SP d) : g.matRᵀ * g.matR = 1 := by
  have hZ : Matrix.of (Mat.transpose g.mat) * Matrix.of g.mat = (1 : Matrix (Fin d) (Fin d) Int) := by
    rw [← of_mul, ← SP.mat_inv, ← SP.mat_mul, SP.inv_mul, SP.mat_one]
    ext i j; simp [Mat.one, Matrix.one_apply]
  have hT : g.matRᵀ = (Matrix.of (Mat.transpose g.mat)).map (Int.cast : Int → ℝ) := by
    ext i j; simp [SP.matR, Mat.transpose]
  rw [hT, SP.matR]
  have h := (Matrix.map_mul (L := Matrix.of (Mat.transpose g.mat)) (M := Matrix.of g.mat)
    (f := Int.castRingHom ℝ)).symm
  rw [hZ] at h
  simpa using h

/-- the project's conjugation `g.conj` is `g · C · gᵀ` -/
theorem conj_eq_matR (g : SP d) (Cv : RMat ℝ d) :
    (Matrix.of (g.conj Cv) : Matrix (Fin d) (Fin d) ℝ) = g.matR * Matrix.of Cv * g.matRᵀ := by
  rw [← conjMat_mat]
  ext i j
  simp only [Matrix.of_apply, conjMat, sumFin_eq, Matrix.mul_apply, Matrix.transpose_apply, SP.matR,
    Matrix.map_apply, Finset.sum_mul]
  rw [Finset.sum_comm]

/-- **the matrix function the code computes**, on the project's matrix type: `Cv ↦ Cv^{-1/2}` -/
noncomputable def invSqrtR (Cv : RMat ℝ d) : RMat ℝ d := fun i j => invSqrtPD (Matrix.of Cv) i j

theorem of_invSqrtR (Cv : RMat ℝ d) : Matrix.of (invSqrtR Cv) = invSqrtPD (Matrix.of Cv) := rfl

/-- **the hypothesis of C08 / C07 holds for the inverse square root** (on all matrices, a fortiori
on the symmetric ones the hypothesis quantifies over) -/
theorem invSqrtR_conj (g : SP d) (Cv : RMat ℝ d) : invSqrtR (g.conj Cv) = g.conj (invSqrtR Cv) := by
  have h := invSqrt_conjEquivariant g.matR (Matrix.of Cv) g.matR_orth
  rw [← conj_eq_matR, ← of_invSqrtR, ← of_invSqrtR, ← conj_eq_matR] at h
  exact Matrix.of.injective h

theorem conjEquivariant_invSqrt : ConjEquivariant (invSqrtR (d := d)) :=
  fun g Cv _ => invSqrtR_conj g Cv

/-! ### the argument the code passes is positive definite: `cov + eps·I`, `eps > 0` -/

theorem of_addEps (eps : ℝ) (Cv : RMat ℝ d) :
    (Matrix.of (addEps eps Cv) : Matrix (Fin d) (Fin d) ℝ) = Matrix.of Cv + eps • 1 := by
  ext i j
  simp [addEps, Matrix.one_apply]

/-- the covariance of a group is a non-negative multiple of a sum of outer products `x xᵀ` -/
theorem of_grpCov (B : Blk ℝ d) (cpg grp : Nat) :
    (Matrix.of (grpCov B cpg grp) : Matrix (Fin d) (Fin d) ℝ)
      = (((cpg * boxCount B.dims : Nat) : ℝ))⁻¹ •
          ∑ c' : Fin cpg, ∑ y ∈ boxF B.dims,
            vecMulVec (fun i => B.val (grp * cpg + c'.val) y [i] - grpMean B cpg grp [i])
              (fun i => B.val (grp * cpg + c'.val) y [i] - grpMean B cpg grp [i]) := by
  ext i j
  simp only [Matrix.of_apply, grpCov, grpSum, sumFin_eq, sumBox_eq, Matrix.smul_apply,
    Matrix.sum_apply, vecMulVec_apply, smul_eq_mul, div_eq_inv_mul]

theorem grpCov_posSemidef (B : Blk ℝ d) (cpg grp : Nat) :
    (Matrix.of (grpCov B cpg grp) : Matrix (Fin d) (Fin d) ℝ).PosSemidef := by
  rw [of_grpCov]
  refine PosSemidef.smul ?_ (inv_nonneg.mpr (Nat.cast_nonneg _))
  refine posSemidef_sum _ (fun c' _ => posSemidef_sum _ (fun y _ => ?_))
  simpa using posSemidef_vecMulVec_self_star
    (fun i => B.val (grp * cpg + c'.val) y [i] - grpMean B cpg grp [i])

/-- **for `eps > 0` the matrix handed to the matrix function is positive definite** (for every
block, every group, also the degenerate empty one) -/
theorem addEps_grpCov_posDef (B : Blk ℝ d) (cpg grp : Nat) {eps : ℝ} (heps : 0 < eps) :
    (Matrix.of (addEps eps (grpCov B cpg grp)) : Matrix (Fin d) (Fin d) ℝ).PosDef := by
  rw [of_addEps]
  exact PosDef.posSemidef_add (grpCov_posSemidef B cpg grp) (PosDef.one.smul heps)

/-- **so the whitening matrix of the model with `S = invSqrtR` is the one the code computes**: the
unique symmetric positive definite `W` with `W (cov + eps·I) W = 1` -/
theorem whitening_spec (B : Blk ℝ d) (cpg grp : Nat) {eps : ℝ} (heps : 0 < eps) :
    let A : Matrix (Fin d) (Fin d) ℝ := Matrix.of (addEps eps (grpCov B cpg grp))
    let W : Matrix (Fin d) (Fin d) ℝ := Matrix.of (invSqrtR (addEps eps (grpCov B cpg grp)))
    W.PosDef ∧ W * A * W = 1 ∧ ∀ W' : Matrix (Fin d) (Fin d) ℝ, W'.PosSemidef → W' * A * W' = 1 → W' = W :=
  ⟨(invSqrtPD_spec (addEps_grpCov_posDef B cpg grp heps)).1,
   (invSqrtPD_spec (addEps_grpCov_posDef B cpg grp heps)).2,
   fun _ h1 h2 => invSqrtPD_unique h1 h2⟩

end GinjaxVerif
