import GinjaxVerif.Model.C08
import GinjaxVerif.Lemmas.ActionLaws
import GinjaxVerif.Lemmas.Box
import GinjaxVerif.Lemmas.Conv

/-!
# C08 — shared lemmas: blocks, the permute-and-flip action on blocks, re-indexing of box sums

The equivariance of every block operation `f` is proved in *relational* form

  `B'.Equiv (pfBlk g c B) → (f B').Equiv (pfBlk g c (f B))`

(`pfBlk g c` = permute-and-flip action with scalar `c`, `c·c = 1`), which composes trivially along a
network, and is then transferred to the model `tgeBlk` of the code's action (`equivariant_of_rel`).
-/
namespace GinjaxVerif

open Finset

variable {R : Type} {d : Nat}

/-! ### block equivalence -/

theorem Blk.Equiv.refl (A : Blk R d) : A.Equiv A := ⟨rfl, rfl, rfl, fun _ _ _ _ _ _ => rfl⟩

theorem Blk.Equiv.symm {A B : Blk R d} (h : A.Equiv B) : B.Equiv A := by
  obtain ⟨h1, h2, h3, h4⟩ := h
  refine ⟨h1.symm, h2.symm, h3.symm, fun c hc y hy n hn => ?_⟩
  rw [← h1] at hc; rw [← h2] at hy; rw [← h3] at hn
  exact (h4 c hc y hy n hn).symm

theorem Blk.Equiv.trans {A B C : Blk R d} (h : A.Equiv B) (h' : B.Equiv C) : A.Equiv C := by
  obtain ⟨h1, h2, h3, h4⟩ := h
  obtain ⟨k1, k2, k3, k4⟩ := h'
  refine ⟨h1.trans k1, h2.trans k2, h3.trans k3, fun c hc y hy n hn => ?_⟩
  rw [h4 c hc y hy n hn]
  rw [h1] at hc; rw [h2] at hy; rw [h3] at hn
  exact k4 c hc y hy n hn

/-! ### the action on blocks -/

/-- permute-and-flip action with scalar `c` on every channel -/
def pfBlk [Mul R] [IntCast R] (g : SP d) (c : Int) (B : Blk R d) : Blk R d :=
  { C := B.C, dims := fun i => B.dims (g.σ i), k := B.k, val := fun ch => (pf g c (B.img ch)).val }

theorem pfBlk_val [Mul R] [IntCast R] (g : SP d) (c : Int) (B : Blk R d) (ch : Nat) (y : Pix d)
    (n : List (Fin d)) :
    (pfBlk g c B).val ch y n =
      ((c : Int) : R) * (((g.sgn n : Int) : R) *
        B.val ch (g.srcPix (fun i => B.dims (g.σ i)) y) (n.map g.σ)) := rfl

theorem tgeBlk_equiv_pfBlk [CommRing R] (g : SP d) (p : Nat) (B : Blk R d) :
    (tgeBlk g.mat p B).Equiv (pfBlk g ((det g.mat) ^ p) B) :=
  ⟨rfl, rotDims_mat' g B.dims, rfl, fun c _ y hy n _ => (tge_seq_pf g p (B.img c)).2.2 y hy n⟩

/-- **transfer**: relational equivariance for the permute-and-flip form gives equivariance for the
model of the code's `times_group_element` -/
theorem equivariant_of_rel [CommRing R] (g : SP d) (p : Nat) (f : Blk R d → Blk R d) (B : Blk R d)
    (h : ∀ B' : Blk R d, B'.Equiv (pfBlk g ((det g.mat) ^ p) B) →
      (f B').Equiv (pfBlk g ((det g.mat) ^ p) (f B))) :
    (f (tgeBlk g.mat p B)).Equiv (tgeBlk g.mat p (f B)) :=
  (h _ (tgeBlk_equiv_pfBlk g p B)).trans (tgeBlk_equiv_pfBlk g p (f B)).symm

theorem cast_sq_one [CommRing R] (c : Int) (hc : c * c = 1) : ((c : Int) : R) * ((c : Int) : R) = 1 := by
  rw [← Int.cast_mul, hc]; simp

theorem sgn_cast_sq [CommRing R] (g : SP d) (n : List (Fin d)) :
    ((g.sgn n : Int) : R) * ((g.sgn n : Int) : R) = 1 := cast_sq_one _ (g.sgn_mul_self n)

theorem detpow_sq (g : SP d) (p : Nat) : (det g.mat) ^ p * (det g.mat) ^ p = 1 := g.det_pow_mul_self p

/-! ### sums -/

theorem sumBox_congr_inBox [AddCommMonoid R] (N : Fin d → Nat) (f f' : Pix d → R)
    (h : ∀ y, InBox N y → f y = f' y) : sumBox N f = sumBox N f' := by
  rw [sumBox_eq, sumBox_eq]
  exact Finset.sum_congr rfl (fun y hy => h y ((mem_boxF N y).mp hy))

/-- **a box sum is invariant under the pixel bijection of `g`** -/
theorem sumBox_srcPix [AddCommMonoid R] (g : SP d) (N : Fin d → Nat) (f : Pix d → R) :
    sumBox (fun i => N (g.σ i)) (fun y' => f (g.srcPix (fun i => N (g.σ i)) y')) = sumBox N f := by
  rw [sumBox_eq, sumBox_eq]
  refine Finset.sum_bij' (fun a' _ => g.srcPix (fun i => N (g.σ i)) a')
    (fun a _ => g.inv.srcPix N a) ?_ ?_ ?_ ?_ ?_
  · intro a' ha'
    rw [mem_boxF] at ha' ⊢
    exact srcPix_inBox g N a' ha'
  · intro a ha
    rw [mem_boxF] at ha ⊢
    exact inv_srcPix_inBox g N a ha
  · intro a' _; exact srcPix_left_inv g N a'
  · intro a _; exact srcPix_right_inv g N a
  · intro a' _; rfl

theorem sumFin_congr_fin [AddCommMonoid R] (n : Nat) (f f' : Fin n → R) (h : ∀ i, f i = f' i) :
    sumFin n f = sumFin n f' := by
  have : f = f' := funext h
  rw [this]

theorem sumIdx_mul_left [CommSemiring R] (c : R) : ∀ (k : Nat) (f : List (Fin d) → R),
    sumIdx d k (fun n => c * f n) = c * sumIdx d k f
  | 0, f => rfl
  | k + 1, f => by
    simp only [sumIdx, sumFin_eq]
    rw [Finset.mul_sum]
    exact Finset.sum_congr rfl (fun a _ => sumIdx_mul_left c k _)

theorem boxCount_perm (σ : Equiv.Perm (Fin d)) (N : Fin d → Nat) :
    boxCount (fun i => N (σ i)) = boxCount N := by
  simp only [boxCount, prodFin_eq]
  exact Equiv.prod_comp σ N

/-- the squared norm seen through the permute-and-flip action: signs square to one and the index
permutation re-indexes the sum -/
theorem sumIdx_pf_sq [CommRing R] (g : SP d) (c : Int) (hc : c * c = 1) (k : Nat)
    (u v : List (Fin d) → R) :
    sumIdx d k (fun n => (((c : Int) : R) * (((g.sgn n : Int) : R) * u (n.map g.σ))) *
        (((c : Int) : R) * (((g.sgn n : Int) : R) * v (n.map g.σ))))
      = sumIdx d k (fun n => u n * v n) := by
  rw [← sumIdx_map g.σ k (fun n => u n * v n)]
  apply sumIdx_congr
  intro n
  have h1 := cast_sq_one (R := R) c hc
  have h2 := sgn_cast_sq (R := R) g n
  calc _ = (((c : Int) : R) * ((c : Int) : R)) * (((g.sgn n : Int) : R) * ((g.sgn n : Int) : R)) *
            (u (n.map g.σ) * v (n.map g.σ)) := by ring
    _ = _ := by rw [h1, h2]; ring

/-- squared pixel norms of a block that is (equivalent to) a transformed block -/
theorem normSq_rel [CommRing R] (g : SP d) (c : Int) (hc : c * c = 1) (B B' : Blk R d)
    (h : B'.Equiv (pfBlk g c B)) (ch : Nat) (hch : ch < B.C) (y : Pix d)
    (hy : InBox (fun i => B.dims (g.σ i)) y) :
    normSq (B'.img ch) y = normSq (B.img ch) (g.srcPix (fun i => B.dims (g.σ i)) y) := by
  obtain ⟨hC, hd, hk, hv⟩ := h
  unfold normSq
  simp only [Blk.img]
  have hk' : B'.k = B.k := hk
  rw [hk']
  rw [← sumIdx_pf_sq g c hc B.k (B.val ch (g.srcPix (fun i => B.dims (g.σ i)) y))
    (B.val ch (g.srcPix (fun i => B.dims (g.σ i)) y))]
  apply sumIdx_congr_len
  intro n hn
  have hC' : B'.C = B.C := hC
  have hd' : B'.dims = fun i => B.dims (g.σ i) := hd
  rw [hv ch (by omega) y (by rw [hd']; exact hy) n (by omega), pfBlk_val]

/-! ### channel ranges of a group -/

theorem grp_channel_lt (C G c c' : Nat) (hG : G ∣ C) (hc : c < C) (hc' : c' < C / G) :
    c / (C / G) * (C / G) + c' < C := by
  have hq : 0 < C / G := by omega
  have hCq : C / G * G = C := Nat.div_mul_cancel hG
  have h1 : c / (C / G) < G := by
    rw [Nat.div_lt_iff_lt_mul hq, Nat.mul_comm]; omega
  have h2 : (c / (C / G) + 1) * (C / G) ≤ G * (C / G) := Nat.mul_le_mul_right _ h1
  have h3 : (c / (C / G) + 1) * (C / G) = c / (C / G) * (C / G) + C / G := by ring
  have h4 : G * (C / G) = C := by rw [Nat.mul_comm]; exact hCq
  omega

/-- a group sum over a transformed block is the group sum over the source block -/
theorem grpSum_rel [AddCommMonoid R] (g : SP d) (N : Fin d → Nat) (cpg grp C : Nat)
    (hr : ∀ c', c' < cpg → grp * cpg + c' < C) (f f' : Nat → Pix d → R)
    (h : ∀ ch, ch < C → ∀ y, InBox (fun i => N (g.σ i)) y →
      f' ch y = f ch (g.srcPix (fun i => N (g.σ i)) y)) :
    grpSum (fun i => N (g.σ i)) cpg grp f' = grpSum N cpg grp f := by
  unfold grpSum
  apply sumFin_congr_fin
  intro c'
  rw [← sumBox_srcPix g N (fun y => f (grp * cpg + c'.val) y)]
  exact sumBox_congr_inBox _ _ _ (fun y hy => h _ (hr c'.val c'.isLt) y hy)

theorem grpSum_mul_left [CommSemiring R] (N : Fin d → Nat) (cpg grp : Nat) (a : R)
    (f : Nat → Pix d → R) :
    grpSum N cpg grp (fun c y => a * f c y) = a * grpSum N cpg grp f := by
  unfold grpSum
  simp only [sumBox_mul_left, sumFin_mul_left]

end GinjaxVerif
