import GinjaxVerif.Lemmas.C03Concrete
import Mathlib.Data.List.Nodup
import Mathlib.Data.List.FinRange
import Mathlib.Data.Fin.Tuple.Basic
import Mathlib.Algebra.BigOperators.Group.Finset.Basic

/-!
# C03 — the model's enumerations are complete and duplicate-free

`allFuns n m` lists every function `Fin n → Fin m` exactly once, `allIdx d M k` every filter index
exactly once; hence model sums over these lists are Mathlib sums over the finite types, and a
function on the index type is determined by its flattened row.
-/

namespace GinjaxVerif.C03
open scoped BigOperators

theorem consFn_eq_cons {m n : ℕ} (x : Fin m) (f : Fin n → Fin m) :
    consFn x f = Fin.cons x f := by
  funext i
  refine Fin.cases ?_ (fun j => ?_) i <;> simp [consFn]

theorem mem_allFuns : ∀ (n m : ℕ) (f : Fin n → Fin m), f ∈ allFuns n m
  | 0, m, f => by
    simp only [allFuns, List.mem_singleton]
    funext i; exact i.elim0
  | n + 1, m, f => by
    simp only [allFuns, List.mem_flatMap, List.mem_map]
    refine ⟨f 0, List.mem_finRange _, Fin.tail f, mem_allFuns n m _, ?_⟩
    rw [consFn_eq_cons, Fin.cons_self_tail]

theorem allFuns_nodup : ∀ (n m : ℕ), (allFuns n m).Nodup
  | 0, m => by simp [allFuns]
  | n + 1, m => by
    simp only [allFuns]
    rw [List.nodup_flatMap]
    refine ⟨fun x _ => ?_, ?_⟩
    · refine (allFuns_nodup n m).map ?_
      intro f f' h
      simp only [consFn_eq_cons] at h
      exact Fin.cons_right_injective _ h
    · refine List.Pairwise.imp (R := (· ≠ ·)) ?_ (List.nodup_finRange m)
      · intro x x' hne
        rw [Function.onFun, List.disjoint_left]
        intro f hf hf'
        simp only [List.mem_map] at hf hf'
        obtain ⟨u, _, rfl⟩ := hf
        obtain ⟨v, _, hv⟩ := hf'
        apply hne
        have := congrFun hv 0
        simpa [consFn] using this.symm

variable {d M k : ℕ}

theorem mem_allIdx (j : FIdx d M k) : j ∈ allIdx d M k := by
  simp only [allIdx, List.mem_flatMap, List.mem_map]
  exact ⟨j.px, mem_allFuns _ _ _, j.tn, mem_allFuns _ _ _, rfl⟩

theorem allIdx_nodup : (allIdx d M k).Nodup := by
  simp only [allIdx]
  rw [List.nodup_flatMap]
  refine ⟨fun x _ => ?_, ?_⟩
  · refine (allFuns_nodup k d).map ?_
    intro t t' h
    exact congrArg FIdx.tn h
  · refine List.Pairwise.imp (R := (· ≠ ·)) ?_ (allFuns_nodup d M)
    · intro x x' hne
      rw [Function.onFun, List.disjoint_left]
      intro f hf hf'
      simp only [List.mem_map] at hf hf'
      obtain ⟨u, _, rfl⟩ := hf
      obtain ⟨v, _, hv⟩ := hf'
      exact hne (congrArg FIdx.px hv).symm

/-- a sum over the model's enumeration of functions is the sum over the finite type -/
theorem sum_allFuns {R : Type*} [AddCommMonoid R] (n m : ℕ) (F : (Fin n → Fin m) → R) :
    ((allFuns n m).map F).sum = ∑ f, F f := by
  rw [← List.sum_toFinset F (allFuns_nodup n m)]
  congr 1
  ext f; simp [mem_allFuns]

theorem sum_allIdx {R : Type*} [AddCommMonoid R] (F : FIdx d M k → R) :
    ((allIdx d M k).map F).sum = ∑ j, F j := by
  rw [← List.sum_toFinset F allIdx_nodup]
  congr 1
  ext f; simp [mem_allIdx]

/-- flattening (`reshape(-1)`) loses nothing -/
theorem flatten_injective {α : Type*} (u v : FIdx d M k → α)
    (h : (allIdx d M k).map u = (allIdx d M k).map v) : u = v := by
  funext j
  exact List.map_inj_left.mp h j (mem_allIdx j)

theorem funEqb_iff {n m : ℕ} (f g : Fin n → Fin m) : funEqb f g = true ↔ f = g := by
  simp only [funEqb, List.all_eq_true, beq_iff_eq]
  constructor
  · intro h; funext a; exact h a (List.mem_finRange a)
  · rintro rfl a _; rfl

theorem FIdx.eqb_iff (i j : FIdx d M k) : FIdx.eqb i j = true ↔ i = j := by
  simp only [FIdx.eqb, Bool.and_eq_true, funEqb_iff]
  constructor
  · rintro ⟨h1, h2⟩; exact FIdx.ext' h1 h2
  · rintro rfl; exact ⟨rfl, rfl⟩

theorem basis_eq_single (i j : FIdx d M k) :
    ((basis i j : ℤ)) = (Pi.single i (1 : ℤ) : FIdx d M k → ℤ) j := by
  unfold basis
  by_cases h : j = i
  · subst h; simp [(FIdx.eqb_iff j j).mpr rfl]
  · have : FIdx.eqb j i = false := by
      rw [← Bool.not_eq_true, FIdx.eqb_iff]; exact h
    simp [this, h]

end GinjaxVerif.C03
