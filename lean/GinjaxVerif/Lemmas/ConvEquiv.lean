import GinjaxVerif.Lemmas.Box
import GinjaxVerif.Lemmas.Conv
import GinjaxVerif.Lemmas.ActionLaws

/-!
# Convolution commutes with the hyperoctahedral group (index level)

1. the padded signal (wrap, zero-interleave, symmetric zero padding) commutes with permute-and-flip
   when the per-axis options travel with the axes (`padVal_push`);
2. valid correlation commutes with permute-and-flip (`corr_push`, a re-indexing of the box sum);
3. hence `convSpec` does (`convSpec_push`), with tensor order `k+k'` and the product of the scalars.
-/
namespace GinjaxVerif

open Finset

variable {R : Type} {d : Nat}

/-- symmetric boundary treatment at unit stride (and non-degenerate extents) -/
def AxisOpt.Sym (o : AxisOpt) : Prop := o.lo = o.hi ∧ o.stride = 1 ∧ 0 < o.N ∧ 0 < o.ld

theorem flip_emod (N m : Int) (hN : 0 < N) : (N - 1 - m) % N = N - 1 - m % N := by
  have h1 := Int.emod_add_mul_ediv m N
  have h2 : N - 1 - m = (N - 1 - m % N) + N * (-(m / N)) := by
    have : m = m % N + N * (m / N) := h1.symm
    calc N - 1 - m = N - 1 - (m % N + N * (m / N)) := by rw [← this]
      _ = _ := by ring
  rw [h2, Int.add_mul_emod_self_left]
  apply Int.emod_eq_of_lt
  · have := Int.emod_lt_of_pos m hN; omega
  · have := Int.emod_nonneg m (ne_of_gt hN); omega

theorem AxisOpt.dilLen_cast (o : AxisOpt) (hN : 0 < o.N) :
    (o.dilLen : Int) = ((o.N : Int) + 2 * o.w - 1) * o.ld + 1 := by
  unfold AxisOpt.dilLen
  have : o.N + 2 * o.w - 1 + 1 = o.N + 2 * o.w := by omega
  have h2 : ((o.N + 2 * o.w - 1 : Nat) : Int) = (o.N : Int) + 2 * o.w - 1 := by omega
  push_cast [h2]
  ring

/-- **1-D core**: mirroring the position in the padded signal mirrors the source pixel (needs the
same zero padding on both sides). -/
theorem AxisOpt.srcIdx_flip (o : AxisOpt) (h : o.Sym) (q : Int) :
    o.srcIdx ((o.padLen : Int) - 1 - q) = (o.srcIdx q).map (fun u => (o.N : Int) - 1 - u) := by
  obtain ⟨hlo, _, hN, hld⟩ := h
  have hD := o.dilLen_cast hN
  have hP : (o.padLen : Int) = o.dilLen + o.lo + o.hi := by simp [AxisOpt.padLen]
  set K : Int := (o.N : Int) + 2 * o.w - 1 with hK
  have hld' : (0 : Int) < o.ld := by exact_mod_cast hld
  have hN' : (0 : Int) < o.N := by exact_mod_cast hN
  have key : (o.padLen : Int) - 1 - q - o.lo = K * o.ld - (q - o.lo) := by
    rw [hP, hD, ← hlo]; ring
  simp only [AxisOpt.srcIdx, key]
  have hdvd : (o.ld : Int) ∣ K * o.ld := dvd_mul_left _ _
  have hmod : (K * o.ld - (q - o.lo)) % o.ld = 0 ↔ (q - o.lo) % o.ld = 0 := by
    constructor
    · intro h0
      have := Int.dvd_of_emod_eq_zero h0
      exact Int.emod_eq_zero_of_dvd ((dvd_sub_right hdvd).mp this)
    · intro h0
      have := Int.dvd_of_emod_eq_zero h0
      exact Int.emod_eq_zero_of_dvd ((dvd_sub_right hdvd).mpr this)
  have hrange : (0 ≤ K * o.ld - (q - o.lo) ∧ K * o.ld - (q - o.lo) < o.dilLen) ↔
      (0 ≤ q - o.lo ∧ q - o.lo < o.dilLen) := by
    rw [hD]; constructor <;> intro ⟨a, b⟩ <;> constructor <;> omega
  by_cases hc : 0 ≤ q - (o.lo : Int) ∧ q - (o.lo : Int) < o.dilLen ∧ (q - (o.lo : Int)) % o.ld = 0
  · have hc' : 0 ≤ K * o.ld - (q - o.lo) ∧ K * o.ld - (q - o.lo) < o.dilLen ∧
        (K * o.ld - (q - o.lo)) % o.ld = 0 :=
      ⟨(hrange.mpr ⟨hc.1, hc.2.1⟩).1, (hrange.mpr ⟨hc.1, hc.2.1⟩).2, hmod.mpr hc.2.2⟩
    rw [if_pos hc, if_pos hc', Option.map_some]
    congr 1
    obtain ⟨u, hu⟩ := Int.dvd_of_emod_eq_zero hc.2.2
    have hdiv1 : (q - (o.lo : Int)) / o.ld = u := by
      rw [hu]; exact Int.mul_ediv_cancel_left _ (ne_of_gt hld')
    have hdiv2 : (K * o.ld - (q - o.lo)) / o.ld = K - u := by
      rw [hu]
      have : K * (o.ld : Int) - o.ld * u = o.ld * (K - u) := by ring
      rw [this]; exact Int.mul_ediv_cancel_left _ (ne_of_gt hld')
    rw [hdiv1, hdiv2]
    have : K - u - o.w = (o.N : Int) - 1 - (u - o.w) := by rw [hK]; ring
    rw [this, flip_emod _ _ hN']
  · have hc' : ¬ (0 ≤ K * o.ld - (q - o.lo) ∧ K * o.ld - (q - o.lo) < o.dilLen ∧
        (K * o.ld - (q - o.lo)) % o.ld = 0) := by
      intro ⟨a, b, c⟩
      exact hc ⟨(hrange.mp ⟨a, b⟩).1, (hrange.mp ⟨a, b⟩).2, hmod.mp c⟩
    rw [if_neg hc, if_neg hc', Option.map_none]

/-! ### the padded signal commutes with permute-and-flip -/

/-- per-axis options travel with the axes -/
def pushAx (g : SP d) (ax : Fin d → AxisOpt) : Fin d → AxisOpt := fun i => ax (g.σ i)

def PadOK (ax : Fin d → AxisOpt) (q : Pix d) : Prop := ∀ j, ((ax j).srcIdx (q j)).isSome = true

theorem padVal_eq [Zero R] (ax : Fin d → AxisOpt) (A : Pix d → R) (q : Pix d) :
    padVal ax A q = (open Classical in
      if PadOK ax q then A (fun j => ((ax j).srcIdx (q j)).getD 0) else 0) := by
  unfold padVal PadOK
  by_cases h : ∀ j, ((ax j).srcIdx (q j)).isSome = true
  · have : (List.finRange d).all (fun j => ((ax j).srcIdx (q j)).isSome) = true := by
      rw [List.all_eq_true]; intro j _; exact h j
    rw [if_pos this, if_pos h]
  · have : ¬ (List.finRange d).all (fun j => ((ax j).srcIdx (q j)).isSome) = true := by
      rw [List.all_eq_true]; intro h'; exact h (fun j => h' j (List.mem_finRange j))
    rw [if_neg this, if_neg h]

/-- coordinate `σ i` of the permuted-and-flipped padded position -/
theorem srcPix_apply_σ (g : SP d) (L : Fin d → Nat) (q : Pix d) (i : Fin d) :
    g.srcPix L q (g.σ i) = if g.s i = 1 then q i else (L i : Int) - 1 - q i := by
  simp [SP.srcPix]

theorem srcIdx_srcPix (g : SP d) (ax : Fin d → AxisOpt) (hs : ∀ j, (ax j).Sym) (q : Pix d)
    (i : Fin d) :
    (ax (g.σ i)).srcIdx (g.srcPix (fun i => (ax (g.σ i)).padLen) q (g.σ i)) =
      if g.s i = 1 then (ax (g.σ i)).srcIdx (q i)
      else ((ax (g.σ i)).srcIdx (q i)).map (fun u => ((ax (g.σ i)).N : Int) - 1 - u) := by
  rw [srcPix_apply_σ]
  split
  · rfl
  · exact (ax (g.σ i)).srcIdx_flip (hs _) (q i)

theorem padOK_push (g : SP d) (ax : Fin d → AxisOpt) (hs : ∀ j, (ax j).Sym) (q : Pix d) :
    PadOK ax (g.srcPix (fun i => (ax (g.σ i)).padLen) q) ↔ PadOK (pushAx g ax) q := by
  unfold PadOK pushAx
  constructor
  · intro h i
    have := h (g.σ i)
    rw [srcIdx_srcPix g ax hs q i] at this
    split at this
    · exact this
    · simpa using this
  · intro h j
    have hj : j = g.σ (g.σ.symm j) := by simp
    rw [hj, srcIdx_srcPix g ax hs q (g.σ.symm j)]
    split
    · exact h _
    · simpa using h (g.σ.symm j)

/-- **The padded signal of the transformed image is the transformed padded signal**, when the
options travel with the axes and the boundary treatment is symmetric. -/
theorem padVal_push [Zero R] (g : SP d) (ax : Fin d → AxisOpt) (hs : ∀ j, (ax j).Sym)
    (A : Pix d → R) (q : Pix d) :
    padVal (pushAx g ax) (fun y => A (g.srcPix (fun i => (ax (g.σ i)).N) y)) q
      = padVal ax A (g.srcPix (fun i => (ax (g.σ i)).padLen) q) := by
  rw [padVal_eq, padVal_eq]
  by_cases hok : PadOK (pushAx g ax) q
  · rw [if_pos hok, if_pos ((padOK_push g ax hs q).mpr hok)]
    congr 1
    funext j
    have hj : j = g.σ (g.σ.symm j) := by simp
    rw [hj, srcIdx_srcPix g ax hs q (g.σ.symm j), srcPix_apply_σ]
    have hsome := hok (g.σ.symm j)
    simp only [pushAx] at hsome ⊢
    split
    · rfl
    · obtain ⟨u, hu⟩ := Option.isSome_iff_exists.mp hsome
      rw [hu]; simp
  · rw [if_neg hok, if_neg (fun h => hok ((padOK_push g ax hs q).mp h))]

/-! ### valid correlation commutes with permute-and-flip -/

/-- the filter fits into the padded signal (the output is not empty along this axis) -/
def AxisOpt.Fits (o : AxisOpt) : Prop := o.filtLen ≤ o.padLen

theorem AxisOpt.outLen_cast (o : AxisOpt) (h : o.Sym) (hf : o.Fits) (hM : 0 < o.M) :
    (o.outLen : Int) = (o.padLen : Int) - ((o.M : Int) - 1) * o.rd := by
  obtain ⟨_, hst, _, _⟩ := h
  unfold AxisOpt.Fits at hf
  have hnl : ¬ o.padLen < o.filtLen := by omega
  simp only [AxisOpt.outLen, hnl, if_false, hst, Nat.div_one]
  have hfl : (o.filtLen : Int) = ((o.M : Int) - 1) * o.rd + 1 := by
    unfold AxisOpt.filtLen
    have : ((o.M - 1 : Nat) : Int) = (o.M : Int) - 1 := by omega
    push_cast [this]; ring
  have : ((o.padLen - o.filtLen : Nat) : Int) = (o.padLen : Int) - o.filtLen := by omega
  push_cast [this, hfl]; ring

theorem corr_push [CommRing R] (g : SP d) (ax : Fin d → AxisOpt) (hs : ∀ j, (ax j).Sym)
    (hf : ∀ j, (ax j).Fits) (P F : Pix d → R) (i' : Pix d) :
    sumBox (fun i => (pushAx g ax i).M) (fun a' =>
        P (g.srcPix (fun i => (ax (g.σ i)).padLen)
            (fun i => i' i * ((pushAx g ax i).stride : Int) + a' i * ((pushAx g ax i).rd : Int)))
          * F (g.srcPix (fun i => (ax (g.σ i)).M) a'))
      = sumBox (fun j => (ax j).M) (fun a =>
        P (fun j => g.srcPix (fun i => (ax (g.σ i)).outLen) i' j * ((ax j).stride : Int)
              + a j * ((ax j).rd : Int)) * F a) := by
  rw [sumBox_eq, sumBox_eq]
  refine Finset.sum_bij' (fun a' _ => g.srcPix (fun i => (ax (g.σ i)).M) a')
    (fun a _ => g.inv.srcPix (fun j => (ax j).M) a) ?_ ?_ ?_ ?_ ?_
  · intro a' ha'
    rw [mem_boxF] at ha' ⊢
    exact srcPix_inBox g (fun j => (ax j).M) a' ha'
  · intro a ha
    rw [mem_boxF] at ha ⊢
    exact inv_srcPix_inBox g (fun j => (ax j).M) a ha
  · intro a' _; exact srcPix_left_inv g (fun j => (ax j).M) a'
  · intro a _; exact srcPix_right_inv g (fun j => (ax j).M) a
  · intro a' ha'
    rw [mem_boxF] at ha'
    congr 2
    funext j
    have hj : j = g.σ (g.σ.symm j) := by simp
    rw [hj]
    set i := g.σ.symm j with hi
    have hM : 0 < (ax (g.σ i)).M := by
      have := ha' i
      simp only [pushAx] at this
      omega
    have hout := (ax (g.σ i)).outLen_cast (hs _) (hf _) hM
    have hst : ((ax (g.σ i)).stride : Int) = 1 := by
      have := (hs (g.σ i)).2.1; exact_mod_cast this
    simp only [srcPix_apply_σ, pushAx, hst]
    split
    · ring
    · rw [hout]; ring

/-! ### the direct-sum convolution commutes with the group -/

/-- the permute-and-flip action with scalar `c` on every image of a bank whose images have
extents `dims` -/
def pfBank [Mul R] [IntCast R] (g : SP d) (c : Int) (dims : Fin d → Nat) (B : Bank R d) : Bank R d :=
  fun b ch y t =>
    ((c : Int) : R) * (((g.sgn t : Int) : R) * B b ch (g.srcPix (fun i => dims (g.σ i)) y) (t.map g.σ))

def ConvCfg.push (g : SP d) (cfg : ConvCfg d) : ConvCfg d := { cfg with ax := pushAx g cfg.ax }

theorem padVal_smul [CommRing R] (ax : Fin d → AxisOpt) (c : R) (A : Pix d → R) (q : Pix d) :
    padVal ax (fun y => c * A y) q = c * padVal ax A q := by
  unfold padVal; split <;> simp

theorem padVal_add [CommRing R] (ax : Fin d → AxisOpt) (A B : Pix d → R) (q : Pix d) :
    padVal ax (fun y => A y + B y) q = padVal ax A q + padVal ax B q := by
  unfold padVal; split <;> simp

theorem SP.sgn_take_drop (g : SP d) (n : List (Fin d)) (k : Nat) :
    g.sgn (n.take k) * g.sgn (n.drop k) = g.sgn n := by
  rw [← SP.sgn_append, List.take_append_drop]

/-- **Index-level equivariance of the direct-sum convolution**: transforming image and filter
(scalars `cI`, `cF`) and transporting the options along the axes transforms the result (scalar
`cI·cF`, tensor order `k + k'`), for every symmetric boundary treatment at unit stride, every
filter dilation and image dilation, every extent vector, every `g`. -/
theorem convSpec_push [CommRing R] (g : SP d) (cfg : ConvCfg d) (hs : ∀ j, (cfg.ax j).Sym)
    (hf : ∀ j, (cfg.ax j).Fits) (cI cF : Int) (img flt : Bank R d) (b o : Nat) (i' : Pix d)
    (n : List (Fin d)) :
    convSpec (cfg.push g) (pfBank g cI (fun j => (cfg.ax j).N) img)
        (pfBank g cF (fun j => (cfg.ax j).M) flt) b o i' n
      = ((cI * cF : Int) : R) * (((g.sgn n : Int) : R) *
          convSpec cfg img flt b o (g.srcPix (fun i => (cfg.ax (g.σ i)).outLen) i') (n.map g.σ)) := by
  simp only [convSpec, ConvCfg.push, pfBank]
  rw [← sumFin_mul_left, ← sumFin_mul_left]
  apply sumFin_congr'
  intro c
  -- pull the scalars out of the padded signal and of the box sum
  have hA : ∀ a' : Pix d,
      padVal (pushAx g cfg.ax)
          (fun y => ((cI : Int) : R) * (((g.sgn (n.take cfg.kI) : Int) : R) *
            img b c.val (g.srcPix (fun i => (cfg.ax (g.σ i)).N) y) ((n.take cfg.kI).map g.σ)))
          (fun j => i' j * ((pushAx g cfg.ax j).stride : Int) + a' j * ((pushAx g cfg.ax j).rd : Int))
        * (((cF : Int) : R) * (((g.sgn (n.drop cfg.kI) : Int) : R) *
            flt o c.val (g.srcPix (fun i => (cfg.ax (g.σ i)).M) a') ((n.drop cfg.kI).map g.σ)))
      = (((cI * cF : Int) : R) * ((g.sgn n : Int) : R)) *
          (padVal cfg.ax (fun z => img b c.val z ((n.take cfg.kI).map g.σ))
              (g.srcPix (fun i => (cfg.ax (g.σ i)).padLen)
                (fun j => i' j * ((pushAx g cfg.ax j).stride : Int) + a' j * ((pushAx g cfg.ax j).rd : Int)))
            * flt o c.val (g.srcPix (fun i => (cfg.ax (g.σ i)).M) a') ((n.drop cfg.kI).map g.σ)) := by
    intro a'
    have h1 : (fun y => ((cI : Int) : R) * (((g.sgn (n.take cfg.kI) : Int) : R) *
            img b c.val (g.srcPix (fun i => (cfg.ax (g.σ i)).N) y) ((n.take cfg.kI).map g.σ)))
        = (fun y => (((cI : Int) : R) * ((g.sgn (n.take cfg.kI) : Int) : R)) *
            (fun z => img b c.val z ((n.take cfg.kI).map g.σ))
              (g.srcPix (fun i => (cfg.ax (g.σ i)).N) y)) := by
      funext y; ring
    rw [h1, padVal_smul, padVal_push g cfg.ax hs (fun z => img b c.val z ((n.take cfg.kI).map g.σ))]
    rw [← SP.sgn_take_drop g n cfg.kI]
    push_cast
    ring
  simp only [hA]
  rw [sumBox_mul_left]
  rw [corr_push g cfg.ax hs hf
    (padVal cfg.ax (fun z => img b c.val z ((n.take cfg.kI).map g.σ)))
    (fun a => flt o c.val a ((n.drop cfg.kI).map g.σ)) i']
  rw [List.map_take, List.map_drop]
  ring

/-! ### congruence: the convolution only looks at pixels inside the boxes -/

theorem srcIdx_inRange (o : AxisOpt) (hN : 0 < o.N) (q u : Int) (h : o.srcIdx q = some u) :
    0 ≤ u ∧ u < o.N := by
  simp only [AxisOpt.srcIdx] at h
  split at h
  · cases h
    have hN' : (0 : Int) < o.N := by exact_mod_cast hN
    exact ⟨Int.emod_nonneg _ (ne_of_gt hN'), Int.emod_lt_of_pos _ hN'⟩
  · cases h

theorem padVal_congr_inBox [Zero R] (ax : Fin d → AxisOpt) (hN : ∀ j, 0 < (ax j).N)
    (A B : Pix d → R) (h : ∀ y, InBox (fun j => (ax j).N) y → A y = B y) (q : Pix d) :
    padVal ax A q = padVal ax B q := by
  rw [padVal_eq, padVal_eq]
  by_cases hok : PadOK ax q
  · rw [if_pos hok, if_pos hok]
    apply h
    intro j
    obtain ⟨u, hu⟩ := Option.isSome_iff_exists.mp (hok j)
    show 0 ≤ ((ax j).srcIdx (q j)).getD 0 ∧ ((ax j).srcIdx (q j)).getD 0 < ((ax j).N : Int)
    rw [hu]
    exact srcIdx_inRange (ax j) (hN j) _ u hu
  · rw [if_neg hok, if_neg hok]

theorem convSpec_congr [CommRing R] (cfg : ConvCfg d) (hN : ∀ j, 0 < (cfg.ax j).N)
    (img img' flt flt' : Bank R d)
    (hi : ∀ b c y t, InBox (fun j => (cfg.ax j).N) y → img b c y t = img' b c y t)
    (hfl : ∀ o c a t, InBox (fun j => (cfg.ax j).M) a → flt o c a t = flt' o c a t)
    (b o : Nat) (x : Pix d) (n : List (Fin d)) :
    convSpec cfg img flt b o x n = convSpec cfg img' flt' b o x n := by
  simp only [convSpec]
  apply sumFin_congr'
  intro c
  rw [sumBox_eq, sumBox_eq]
  apply Finset.sum_congr rfl
  intro a ha
  rw [mem_boxF] at ha
  rw [padVal_congr_inBox cfg.ax hN _ _ (fun y hy => hi b c.val y _ hy), hfl o c.val a _ ha]

/-! ### equivariance stated with the model of the code's action -/

/-- `times_group_element` applied to every image of a bank (extents `dims`, order `k`) -/
def tgeBank [Zero R] [Add R] [Mul R] [IntCast R] (M : Mat d) (p : Nat) (dims : Fin d → Nat)
    (k : Nat) (B : Bank R d) : Bank R d :=
  fun b ch y t => (tge M p ⟨dims, k, B b ch⟩).val y t

/-- the per-axis options transported by the code-level rule `new[i] = old[argmax |g[i]|]` -/
def ConvCfg.transport (M : Mat d) (cfg : ConvCfg d) : ConvCfg d :=
  { cfg with ax := GinjaxVerif.transport M cfg.ax }

theorem transport_mat' {α : Type} (g : SP d) (old : Fin d → α) :
    GinjaxVerif.transport g.mat old = fun i => old (g.σ i) := funext (transport_mat g old)

/-- **(g·A) * (g·C) = g·(A * C)** with the model `tge` of the code's action, result of order
`k + k'` and parity `p + p'`. -/
theorem conv_tge [CommRing R] (g : SP d) (cfg : ConvCfg d) (hs : ∀ j, (cfg.ax j).Sym)
    (hf : ∀ j, (cfg.ax j).Fits) (pI pF : Nat) (img flt : Bank R d) (b o : Nat) (i' : Pix d)
    (hi' : InBox (rotDims g.mat cfg.outDims) i') (n : List (Fin d)) :
    convSpec (cfg.transport g.mat)
        (tgeBank g.mat pI (fun j => (cfg.ax j).N) cfg.kI img)
        (tgeBank g.mat pF (fun j => (cfg.ax j).M) cfg.kF flt) b o i' n
      = (tge g.mat (pI + pF) ⟨cfg.outDims, cfg.kI + cfg.kF, convSpec cfg img flt b o⟩).val i' n := by
  have hcfg : cfg.transport g.mat = cfg.push g := by
    simp only [ConvCfg.transport, ConvCfg.push, transport_mat']
    rfl
  rw [hcfg]
  rw [convSpec_congr (cfg.push g) (fun j => (hs _).2.2.1) _
    (pfBank g ((det g.mat) ^ pI) (fun j => (cfg.ax j).N) img) _
    (pfBank g ((det g.mat) ^ pF) (fun j => (cfg.ax j).M) flt)]
  · rw [convSpec_push g cfg hs hf]
    have h := (tge_seq_pf g (pI + pF)
      (⟨cfg.outDims, cfg.kI + cfg.kF, convSpec cfg img flt b o⟩ : Img R d)).2.2 i' hi' n
    rw [h]
    simp only [pf, ConvCfg.outDims, pow_add]
  · intro b c y t hy
    have hy' : InBox (tge g.mat pI (⟨fun j => (cfg.ax j).N, cfg.kI, img b c⟩ : Img R d)).dims y := by
      simp only [tge, rotDims_mat']; exact hy
    have := (tge_seq_pf g pI (⟨fun j => (cfg.ax j).N, cfg.kI, img b c⟩ : Img R d)).2.2 y hy' t
    simpa [tgeBank, pfBank, pf] using this
  · intro o c a t ha
    have ha' : InBox (tge g.mat pF (⟨fun j => (cfg.ax j).M, cfg.kF, flt o c⟩ : Img R d)).dims a := by
      simp only [tge, rotDims_mat']; exact ha
    have := (tge_seq_pf g pF (⟨fun j => (cfg.ax j).M, cfg.kF, flt o c⟩ : Img R d)).2.2 a ha' t
    simpa [tgeBank, pfBank, pf] using this

end GinjaxVerif
