import GinjaxVerif.Lemmas.ConvEquiv

/-!
# Padding dispatch is symmetric; convolution with an invariant filter; cyclic shifts on torus axes
-/
namespace GinjaxVerif

open Finset

variable {R : Type} {d : Nat}

/-- padding specifications that are the same on both sides of every axis -/
def PadMode.Symmetric : PadMode → Prop
  | .explicit pads => ∀ p ∈ pads, p.1 = p.2
  | _ => True

theorem dispatchAxis_sym (mode : PadMode) (hm : mode.Symmetric) (anyT t : Bool) (M rd j : Nat)
    (w lo hi : Nat) (h : dispatchAxis mode anyT t M rd j = some (w, lo, hi)) : lo = hi := by
  cases mode with
  | torus => simp only [dispatchAxis] at h; split at h <;> simp at h <;> omega
  | same => simp only [dispatchAxis] at h; simp at h; omega
  | valid => simp only [dispatchAxis] at h; simp at h; omega
  | int p => simp only [dispatchAxis] at h; simp at h; omega
  | none =>
    simp only [dispatchAxis] at h
    split at h
    · split at h <;> simp at h <;> omega
    · simp at h; omega
  | explicit pads =>
    simp only [dispatchAxis] at h
    cases hp : pads[j]? with
    | none => rw [hp] at h; simp at h
    | some pr =>
      rw [hp] at h
      simp only [Option.map_some, Option.some.injEq, Prod.mk.injEq] at h
      have hmem : pr ∈ pads := List.mem_of_getElem? hp
      have := hm pr hmem
      omega

/-- **Every symmetric padding specification yields `lo = hi` on every axis** (TORUS, SAME, VALID,
integer padding, explicit pairs with equal entries, and the default), for every filter side the
dispatch accepts (even sides included for literal padding), every dilation; extents, strides and
dilations are passed through unchanged. -/
theorem dispatch_symmetric (mode : PadMode) (hm : mode.Symmetric) (torus : Fin d → Bool)
    (N M stride rd ld : Fin d → Nat) (ax : Fin d → AxisOpt)
    (h : dispatch mode torus N M stride rd ld = some ax) (j : Fin d) :
    (ax j).lo = (ax j).hi ∧ (ax j).N = N j ∧ (ax j).M = M j ∧ (ax j).stride = stride j ∧
      (ax j).rd = rd j ∧ (ax j).ld = ld j := by
  simp only [dispatch] at h
  split at h
  · cases h
  · split at h
    · rename_i hall
      cases h
      rw [List.all_eq_true] at hall
      have hj := hall j (List.mem_finRange j)
      obtain ⟨⟨w, lo, hi⟩, hv⟩ := Option.isSome_iff_exists.mp hj
      simp only [hv]
      exact ⟨dispatchAxis_sym mode hm _ _ _ _ _ w lo hi hv, trivial, trivial, trivial, trivial, trivial⟩
    · cases h

/-- **Convolution with a `g`-invariant filter is `g`-equivariant** (options invariant under the
transport along the axes). -/
theorem conv_invariant_filter [CommRing R] (g : SP d) (cfg : ConvCfg d) (hs : ∀ j, (cfg.ax j).Sym)
    (hf : ∀ j, (cfg.ax j).Fits) (hcfg : cfg.transport g.mat = cfg) (pI pF : Nat)
    (img flt : Bank R d)
    (hinv : ∀ o c a t, InBox (fun j => (cfg.ax j).M) a →
      tgeBank g.mat pF (fun j => (cfg.ax j).M) cfg.kF flt o c a t = flt o c a t)
    (b o : Nat) (i' : Pix d) (hi' : InBox (rotDims g.mat cfg.outDims) i') (n : List (Fin d)) :
    convSpec cfg (tgeBank g.mat pI (fun j => (cfg.ax j).N) cfg.kI img) flt b o i' n
      = (tge g.mat (pI + pF) ⟨cfg.outDims, cfg.kI + cfg.kF, convSpec cfg img flt b o⟩).val i' n := by
  rw [← conv_tge g cfg hs hf pI pF img flt b o i' hi' n, hcfg]
  exact convSpec_congr cfg (fun j => (hs _).2.2.1) _ _ _ _ (fun _ _ _ _ _ => rfl)
    (fun o c a t ha => (hinv o c a t ha).symm) b o i' n

/-! ### cyclic translations on toroidal axes -/

/-- what the dispatch produces for TORUS padding on a toroidal axis, without image dilation -/
def AxisOpt.TorusAxis (o : AxisOpt) : Prop :=
  o.lo = 0 ∧ o.hi = 0 ∧ o.ld = 1 ∧ o.stride = 1 ∧ 0 < o.N ∧ o.M % 2 = 1 ∧ o.w = ((o.M - 1) / 2) * o.rd

/-- cyclic shift by `t` on the axes flagged in `tor`, identity on the others -/
def shiftPix (N : Fin d → Nat) (tor : Fin d → Bool) (t : Pix d) (y : Pix d) : Pix d :=
  fun j => if tor j then (y j - t j) % (N j : Int) else y j

theorem srcIdx_torus (o : AxisOpt) (h : o.TorusAxis) (q : Int) (hq : 0 ≤ q ∧ q < (o.N : Int) + 2 * o.w) :
    o.srcIdx q = some ((q - o.w) % o.N) := by
  obtain ⟨hlo, _, hld, _, hN, _, _⟩ := h
  have hD := o.dilLen_cast hN
  simp only [AxisOpt.srcIdx, hlo, hld, hD]
  simp only [Nat.cast_zero, sub_zero, Nat.cast_one, mul_one, Int.emod_one, Int.ediv_one]
  rw [if_pos]
  refine ⟨hq.1, by omega, trivial⟩

theorem torus_window (o : AxisOpt) (h : o.TorusAxis) (i a : Int) (hi : 0 ≤ i ∧ i < o.N)
    (ha : 0 ≤ a ∧ a < o.M) : 0 ≤ i + a * o.rd ∧ i + a * o.rd < (o.N : Int) + 2 * o.w := by
  obtain ⟨_, _, _, _, _, hodd, hw⟩ := h
  have h2 : 2 * (o.w : Int) = ((o.M : Int) - 1) * o.rd := by
    have : 2 * ((o.M - 1) / 2) = o.M - 1 := by omega
    have hM1 : ((o.M - 1 : Nat) : Int) = (o.M : Int) - 1 := by omega
    rw [hw]; push_cast
    have : (2 : Int) * (((o.M - 1) / 2 : Nat) : Int) = ((o.M - 1 : Nat) : Int) := by exact_mod_cast this
    calc 2 * ((((o.M - 1) / 2 : Nat) : Int) * (o.rd : Int)) = (2 * (((o.M - 1) / 2 : Nat) : Int)) * o.rd := by ring
      _ = ((o.M : Int) - 1) * o.rd := by rw [this, hM1]
  have hrd : (0 : Int) ≤ o.rd := Int.natCast_nonneg _
  constructor
  · have := mul_nonneg ha.1 hrd; omega
  · have : a * (o.rd : Int) ≤ ((o.M : Int) - 1) * o.rd := mul_le_mul_of_nonneg_right (by omega) hrd
    omega

theorem torus_outLen (o : AxisOpt) (h : o.TorusAxis) : o.outLen = o.N := by
  obtain ⟨hlo, hhi, hld, hst, hN, hodd, hw⟩ := h
  have h2 : 2 * o.w = (o.M - 1) * o.rd := by
    have : 2 * ((o.M - 1) / 2) = o.M - 1 := by omega
    rw [hw, ← Nat.mul_assoc, this]
  simp only [AxisOpt.outLen, AxisOpt.padLen, AxisOpt.dilLen, AxisOpt.filtLen, hlo, hhi, hld, hst,
    Nat.mul_one, Nat.add_zero, Nat.div_one]
  have : o.N + 2 * o.w - 1 + 1 = o.N + 2 * o.w := by omega
  rw [this, h2]
  split <;> omega

/-- **On toroidally wrapped axes (no image dilation) the convolution commutes with every cyclic
translation.** -/
theorem conv_shift [CommRing R] (cfg : ConvCfg d) (tor : Fin d → Bool)
    (htor : ∀ j, tor j = true → (cfg.ax j).TorusAxis) (t : Pix d) (img flt : Bank R d)
    (b o : Nat) (i : Pix d) (hi : InBox cfg.outDims i) (n : List (Fin d)) :
    convSpec cfg (fun b c y m => img b c (shiftPix (fun j => (cfg.ax j).N) tor t y) m) flt b o i n
      = convSpec cfg img flt b o (shiftPix (fun j => (cfg.ax j).N) tor t i) n := by
  simp only [convSpec]
  apply sumFin_congr'
  intro c
  rw [sumBox_eq, sumBox_eq]
  apply Finset.sum_congr rfl
  intro a ha
  rw [mem_boxF] at ha
  congr 1
  -- per-axis description of both padded positions
  have key : ∀ j, (cfg.ax j).srcIdx
        (shiftPix (fun j => (cfg.ax j).N) tor t i j * ((cfg.ax j).stride : Int) + a j * ((cfg.ax j).rd : Int))
      = ((cfg.ax j).srcIdx (i j * ((cfg.ax j).stride : Int) + a j * ((cfg.ax j).rd : Int))).map
          (fun u => if tor j then (u - t j) % ((cfg.ax j).N : Int) else u) := by
    intro j
    by_cases hj : tor j = true
    · have hT := htor j hj
      have hN' : (0 : Int) < (cfg.ax j).N := by exact_mod_cast hT.2.2.2.2.1
      have hst : ((cfg.ax j).stride : Int) = 1 := by exact_mod_cast hT.2.2.2.1
      have hij : 0 ≤ i j ∧ i j < (cfg.ax j).N := by
        have := hi j; simp only [ConvCfg.outDims, torus_outLen _ hT] at this; exact this
      have hsh : 0 ≤ (i j - t j) % ((cfg.ax j).N : Int) ∧ (i j - t j) % ((cfg.ax j).N : Int) < (cfg.ax j).N :=
        ⟨Int.emod_nonneg _ (ne_of_gt hN'), Int.emod_lt_of_pos _ hN'⟩
      simp only [shiftPix, hj, if_true, hst, mul_one]
      rw [srcIdx_torus _ hT _ (torus_window _ hT _ _ hsh (ha j)),
        srcIdx_torus _ hT _ (torus_window _ hT _ _ hij (ha j)), Option.map_some]
      congr 1
      have e1 : ((i j - t j) % ((cfg.ax j).N : Int) + a j * ((cfg.ax j).rd : Int) - (cfg.ax j).w)
          % ((cfg.ax j).N : Int) = (i j - t j + a j * ((cfg.ax j).rd : Int) - (cfg.ax j).w) % ((cfg.ax j).N : Int) := by
        rw [Int.sub_emod, Int.add_emod, Int.emod_emod_of_dvd _ (dvd_refl _), ← Int.add_emod, ← Int.sub_emod]
      have e2 : ((i j + a j * ((cfg.ax j).rd : Int) - (cfg.ax j).w) % ((cfg.ax j).N : Int) - t j)
          % ((cfg.ax j).N : Int) = (i j + a j * ((cfg.ax j).rd : Int) - (cfg.ax j).w - t j) % ((cfg.ax j).N : Int) := by
        rw [Int.sub_emod, Int.emod_emod_of_dvd _ (dvd_refl _), ← Int.sub_emod]
      rw [e1, e2]
      congr 1; ring
    · have hj' : tor j = false := by simpa using hj
      simp only [shiftPix, hj', Bool.false_eq_true, if_false]
      cases (cfg.ax j).srcIdx (i j * ((cfg.ax j).stride : Int) + a j * ((cfg.ax j).rd : Int)) <;> rfl
  rw [padVal_eq, padVal_eq]
  have hok : PadOK cfg.ax (fun j => shiftPix (fun j => (cfg.ax j).N) tor t i j * ((cfg.ax j).stride : Int)
        + a j * ((cfg.ax j).rd : Int)) ↔
      PadOK cfg.ax (fun j => i j * ((cfg.ax j).stride : Int) + a j * ((cfg.ax j).rd : Int)) := by
    unfold PadOK
    constructor <;> intro h j <;> have := h j <;> simp only [key j, Option.isSome_map] at this ⊢ <;> exact this
  by_cases h : PadOK cfg.ax (fun j => i j * ((cfg.ax j).stride : Int) + a j * ((cfg.ax j).rd : Int))
  · rw [if_pos h, if_pos (hok.mpr h)]
    congr 1
    funext j
    obtain ⟨u, hu⟩ := Option.isSome_iff_exists.mp (h j)
    have hu' : (cfg.ax j).srcIdx (i j * ((cfg.ax j).stride : Int) + a j * ((cfg.ax j).rd : Int)) = some u := hu
    show shiftPix (fun j => (cfg.ax j).N) tor t
        (fun j => ((cfg.ax j).srcIdx (i j * ((cfg.ax j).stride : Int) + a j * ((cfg.ax j).rd : Int))).getD 0) j
      = ((cfg.ax j).srcIdx (shiftPix (fun j => (cfg.ax j).N) tor t i j * ((cfg.ax j).stride : Int)
          + a j * ((cfg.ax j).rd : Int))).getD 0
    rw [key j, hu']
    simp only [shiftPix, hu', Option.map_some, Option.getD_some]
  · rw [if_neg h, if_neg (fun h' => h (hok.mp h'))]

end GinjaxVerif
