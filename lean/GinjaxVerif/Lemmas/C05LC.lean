import GinjaxVerif.Lemmas.C05

/-!
# C05 — the sign identity of the Levi-Civita symbol, `ε(m) = det g · Π s(m_i) · ε(σ m)`

For `d ∈ {2, 3}` the quantifier "every `g ∈ B_d`, every index tuple" is finite (8 resp. 48 group
elements, `d^d` tuples): it is decided by the kernel on the symbol *as the code builds it*
(`permutation_parity` by cycle counting) and transferred to `g : SP d`.  The general-`d` identity
`leviCivita_sign_statement` is stated here and proved in `Lemmas/C05LCGeneral.lean`
(`LCSign_general`, `leviCivita_sign_general`; `Properties/C05.lean: leviCivita_sign`) from the
correctness of the marking loop (`permParity_eq_sign`).
-/
namespace GinjaxVerif.C05
open GinjaxVerif

/-- all index lists of length `k` -/
def allIdx (d : Nat) : Nat → List (List (Fin d))
  | 0 => [[]]
  | k + 1 => (List.finRange d).flatMap (fun a => (allIdx d k).map (a :: ·))

def allSigns : Nat → List (List Int)
  | 0 => [[]]
  | k + 1 => [1, -1].flatMap (fun a => (allSigns k).map (a :: ·))

def matOf {d : Nat} (dflt : Fin d) (σl : List (Fin d)) (sl : List Int) : Mat d :=
  fun i j => if j = σl.getD i.val dflt then sl.getD i.val 0 else 0

def lcCheck (d : Nat) (dflt : Fin d) (σl : List (Fin d)) (sl : List Int) : Bool :=
  (allIdx d d).all (fun m =>
    leviCivitaSym d m == det (matOf dflt σl sl) * (m.map (fun a => sl.getD a.val 0)).prod *
      leviCivitaSym d (m.map (fun a => σl.getD a.val dflt)))

def lcCheckAll (d : Nat) (dflt : Fin d) : Bool :=
  (allIdx d d).all (fun σl => hasDup (σl.map (·.val)) ||
    (allSigns d).all (fun sl => lcCheck d dflt σl sl))

theorem lcCheckAll2 : lcCheckAll 2 0 = true := by decide +kernel
theorem lcCheckAll3 : lcCheckAll 3 0 = true := by decide +kernel



theorem mem_allIdx {d : Nat} (m : List (Fin d)) : m ∈ allIdx d m.length := by
  induction m with
  | nil => simp [allIdx]
  | cons a m ih =>
    simp only [List.length_cons, allIdx, List.mem_flatMap, List.mem_finRange, List.mem_map, true_and]
    exact ⟨a, m, ih, rfl⟩

theorem mem_allSigns (l : List Int) (h : ∀ x ∈ l, x = 1 ∨ x = -1) : l ∈ allSigns l.length := by
  induction l with
  | nil => simp [allSigns]
  | cons a l ih =>
    simp only [List.length_cons, allSigns, List.mem_flatMap, List.mem_map]
    refine ⟨a, ?_, l, ih (fun x hx => h x (List.mem_cons_of_mem _ hx)), rfl⟩
    rcases h a (List.mem_cons_self ..) with h | h <;> simp [h]

theorem hasDup_eq_false_of_nodup : ∀ (l : List Nat), l.Nodup → hasDup l = false
  | [], _ => rfl
  | x :: xs, h => by
    rw [List.nodup_cons] at h
    simp [hasDup, h.1, hasDup_eq_false_of_nodup xs h.2]


theorem LCSign_of_check {d : Nat} (dflt : Fin d) (h : lcCheckAll d dflt = true) (g : SP d) :
    LCSign g := by
  have hσg : ∀ i : Fin d, ((List.finRange d).map g.σ).getD i.val dflt = g.σ i := by
    intro i; simp [List.getD_eq_getElem?_getD]
  have hsg : ∀ i : Fin d, ((List.finRange d).map g.s).getD i.val 0 = g.s i := by
    intro i; simp [List.getD_eq_getElem?_getD]
  have hσl : (List.finRange d).map g.σ ∈ allIdx d d := by
    have := mem_allIdx ((List.finRange d).map g.σ)
    simpa using this
  have hsl : (List.finRange d).map g.s ∈ allSigns d := by
    have := mem_allSigns ((List.finRange d).map g.s) (by
      intro x hx
      simp only [List.mem_map, List.mem_finRange, true_and] at hx
      obtain ⟨i, rfl⟩ := hx
      exact g.hs i)
    simpa using this
  have hnd : hasDup (((List.finRange d).map g.σ).map (·.val)) = false := by
    apply hasDup_eq_false_of_nodup
    rw [List.map_map]
    exact (List.nodup_finRange d).map (fun a b hab => g.σ.injective (Fin.ext hab))
  simp only [lcCheckAll, List.all_eq_true, Bool.or_eq_true] at h
  have h1 := h _ hσl
  rw [hnd] at h1
  simp only [Bool.false_eq_true, false_or] at h1
  have h2 := h1 _ hsl
  simp only [lcCheck, List.all_eq_true, beq_iff_eq] at h2
  have hmat : matOf dflt ((List.finRange d).map g.σ) ((List.finRange d).map g.s) = g.mat := by
    funext i j
    simp only [matOf, SP.mat, hσg, hsg]
  intro m
  by_cases hm : m.length = d
  · have h3 := h2 m (by have := mem_allIdx m; rwa [hm] at this)
    rw [hmat] at h3
    simp only [hσg, hsg] at h3
    exact h3
  · have h0 : leviCivitaSym d m = 0 := by simp [leviCivitaSym, hm]
    have h0' : leviCivitaSym d (m.map g.σ) = 0 := by simp [leviCivitaSym, hm]
    rw [h0, h0']; simp

/-- general dimension: the statement; proved as `leviCivita_sign_general`
(`Lemmas/C05LCGeneral.lean`) / `leviCivita_sign` (`Properties/C05.lean`) -/
def leviCivita_sign_statement : Prop := ∀ (d : Nat) (g : SP d), LCSign g

theorem LCSign_two (g : SP 2) : LCSign g := LCSign_of_check 0 lcCheckAll2 g
theorem LCSign_three (g : SP 3) : LCSign g := LCSign_of_check 0 lcCheckAll3 g

end GinjaxVerif.C05
