import GinjaxVerif.Lemmas.C10Signature

/-!
# C10 — `ModelWrapper`: `from_scalar_multi_image ∘ to_scalar_multi_image` restores every block
-/
namespace GinjaxVerif.C10

variable {R : Type}

def chSum (l : List (BlkT R)) : Nat := (l.map (·.ch)).sum

@[simp] theorem chSum_nil : chSum ([] : List (BlkT R)) = 0 := rfl
@[simp] theorem chSum_cons (a : BlkT R) (l : List (BlkT R)) : chSum (a :: l) = a.ch + chSum l := by
  simp [chSum]
@[simp] theorem chSum_append (l1 l2 : List (BlkT R)) : chSum (l1 ++ l2) = chSum l1 + chSum l2 := by
  simp [chSum]

/-- appending more blocks keeps the leading channels -/
theorem catAll_catT_prefix (a : BlkT R) (l : List (BlkT R)) :
    ∃ r, catAll catT (some a) l = some r ∧ r.ch = a.ch + chSum l ∧
      ∀ s p t, s < a.ch → r.val s p t = a.val s p t := by
  induction l generalizing a with
  | nil => exact ⟨a, rfl, by simp, fun _ _ _ _ => rfl⟩
  | cons b l ih =>
    obtain ⟨r, hr, hch, hval⟩ := ih (catT a b)
    refine ⟨r, hr, ?_, ?_⟩
    · rw [hch]; simp [catT, Nat.add_assoc]
    · intro s p t hs
      rw [hval s p t (by simp only [catT]; omega)]
      simp [catT, hs]

/-- the block at position `l1.length` of a concatenation sits at channel offset `chSum l1` -/
theorem catAll_catT_segment (a : BlkT R) (l1 : List (BlkT R)) (b : BlkT R) (l2 : List (BlkT R)) :
    ∃ r, catAll catT (some a) (l1 ++ b :: l2) = some r ∧
      ∀ s p t, s < b.ch → r.val (a.ch + chSum l1 + s) p t = b.val s p t := by
  obtain ⟨r1, hr1, hch1, _⟩ := catAll_catT_prefix a l1
  obtain ⟨r, hr, _, hval⟩ := catAll_catT_prefix (catT r1 b) l2
  refine ⟨r, ?_, ?_⟩
  · rw [← catAll_catAll, hr1]; exact hr
  · intro s p t hs
    rw [hval _ p t (by simp only [catT]; omega), ← hch1]
    simp [catT]

theorem catAll_catT_none_segment (l1 : List (BlkT R)) (b : BlkT R) (l2 : List (BlkT R)) :
    ∃ r, catAll catT none (l1 ++ b :: l2) = some r ∧
      ∀ s p t, s < b.ch → r.val (chSum l1 + s) p t = b.val s p t := by
  cases l1 with
  | nil =>
    obtain ⟨r, hr, _, hval⟩ := catAll_catT_prefix b l2
    exact ⟨r, hr, fun s p t hs => by simpa using hval s p t hs⟩
  | cons a l1 =>
    obtain ⟨r, hr, hval⟩ := catAll_catT_segment a l1 b l2
    exact ⟨r, hr, fun s p t hs => by simpa using hval s p t hs⟩

/-- blocks agree on their channels and tensor components -/
def BlkT.Equiv (nt : Nat) (a b : BlkT R) : Prop :=
  a.ch = b.ch ∧ ∀ c p t, c < a.ch → t < nt → a.val c p t = b.val c p t

def flats (D : Nat) (x : List (Key × BlkT R)) : List (BlkT R) :=
  x.map fun kb => flattenT D kb.1.1 kb.2

theorem toScalar_lookup (D : Nat) (x : List (Key × BlkT R)) :
    dLookup (toScalar D x) (0, 0) = catAll catT none (flats D x) := by
  unfold toScalar flats
  rw [dLookup_appendAll]
  simp only [dLookup_nil]
  congr 1
  induction x with
  | nil => rfl
  | cons kb rest ih => simp [gather_cons, ih]

theorem flattenT_back (D k : Nat) (hD : 0 < D ^ k) (b : BlkT R) (c p t : Nat) (ht : t < D ^ k) :
    (flattenT D k b).val (c * D ^ k + t) p 0 = b.val c p t := by
  unfold flattenT
  simp only
  rw [Nat.mul_comm c, Nat.mul_add_div hD, Nat.mul_add_mod, Nat.div_eq_of_lt ht, Nat.mod_eq_of_lt ht,
    Nat.add_zero]

/-- the calls of `from_scalar_multi_image(signature(x))` on the concatenated array, block by block -/
theorem fromScalarCalls_forall₂ (D : Nat) (hD : 0 < D) (arr : BlkT R) (pre x : List (Key × BlkT R))
    (hpar : ∀ kb ∈ x, kb.1.2 < 2)
    (harr : catAll catT none (flats D (pre ++ x)) = some arr) :
    List.Forall₂ (fun o i => o.1 = i.1 ∧ BlkT.Equiv (D ^ i.1.1) o.2 i.2)
      (fromScalarCalls D arr (chSum (flats D pre)) (sigT x)) x := by
  induction x generalizing pre with
  | nil => exact List.Forall₂.nil
  | cons kb rest ih =>
    obtain ⟨key, b⟩ := kb
    simp only [sigT, List.map_cons, fromScalarCalls]
    refine List.Forall₂.cons ⟨?_, rfl, ?_⟩ ?_
    · have := hpar (key, b) List.mem_cons_self
      simp only at this
      rw [Nat.mod_eq_of_lt this]
    · intro c p t hc ht
      have ht : t < D ^ key.1 := ht
      have hc : c < b.ch := hc
      have hsplit : flats D (pre ++ (key, b) :: rest)
          = flats D pre ++ flattenT D key.1 b :: flats D rest := by simp [flats]
      obtain ⟨r, hr, hval⟩ := catAll_catT_none_segment (flats D pre) (flattenT D key.1 b) (flats D rest)
      rw [hsplit, hr] at harr
      cases harr
      have hpos : 0 < D ^ key.1 := Nat.pow_pos hD
      simp only
      rw [hval (c * D ^ key.1 + t) p 0 ?_, flattenT_back D key.1 hpos b c p t ht]
      simp only [flattenT]
      calc c * D ^ key.1 + t < c * D ^ key.1 + D ^ key.1 := by omega
        _ = (c + 1) * D ^ key.1 := by rw [Nat.add_mul, Nat.one_mul]
        _ ≤ b.ch * D ^ key.1 := Nat.mul_le_mul_right _ hc
    · have := ih (pre ++ [(key, b)]) (fun kb hkb => hpar kb (List.mem_cons_of_mem _ hkb))
        (by simpa using harr)
      simpa [flats, sigT, flattenT] using this

end GinjaxVerif.C10
