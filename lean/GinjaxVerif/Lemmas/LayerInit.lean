import GinjaxVerif.Lemmas.Layer

/-!
# The constructor of the convolve-and-contract layer (`ConvContract.__init__`)

What `initShapes` (the double loop of `__init__`) builds, for every declared input signature, target
signature, bank and bias setting:

* `initShapes_mode`      the stored setting is the normalised one (`True ↦ "auto"`, repair of D6);
* `initShapes_weights`   `weights[s]` has exactly the targets whose filter type
                          `(k_s+k_t, (p_s+p_t)%2)` is in the bank, in `target_keys` order, each with
                          shape `(out_c, in_c, n_filters)`;
* `initShapes_missing`   `missing_filter` is set iff some (input type, target type) pair has no filter;
* `initShapes_bias_keys` `bias[t]` exists iff a bias is used and `t` is a requested type reachable
                          from a declared input type.
-/
namespace GinjaxVerif.Layer

open GinjaxVerif GinjaxVerif.C20

/-- the weight entries the constructor creates for the declared input block `s` -/
def weightEntries (target : Sig) (bankN : List (Ty × Nat)) (s : Ty × Nat) :
    List (Ty × (Nat × Nat × Nat)) :=
  target.filterMap (fun t => (lookup bankN (filterKey s.1 t.1)).map (fun nF => (t.1, (t.2, s.2, nF))))

/-- the bias dict after the inner loop for one input type -/
def biasAfter (m : BiasMode) (target : Sig) (bankN : List (Ty × Nat)) (s : Ty × Nat)
    (b : List (Ty × Nat)) : List (Ty × Nat) :=
  target.foldl (fun b t =>
    match lookup bankN (filterKey s.1 t.1) with
    | none => b
    | some _ => if m = .false_ then b else assign b t.1 t.2) b

theorem inner_fold (m : BiasMode) (bankN : List (Ty × Nat)) (s : Ty × Nat) (target : Sig)
    (ws : List (Ty × (Nat × Nat × Nat))) (b : List (Ty × Nat)) (ms : Bool) :
    target.foldl (initInner m bankN s) (ws, b, ms)
    = (ws ++ weightEntries target bankN s, biasAfter m target bankN s b,
       ms || target.any (fun t => (lookup bankN (filterKey s.1 t.1)).isNone)) := by
  induction target generalizing ws b ms with
  | nil => simp [weightEntries, biasAfter]
  | cons t r ih =>
    rw [List.foldl_cons]
    cases hl : lookup bankN (filterKey s.1 t.1) with
    | none =>
      simp only [initInner, hl, ih]
      simp [weightEntries, biasAfter, hl]
    | some nF =>
      simp only [initInner, hl, ih]
      simp [weightEntries, biasAfter, hl, List.append_assoc]

/-- one iteration of the outer loop -/
def initStep (m : BiasMode) (target : Sig) (bankN : List (Ty × Nat)) (sh : Shapes) (s : Ty × Nat) :
    Shapes :=
  { sh with
    weights := assign sh.weights s.1 (weightEntries target bankN s)
    bias := biasAfter m target bankN s sh.bias
    missing := sh.missing || target.any (fun t => (lookup bankN (filterKey s.1 t.1)).isNone) }

theorem initShapes_eq (inputKeys target : Sig) (bankN : List (Ty × Nat)) (mode : BiasMode) :
    initShapes inputKeys target bankN mode =
      inputKeys.foldl (initStep (normaliseBias mode) target bankN)
        { weights := [], bias := [], missing := false, mode := normaliseBias mode } := by
  unfold initShapes
  simp only
  congr 1
  funext sh s
  rw [inner_fold]
  simp [initStep]

theorem foldl_initStep_mode (m : BiasMode) (target : Sig) (bankN : List (Ty × Nat)) (l : Sig)
    (sh : Shapes) : (l.foldl (initStep m target bankN) sh).mode = sh.mode := by
  induction l generalizing sh with
  | nil => rfl
  | cons s l ih => rw [List.foldl_cons, ih]; rfl

/-- **the stored bias setting is the normalised one** -/
theorem initShapes_mode (inputKeys target : Sig) (bankN : List (Ty × Nat)) (mode : BiasMode) :
    (initShapes inputKeys target bankN mode).mode = normaliseBias mode := by
  rw [initShapes_eq, foldl_initStep_mode]

theorem lookup_assign {α : Type} (l : List (Ty × α)) (k : Ty) (v : α) (k' : Ty) :
    lookup (assign l k v) k' = if k = k' then some v else lookup l k' := by
  induction l with
  | nil => simp [assign, lookup]
  | cons e r ih =>
    obtain ⟨a, u⟩ := e
    by_cases ha : a = k
    · subst ha
      by_cases hk : a = k' <;> simp [assign, lookup, hk]
    · by_cases hk : k = k'
      · subst hk; simp [assign, lookup, ha, ih]
      · by_cases ha' : a = k'
        · subst ha'; simp [assign, lookup, ha, hk]
        · simp [assign, lookup, ha, ha', hk, ih]

theorem foldl_initStep_weights (m : BiasMode) (target : Sig) (bankN : List (Ty × Nat)) (l : Sig)
    (hn : KeysNodup l) (sh : Shapes) (s : Ty × Nat) (hs : s ∈ l) :
    lookup (l.foldl (initStep m target bankN) sh).weights s.1 = some (weightEntries target bankN s) := by
  induction l generalizing sh with
  | nil => cases hs
  | cons a l ih =>
    have hn' : a.1 ∉ keysOf l ∧ KeysNodup l := by
      simpa [KeysNodup, keysOf, List.nodup_cons] using hn
    rw [List.foldl_cons]
    rcases List.mem_cons.1 hs with h | h
    · subst h
      -- later iterations do not touch the key `s.1`
      have hlater : ∀ (l : Sig) (sh : Shapes), s.1 ∉ keysOf l →
          lookup (l.foldl (initStep m target bankN) sh).weights s.1 = lookup sh.weights s.1 := by
        intro l
        induction l with
        | nil => intro sh _; rfl
        | cons b l ihl =>
          intro sh hb
          have hb' : ¬ s.1 = b.1 ∧ s.1 ∉ keysOf l := by simpa [keysOf] using hb
          rw [List.foldl_cons, ihl _ hb'.2]
          simp only [initStep, lookup_assign]
          rw [if_neg (fun h => hb'.1 h.symm)]
      rw [hlater l _ hn'.1]
      simp [initStep, lookup_assign]
    · exact ih hn'.2 _ h

/-- **weight shapes**: for a declared input block `s = ((k_s,p_s), in_c)` (declared keys distinct),
`weights[s]` is the list of the requested targets whose filter type exists, in requested order, with
shape `(out_c, in_c, n_filters)` -/
theorem initShapes_weights (inputKeys target : Sig) (bankN : List (Ty × Nat)) (mode : BiasMode)
    (hn : KeysNodup inputKeys) (s : Ty × Nat) (hs : s ∈ inputKeys) :
    lookup (initShapes inputKeys target bankN mode).weights s.1 =
      some (target.filterMap (fun t =>
        (lookup bankN (filterKey s.1 t.1)).map (fun nF => (t.1, (t.2, s.2, nF))))) := by
  rw [initShapes_eq]
  exact foldl_initStep_weights _ target bankN inputKeys hn _ s hs

theorem foldl_initStep_missing (m : BiasMode) (target : Sig) (bankN : List (Ty × Nat)) (l : Sig)
    (sh : Shapes) :
    (l.foldl (initStep m target bankN) sh).missing =
      (sh.missing || l.any (fun s => target.any (fun t => (lookup bankN (filterKey s.1 t.1)).isNone))) := by
  induction l generalizing sh with
  | nil => simp
  | cons a l ih =>
    rw [List.foldl_cons, ih]
    simp [initStep, Bool.or_assoc]

/-- **`missing_filter`** is set iff some declared (input type, target type) pair has no filter -/
theorem initShapes_missing (inputKeys target : Sig) (bankN : List (Ty × Nat)) (mode : BiasMode) :
    (initShapes inputKeys target bankN mode).missing = true ↔
      ∃ s ∈ inputKeys, ∃ t ∈ target, lookup bankN (filterKey s.1 t.1) = none := by
  rw [initShapes_eq, foldl_initStep_missing]
  simp [List.any_eq_true]

theorem keys_assign {α : Type} (l : List (Ty × α)) (k : Ty) (v : α) (k' : Ty) :
    k' ∈ (assign l k v).map Prod.fst ↔ k' = k ∨ k' ∈ l.map Prod.fst := by
  rw [← lookup_isSome_iff, lookup_assign, ← lookup_isSome_iff]
  by_cases h : k = k'
  · simp [h]
  · have h' : ¬ k' = k := fun hh => h hh.symm
    simp [h, h']

theorem keys_biasAfter (m : BiasMode) (target : Sig) (bankN : List (Ty × Nat)) (s : Ty × Nat)
    (b : List (Ty × Nat)) (k : Ty) :
    k ∈ (biasAfter m target bankN s b).map Prod.fst ↔
      k ∈ b.map Prod.fst ∨
        (m ≠ .false_ ∧ ∃ t ∈ target, t.1 = k ∧ (lookup bankN (filterKey s.1 t.1)).isSome = true) := by
  unfold biasAfter
  induction target generalizing b with
  | nil => simp
  | cons t r ih =>
    rw [List.foldl_cons, ih]
    cases hl : lookup bankN (filterKey s.1 t.1) with
    | none => simp [hl]
    | some nF =>
      by_cases hm : m = .false_
      · simp [hm]
      · simp only [hm, if_false, keys_assign, ne_eq, not_false_eq_true, true_and, List.mem_cons,
          exists_eq_or_imp, hl, Option.isSome_some, and_true]
        constructor
        · rintro ((h | h) | h)
          · exact Or.inr (Or.inl h.symm)
          · exact Or.inl h
          · exact Or.inr (Or.inr h)
        · rintro (h | h | h)
          · exact Or.inl (Or.inr h)
          · exact Or.inl (Or.inl h.symm)
          · exact Or.inr h

theorem foldl_initStep_bias (m : BiasMode) (target : Sig) (bankN : List (Ty × Nat)) (l : Sig)
    (sh : Shapes) (k : Ty) :
    k ∈ (l.foldl (initStep m target bankN) sh).bias.map Prod.fst ↔
      k ∈ sh.bias.map Prod.fst ∨
        (m ≠ .false_ ∧ ∃ s ∈ l, ∃ t ∈ target, t.1 = k ∧
          (lookup bankN (filterKey s.1 t.1)).isSome = true) := by
  induction l generalizing sh with
  | nil => simp
  | cons a l ih =>
    rw [List.foldl_cons, ih]
    simp only [initStep, keys_biasAfter, List.mem_cons, exists_eq_or_imp]
    constructor
    · rintro ((h | ⟨hm, h⟩) | ⟨hm, h⟩)
      · exact Or.inl h
      · exact Or.inr ⟨hm, Or.inl h⟩
      · exact Or.inr ⟨hm, Or.inr h⟩
    · rintro (h | ⟨hm, h | h⟩)
      · exact Or.inl (Or.inl h)
      · exact Or.inl (Or.inr ⟨hm, h⟩)
      · exact Or.inr ⟨hm, h⟩

/-- **bias keys**: `bias[t]` exists iff a bias is used (`use_bias` is not `False`) and `t` is a
requested type for which some declared input type has a filter -/
theorem initShapes_bias_keys (inputKeys target : Sig) (bankN : List (Ty × Nat)) (mode : BiasMode)
    (k : Ty) :
    k ∈ (initShapes inputKeys target bankN mode).bias.map Prod.fst ↔
      (mode ≠ .false_ ∧ ∃ s ∈ inputKeys, ∃ t ∈ target, t.1 = k ∧
        (lookup bankN (filterKey s.1 t.1)).isSome = true) := by
  rw [initShapes_eq, foldl_initStep_bias]
  have : normaliseBias mode ≠ .false_ ↔ mode ≠ .false_ := by cases mode <;> simp [normaliseBias]
  simp [this]

end GinjaxVerif.Layer
