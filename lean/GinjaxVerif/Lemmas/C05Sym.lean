import GinjaxVerif.Lemmas.C05

/-!
# C05 — symmetries of contraction and of the tensor product

`contract_symm`, `mcGo_swapInside` (order inside a pair), `mcGo_perm` / `multicontract_perm`
(order of the pairs), `mul_comm_transpose` (A*B = transpose(B*A) by the block swap).
-/
namespace GinjaxVerif.C05
open GinjaxVerif Finset

variable {R : Type} {d : Nat}

theorem set_set_comm {α : Type} (l : List α) (i j : Nat) (a : α) :
    (l.set i a).set j a = (l.set j a).set i a := by
  by_cases h : i = j
  · subst h; rfl
  · exact List.set_comm a a h

/-- contracting `(i, j)` is contracting `(j, i)` -/
theorem contract_symm [Zero R] [Add R] (i j : Nat) (A : Img R d) :
    multicontractI [(i, j)] A = multicontractI [(j, i)] A := by
  simp only [multicontractI, mcGo, set_set_comm _ i j]
  rfl

/-- the order inside any of the pairs is irrelevant -/
theorem mcGo_swapInside [Zero R] [Add R] (v : List (Fin d) → R) {ps qs : List (Nat × Nat)}
    (h : List.Forall₂ (fun p q => q = p ∨ q = p.swap) ps qs) (asg : List (Option (Fin d)))
    (r : List (Fin d)) : mcGo v qs asg r = mcGo v ps asg r := by
  induction h generalizing asg with
  | nil => rfl
  | @cons p q ps qs hpq _ ih =>
    obtain ⟨i, j⟩ := p
    rcases hpq with rfl | rfl
    · simp only [mcGo, ih]
    · simp only [mcGo, ih, Prod.swap, set_set_comm _ j i]

theorem getElem?_set_set_false (b : List Bool) (i j m : Nat) :
    ((b.set i true).set j true)[m]? = some false ↔ (m ≠ i ∧ m ≠ j ∧ b[m]? = some false) := by
  simp only [List.getElem?_set]
  by_cases h1 : j = m <;> by_cases h2 : i = m <;> simp [h1, h2]
  grind


/-- **the order of the pairs is irrelevant** (for pairwise distinct positions): well-formedness is
preserved and the einsum is the same. -/
theorem mcGo_perm [AddCommMonoid R] (v : List (Fin d) → R) (r : List (Fin d))
    {l₁ l₂ : List (Nat × Nat)} (h : l₁.Perm l₂) :
    ∀ b : List Bool, wfPairs l₁ b = true → wfPairs l₂ b = true ∧
      ∀ asg : List (Option (Fin d)), asg.map Option.isSome = b →
        mcGo v l₁ asg r = mcGo v l₂ asg r := by
  induction h with
  | nil => intro b _; exact ⟨rfl, fun _ _ => rfl⟩
  | @cons x l₁ l₂ _ ih =>
    obtain ⟨i, j⟩ := x
    intro b hwf
    rw [wfPairs_cons] at hwf
    obtain ⟨hij, hi, hj, hwf'⟩ := hwf
    obtain ⟨ih1, ih2⟩ := ih _ hwf'
    refine ⟨by rw [wfPairs_cons]; exact ⟨hij, hi, hj, ih1⟩, ?_⟩
    intro asg hasg
    simp only [mcGo]
    congr 1
    funext a
    exact ih2 _ (by simp [List.map_set, hasg])
  | swap x y l =>
    obtain ⟨x1, x2⟩ := x
    obtain ⟨y1, y2⟩ := y
    intro b hwf
    rw [wfPairs_cons, wfPairs_cons] at hwf
    obtain ⟨hy, hy1, hy2, hx, hx1, hx2, hwf'⟩ := hwf
    rw [getElem?_set_set_false] at hx1 hx2
    obtain ⟨h11, h12, hx1⟩ := hx1
    obtain ⟨h21, h22, hx2⟩ := hx2
    have hcomm : ∀ {α : Type} (c : List α) (u w : α),
        (((c.set x1 u).set x2 u).set y1 w).set y2 w = (((c.set y1 w).set y2 w).set x1 u).set x2 u := by
      intro α c u w
      rw [List.set_comm (i := x2) (j := y1) u w h21, List.set_comm (i := x1) (j := y1) u w h11,
        List.set_comm (i := x2) (j := y2) u w h22, List.set_comm (i := x1) (j := y2) u w h12]
    refine ⟨?_, ?_⟩
    · rw [wfPairs_cons, wfPairs_cons]
      refine ⟨hx, hx1, hx2, hy, ?_, ?_, ?_⟩
      · rw [getElem?_set_set_false]; exact ⟨Ne.symm h11, Ne.symm h21, hy1⟩
      · rw [getElem?_set_set_false]; exact ⟨Ne.symm h12, Ne.symm h22, hy2⟩
      · rw [hcomm]; exact hwf'
    · intro asg _
      simp only [mcGo, sumFin_eq]
      rw [Finset.sum_comm]
      refine Finset.sum_congr rfl (fun a _ => Finset.sum_congr rfl (fun c _ => ?_))
      rw [hcomm]
  | trans _ _ ih1 ih2 =>
    intro b hwf
    obtain ⟨w2, e12⟩ := ih1 b hwf
    obtain ⟨w3, e23⟩ := ih2 b w2
    exact ⟨w3, fun asg hasg => (e12 asg hasg).trans (e23 asg hasg)⟩

theorem multicontract_perm [AddCommMonoid R] {ps qs : List (Nat × Nat)} (h : ps.Perm qs)
    (A : Img R d) (hwf : wfPairs ps (List.replicate A.k false) = true) :
    multicontractI ps A = multicontractI qs A := by
  simp only [multicontractI, h.length_eq]
  congr 1
  funext y r
  exact (mcGo_perm (A.val y) r h _ hwf).2 _ (by simp)

theorem blockSwap_length (kA kB : Nat) : (blockSwap kA kB).length = kA + kB := by simp [blockSwap]

theorem blockSwap_nodup (kA kB : Nat) : (blockSwap kA kB).Nodup := by
  unfold blockSwap
  rw [List.nodup_append]
  refine ⟨?_, List.nodup_range, ?_⟩
  · exact List.nodup_range.map (fun a b h => by simpa using h)
  · intro a ha b hb
    simp only [List.mem_map, List.mem_range] at ha hb
    obtain ⟨m, _, rfl⟩ := ha
    omega

theorem blockSwap_idxOf_lo (kA kB j : Nat) (hj : j < kB) : (blockSwap kA kB).idxOf j = kA + j := by
  have hlt : kA + j < (blockSwap kA kB).length := by rw [blockSwap_length]; omega
  have hget : (blockSwap kA kB)[kA + j] = j := by
    simp only [blockSwap]
    rw [List.getElem_append_right (by simp)]
    simp
  have := (blockSwap_nodup kA kB).idxOf_getElem (kA + j) hlt
  rwa [hget] at this

theorem blockSwap_idxOf_hi (kA kB m : Nat) (hm : m < kA) : (blockSwap kA kB).idxOf (kB + m) = m := by
  have hlt : m < (blockSwap kA kB).length := by rw [blockSwap_length]; omega
  have hget : (blockSwap kA kB)[m] = kB + m := by
    simp only [blockSwap]
    rw [List.getElem_append_left (by simpa using hm)]
    simp; omega
  have := (blockSwap_nodup kA kB).idxOf_getElem m hlt
  rwa [hget] at this

theorem unperm_blockSwap {α : Type} (kA kB : Nat) (t : List α) (ht : t.length = kA + kB) :
    unperm (blockSwap kA kB) t = t.drop kA ++ t.take kA := by
  unfold unperm
  rw [blockSwap_length, List.drop_of_length_le (by omega), List.append_nil, Nat.add_comm kA kB,
    List.range_add, List.filterMap_append, List.filterMap_map]
  congr 1
  · have : (List.range kB).filterMap (fun j => t[(blockSwap kA kB).idxOf j]?) =
        (List.range kB).filterMap (fun j => (t.drop kA)[j]?) := by
      apply List.filterMap_congr
      intro j hj
      rw [blockSwap_idxOf_lo kA kB j (List.mem_range.mp hj), List.getElem?_drop]
    rw [this, range_filterMap_getElem?, List.take_of_length_le (by simp; omega)]
  · have : (List.range kA).filterMap ((fun j => t[(blockSwap kA kB).idxOf j]?) ∘ (fun x => kB + x)) =
        (List.range kA).filterMap (fun j => t[j]?) := by
      apply List.filterMap_congr
      intro m hm
      simp only [Function.comp]
      rw [blockSwap_idxOf_hi kA kB m (List.mem_range.mp hm)]
    rw [this, range_filterMap_getElem?]

/-- **the tensor product is commutative up to the block transposition** -/
theorem mul_comm_transpose [CommRing R] (A B : Img R d) (hd : A.dims = B.dims) :
    (mulI A B).Equiv (transposeI (blockSwap A.k B.k) (mulI B A)) := by
  refine ⟨hd, Nat.add_comm _ _, ?_⟩
  intro y _ n hn
  have hn' : n.length = A.k + B.k := hn
  simp only [mulI, transposeI, unperm_blockSwap A.k B.k n hn']
  have h1 : (n.drop A.k ++ n.take A.k).take B.k = n.drop A.k := by
    rw [List.take_append_of_le_length (by simp; omega), List.take_of_length_le (by simp; omega)]
  have h2 : (n.drop A.k ++ n.take A.k).drop B.k = n.take A.k := by
    rw [List.drop_append_of_le_length (by simp; omega), List.drop_of_length_le (by simp; omega),
      List.nil_append]
  rw [h1, h2, mul_comm]


theorem blockSwap_isPerm (kA kB : Nat) : isPermOfRange (blockSwap kA kB) (kA + kB) = true := by
  simp only [isPermOfRange, Bool.and_eq_true, beq_iff_eq, blockSwap_length, List.all_eq_true,
    List.mem_range, List.contains_iff_mem, true_and]
  intro j hj
  simp only [blockSwap, List.mem_append, List.mem_map, List.mem_range]
  by_cases h : j < kB
  · exact Or.inr h
  · exact Or.inl ⟨j - kB, by omega, by omega⟩

end GinjaxVerif.C05
