import GinjaxVerif.Model.C17Loss
import GinjaxVerif.Properties.C17
import Mathlib.Algebra.BigOperators.Group.List.Basic
import Mathlib.Algebra.BigOperators.Group.Finset.Basic
import Mathlib.Algebra.Field.Basic
import Mathlib.Data.Nat.Cast.Basic

/-! # C17 (use of the batches) — helper lemmas: means of means, unstacking, concatenation -/
namespace GinjaxVerif.C17
open GinjaxVerif.C15 (allSome gather MI lookup getL mapVals sliceTraj appendKey stackMerge
  allSome_map_congr lookup_map_of_mem length_flatten_uniform)

variable {α β κ κ' R ε ι : Type}

/-! ## means -/

section Mean
variable [Field R]

theorem sum_map_div_const (ll : List (List R)) (c : R) :
    (ll.map (fun l => l.sum / c)).sum = ll.flatten.sum / c := by
  induction ll with
  | nil => simp
  | cons l r ih => simp [ih, add_div]

/-- the mean of the means of equally long chunks is the mean of everything -/
theorem mean_of_means (b : Nat) (ll : List (List R)) (h : ∀ l ∈ ll, l.length = b) :
    mean (ll.map mean) = mean ll.flatten := by
  have e : ll.map mean = ll.map (fun l => l.sum / (b : R)) := by
    apply List.map_congr_left
    intro l hl
    simp [mean, h l hl]
  rw [e]
  show (ll.map (fun l => l.sum / (b : R))).sum / ((ll.map (fun l => l.sum / (b : R))).length : R)
    = ll.flatten.sum / (ll.flatten.length : R)
  rw [sum_map_div_const, List.length_map, length_flatten_uniform ll h, div_div, Nat.cast_mul,
    mul_comm]

theorem sum_map_range (n : Nat) (f : Nat → R) :
    ((List.range n).map f).sum = ∑ i ∈ Finset.range n, f i := by
  induction n with
  | zero => simp
  | succ n ih => simp [List.range_succ, Finset.sum_range_succ, ih]

end Mean

theorem map_eq_map_range_idxAt (l : List Nat) (g : Nat → β) :
    l.map g = (List.range l.length).map (fun i => g (idxAt l i)) := by
  apply List.ext_getElem
  · simp
  · intro i h1 h2
    simp [idxAt, List.getElem?_eq_getElem (by simpa using h1 : i < l.length)]

/-- the mean of a function over an index list, as a `Finset.range` sum -/
theorem mean_map_eq_sum [Field R] (l : List Nat) (p : Nat → R) :
    mean (l.map p) = (1 / (l.length : R)) * ∑ i ∈ Finset.range l.length, p (idxAt l i) := by
  unfold mean
  rw [List.length_map, map_eq_map_range_idxAt l p, sum_map_range, div_eq_mul_inv, one_div, mul_comm]

/-! ## unstacking -/

theorem zipWith_map_map {γ δ η : Type} (f : γ → δ → η) (l : List ι) (a : ι → γ) (b : ι → δ) :
    List.zipWith f (l.map a) (l.map b) = l.map (fun i => f (a i) (b i)) := by
  induction l with
  | nil => rfl
  | cons x r ih => simp [ih]

/-- a multi-image whose blocks are `ks.map (F e)`, one per entry `e` of a non-empty signature:
its leading-axis entries are the multi-images `e ↦ F e k` -/
theorem unstack_map (sig : List ε) (key : ε → κ) (ks : List ι) (F : ε → ι → β) (hne : sig ≠ []) :
    unstack (sig.map (fun e => (key e, ks.map (F e))))
      = some (ks.map (fun k => sig.map (fun e => (key e, F e k)))) := by
  have hL : getL (sig.map (fun e => (key e, ks.map (F e)))) = ks.length := by
    cases sig with
    | nil => exact absurd rfl hne
    | cons e r => simp [getL]
  unfold unstack
  rw [hL]
  have hall : (sig.map (fun e => (key e, ks.map (F e)))).all
      (fun kb => kb.2.length == ks.length) = true := by
    simp [List.all_eq_true]
  rw [if_pos hall]
  have : allSome ((List.range ks.length).map
      (fun r => sliceTraj r (sig.map (fun e => (key e, ks.map (F e))))))
      = some ((List.range ks.length).map
          (fun r => match ks[r]? with
            | some k => sig.map (fun e => (key e, F e k))
            | none => [])) := by
    apply allSome_map_congr
    intro r hr
    have hr' : r < ks.length := List.mem_range.mp hr
    unfold sliceTraj
    rw [List.map_map, List.getElem?_eq_getElem hr']
    apply allSome_map_congr
    intro e _
    simp [hr']
  rw [this]
  congr 1
  apply List.ext_getElem
  · simp
  · intro i h1 h2
    have hi : i < ks.length := by simpa using h1
    simp [List.getElem?_eq_getElem hi]

/-! ## one device, one batch -/

/-- the samples `idxs` (in that order) of `mkMI L sig` as a multi-image -/
def gMI (sig : List (κ × (Nat → α))) (idxs : List Nat) : MI κ (List α) :=
  sig.map (fun e => (e.1, idxs.map e.2))

/-- the same, cut into `nd` device rows of `b` samples -/
def bMI (sig : List (κ × (Nat → α))) (nd b : Nat) (idxs : List Nat) : MI κ (List (List α)) :=
  sig.map (fun e => (e.1, rows nd b (idxs.map e.2)))

theorem unstack_gMI (sig : List (κ × (Nat → α))) (hne : sig ≠ []) (idxs : List Nat) :
    unstack (gMI sig idxs) = some (idxs.map (smpAt sig)) :=
  unstack_map sig Prod.fst idxs (fun e i => e.2 i) hne

theorem rows_map (a b : Nat) (l : List ι) (g : ι → β) :
    rows a b (l.map g) = (rows a b l).map (·.map g) := by
  simp [rows, List.map_drop, List.map_take]

theorem unstack_bMI (sig : List (κ × (Nat → α))) (hne : sig ≠ []) (nd b : Nat) (idxs : List Nat) :
    unstack (bMI sig nd b idxs) = some ((rows nd b idxs).map (gMI sig)) := by
  have e : bMI sig nd b idxs
      = sig.map (fun e => (e.1, (rows nd b idxs).map (fun c => c.map e.2))) := by
    unfold bMI
    apply List.map_congr_left
    intro e _
    rw [rows_map]
  rw [e, unstack_map sig Prod.fst (rows nd b idxs) (fun e c => c.map e.2) hne]
  rfl

theorem mem_rows_length (a b : Nat) (l : List ι) (h : l.length = a * b) :
    ∀ c ∈ rows a b l, c.length = b := by
  intro c hc
  simp only [rows, List.mem_map, List.mem_range] at hc
  obtain ⟨d, hd, rfl⟩ := hc
  have : (d + 1) * b ≤ a * b := Nat.mul_le_mul_right b hd
  rw [Nat.succ_mul] at this
  simp only [List.length_take, List.length_drop]
  omega

section Eval
variable [Field R]

theorem mapAndLoss_gMI (fs : Net κ α κ' β) (ℓ : MI κ' β → MI κ α → R)
    (sigx sigy : List (κ × (Nat → α))) (hx : sigx ≠ []) (hy : sigy ≠ []) (idxs : List Nat) :
    mapAndLoss fs ℓ (gMI sigx idxs) (gMI sigy idxs)
      = some (mean (idxs.map (fun i => pairLoss fs ℓ sigx sigy i i)),
              fs.map (fun e => (e.1, idxs.map (fun i => e.2 (smpAt sigx i))))) := by
  unfold mapAndLoss
  rw [unstack_gMI sigx hx, unstack_gMI sigy hy]
  simp [vmapNet, pairLoss, List.map_map, Function.comp_def]

theorem stackMerge_map [DecidableEq κ'] (fs : List ε) (key : ε → κ')
    (hnd : (fs.map key).Nodup) (cs : List ι) (hne : cs ≠ []) (A : ι → ε → List β) :
    stackMerge (cs.map (fun c => fs.map (fun e => (key e, A c e))))
      = fs.map (fun e => (key e, (cs.map (A · e)).flatten)) := by
  cases cs with
  | nil => exact absurd rfl hne
  | cons c0 cr =>
    rw [List.map_cons]
    unfold stackMerge
    simp only
    rw [List.map_map]
    apply List.map_congr_left
    intro e he
    simp only [Function.comp]
    congr 2
    rw [← List.map_cons (f := fun c => fs.map (fun e => (key e, A c e))), List.filterMap_map]
    rw [← List.filterMap_eq_map]
    apply List.filterMap_congr
    intro c _
    simp only [Function.comp]
    exact lookup_map_of_mem fs key (A c) hnd e he

/-- `evaluate` on one batch holding the samples `idxs` in `nd` device rows: the mean of the
per-sample losses of the batch, and the per-device mapped samples stacked and merged -/
theorem evaluate_bMI [DecidableEq κ'] (fs : Net κ α κ' β) (ℓ : MI κ' β → MI κ α → R)
    (sigx sigy : List (κ × (Nat → α))) (hx : sigx ≠ []) (hy : sigy ≠ []) (nd b : Nat)
    (idxs : List Nat) (hlen : idxs.length = nd * b) :
    evaluate fs ℓ (bMI sigx nd b idxs) (bMI sigy nd b idxs)
      = some (mean (idxs.map (fun i => pairLoss fs ℓ sigx sigy i i)),
              stackMerge ((rows nd b idxs).map (fun c =>
                fs.map (fun e => (e.1, c.map (fun i => e.2 (smpAt sigx i))))))) := by
  unfold evaluate
  rw [unstack_bMI sigx hx, unstack_bMI sigy hy]
  simp only [List.length_map, ne_eq, not_true_eq_false, if_false]
  rw [zipWith_map_map, allSome_map_congr _ _ _ (fun c _ => mapAndLoss_gMI fs ℓ sigx sigy hx hy c)]
  simp only [List.map_map, Function.comp_def]
  congr 2
  have e : (rows nd b idxs).map (fun c => mean (c.map (fun i => pairLoss fs ℓ sigx sigy i i)))
      = ((rows nd b idxs).map (·.map (fun i => pairLoss fs ℓ sigx sigy i i))).map mean := by
    rw [List.map_map]; rfl
  rw [e, mean_of_means b, ← List.map_flatten, rows_flatten nd b idxs hlen]
  intro l hl
  simp only [List.mem_map] at hl
  obtain ⟨c, hc, rfl⟩ := hl
  rw [List.length_map]
  exact mem_rows_length nd b idxs hlen c hc

end Eval

/-! ## concatenation of the mapped batches -/

section Concat
variable [DecidableEq κ']

theorem appendKey_of_not_mem (cat : β → β → β) (m : MI κ' β) (k : κ') (v : β)
    (h : k ∉ m.map Prod.fst) : appendKey cat m k v = m ++ [(k, v)] := by
  induction m with
  | nil => rfl
  | cons kb r ih =>
    obtain ⟨k0, b0⟩ := kb
    simp only [List.map_cons, List.mem_cons, not_or] at h
    have h1 : ¬ k0 = k := fun e => h.1 e.symm
    simp [appendKey, h1, ih h.2]

theorem appendKey_append_of_not_mem (cat : β → β → β) (p r : MI κ' β) (k : κ') (v w : β)
    (h : k ∉ p.map Prod.fst) :
    appendKey cat (p ++ (k, v) :: r) k w = p ++ (k, cat v w) :: r := by
  induction p with
  | nil => simp [appendKey]
  | cons kb p ih =>
    obtain ⟨k0, b0⟩ := kb
    simp only [List.map_cons, List.mem_cons, not_or] at h
    have h1 : ¬ k0 = k := fun e => h.1 e.symm
    simp [appendKey, h1, ih h.2]

/-- concatenation onto the empty multi-image copies the other one (keys distinct) -/
theorem miConcat_nil_aux (acc : MI κ' (List β)) (fs : List ε) (key : ε → κ') (A : ε → List β)
    (hnd : (acc.map Prod.fst ++ fs.map key).Nodup) :
    miConcat acc (fs.map (fun e => (key e, A e))) = acc ++ fs.map (fun e => (key e, A e)) := by
  induction fs generalizing acc with
  | nil => simp [miConcat]
  | cons e r ih =>
    have hk : key e ∉ acc.map Prod.fst := by
      intro hmem
      have := List.nodup_append.mp hnd
      exact this.2.2 _ hmem _ (by simp) rfl
    unfold miConcat at ih ⊢
    rw [List.map_cons, List.foldl_cons]
    simp only
    rw [appendKey_of_not_mem _ acc _ _ hk, ih]
    · simp
    · simpa [List.map_append, List.append_assoc] using hnd

theorem miConcat_nil (fs : List ε) (key : ε → κ') (A : ε → List β) (hnd : (fs.map key).Nodup) :
    miConcat [] (fs.map (fun e => (key e, A e))) = fs.map (fun e => (key e, A e)) := by
  simpa using miConcat_nil_aux [] fs key A (by simpa using hnd)

theorem miConcat_same_aux (pre fs : List ε) (key : ε → κ') (A C : ε → List β)
    (hnd : ((pre ++ fs).map key).Nodup) :
    miConcat (pre.map (fun e => (key e, A e ++ C e)) ++ fs.map (fun e => (key e, A e)))
        (fs.map (fun e => (key e, C e)))
      = (pre ++ fs).map (fun e => (key e, A e ++ C e)) := by
  induction fs generalizing pre with
  | nil => simp [miConcat]
  | cons e r ih =>
    have hk : key e ∉ (pre.map (fun e => (key e, A e ++ C e))).map Prod.fst := by
      rw [List.map_map]
      intro hmem
      rw [List.map_append] at hnd
      have := List.nodup_append.mp hnd
      exact this.2.2 _ hmem _ (by simp) rfl
    unfold miConcat at ih ⊢
    rw [List.map_cons, List.map_cons, List.foldl_cons]
    simp only
    rw [appendKey_append_of_not_mem _ _ _ _ _ _ hk]
    have := ih (pre ++ [e]) (by simpa [List.append_assoc] using hnd)
    simp only [List.map_append, List.map_cons, List.map_nil, List.append_assoc,
      List.singleton_append] at this ⊢
    exact this

/-- concatenation of two multi-images with the same distinct keys: blockwise `++` -/
theorem miConcat_same (fs : List ε) (key : ε → κ') (A C : ε → List β)
    (hnd : (fs.map key).Nodup) :
    miConcat (fs.map (fun e => (key e, A e))) (fs.map (fun e => (key e, C e)))
      = fs.map (fun e => (key e, A e ++ C e)) := by
  simpa using miConcat_same_aux [] fs key A C (by simpa using hnd)

theorem foldl_miConcat (fs : List ε) (key : ε → κ') (hnd : (fs.map key).Nodup)
    (bs : List ι) (A : ι → ε → List β) (acc : ε → List β) :
    (bs.map (fun i => fs.map (fun e => (key e, A i e)))).foldl miConcat
        (fs.map (fun e => (key e, acc e)))
      = fs.map (fun e => (key e, acc e ++ (bs.map (A · e)).flatten)) := by
  induction bs generalizing acc with
  | nil => simp
  | cons i r ih =>
    rw [List.map_cons, List.foldl_cons, miConcat_same fs key acc (A i) hnd, ih]
    simp [List.append_assoc]

/-- `multi_image_reducer` of at least one batch: blockwise concatenation in batch order -/
theorem multiImageReducer_map (fs : List ε) (key : ε → κ') (hnd : (fs.map key).Nodup)
    (bs : List ι) (hne : bs ≠ []) (A : ι → ε → List β) :
    multiImageReducer (bs.map (fun i => fs.map (fun e => (key e, A i e))))
      = some (fs.map (fun e => (key e, (bs.map (A · e)).flatten))) := by
  cases bs with
  | nil => exact absurd rfl hne
  | cons i r =>
    unfold multiImageReducer
    rw [List.map_cons]
    simp only
    rw [List.foldl_cons, miConcat_nil fs key (A i) hnd, foldl_miConcat fs key hnd r A (A i)]
    simp

end Concat

/-! ## all batches -/

section Batches
variable [Field R] [DecidableEq κ']

/-- the loop over `zip(X_batches, Y_batches)`: batch `i` contributes the mean of the per-sample
losses over `π[i·B .. (i+1)·B)` (input and target with the same index) and its mapped samples -/
theorem evalBatches_mkMI (perm : Option (List Nat)) {L B nd : Nat} (hB : 0 < B) (hnd : 0 < nd)
    (hdiv : nd ∣ B) (hπ : (batchIndices perm L).Perm (List.range L))
    (sigx sigy : List (κ × (Nat → α))) (hx : sigx ≠ []) (hy : sigy ≠ [])
    (fs : Net κ α κ' β) (ℓ : MI κ' β → MI κ α → R) :
    evalBatches perm B nd fs ℓ (mkMI L sigx) (mkMI L sigy)
      = some ((List.range (L / B)).map (fun i =>
          (mean ((batchIdxs (batchIndices perm L) B i).map (fun i => pairLoss fs ℓ sigx sigy i i)),
           stackMerge ((rows nd (B / nd) (batchIdxs (batchIndices perm L) B i)).map (fun c =>
             fs.map (fun e => (e.1, c.map (fun i => e.2 (smpAt sigx i))))))))) := by
  have hlen : (batchIndices perm L).length = L := by simpa using hπ.length_eq
  have hspec := getBatches_eq_spec perm hB hnd hdiv hπ sigx hx [sigy]
  simp only [List.map_cons, List.map_nil] at hspec
  unfold evalBatches
  rw [hspec]
  simp only [specBatches, List.map_cons, List.map_nil]
  rw [zipWith_map_map]
  apply allSome_map_congr
  intro i hi
  have hi' : i < L / B := List.mem_range.mp hi
  have hl : (batchIdxs (batchIndices perm L) B i).length = nd * (B / nd) := by
    rw [Nat.mul_div_cancel' hdiv]
    exact length_batchIdxs _ B i (by rw [hlen]; exact succ_mul_le_of_lt_div hB hi')
  exact evaluate_bMI fs ℓ sigx sigy hx hy nd (B / nd) _ hl

/-- fewer samples than one batch: no batch, nothing to evaluate -/
theorem evalBatches_small (perm : Option (List Nat)) {L B nd : Nat} (hB : 0 < B) (hLB : L < B)
    (sigx sigy : List (κ × (Nat → α))) (hx : sigx ≠ [])
    (fs : Net κ α κ' β) (ℓ : MI κ' β → MI κ α → R) :
    evalBatches perm B nd fs ℓ (mkMI L sigx) (mkMI L sigy) = some [] := by
  have hB' : ¬ B = 0 := by omega
  have h0 : L / B = 0 := Nat.div_eq_of_lt hLB
  unfold evalBatches
  rw [getBatches_cons perm B nd _ _ hB', getL_mkMI L sigx hx, h0]
  simp [allSome]

theorem flatten_map_batchIdxs {γ : Type} (π : List Nat) (B n : Nat) (g : Nat → γ) :
    ((List.range n).map (fun i => (batchIdxs π B i).map g)).flatten = (π.take (n * B)).map g := by
  rw [← flatMap_batchIdxs π B n, List.flatMap_def, List.map_flatten, List.map_map]
  rfl

theorem idxAt_take (π : List Nat) (m i : Nat) (hi : i < m) : idxAt (π.take m) i = idxAt π i := by
  simp [idxAt, hi]

theorem lossReducer_of_ne_nil (l : List R) (h : l ≠ []) : lossReducer l = some (mean l) := by
  cases l with
  | nil => exact absurd rfl h
  | cons a r => simp [lossReducer]

/-- the value of `map_loss_in_batches`: the mean of the per-sample losses over the first
`⌊L/B⌋·B` entries of the index array -/
theorem mapLoss_eq_mean_take (perm : Option (List Nat)) {L B nd : Nat} (hB : 0 < B) (hnd : 0 < nd)
    (hdiv : nd ∣ B) (hn : 1 ≤ L / B) (hπ : (batchIndices perm L).Perm (List.range L))
    (sigx sigy : List (κ × (Nat → α))) (hx : sigx ≠ []) (hy : sigy ≠ [])
    (fs : Net κ α κ' β) (ℓ : MI κ' β → MI κ α → R) :
    mapLossInBatches perm B nd fs ℓ (mkMI L sigx) (mkMI L sigy)
      = some (mean (((batchIndices perm L).take (L / B * B)).map
          (fun i => pairLoss fs ℓ sigx sigy i i))) := by
  have hlen : (batchIndices perm L).length = L := by simpa using hπ.length_eq
  unfold mapLossInBatches
  rw [evalBatches_mkMI perm hB hnd hdiv hπ sigx sigy hx hy fs ℓ]
  simp only [List.map_map, Function.comp_def]
  rw [lossReducer_of_ne_nil _ (by
    intro h
    have h' := congrArg List.length h
    rw [List.length_map, List.length_range, List.length_nil] at h'
    omega)]
  congr 1
  have e : (List.range (L / B)).map (fun i => mean ((batchIdxs (batchIndices perm L) B i).map
        (fun i => pairLoss fs ℓ sigx sigy i i)))
      = ((List.range (L / B)).map (fun i => (batchIdxs (batchIndices perm L) B i).map
        (fun i => pairLoss fs ℓ sigx sigy i i))).map mean := by
    rw [List.map_map]; rfl
  rw [e, mean_of_means B, flatten_map_batchIdxs]
  intro l hl
  simp only [List.mem_map, List.mem_range] at hl
  obtain ⟨i, hi, rfl⟩ := hl
  rw [List.length_map]
  exact length_batchIdxs _ B i (by rw [hlen]; exact succ_mul_le_of_lt_div hB hi)

theorem allSome_eq_none_of_mem {γ : Type} (l : List (Option γ)) (h : none ∈ l) :
    allSome l = none := by
  induction l with
  | nil => simp at h
  | cons a r ih =>
    cases a with
    | none => rfl
    | some a =>
      have : none ∈ r := by simpa using h
      simp [allSome, ih this]

omit [Field R] [DecidableEq κ'] in
/-- a device count that does not divide the batch size: `get_batches` raises on the first batch -/
theorem getBatches_reject_devices (perm : Option (List Nat)) {L B nd : Nat} (hB : 0 < B)
    (hdiv : ¬ nd ∣ B) (hn : 1 ≤ L / B) (hπ : (batchIndices perm L).Perm (List.range L))
    (sigx : List (κ × (Nat → α))) (hx : sigx ≠ []) (rest : List (MI κ (List α))) :
    getBatches perm B nd (mkMI L sigx :: rest) = none := by
  have hlen : (batchIndices perm L).length = L := by simpa using hπ.length_eq
  have hB' : ¬ B = 0 := by omega
  rw [getBatches_cons perm B nd _ _ hB', getL_mkMI L sigx hx]
  apply allSome_eq_none_of_mem
  rw [List.map_cons]
  apply List.mem_cons.mpr
  left
  symm
  apply allSome_eq_none_of_mem
  apply List.mem_map.mpr
  refine ⟨0, List.mem_range.mpr (by omega), ?_⟩
  have hle := succ_mul_le_of_lt_div hB (show 0 < L / B by omega)
  have hlt : ∀ x ∈ (List.drop (0 * B) (batchIndices perm L)).take B, x < L := by
    intro x hx'
    have : x ∈ List.range L := (hπ.mem_iff).mp (mem_batchIdxs _ B 0 x hx')
    exact List.mem_range.mp this
  have hl : ((List.drop (0 * B) (batchIndices perm L)).take B).length = B :=
    length_batchIdxs _ B 0 (by rw [hlen]; exact hle)
  rw [getSubset_mkMI L sigx _ hlt]
  simp only
  apply reshapePmap_reject
  have hL : getL (sigx.map (fun e => (e.1, ((List.drop (0 * B) (batchIndices perm L)).take B).map e.2)))
      = B := by
    cases sigx with
    | nil => exact absurd rfl hx
    | cons e r => simp only [List.map_cons, getL, List.length_map]; exact hl
  rw [hL]
  intro h
  exact hdiv (Nat.dvd_of_mod_eq_zero h)

end Batches

end GinjaxVerif.C17
