import GinjaxVerif.Lemmas.ConvShift

/-!
# Reading a filter off the convolution of a one-hot image (for the converse of C01 in C03)

On fully toroidal axes (TORUS wrap, unit stride, no image dilation), with a positive filter dilation
and an image extent at least the dilated filter side, convolving the one-hot ("delta") image with a
filter `F` returns the single entry `F[a₀]` at the output pixel `i` when the hot pixel is the pixel
the window position `(i, a₀)` reads (`convSpec_delta`): distinct filter offsets read distinct pixels
(`wrapPix_injective`), which is where `N ≥ side` is used.
-/
namespace GinjaxVerif

open Finset

variable {R : Type} {d : Nat}

/-- the setting of the converse: every axis toroidal with the TORUS wrap (unit stride, no image
dilation, no zero padding), positive filter dilation, image extent ≥ dilated filter side -/
structure ConvCfg.FullTorus (cfg : ConvCfg d) : Prop where
  torus : ∀ j, (cfg.ax j).TorusAxis
  rd_pos : ∀ j, 0 < (cfg.ax j).rd
  side_le : ∀ j, (cfg.ax j).filtLen ≤ (cfg.ax j).N

theorem AxisOpt.TorusAxis.sym {o : AxisOpt} (h : o.TorusAxis) : o.Sym :=
  ⟨by rw [h.1, h.2.1], h.2.2.2.1, h.2.2.2.2.1, by rw [h.2.2.1]; exact Nat.one_pos⟩

theorem AxisOpt.TorusAxis.fits {o : AxisOpt} (h : o.TorusAxis) : o.Fits := by
  obtain ⟨hlo, hhi, hld, _, hN, hodd, hw⟩ := h
  have h2 : 2 * o.w = (o.M - 1) * o.rd := by
    have : 2 * ((o.M - 1) / 2) = o.M - 1 := by omega
    rw [hw, ← Nat.mul_assoc, this]
  simp only [AxisOpt.Fits, AxisOpt.filtLen, AxisOpt.padLen, AxisOpt.dilLen, hlo, hhi, hld,
    Nat.mul_one, Nat.add_zero]
  omega

/-- the image pixel read by output pixel `i` through filter offset `a` on a torus -/
def wrapPix (cfg : ConvCfg d) (i a : Pix d) : Pix d :=
  fun j => (i j + a j * ((cfg.ax j).rd : Int) - (cfg.ax j).w) % ((cfg.ax j).N : Int)

theorem wrapPix_inBox (cfg : ConvCfg d) (ht : ∀ j, (cfg.ax j).TorusAxis) (i a : Pix d) :
    InBox (fun j => (cfg.ax j).N) (wrapPix cfg i a) := by
  intro j
  have hN' : (0 : Int) < (cfg.ax j).N := by exact_mod_cast (ht j).2.2.2.2.1
  exact ⟨Int.emod_nonneg _ (ne_of_gt hN'), Int.emod_lt_of_pos _ hN'⟩

/-- on a fully toroidal configuration the padded signal is the periodic image -/
theorem padVal_torus [Zero R] (cfg : ConvCfg d) (ht : ∀ j, (cfg.ax j).TorusAxis) (A : Pix d → R)
    (i a : Pix d) (hi : InBox (fun j => (cfg.ax j).N) i) (ha : InBox (fun j => (cfg.ax j).M) a) :
    padVal cfg.ax A (fun j => i j * ((cfg.ax j).stride : Int) + a j * ((cfg.ax j).rd : Int))
      = A (wrapPix cfg i a) := by
  have key : ∀ j, (cfg.ax j).srcIdx (i j * ((cfg.ax j).stride : Int) + a j * ((cfg.ax j).rd : Int))
      = some (wrapPix cfg i a j) := by
    intro j
    have hst : ((cfg.ax j).stride : Int) = 1 := by exact_mod_cast (ht j).2.2.2.1
    rw [hst, mul_one]
    exact srcIdx_torus _ (ht j) _ (torus_window _ (ht j) _ _ (hi j) (ha j))
  rw [padVal_eq, if_pos]
  · congr 1
    funext j
    rw [key j]
    rfl
  · intro j
    rw [key j]
    rfl

/-- **distinct filter offsets read distinct pixels** when the extent is at least the dilated filter
side -/
theorem wrapPix_injective (cfg : ConvCfg d) (hT : cfg.FullTorus) (i a a' : Pix d)
    (ha : InBox (fun j => (cfg.ax j).M) a) (ha' : InBox (fun j => (cfg.ax j).M) a')
    (h : wrapPix cfg i a = wrapPix cfg i a') : a = a' := by
  funext j
  have hj := congrFun h j
  simp only [wrapPix] at hj
  have hrd : (0 : Int) < (cfg.ax j).rd := by exact_mod_cast hT.rd_pos j
  have hside : (((cfg.ax j).M : Int) - 1) * (cfg.ax j).rd + 1 ≤ (cfg.ax j).N := by
    have := hT.side_le j
    unfold AxisOpt.filtLen at this
    have hM : 0 < (cfg.ax j).M := by have := (hT.torus j).2.2.2.2.2.1; omega
    have hc : (((cfg.ax j).M - 1 : Nat) : Int) = ((cfg.ax j).M : Int) - 1 := by omega
    have : ((((cfg.ax j).M - 1) * (cfg.ax j).rd + 1 : Nat) : Int) ≤ ((cfg.ax j).N : Int) := by
      exact_mod_cast this
    push_cast at this
    rw [hc] at this
    exact this
  have hdvd : ((cfg.ax j).N : Int) ∣ (a j - a' j) * (cfg.ax j).rd := by
    have h0 := (Int.emod_eq_emod_iff_emod_sub_eq_zero).mp hj
    have : (i j + a j * ((cfg.ax j).rd : Int) - (cfg.ax j).w
        - (i j + a' j * ((cfg.ax j).rd : Int) - (cfg.ax j).w)) = (a j - a' j) * (cfg.ax j).rd := by
      ring
    rw [this] at h0
    exact Int.dvd_of_emod_eq_zero h0
  have h1 : 0 ≤ a j ∧ a j < ((cfg.ax j).M : Int) := ha j
  have h2 : 0 ≤ a' j ∧ a' j < ((cfg.ax j).M : Int) := ha' j
  have hb1 : (a j - a' j) * ((cfg.ax j).rd : Int) ≤ (((cfg.ax j).M : Int) - 1) * (cfg.ax j).rd :=
    mul_le_mul_of_nonneg_right (by omega) (le_of_lt hrd)
  have hb2 : -((((cfg.ax j).M : Int) - 1) * (cfg.ax j).rd) ≤ (a j - a' j) * ((cfg.ax j).rd : Int) := by
    have : (a' j - a j) * ((cfg.ax j).rd : Int) ≤ (((cfg.ax j).M : Int) - 1) * (cfg.ax j).rd :=
      mul_le_mul_of_nonneg_right (by omega) (le_of_lt hrd)
    have e : (a' j - a j) * ((cfg.ax j).rd : Int) = -((a j - a' j) * ((cfg.ax j).rd : Int)) := by ring
    rw [e] at this
    omega
  have hz : (a j - a' j) * ((cfg.ax j).rd : Int) = 0 := by
    apply Int.eq_zero_of_abs_lt_dvd hdvd
    rw [abs_lt]
    constructor <;> omega
  rcases mul_eq_zero.mp hz with h | h
  · omega
  · omega

/-- the one-hot image: `1` in channel `c₀` at pixel `y₀` (every tensor component), `0` elsewhere -/
def deltaBank (R : Type) [Zero R] [One R] {d : Nat} (c₀ : Nat) (y₀ : Pix d) : Bank R d :=
  open Classical in fun _ c y _ => if c = c₀ ∧ y = y₀ then 1 else 0

/-- **convolving the delta image reads off the filter entries**: with the hot pixel at the pixel read
by `(i, a₀)`, the output at pixel `i` is `F[o, c₀, a₀]` (tensor part `n.drop kI`). -/
theorem convSpec_delta [CommRing R] (cfg : ConvCfg d) (hT : cfg.FullTorus) (flt : Bank R d)
    (c₀ : Nat) (hc : c₀ < cfg.inC) (a₀ : Pix d) (ha₀ : InBox (fun j => (cfg.ax j).M) a₀)
    (i : Pix d) (hi : InBox (fun j => (cfg.ax j).N) i) (b o : Nat) (n : List (Fin d)) :
    convSpec cfg (deltaBank R c₀ (wrapPix cfg i a₀)) flt b o i n = flt o c₀ a₀ (n.drop cfg.kI) := by
  classical
  simp only [convSpec]
  rw [sumFin_eq, Finset.sum_eq_single (⟨c₀, hc⟩ : Fin cfg.inC)]
  · rw [sumBox_eq, Finset.sum_eq_single a₀]
    · rw [padVal_torus cfg hT.torus _ i a₀ hi ha₀]
      simp [deltaBank]
    · intro a ha hne
      rw [mem_boxF] at ha
      rw [padVal_torus cfg hT.torus _ i a hi ha]
      have : ¬ wrapPix cfg i a = wrapPix cfg i a₀ :=
        fun h => hne (wrapPix_injective cfg hT i a a₀ ha ha₀ h)
      simp [deltaBank, this]
    · intro h
      exact absurd ((mem_boxF _ _).mpr ha₀) h
  · intro c _ hne
    have hcne : ¬ c.val = c₀ := fun h => hne (Fin.ext h)
    rw [sumBox_eq]
    apply Finset.sum_eq_zero
    intro a ha
    rw [mem_boxF] at ha
    rw [padVal_torus cfg hT.torus _ i a hi ha]
    simp [deltaBank, hcne]
  · intro h
    exact absurd (Finset.mem_univ _) h

/-- the convolution only reads the input channels `c < inC` of the filter -/
theorem convSpec_congr_chan [CommRing R] (cfg : ConvCfg d) (hN : ∀ j, 0 < (cfg.ax j).N)
    (img img' flt flt' : Bank R d)
    (hi : ∀ b c y t, InBox (fun j => (cfg.ax j).N) y → img b c y t = img' b c y t)
    (hfl : ∀ o c a t, c < cfg.inC → InBox (fun j => (cfg.ax j).M) a → flt o c a t = flt' o c a t)
    (b o : Nat) (x : Pix d) (n : List (Fin d)) :
    convSpec cfg img flt b o x n = convSpec cfg img' flt' b o x n := by
  simp only [convSpec]
  apply sumFin_congr'
  intro c
  rw [sumBox_eq, sumBox_eq]
  apply Finset.sum_congr rfl
  intro a ha
  rw [mem_boxF] at ha
  rw [padVal_congr_inBox cfg.ax hN _ _ (fun y hy => hi b c.val y _ hy), hfl o c.val a _ c.isLt ha]

end GinjaxVerif
