import GinjaxVerif.Model.C12
import Mathlib.Data.List.Basic
import Mathlib.Data.List.Nodup
import Mathlib.Data.List.Perm.Basic
import Mathlib.Data.List.TakeDrop

/-!
# C12 — lemmas about the Python-dict model (association lists with `set`, key sorting)
-/
namespace GinjaxVerif.C12

namespace Dict
variable {V W : Type}

@[simp] theorem keys_nil : keys ([] : Dict V) = [] := rfl
@[simp] theorem keys_cons (x : Key × V) (d : Dict V) : keys (x :: d) = x.1 :: keys d := rfl
@[simp] theorem keys_append (d e : Dict V) : keys (d ++ e) = keys d ++ keys e := by
  simp [keys]

theorem mem_keys {d : Dict V} {t : Key} : t ∈ keys d ↔ ∃ v, (t, v) ∈ d := by
  simp [keys]

theorem get?_nil (t : Key) : get? ([] : Dict V) t = none := rfl

theorem get?_cons (x : Key × V) (d : Dict V) (t : Key) :
    get? (x :: d) t = if t = x.1 then some x.2 else get? d t := by
  obtain ⟨k, v⟩ := x
  simp only [get?, List.lookup_cons]
  by_cases h : t = k
  · subst h; simp
  · have : (t == k) = false := by simpa using h
    simp [this, h]

theorem get?_eq_none {d : Dict V} {t : Key} : get? d t = none ↔ t ∉ keys d := by
  induction d with
  | nil => simp [get?_nil]
  | cons x d ih =>
    rw [get?_cons]
    by_cases h : t = x.1
    · simp [h]
    · simp [h, ih]

theorem get?_isSome {d : Dict V} {t : Key} : (get? d t).isSome ↔ t ∈ keys d := by
  rw [← not_iff_not, Bool.not_eq_true, Option.isSome_eq_false_iff, Option.isNone_iff_eq_none]
  exact get?_eq_none

theorem exists_get?_of_mem {d : Dict V} {t : Key} (h : t ∈ keys d) : ∃ v, get? d t = some v := by
  have := get?_isSome.mpr h
  exact Option.isSome_iff_exists.mp this

/-- with unique keys, lookup = membership of the item -/
theorem get?_eq_some_iff {d : Dict V} (hn : (keys d).Nodup) {t : Key} {v : V} :
    get? d t = some v ↔ (t, v) ∈ d := by
  induction d with
  | nil => simp [get?_nil]
  | cons x d ih =>
    obtain ⟨k, w⟩ := x
    simp only [keys_cons, List.nodup_cons] at hn
    rw [get?_cons]
    by_cases h : t = k
    · subst h
      simp only [if_true, Option.some.injEq, List.mem_cons, Prod.mk.injEq, true_and]
      constructor
      · intro e; exact Or.inl e.symm
      · rintro (e | e)
        · exact e.symm
        · exact absurd (mem_keys.mpr ⟨v, e⟩) hn.1
    · simp only [h, if_false, List.mem_cons, Prod.mk.injEq, false_and, false_or]
      exact ih hn.2

/-- the value stored under a key does not depend on the storage order -/
theorem get?_perm {d e : Dict V} (hn : (keys d).Nodup) (hp : d.Perm e) (t : Key) :
    get? d t = get? e t := by
  have hne : (keys e).Nodup := (hp.map _).nodup_iff.mp hn
  cases h : get? e t with
  | none =>
    rw [get?_eq_none] at h ⊢
    intro hm; exact h ((hp.map _).mem_iff.mp hm)
  | some v =>
    rw [get?_eq_some_iff hne] at h
    rw [get?_eq_some_iff hn]
    exact hp.mem_iff.mpr h

/-! #### `set` -/

theorem set_of_not_mem {d : Dict V} {t : Key} (h : t ∉ keys d) (v : V) : set d t v = d ++ [(t, v)] := by
  induction d with
  | nil => rfl
  | cons x d ih =>
    simp only [keys_cons, List.mem_cons, not_or] at h
    have : (x.1 == t) = false := by simpa using fun e => h.1 e.symm
    simp [set, this, ih h.2]

theorem keys_set_of_mem {d : Dict V} {t : Key} (h : t ∈ keys d) (v : V) : keys (set d t v) = keys d := by
  induction d with
  | nil => simp at h
  | cons x d ih =>
    by_cases e : x.1 = t
    · simp [set, e]
    · have : (x.1 == t) = false := by simpa using e
      simp only [keys_cons, List.mem_cons] at h
      have h' : t ∈ keys d := h.resolve_left (fun c => e c.symm)
      simp [set, this, ih h']

theorem keys_set (d : Dict V) (t : Key) (v : V) :
    keys (set d t v) = if t ∈ keys d then keys d else keys d ++ [t] := by
  by_cases h : t ∈ keys d
  · simp [h, keys_set_of_mem h]
  · simp [h, set_of_not_mem h]

theorem mem_keys_set {d : Dict V} {t t' : Key} {v : V} :
    t' ∈ keys (set d t v) ↔ t' = t ∨ t' ∈ keys d := by
  rw [keys_set]
  by_cases h : t ∈ keys d
  · simp only [h, if_true]
    constructor
    · exact Or.inr
    · rintro (rfl | h'); exact h; exact h'
  · simp only [h, if_false, List.mem_append, List.mem_singleton]
    tauto

theorem nodup_set {d : Dict V} (hn : (keys d).Nodup) (t : Key) (v : V) : (keys (set d t v)).Nodup := by
  rw [keys_set]
  by_cases h : t ∈ keys d
  · simpa [h] using hn
  · simp only [h, if_false]
    exact List.Nodup.append hn (List.nodup_singleton t) (by simpa using h)

theorem get?_set_self (d : Dict V) (t : Key) (v : V) : get? (set d t v) t = some v := by
  induction d with
  | nil => simp [set, get?_cons]
  | cons x d ih =>
    by_cases e : x.1 = t
    · simp [set, e, get?_cons]
    · have : (x.1 == t) = false := by simpa using e
      have e' : ¬ t = x.1 := fun c => e c.symm
      simp [set, this, get?_cons, e', ih]

theorem get?_set_ne (d : Dict V) {t t' : Key} (v : V) (h : t' ≠ t) : get? (set d t v) t' = get? d t' := by
  induction d with
  | nil => simp [set, get?_cons, h, get?_nil]
  | cons x d ih =>
    by_cases e : x.1 = t
    · have : ¬ t' = x.1 := by rw [e]; exact h
      simp [set, e, get?_cons, h]
    · have : (x.1 == t) = false := by simpa using e
      simp [set, this, get?_cons, ih]

theorem get?_set (d : Dict V) (t t' : Key) (v : V) :
    get? (set d t v) t' = if t' = t then some v else get? d t' := by
  by_cases h : t' = t
  · subst h; simp [get?_set_self]
  · simp [h, get?_set_ne d v h]

/-! #### `ofItems` -/

theorem ofItems_aux_nodup (items : List (Key × V)) :
    ∀ d : Dict V, (keys d).Nodup → (keys (items.foldl (fun d kv => set d kv.1 kv.2) d)).Nodup := by
  induction items with
  | nil => intro d h; exact h
  | cons x xs ih => intro d h; exact ih _ (nodup_set h _ _)

theorem nodup_ofItems (items : List (Key × V)) : (keys (ofItems items)).Nodup :=
  ofItems_aux_nodup items [] List.nodup_nil

theorem ofItems_aux_mem (items : List (Key × V)) :
    ∀ (d : Dict V) (t : Key), t ∈ keys (items.foldl (fun d kv => set d kv.1 kv.2) d) ↔
      t ∈ keys d ∨ t ∈ items.map (·.1) := by
  induction items with
  | nil => intro d t; simp
  | cons x xs ih =>
    intro d t
    rw [List.foldl_cons, ih, mem_keys_set]
    simp only [List.map_cons, List.mem_cons]
    tauto

theorem mem_keys_ofItems {items : List (Key × V)} {t : Key} :
    t ∈ keys (ofItems items) ↔ t ∈ items.map (·.1) := by
  simp [ofItems, ofItems_aux_mem]

/-- copying a dict with unique keys item by item gives the same dict -/
theorem ofItems_aux_of_nodup (items : List (Key × V)) :
    ∀ d : Dict V, (keys (d ++ items)).Nodup →
      items.foldl (fun d kv => set d kv.1 kv.2) d = d ++ items := by
  induction items with
  | nil => intro d _; simp
  | cons x xs ih =>
    intro d h
    have hx : x.1 ∉ keys d := by
      intro hm
      rw [keys_append, keys_cons] at h
      have := (List.nodup_append.mp h).2.2 _ hm x.1 (List.mem_cons_self ..)
      exact this rfl
    rw [List.foldl_cons, set_of_not_mem hx]
    have h' : (keys ((d ++ [(x.1, x.2)]) ++ xs)).Nodup := by simpa using h
    rw [ih _ h']
    simp

theorem ofItems_of_nodup {d : Dict V} (h : (keys d).Nodup) : ofItems d = d := by
  have := ofItems_aux_of_nodup d [] (by simpa using h)
  simpa [ofItems] using this

/-! #### key sorting (pytree round trip) -/

theorem insertSorted_perm (x : Key × V) (d : Dict V) : (insertSorted x d).Perm (x :: d) := by
  induction d with
  | nil => exact List.Perm.refl _
  | cons y ys ih =>
    simp only [insertSorted]
    split
    · exact ((List.Perm.cons y ih).trans (List.Perm.swap x y ys))
    · exact List.Perm.refl _

theorem sortKeys_perm (d : Dict V) : (sortKeys d).Perm d := by
  induction d with
  | nil => exact List.Perm.refl _
  | cons x xs ih =>
    exact (insertSorted_perm x _).trans (List.Perm.cons x ih)

theorem keyLt_trans {a b c : Key} (h1 : keyLt a b = true) (h2 : keyLt b c = true) : keyLt a c = true := by
  simp only [keyLt, Bool.or_eq_true, decide_eq_true_eq, Bool.and_eq_true, beq_iff_eq] at *
  omega

theorem keyLt_total {a b : Key} (h : keyLt a b = false) (hne : a ≠ b) : keyLt b a = true := by
  obtain ⟨a1, a2⟩ := a
  obtain ⟨b1, b2⟩ := b
  simp only [keyLt, Bool.or_eq_false_iff, decide_eq_false_iff_not, Bool.and_eq_false_iff,
    Bool.or_eq_true, decide_eq_true_eq, Bool.and_eq_true, beq_iff_eq, beq_eq_false_iff_ne] at *
  have : ¬ (a1 = b1 ∧ a2 = b2) := fun ⟨e1, e2⟩ => hne (by rw [e1, e2])
  omega

theorem keyLt_irrefl (a : Key) : keyLt a a = false := by
  simp [keyLt]

/-- strictly increasing keys -/
def Sorted (d : Dict V) : Prop := (keys d).Pairwise (fun a b => keyLt a b = true)

theorem insertSorted_sorted (x : Key × V) (d : Dict V) (hs : Sorted d) (hx : x.1 ∉ keys d) :
    Sorted (insertSorted x d) := by
  induction d with
  | nil => simp [insertSorted, Sorted]
  | cons y ys ih =>
    simp only [keys_cons, List.mem_cons, not_or] at hx
    simp only [Sorted, keys_cons, List.pairwise_cons] at hs
    simp only [insertSorted]
    by_cases h : keyLt y.1 x.1 = true
    · simp only [h, if_true, Sorted, keys_cons, List.pairwise_cons]
      refine ⟨?_, ih hs.2 hx.2⟩
      intro b hb
      have : b ∈ keys (x :: ys) := ((insertSorted_perm x ys).map _).mem_iff.mp hb
      simp only [keys_cons, List.mem_cons] at this
      rcases this with rfl | hb'
      · exact h
      · exact hs.1 b hb'
    · have h' : keyLt y.1 x.1 = false := by simpa using h
      have hxy : keyLt x.1 y.1 = true := keyLt_total h' (fun e => hx.1 e.symm)
      simp only [h', Bool.false_eq_true, if_false, Sorted, keys_cons, List.pairwise_cons]
      refine ⟨?_, hs.1, hs.2⟩
      intro b hb
      simp only [List.mem_cons] at hb
      rcases hb with rfl | hb
      · exact hxy
      · exact keyLt_trans hxy (hs.1 b hb)

theorem sortKeys_sorted (d : Dict V) (hn : (keys d).Nodup) : Sorted (sortKeys d) := by
  induction d with
  | nil => simp [sortKeys, Sorted]
  | cons x xs ih =>
    simp only [keys_cons, List.nodup_cons] at hn
    refine insertSorted_sorted x _ (ih hn.2) ?_
    intro hm
    exact hn.1 (((sortKeys_perm xs).map _).mem_iff.mp hm)

theorem sorted_nodup {d : Dict V} (h : Sorted d) : (keys d).Nodup := by
  refine List.Pairwise.imp ?_ h
  intro a b hab e
  subst e
  simp [keyLt_irrefl] at hab

/-! #### key-set comparison -/

theorem keysEq_iff (a : Dict V) (b : Dict W) :
    keysEq a b = true ↔ ∀ t, t ∈ keys a ↔ t ∈ keys b := by
  simp only [keysEq, Bool.and_eq_true, List.all_eq_true, List.contains_iff_mem]
  constructor
  · rintro ⟨h1, h2⟩ t; exact ⟨h1 t, h2 t⟩
  · intro h; exact ⟨fun t ht => (h t).mp ht, fun t ht => (h t).mpr ht⟩

end Dict

namespace MI
variable {R : Type}

/-- the invariant does not depend on the storage order -/
theorem wf_perm {a a' : MI R} (ha : a.WF) (pa : a.data.Perm a'.data) : a'.WF := by
  have hp : (keys a).Perm (keys a') := pa.map _
  exact ⟨hp.nodup_iff.mp ha.1, fun t ht => ha.2 t (hp.mem_iff.mpr ht)⟩

end MI

end GinjaxVerif.C12
