import GinjaxVerif.Lemmas.C03Character

/-!
# C03 — the executable literal formula `actLit` equals the monomial `act`

`actLit` is the library's formula `det(g)^p · Σ_t Π_i g[n_i][t_i] · A(src_g y, t)` with
`2·src_g y = (2y − (M−1))·g + (M−1)`, written with core list sums.  On every signed permutation matrix
it is defined (the source pixel is on the grid) and equals `act`.
-/

namespace GinjaxVerif.C03
open scoped BigOperators

variable {d M k : ℕ}

theorem srcLit2_toCore (g : SP d) (y : Fin d → Fin M) (b : Fin d) :
    srcLit2 g.toCore.entry y b = 2 * ((pullPx g.toCore y b).val : ℤ) := by
  unfold srcLit2
  rw [← Fin.sum_univ_def, Finset.sum_eq_single (g.σ.symm b)]
  · have hy := (y (g.σ.symm b)).isLt
    simp only [SPerm.entry, SP.toCore, Equiv.apply_symm_apply, if_true, pullPx]
    rcases Int.units_eq_one_or (g.s (g.σ.symm b)) with h | h
    · rw [h]; simp [flipAx_one]
    · rw [h]
      simp only [Units.val_neg, Units.val_one, flipAx_neg_one, Fin.val_rev]
      omega
  · intro a _ ha
    have : b ≠ g.σ a := fun h => ha (by rw [h]; simp)
    simp [SPerm.entry, SP.toCore, this]
  · intro h; exact absurd (Finset.mem_univ _) h

theorem actLit_toCore (p : ℕ) (g : SP d) (A : FIdx d M k → ℤ) (j : FIdx d M k) :
    actLit g.toCore.entry g.toCore.det p A j = some (act g.toCore p A j) := by
  have hs := fun b => srcLit2_toCore (M := M) g j.px b
  have hcond : ∀ b, srcLit2 g.toCore.entry j.px b % 2 = 0 ∧ 0 ≤ srcLit2 g.toCore.entry j.px b / 2 ∧
      srcLit2 g.toCore.entry j.px b / 2 < M := by
    intro b
    rw [hs]
    have := (pullPx g.toCore j.px b).isLt
    omega
  unfold actLit
  simp only
  rw [dif_pos hcond]
  congr 1
  have hsrc : (fun b => (⟨(srcLit2 g.toCore.entry j.px b / 2).toNat, by have := hcond b; omega⟩ : Fin M))
      = pullPx g.toCore j.px := by
    funext b
    apply Fin.ext
    simp only [hs]
    omega
  simp only [hsrc]
  rw [sum_allFuns]
  simp only [← Fin.prod_univ_def]
  rw [← literal_eq_act, det_toCore]
  rfl

end GinjaxVerif.C03
