import GinjaxVerif.Lemmas.C07Net

/-!
# C07 — the networks the constructors build are well formed

For every constructor configuration in equivariant mode (depth, number of blocks / convolutions /
down-samplings, activation or none, group norm on/off, pre-activation order, the five bias settings,
any signatures with pairwise distinct keys incl. pseudo-types) and every input whose extents are
positive (and divisible by `2^num_downsamples` for the U-Net), on any combination of toroidal and
non-toroidal axes: the convolutions of the net dispatch to symmetric options that fit (odd filters with
the inferred TORUS / SAME padding and any filter dilation; the 2-sided filters of the up-path with
padding `((1,1),…)` and image dilation 2), keep (resp. double) the extents, so the residual sums and
the skip concatenations line up, and every pooling divides the extents.
-/
namespace GinjaxVerif.C07

open GinjaxVerif GinjaxVerif.C20 GinjaxVerif.Layer

variable {R : Type} {d : Nat}

/-! ### the padding dispatch of the two kinds of convolution the models use -/

theorem dispatchAxis_none (anyT t : Bool) (M rd j : Nat) :
    ∃ w lo hi, dispatchAxis .none anyT t M rd j = some (w, lo, hi) ∧
      2 * w + lo + hi = 2 * (((M - 1) / 2) * rd) := by
  simp only [dispatchAxis]
  cases anyT <;> cases t <;> simp <;> omega

theorem dispatch_none_some (torus : Fin d → Bool) (N : Fin d → Nat) (M rd : Nat) (hM : M % 2 = 1) :
    ∃ ax, dispatch .none torus N (fun _ => M) (fun _ => 1) (fun _ => rd) (fun _ => 1) = some ax ∧
      ∀ j, (ax j).N = N j ∧ (ax j).M = M ∧ (ax j).stride = 1 ∧ (ax j).rd = rd ∧ (ax j).ld = 1 ∧
        2 * (ax j).w + (ax j).lo + (ax j).hi = 2 * (((M - 1) / 2) * rd) := by
  have h1 : (List.finRange d).any (fun _ => decide (M % 2 = 0)) = false := by
    rw [List.any_eq_false]; intro _ _; simp [hM]
  have hall : (List.finRange d).all (fun j =>
      (dispatchAxis .none ((List.finRange d).any torus) (torus j) M rd j.val).isSome) = true := by
    rw [List.all_eq_true]; intro j _
    obtain ⟨w, lo, hi, h, _⟩ := dispatchAxis_none ((List.finRange d).any torus) (torus j) M rd j.val
    rw [h]; rfl
  simp only [dispatch, modeNeedsOdd, Bool.true_and, h1]
  rw [if_neg (by simp), if_pos hall]
  refine ⟨_, rfl, ?_⟩
  intro j
  obtain ⟨w, lo, hi, h, hh⟩ := dispatchAxis_none ((List.finRange d).any torus) (torus j) M rd j.val
  simp only [h, true_and]
  exact hh

theorem dispatch_explicit_some (torus : Fin d → Bool) (N : Fin d → Nat) (M rd ld lo : Nat) :
    ∃ ax, dispatch (.explicit (List.replicate d (lo, lo))) torus N (fun _ => M) (fun _ => 1)
        (fun _ => rd) (fun _ => ld) = some ax ∧
      ∀ j, (ax j).N = N j ∧ (ax j).M = M ∧ (ax j).stride = 1 ∧ (ax j).rd = rd ∧ (ax j).ld = ld ∧
        (ax j).w = 0 ∧ (ax j).lo = lo ∧ (ax j).hi = lo := by
  have hax : ∀ j : Fin d, dispatchAxis (.explicit (List.replicate d (lo, lo)))
      ((List.finRange d).any torus) (torus j) M rd j.val = some (0, lo, lo) := by
    intro j
    simp [dispatchAxis, j.isLt]
  have hall : (List.finRange d).all (fun j =>
      (dispatchAxis (.explicit (List.replicate d (lo, lo))) ((List.finRange d).any torus) (torus j) M rd
        j.val).isSome) = true := by
    rw [List.all_eq_true]; intro j _; rw [hax j]; rfl
  simp only [dispatch, modeNeedsOdd, Bool.false_and]
  rw [if_neg (by simp), if_pos hall]
  refine ⟨_, rfl, ?_⟩
  intro j
  simp only [hax j, and_self]

/-- odd filter, inferred padding (TORUS on toroidal axes, zero SAME padding on the others), any filter
dilation: the extent is kept and the filter fits -/
theorem same_outLen (o : AxisOpt) (N M rd : Nat) (hM : M % 2 = 1) (hN : 0 < N) (h1 : o.N = N)
    (h2 : o.M = M) (h3 : o.stride = 1) (h4 : o.rd = rd) (h5 : o.ld = 1)
    (h6 : 2 * o.w + o.lo + o.hi = 2 * (((M - 1) / 2) * rd)) : o.outLen = N ∧ o.Fits := by
  have hq : (M - 1) * rd = 2 * (((M - 1) / 2) * rd) := by
    have : M - 1 = 2 * ((M - 1) / 2) := by omega
    calc (M - 1) * rd = (2 * ((M - 1) / 2)) * rd := by rw [← this]
      _ = 2 * (((M - 1) / 2) * rd) := Nat.mul_assoc _ _ _
  unfold AxisOpt.outLen AxisOpt.Fits AxisOpt.padLen AxisOpt.dilLen AxisOpt.filtLen
  rw [h1, h2, h3, h4, h5, hq]
  generalize ((M - 1) / 2) * rd = q at h6 ⊢
  constructor
  · split
    · omega
    · rw [Nat.div_one]; omega
  · omega

/-- the up-convolution: filter side 2, padding `(1,1)`, image dilation 2, no filter dilation: the
extent is doubled and the filter fits -/
theorem up_outLen (o : AxisOpt) (N : Nat) (hN : 0 < N) (h1 : o.N = N) (h2 : o.M = 2)
    (h3 : o.stride = 1) (h4 : o.rd = 1) (h5 : o.ld = 2) (h6 : o.w = 0) (h7 : o.lo = 1) (h8 : o.hi = 1) :
    o.outLen = 2 * N ∧ o.Fits := by
  unfold AxisOpt.outLen AxisOpt.Fits AxisOpt.padLen AxisOpt.dilLen AxisOpt.filtLen
  rw [h1, h2, h3, h4, h5, h6, h7, h8]
  constructor
  · split
    · omega
    · rw [Nat.div_one]; omega
  · omega

/-! ### single nodes -/

section WF
variable [CommRing R]

theorem explicit_symmetric (lo : Nat) : (PadMode.explicit (List.replicate d (lo, lo))).Symmetric := by
  intro p hp
  rw [List.mem_replicate] at hp
  rw [hp.2]

theorem explicit_axisIndep (lo : Nat) : (PadMode.explicit (List.replicate d (lo, lo))).AxisIndep d := by
  intro i j
  simp [i.isLt, j.isLt]

/-- a convolution with an odd filter and inferred padding is well formed and keeps the extents -/
theorem wf_conv_same (g : SP d) (torus : Fin d → Bool) (c : ConvSpec R d) (N : Fin d → Nat)
    (hpad : c.pad = .none) (hst : c.stride = 1) (hld : c.ld = 1) (hM : c.M % 2 = 1)
    (hN : ∀ j, 0 < N j) (hn : KeysNodup c.target) (hinv : BankInv g (fun _ => c.M) c.bank) :
    WellFormed g torus (.convContract c) N ∧ outDims torus (.convContract c) N = some N := by
  obtain ⟨ax, hax, hfacts⟩ := dispatch_none_some torus N c.M c.rd hM
  have hdis : c.dispatch torus N = some ax := by
    unfold ConvSpec.dispatch; rw [hpad, hst, hld]; exact hax
  have hout : ∀ j, (ax j).outLen = N j ∧ (ax j).Fits := by
    intro j
    obtain ⟨h1, h2, h3, h4, h5, h6⟩ := hfacts j
    exact same_outLen (ax j) (N j) c.M c.rd hM (hN j) h1 h2 h3 h4 h5 h6
  refine ⟨⟨by rw [hpad]; trivial, by rw [hpad]; trivial, hst, by omega, hN, hn, hinv, ?_⟩, ?_⟩
  · intro ax' hax' j
    rw [hdis] at hax'; cases hax'
    exact (hout j).2
  · simp only [outDims, hdis, Option.map_some]
    congr 1
    funext j
    exact (hout j).1

/-- the up-convolution is well formed and doubles the extents -/
theorem wf_conv_up (g : SP d) (torus : Fin d → Bool) (c : ConvSpec R d) (N : Fin d → Nat)
    (hpad : c.pad = .explicit (List.replicate d (1, 1))) (hst : c.stride = 1) (hld : c.ld = 2)
    (hrd : c.rd = 1) (hM : c.M = 2) (hN : ∀ j, 0 < N j) (hn : KeysNodup c.target)
    (hinv : BankInv g (fun _ => c.M) c.bank) :
    WellFormed g torus (.convContract c) N ∧
      outDims torus (.convContract c) N = some (fun j => 2 * N j) := by
  obtain ⟨ax, hax, hfacts⟩ := dispatch_explicit_some torus N c.M c.rd c.ld 1
  have hdis : c.dispatch torus N = some ax := by
    unfold ConvSpec.dispatch; rw [hpad, hst]; exact hax
  have hout : ∀ j, (ax j).outLen = 2 * N j ∧ (ax j).Fits := by
    intro j
    obtain ⟨h1, h2, h3, h4, h5, h6, h7, h8⟩ := hfacts j
    exact up_outLen (ax j) (N j) (hN j) h1 (h2.trans hM) h3 (h4.trans hrd) (h5.trans hld) h6 h7 h8
  refine ⟨⟨by rw [hpad]; exact explicit_symmetric 1, by rw [hpad]; exact explicit_axisIndep 1, hst,
    by omega, hN, hn, hinv, ?_⟩, ?_⟩
  · intro ax' hax' j
    rw [hdis] at hax'; cases hax'
    exact (hout j).2
  · simp only [outDims, hdis, Option.map_some]
    congr 1
    funext j
    exact (hout j).1

/-- "well formed and extent preserving" -/
def WFSame (g : SP d) (torus : Fin d → Bool) (net : Net R d) (N : Fin d → Nat) : Prop :=
  WellFormed g torus net N ∧ outDims torus net N = some N

theorem wfSame_identity (g : SP d) (torus : Fin d → Bool) (N : Fin d → Nat) :
    WFSame g torus (.identity : Net R d) N := ⟨trivial, rfl⟩

theorem wfSame_seq (g : SP d) (torus : Fin d → Bool) (a b : Net R d) (N : Fin d → Nat)
    (ha : WFSame g torus a N) (hb : WFSame g torus b N) : WFSame g torus (.seq a b) N := by
  refine ⟨⟨ha.1, ?_⟩, ?_⟩
  · intro N' h
    rw [ha.2] at h; cases h
    exact hb.1
  · simp only [outDims, ha.2, Option.bind_some]
    exact hb.2

theorem wfSame_residual (g : SP d) (torus : Fin d → Bool) (body : Net R d) (N : Fin d → Nat)
    (h : WFSame g torus body N) : WFSame g torus (.residual body) N := ⟨h.1, h.2⟩

theorem wfSame_chain (g : SP d) (torus : Fin d → Bool) (N : Fin d → Nat) :
    ∀ ns : List (Net R d), (∀ n ∈ ns, WFSame g torus n N) → WFSame g torus (chain ns) N
  | [], _ => wfSame_identity g torus N
  | n :: ns, h =>
    wfSame_seq g torus n (chain ns) N (h n (by simp))
      (wfSame_chain g torus N ns (fun m hm => h m (List.mem_cons_of_mem _ hm)))

/-! ### `ConvBlock` -/

/-- the hypotheses on the arguments of a `ConvBlock` with an odd filter and inferred padding -/
structure BlockOK (g : SP d) (a : BlockArgs R d) : Prop where
  pad : a.pad = .none
  ld : a.ld = 1
  odd : a.M % 2 = 1
  nodup : KeysNodup a.outKeys
  inv : BankInv g (fun _ => a.M) a.bank
  /-- `GroupNorm.__init__` raises for `k > 1` -/
  norm : a.groupNorm = true → ∀ b ∈ a.outKeys, b.1.1 ≤ 1

theorem wfSame_mkConv (θ : ParamFam R) (id : List Nat) (g : SP d) (torus : Fin d → Bool)
    (a : BlockArgs R d) (h : BlockOK g a) (N : Fin d → Nat) (hN : ∀ j, 0 < N j) :
    WFSame g torus (mkConv θ id a) N :=
  wf_conv_same g torus _ N h.pad rfl h.ld h.odd hN h.nodup h.inv

theorem wfSame_mkNorm (θ : ParamFam R) (id : List Nat) (g : SP d) (torus : Fin d → Bool)
    (a : BlockArgs R d) (h : BlockOK g a) (N : Fin d → Nat) : WFSame g torus (mkNorm θ id a) N := by
  unfold mkNorm
  split
  · rename_i hg
    exact ⟨h.norm hg, rfl⟩
  · exact wfSame_identity g torus N

theorem wfSame_mkNonlin (θ : ParamFam R) (id : List Nat) (g : SP d) (torus : Fin d → Bool)
    (a : BlockArgs R d) (N : Fin d → Nat) : WFSame g torus (mkNonlin θ id a) N := by
  unfold mkNonlin
  split
  · exact ⟨trivial, rfl⟩
  · exact wfSame_identity g torus N

/-- **every `ConvBlock` is well formed** — both activation orders, with and without `LayerNorm`, with
and without activation, every bias setting, every filter dilation -/
theorem mkConvBlock_wfSame (θ : ParamFam R) (id : List Nat) (g : SP d) (torus : Fin d → Bool)
    (a : BlockArgs R d) (h : BlockOK g a) (N : Fin d → Nat) (hN : ∀ j, 0 < N j) :
    WFSame g torus (mkConvBlock θ id a) N := by
  unfold mkConvBlock
  split
  · exact wfSame_seq g torus _ _ N (wfSame_mkNorm θ id g torus a h N)
      (wfSame_seq g torus _ _ N (wfSame_mkNonlin θ id g torus a N) (wfSame_mkConv θ id g torus a h N hN))
  · exact wfSame_seq g torus _ _ N (wfSame_mkConv θ id g torus a h N hN)
      (wfSame_seq g torus _ _ N (wfSame_mkNorm θ id g torus a h N) (wfSame_mkNonlin θ id g torus a N))

/-! ### the three model classes -/

/-- the hypotheses on the constructor arguments: distinct keys in `mid_keys` and `output_keys`, odd
filters invariant under `g`; with group norm all mid types have `k ≤ 1` (the constructor raises
otherwise) -/
structure NetOK (g : SP d) (c : NetArgs R d) : Prop where
  odd : c.M % 2 = 1
  midNodup : KeysNodup c.mid
  outNodup : KeysNodup c.outSig
  inv : BankInv g (fun _ => c.M) c.bank
  norm : c.groupNorm = true → ∀ b ∈ c.mid, b.1.1 ≤ 1

theorem keysOf_midAt (mid : Sig) (ch : Nat) : keysOf (midAt mid ch) = keysOf mid := by
  simp [keysOf, midAt, List.map_map, Function.comp_def]

theorem blockOK_mid (g : SP d) (c : NetArgs R d) (h : NetOK g c) (inK : Sig) (ch : Option Nat)
    (act gn pre : Bool) (rd : Nat) (hgn : gn = true → c.groupNorm = true) :
    BlockOK g (c.block inK (match ch with | some n => midAt c.mid n | none => c.mid) act gn pre rd) := by
  refine ⟨rfl, rfl, h.odd, ?_, h.inv, ?_⟩
  · cases ch with
    | none => exact h.midNodup
    | some n => show KeysNodup (midAt c.mid n); unfold KeysNodup; rw [keysOf_midAt]; exact h.midNodup
  · intro hg b hb
    have hg' : gn = true := hg
    cases ch with
    | none => exact h.norm (hgn hg') b hb
    | some n =>
      have hb' : b ∈ midAt c.mid n := hb
      obtain ⟨b0, hb0, rfl⟩ := List.mem_map.1 hb'
      exact h.norm (hgn hg') b0 hb0

theorem blockOK_out (g : SP d) (c : NetArgs R d) (h : NetOK g c) (inK : Sig) (act pre : Bool) :
    BlockOK g (c.block inK c.outSig act false pre) :=
  ⟨rfl, rfl, h.odd, h.outNodup, h.inv, fun hg => by cases hg⟩

theorem encoder_wfSame (θ : ParamFam R) (g : SP d) (torus : Fin d → Bool) (c : NetArgs R d)
    (h : NetOK g c) (N : Fin d → Nat) (hN : ∀ j, 0 < N j) : ∀ n ∈ encoder θ c, WFSame g torus n N := by
  intro n hn
  simp only [encoder, List.mem_cons, List.mem_nil_iff, or_false] at hn
  rcases hn with rfl | rfl
  · exact mkConvBlock_wfSame θ _ g torus _ (blockOK_mid g c h _ none _ _ _ _ (fun h => by cases h)) N hN
  · exact mkConvBlock_wfSame θ _ g torus _ (blockOK_mid g c h _ none _ _ _ _ (fun h => by cases h)) N hN

theorem decoder_wfSame (θ : ParamFam R) (g : SP d) (torus : Fin d → Bool) (c : NetArgs R d)
    (h : NetOK g c) (N : Fin d → Nat) (hN : ∀ j, 0 < N j) : ∀ n ∈ decoder θ c, WFSame g torus n N := by
  intro n hn
  simp only [decoder, List.mem_cons, List.mem_nil_iff, or_false] at hn
  rcases hn with rfl | rfl
  · exact mkConvBlock_wfSame θ _ g torus _ (blockOK_mid g c h _ none _ _ _ _ (fun h => by cases h)) N hN
  · exact mkConvBlock_wfSame θ _ g torus _ (blockOK_out g c h _ _ _) N hN

/-- **`ResNet`**: every configuration is well formed on every input with positive extents -/
theorem mkResNet_wfSame (θ : ParamFam R) (g : SP d) (torus : Fin d → Bool) (c : NetArgs R d)
    (h : NetOK g c) (N : Fin d → Nat) (hN : ∀ j, 0 < N j) : WFSame g torus (mkResNet θ c) N := by
  unfold mkResNet
  apply wfSame_chain
  intro n hn
  rcases List.mem_append.1 hn with hn | hn
  · rcases List.mem_append.1 hn with hn | hn
    · exact encoder_wfSame θ g torus c h N hN n hn
    · obtain ⟨b, _, rfl⟩ := List.mem_map.1 hn
      apply wfSame_residual
      apply wfSame_chain
      intro m hm
      obtain ⟨j, _, rfl⟩ := List.mem_map.1 hm
      exact mkConvBlock_wfSame θ _ g torus _ (blockOK_mid g c h _ none _ _ _ _ (fun h => h)) N hN
  · exact decoder_wfSame θ g torus c h N hN n hn

/-- **`DilResNet`**: every configuration is well formed on every input with positive extents (the
filter dilations 1, 2, 4, 8 all keep the extents with the inferred padding) -/
theorem mkDilResNet_wfSame (θ : ParamFam R) (g : SP d) (torus : Fin d → Bool) (c : NetArgs R d)
    (h : NetOK g c) (N : Fin d → Nat) (hN : ∀ j, 0 < N j) : WFSame g torus (mkDilResNet θ c) N := by
  unfold mkDilResNet
  apply wfSame_chain
  intro n hn
  rcases List.mem_append.1 hn with hn | hn
  · rcases List.mem_append.1 hn with hn | hn
    · exact encoder_wfSame θ g torus c h N hN n hn
    · obtain ⟨b, _, rfl⟩ := List.mem_map.1 hn
      apply wfSame_residual
      apply wfSame_chain
      intro m hm
      obtain ⟨⟨rd, j⟩, _, rfl⟩ := List.mem_map.1 hm
      exact mkConvBlock_wfSame θ _ g torus _ (blockOK_mid g c h _ none _ _ _ _ (fun h => h)) N hN
  · exact decoder_wfSame θ g torus c h N hN n hn

/-! ### the U-Net -/

theorem levelBlocks_wfSame (θ : ParamFam R) (g : SP d) (torus : Fin d → Bool) (c : NetArgs R d)
    (h : NetOK g c) (id : List Nat) (inK : Sig) (ch : Option Nat) (N : Fin d → Nat)
    (hN : ∀ j, 0 < N j) :
    ∀ n ∈ levelBlocks θ c id inK (match ch with | some n => midAt c.mid n | none => c.mid),
      WFSame g torus n N := by
  intro n hn
  obtain ⟨j, _, rfl⟩ := List.mem_map.1 hn
  exact mkConvBlock_wfSame θ _ g torus _ (blockOK_mid g c h _ ch _ _ _ _ (fun h => h)) N hN

/-- the extra hypotheses of the U-Net: the up-sampling filters have side 2 and are invariant -/
structure UNetOK (g : SP d) (c : NetArgs R d) : Prop extends NetOK g c where
  upM : c.upM = 2
  upInv : BankInv g (fun _ => c.upM) c.upBank

theorem levelNet_wfSame (θ : ParamFam R) (g : SP d) (torus : Fin d → Bool) (c : NetArgs R d)
    (h : UNetOK g c) : ∀ (n l : Nat) (N : Fin d → Nat), (∀ j, 0 < N j) → (∀ j, 2 ^ n ∣ N j) →
      WFSame g torus (levelNet θ c n l) N
  | 0, _, N, _, _ => wfSame_identity g torus N
  | n + 1, l, N, hN, hdiv => by
    have h2 : ∀ j, 2 ∣ N j := fun j => Dvd.dvd.trans (Dvd.intro_left (2 ^ n) (by rw [pow_succ])) (hdiv j)
    have hN1 : ∀ j, 0 < N j / 2 := fun j => by
      obtain ⟨k, hk⟩ := h2 j
      have := hN j
      omega
    have hdiv1 : ∀ j, 2 ^ n ∣ N j / 2 := fun j => by
      apply Nat.dvd_div_of_mul_dvd
      have := hdiv j
      rw [pow_succ, Nat.mul_comm] at this
      exact this
    have hdouble : (fun j => 2 * (N j / 2)) = N := funext (fun j => Nat.mul_div_cancel' (h2 j))
    -- the pieces
    have hdown := wfSame_chain g torus (fun j => N j / 2) _
      (levelBlocks_wfSame θ g torus c h.toNetOK [1, l] (midAt c.mid (c.depth * 2 ^ (l - 1)))
        (some (c.depth * 2 ^ l)) (fun j => N j / 2) hN1)
    have hrec := levelNet_wfSame θ g torus c h n (l + 1) (fun j => N j / 2) hN1 hdiv1
    have hbody := wfSame_seq g torus _ _ _ hdown hrec
    have hup := wf_conv_up g torus
      { declared := midAt c.mid (c.depth * 2 ^ (l - 1 + 1)), target := midAt c.mid (c.depth * 2 ^ (l - 1)),
        bank := c.upBank, M := c.upM, weights := θ.convW [2, l - 1], bias := θ.convB [2, l - 1],
        mode := c.bias, pad := .explicit (List.replicate d (1, 1)), stride := 1, rd := 1, ld := 2 }
      (fun j => N j / 2) rfl rfl rfl rfl h.upM hN1
      (by show KeysNodup (midAt c.mid _); unfold KeysNodup; rw [keysOf_midAt]; exact h.midNodup)
      h.upInv
    have hupB := wfSame_chain g torus N _
      (levelBlocks_wfSame θ g torus c h.toNetOK [3, l - 1] (midAt c.mid (c.depth * 2 ^ l))
        (some (c.depth * 2 ^ (l - 1))) N hN)
    unfold levelNet
    refine wfSame_seq g torus _ _ N ⟨⟨h2, ?_⟩, ?_⟩ hupB
    · intro N1 hN1'
      simp only [outDims, Option.some.injEq] at hN1'
      subst hN1'
      refine ⟨hbody.1, ?_⟩
      intro N2 hN2
      rw [hbody.2] at hN2; cases hN2
      exact hup.1
    · have e1 : outDims torus (chain (levelBlocks θ c [1, l] (midAt c.mid (c.depth * 2 ^ (l - 1)))
          (midAt c.mid (c.depth * 2 ^ l)))) (fun j => N j / 2) = some (fun j => N j / 2) := hdown.2
      have e2 := hrec.2
      have e3 : outDims torus (upConv θ c (l - 1)) (fun j => N j / 2)
          = some (fun j => 2 * (N j / 2)) := hup.2
      simp only [outDims, Option.bind_some]
      rw [e1]
      simp only [Option.bind_some]
      rw [e2]
      simp only [Option.bind_some]
      rw [e3, hdouble]

/-- **`UNet`**: every configuration is well formed on every input whose extents are positive multiples
of `2^num_downsamples` -/
theorem mkUNet_wfSame (θ : ParamFam R) (g : SP d) (torus : Fin d → Bool) (c : NetArgs R d)
    (h : UNetOK g c) (N : Fin d → Nat) (hN : ∀ j, 0 < N j) (hdiv : ∀ j, 2 ^ c.numDown ∣ N j) :
    WFSame g torus (mkUNet θ c) N := by
  unfold mkUNet
  refine wfSame_seq g torus _ _ N ?_ (wfSame_seq g torus _ _ N ?_ ?_)
  · exact wfSame_chain g torus N _
      (levelBlocks_wfSame θ g torus c h.toNetOK [0] c.inSig none N hN)
  · exact levelNet_wfSame θ g torus c h c.numDown 1 N hN hdiv
  · exact wfSame_mkConv θ [4] g torus _ (blockOK_out g c h.toNetOK _ _ _) N hN

end WF

/-! ### networks without pooling need no genericity hypothesis -/

/-- no `MaxNormPool` anywhere in the net -/
def NoPool : Net R d → Prop
  | .maxNormPool _ => False
  | .seq a b => NoPool a ∧ NoPool b
  | .residual body => NoPool body
  | .skipConcat dn body up => NoPool dn ∧ NoPool body ∧ NoPool up
  | _ => True

theorem poolGeneric_of_noPool [Field R] [LinearOrder R] (F : Fns R d) :
    ∀ (net : Net R d), NoPool net → ∀ x, PoolGeneric F net x := by
  intro net
  induction net with
  | identity => intro _ _; trivial
  | convContract c => intro _ _; trivial
  | layerNorm n => intro _ _; trivial
  | vnNonlinear v => intro _ _; trivial
  | maxNormPool P => intro h; exact absurd h (by simp [NoPool])
  | seq a b iha ihb => intro h x; exact ⟨iha h.1 x, fun y _ => ihb h.2 y⟩
  | residual body ih => intro h x; exact ih h x
  | skipConcat dn body up i1 i2 i3 =>
    intro h x
    exact ⟨i1 h.1 x, fun y _ => ⟨i2 h.2.1 y, fun z _ => i3 h.2.2 z⟩⟩

theorem noPool_chain : ∀ ns : List (Net R d), (∀ n ∈ ns, NoPool n) → NoPool (chain ns)
  | [], _ => trivial
  | n :: ns, h => ⟨h n (by simp), noPool_chain ns (fun m hm => h m (List.mem_cons_of_mem _ hm))⟩

theorem noPool_mkConvBlock (θ : ParamFam R) (id : List Nat) (a : BlockArgs R d) :
    NoPool (mkConvBlock θ id a) := by
  have h1 : NoPool (mkNorm θ id a) := by unfold mkNorm; split <;> trivial
  have h2 : NoPool (mkNonlin θ id a) := by unfold mkNonlin; split <;> trivial
  have h3 : NoPool (mkConv θ id a) := trivial
  unfold mkConvBlock
  split
  · exact ⟨h1, h2, h3⟩
  · exact ⟨h3, h1, h2⟩

theorem noPool_mkResNet (θ : ParamFam R) (c : NetArgs R d) : NoPool (mkResNet θ c) := by
  unfold mkResNet
  apply noPool_chain
  intro n hn
  rcases List.mem_append.1 hn with hn | hn
  · rcases List.mem_append.1 hn with hn | hn
    · simp only [encoder, List.mem_cons, List.mem_nil_iff, or_false] at hn
      rcases hn with rfl | rfl <;> exact noPool_mkConvBlock θ _ _
    · obtain ⟨b, _, rfl⟩ := List.mem_map.1 hn
      apply noPool_chain
      intro m hm
      obtain ⟨j, _, rfl⟩ := List.mem_map.1 hm
      exact noPool_mkConvBlock θ _ _
  · simp only [decoder, List.mem_cons, List.mem_nil_iff, or_false] at hn
    rcases hn with rfl | rfl <;> exact noPool_mkConvBlock θ _ _

theorem noPool_mkDilResNet (θ : ParamFam R) (c : NetArgs R d) : NoPool (mkDilResNet θ c) := by
  unfold mkDilResNet
  apply noPool_chain
  intro n hn
  rcases List.mem_append.1 hn with hn | hn
  · rcases List.mem_append.1 hn with hn | hn
    · simp only [encoder, List.mem_cons, List.mem_nil_iff, or_false] at hn
      rcases hn with rfl | rfl <;> exact noPool_mkConvBlock θ _ _
    · obtain ⟨b, _, rfl⟩ := List.mem_map.1 hn
      apply noPool_chain
      intro m hm
      obtain ⟨⟨rd, j⟩, _, rfl⟩ := List.mem_map.1 hm
      exact noPool_mkConvBlock θ _ _
  · simp only [decoder, List.mem_cons, List.mem_nil_iff, or_false] at hn
    rcases hn with rfl | rfl <;> exact noPool_mkConvBlock θ _ _

end GinjaxVerif.C07
