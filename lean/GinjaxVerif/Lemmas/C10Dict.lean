import GinjaxVerif.Model.C10
import Mathlib.Tactic.SplitIfs
import Mathlib.Data.List.Basic

/-!
# C10 — association-list (Python `dict`) lemmas used by the Climate1D / ModelWrapper theorems
-/
namespace GinjaxVerif.C10

variable {A B : Type}

@[simp] theorem dLookup_nil (key : Key) : dLookup ([] : List (Key × B)) key = none := rfl

@[simp] theorem dLookup_cons (k : Key) (b : B) (rest : List (Key × B)) (key : Key) :
    dLookup ((k, b) :: rest) key = if k = key then some b else dLookup rest key := rfl

@[simp] theorem keysOf_nil : keysOf ([] : List (Key × B)) = [] := rfl
@[simp] theorem keysOf_cons (kb : Key × B) (rest : List (Key × B)) :
    keysOf (kb :: rest) = kb.1 :: keysOf rest := rfl
@[simp] theorem keysOf_append (a b : List (Key × B)) : keysOf (a ++ b) = keysOf a ++ keysOf b := by
  simp [keysOf]

theorem dLookup_eq_none_of_not_mem (d : List (Key × B)) (key : Key) (h : key ∉ keysOf d) :
    dLookup d key = none := by
  induction d with
  | nil => rfl
  | cons kb rest ih =>
    obtain ⟨k, b⟩ := kb
    simp only [keysOf_cons, List.mem_cons, not_or] at h
    simp only [dLookup_cons]
    rw [if_neg (fun e => h.1 e.symm), ih h.2]

theorem mem_keysOf_of_dLookup (d : List (Key × B)) (key : Key) (b : B) (h : dLookup d key = some b) :
    key ∈ keysOf d := by
  by_contra hn
  rw [dLookup_eq_none_of_not_mem d key hn] at h
  cases h

theorem dLookup_mem (d : List (Key × B)) (key : Key) (b : B) (h : dLookup d key = some b) :
    (key, b) ∈ d := by
  induction d with
  | nil => cases h
  | cons kb rest ih =>
    obtain ⟨k, b0⟩ := kb
    simp only [dLookup_cons] at h
    split_ifs at h with hk
    · cases h; subst hk; exact List.mem_cons_self
    · exact List.mem_cons_of_mem _ (ih h)

theorem dLookup_of_mem (d : List (Key × B)) (hnd : (keysOf d).Nodup) (key : Key) (b : B)
    (h : (key, b) ∈ d) : dLookup d key = some b := by
  induction d with
  | nil => cases h
  | cons kb rest ih =>
    obtain ⟨k, b0⟩ := kb
    simp only [keysOf_cons, List.nodup_cons] at hnd
    simp only [dLookup_cons]
    rcases List.mem_cons.mp h with e | hm
    · cases e; simp
    · have : k ≠ key := by
        rintro rfl
        exact hnd.1 (List.mem_map.mpr ⟨(k, b), hm, rfl⟩)
      rw [if_neg this]; exact ih hnd.2 hm

/-! ### `append` -/

theorem dLookup_dAppend (cat : B → B → B) (d : List (Key × B)) (key key' : Key) (b : B) :
    dLookup (dAppend cat d key b) key' =
      if key = key' then some (match dLookup d key with | some b0 => cat b0 b | none => b)
      else dLookup d key' := by
  induction d with
  | nil => simp [dAppend]
  | cons kb rest ih =>
    obtain ⟨k, b0⟩ := kb
    by_cases hk : k = key
    · subst hk
      by_cases hk' : k = key' <;> simp [dAppend, hk']
    · by_cases hk' : key = key'
      · subst hk'
        simp [dAppend, hk, ih]
      · by_cases hk2 : k = key'
        · subst hk2
          have hk'' : ¬ key = k := hk'
          simp [dAppend, hk, hk'']
        · simp [dAppend, hk, hk', hk2, ih]

theorem dAppend_of_not_mem (cat : B → B → B) (d : List (Key × B)) (key : Key) (b : B)
    (h : key ∉ keysOf d) : dAppend cat d key b = d ++ [(key, b)] := by
  induction d with
  | nil => rfl
  | cons kb rest ih =>
    obtain ⟨k, b0⟩ := kb
    simp only [keysOf_cons, List.mem_cons, not_or] at h
    have hk : ¬ k = key := fun e => h.1 e.symm
    simp [dAppend, hk, ih h.2]

/-- the blocks appended under `key`, in call order -/
def gather (key : Key) (calls : List (Key × B)) : List B :=
  (calls.filter fun c => c.1 = key).map (·.2)

/-- concatenate a list of blocks onto an optional first one -/
def catAll (cat : B → B → B) : Option B → List B → Option B
  | o, [] => o
  | none, b :: l => catAll cat (some b) l
  | some a, b :: l => catAll cat (some (cat a b)) l

@[simp] theorem gather_nil (key : Key) : gather key ([] : List (Key × B)) = [] := rfl

theorem gather_cons (key : Key) (c : Key × B) (cs : List (Key × B)) :
    gather key (c :: cs) = if c.1 = key then c.2 :: gather key cs else gather key cs := by
  by_cases h : c.1 = key <;> simp [gather, h]

@[simp] theorem gather_append (key : Key) (a b : List (Key × B)) :
    gather key (a ++ b) = gather key a ++ gather key b := by
  simp [gather]

theorem gather_flatMap (key : Key) (x : List A) (g : A → List (Key × B)) :
    gather key (x.flatMap g) = x.flatMap fun a => gather key (g a) := by
  induction x with
  | nil => rfl
  | cons a rest ih => simp [ih]

theorem gather_map_val (key : Key) (h : Key → A → B) (calls : List (Key × A)) :
    gather key (calls.map fun c => (c.1, h c.1 c.2)) = (gather key calls).map (h key) := by
  induction calls with
  | nil => rfl
  | cons c cs ih =>
    simp only [List.map_cons, gather_cons]
    by_cases hk : c.1 = key
    · simp [hk, ih]
    · simp [hk, ih]

/-- **the dict after a sequence of `append` calls**, read at one key -/
theorem dLookup_appendAll (cat : B → B → B) (d : List (Key × B)) (calls : List (Key × B)) (key : Key) :
    dLookup (appendAll cat d calls) key = catAll cat (dLookup d key) (gather key calls) := by
  induction calls generalizing d with
  | nil => rfl
  | cons c cs ih =>
    have : appendAll cat d (c :: cs) = appendAll cat (dAppend cat d c.1 c.2) cs := rfl
    rw [this, ih, dLookup_dAppend, gather_cons]
    by_cases hk : c.1 = key
    · subst hk
      simp only [if_true]
      cases dLookup d c.1 <;> rfl
    · simp [hk]

theorem appendAll_eq_append_of_nodup (cat : B → B → B) (d calls : List (Key × B))
    (h : (keysOf (d ++ calls)).Nodup) : appendAll cat d calls = d ++ calls := by
  induction calls generalizing d with
  | nil => simp [appendAll]
  | cons c cs ih =>
    have hstep : appendAll cat d (c :: cs) = appendAll cat (dAppend cat d c.1 c.2) cs := rfl
    have hnot : c.1 ∉ keysOf d := by
      simp only [keysOf_append, keysOf_cons] at h
      have := (List.nodup_append.mp h).2.2
      intro hm
      exact this _ hm _ List.mem_cons_self rfl
    rw [hstep, dAppend_of_not_mem cat d c.1 c.2 hnot, ih]
    · simp
    · simpa using h

theorem appendAll_append (cat : B → B → B) (d a b : List (Key × B)) :
    appendAll cat d (a ++ b) = appendAll cat (appendAll cat d a) b := by
  simp [appendAll, List.foldl_append]

/-! ### `dict(...)` of a list without repeated keys -/

theorem dSet_of_not_mem (d : List (Key × B)) (key : Key) (b : B) (h : key ∉ keysOf d) :
    dSet d key b = d ++ [(key, b)] := by
  induction d with
  | nil => rfl
  | cons kb rest ih =>
    obtain ⟨k, b0⟩ := kb
    simp only [keysOf_cons, List.mem_cons, not_or] at h
    have hk : ¬ k = key := fun e => h.1 e.symm
    simp [dSet, hk, ih h.2]

theorem dictOf_of_nodup (l : List (Key × B)) (h : (keysOf l).Nodup) : dictOf l = l := by
  have key : ∀ (acc l : List (Key × B)), (keysOf (acc ++ l)).Nodup →
      l.foldl (fun d c => dSet d c.1 c.2) acc = acc ++ l := by
    intro acc l
    induction l generalizing acc with
    | nil => simp
    | cons c cs ih =>
      intro hnd
      have hnot : c.1 ∉ keysOf acc := by
        simp only [keysOf_append, keysOf_cons] at hnd
        have := (List.nodup_append.mp hnd).2.2
        intro hm
        exact this _ hm _ List.mem_cons_self rfl
      simp only [List.foldl_cons]
      rw [dSet_of_not_mem acc c.1 c.2 hnot, ih]
      · simp
      · simpa using hnd
  simpa [dictOf] using key [] l (by simpa using h)

/-! ### maps, filters -/

theorem dLookup_map_val (h : Key → A → B) (d : List (Key × A)) (key : Key) :
    dLookup (d.map fun kb => (kb.1, h kb.1 kb.2)) key = (dLookup d key).map (h key) := by
  induction d with
  | nil => rfl
  | cons kb rest ih =>
    obtain ⟨k, a⟩ := kb
    simp only [List.map_cons, dLookup_cons, ih]
    split_ifs with hk
    · subst hk; rfl
    · rfl

theorem keysOf_map_val (h : Key → A → B) (d : List (Key × A)) :
    keysOf (d.map fun kb => (kb.1, h kb.1 kb.2)) = keysOf d := by
  simp [keysOf, Function.comp_def]

theorem dLookup_filter (p : Key → Bool) (d : List (Key × B)) (key : Key) :
    dLookup (d.filter fun kb => p kb.1) key = if p key then dLookup d key else none := by
  induction d with
  | nil => simp
  | cons kb rest ih =>
    obtain ⟨k, b⟩ := kb
    by_cases hk : k = key
    · subst hk
      by_cases hp : p k <;> simp [hp, ih]
    · by_cases hp : p k <;> simp [hp, hk, ih]

theorem keysOf_filter_sublist (p : Key × B → Bool) (d : List (Key × B)) :
    (keysOf (d.filter p)).Sublist (keysOf d) :=
  (List.filter_sublist (l := d)).map _

/-- `filterMap` that keeps keys (`concat_inverse`) -/
theorem dLookup_filterMap_key (φ : Key → A → Option B) (d : List (Key × A)) (hnd : (keysOf d).Nodup)
    (key : Key) :
    dLookup (d.filterMap fun kb => (φ kb.1 kb.2).map fun b => (kb.1, b)) key
      = (dLookup d key).bind (φ key) := by
  induction d with
  | nil => rfl
  | cons kb rest ih =>
    obtain ⟨k, a⟩ := kb
    simp only [keysOf_cons, List.nodup_cons] at hnd
    by_cases hk : k = key
    · subst hk
      simp only [List.filterMap_cons, dLookup_cons, if_true, Option.bind_some]
      cases hφ : φ k a with
      | none =>
        simp only [Option.map_none]
        rw [ih hnd.2, dLookup_eq_none_of_not_mem rest k hnd.1]; rfl
      | some b => simp
    · simp only [List.filterMap_cons, dLookup_cons, if_neg hk]
      cases hφ : φ k a with
      | none => simpa using ih hnd.2
      | some b => simpa [hk] using ih hnd.2

theorem keysOf_filterMap_key_sublist (φ : Key → A → Option B) (d : List (Key × A)) :
    (keysOf (d.filterMap fun kb => (φ kb.1 kb.2).map fun b => (kb.1, b))).Sublist (keysOf d) := by
  induction d with
  | nil => simp
  | cons kb rest ih =>
    obtain ⟨k, a⟩ := kb
    simp only [List.filterMap_cons, keysOf_cons]
    cases hφ : φ k a with
    | none => simpa using ih.cons _
    | some b => simpa using ih.cons_cons k

/-- a `flatMap` over a dict whose contributions (under `key`) come from one source key only -/
theorem gather_flatMap_single (x : List (Key × A)) (g : Key × A → List (Key × B)) (key0 key : Key)
    (hnd : (keysOf x).Nodup) (hz : ∀ kb ∈ x, kb.1 ≠ key0 → gather key (g kb) = []) :
    gather key (x.flatMap g) =
      match dLookup x key0 with
      | some a => gather key (g (key0, a))
      | none => [] := by
  induction x with
  | nil => rfl
  | cons kb rest ih =>
    obtain ⟨k, a⟩ := kb
    simp only [keysOf_cons, List.nodup_cons] at hnd
    have ih' := ih hnd.2 (fun kb hkb => hz kb (List.mem_cons_of_mem _ hkb))
    simp only [List.flatMap_cons, gather_append, dLookup_cons]
    by_cases hk : k = key0
    · subst hk
      simp only [if_true]
      rw [ih', dLookup_eq_none_of_not_mem rest k hnd.1]
      simp
    · rw [if_neg hk, hz (k, a) List.mem_cons_self hk, ih']
      simp

/-- no source contributes under `key` -/
theorem gather_flatMap_none (x : List (Key × A)) (g : Key × A → List (Key × B)) (key : Key)
    (hz : ∀ kb ∈ x, gather key (g kb) = []) : gather key (x.flatMap g) = [] := by
  induction x with
  | nil => rfl
  | cons kb rest ih =>
    simp only [List.flatMap_cons, gather_append]
    rw [hz kb List.mem_cons_self, ih (fun kb hkb => hz kb (List.mem_cons_of_mem _ hkb))]
    rfl

end GinjaxVerif.C10
