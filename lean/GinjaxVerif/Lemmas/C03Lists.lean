import GinjaxVerif.Model.C03
import Mathlib.Data.List.Nodup
import Mathlib.Data.List.Perm.Basic
import Mathlib.Data.Int.Basic
import Mathlib.Tactic.Ring
import Mathlib.Tactic.Linarith

/-!
# C03 — list lemmas for the row pipeline of `get_unique_invariant_filters`

`np.unique(axis=0)` (model: `uniqueRows`) keeps exactly the distinct rows; making the leading
non-zero entry positive (`normLead`) is multiplication by a sign that does not depend on the sign of
the row.
-/

namespace GinjaxVerif.C03

theorem mem_dedup (a : List Int) : ∀ l : List (List Int), a ∈ dedup l ↔ a ∈ l
  | [] => by simp [dedup]
  | b :: l => by
    unfold dedup
    by_cases h : l.contains b = true
    · rw [if_pos h, mem_dedup a l]
      have hb : b ∈ l := by simpa using h
      constructor
      · exact fun h' => List.mem_cons_of_mem _ h'
      · intro h'
        rcases List.mem_cons.mp h' with rfl | h'
        · exact hb
        · exact h'
    · rw [if_neg h, List.mem_cons, List.mem_cons, mem_dedup a l]

theorem dedup_nodup : ∀ l : List (List Int), (dedup l).Nodup
  | [] => by simp [dedup]
  | b :: l => by
    unfold dedup
    by_cases h : l.contains b = true
    · rw [if_pos h]; exact dedup_nodup l
    · rw [if_neg h]
      have hb : b ∉ l := by simpa using h
      exact List.nodup_cons.mpr ⟨fun h' => hb ((mem_dedup b l).mp h'), dedup_nodup l⟩

theorem mem_uniqueRows (a : List Int) (l : List (List Int)) : a ∈ uniqueRows l ↔ a ∈ l := by
  unfold uniqueRows
  rw [(List.mergeSort_perm _ _).mem_iff, mem_dedup]

theorem uniqueRows_nodup (l : List (List Int)) : (uniqueRows l).Nodup := by
  unfold uniqueRows
  exact (List.mergeSort_perm _ _).nodup_iff.mpr (dedup_nodup _)

/-- the sign by which `normLead` multiplies -/
def sgnLead (r : List Int) : Int :=
  match r.find? (· != 0) with
  | some x => if x < 0 then -1 else 1
  | none => 1

theorem sgnLead_sq (r : List Int) : sgnLead r = 1 ∨ sgnLead r = -1 := by
  unfold sgnLead
  split
  · split <;> simp
  · simp

theorem normLead_eq (r : List Int) : normLead r = r.map fun v => sgnLead r * v := by
  unfold normLead sgnLead
  cases hf : r.find? (· != 0) with
  | none => simp
  | some x =>
    by_cases h : x < 0
    · simp [h, negRow]
    · simp [h]

theorem find_negRow : ∀ r : List Int,
    (negRow r).find? (· != 0) = (r.find? (· != 0)).map fun x => -x
  | [] => rfl
  | a :: r => by
    simp only [negRow, List.map_cons, List.find?_cons]
    by_cases h : a = 0
    · subst h
      simpa [negRow] using find_negRow r
    · have h1 : (a != 0) = true := by simpa using h
      have h2 : (-a != 0) = true := by simpa using h
      simp [h1, h2]

theorem isZeroRow_iff (r : List Int) : isZeroRow r = true ↔ ∀ v ∈ r, v = 0 := by
  simp [isZeroRow]

theorem find_none_iff (r : List Int) : r.find? (· != 0) = none ↔ isZeroRow r = true := by
  rw [isZeroRow_iff]
  simp

theorem sgnLead_negRow (r : List Int) (h : isZeroRow r = false) : sgnLead (negRow r) = - sgnLead r := by
  unfold sgnLead
  rw [find_negRow]
  cases hf : r.find? (· != 0) with
  | none => rw [find_none_iff] at hf; rw [hf] at h; cases h
  | some x =>
    have hx : x ≠ 0 := by
      have := List.find?_some hf
      simpa using this
    simp only [Option.map_some]
    by_cases h1 : x < 0
    · have : ¬ (-x < 0) := by omega
      rw [if_pos h1, if_neg this]; rfl
    · have : -x < 0 := by omega
      rw [if_neg h1, if_pos this]

/-- **the leading-sign step identifies a row with its negative** -/
theorem normLead_negRow (r : List Int) : normLead (negRow r) = normLead r := by
  cases h : isZeroRow r with
  | true =>
    have : negRow r = r := by
      rw [isZeroRow_iff] at h
      unfold negRow
      conv_rhs => rw [← List.map_id r]
      exact List.map_congr_left fun v hv => by rw [h v hv]; rfl
    rw [this]
  | false =>
    rw [normLead_eq, normLead_eq, sgnLead_negRow r h]
    simp [negRow, List.map_map, Function.comp_def]

end GinjaxVerif.C03
