import GinjaxVerif.Lemmas.Action
import Mathlib.LinearAlgebra.Matrix.Determinant.Basic

/-!
# Laws of the action: determinant facts, identity, composition, inverse, linearity, bijection,
norm preservation — first on the permute-and-flip form `pf`, then transferred to the model `tge`.
-/
namespace GinjaxVerif

open Finset

variable {R : Type} {d : Nat}

/-! ### determinant: the model's Laplace expansion is Mathlib's determinant -/

theorem skipAbove_eq {n : Nat} (j : Fin (n + 1)) (b : Fin n) : skipAbove j b = j.succAbove b := rfl

theorem det_eq : ∀ {n : Nat} (M : Fin n → Fin n → Int), det M = Matrix.det (Matrix.of M)
  | 0, M => by simp [det]
  | n + 1, M => by
    rw [Matrix.det_succ_row_zero]
    simp only [det, sumFin_eq]
    refine Finset.sum_congr rfl (fun j _ => ?_)
    rw [det_eq]
    have hs : (if (j : Nat) % 2 = 0 then (1 : Int) else -1) = (-1) ^ (j : Nat) := by
      rcases Nat.even_or_odd (j : Nat) with h | h
      · rw [if_pos (Nat.even_iff.mp h), h.neg_one_pow]
      · rw [if_neg (by rw [Nat.odd_iff.mp h]; decide), h.neg_one_pow]
    rw [hs]
    rfl

theorem of_mul (A B : Mat d) : Matrix.of (Mat.mul A B) = Matrix.of A * Matrix.of B := by
  ext i j
  simp [Mat.mul, sumFin_eq, Matrix.mul_apply]

theorem det_mul (A B : Mat d) : det (Mat.mul A B) = det A * det B := by
  rw [det_eq, det_eq, det_eq, of_mul, Matrix.det_mul]

theorem det_one : det (Mat.one d) = 1 := by
  rw [det_eq]
  have : Matrix.of (Mat.one d) = (1 : Matrix (Fin d) (Fin d) Int) := by
    ext i j; simp [Mat.one, Matrix.one_apply]
  rw [this, Matrix.det_one]

theorem det_transpose (A : Mat d) : det (Mat.transpose A) = det A := by
  rw [det_eq, det_eq]
  have : Matrix.of (Mat.transpose A) = (Matrix.of A).transpose := by
    ext i j; simp [Mat.transpose]
  rw [this, Matrix.det_transpose]

namespace SP

@[ext] theorem ext' {g h : SP d} (hσ : ∀ i, g.σ i = h.σ i) (hs : ∀ i, g.s i = h.s i) : g = h := by
  cases g with | mk gσ gs ghs =>
  cases h with | mk hσ' hs' hhs =>
  have h1 : gσ = hσ' := Equiv.ext hσ
  have h2 : gs = hs' := funext hs
  subst h1; subst h2; rfl

theorem mul_inv (g : SP d) : g.mul g.inv = SP.one := by
  apply ext'
  · intro i; simp
  · intro i; simp [g.s_mul_self]

theorem inv_mul (g : SP d) : g.inv.mul g = SP.one := by
  apply ext'
  · intro i; simp
  · intro i; simp [g.s_mul_self]

theorem one_mul (g : SP d) : SP.one.mul g = g := by
  apply ext' <;> intro i <;> simp

theorem mul_one (g : SP d) : g.mul SP.one = g := by
  apply ext' <;> intro i <;> simp

theorem mul_assoc (g h k : SP d) : (g.mul h).mul k = g.mul (h.mul k) := by
  apply ext' <;> intro i <;> simp [_root_.mul_assoc]

theorem det_mul_self (g : SP d) : det g.mat * det g.mat = 1 := by
  have h := congrArg det (congrArg SP.mat (mul_inv g))
  rw [mat_mul, GinjaxVerif.det_mul, mat_inv, det_transpose, mat_one, det_one] at h
  exact h

theorem det_pow_mul_self (g : SP d) (p : Nat) : (det g.mat) ^ p * (det g.mat) ^ p = 1 := by
  rw [← mul_pow, det_mul_self, one_pow]

theorem det_mul' (g h : SP d) : det (g.mul h).mat = det g.mat * det h.mat := by
  rw [mat_mul, GinjaxVerif.det_mul]

theorem det_one' : det (SP.one : SP d).mat = 1 := by rw [mat_one, det_one]

theorem det_inv (g : SP d) : det g.inv.mat = det g.mat := by rw [mat_inv, det_transpose]

theorem sgn_one (n : List (Fin d)) : (SP.one : SP d).sgn n = 1 := by
  induction n with
  | nil => rfl
  | cons a n ih => simp [ih]

theorem sgn_mul (g h : SP d) (n : List (Fin d)) :
    (g.mul h).sgn n = g.sgn n * h.sgn (n.map g.σ) := by
  induction n with
  | nil => simp
  | cons a n ih => simp only [sgn_cons, mul_s, ih, List.map_cons]; ring

theorem map_one (n : List (Fin d)) : n.map (SP.one : SP d).σ = n := by
  induction n with
  | nil => rfl
  | cons a n ih => simp [ih]

theorem map_mul (g h : SP d) (n : List (Fin d)) :
    n.map (g.mul h).σ = (n.map g.σ).map h.σ := by
  induction n with
  | nil => rfl
  | cons a n ih => simp

theorem srcPix_one (N : Fin d → Nat) (y : Fin d → Int) : (SP.one : SP d).srcPix N y = y := by
  funext j
  have h1 : (SP.one : SP d).σ.symm j = j := rfl
  simp only [srcPix, h1, one_s, if_true]

/-- Fetching through `g` then through `h` is fetching through `g.mul h`. -/
theorem srcPix_mul (g h : SP d) (N : Fin d → Nat) (y : Fin d → Int) :
    h.srcPix (fun i => N (h.σ i)) (g.srcPix (fun i => N (h.σ (g.σ i))) y)
      = (g.mul h).srcPix (fun i => N (h.σ (g.σ i))) y := by
  funext j
  simp only [srcPix, mul_σ_symm, mul_s, Equiv.apply_symm_apply]
  rcases g.hs (g.σ.symm (h.σ.symm j)) with a | a <;> rcases h.hs (h.σ.symm j) with b | b <;>
    simp [a, b]

end SP

/-! ### strong extensional equality -/

/-- equal extents and order, equal values on the box for *every* index list -/
def Img.SEq (A B : Img R d) : Prop :=
  A.dims = B.dims ∧ A.k = B.k ∧ ∀ y, InBox A.dims y → ∀ n, A.val y n = B.val y n

theorem Img.SEq.equiv {A B : Img R d} (h : A.SEq B) : A.Equiv B :=
  ⟨h.1, h.2.1, fun y hy n _ => h.2.2 y hy n⟩

theorem Img.SEq.refl (A : Img R d) : A.SEq A := ⟨rfl, rfl, fun _ _ _ => rfl⟩

theorem Img.SEq.symm {A B : Img R d} (h : A.SEq B) : B.SEq A :=
  ⟨h.1.symm, h.2.1.symm, fun y hy n => (h.2.2 y (h.1 ▸ hy) n).symm⟩

theorem Img.SEq.trans {A B C : Img R d} (h1 : A.SEq B) (h2 : B.SEq C) : A.SEq C :=
  ⟨h1.1.trans h2.1, h1.2.1.trans h2.2.1,
    fun y hy n => (h1.2.2 y hy n).trans (h2.2.2 y (h1.1 ▸ hy) n)⟩

theorem Img.Equiv.refl (A : Img R d) : A.Equiv A := ⟨rfl, rfl, fun _ _ _ _ => rfl⟩

theorem Img.Equiv.symm {A B : Img R d} (h : A.Equiv B) : B.Equiv A :=
  ⟨h.1.symm, h.2.1.symm, fun y hy n hn =>
    (h.2.2 y (h.1 ▸ hy) n (h.2.1 ▸ hn)).symm⟩

theorem Img.Equiv.trans {A B C : Img R d} (h1 : A.Equiv B) (h2 : B.Equiv C) : A.Equiv C :=
  ⟨h1.1.trans h2.1, h1.2.1.trans h2.2.1,
    fun y hy n hn => (h1.2.2 y hy n hn).trans (h2.2.2 y (h1.1 ▸ hy) n (h1.2.1 ▸ hn))⟩

/-! ### laws on the permute-and-flip form -/

section PF
variable [CommRing R]

theorem tge_seq_pf (g : SP d) (p : Nat) (A : Img R d) :
    (tge g.mat p A).SEq (pf g ((det g.mat) ^ p) A) := tge_eq_pf g p A

/-- `pf` respects strong equality (the fetched pixel lies in the source box). -/
theorem pf_congr (g : SP d) (c : Int) {A B : Img R d} (h : A.SEq B) :
    (pf g c A).SEq (pf g c B) := by
  refine ⟨by simp only [pf, h.1], h.2.1, ?_⟩
  intro y hy n
  simp only [pf]
  have hy' : InBox A.dims (g.srcPix (fun i => A.dims (g.σ i)) y) := srcPix_inBox g A.dims y hy
  rw [h.2.2 _ hy' (n.map g.σ), h.1]

theorem pf_one (A : Img R d) : (pf SP.one 1 A).SEq A := by
  refine ⟨rfl, rfl, ?_⟩
  intro y _ n
  simp only [pf, SP.sgn_one, SP.map_one, SP.one_σ, SP.srcPix_one]
  simp

theorem pf_mul (g h : SP d) (c c' : Int) (A : Img R d) :
    (pf g c (pf h c' A)).SEq (pf (g.mul h) (c * c') A) := by
  refine ⟨rfl, rfl, ?_⟩
  intro y _ n
  simp only [pf, SP.sgn_mul, SP.map_mul, SP.mul_σ, SP.srcPix_mul]
  push_cast
  ring

end PF

/-! ### transfer to the model `tge` -/

section Laws
variable [CommRing R]

/-- `tge` respects strong equality. -/
theorem tge_congr (g : SP d) (p : Nat) {A B : Img R d} (h : A.SEq B) :
    (tge g.mat p A).SEq (tge g.mat p B) :=
  (tge_seq_pf g p A).trans ((pf_congr g _ h).trans (tge_seq_pf g p B).symm)

theorem tge_one (p : Nat) (A : Img R d) : (tge (Mat.one d) p A).SEq A := by
  rw [← SP.mat_one]
  refine (tge_seq_pf SP.one p A).trans ?_
  rw [SP.det_one', one_pow]
  exact pf_one A

theorem tge_mul (g h : SP d) (p : Nat) (A : Img R d) :
    (tge (Mat.mul g.mat h.mat) p A).SEq (tge g.mat p (tge h.mat p A)) := by
  rw [← SP.mat_mul]
  refine (tge_seq_pf (g.mul h) p A).trans ?_
  refine Img.SEq.symm ?_
  refine (tge_congr g p (tge_seq_pf h p A)).trans ?_
  refine (tge_seq_pf g p _).trans ?_
  rw [SP.det_mul', mul_pow]
  exact pf_mul g h _ _ A

/-- the transpose (= inverse) undoes the action -/
theorem tge_transpose_cancel (g : SP d) (p : Nat) (A : Img R d) :
    (tge (Mat.transpose g.mat) p (tge g.mat p A)).SEq A := by
  rw [← SP.mat_inv]
  refine (tge_mul g.inv g p A).symm.trans ?_
  rw [← SP.mat_mul, SP.inv_mul, SP.mat_one]
  exact tge_one p A

theorem tge_cancel_transpose (g : SP d) (p : Nat) (A : Img R d) :
    (tge g.mat p (tge (Mat.transpose g.mat) p A)).SEq A := by
  rw [← SP.mat_inv]
  refine (tge_mul g g.inv p A).symm.trans ?_
  rw [← SP.mat_mul, SP.mul_inv, SP.mat_one]
  exact tge_one p A

end Laws

/-! ### linearity (holds for every matrix, not only signed permutations) -/

section Linear
variable [CommRing R]

theorem tactL_add (M : Mat d) (n : List (Fin d)) (u v : List (Fin d) → R) :
    tactL M n (fun j => u j + v j) = tactL M n u + tactL M n v := by
  induction n generalizing u v with
  | nil => rfl
  | cons m n ih =>
    simp only [tactL, sumFin_eq, ih, mul_add, Finset.sum_add_distrib]

theorem tactL_smul (M : Mat d) (n : List (Fin d)) (c : R) (v : List (Fin d) → R) :
    tactL M n (fun j => c * v j) = c * tactL M n v := by
  induction n generalizing v with
  | nil => rfl
  | cons m n ih =>
    simp only [tactL, sumFin_eq, ih, Finset.mul_sum]
    refine Finset.sum_congr rfl (fun a _ => ?_)
    ring

/-- pointwise sum of two images of the same extents -/
def Img.add (A B : Img R d) : Img R d :=
  { dims := A.dims, k := A.k, val := fun y n => A.val y n + B.val y n }

def Img.smul (c : R) (A : Img R d) : Img R d :=
  { dims := A.dims, k := A.k, val := fun y n => c * A.val y n }

theorem tge_add (M : Mat d) (p : Nat) (A B : Img R d) (hd : A.dims = B.dims) :
    tge M p (A.add B) = (tge M p A).add (tge M p B) := by
  simp only [tge, Img.add, tactL_add, mul_add, hd]

theorem tge_smul (M : Mat d) (p : Nat) (c : R) (A : Img R d) :
    tge M p (Img.smul c A) = Img.smul c (tge M p A) := by
  simp only [tge, Img.smul, tactL_smul]
  congr 1
  funext y n
  ring

end Linear

/-! ### the pixel map is a bijection between the boxes -/

theorem srcPix_left_inv (g : SP d) (N : Fin d → Nat) (y : Fin d → Int) :
    g.inv.srcPix N (g.srcPix (fun i => N (g.σ i)) y) = y := by
  funext j
  simp only [SP.srcPix, SP.inv_σ_symm, SP.inv_s, Equiv.symm_apply_apply]
  rcases g.hs j with a | a <;> simp [a]

theorem srcPix_right_inv (g : SP d) (N : Fin d → Nat) (z : Fin d → Int) :
    g.srcPix (fun i => N (g.σ i)) (g.inv.srcPix N z) = z := by
  funext j
  simp only [SP.srcPix, SP.inv_σ_symm, SP.inv_s, Equiv.apply_symm_apply]
  rcases g.hs (g.σ.symm j) with a | a <;> simp [a]

theorem inv_srcPix_inBox (g : SP d) (N : Fin d → Nat) (z : Fin d → Int) (hz : InBox N z) :
    InBox (fun i => N (g.σ i)) (g.inv.srcPix N z) := by
  intro j
  have := hz (g.σ j)
  simp only [SP.srcPix, SP.inv_σ_symm, SP.inv_s, Equiv.symm_apply_apply]
  split <;> constructor <;> omega

/-- **the pixel map of `g` is a bijection from the box of the transformed image onto the box of
the source image** -/
theorem srcPix_bijOn (g : SP d) (N : Fin d → Nat) :
    Set.BijOn (g.srcPix (fun i => N (g.σ i))) {y | InBox (fun i => N (g.σ i)) y} {z | InBox N z} := by
  refine ⟨fun y hy => srcPix_inBox g N y hy, ?_, ?_⟩
  · intro y _ y' _ h
    have := congrArg (g.inv.srcPix N) h
    rwa [srcPix_left_inv, srcPix_left_inv] at this
  · intro z hz
    exact ⟨g.inv.srcPix N z, inv_srcPix_inBox g N z hz, srcPix_right_inv g N z⟩

/-! ### the pixel-wise squared Frobenius norm is preserved -/

theorem sumIdx_congr [AddCommMonoid R] (k : Nat) (f f' : List (Fin d) → R) (h : ∀ n, f n = f' n) :
    sumIdx d k f = sumIdx d k f' := by
  have : f = f' := funext h
  rw [this]

theorem sumIdx_map [AddCommMonoid R] (σ : Equiv.Perm (Fin d)) (k : Nat) (f : List (Fin d) → R) :
    sumIdx d k (fun n => f (n.map σ)) = sumIdx d k f := by
  induction k generalizing f with
  | zero => rfl
  | succ k ih =>
    simp only [sumIdx, sumFin_eq, List.map_cons]
    have : ∀ a, sumIdx d k (fun n => f (σ a :: List.map (⇑σ) n)) = sumIdx d k (fun m => f (σ a :: m)) :=
      fun a => ih (fun m => f (σ a :: m))
    simp only [this]
    exact Equiv.sum_comp σ (fun b => sumIdx d k (fun m => f (b :: m)))

theorem normSq_tge [CommRing R] (g : SP d) (p : Nat) (A : Img R d) (y : Fin d → Int)
    (hy : InBox (tge g.mat p A).dims y) :
    normSq (tge g.mat p A) y = normSq A (g.srcPix (fun i => A.dims (g.σ i)) y) := by
  have h := (tge_seq_pf g p A).2.2 y hy
  unfold normSq
  have hk : (tge g.mat p A).k = A.k := rfl
  rw [hk]
  rw [← sumIdx_map g.σ A.k (fun n => A.val (g.srcPix (fun i => A.dims (g.σ i)) y) n *
      A.val (g.srcPix (fun i => A.dims (g.σ i)) y) n)]
  apply sumIdx_congr
  intro n
  rw [h n]
  simp only [pf]
  have h1 : (((det g.mat ^ p : Int) : R)) * ((det g.mat ^ p : Int) : R) = 1 := by
    rw [← Int.cast_mul, SP.det_pow_mul_self]; simp
  have h2 : ((g.sgn n : Int) : R) * ((g.sgn n : Int) : R) = 1 := by
    rw [← Int.cast_mul, SP.sgn_mul_self]; simp
  calc _ = ((((det g.mat ^ p : Int) : R)) * ((det g.mat ^ p : Int) : R)) *
            (((g.sgn n : Int) : R) * ((g.sgn n : Int) : R)) *
            (A.val (g.srcPix (fun i => A.dims (g.σ i)) y) (n.map g.σ) *
             A.val (g.srcPix (fun i => A.dims (g.σ i)) y) (n.map g.σ)) := by ring
    _ = _ := by rw [h1, h2]; ring

/-! ### per-axis metadata travels with the axes -/

theorem argmaxAbs_go_zero : ∀ (n : Nat) (f : Fin n → Int), (∀ j, f j = 0) →
    argmaxAbs.go n f = (if h : 0 < n then some (⟨0, h⟩, 0) else none)
  | 0, _, _ => rfl
  | n + 1, f, hf => by
    have ih := argmaxAbs_go_zero n (fun i => f i.succ) (fun j => hf _)
    simp only [argmaxAbs.go, ih, hf 0]
    by_cases hn : 0 < n
    · simp [hn]
    · simp [hn]

theorem argmaxAbs_go_unit : ∀ (n : Nat) (f : Fin n → Int) (j0 : Fin n),
    (f j0).natAbs = 1 → (∀ j, j ≠ j0 → f j = 0) → argmaxAbs.go n f = some (j0, 1)
  | 0, _, j0, _, _ => j0.elim0
  | n + 1, f, j0, h1, h0 => by
    induction j0 using Fin.cases with
    | zero =>
      have hz := argmaxAbs_go_zero n (fun i => f i.succ) (fun j => h0 _ (Fin.succ_ne_zero j))
      simp only [argmaxAbs.go, hz, h1]
      by_cases hn : 0 < n
      · simp [hn]
      · simp [hn]
    | succ j' =>
      have ih := argmaxAbs_go_unit n (fun i => f i.succ) j' h1
        (fun j hj => h0 _ (fun h => hj (Fin.succ_injective _ h)))
      have hf0 : f 0 = 0 := h0 0 (Fin.succ_ne_zero j').symm
      simp only [argmaxAbs.go, ih, hf0]
      simp

theorem transport_mat {α : Type} (g : SP d) (old : Fin d → α) (i : Fin d) :
    transport g.mat old i = old (g.σ i) := by
  have : argmaxAbs (g.mat i) = some (g.σ i) := by
    unfold argmaxAbs
    rw [argmaxAbs_go_unit d (g.mat i) (g.σ i)]
    · rfl
    · simp [SP.mat_apply, g.s_natAbs]
    · intro j hj; simp [SP.mat_apply, hj]
  simp only [transport, this]

end GinjaxVerif
