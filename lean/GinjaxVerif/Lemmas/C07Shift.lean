import GinjaxVerif.Lemmas.C07Build

/-!
# C07 — cyclic translations: networks without pooling and without image dilation commute with every
cyclic shift along the toroidal axes

The relation `SRel s x' x` says that `x'` is (extensionally) `x` rolled by `s` on the toroidal axes.
The convolution node is discharged by C06's `layerSpec_shift`; normalisation needs the invariance of
the statistics (box sums are invariant under the shift, `sumBox_shift`); the vector-neuron
nonlinearity, `+` and `concat` are pointwise in the pixel.

The blockwise lemmas are stated for an arbitrary pixel map `sh` that preserves the box and all box
sums.
-/
namespace GinjaxVerif.C07

open GinjaxVerif GinjaxVerif.C20 GinjaxVerif.Layer

variable {R : Type} {d : Nat}

/-- `B'` is `B` read through the pixel map `sh` (on its channels, its box, its tensor order) -/
def ShBlk (sh : Pix d → Pix d) (B' B : Blk R d) : Prop :=
  B'.C = B.C ∧ B'.dims = B.dims ∧ B'.k = B.k ∧
    ∀ c, c < B.C → ∀ y, InBox B.dims y → ∀ n : List (Fin d), n.length = B.k →
      B'.val c y n = B.val c (sh y) n

/-- what is used about the shift: it maps the box to itself and leaves every box sum unchanged -/
structure BoxShift [AddCommMonoid R] (N : Fin d → Nat) (sh : Pix d → Pix d) : Prop where
  box : ∀ y, InBox N y → InBox N (sh y)
  sum : ∀ f : Pix d → R, sumBox N (fun y => f (sh y)) = sumBox N f

section Stats
variable [Field R]

theorem grpSum_sh (N : Fin d → Nat) (sh : Pix d → Pix d) (hs : BoxShift (R := R) N sh)
    (cpg grp C : Nat) (hr : ∀ c', c' < cpg → grp * cpg + c' < C) (f f' : Nat → Pix d → R)
    (h : ∀ ch, ch < C → ∀ y, InBox N y → f' ch y = f ch (sh y)) :
    grpSum N cpg grp f' = grpSum N cpg grp f := by
  unfold grpSum
  apply sumFin_congr_fin
  intro c'
  rw [← hs.sum (fun y => f (grp * cpg + c'.val) y)]
  exact sumBox_congr_inBox _ _ _ (fun y hy => h _ (hr c'.val c'.isLt) y hy)

theorem grpMean_sh (sh : Pix d → Pix d) (B B' : Blk R d) (hs : BoxShift (R := R) B.dims sh)
    (h : ShBlk sh B' B) (cpg grp : Nat) (hr : ∀ c', c' < cpg → grp * cpg + c' < B.C)
    (n : List (Fin d)) (hn : n.length = B.k) : grpMean B' cpg grp n = grpMean B cpg grp n := by
  obtain ⟨_, hd, _, hv⟩ := h
  unfold grpMean
  rw [hd, grpSum_sh B.dims sh hs cpg grp B.C hr (fun c y => B.val c y n) (fun c y => B'.val c y n)
    (fun ch hch y hy => hv ch hch y hy n hn)]

theorem chanMean_sh (sh : Pix d → Pix d) (B B' : Blk R d) (hs : BoxShift (R := R) B.dims sh)
    (h : ShBlk sh B' B) (ch : Nat) (hch : ch < B.C) (n : List (Fin d)) (hn : n.length = B.k) :
    chanMean B' ch n = chanMean B ch n := by
  obtain ⟨_, hd, _, hv⟩ := h
  unfold chanMean
  rw [hd, ← hs.sum (fun y => B.val ch y n)]
  congr 1
  exact sumBox_congr_inBox _ _ _ (fun y hy => hv ch hch y hy n hn)

theorem grpVar_sh (sh : Pix d → Pix d) (B B' : Blk R d) (hs : BoxShift (R := R) B.dims sh)
    (hk0 : B.k = 0) (h : ShBlk sh B' B) (cpg grp : Nat)
    (hr : ∀ c', c' < cpg → grp * cpg + c' < B.C) : grpVar B' cpg grp = grpVar B cpg grp := by
  have hm := grpMean_sh sh B B' hs h cpg grp hr [] (by simp [hk0])
  obtain ⟨_, hd, _, hv⟩ := h
  unfold grpVar
  rw [hm, hd, grpSum_sh B.dims sh hs cpg grp B.C hr
    (fun c y => (B.val c y [] - grpMean B cpg grp []) * (B.val c y [] - grpMean B cpg grp []))]
  intro ch hch y hy
  rw [hv ch hch y hy [] (by simp [hk0])]

theorem grpCov_sh (sh : Pix d → Pix d) (B B' : Blk R d) (hs : BoxShift (R := R) B.dims sh)
    (hk1 : B.k = 1) (h : ShBlk sh B' B) (cpg grp : Nat)
    (hr : ∀ c', c' < cpg → grp * cpg + c' < B.C) : grpCov B' cpg grp = grpCov B cpg grp := by
  funext i j
  have hmi := grpMean_sh sh B B' hs h cpg grp hr [i] (by simp [hk1])
  have hmj := grpMean_sh sh B B' hs h cpg grp hr [j] (by simp [hk1])
  obtain ⟨_, hd, _, hv⟩ := h
  unfold grpCov
  rw [hmi, hmj, hd, grpSum_sh B.dims sh hs cpg grp B.C hr
    (fun c y => (B.val c y [i] - grpMean B cpg grp [i]) * (B.val c y [j] - grpMean B cpg grp [j]))]
  intro ch hch y hy
  rw [hv ch hch y hy [i] (by simp [hk1]), hv ch hch y hy [j] (by simp [hk1])]

theorem one_group_range (C c : Nat) (hc : c < C) : ∀ c', c' < C / 1 → c / (C / 1) * (C / 1) + c' < C := by
  intro c' hc'
  rw [Nat.div_one] at hc' ⊢
  rw [Nat.div_eq_of_lt hc]
  omega

/-! ### the three normalisations with one group -/

theorem groupNormScalar_sh (rsqrt max0 : R → R) (eps : R) (weight bias : Nat → R)
    (sh : Pix d → Pix d) (B B' : Blk R d) (hs : BoxShift (R := R) B.dims sh) (hk0 : B.k = 0)
    (h : ShBlk sh B' B) :
    ShBlk sh (groupNormScalar rsqrt max0 eps 1 weight bias B')
      (groupNormScalar rsqrt max0 eps 1 weight bias B) := by
  have h0 := h
  obtain ⟨hC, hd, hk, hv⟩ := h
  refine ⟨hC, hd, hk, ?_⟩
  intro c hc y hy n hn
  have hn0 : n = [] := List.eq_nil_of_length_eq_zero (by rw [hn]; exact hk0)
  subst hn0
  have hr := one_group_range B.C c hc
  have hm := grpMean_sh sh B B' hs h0 (B.C / 1) (c / (B.C / 1)) hr [] (by simp [hk0])
  have hvar := grpVar_sh sh B B' hs hk0 h0 (B.C / 1) (c / (B.C / 1)) hr
  show weight c * ((B'.val c y [] - grpMean B' (B'.C / 1) (c / (B'.C / 1)) [])
      * rsqrt (max0 (grpVar B' (B'.C / 1) (c / (B'.C / 1))) + eps)) + bias c
    = weight c * ((B.val c (sh y) [] - grpMean B (B.C / 1) (c / (B.C / 1)) [])
      * rsqrt (max0 (grpVar B (B.C / 1) (c / (B.C / 1))) + eps)) + bias c
  rw [hC, hm, hvar, hv c hc y hy [] hn]

theorem groupNormPseudo_sh (rsqrt max0 : R → R) (eps : R) (scale : Nat → R)
    (sh : Pix d → Pix d) (B B' : Blk R d) (hs : BoxShift (R := R) B.dims sh) (hk0 : B.k = 0)
    (h : ShBlk sh B' B) :
    ShBlk sh (groupNormPseudo rsqrt max0 eps 1 scale B') (groupNormPseudo rsqrt max0 eps 1 scale B) := by
  have h0 := h
  obtain ⟨hC, hd, hk, hv⟩ := h
  refine ⟨hC, hd, hk, ?_⟩
  intro c hc y hy n hn
  have hn0 : n = [] := List.eq_nil_of_length_eq_zero (by rw [hn]; exact hk0)
  subst hn0
  have hr := one_group_range B.C c hc
  have hm := grpMean_sh sh B B' hs h0 (B.C / 1) (c / (B.C / 1)) hr [] (by simp [hk0])
  have hvar := grpVar_sh sh B B' hs hk0 h0 (B.C / 1) (c / (B.C / 1)) hr
  show ((B'.val c y [] - grpMean B' (B'.C / 1) (c / (B'.C / 1)) [])
      * rsqrt (max0 (grpVar B' (B'.C / 1) (c / (B'.C / 1))) + eps)) * scale c
    = ((B.val c (sh y) [] - grpMean B (B.C / 1) (c / (B.C / 1)) [])
      * rsqrt (max0 (grpVar B (B.C / 1) (c / (B.C / 1))) + eps)) * scale c
  rw [hC, hm, hvar, hv c hc y hy [] hn]

theorem groupNormVector_sh (S : RMat R d → RMat R d) (eps : R) (scale bias : Nat → R)
    (sh : Pix d → Pix d) (B B' : Blk R d) (hs : BoxShift (R := R) B.dims sh) (hk1 : B.k = 1)
    (h : ShBlk sh B' B) :
    ShBlk sh (groupNormVector S eps 1 scale bias B') (groupNormVector S eps 1 scale bias B) := by
  have h0 := h
  obtain ⟨hC, hd, hk, hv⟩ := h
  refine ⟨hC, hd, hk, ?_⟩
  intro c hc y hy n hn
  have hn1 : n.length = 1 := by rw [hn]; exact hk1
  obtain ⟨i, rfl⟩ := List.length_eq_one_iff.mp hn1
  have hr := one_group_range B.C c hc
  have hcov := grpCov_sh sh B B' hs hk1 h0 (B.C / 1) (c / (B.C / 1)) hr
  have hmean : ∀ l, grpMean B' (B.C / 1) (c / (B.C / 1)) [l] = grpMean B (B.C / 1) (c / (B.C / 1)) [l] :=
    fun l => grpMean_sh sh B B' hs h0 (B.C / 1) (c / (B.C / 1)) hr [l] (by simp [hk1])
  have hcm := chanMean_sh sh B B' hs h0 c hc [i] hn
  show (sumFin d (fun l => S (addEps eps (grpCov B' (B'.C / 1) (c / (B'.C / 1)))) i l *
        (B'.val c y [l] - grpMean B' (B'.C / 1) (c / (B'.C / 1)) [l]))) * scale c
      + bias c * chanMean B' c [i]
    = (sumFin d (fun l => S (addEps eps (grpCov B (B.C / 1) (c / (B.C / 1)))) i l *
        (B.val c (sh y) [l] - grpMean B (B.C / 1) (c / (B.C / 1)) [l]))) * scale c
      + bias c * chanMean B c [i]
  rw [hC, hcov, hcm]
  congr 2
  apply sumFin_congr_fin
  intro l
  rw [hmean l, hv c hc y hy [l] (by simp [hk1])]

/-! ### the vector-neuron nonlinearity is pointwise in the pixel -/

theorem vnDir_sh (W : Nat → Nat → R) (sh : Pix d → Pix d) (B B' : Blk R d) (h : ShBlk sh B' B)
    (c : Nat) (y : Pix d) (hy : InBox B.dims y) (n : List (Fin d)) (hn : n.length = B.k) :
    vnDir W B' c y n = vnDir W B c (sh y) n := by
  obtain ⟨hC, _, _, hv⟩ := h
  unfold vnDir
  rw [hC]
  apply sumFin_congr_fin
  intro j
  rw [hv j.val j.isLt y hy n hn]

theorem vnNonlinear_sh (sqrtF absF act : R → R) (eps : R) (W : Nat → Nat → R) (sh : Pix d → Pix d)
    (B B' : Blk R d) (h : ShBlk sh B' B) :
    ShBlk sh (vnNonlinear sqrtF absF act eps W B') (vnNonlinear sqrtF absF act eps W B) := by
  have h0 := h
  obtain ⟨hC, hd, hk, hv⟩ := h
  refine ⟨hC, hd, hk, ?_⟩
  intro c hc y hy n hn
  have hk' : B'.k = B.k := hk
  have hdir : ∀ m : List (Fin d), m.length = B.k → vnDir W B' c y m = vnDir W B c (sh y) m :=
    fun m hm => vnDir_sh W sh B B' h0 c y hy m hm
  have hnorm : sumIdx d B'.k (fun m => vnDir W B' c y m * vnDir W B' c y m)
      = sumIdx d B.k (fun m => vnDir W B c (sh y) m * vnDir W B c (sh y) m) := by
    rw [hk']
    apply sumIdx_congr_len
    intro m hm
    rw [hdir m hm]
  have hhat : ∀ m : List (Fin d), m.length = B.k →
      vnDirHat sqrtF eps W B' c y m = vnDirHat sqrtF eps W B c (sh y) m := by
    intro m hm
    unfold vnDirHat
    rw [hnorm, hdir m hm]
  have hin : vnInner sqrtF eps W B' c y = vnInner sqrtF eps W B c (sh y) := by
    unfold vnInner
    rw [hk']
    apply sumIdx_congr_len
    intro m hm
    rw [hhat m hm, hv c hc y hy m hm]
  show act (vnInner sqrtF eps W B' c y) / (absF (vnInner sqrtF eps W B' c y) + eps)
        * (vnInner sqrtF eps W B' c y * vnDirHat sqrtF eps W B' c y n)
      + (B'.val c y n - vnInner sqrtF eps W B' c y * vnDirHat sqrtF eps W B' c y n)
    = act (vnInner sqrtF eps W B c (sh y)) / (absF (vnInner sqrtF eps W B c (sh y)) + eps)
        * (vnInner sqrtF eps W B c (sh y) * vnDirHat sqrtF eps W B c (sh y) n)
      + (B.val c (sh y) n - vnInner sqrtF eps W B c (sh y) * vnDirHat sqrtF eps W B c (sh y) n)
  rw [hin, hhat n hn, hv c hc y hy n hn]

omit [Field R] in
theorem vnScalar_sh (act : R → R) (sh : Pix d → Pix d) (B B' : Blk R d) (h : ShBlk sh B' B) :
    ShBlk sh (vnScalar act B') (vnScalar act B) := by
  obtain ⟨hC, hd, hk, hv⟩ := h
  refine ⟨hC, hd, hk, ?_⟩
  intro c hc y hy n hn
  show act (B'.val c y n) = act (B.val c (sh y) n)
  rw [hv c hc y hy n hn]

end Stats

/-! ### multi-images -/

/-- `b'` is `b` read through `sh`, both of declared type `t` -/
def SBRel (sh : Pix d → Pix d) (t : Ty) (b' b : Block R d) : Prop := ShBlk sh (toBlk t b') (toBlk t b)

/-- **`x'` is `x` rolled by `s` along the toroidal axes** (extensionally) -/
structure SRel (s : Pix d) (x' x : MI R d) : Prop where
  dims : x'.dims = x.dims
  torus : x'.torus = x.torus
  blocks : List.Forall₂ (fun e' e => e'.1 = e.1 ∧ SBRel (shiftPix x.dims x.torus s) e.1 e'.2 e.2)
    x'.blocks x.blocks

/-- the rolled multi-image itself -/
def roll (s : Pix d) (x : MI R d) : MI R d :=
  { x with blocks := shiftMI x.dims x.torus s x.blocks }

theorem srel_roll (s : Pix d) (x : MI R d) : SRel s (roll s x) x := by
  refine ⟨rfl, rfl, ?_⟩
  show List.Forall₂ _ (List.map _ x.blocks) x.blocks
  rw [List.forall₂_map_left_iff, List.forall₂_same]
  intro e _
  exact ⟨rfl, rfl, rfl, rfl, fun _ _ _ _ _ _ => rfl⟩

theorem boxShift_shiftPix [CommRing R] (N : Fin d → Nat) (tor : Fin d → Bool) (s : Pix d)
    (hN : ∀ j, 0 < N j) : BoxShift (R := R) N (shiftPix N tor s) :=
  ⟨fun y hy => shiftPix_inBox N N tor s (fun j _ => ⟨rfl, hN j⟩) y hy,
   fun f => sumBox_shift N N tor s (fun j _ => ⟨rfl, hN j⟩) f⟩

section MIs

theorem SRel.sigOf {s : Pix d} {x' x : MI R d} (h : SRel s x' x) : sigOf x'.blocks = sigOf x.blocks := by
  obtain ⟨_, _, hb⟩ := h
  generalize x'.blocks = l' at hb
  generalize x.blocks = l at hb
  induction hb with
  | nil => rfl
  | cons hab _ ih =>
    obtain ⟨hk, hC, _⟩ := hab
    simp only [Layer.sigOf, List.map_cons] at ih ⊢
    rw [ih]
    congr 1
    exact Prod.ext hk hC

theorem forall2_map_sh (sh : Pix d → Pix d) (f : Ty → Block R d → Block R d) :
    ∀ (l' l : MImg R d), List.Forall₂ (fun e' e => e'.1 = e.1 ∧ SBRel sh e.1 e'.2 e.2) l' l →
      (∀ t b' b, (t, b) ∈ l → SBRel sh t b' b → SBRel sh t (f t b') (f t b)) →
      List.Forall₂ (fun e' e => e'.1 = e.1 ∧ SBRel sh e.1 e'.2 e.2)
        (l'.map (fun e => (e.1, f e.1 e.2))) (l.map (fun e => (e.1, f e.1 e.2))) := by
  intro l' l h
  induction h with
  | nil => intro _; exact List.Forall₂.nil
  | @cons e' e r' r hab _ ih =>
    intro hf
    obtain ⟨hk, hb⟩ := hab
    refine List.Forall₂.cons ⟨hk, ?_⟩ (ih (fun t b' b hm => hf t b' b (List.mem_cons_of_mem _ hm)))
    simp only
    rw [hk]
    exact hf e.1 e'.2 e.2 (by simp) hb

theorem lookup_sh (sh : Pix d → Pix d) :
    ∀ (l' l : MImg R d), List.Forall₂ (fun e' e => e'.1 = e.1 ∧ SBRel sh e.1 e'.2 e.2) l' l → ∀ t,
      (Layer.lookup l' t = none ∧ Layer.lookup l t = none) ∨
        ∃ b' b, Layer.lookup l' t = some b' ∧ Layer.lookup l t = some b ∧ SBRel sh t b' b := by
  intro l' l h t
  induction h with
  | nil => exact Or.inl ⟨rfl, rfl⟩
  | @cons e' e r' r hab _ ih =>
    obtain ⟨k', v'⟩ := e'
    obtain ⟨k, v⟩ := e
    obtain ⟨hk, hb⟩ := hab
    simp only at hk hb
    subst hk
    by_cases hkt : k' = t
    · subst hkt
      exact Or.inr ⟨v', v, by simp [Layer.lookup], by simp [Layer.lookup], hb⟩
    · simpa [Layer.lookup, hkt] using ih

end MIs

/-! ### the nodes -/

section Nodes
variable [Field R]

omit [Field R] in
theorem sameOn_of_srel (N : Fin d → Nat) (tor : Fin d → Bool) (s : Pix d) :
    ∀ (l' l : MImg R d),
      List.Forall₂ (fun e' e => e'.1 = e.1 ∧ SBRel (shiftPix N tor s) e.1 e'.2 e.2) l' l →
      (∀ e ∈ l, e.2.dims = N) → SameOn N l' (shiftMI N tor s l) := by
  intro l' l h
  unfold SameOn shiftMI
  induction h with
  | nil => intro _; exact List.Forall₂.nil
  | @cons e' e r' r hab _ ih =>
    intro hx
    obtain ⟨hk, hC, _, _, hv⟩ := hab
    refine List.Forall₂.cons ⟨hk, hC, ?_⟩ (ih (fun a ha => hx a (List.mem_cons_of_mem _ ha)))
    intro ch hch y hyb T hT
    exact hv ch hch y (by show InBox e.2.dims y; rw [hx e (by simp)]; exact hyb) T hT

/-- the default padding on a toroidal axis is the TORUS wrap -/
theorem dispatch_none_torus (torus : Fin d → Bool) (N : Fin d → Nat) (M rd : Nat) (hM : M % 2 = 1)
    (hN : ∀ j, 0 < N j) (ax : Fin d → AxisOpt)
    (h : dispatch .none torus N (fun _ => M) (fun _ => 1) (fun _ => rd) (fun _ => 1) = some ax)
    (j : Fin d) (hj : torus j = true) : (ax j).TorusAxis := by
  have hany : (List.finRange d).any torus = true :=
    List.any_eq_true.2 ⟨j, List.mem_finRange j, hj⟩
  have h1 : (List.finRange d).any (fun _ => decide (M % 2 = 0)) = false := by
    rw [List.any_eq_false]; intro _ _; simp [hM]
  simp only [dispatch, modeNeedsOdd, Bool.true_and, h1] at h
  rw [if_neg (by simp)] at h
  split at h
  · cases h
    simp only [dispatchAxis, hany, hj, if_true]
    exact ⟨rfl, rfl, rfl, rfl, hN j, hM, rfl⟩
  · cases h

theorem evalConv_sh (s : Pix d) (c : ConvSpec R d) (x x' y : MI R d) (hx : x.Consistent)
    (hrel : SRel s x' x) (hpad : c.pad = .none) (hst : c.stride = 1) (hld : c.ld = 1)
    (hM : c.M % 2 = 1) (hN : ∀ j, 0 < x.dims j) (hn : KeysNodup c.target)
    (hy : evalConv c x = some y) :
    (∃ y', evalConv c x' = some y' ∧ SRel s y' y) ∧ y.dims = x.dims := by
  obtain ⟨hd', ht', hb'⟩ := hrel
  have hsig : sigOf x'.blocks = sigOf x.blocks := SRel.sigOf ⟨hd', ht', hb'⟩
  unfold evalConv at hy ⊢
  rw [hd', ht']
  cases hdis : c.dispatch x.torus x.dims with
  | none => rw [hdis] at hy; cases hy
  | some ax =>
    rw [hdis] at hy
    simp only at hy ⊢
    have hdis0 : dispatch .none x.torus x.dims (fun _ => c.M) (fun _ => 1) (fun _ => c.rd) (fun _ => 1)
        = some ax := by
      have := hdis
      unfold ConvSpec.dispatch at this
      rw [hpad, hst, hld] at this
      exact this
    obtain ⟨ax0, hax0, hfacts⟩ := dispatch_none_some x.torus x.dims c.M c.rd hM
    rw [hdis0] at hax0
    cases hax0
    have hout : ∀ j, (ax j).outLen = x.dims j := fun j => by
      obtain ⟨h1, h2, h3, h4, h5, h6⟩ := hfacts j
      exact (same_outLen (ax j) (x.dims j) c.M c.rd hM (hN j) h1 h2 h3 h4 h5 h6).1
    have hNax : (fun j => (ax j).N) = x.dims := funext (fun j => (hfacts j).1)
    split at hy
    · rename_i hacc
      cases hy
      set P := c.toParams ax (1 / ((boxCount (fun j => (ax j).outLen) : Nat) : R)) with hP
      have hacc' : accepts P c.declared x'.blocks = true := by
        rw [accepts_congr P P c.declared x.blocks x'.blocks rfl rfl hsig]; exact hacc
      rw [if_pos hacc']
      refine ⟨⟨_, rfl, ?_⟩, funext hout⟩
      have hod : (fun j => (ax j).outLen) = x.dims := funext hout
      refine ⟨rfl, rfl, ?_⟩
      -- keys of both outputs
      have hk1 := (C11.layer_keys P x.blocks hn).1
      have hk2 := (C11.layer_keys P x'.blocks hn).1
      have hkeys : sigOf (layerV P x'.blocks) = sigOf (layerV P x.blocks) := by
        rw [hk1, hk2, hsig]
      have hnd : ((layerV P x.blocks).map Prod.fst).Nodup := by
        have : (layerV P x.blocks).map Prod.fst = keysOf (sigOf (layerV P x.blocks)) := by
          simp [keysOf, sigOf, List.map_map, Function.comp_def]
        rw [this, hk1]
        exact List.Nodup.sublist (List.Sublist.map _ List.filter_sublist) hn
      have hfst : (layerV P x'.blocks).map Prod.fst = (layerV P x.blocks).map Prod.fst := by
        have := congrArg (List.map Prod.fst) hkeys
        simpa [sigOf, List.map_map, Function.comp_def] using this
      show List.Forall₂ (fun e' e => e'.1 = e.1 ∧
          SBRel (shiftPix (fun j => (ax j).outLen) x.torus s) e.1 e'.2 e.2)
        (layerV P x'.blocks) (layerV P x.blocks)
      apply forall2_of_lookup (fun t b' b => SBRel (shiftPix (fun j => (ax j).outLen) x.torus s) t b' b)
        _ _ hfst hnd
      intro t b' b hb1 hb2
      have hmem : (t, b.chans) ∈ sigOf (layerV P x.blocks) :=
        List.mem_map.2 ⟨(t, b), lookup_mem _ _ _ hb2, rfl⟩
      rw [hk1] at hmem
      have htar : (t, b.chans) ∈ c.target := ((mem_convContractOut _ _ _ _).1 hmem).1
      obtain ⟨_, h2⟩ := C11.layer_eq_spec P x.blocks hn t b.chans htar
      obtain ⟨_, h2'⟩ := C11.layer_eq_spec P x'.blocks hn t b.chans htar
      obtain ⟨_, d1, v1⟩ := h2 b hb2
      obtain ⟨c2, d2, v2⟩ := h2' b' hb1
      have htor : ∀ j, x.torus j = true → (P.ax j).TorusAxis := fun j hj =>
        dispatch_none_torus x.torus x.dims c.M c.rd hM hN ax hdis0 j hj
      have hNpos : ∀ j, 0 < (P.ax j).N := fun j => by
        show 0 < (ax j).N
        rw [(hfacts j).1]; exact hN j
      have hsame : SameOn (fun j => (P.ax j).N) x'.blocks
          (shiftMI (fun j => (P.ax j).N) x.torus s x.blocks) := by
        show SameOn (fun j => (ax j).N) x'.blocks (shiftMI (fun j => (ax j).N) x.torus s x.blocks)
        rw [hNax]
        exact sameOn_of_srel x.dims x.torus s _ _ hb' hx
      refine ⟨c2, d2.trans d1.symm, rfl, ?_⟩
      intro o ho i hi T hT
      have hT' : T.length = t.1 := hT
      have hi' : InBox (Layer.outDims P) i := by
        have : InBox b.dims i := hi
        rw [d1] at this; exact this
      show b'.val o i T = b.val o (shiftPix (fun j => (ax j).outLen) x.torus s i) T
      rw [v2 o ho i T hT', layerSpec_congr_rel P hNpos _ _ hsame t,
        layerSpec_shift P x.torus htor s x.blocks t o i hi' T,
        v1 o ho _ T hT', hod]
      show layerSpec P x.blocks t o (shiftPix (fun j => (ax j).N) x.torus s i) T = _
      rw [hNax]
    · cases hy

end Nodes

/-! ### blockwise nodes and `+` on multi-images -/

section Nodes2
variable [Field R]

theorem normBlock_sh (F : Fns R d) (n : NormSpec R) (sh : Pix d → Pix d) (t : Ty) (hk : t.1 ≤ 1)
    (b' b : Block R d) (hs : BoxShift (R := R) b.dims sh) (h : SBRel sh t b' b) :
    SBRel sh t (normBlock F n t b') (normBlock F n t b) := by
  unfold normBlock
  by_cases h0 : t = (0, 0)
  · subst h0
    simp only [if_true]
    unfold SBRel at h ⊢
    rw [toBlk_ofBlk _ _ rfl, toBlk_ofBlk _ _ rfl]
    exact groupNormScalar_sh F.rsqrt F.max0 n.eps _ _ sh _ _ hs rfl h
  · rw [if_neg h0, if_neg h0]
    by_cases h1 : t.1 = 0
    · rw [if_pos h1, if_pos h1]
      unfold SBRel at h ⊢
      rw [toBlk_ofBlk _ _ rfl, toBlk_ofBlk _ _ rfl]
      exact groupNormPseudo_sh F.rsqrt F.max0 n.eps _ sh _ _ hs h1 h
    · rw [if_neg h1, if_neg h1]
      unfold SBRel at h ⊢
      rw [toBlk_ofBlk _ _ rfl, toBlk_ofBlk _ _ rfl]
      have hk1 : (toBlk t b).k = 1 := by show t.1 = 1; omega
      exact groupNormVector_sh F.S n.eps _ _ sh _ _ hs hk1 h

theorem vnBlock_sh (F : Fns R d) (v : VNSpec R) (sh : Pix d → Pix d) (t : Ty) (b' b : Block R d)
    (h : SBRel sh t b' b) : SBRel sh t (vnBlock F v t b') (vnBlock F v t b) := by
  unfold vnBlock
  by_cases h0 : t = (0, 0)
  · subst h0
    simp only [if_true]
    unfold SBRel at h ⊢
    rw [toBlk_ofBlk _ _ rfl, toBlk_ofBlk _ _ rfl]
    exact vnScalar_sh F.act sh _ _ h
  · rw [if_neg h0, if_neg h0]
    unfold SBRel at h ⊢
    rw [toBlk_ofBlk _ _ rfl, toBlk_ofBlk _ _ rfl]
    exact vnNonlinear_sh F.sqrtF F.absF F.act v.eps (v.W t) sh _ _ h

theorem evalNorm_sh (F : Fns R d) (n : NormSpec R) (s : Pix d) (x x' y : MI R d) (hx : x.Consistent)
    (hN : ∀ j, 0 < x.dims j) (hrel : SRel s x' x) (hy : evalNorm F n x = some y) :
    ∃ y', evalNorm F n x' = some y' ∧ SRel s y' y := by
  have hsig := SRel.sigOf hrel
  obtain ⟨hd, ht, hb⟩ := hrel
  unfold evalNorm at hy ⊢
  rw [hsig]
  split at hy
  · rename_i hc
    cases hy
    rw [if_pos hc]
    refine ⟨_, rfl, hd, ht, ?_⟩
    simp only [Bool.and_eq_true] at hc
    apply forall2_map_sh _ (normBlock F n) _ _ hb
    intro t b' b hm hbr
    have h1 : n.declared.contains (t, b.chans) = true :=
      List.all_eq_true.1 hc.2 _ (mem_sigOf_of_mem hm)
    have h2 : (t, b.chans) ∈ n.declared := by simpa using h1
    have hk : t.1 ≤ 1 := by
      have := List.all_eq_true.1 hc.1 _ h2
      simpa using this
    have hbd : b.dims = x.dims := hx _ hm
    exact normBlock_sh F n _ t hk b' b (by rw [hbd]; exact boxShift_shiftPix x.dims x.torus s hN) hbr
  · cases hy

theorem evalVN_sh (F : Fns R d) (v : VNSpec R) (s : Pix d) (x x' y : MI R d) (hrel : SRel s x' x)
    (hy : evalVN F v x = some y) : ∃ y', evalVN F v x' = some y' ∧ SRel s y' y := by
  have hsig := SRel.sigOf hrel
  obtain ⟨hd, ht, hb⟩ := hrel
  unfold evalVN at hy ⊢
  rw [hsig]
  split at hy
  · rename_i hc
    cases hy
    rw [if_pos hc]
    exact ⟨_, rfl, hd, ht,
      forall2_map_sh _ (vnBlock F v) _ _ hb (fun t b' b _ hbr => vnBlock_sh F v _ t b' b hbr)⟩
  · cases hy

omit [Field R] in
theorem sumBlock_sh [Add R] (sh : Pix d → Pix d) (t : Ty) (a' a v' v : Block R d) (hc : v.chans = a.chans)
    (hdm : v.dims = a.dims) (ha : SBRel sh t a' a) (hv : SBRel sh t v' v) :
    SBRel sh t (sumBlock a' v') (sumBlock a v) := by
  obtain ⟨aC, ad, ak, av⟩ := ha
  obtain ⟨_, _, _, vv⟩ := hv
  refine ⟨aC, ad, ak, ?_⟩
  intro c hcl y hy T hT
  have hcl' : c < a.chans := hcl
  have hy' : InBox a.dims y := hy
  have q1 : a'.val c y T = a.val c (sh y) T := av c hcl y hy T hT
  have q2 : v'.val c y T = v.val c (sh y) T :=
    vv c (by show c < v.chans; omega) y (by show InBox v.dims y; rw [hdm]; exact hy') T hT
  show a'.val c y T + v'.val c y T = a.val c (sh y) T + v.val c (sh y) T
  rw [q1, q2]

theorem addMI_sh (s : Pix d) (a a' b b' : MI R d) (hdims : a.dims = b.dims) (ha : SRel s a' a)
    (hb : SRel s b' b) (y : MI R d) (hy : addMI a b = some y) :
    ∃ y', addMI a' b' = some y' ∧ SRel s y' y := by
  have hsa := SRel.sigOf ha
  have hsb := SRel.sigOf hb
  obtain ⟨had, hat, hab⟩ := ha
  obtain ⟨hbd, hbt, hbb⟩ := hb
  unfold addMI at hy ⊢
  rw [hsa, hsb]
  split at hy
  · rename_i hc
    cases hy
    simp only [Bool.and_eq_true] at hc
    obtain ⟨⟨h1, h2⟩, h3⟩ := hc
    have e1 : a.torus = b.torus := (sameFn_iff _ _).1 h1
    have c1 : sameFn a'.torus b'.torus = true := by rw [sameFn_iff, hat, hbt, e1]
    have hbb' : List.Forall₂ (fun e' e => e'.1 = e.1 ∧ SBRel (shiftPix a.dims a.torus s) e.1 e'.2 e.2)
        b'.blocks b.blocks := by rw [hdims, e1]; exact hbb
    have key : ∀ (l' l : MImg R d),
        List.Forall₂ (fun e' e => e'.1 = e.1 ∧ SBRel (shiftPix a.dims a.torus s) e.1 e'.2 e.2) l' l →
        l.all (addOk b.blocks) = true →
        l'.all (addOk b'.blocks) = true ∧
        List.Forall₂ (fun e' e => e'.1 = e.1 ∧ SBRel (shiftPix a.dims a.torus s) e.1 e'.2 e.2)
          (l'.map (addEntry b'.blocks)) (l.map (addEntry b.blocks)) := by
      intro l' l hl
      induction hl with
      | nil => intro _; exact ⟨rfl, List.Forall₂.nil⟩
      | @cons e' e r' r hee _ ih =>
        intro hall
        simp only [List.all_cons, Bool.and_eq_true] at hall
        obtain ⟨hhead, htail⟩ := hall
        obtain ⟨ih1, ih2⟩ := ih htail
        obtain ⟨hk, hbr⟩ := hee
        rcases lookup_sh _ _ _ hbb' e.1 with ⟨hn', hn⟩ | ⟨v', v, hv', hv, hvr⟩
        · unfold addOk at hhead; rw [hn] at hhead; cases hhead
        · unfold addOk at hhead; rw [hv] at hhead
          simp only [Bool.and_eq_true, beq_iff_eq] at hhead
          obtain ⟨q1, q2⟩ := hhead
          have q2' : v.dims = e.2.dims := (sameFn_iff _ _).1 q2
          have hC : e'.2.chans = e.2.chans := hbr.1
          have hD : e'.2.dims = e.2.dims := hbr.2.1
          have hvC : v'.chans = v.chans := hvr.1
          have hvD : v'.dims = v.dims := hvr.2.1
          refine ⟨?_, List.Forall₂.cons ⟨hk, ?_⟩ ih2⟩
          · simp only [List.all_cons, Bool.and_eq_true]
            refine ⟨?_, ih1⟩
            unfold addOk
            rw [hk, hv']
            simp only [Bool.and_eq_true, beq_iff_eq]
            exact ⟨by rw [hvC, q1, hC], by rw [sameFn_iff, hvD, q2', hD]⟩
          · unfold addEntry
            simp only
            rw [hk, hv', hv]
            exact sumBlock_sh _ e.1 e'.2 e.2 v' v q1 q2' hbr hvr
    obtain ⟨k1, k2⟩ := key _ _ hab h2
    rw [c1, k1, h3]
    simp only [Bool.and_self, if_true]
    exact ⟨_, rfl, had, hat, k2⟩
  · cases hy

end Nodes2

/-! ### the induction -/

/-- networks made of stride-1, undilated-image convolutions with odd filters and the inferred padding,
normalisations, nonlinearities and residual sums (no pooling, no up-convolution): the ResNets -/
def ShiftOK : Net R d → Prop
  | .identity => True
  | .convContract c => c.pad = .none ∧ c.stride = 1 ∧ c.ld = 1 ∧ c.M % 2 = 1 ∧ KeysNodup c.target
  | .layerNorm _ => True
  | .vnNonlinear _ => True
  | .maxNormPool _ => False
  | .seq a b => ShiftOK a ∧ ShiftOK b
  | .residual body => ShiftOK body
  | .skipConcat _ _ _ => False

/-- **such a network commutes with every cyclic translation along the toroidal axes** — for every
parameter value; no invariance of the bank is needed -/
theorem eval_shift [Field R] [LinearOrder R] (F : Fns R d) (s : Pix d) :
    ∀ (net : Net R d) (x x' y : MI R d), x.Consistent → (∀ j, 0 < x.dims j) → SRel s x' x →
      ShiftOK net → eval F net x = some y →
      (∃ y', eval F net x' = some y' ∧ SRel s y' y) ∧ y.dims = x.dims := by
  intro net
  induction net with
  | identity => intro x x' y _ _ hr _ h; cases h; exact ⟨⟨x', rfl, hr⟩, rfl⟩
  | convContract c =>
    intro x x' y hx hN hr hw h
    obtain ⟨w1, w2, w3, w4, w5⟩ := hw
    exact evalConv_sh s c x x' y hx hr w1 w2 w3 w4 hN w5 h
  | layerNorm n =>
    intro x x' y hx hN hr _ h
    refine ⟨evalNorm_sh F n s x x' y hx hN hr h, ?_⟩
    simp only [eval, evalNorm] at h
    split at h
    · cases h; rfl
    · cases h
  | vnNonlinear v =>
    intro x x' y _ _ hr _ h
    refine ⟨evalVN_sh F v s x x' y hr h, ?_⟩
    simp only [eval, evalVN] at h
    split at h
    · cases h; rfl
    · cases h
  | maxNormPool P => intro _ _ _ _ _ _ hw _; exact absurd hw (by simp [ShiftOK])
  | seq a b iha ihb =>
    intro x x' y hx hN hr hw h
    simp only [eval] at h ⊢
    cases hz : eval F a x with
    | none => rw [hz] at h; cases h
    | some z =>
      rw [hz] at h
      simp only [Option.bind_some] at h
      obtain ⟨⟨z', hz', rz⟩, zd⟩ := iha x x' z hx hN hr hw.1 hz
      obtain ⟨z1, _, _⟩ := eval_shape F a x z hx hz
      rw [hz']
      simp only [Option.bind_some]
      obtain ⟨r1, r2⟩ := ihb z z' y z1 (by rw [zd]; exact hN) rz hw.2 h
      exact ⟨r1, r2.trans zd⟩
  | residual body ih =>
    intro x x' y hx hN hr hw h
    simp only [eval] at h ⊢
    cases hz : eval F body x with
    | none => rw [hz] at h; cases h
    | some z =>
      rw [hz] at h
      simp only [Option.bind_some] at h
      obtain ⟨⟨z', hz', rz⟩, zd⟩ := ih x x' z hx hN hr hw hz
      rw [hz']
      simp only [Option.bind_some]
      refine ⟨addMI_sh s z z' x x' zd rz hr y h, ?_⟩
      unfold addMI at h
      split at h
      · cases h; exact zd
      · cases h
  | skipConcat dn body up _ _ _ => intro _ _ _ _ _ _ hw _; exact absurd hw (by simp [ShiftOK])

/-! ### the ResNets are of that kind -/

theorem shiftOK_chain : ∀ ns : List (Net R d), (∀ n ∈ ns, ShiftOK n) → ShiftOK (chain ns)
  | [], _ => trivial
  | n :: ns, h => ⟨h n (by simp), shiftOK_chain ns (fun m hm => h m (List.mem_cons_of_mem _ hm))⟩

theorem shiftOK_mkConvBlock (θ : ParamFam R) (id : List Nat) (a : BlockArgs R d) (hpad : a.pad = .none)
    (hld : a.ld = 1) (hM : a.M % 2 = 1) (hn : KeysNodup a.outKeys) : ShiftOK (mkConvBlock θ id a) := by
  have h1 : ShiftOK (mkNorm θ id a) := by unfold mkNorm; split <;> trivial
  have h2 : ShiftOK (mkNonlin θ id a) := by unfold mkNonlin; split <;> trivial
  have h3 : ShiftOK (mkConv θ id a) := ⟨hpad, rfl, hld, hM, hn⟩
  unfold mkConvBlock
  split
  · exact ⟨h1, h2, h3⟩
  · exact ⟨h3, h1, h2⟩

/-- hypotheses on the constructor arguments for the translation clause: odd filters, distinct keys -/
structure NetShiftOK (c : NetArgs R d) : Prop where
  odd : c.M % 2 = 1
  midNodup : KeysNodup c.mid
  outNodup : KeysNodup c.outSig

theorem shiftOK_encoder (θ : ParamFam R) (c : NetArgs R d) (h : NetShiftOK c) :
    ∀ n ∈ encoder θ c, ShiftOK n := by
  intro n hn
  simp only [encoder, List.mem_cons, List.mem_nil_iff, or_false] at hn
  rcases hn with rfl | rfl <;> exact shiftOK_mkConvBlock θ _ _ rfl rfl h.odd h.midNodup

theorem shiftOK_decoder (θ : ParamFam R) (c : NetArgs R d) (h : NetShiftOK c) :
    ∀ n ∈ decoder θ c, ShiftOK n := by
  intro n hn
  simp only [decoder, List.mem_cons, List.mem_nil_iff, or_false] at hn
  rcases hn with rfl | rfl
  · exact shiftOK_mkConvBlock θ _ _ rfl rfl h.odd h.midNodup
  · exact shiftOK_mkConvBlock θ _ _ rfl rfl h.odd h.outNodup

theorem shiftOK_mkResNet (θ : ParamFam R) (c : NetArgs R d) (h : NetShiftOK c) :
    ShiftOK (mkResNet θ c) := by
  unfold mkResNet
  apply shiftOK_chain
  intro n hn
  rcases List.mem_append.1 hn with hn | hn
  · rcases List.mem_append.1 hn with hn | hn
    · exact shiftOK_encoder θ c h n hn
    · obtain ⟨b, _, rfl⟩ := List.mem_map.1 hn
      apply shiftOK_chain
      intro m hm
      obtain ⟨j, _, rfl⟩ := List.mem_map.1 hm
      exact shiftOK_mkConvBlock θ _ _ rfl rfl h.odd h.midNodup
  · exact shiftOK_decoder θ c h n hn

theorem shiftOK_mkDilResNet (θ : ParamFam R) (c : NetArgs R d) (h : NetShiftOK c) :
    ShiftOK (mkDilResNet θ c) := by
  unfold mkDilResNet
  apply shiftOK_chain
  intro n hn
  rcases List.mem_append.1 hn with hn | hn
  · rcases List.mem_append.1 hn with hn | hn
    · exact shiftOK_encoder θ c h n hn
    · obtain ⟨b, _, rfl⟩ := List.mem_map.1 hn
      apply shiftOK_chain
      intro m hm
      obtain ⟨⟨rd, j⟩, _, rfl⟩ := List.mem_map.1 hm
      exact shiftOK_mkConvBlock θ _ _ rfl rfl h.odd h.midNodup
  · exact shiftOK_decoder θ c h n hn

end GinjaxVerif.C07
