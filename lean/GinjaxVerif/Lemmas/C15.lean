import GinjaxVerif.Model.C15
import Mathlib.Tactic.Ring
import Mathlib.Tactic.Linarith

/-! # C15 — list re-layout lemmas used by the property theorems -/
namespace GinjaxVerif.C15

variable {α β γ κ : Type}

theorem allSome_map_congr (l : List γ) (f : γ → Option β) (g : γ → β)
    (h : ∀ a ∈ l, f a = some (g a)) : allSome (l.map f) = some (l.map g) := by
  induction l with
  | nil => rfl
  | cons a r ih =>
    have h1 := h a (by simp)
    have h2 := ih (fun b hb => h b (by simp [hb]))
    simp [allSome, h1, h2]

theorem allSome_eq_some_length {l : List (Option β)} {r : List β} (h : allSome l = some r) :
    r.length = l.length := by
  induction l generalizing r with
  | nil => simp [allSome] at h; simp [← h]
  | cons a t ih =>
    cases a with
    | none => simp [allSome] at h
    | some a =>
      simp only [allSome, Option.map_eq_some_iff] at h
      obtain ⟨r', hr', rfl⟩ := h
      simp [ih hr']

theorem allSome_eq_some_getElem? {l : List (Option β)} {r : List β} (h : allSome l = some r)
    (i : Nat) (hi : i < l.length) : l[i]? = some r[i]? := by
  induction l generalizing r i with
  | nil => simp at hi
  | cons a t ih =>
    cases a with
    | none => simp [allSome] at h
    | some a =>
      simp only [allSome, Option.map_eq_some_iff] at h
      obtain ⟨r', hr', rfl⟩ := h
      cases i with
      | zero => simp
      | succ i => simpa using ih hr' i (by simpa using hi)

theorem gather_map_range (m : Nat) (g : Nat → α) (idxs : List Nat) (h : ∀ i ∈ idxs, i < m) :
    gather ((List.range m).map g) idxs = some (idxs.map g) := by
  unfold gather
  apply allSome_map_congr
  intro i hi
  simp [h i hi]

theorem gather2_map_range (m : Nat) (g : Nat → α) (idxs : List (List Nat))
    (h : ∀ row ∈ idxs, ∀ i ∈ row, i < m) :
    gather2 ((List.range m).map g) idxs = some (idxs.map (fun row => row.map g)) := by
  unfold gather2
  apply allSome_map_congr
  intro row hrow
  exact gather_map_range m g row (h row hrow)


/-! ### chunk / flatten -/

theorem chunk_append_row {T : Nat} (hT : 0 < T) (r rest : List α) (hr : r.length = T) :
    chunk T (r ++ rest) = r :: chunk T rest := by
  unfold chunk
  have hlen : (r ++ rest).length / T = rest.length / T + 1 := by
    rw [List.length_append, hr, Nat.add_comm, Nat.add_div_right _ hT]
  rw [hlen, List.range_succ_eq_map, List.map_cons, List.map_map]
  congr 1
  · simp [← hr]
  · apply List.map_congr_left
    intro c _
    simp only [Function.comp]
    have : (c + 1) * T = r.length + c * T := by rw [hr]; ring
    rw [this, ← List.drop_drop, List.drop_left]

theorem chunk_flatten {T : Nat} (hT : 0 < T) (L : List (List α)) (h : ∀ r ∈ L, r.length = T) :
    chunk T L.flatten = L := by
  induction L with
  | nil => simp [chunk]
  | cons r L ih =>
    rw [List.flatten_cons, chunk_append_row hT r _ (h r (by simp)), ih (fun x hx => h x (by simp [hx]))]

theorem length_flatten_uniform {T : Nat} (L : List (List α)) (h : ∀ r ∈ L, r.length = T) :
    L.flatten.length = L.length * T := by
  induction L with
  | nil => simp
  | cons r L ih =>
    rw [List.flatten_cons, List.length_append, h r (by simp), ih (fun x hx => h x (by simp [hx])),
      List.length_cons]
    ring

theorem mkBlock_eq_flatten (c T : Nat) (fr : Nat → Nat → α) :
    mkBlock c T fr = ((List.range c).map (fun ch => (List.range T).map (fr ch))).flatten := by
  simp [mkBlock, List.flatMap_def]

theorem length_mkBlock (c T : Nat) (fr : Nat → Nat → α) : (mkBlock c T fr).length = c * T := by
  rw [mkBlock_eq_flatten, length_flatten_uniform (T := T)]
  · simp
  · intro r hr
    simp only [List.mem_map, List.mem_range] at hr
    obtain ⟨ch, _, rfl⟩ := hr
    simp

theorem expandAxis0_mkBlock {T : Nat} (hT : 0 < T) (c : Nat) (fr : Nat → Nat → α) :
    expandAxis0 T (mkBlock c T fr) = some ((List.range c).map (fun ch => (List.range T).map (fr ch))) := by
  unfold expandAxis0
  rw [length_mkBlock]
  have h1 : ¬ (T = 0 ∨ c * T % T ≠ 0) := by
    simp [Nat.mul_mod_left, Nat.pos_iff_ne_zero.mp hT]
  rw [if_neg h1, mkBlock_eq_flatten, chunk_flatten hT]
  intro r hr
  simp only [List.mem_map, List.mem_range] at hr
  obtain ⟨ch, _, rfl⟩ := hr
  simp

/-- flat index of a uniform `flatMap`: entry `ch·m + j` is element `j` of row `ch` -/
theorem getElem?_flatMap_range (c m : Nat) (g : Nat → Nat → α) (ch j : Nat) (hch : ch < c)
    (hj : j < m) :
    ((List.range c).flatMap (fun ch => (List.range m).map (g ch)))[ch * m + j]? = some (g ch j) := by
  induction c with
  | zero => omega
  | succ c ih =>
    rw [List.range_succ, List.flatMap_append]
    have hlen : ((List.range c).flatMap (fun ch => (List.range m).map (g ch))).length = c * m := by
      have := length_mkBlock c m g
      simpa [mkBlock] using this
    by_cases h : ch < c
    · rw [List.getElem?_append_left]
      · exact ih h
      · rw [hlen]
        calc ch * m + j < ch * m + m := by omega
          _ = (ch + 1) * m := by ring
          _ ≤ c * m := Nat.mul_le_mul_right m h
    · have hc : ch = c := by omega
      subst hc
      rw [List.getElem?_append_right (by rw [hlen]; omega), hlen]
      simp [hj]

theorem drop_map_range (s T : Nat) (g : Nat → α) :
    ((List.range T).map g).drop s = (List.range (T - s)).map (fun t => g (s + t)) := by
  apply List.ext_getElem?
  intro i
  simp only [List.getElem?_drop, List.getElem?_map]
  by_cases h : i < T - s
  · have h2 : s + i < T := by omega
    simp [h, h2]
  · have h2 : ¬ s + i < T := by omega
    simp [h, h2]

theorem filterMap_eq_map_of_mem (L : List γ) (f : γ → Option β) (g : γ → β)
    (h : ∀ a ∈ L, f a = some (g a)) : L.filterMap f = L.map g := by
  induction L with
  | nil => rfl
  | cons a r ih =>
    rw [List.filterMap_cons, h a (by simp), List.map_cons, ih (fun b hb => h b (by simp [hb]))]

/-- `moveaxis(1, 0)` of a rectangular `(c, n, …)` array -/
theorem moveaxis10_map {ι : Type} (L : List γ) (idxs : List ι) (G : γ → ι → β) :
    moveaxis10 idxs.length (L.map (fun ch => idxs.map (G ch)))
      = idxs.map (fun row => L.map (fun ch => G ch row)) := by
  unfold moveaxis10
  apply List.ext_getElem
  · simp
  · intro w h1 h2
    simp only [List.length_map, List.length_range] at h1
    simp only [List.getElem_map, List.getElem_range, List.filterMap_map]
    apply filterMap_eq_map_of_mem
    intro ch _
    simp [h1]


/-! ### `time_series_idxs` -/

/-- the index array of the statement: row `w` is `[w + (a + j)·dt | j < m]` -/
def idxSpec (n m a dt : Nat) : List (List Nat) :=
  (List.range n).map (fun w => (List.range m).map (fun j => w + (a + j) * dt))

theorem arangeStep_one (lo n : Nat) : arangeStep lo (lo + n) 1 = (List.range n).map (lo + ·) := by
  unfold arangeStep
  have : (lo + n - lo + 1 - 1) / 1 = n := by simp
  rw [this]
  simp

theorem arangeStep_mul (m dt : Nat) (hdt : 0 < dt) :
    arangeStep 0 (m * dt) dt = (List.range m).map (· * dt) := by
  unfold arangeStep
  have : (m * dt - 0 + dt - 1) / dt = m := by
    have h1 : m * dt - 0 + dt - 1 = dt * m + (dt - 1) := by
      rw [Nat.sub_zero, Nat.mul_comm]; omega
    rw [h1, Nat.mul_add_div hdt, Nat.div_eq_of_lt (by omega)]
    simp
  rw [this]
  simp

theorem mul_pred_add (p f dt : Nat) (h : 1 ≤ p + f) : (p + f - 1) * dt + dt = p * dt + f * dt := by
  have : p + f - 1 + 1 = p + f := by omega
  calc (p + f - 1) * dt + dt = (p + f - 1 + 1) * dt := by ring
    _ = p * dt + f * dt := by rw [this]; ring

/-- the code's arithmetic yields exactly the windows of the statement -/
theorem timeSeriesIdxs_window (p f dt n : Nat) (hp : 1 ≤ p) (hf : 1 ≤ f) (hdt : 1 ≤ dt)
    (hn : 1 ≤ n) (T' : Int) (hT : T' = (((p + f - 1) * dt + n : Nat) : Int)) :
    timeSeriesIdxs p f dt T' = some (idxSpec n p 0 dt, idxSpec n f p dt) := by
  have key := mul_pred_add p f dt (by omega)
  have e1 : ((p : Int) - 1) * dt = ((p * dt : Nat) : Int) - dt := by push_cast; ring
  have e2 : ((f : Int) - 1) * dt = ((f * dt : Nat) : Int) - dt := by push_cast; ring
  have e3 : (f : Int) * dt = ((f * dt : Nat) : Int) := by push_cast; ring
  have e4 : (p : Int) * dt = ((p * dt : Nat) : Int) := by push_cast; ring
  have l1 : T' - (f : Int) * dt - ((p : Int) - 1) * dt = (n : Int) := by
    rw [e1, e3, hT]; omega
  have l2 : T' - ((f : Int) - 1) * dt = ((p * dt + n : Nat) : Int) := by
    rw [e2, hT]; omega
  unfold timeSeriesIdxs
  simp only [l1, l2, e4]
  have c1 : ¬ ¬ (0 : Int) < (n : Int) := by omega
  have c2 : ¬ dt = 0 := by omega
  have c3 : ¬ ¬ ((p * dt : Nat) : Int) < ((p * dt + n : Nat) : Int) := by omega
  rw [if_neg c1, if_neg c2, if_neg c3]
  have a1 : arangeStep (0 : Int).toNat (n : Int).toNat 1 = List.range n := by
    have := arangeStep_one 0 n
    simpa using this
  have a2 : arangeStep ((p * dt : Nat) : Int).toNat ((p * dt + n : Nat) : Int).toNat 1
      = (List.range n).map (p * dt + ·) := by
    rw [Int.toNat_natCast, Int.toNat_natCast]
    exact arangeStep_one (p * dt) n
  have x1 : outerAdd (List.range n) ((List.range p).map (· * dt)) = idxSpec n p 0 dt := by
    simp [outerAdd, idxSpec]
  have x2 : outerAdd ((List.range n).map (p * dt + ·)) ((List.range f).map (· * dt))
      = idxSpec n f p dt := by
    simp only [outerAdd, idxSpec, List.map_map]
    apply List.map_congr_left
    intro w _
    apply List.map_congr_left
    intro j _
    simp only [Function.comp]
    ring
  rw [a1, a2, arangeStep_mul p dt hdt, arangeStep_mul f dt hdt, x1, x2]
  simp [idxSpec]

/-- without a window the first `assert` fails -/
theorem timeSeriesIdxs_no_window (p f dt : Nat) (hp : 1 ≤ p) (hf : 1 ≤ f) (T' : Int)
    (hT : T' ≤ (((p + f - 1) * dt : Nat) : Int)) : timeSeriesIdxs p f dt T' = none := by
  have key := mul_pred_add p f dt (by omega)
  have e1 : ((p : Int) - 1) * dt = ((p * dt : Nat) : Int) - dt := by push_cast; ring
  have e3 : (f : Int) * dt = ((f * dt : Nat) : Int) := by push_cast; ring
  unfold timeSeriesIdxs
  have c1 : ¬ (0 : Int) < T' - (f : Int) * dt - ((p : Int) - 1) * dt := by
    rw [e1, e3]; omega
  simp only [c1, not_false_eq_true, if_true]


/-! ### one block, then the whole multi-image -/

/-- the hypotheses of the property: positive step counts and spacing, at least one window -/
structure Valid (T p f dt s : Nat) : Prop where
  hp : 1 ≤ p
  hf : 1 ≤ f
  hdt : 1 ≤ dt
  hwin : s + (p + f - 1) * dt < T

theorem idxSpec_lt (n m a dt M : Nat) (hm : 1 ≤ m) (h : n + (a + m - 1) * dt ≤ M) :
    ∀ row ∈ idxSpec n m a dt, ∀ i ∈ row, i < M := by
  intro row hrow i hi
  simp only [idxSpec, List.mem_map, List.mem_range] at hrow
  obtain ⟨w, hw, rfl⟩ := hrow
  simp only [List.mem_map, List.mem_range] at hi
  obtain ⟨j, hj, rfl⟩ := hi
  have : (a + j) * dt ≤ (a + m - 1) * dt := Nat.mul_le_mul_right dt (by omega)
  omega

theorem Valid.n_pos {T p f dt s : Nat} (hv : Valid T p f dt s) : 1 ≤ nWindows T p f dt s := by
  have := hv.hwin
  unfold nWindows
  omega

theorem Valid.in_lt {T p f dt s : Nat} (hv : Valid T p f dt s) :
    ∀ row ∈ idxSpec (nWindows T p f dt s) p 0 dt, ∀ i ∈ row, i < T - s := by
  apply idxSpec_lt _ _ _ _ _ hv.hp
  have h1 : (0 + p - 1) * dt ≤ (p + f - 1) * dt := Nat.mul_le_mul_right dt (by omega)
  have := hv.hwin
  unfold nWindows
  omega

theorem Valid.out_lt {T p f dt s : Nat} (hv : Valid T p f dt s) :
    ∀ row ∈ idxSpec (nWindows T p f dt s) f p dt, ∀ i ∈ row, i < T - s := by
  apply idxSpec_lt _ _ _ _ _ hv.hf
  have := hv.hwin
  unfold nWindows
  omega

theorem windowsBlock_spec (T s c m n a dt : Nat) (hc : 1 ≤ c) (hm : 1 ≤ m) (fr : Nat → Nat → α)
    (hb : ∀ row ∈ idxSpec n m a dt, ∀ i ∈ row, i < T - s) :
    windowsBlock m s (idxSpec n m a dt) ((List.range c).map (fun ch => (List.range T).map (fr ch)))
      = some ((idxSpec n m a dt).map
          (fun row => (List.range c).map (fun ch => row.map (fun t => fr ch (s + t))))) := by
  unfold windowsBlock
  simp only [List.map_map]
  have h1 : allSome ((List.range c).map
      ((fun ch => gather2 ch (idxSpec n m a dt)) ∘ List.drop s ∘ fun ch => (List.range T).map (fr ch)))
      = some ((List.range c).map (fun ch => (idxSpec n m a dt).map
          (fun row => row.map (fun t => fr ch (s + t))))) := by
    apply allSome_map_congr
    intro ch _
    simp only [Function.comp]
    rw [drop_map_range]
    exact gather2_map_range (T - s) (fun t => fr ch (s + t)) _ hb
  rw [h1]
  have h2 : ¬ ((List.range c).map (fun ch => (List.range T).map (fr ch))).length * m = 0 := by
    simp only [List.length_map, List.length_range]
    exact Nat.mul_ne_zero (by omega) (by omega)
  simp only [h2, if_false]
  rw [moveaxis10_map (List.range c) (idxSpec n m a dt)
    (fun ch row => row.map (fun t => fr ch (s + t)))]

theorem flatten_windows_eq_spec (n c m a dt s : Nat) (fr : Nat → Nat → α) :
    ((idxSpec n m a dt).map
        (fun row => (List.range c).map (fun ch => row.map (fun t => fr ch (s + t))))).map List.flatten
      = specBlock n c m a dt s fr := by
  simp only [idxSpec, specBlock, List.map_map]
  apply List.map_congr_left
  intro w _
  simp only [Function.comp, specSample, List.map_map, List.flatMap_def]
  congr 1
  apply List.map_congr_left
  intro ch _
  apply List.map_congr_left
  intro j _
  simp only [Function.comp, Nat.add_assoc]

/-- a dynamic multi-image given by its signature: key, channel count, frames `(channel, time)` -/
def mkDyn (T : Nat) (sig : List (κ × Nat × (Nat → Nat → α))) : MI κ (List α) :=
  sig.map (fun e => (e.1, mkBlock e.2.1 T e.2.2))

/-- the windows of the statement for every type (before constants and pooling) -/
def specMI (n m a dt s : Nat) (sig : List (κ × Nat × (Nat → Nat → α))) : MI κ (List (List α)) :=
  sig.map (fun e => (e.1, specBlock n e.2.1 m a dt s e.2.2))

theorem windowsMI_spec (T s m n a dt : Nat) (hm : 1 ≤ m)
    (sig : List (κ × Nat × (Nat → Nat → α))) (hc : ∀ e ∈ sig, 1 ≤ e.2.1)
    (hb : ∀ row ∈ idxSpec n m a dt, ∀ i ∈ row, i < T - s) :
    (windowsMI m s (idxSpec n m a dt)
        (sig.map (fun e => (e.1, (List.range e.2.1).map (fun ch => (List.range T).map (e.2.2 ch)))))).map
        combine12
      = some (specMI n m a dt s sig) := by
  unfold windowsMI
  simp only [List.map_map]
  rw [allSome_map_congr (g := fun e : κ × Nat × (Nat → Nat → α) => (e.1, (idxSpec n m a dt).map
      (fun row => (List.range e.2.1).map (fun ch => row.map (fun t => e.2.2 ch (s + t))))))]
  · simp only [Option.map_some, combine12, mapVals, List.map_map, specMI]
    congr 1
    apply List.map_congr_left
    intro e _
    simp only [Function.comp]
    rw [flatten_windows_eq_spec]
  · intro e he
    simp only [Function.comp]
    rw [windowsBlock_spec T s e.2.1 m n a dt (hc e he) hm e.2.2 hb]
    rfl

theorem expandMI_mkDyn {T : Nat} (hT : 0 < T) (sig : List (κ × Nat × (Nat → Nat → α))) :
    expandMI T (mkDyn T sig)
      = some (sig.map (fun e => (e.1, (List.range e.2.1).map (fun ch => (List.range T).map (e.2.2 ch))))) := by
  unfold expandMI mkDyn
  simp only [List.map_map]
  apply allSome_map_congr
  intro e _
  simp only [Function.comp]
  rw [expandAxis0_mkBlock hT]
  rfl

theorem getL_specMI (n m a dt s : Nat) (sig : List (κ × Nat × (Nat → Nat → α))) (hne : sig ≠ []) :
    getL (specMI n m a dt s sig) = n := by
  cases sig with
  | nil => exact absurd rfl hne
  | cons e r => simp [specMI, getL, specBlock]

/-- **refinement**: on every valid configuration the code's computation is the statement's
windows, constants appended to the inputs, everything pooled `ds` times. -/
theorem toWindows_eq_spec [DecidableEq κ] (pool : α → α) {T p f dt s : Nat} (ds : Nat)
    (hv : Valid T p f dt s) (sig : List (κ × Nat × (Nat → Nat → α))) (hne : sig ≠ [])
    (hc : ∀ e ∈ sig, 1 ≤ e.2.1) (const : MI κ (List α)) :
    toWindows pool T p f dt s ds (mkDyn T sig) const
      = some (iter (poolMI pool) ds
                (appendConsts (nWindows T p f dt s) const (specMI (nWindows T p f dt s) p 0 dt s sig)),
              iter (poolMI pool) ds (specMI (nWindows T p f dt s) f p dt s sig)) := by
  have hT : 0 < T := by have := hv.hwin; omega
  have hidx : timeSeriesIdxs p f dt ((T : Int) - s)
      = some (idxSpec (nWindows T p f dt s) p 0 dt, idxSpec (nWindows T p f dt s) f p dt) := by
    apply timeSeriesIdxs_window p f dt _ hv.hp hv.hf hv.hdt hv.n_pos
    have := hv.hwin
    unfold nWindows
    omega
  have hx := windowsMI_spec T s p (nWindows T p f dt s) 0 dt hv.hp sig hc hv.in_lt
  have hy := windowsMI_spec T s f (nWindows T p f dt s) p dt hv.hf sig hc hv.out_lt
  unfold toWindows
  have h0 : (mkDyn T sig).isEmpty = false := by
    cases sig with
    | nil => exact absurd rfl hne
    | cons e r => simp [mkDyn]
  rw [h0, hidx, expandMI_mkDyn hT]
  simp only [Bool.false_eq_true, if_false]
  generalize hX : windowsMI p s _ _ = X at hx
  generalize hY : windowsMI f s _ _ = Y at hy
  cases X with
  | none => simp at hx
  | some x3 =>
    cases Y with
    | none => simp at hy
    | some y3 =>
      simp only [Option.map_some, Option.some.injEq] at hx hy
      simp only [hx, hy, getL_specMI _ _ _ _ _ sig hne]


/-! ### association lists -/

section Assoc
variable [DecidableEq κ]

theorem lookup_mapVals (g : β → γ) (m : MI κ β) (k : κ) :
    lookup k (mapVals g m) = (lookup k m).map g := by
  induction m with
  | nil => rfl
  | cons kb r ih =>
    obtain ⟨k', b⟩ := kb
    by_cases h : k' = k
    · simp [mapVals, lookup, h]
    · simpa [mapVals, lookup, h] using ih

theorem lookup_eq_none_of_not_mem (m : MI κ β) (k : κ) (h : k ∉ m.map Prod.fst) :
    lookup k m = none := by
  induction m with
  | nil => rfl
  | cons kb r ih =>
    obtain ⟨k', b⟩ := kb
    simp only [List.map_cons, List.mem_cons, not_or] at h
    have h1 : ¬ k' = k := fun e => h.1 e.symm
    simp [lookup, h1, ih h.2]

theorem lookup_map_of_mem {ε : Type} (sig : List ε) (key : ε → κ) (F : ε → β)
    (hnd : (sig.map key).Nodup) (e : ε) (he : e ∈ sig) :
    lookup (key e) (sig.map (fun e => (key e, F e))) = some (F e) := by
  induction sig with
  | nil => simp at he
  | cons a r ih =>
    simp only [List.map_cons, List.nodup_cons] at hnd
    rcases List.mem_cons.mp he with rfl | hr
    · simp [lookup]
    · have hne : ¬ key a = key e := by
        intro h
        apply hnd.1
        rw [h]
        exact List.mem_map_of_mem hr
      simp [lookup, hne, ih hnd.2 hr]

theorem lookup_appendKey (cat : β → β → β) (m : MI κ β) (k k' : κ) (b : β) :
    lookup k (appendKey cat m k' b)
      = if k' = k then some (match lookup k m with | some o => cat o b | none => b)
        else lookup k m := by
  induction m with
  | nil =>
    by_cases h : k' = k <;> simp [appendKey, lookup, h]
  | cons kb r ih =>
    obtain ⟨k₀, b₀⟩ := kb
    by_cases h0 : k₀ = k'
    · subst h0
      by_cases h : k₀ = k <;> simp [appendKey, lookup, h]
    · by_cases h : k' = k
      · subst h
        simp [appendKey, lookup, h0, ih]
      · by_cases h1 : k₀ = k
        · subst h1
          simp [appendKey, lookup, h0, h]
        · simp [appendKey, lookup, h0, h, h1, ih]

theorem zipWith_append_replicate (b : List (List α)) (cs : List α) :
    List.zipWith (· ++ ·) b (List.replicate b.length cs) = b.map (· ++ cs) := by
  induction b with
  | nil => rfl
  | cons r t ih => simp [List.replicate_succ, ih]

theorem lookup_appendConsts_of_some (n : Nat) (const : MI κ (List α))
    (hnd : (const.map Prod.fst).Nodup) (x : MI κ (List (List α))) (k : κ) (b : List (List α))
    (hx : lookup k x = some b) (hb : b.length = n) :
    lookup k (appendConsts n const x) = some (b.map (· ++ (lookup k const).getD [])) := by
  unfold appendConsts
  induction const generalizing x b with
  | nil => simp [lookup, hx]
  | cons kc r ih =>
    obtain ⟨k', cs⟩ := kc
    simp only [List.map_cons, List.nodup_cons] at hnd
    rw [List.foldl_cons]
    by_cases h : k' = k
    · subst h
      have hr : lookup k' r = none := lookup_eq_none_of_not_mem r k' hnd.1
      rw [ih hnd.2 _ (List.zipWith (· ++ ·) b (List.replicate n cs))]
      · subst hb
        simp [lookup, hr, zipWith_append_replicate]
      · simp [lookup_appendKey, hx]
      · simp [hb]
    · rw [ih hnd.2 _ b]
      · simp [lookup, h]
      · simp [lookup_appendKey, h, hx]
      · exact hb

theorem lookup_appendConsts_of_none (n : Nat) (const : MI κ (List α))
    (hnd : (const.map Prod.fst).Nodup) (x : MI κ (List (List α))) (k : κ)
    (hx : lookup k x = none) :
    lookup k (appendConsts n const x) = (lookup k const).map (List.replicate n) := by
  unfold appendConsts
  induction const generalizing x with
  | nil => simp [lookup, hx]
  | cons kc r ih =>
    obtain ⟨k', cs⟩ := kc
    simp only [List.map_cons, List.nodup_cons] at hnd
    rw [List.foldl_cons]
    by_cases h : k' = k
    · subst h
      have hr : lookup k' r = none := lookup_eq_none_of_not_mem r k' hnd.1
      have := lookup_appendConsts_of_some n r hnd.2
        (appendKey (List.zipWith (· ++ ·)) x k' (List.replicate n cs)) k' (List.replicate n cs)
        (by simp [lookup_appendKey, hx]) (by simp)
      unfold appendConsts at this
      rw [this]
      simp [lookup, hr]
    · rw [ih hnd.2]
      · simp [lookup, h]
      · simp [lookup_appendKey, h, hx]

theorem iter_succ' (g : β → β) (n : Nat) (x : β) : iter g (n + 1) x = g (iter g n x) := by
  induction n generalizing x with
  | zero => rfl
  | succ n ih => rw [iter, ih]; rfl

omit [DecidableEq κ] in
theorem iter_poolMI (pool : α → α) (ds : Nat) (m : MI κ (List (List α))) :
    iter (poolMI pool) ds m = mapVals (List.map (List.map (iter pool ds))) m := by
  induction ds generalizing m with
  | zero =>
    simp only [iter, mapVals]
    simp
  | succ n ih =>
    rw [iter, ih]
    simp only [poolMI, mapVals, List.map_map]
    apply List.map_congr_left
    intro kb _
    simp [Function.comp, iter]

theorem lookup_iter_poolMI (pool : α → α) (ds : Nat) (m : MI κ (List (List α))) (k : κ) :
    lookup k (iter (poolMI pool) ds m)
      = (lookup k m).map (List.map (List.map (iter pool ds))) := by
  rw [iter_poolMI, lookup_mapVals]

end Assoc

/-! ### every block has `n` samples -/

def AllLen (n : Nat) (m : MI κ (List β)) : Prop := ∀ kb ∈ m, kb.2.length = n

theorem AllLen.appendKey [DecidableEq κ] {n : Nat} (cat : List β → List β → List β)
    (hcat : ∀ o b : List β, o.length = n → b.length = n → (cat o b).length = n)
    (m : MI κ (List β)) (hm : AllLen n m) (k : κ) (b : List β) (hb : b.length = n) :
    AllLen n (appendKey cat m k b) := by
  induction m with
  | nil =>
    intro kb h
    simp only [C15.appendKey, List.mem_singleton] at h
    subst h; exact hb
  | cons kb r ih =>
    obtain ⟨k₀, b₀⟩ := kb
    have h0 : b₀.length = n := hm (k₀, b₀) (by simp)
    have hr : AllLen n r := fun x hx => hm x (by simp [hx])
    unfold C15.appendKey
    by_cases h : k₀ = k
    · simp only [h, if_true]
      intro x hx
      rcases List.mem_cons.mp hx with rfl | hx
      · exact hcat _ _ h0 hb
      · exact hr x hx
    · simp only [h, if_false]
      intro x hx
      rcases List.mem_cons.mp hx with rfl | hx
      · exact h0
      · exact ih hr x hx

theorem AllLen.appendConsts [DecidableEq κ] {n : Nat} (const : MI κ (List α))
    (x : MI κ (List (List α))) (hx : AllLen n x) : AllLen n (appendConsts n const x) := by
  unfold C15.appendConsts
  induction const generalizing x with
  | nil => exact hx
  | cons kc r ih =>
    rw [List.foldl_cons]
    apply ih
    apply AllLen.appendKey _ _ _ hx
    · simp
    · intro o b ho hb
      simp [ho, hb]

theorem AllLen.iter_poolMI [DecidableEq κ] {n : Nat} (pool : α → α) (ds : Nat)
    (m : MI κ (List (List α))) (hm : AllLen n m) : AllLen n (iter (poolMI pool) ds m) := by
  rw [C15.iter_poolMI]
  intro kb h
  simp only [mapVals, List.mem_map] at h
  obtain ⟨kb', h', rfl⟩ := h
  simpa using hm kb' h'

theorem AllLen.specMI (n m a dt s : Nat) (sig : List (κ × Nat × (Nat → Nat → α))) :
    AllLen n (specMI n m a dt s sig) := by
  intro kb h
  simp only [C15.specMI, List.mem_map] at h
  obtain ⟨e, _, rfl⟩ := h
  simp [specBlock]

end GinjaxVerif.C15
