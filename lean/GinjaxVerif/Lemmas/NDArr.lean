import GinjaxVerif.Model.NDArr
import Mathlib.Tactic.Ring
import Mathlib.Tactic.Linarith
import Mathlib.Data.List.InsertIdx

/-!
# Index calculus for the mini-numpy model

Lemmas about `ravel` / `unravel` / `InRange`, the read-out (`get`) of every array operation of
`GinjaxVerif/Model/NDArr.lean`, extensionality, and the array-level algebra (inverse pairs,
distribution of `moveaxis` over `concat`, slices of concatenations, `stack`/`rows`) from which the
re-layout round trips of C13 (and the per-sample statements of C14/C20) are assembled.
Everything is for arbitrary rank and arbitrary extents.
-/
namespace GinjaxVerif.ND

/-! ## `InRange` -/

theorem inRange_iff (s i : List Nat) : inRange s i = true ↔ InRange s i := by
  induction s generalizing i with
  | nil => cases i <;> simp [inRange, InRange]
  | cons n s ih => cases i <;> simp [inRange, InRange, ih]

instance (s i : List Nat) : Decidable (InRange s i) :=
  decidable_of_iff _ (inRange_iff s i)

/-- a valid multi-index has as many entries as the shape has axes -/
theorem InRange.length_eq {s i : List Nat} (h : InRange s i) : i.length = s.length := by
  induction s generalizing i with
  | nil => cases i <;> simp_all [InRange]
  | cons n s ih => cases i <;> simp_all [InRange]

/-- `InRange` on concatenated shapes splits into the two parts -/
theorem inRange_append {s₁ i₁ s₂ i₂ : List Nat} (hl : i₁.length = s₁.length) :
    InRange (s₁ ++ s₂) (i₁ ++ i₂) ↔ InRange s₁ i₁ ∧ InRange s₂ i₂ := by
  induction s₁ generalizing i₁ with
  | nil => cases i₁ <;> simp_all [InRange]
  | cons n s ih =>
    cases i₁ with
    | nil => simp at hl
    | cons a i₁ =>
      simp only [List.length_cons, Nat.add_right_cancel_iff] at hl
      simp [InRange, ih hl, and_assoc]

/-- every valid multi-index of `s₁ ++ s₂` is a concatenation of valid multi-indices -/
theorem InRange.split {s₁ s₂ i : List Nat} (h : InRange (s₁ ++ s₂) i) :
    ∃ i₁ i₂, i = i₁ ++ i₂ ∧ InRange s₁ i₁ ∧ InRange s₂ i₂ := by
  refine ⟨i.take s₁.length, i.drop s₁.length, (List.take_append_drop _ _).symm, ?_⟩
  have hl := h.length_eq
  have : (i.take s₁.length).length = s₁.length := by
    simp [List.length_take, hl]
  have h' : InRange (s₁ ++ s₂) (i.take s₁.length ++ i.drop s₁.length) := by
    simpa using h
  exact (inRange_append this).1 h'

/-- entry `ax` of a valid multi-index is below the extent of axis `ax` -/
theorem InRange.getD_lt {s i : List Nat} (h : InRange s i) {ax : Nat} (hax : ax < s.length) :
    i.getD ax 0 < s.getD ax 0 := by
  induction s generalizing i ax with
  | nil => simp at hax
  | cons n s ih =>
    cases i with
    | nil => simp [InRange] at h
    | cons a i =>
      cases ax with
      | zero => simpa using h.1
      | succ ax =>
        simp only [List.length_cons, Nat.add_lt_add_iff_right] at hax
        simpa using ih h.2 hax

/-- replacing entry `ax` of the index and extent `ax` of the shape consistently keeps validity -/
theorem InRange.set {s i : List Nat} (h : InRange s i) (ax v m : Nat) (hv : v < m) :
    InRange (s.set ax m) (i.set ax v) := by
  induction s generalizing i ax with
  | nil => cases i <;> simp_all [InRange]
  | cons n s ih =>
    cases i with
    | nil => simp [InRange] at h
    | cons a i =>
      cases ax with
      | zero => exact ⟨hv, h.2⟩
      | succ ax => exact ⟨h.1, ih h.2 ax⟩

/-- validity for a shape with one extent replaced, read backwards -/
theorem InRange.of_set {s i : List Nat} {ax m : Nat} (h : InRange (s.set ax m) i) (v : Nat)
    (hv : v < s.getD ax 0) : InRange s (i.set ax v) := by
  induction s generalizing i ax with
  | nil => cases i <;> simp_all
  | cons n s ih =>
    cases i with
    | nil => simp [InRange] at h
    | cons a i =>
      cases ax with
      | zero => exact ⟨by simpa using hv, h.2⟩
      | succ ax => exact ⟨h.1, ih h.2 (by simpa using hv)⟩

/-- a multi-index valid for `s.set ax m` whose entry `ax` is below the old extent is valid for `s` -/
theorem InRange.of_set_self {s i : List Nat} {ax m : Nat} (h : InRange (s.set ax m) i)
    (hv : i.getD ax 0 < s.getD ax 0) : InRange s i := by
  induction s generalizing i ax with
  | nil => cases i <;> simp_all [InRange]
  | cons n s ih =>
    cases i with
    | nil => simp [InRange] at h
    | cons a i =>
      cases ax with
      | zero => exact ⟨by simpa using hv, h.2⟩
      | succ ax => exact ⟨h.1, ih h.2 (by simpa using hv)⟩

/-! ## `ravel` / `unravel` -/

/-- the flat offset of a valid multi-index is below the number of entries -/
theorem ravel_lt {s i : List Nat} (h : InRange s i) : ravel s i < s.prod := by
  induction s generalizing i with
  | nil => cases i <;> simp_all [InRange, ravel]
  | cons n s ih =>
    cases i with
    | nil => simp [InRange] at h
    | cons a i =>
      obtain ⟨ha, hi⟩ := h
      have := ih hi
      simp only [ravel, List.prod_cons]
      calc a * s.prod + ravel s i < a * s.prod + s.prod := by omega
        _ = (a + 1) * s.prod := by ring
        _ ≤ n * s.prod := Nat.mul_le_mul_right _ ha

/-- `unravel` inverts `ravel` on valid multi-indices -/
theorem unravel_ravel {s i : List Nat} (h : InRange s i) : unravel s (ravel s i) = i := by
  induction s generalizing i with
  | nil => cases i <;> simp_all [InRange, unravel]
  | cons n s ih =>
    cases i with
    | nil => simp [InRange] at h
    | cons a i =>
      obtain ⟨_, hi⟩ := h
      have hlt := ravel_lt hi
      have hpos : 0 < s.prod := by omega
      simp only [ravel, unravel]
      rw [Nat.add_comm, Nat.add_mul_div_right _ _ hpos, Nat.div_eq_of_lt hlt,
        Nat.add_mul_mod_self_right, Nat.mod_eq_of_lt hlt, ih hi]
      simp

/-- the multi-index of a flat offset below the size is valid -/
theorem unravel_inRange {s : List Nat} {r : Nat} (h : r < s.prod) : InRange s (unravel s r) := by
  induction s generalizing r with
  | nil => simp [unravel, InRange]
  | cons n s ih =>
    simp only [List.prod_cons] at h
    have hpos : 0 < s.prod := by
      rcases Nat.eq_zero_or_pos s.prod with h0 | h0
      · simp [h0] at h
      · exact h0
    refine ⟨?_, ih (Nat.mod_lt _ hpos)⟩
    exact (Nat.div_lt_iff_lt_mul hpos).2 h

/-- `ravel` inverts `unravel` on flat offsets below the size -/
theorem ravel_unravel {s : List Nat} {r : Nat} (h : r < s.prod) : ravel s (unravel s r) = r := by
  induction s generalizing r with
  | nil => simp at h; simp [ravel, h]
  | cons n s ih =>
    simp only [List.prod_cons] at h
    have hpos : 0 < s.prod := by
      rcases Nat.eq_zero_or_pos s.prod with h0 | h0
      · simp [h0] at h
      · exact h0
    simp only [unravel, ravel, ih (Nat.mod_lt _ hpos)]
    exact Nat.div_add_mod' r s.prod

/-- flat offset of a concatenated multi-index: the outer part is scaled by the size of the inner
shape -/
theorem ravel_append {s₁ i₁ : List Nat} (s₂ i₂ : List Nat) (hl : i₁.length = s₁.length) :
    ravel (s₁ ++ s₂) (i₁ ++ i₂) = ravel s₁ i₁ * s₂.prod + ravel s₂ i₂ := by
  induction s₁ generalizing i₁ with
  | nil => cases i₁ <;> simp_all [ravel]
  | cons n s ih =>
    cases i₁ with
    | nil => simp at hl
    | cons a i₁ =>
      simp only [List.length_cons, Nat.add_right_cancel_iff] at hl
      simp only [List.cons_append, ravel, ih hl, List.prod_append]
      ring

/-- splitting an axis of extent `n * m` into `(n, m)` keeps the flat offset (this is why
`reshape` may keep the data) -/
theorem ravel_split {s₁ i₁ : List Nat} (s₂ i₂ : List Nat) (n m a b : Nat)
    (hl : i₁.length = s₁.length) :
    ravel (s₁ ++ (n * m) :: s₂) (i₁ ++ (a * m + b) :: i₂)
      = ravel (s₁ ++ n :: m :: s₂) (i₁ ++ a :: b :: i₂) := by
  rw [ravel_append _ _ hl, ravel_append _ _ hl]
  simp only [ravel, List.prod_cons]
  ring

/-- merging a block of trailing-or-inner axes `q` into one axis of extent `q.prod` keeps the flat
offset: the merged index is `ravel q j` -/
theorem ravel_merge {s₁ i₁ : List Nat} (q j s₂ i₂ : List Nat) (hl : i₁.length = s₁.length)
    (hj : j.length = q.length) :
    ravel (s₁ ++ q.prod :: s₂) (i₁ ++ ravel q j :: i₂) = ravel (s₁ ++ (q ++ s₂)) (i₁ ++ (j ++ i₂)) := by
  rw [ravel_append _ _ hl, ravel_append _ _ hl, ravel_append _ _ hj]
  simp only [ravel, List.prod_cons, List.prod_append]

/-- `ravel` of a cons, unfolded of a valid multi-index is below the merged extent -/
theorem ravel_cons (n a : Nat) (s i : List Nat) : ravel (n :: s) (a :: i) = a * s.prod + ravel s i :=
  rfl

/-! ## `moveList` -/

section MoveList
variable {β : Type}

theorem moveList_of_lt {l : List β} {src : Nat} (h : src < l.length) (dst : Nat) :
    moveList src dst l = (l.eraseIdx src).insertIdx dst l[src] := by
  simp [moveList, List.getElem?_eq_getElem h]

/-- moving an axis keeps the number of axes -/
theorem length_moveList {l : List β} {src dst : Nat} (hd : dst < l.length) :
    (moveList src dst l).length = l.length := by
  unfold moveList
  split
  · rename_i x hx
    have hs : src < l.length := by
      rcases Nat.lt_or_ge src l.length with h | h
      · exact h
      · simp [List.getElem?_eq_none h] at hx
    rw [List.length_insertIdx_of_le_length (by rw [List.length_eraseIdx_of_lt hs]; omega),
      List.length_eraseIdx_of_lt hs]
    omega
  · rfl

/-- the moved entry sits at `dst` -/
theorem getElem_moveList_dst {l : List β} {src dst : Nat} (hs : src < l.length)
    (hd : dst < l.length) :
    (moveList src dst l)[dst]'(by rw [length_moveList hd]; exact hd) = l[src] := by
  simp [moveList_of_lt hs]

/-- moving back is the inverse of moving -/
theorem moveList_moveList {l : List β} {src dst : Nat} (hs : src < l.length) (hd : dst < l.length) :
    moveList dst src (moveList src dst l) = l := by
  have hlen : dst < (moveList src dst l).length := by rw [length_moveList hd]; exact hd
  rw [moveList_of_lt hlen, getElem_moveList_dst hs hd]
  rw [moveList_of_lt hs, List.eraseIdx_insertIdx_self]
  exact List.insertIdx_eraseIdx_getElem hs

/-- `moveList` in block form: an entry between `b` and `s ++ t` jumps behind `s` -/
theorem moveList_fwd (b s t : List β) (x : β) :
    moveList b.length (b.length + s.length) (b ++ x :: (s ++ t)) = b ++ (s ++ x :: t) := by
  rw [moveList_of_lt (by simp)]
  simp only [List.getElem_append_right (Nat.le_refl _), Nat.sub_self, List.getElem_cons_zero]
  rw [List.eraseIdx_append_of_length_le (Nat.le_refl _), Nat.sub_self, List.eraseIdx_cons_zero]
  induction b with
  | nil =>
    simp only [List.nil_append, List.length_nil, Nat.zero_add]
    induction s with
    | nil => simp
    | cons y s ih => simp [ih]
  | cons y b ih =>
    have : (y :: b).length + s.length = (b.length + s.length) + 1 := by simp; omega
    rw [this]
    simpa using ih

/-- `moveList` in block form, the other direction: the entry behind `s` jumps in front of it -/
theorem moveList_bwd (b s t : List β) (x : β) :
    moveList (b.length + s.length) b.length (b ++ (s ++ x :: t)) = b ++ x :: (s ++ t) := by
  have h := moveList_moveList (l := b ++ x :: (s ++ t)) (src := b.length)
    (dst := b.length + s.length) (by simp) (by simp; omega)
  rw [moveList_fwd] at h
  exact h

/-- `moveList` commutes with mapping -/
theorem moveList_map {γ : Type} (f : β → γ) (src dst : Nat) (l : List β) :
    moveList src dst (l.map f) = (moveList src dst l).map f := by
  unfold moveList
  rcases Nat.lt_or_ge src l.length with h | h
  · simp only [List.getElem?_map, List.getElem?_eq_getElem h, Option.map_some]
    rw [List.map_insertIdx, List.eraseIdx_map]
  · simp [List.getElem?_eq_none h]

end MoveList


/-! ## more on `moveList`: validity, `set`, `getD` -/

theorem InRange.eraseIdx {s i : List Nat} (h : InRange s i) (k : Nat) :
    InRange (s.eraseIdx k) (i.eraseIdx k) := by
  induction s generalizing i k with
  | nil => cases i <;> simp_all [InRange]
  | cons n s ih =>
    cases i with
    | nil => simp [InRange] at h
    | cons a i =>
      cases k with
      | zero => exact h.2
      | succ k => exact ⟨h.1, ih h.2 k⟩

theorem InRange.insertIdx {s i : List Nat} (h : InRange s i) (k n x : Nat) (hx : x < n) :
    InRange (s.insertIdx k n) (i.insertIdx k x) := by
  induction s generalizing i k with
  | nil =>
    cases i with
    | nil => cases k <;> simp [InRange, hx]
    | cons a i => simp [InRange] at h
  | cons m s ih =>
    cases i with
    | nil => simp [InRange] at h
    | cons a i =>
      cases k with
      | zero => exact ⟨hx, h⟩
      | succ k => exact ⟨h.1, ih h.2 k⟩

/-- entry `ax` of a valid multi-index, `getElem` form -/
theorem InRange.getElem_lt {s i : List Nat} (h : InRange s i) {ax : Nat} (hs : ax < s.length)
    (hi : ax < i.length) : i[ax] < s[ax] := by
  have := h.getD_lt hs
  simpa [List.getD_eq_getElem?_getD, List.getElem?_eq_getElem hs, List.getElem?_eq_getElem hi]
    using this

/-- moving the same axis in shape and index keeps validity -/
theorem InRange.moveList {s i : List Nat} (h : InRange s i) {src : Nat} (dst : Nat)
    (hs : src < s.length) :
    InRange (moveList src dst s) (moveList src dst i) := by
  have hi : src < i.length := by rw [h.length_eq]; exact hs
  rw [moveList_of_lt hs, moveList_of_lt hi]
  exact (h.eraseIdx src).insertIdx dst _ _ (h.getElem_lt hs hi)

section MoveList2
variable {β : Type}

theorem set_insertIdx_self (l : List β) (k : Nat) (x v : β) :
    (l.insertIdx k x).set k v = l.insertIdx k v := by
  induction l generalizing k with
  | nil => cases k <;> simp
  | cons y l ih => cases k <;> simp [ih]

/-- overwriting the moved entry before or after the move is the same -/
theorem moveList_set_src {l : List β} {src dst : Nat} (hs : src < l.length) (v : β) :
    moveList src dst (l.set src v) = (moveList src dst l).set dst v := by
  rw [moveList_of_lt (by simpa using hs), moveList_of_lt hs, set_insertIdx_self]
  simp [List.eraseIdx_set_eq]

theorem getD_moveList_dst {l : List β} {src dst : Nat} (hs : src < l.length) (hd : dst < l.length)
    (d : β) : (moveList src dst l).getD dst d = l.getD src d := by
  have hd' : dst < (moveList src dst l).length := by rw [length_moveList hd]; exact hd
  simp only [List.getD_eq_getElem?_getD, List.getElem?_eq_getElem hd', List.getElem?_eq_getElem hs,
    getElem_moveList_dst hs hd]

end MoveList2

/-! ## small facts about `set` / `getD` on lists -/

theorem getD_set_self {β : Type} {l : List β} {k : Nat} (h : k < l.length) (v d : β) :
    (l.set k v).getD k d = v := by
  simp [List.getD_eq_getElem?_getD, h]

theorem set_getD_self {β : Type} (l : List β) (k : Nat) (d : β) (h : k < l.length) :
    l.set k (l.getD k d) = l := by
  simp [List.getD_eq_getElem?_getD, List.getElem?_eq_getElem h]

theorem InRange.length_of_set {s i : List Nat} {ax m : Nat} (h : InRange (s.set ax m) i) :
    i.length = s.length := by
  have := h.length_eq
  rwa [List.length_set] at this

/-- entry `ax` of a multi-index valid for `s.set ax m` is below `m` -/
theorem InRange.getD_lt_of_set {s i : List Nat} {ax m : Nat} (h : InRange (s.set ax m) i)
    (hax : ax < s.length) : i.getD ax 0 < m := by
  have := h.getD_lt (ax := ax) (by rwa [List.length_set])
  rwa [getD_set_self hax] at this

/-! ## arrays: read-out of every operation -/

namespace NDArr
variable {α : Type}

@[simp] theorem shape_ofFn (s : List Nat) (f : List Nat → α) : (ofFn s f).shape = s := rfl

/-- `ofFn` builds a well-formed array -/
theorem wf_ofFn (s : List Nat) (f : List Nat → α) : (ofFn s f).WF := by
  simp [WF, ofFn]

/-- reading `ofFn s f` at a valid index gives `f` there -/
theorem get_ofFn [Inhabited α] {s i : List Nat} (f : List Nat → α) (h : InRange s i) :
    (ofFn s f).get i = f i := by
  have hlt := ravel_lt h
  simp [get, ofFn, Array.getD, hlt, unravel_ravel h]

/-- in-range reads of a well-formed array are honest array reads -/
theorem get_eq_getElem [Inhabited α] (a : NDArr α) (r : Nat) (hr : r < a.data.size)
    (i : List Nat) (hi : ravel a.shape i = r) : a.get i = a.data[r] := by
  simp [get, Array.getD, hi, hr]

/-- Extensionality: two well-formed arrays of the same shape that agree at every valid
multi-index are equal. -/
theorem ext_get [Inhabited α] {a b : NDArr α} (hs : a.shape = b.shape) (ha : a.WF) (hb : b.WF)
    (h : ∀ i, InRange a.shape i → a.get i = b.get i) : a = b := by
  obtain ⟨sa, da⟩ := a
  obtain ⟨sb, db⟩ := b
  simp only at hs
  subst hs
  simp only [WF] at ha hb
  congr 1
  apply Array.ext (by rw [ha, hb])
  intro r h1 h2
  have hr : r < sa.prod := by rw [← ha]; exact h1
  have := h (unravel sa r) (unravel_inRange hr)
  rw [get_eq_getElem ⟨sa, da⟩ r h1 _ (ravel_unravel hr),
    get_eq_getElem ⟨sa, db⟩ r h2 _ (ravel_unravel hr)] at this
  exact this

/-! ### reshape -/

@[simp] theorem shape_reshape (a : NDArr α) (s : List Nat) : (a.reshape s).shape = s := rfl
@[simp] theorem data_reshape (a : NDArr α) (s : List Nat) : (a.reshape s).data = a.data := rfl

theorem wf_reshape {a : NDArr α} {s : List Nat} (ha : a.WF) (hs : s.prod = a.shape.prod) :
    (a.reshape s).WF := by
  simp [WF, hs]; exact ha

/-- reshaping twice is reshaping once -/
@[simp] theorem reshape_reshape (a : NDArr α) (s t : List Nat) :
    (a.reshape s).reshape t = a.reshape t := rfl

/-- reshaping to the own shape is the identity -/
@[simp] theorem reshape_self (a : NDArr α) : a.reshape a.shape = a := rfl

/-- reshaping back to the original shape restores the array (data are never touched) -/
theorem reshape_back (a : NDArr α) (s t : List Nat) (h : t = a.shape) :
    (a.reshape s).reshape t = a := by subst h; rfl

/-- the general read-out of a reshape: equal flat offsets read equal entries -/
theorem get_reshape_of_ravel_eq [Inhabited α] (a : NDArr α) (s i j : List Nat)
    (h : ravel s i = ravel a.shape j) : (a.reshape s).get i = a.get j := by
  simp [get, h]

/-- splitting axis `n * m` into `(n, m)`: entry `(…, x, y, …)` of the reshaped array is entry
`(…, x * m + y, …)` of the original -/
theorem get_reshape_split [Inhabited α] (a : NDArr α) {s₁ i₁ : List Nat} (s₂ i₂ : List Nat)
    (n m x y : Nat) (hsh : a.shape = s₁ ++ (n * m) :: s₂) (hl : i₁.length = s₁.length) :
    (a.reshape (s₁ ++ n :: m :: s₂)).get (i₁ ++ x :: y :: i₂) = a.get (i₁ ++ (x * m + y) :: i₂) := by
  apply get_reshape_of_ravel_eq
  rw [hsh, ravel_split _ _ _ _ _ _ hl]

/-- merging the axes `q` into one axis of extent `q.prod`: entry `(…, ravel q j, …)` of the
reshaped array is entry `(…, j, …)` of the original -/
theorem get_reshape_merge [Inhabited α] (a : NDArr α) {s₁ i₁ : List Nat} (q j s₂ i₂ : List Nat)
    (hsh : a.shape = s₁ ++ (q ++ s₂)) (hl : i₁.length = s₁.length) (hj : j.length = q.length) :
    (a.reshape (s₁ ++ q.prod :: s₂)).get (i₁ ++ ravel q j :: i₂) = a.get (i₁ ++ (j ++ i₂)) := by
  apply get_reshape_of_ravel_eq
  rw [hsh, ravel_merge _ _ _ _ hl hj]

/-- the extent inferred for `-1` when an axis `n` is replaced by `(-1)` between the same
neighbours is `n` again (non-empty neighbours) -/
theorem inferDim_self (pre post : List Nat) (n : Nat) (h : 0 < pre.prod * post.prod) :
    inferDim (pre ++ n :: post).prod pre post = n := by
  simp only [inferDim, List.prod_append, List.prod_cons]
  have : pre.prod * (n * post.prod) = n * (pre.prod * post.prod) := by ring
  rw [this, Nat.mul_div_cancel _ h]

/-- the extent inferred for `-1` standing for a block of axes `q` is `q.prod` -/
theorem inferDim_block (pre q post : List Nat) (h : 0 < pre.prod * post.prod) :
    inferDim (pre ++ (q ++ post)).prod pre post = q.prod := by
  simp only [inferDim, List.prod_append]
  have : pre.prod * (q.prod * post.prod) = q.prod * (pre.prod * post.prod) := by ring
  rw [this, Nat.mul_div_cancel _ h]

/-! ### moveaxis -/

@[simp] theorem shape_moveaxis [Inhabited α] (a : NDArr α) (src dst : Nat) :
    (a.moveaxis src dst).shape = moveList src dst a.shape := rfl

theorem wf_moveaxis [Inhabited α] (a : NDArr α) (src dst : Nat) : (a.moveaxis src dst).WF :=
  wf_ofFn _ _

/-- entry `i` of `moveaxis a src dst` is the entry of `a` at `i` with position `dst` moved back
to `src` -/
theorem get_moveaxis [Inhabited α] (a : NDArr α) (src dst : Nat) {i : List Nat}
    (h : InRange (moveList src dst a.shape) i) :
    (a.moveaxis src dst).get i = a.get (moveList dst src i) :=
  get_ofFn _ h

/-- `moveaxis` is undone by the opposite `moveaxis` -/
theorem moveaxis_moveaxis [Inhabited α] {a : NDArr α} (ha : a.WF) {src dst : Nat}
    (hs : src < a.shape.length) (hd : dst < a.shape.length) :
    (a.moveaxis src dst).moveaxis dst src = a := by
  apply ext_get
  · simp [moveList_moveList hs hd]
  · exact wf_moveaxis _ _ _
  · exact ha
  · intro i hi
    have hsh : ((a.moveaxis src dst).moveaxis dst src).shape = a.shape := by
      simp [moveList_moveList hs hd]
    rw [hsh] at hi
    have hil : i.length = a.shape.length := hi.length_eq
    rw [get_moveaxis _ _ _ (by simpa [moveList_moveList hs hd] using hi)]
    rw [get_moveaxis _ _ _ (hi.moveList dst hs)]
    rw [moveList_moveList (by rw [hil]; exact hs) (by rw [hil]; exact hd)]

/-- block form of `get_moveaxis` (axis at position `|b|` moved behind the block `s`) -/
theorem get_moveaxis_fwd [Inhabited α] (a : NDArr α) (sb ss st : List Nat) (n : Nat)
    (hsh : a.shape = sb ++ n :: (ss ++ st)) (b s t : List Nat) (x : Nat)
    (hb : InRange sb b) (hs : InRange ss s) (ht : InRange st t) (hx : x < n) :
    (a.moveaxis sb.length (sb.length + ss.length)).get (b ++ (s ++ x :: t))
      = a.get (b ++ x :: (s ++ t)) := by
  have hbl := hb.length_eq
  have hsl := hs.length_eq
  rw [get_moveaxis]
  · rw [← hbl, ← hsl, moveList_bwd]
  · rw [hsh, moveList_fwd]
    rw [inRange_append hbl, inRange_append hsl]
    exact ⟨hb, hs, hx, ht⟩

/-- block form of `get_moveaxis`, other direction (axis behind the block `s` moved in front) -/
theorem get_moveaxis_bwd [Inhabited α] (a : NDArr α) (sb ss st : List Nat) (n : Nat)
    (hsh : a.shape = sb ++ (ss ++ n :: st)) (b s t : List Nat) (x : Nat)
    (hb : InRange sb b) (hs : InRange ss s) (ht : InRange st t) (hx : x < n) :
    (a.moveaxis (sb.length + ss.length) sb.length).get (b ++ x :: (s ++ t))
      = a.get (b ++ (s ++ x :: t)) := by
  have hbl := hb.length_eq
  have hsl := hs.length_eq
  rw [get_moveaxis]
  · rw [← hbl, ← hsl, moveList_fwd]
  · rw [hsh, moveList_bwd]
    rw [inRange_append hbl]
    refine ⟨hb, hx, ?_⟩
    rw [inRange_append hsl]
    exact ⟨hs, ht⟩

/-! ### concat -/

@[simp] theorem shape_concat [Inhabited α] (ax : Nat) (a b : NDArr α) :
    (concat ax a b).shape = a.shape.set ax (a.shape.getD ax 0 + b.shape.getD ax 0) := rfl

theorem wf_concat [Inhabited α] (ax : Nat) (a b : NDArr α) : (concat ax a b).WF := wf_ofFn _ _

/-- read-out of a concatenation: below the first extent read `a`, otherwise `b` shifted -/
theorem get_concat [Inhabited α] (ax : Nat) (a b : NDArr α) {i : List Nat}
    (h : InRange (a.shape.set ax (a.shape.getD ax 0 + b.shape.getD ax 0)) i) :
    (concat ax a b).get i =
      if i.getD ax 0 < a.shape.getD ax 0 then a.get i
      else b.get (i.set ax (i.getD ax 0 - a.shape.getD ax 0)) :=
  get_ofFn _ h

/-! ### slices -/

@[simp] theorem shape_sliceAxis [Inhabited α] (ax lo hi : Nat) (a : NDArr α) :
    (sliceAxis ax lo hi a).shape = a.shape.set ax (hi - lo) := rfl

theorem wf_sliceAxis [Inhabited α] (ax lo hi : Nat) (a : NDArr α) : (sliceAxis ax lo hi a).WF :=
  wf_ofFn _ _

/-- read-out of a slice: shift the index along the axis by `lo` -/
theorem get_slice [Inhabited α] (ax lo hi : Nat) (a : NDArr α) {i : List Nat}
    (h : InRange (a.shape.set ax (hi - lo)) i) :
    (sliceAxis ax lo hi a).get i = a.get (i.set ax (i.getD ax 0 + lo)) :=
  get_ofFn _ h

/-- the full slice is the array itself -/
theorem slice_full [Inhabited α] {a : NDArr α} (ha : a.WF) {ax : Nat} (hax : ax < a.shape.length) :
    sliceAxis ax 0 (a.shape.getD ax 0) a = a := by
  have hsh : (sliceAxis ax 0 (a.shape.getD ax 0) a).shape = a.shape := by
    rw [shape_sliceAxis, Nat.sub_zero, set_getD_self _ _ _ hax]
  apply ext_get hsh (wf_sliceAxis _ _ _ _) ha
  intro i hi
  rw [get_slice _ _ _ _ hi]
  have hil : ax < i.length := by rw [hi.length_of_set]; exact hax
  rw [Nat.add_zero, set_getD_self _ _ _ hil]

/-- a slice that stays inside the first operand of a concatenation only sees that operand -/
theorem slice_concat_left [Inhabited α] {a : NDArr α} (b : NDArr α) {ax lo hi : Nat}
    (hax : ax < a.shape.length) (hhi : hi ≤ a.shape.getD ax 0) :
    sliceAxis ax lo hi (concat ax a b) = sliceAxis ax lo hi a := by
  have hsh : (sliceAxis ax lo hi (concat ax a b)).shape = (sliceAxis ax lo hi a).shape := by
    simp only [shape_sliceAxis, shape_concat, List.set_set]
  apply ext_get hsh (wf_sliceAxis _ _ _ _) (wf_sliceAxis _ _ _ _)
  intro i hi'
  have hi2 : InRange (a.shape.set ax (hi - lo)) i := by rw [hsh] at hi'; exact hi'
  have hil : ax < i.length := by rw [hi2.length_of_set]; exact hax
  have hx : i.getD ax 0 < hi - lo := hi2.getD_lt_of_set hax
  rw [get_slice _ _ _ _ hi', get_slice _ _ _ _ hi2, get_concat]
  · rw [getD_set_self hil, if_pos (by omega)]
  · have := hi2.set ax (i.getD ax 0 + lo) (a.shape.getD ax 0 + b.shape.getD ax 0) (by omega)
    rwa [List.set_set] at this

/-- a slice that starts behind the first operand of a concatenation only sees the second -/
theorem slice_concat_right [Inhabited α] {a b : NDArr α} {ax lo hi m : Nat}
    (hax : ax < a.shape.length) (hb : b.shape = a.shape.set ax m)
    (hlo : a.shape.getD ax 0 ≤ lo) (hhi : hi ≤ a.shape.getD ax 0 + m) (hlh : lo ≤ hi) :
    sliceAxis ax lo hi (concat ax a b)
      = sliceAxis ax (lo - a.shape.getD ax 0) (hi - a.shape.getD ax 0) b := by
  have hbm : b.shape.getD ax 0 = m := by rw [hb, getD_set_self hax]
  have e : hi - a.shape.getD ax 0 - (lo - a.shape.getD ax 0) = hi - lo := by omega
  have hsh : (sliceAxis ax lo hi (concat ax a b)).shape
      = (sliceAxis ax (lo - a.shape.getD ax 0) (hi - a.shape.getD ax 0) b).shape := by
    simp only [shape_sliceAxis, shape_concat, List.set_set, hb, e]
  apply ext_get hsh (wf_sliceAxis _ _ _ _) (wf_sliceAxis _ _ _ _)
  intro i hi'
  have hi3 := hi'
  rw [hsh] at hi3
  have hi2 : InRange (a.shape.set ax (hi - lo)) i := by
    simpa only [shape_sliceAxis, shape_concat, List.set_set] using hi'
  have hil : ax < i.length := by rw [hi2.length_of_set]; exact hax
  have hx : i.getD ax 0 < hi - lo := hi2.getD_lt_of_set hax
  rw [get_slice _ _ _ _ hi', get_slice _ _ _ _ hi3, get_concat]
  · rw [getD_set_self hil, if_neg (by omega), List.set_set]
    congr 2
    omega
  · have := hi2.set ax (i.getD ax 0 + lo) (a.shape.getD ax 0 + b.shape.getD ax 0) (by omega)
    rwa [List.set_set] at this

/-- splitting a concatenation at the seam returns the first operand … -/
theorem slice_concat_fst [Inhabited α] {a : NDArr α} (b : NDArr α) (ha : a.WF) {ax : Nat}
    (hax : ax < a.shape.length) :
    sliceAxis ax 0 (a.shape.getD ax 0) (concat ax a b) = a := by
  rw [slice_concat_left b hax (Nat.le_refl _), slice_full ha hax]

/-- … and the second operand -/
theorem slice_concat_snd [Inhabited α] {a b : NDArr α} (hbw : b.WF) {ax m : Nat}
    (hax : ax < a.shape.length) (hb : b.shape = a.shape.set ax m) :
    sliceAxis ax (a.shape.getD ax 0) (a.shape.getD ax 0 + m) (concat ax a b) = b := by
  have hbm : b.shape.getD ax 0 = m := by rw [hb, getD_set_self hax]
  have hbl : ax < b.shape.length := by rw [hb, List.length_set]; exact hax
  rw [slice_concat_right hax hb (Nat.le_refl _) (Nat.le_refl _) (by omega)]
  have : a.shape.getD ax 0 + m - a.shape.getD ax 0 = b.shape.getD ax 0 := by omega
  rw [Nat.sub_self, this, slice_full hbw hbl]

/-- concatenating the two halves of a split restores the array -/
theorem concat_slice [Inhabited α] {a : NDArr α} (ha : a.WF) {ax k : Nat}
    (hax : ax < a.shape.length) (hk : k ≤ a.shape.getD ax 0) :
    concat ax (sliceAxis ax 0 k a) (sliceAxis ax k (a.shape.getD ax 0) a) = a := by
  have e : k - 0 + (a.shape.getD ax 0 - k) = a.shape.getD ax 0 := by omega
  have hsh : (concat ax (sliceAxis ax 0 k a) (sliceAxis ax k (a.shape.getD ax 0) a)).shape
      = a.shape := by
    simp only [shape_concat, shape_sliceAxis, getD_set_self hax, List.set_set, e,
      set_getD_self _ _ _ hax]
  apply ext_get hsh (wf_concat _ _ _) ha
  intro i hi
  have hi0 := hi
  rw [hsh] at hi
  have hil : ax < i.length := by rw [hi.length_eq]; exact hax
  have hx := hi.getD_lt hax
  rw [get_concat _ _ _ (by rw [← shape_concat]; exact hi0)]
  simp only [shape_sliceAxis, getD_set_self hax, Nat.sub_zero]
  split
  · rename_i hlt
    rw [get_slice]
    · rw [Nat.add_zero, set_getD_self _ _ _ hil]
    · have := hi.set ax (i.getD ax 0) (k - 0) (by omega)
      rwa [set_getD_self _ _ _ hil] at this
  · rename_i hge
    rw [get_slice]
    · rw [getD_set_self hil, List.set_set]
      have : i.getD ax 0 - k + k = i.getD ax 0 := by omega
      rw [this, set_getD_self _ _ _ hil]
    · exact hi.set ax _ _ (by omega)

/-- `moveaxis` of the concatenation axis distributes over `concat` (numpy demands that `b` has
the shape of `a` except along `ax`) -/
theorem moveaxis_concat [Inhabited α] (a b : NDArr α) {ax dst m : Nat} (hax : ax < a.shape.length)
    (hd : dst < a.shape.length) (hb : b.shape = a.shape.set ax m) :
    (concat ax a b).moveaxis ax dst = concat dst (a.moveaxis ax dst) (b.moveaxis ax dst) := by
  have hbx : ax < b.shape.length := by rw [hb, List.length_set]; exact hax
  have hbd : dst < b.shape.length := by rw [hb, List.length_set]; exact hd
  have hmd : dst < (moveList ax dst a.shape).length := by rw [length_moveList hd]; exact hd
  have hshape : ((concat ax a b).moveaxis ax dst).shape
      = (concat dst (a.moveaxis ax dst) (b.moveaxis ax dst)).shape := by
    simp only [shape_moveaxis, shape_concat, moveList_set_src hax, getD_moveList_dst hax hd,
      getD_moveList_dst hbx hbd]
  apply ext_get hshape (wf_moveaxis _ _ _) (wf_concat _ _ _)
  intro i hi
  have hi1 : InRange (moveList ax dst (a.shape.set ax (a.shape.getD ax 0 + b.shape.getD ax 0))) i :=
    hi
  have hi2 : InRange ((moveList ax dst a.shape).set dst
      ((moveList ax dst a.shape).getD dst 0 + (moveList ax dst b.shape).getD dst 0)) i := by
    rw [hshape] at hi; exact hi
  have hlen : i.length = a.shape.length := by
    rw [hi2.length_of_set, length_moveList hd]
  have hdi : dst < i.length := by omega
  have hxi : ax < i.length := by omega
  rw [get_moveaxis _ _ _ hi1]
  have hback : InRange (a.shape.set ax (a.shape.getD ax 0 + b.shape.getD ax 0)) (moveList dst ax i) := by
    have := hi1.moveList (src := dst) ax
      (by rw [length_moveList (by rw [List.length_set]; exact hd), List.length_set]; exact hd)
    rwa [moveList_moveList (by rw [List.length_set]; exact hax)
      (by rw [List.length_set]; exact hd)] at this
  rw [get_concat _ _ _ hback, get_concat _ _ _ hi2]
  simp only [shape_moveaxis, getD_moveList_dst hax hd, getD_moveList_dst hdi hxi]
  split
  · rename_i hlt
    rw [get_moveaxis]
    exact hi2.of_set_self (by rw [getD_moveList_dst hax hd]; exact hlt)
  · rename_i hge
    rw [get_moveaxis]
    · rw [moveList_set_src hdi]
    · have hx := hi2.getD_lt_of_set hmd
      rw [getD_moveList_dst hax hd, getD_moveList_dst hbx hbd] at hx
      have hbm : b.shape.getD ax 0 = m := by rw [hb, getD_set_self hax]
      have : moveList ax dst b.shape = (moveList ax dst a.shape).set dst m := by
        rw [hb, moveList_set_src hax]
      rw [this]
      have := hi2.set dst (i.getD dst 0 - a.shape.getD ax 0) m (by omega)
      rwa [List.set_set] at this

/-! ### rows / stack / take -/

@[simp] theorem shape_row [Inhabited α] (a : NDArr α) (j : Nat) : (a.row j).shape = a.shape.tail :=
  rfl

theorem wf_row [Inhabited α] (a : NDArr α) (j : Nat) : (a.row j).WF := wf_ofFn _ _

/-- entry `i` of the `j`-th row is entry `j :: i` -/
theorem get_row [Inhabited α] (a : NDArr α) (j : Nat) {i : List Nat} (h : InRange a.shape.tail i) :
    (a.row j).get i = a.get (j :: i) := get_ofFn _ h

@[simp] theorem shape_stack [Inhabited α] (s : List Nat) (xs : List (NDArr α)) :
    (stack s xs).shape = xs.length :: s := rfl

theorem wf_stack [Inhabited α] (s : List Nat) (xs : List (NDArr α)) : (stack s xs).WF := wf_ofFn _ _

/-- entry `j :: i` of a stack is entry `i` of its `j`-th member -/
theorem get_stack [Inhabited α] (s : List Nat) (xs : List (NDArr α)) {j : Nat} {i : List Nat}
    (hj : j < xs.length) (h : InRange s i) :
    (stack s xs).get (j :: i) = (xs.getD j default).get i :=
  get_ofFn (s := xs.length :: s) _ ⟨hj, h⟩

@[simp] theorem length_rows [Inhabited α] (a : NDArr α) : a.rows.length = a.shape.headD 0 := by
  simp [rows]

theorem getD_rows [Inhabited α] (a : NDArr α) {j : Nat} (hj : j < a.shape.headD 0) :
    a.rows.getD j default = a.row j := by
  unfold rows
  rw [List.getD_eq_getElem?_getD, List.getElem?_map, List.getElem?_range hj]
  rfl

/-- stacking the rows of an array restores it -/
theorem stack_rows [Inhabited α] {a : NDArr α} (ha : a.WF) {n : Nat} {s : List Nat}
    (hsh : a.shape = n :: s) : stack s a.rows = a := by
  have hn : a.shape.headD 0 = n := by rw [hsh]; rfl
  have hshape : (stack s a.rows).shape = a.shape := by
    rw [shape_stack, length_rows, hn, hsh]
  apply ext_get hshape (wf_stack _ _) ha
  intro i hi
  rw [hshape, hsh] at hi
  cases i with
  | nil => simp [InRange] at hi
  | cons j is =>
    obtain ⟨hj, his⟩ := hi
    rw [get_stack _ _ (by rw [length_rows, hn]; exact hj) his, getD_rows _ (by rw [hn]; exact hj),
      get_row _ _ (by rw [hsh]; exact his)]

/-- the rows of a stack are its members -/
theorem rows_stack [Inhabited α] {s : List Nat} {xs : List (NDArr α)}
    (h : ∀ x ∈ xs, x.shape = s ∧ x.WF) : (stack s xs).rows = xs := by
  apply List.ext_getElem
  · simp
  · intro j h1 h2
    have hx := h xs[j] (List.getElem_mem h2)
    simp only [rows, List.getElem_map, List.getElem_range]
    apply ext_get
    · rw [shape_row, shape_stack, List.tail_cons, hx.1]
    · exact wf_row _ _
    · exact hx.2
    · intro i hi
      rw [shape_row, shape_stack, List.tail_cons] at hi
      rw [get_row (stack s xs) j (by exact hi), get_stack _ _ h2 hi]
      simp [List.getD_eq_getElem?_getD, h2]

/-- concatenating two stacks along the first axis is the stack of the concatenated lists -/
theorem concat_stack [Inhabited α] (s : List Nat) (xs ys : List (NDArr α)) :
    concat 0 (stack s xs) (stack s ys) = stack s (xs ++ ys) := by
  have hshape : (concat 0 (stack s xs) (stack s ys)).shape = (stack s (xs ++ ys)).shape := by
    simp
  apply ext_get hshape (wf_concat _ _ _) (wf_stack _ _)
  intro i hi
  have hi0 := hi
  rw [hshape, shape_stack] at hi
  cases i with
  | nil => simp [InRange] at hi
  | cons j is =>
    obtain ⟨hj, his⟩ := hi
    rw [get_concat _ _ _ (by rw [← shape_concat]; exact hi0), get_stack _ _ hj his]
    simp only [shape_stack, List.getD_cons_zero, List.set_cons_zero]
    rw [List.length_append] at hj
    split
    · rename_i hlt
      rw [get_stack _ _ hlt his]
      simp [List.getD_eq_getElem?_getD, List.getElem?_append_left hlt]
    · rename_i hge
      rw [get_stack _ _ (by omega) his]
      simp [List.getD_eq_getElem?_getD, List.getElem?_append_right (Nat.le_of_not_lt hge)]

/-- adding a leading axis of extent 1 is the stack of the single array -/
theorem reshape_one_eq_stack [Inhabited α] {x : NDArr α} (hx : x.WF) :
    x.reshape (1 :: x.shape) = stack x.shape [x] := by
  apply ext_get
  · simp
  · exact wf_reshape hx (by simp)
  · exact wf_stack _ _
  · intro i hi
    rw [shape_reshape] at hi
    cases i with
    | nil => simp [InRange] at hi
    | cons j is =>
      obtain ⟨hj, his⟩ := hi
      have hj0 : j = 0 := by omega
      subst hj0
      rw [get_stack _ _ (by simp) his]
      simp [get, ravel]

@[simp] theorem shape_takeAxis [Inhabited α] (ax : Nat) (idxs : List Nat) (a : NDArr α) :
    (takeAxis ax idxs a).shape = a.shape.set ax idxs.length := rfl

theorem wf_takeAxis [Inhabited α] (ax : Nat) (idxs : List Nat) (a : NDArr α) :
    (takeAxis ax idxs a).WF := wf_ofFn _ _

/-- read-out of integer-array indexing along one axis -/
theorem get_takeAxis [Inhabited α] (ax : Nat) (idxs : List Nat) (a : NDArr α) {i : List Nat}
    (h : InRange (a.shape.set ax idxs.length) i) :
    (takeAxis ax idxs a).get i = a.get (i.set ax (idxs.getD (i.getD ax 0) 0)) :=
  get_ofFn _ h

/-- taking all indices in order is the identity -/
theorem takeAxis_range [Inhabited α] {a : NDArr α} (ha : a.WF) {ax : Nat}
    (hax : ax < a.shape.length) : takeAxis ax (List.range (a.shape.getD ax 0)) a = a := by
  have hsh : (takeAxis ax (List.range (a.shape.getD ax 0)) a).shape = a.shape := by
    rw [shape_takeAxis, List.length_range, set_getD_self _ _ _ hax]
  apply ext_get hsh (wf_takeAxis _ _ _) ha
  intro i hi
  rw [get_takeAxis _ _ _ hi]
  rw [hsh] at hi
  have hil : ax < i.length := by rw [hi.length_eq]; exact hax
  have hx := hi.getD_lt hax
  have : (List.range (a.shape.getD ax 0)).getD (i.getD ax 0) 0 = i.getD ax 0 := by
    rw [List.getD_eq_getElem?_getD (l := List.range _), List.getElem?_range hx]; rfl
  rw [this, set_getD_self _ _ _ hil]

/-! ### well-formedness is preserved by `map`, and `map` commutes with reads -/

theorem wf_map {β : Type} (f : α → β) {a : NDArr α} (ha : a.WF) : (a.map f).WF := by
  simpa [WF, map] using ha

/-! ### folds of `concat` (what a loop of `append`s builds) and Python slice bounds -/

theorem length_shape_concat [Inhabited α] (ax : Nat) (a b : NDArr α) :
    (concat ax a b).shape.length = a.shape.length := by
  rw [shape_concat, List.length_set]

theorem getD_shape_concat [Inhabited α] {ax : Nat} (a b : NDArr α) (hax : ax < a.shape.length) :
    (concat ax a b).shape.getD ax 0 = a.shape.getD ax 0 + b.shape.getD ax 0 := by
  rw [shape_concat, getD_set_self hax]

/-- a slice inside the accumulator is not affected by what is concatenated behind it -/
theorem slice_foldl_left [Inhabited α] (xs : List (NDArr α)) {acc : NDArr α} {ax lo hi : Nat}
    (hax : ax < acc.shape.length) (hhi : hi ≤ acc.shape.getD ax 0) :
    sliceAxis ax lo hi (xs.foldl (concat ax) acc) = sliceAxis ax lo hi acc := by
  induction xs generalizing acc with
  | nil => rfl
  | cons x xs ih =>
    rw [List.foldl_cons, ih (by rw [length_shape_concat]; exact hax)
      (by rw [getD_shape_concat _ _ hax]; omega)]
    exact slice_concat_left x hax hhi

/-- the slice right behind the accumulator returns the next concatenated array -/
theorem slice_foldl_next [Inhabited α] {x : NDArr α} (xs : List (NDArr α)) {acc : NDArr α}
    {ax m : Nat} (hx : x.WF) (hax : ax < acc.shape.length) (hb : x.shape = acc.shape.set ax m) :
    sliceAxis ax (acc.shape.getD ax 0) (acc.shape.getD ax 0 + m) ((x :: xs).foldl (concat ax) acc)
      = x := by
  have hxm : x.shape.getD ax 0 = m := by rw [hb, getD_set_self hax]
  rw [List.foldl_cons, slice_foldl_left xs (by rw [length_shape_concat]; exact hax)
    (by rw [getD_shape_concat _ _ hax, hxm])]
  exact slice_concat_snd hx hax hb

/-- `moveaxis` of the concatenation axis distributes over a whole fold of `concat` -/
theorem moveaxis_foldl_concat [Inhabited α] (xs : List (NDArr α)) {acc : NDArr α} {ax dst : Nat}
    (hax : ax < acc.shape.length) (hd : dst < acc.shape.length)
    (hxs : ∀ x ∈ xs, ∃ m, x.shape = acc.shape.set ax m) :
    (xs.foldl (concat ax) acc).moveaxis ax dst
      = (xs.map (·.moveaxis ax dst)).foldl (concat dst) (acc.moveaxis ax dst) := by
  induction xs generalizing acc with
  | nil => rfl
  | cons x xs ih =>
    obtain ⟨m, hm⟩ := hxs x (List.mem_cons_self)
    rw [List.foldl_cons, List.map_cons, List.foldl_cons, ← moveaxis_concat acc x hax hd hm]
    apply ih (by rw [length_shape_concat]; exact hax) (by rw [length_shape_concat]; exact hd)
    intro y hy
    obtain ⟨m', hm'⟩ := hxs y (List.mem_cons_of_mem _ hy)
    exact ⟨m', by rw [shape_concat, List.set_set]; exact hm'⟩

/-- the extent of a fold of `concat` along its axis is the sum of the extents -/
theorem getD_shape_foldl_concat [Inhabited α] (xs : List (NDArr α)) {acc : NDArr α} {ax : Nat}
    (hax : ax < acc.shape.length) :
    (xs.foldl (concat ax) acc).shape.getD ax 0
      = acc.shape.getD ax 0 + (xs.map fun x => x.shape.getD ax 0).sum := by
  induction xs generalizing acc with
  | nil => simp
  | cons x xs ih =>
    rw [List.foldl_cons, ih (by rw [length_shape_concat]; exact hax), getD_shape_concat _ _ hax]
    simp [Nat.add_assoc]

/-- all other extents of a fold of `concat` are those of the accumulator -/
theorem shape_foldl_concat [Inhabited α] (xs : List (NDArr α)) {acc : NDArr α} {ax : Nat}
    (hax : ax < acc.shape.length) :
    (xs.foldl (concat ax) acc).shape
      = acc.shape.set ax (acc.shape.getD ax 0 + (xs.map fun x => x.shape.getD ax 0).sum) := by
  induction xs generalizing acc with
  | nil =>
    rw [List.foldl_nil, List.map_nil, List.sum_nil, Nat.add_zero, set_getD_self _ _ _ hax]
  | cons x xs ih =>
    rw [List.foldl_cons, ih (by rw [length_shape_concat]; exact hax), getD_shape_concat _ _ hax,
      shape_concat, List.set_set]
    simp [Nat.add_assoc]

theorem wf_foldl_concat [Inhabited α] (xs : List (NDArr α)) {acc : NDArr α} {ax : Nat}
    (hacc : acc.WF) : (xs.foldl (concat ax) acc).WF := by
  induction xs generalizing acc with
  | nil => exact hacc
  | cons x xs ih => exact ih (wf_concat _ _ _)

end NDArr

/-- Python slice bounds that are already inside `[0, n]` are kept -/
theorem pySlice_of_le {n lo hi : Nat} (h1 : lo ≤ hi) (h2 : hi ≤ n) :
    pySlice n (lo : Int) (hi : Int) = (lo, hi) := by
  unfold pySlice
  have a1 : ¬ ((lo : Int) < 0) := by omega
  have a2 : ¬ ((hi : Int) < 0) := by omega
  have a3 : ¬ ((lo : Int) > (n : Int)) := by omega
  have a4 : ¬ ((hi : Int) > (n : Int)) := by omega
  simp only [a1, a2, a3, a4, if_false, Int.toNat_natCast]
  have : ¬ hi < lo := by omega
  simp [this]

/-- the clamping helper inside `pySlice`, for a negative bound `-m` with `m ≤ n` -/
private theorem clamp_neg {n m : Nat} (hm : 0 < m) (hmn : m ≤ n) :
    (let y : Int := if (-(m : Int)) < 0 then (-(m : Int)) + n else (-(m : Int))
     if y < 0 then 0 else if y > n then n else y.toNat) = n - m := by
  have a1 : (-(m : Int)) < 0 := by omega
  have a2 : ¬ ((-(m : Int)) + (n : Int) < 0) := by omega
  have a3 : ¬ ((-(m : Int)) + (n : Int) > (n : Int)) := by omega
  simp only [a1, if_true, a2, a3, if_false]
  omega

private theorem clamp_nat {n x : Nat} (hx : x ≤ n) :
    (let y : Int := if (x : Int) < 0 then (x : Int) + n else (x : Int)
     if y < 0 then 0 else if y > n then n else y.toNat) = x := by
  have a1 : ¬ ((x : Int) < 0) := by omega
  have a3 : ¬ ((x : Int) > (n : Int)) := by omega
  simp only [a1, if_false, a3]
  omega

/-- `slice(0, -m)` on an axis of extent `n ≥ m > 0` is `[0, n - m)` -/
theorem pySlice_zero_neg {n m : Nat} (hm : 0 < m) (hmn : m ≤ n) :
    pySlice n 0 (-(m : Int)) = (0, n - m) := by
  have h0 := clamp_nat (n := n) (x := 0) (Nat.zero_le _)
  have h1 := clamp_neg hm hmn
  simp only [Nat.cast_zero] at h0
  unfold pySlice
  simp only [h0, h1]
  simp

/-- `slice(-m, n)` on an axis of extent `n ≥ m > 0` is `[n - m, n)` -/
theorem pySlice_neg_full {n m : Nat} (hm : 0 < m) (hmn : m ≤ n) :
    pySlice n (-(m : Int)) (n : Int) = (n - m, n) := by
  have h0 := clamp_nat (n := n) (x := n) (Nat.le_refl _)
  have h1 := clamp_neg hm hmn
  unfold pySlice
  simp only [h0, h1]
  have : ¬ n < n - m := by omega
  simp [this]

/-- a negative axis `-(1 + j)` of an array of rank `r > j` is the axis `r - 1 - j` -/
theorem normAxis_neg {r j : Nat} (h : j < r) : normAxis r (-(1 + (j : Int))) = r - 1 - j := by
  unfold normAxis
  have : (-(1 + (j : Int))) < 0 := by omega
  simp only [this, if_true]
  omega

theorem normAxis_neg_one {r : Nat} (h : 0 < r) : normAxis r (-1) = r - 1 := by
  have := normAxis_neg (r := r) (j := 0) h
  simpa using this

namespace NDArr
variable {α : Type}
/-- concatenating onto an empty array (extent 0 along the axis) gives the second operand -/
theorem concat_empty_left [Inhabited α] {e x : NDArr α} {ax : Nat} (he : e.shape = x.shape.set ax 0)
    (hx : x.WF) (hax : ax < x.shape.length) : concat ax e x = x := by
  have h0 : e.shape.getD ax 0 = 0 := by rw [he, getD_set_self hax]
  have hsh : (concat ax e x).shape = x.shape := by
    rw [shape_concat, h0, he, List.set_set, Nat.zero_add, set_getD_self _ _ _ hax]
  apply ext_get hsh (wf_concat _ _ _) hx
  intro i hi
  have hi0 := hi
  rw [hsh] at hi
  have hil : ax < i.length := by rw [hi.length_eq]; exact hax
  rw [get_concat _ _ _ (by rw [← shape_concat]; exact hi0), h0, if_neg (Nat.not_lt_zero _),
    Nat.sub_zero, set_getD_self _ _ _ hil]

/-- replacing the last extent -/
theorem set_last (l : List Nat) (n v : Nat) : (l ++ [n]).set l.length v = l ++ [v] := by
  induction l with
  | nil => rfl
  | cons a l ih => simp [ih]

/-- replacing the extent right behind a prefix -/
theorem set_mid (l r : List Nat) (n v : Nat) : (l ++ n :: r).set l.length v = l ++ v :: r := by
  induction l with
  | nil => rfl
  | cons a l ih => simp [ih]

theorem getD_mid (l r : List Nat) (n : Nat) : (l ++ n :: r).getD l.length 0 = n := by
  induction l with
  | nil => rfl
  | cons a l ih => simp

end NDArr

end GinjaxVerif.ND
