import GinjaxVerif.Model.C10
import Mathlib.Tactic.SplitIfs
import Mathlib.Tactic.Ring

/-!
# C10 — index calculus of the latitude-band re-layouts of `Climate1D`

Everything is phrased through the *flat channel* view of a `(c, t, …)` block:
`flatE T e g = e[g / T, g % T]`.
-/
namespace GinjaxVerif.C10

variable {R : Type}

/-- the block `(c, T, x, y)` read with the merged channel index `g = c*T + t` -/
def flatE (T : Nat) (e : BlkE R) (g x y : Nat) : R := e.val (g / T) (g % T) x y

theorem flatE_expandComp (T : Nat) (b : Blk2 R) (comp g x y : Nat) :
    flatE T (expandComp T b comp) g x y = b.val g x y comp := by
  simp [flatE, expandComp, Nat.div_add_mod']

theorem flatE_catE (T : Nat) (hT : 0 < T) (e1 e2 : BlkE R) (g x y : Nat) :
    flatE T (catE e1 e2) g x y =
      if g < e1.c * T then flatE T e1 g x y else flatE T e2 (g - e1.c * T) x y := by
  unfold flatE catE
  simp only
  by_cases h : g < e1.c * T
  · rw [if_pos ((Nat.div_lt_iff_lt_mul hT).mpr h), if_pos h]
  · rw [if_neg (fun h' => h ((Nat.div_lt_iff_lt_mul hT).mp h')), if_neg h]
    have hle : T * e1.c ≤ g := by rw [Nat.mul_comm]; exact Nat.le_of_not_lt h
    rw [Nat.mul_comm e1.c T, Nat.sub_mul_div, Nat.sub_mul_mod hle]

/-- a row of the band layout is `(lat, merged channel)`, row-major -/
theorem bandE_val (T ny : Nat) (e : BlkE R) (r x : Nat) :
    (bandE T ny e).val r x = flatE T e (r % (e.c * T)) x (r / (e.c * T)) := by
  unfold bandE flatE
  simp only
  rw [Nat.mul_comm e.c T, Nat.mod_mul_right_div_self, Nat.mod_mul_right_mod, Nat.div_div_eq_div_mul]

theorem bandE_rows (T ny : Nat) (e : BlkE R) : (bandE T ny e).rows = ny * (e.c * T) := rfl

theorem row_mod (N y g : Nat) (hg : g < N) : (y * N + g) % N = g := by
  rw [Nat.mul_add_mod', Nat.mod_eq_of_lt hg]

theorem row_div (N y g : Nat) (hg : g < N) : (y * N + g) / N = y := by
  have hN : 0 < N := Nat.lt_of_le_of_lt (Nat.zero_le _) hg
  rw [Nat.add_comm, Nat.add_mul_div_right _ _ hN, Nat.div_eq_of_lt hg, Nat.zero_add]

/-- the band block at row `(y, g)` -/
theorem bandE_at (T ny : Nat) (e : BlkE R) (y g x : Nat) (hg : g < e.c * T) :
    (bandE T ny e).val (y * (e.c * T) + g) x = flatE T e g x y := by
  rw [bandE_val, row_mod _ _ _ hg, row_div _ _ _ hg]

/-- `from1d`'s way back: `(y*C + c)*F + t` with `c*F + t = g` is row `(y, g)` of a band of
`C*F` merged channels -/
theorem flatE_img1 (F ny : Nat) (z : Blk1 R) (off g x y : Nat) :
    (img1 F ny z).val (off + g / F) (g % F) x y
      = z.val (y * ((img1 F ny z).c * F) + (off * F + g)) x := by
  unfold img1
  simp only
  congr 1
  have := Nat.div_add_mod' g F
  generalize z.rows / F / ny = C at *
  calc (y * C + (off + g / F)) * F + g % F
      = y * (C * F) + (off * F + (g / F * F + g % F)) := by ring
    _ = y * (C * F) + (off * F + g) := by rw [this]

/-- the number of merged channels `from1d` reads off a band of `ny * N` rows -/
theorem img1_c_mul (F ny N : Nat) (z : Blk1 R) (hny : 0 < ny) (hrows : z.rows = ny * N) (hF : F ∣ N) :
    (img1 F ny z).c * F = N := by
  unfold img1
  simp only
  rw [hrows, Nat.mul_div_assoc ny hF, Nat.mul_div_cancel_left _ hny, Nat.div_mul_cancel hF]

theorem expandComp_c_mul (T : Nat) (b : Blk2 R) (comp : Nat) (h : T ∣ b.ch) :
    (expandComp T b comp).c * T = b.ch := Nat.div_mul_cancel h

theorem catE_c (e1 e2 : BlkE R) : (catE e1 e2).c = e1.c + e2.c := rfl

end GinjaxVerif.C10
