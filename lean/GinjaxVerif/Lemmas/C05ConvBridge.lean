import GinjaxVerif.Lemmas.C05Conv
import GinjaxVerif.Lemmas.ConvEquiv

/-!
# C05 ↔ C01: the default-option convolution `convI` of the expression model is the direct-sum
convolution `convSpec` of C04/C01 with the options the padding dispatch produces for
`padding=None`; hence its equivariance (`ConvHyp.hConv`) is C01's `convSpec_push`.
-/
namespace GinjaxVerif.C05
open GinjaxVerif Finset

variable {R : Type} {d : Nat}

/-- the per-axis options of `convolve_with(filter)` with default arguments -/
def defAx (tor : Fin d → Bool) (N M : Fin d → Nat) : Fin d → AxisOpt := fun j =>
  if tor j then { N := N j, M := M j, w := (M j - 1) / 2, lo := 0, hi := 0 }
  else { N := N j, M := M j, w := 0, lo := (M j - 1) / 2, hi := (M j - 1) / 2 }

def defCfg (tor : Fin d → Bool) (A F : Img R d) : ConvCfg d :=
  { ax := defAx tor A.dims F.dims, inC := 1, outC := 1, kI := A.k, kF := F.k }

def fnToListI (a : Pix d) : List Int := (List.finRange d).map a

theorem fnToListI_getD (a : Pix d) (i : Fin d) : (fnToListI a).getD i.val 0 = a i := by
  simp [fnToListI, List.getD_eq_getElem?_getD]

theorem fnToListI_cons {n : Nat} (x : Int) (t : Fin n → Int) :
    fnToListI (consFn x t) = x :: fnToListI t := by
  simp only [fnToListI, List.finRange_succ, List.map_cons, List.map_map]
  congr 1

/-- the list-indexed box sum of the expression model is the box sum of the convolution model -/
theorem sumBoxL_eq_sumBox [Zero R] [Add R] : ∀ {d : Nat} (M : Fin d → Nat) (f : List Int → R),
    sumBoxL ((List.finRange d).map M) f = sumBox M (fun a => f (fnToListI a))
  | 0, M, f => by simp [sumBoxL, sumBox, fnToListI]
  | d + 1, M, f => by
    simp only [List.finRange_succ, List.map_cons, List.map_map, sumBoxL, sumBox]
    apply sumFin_congr'
    intro a
    have ih := sumBoxL_eq_sumBox (fun i => M i.succ) (fun t => f ((a.val : Int) :: t))
    have hm : (List.finRange d).map (M ∘ Fin.succ) = (List.finRange d).map (fun i => M i.succ) := rfl
    rw [hm, ih]
    apply sumBox_congr'
    intro t
    rw [fnToListI_cons]

theorem defAx_sym (tor : Fin d → Bool) (N M : Fin d → Nat) (hN : ∀ j, 0 < N j) (j : Fin d) :
    (defAx tor N M j).Sym := by
  unfold defAx AxisOpt.Sym
  split <;> exact ⟨rfl, rfl, hN j, Nat.one_pos⟩

theorem defAx_outLen (tor : Fin d → Bool) (N M : Fin d → Nat) (hN : ∀ j, 0 < N j)
    (hodd : ∀ j, M j % 2 = 1) (j : Fin d) : (defAx tor N M j).outLen = N j := by
  have h2 : 2 * ((M j - 1) / 2) = M j - 1 := by have := hodd j; omega
  have := hN j
  unfold defAx
  split <;>
    simp only [AxisOpt.outLen, AxisOpt.padLen, AxisOpt.dilLen, AxisOpt.filtLen, Nat.mul_one,
      Nat.add_zero, Nat.div_one, Nat.mul_zero] <;> split <;> omega

theorem defAx_fits (tor : Fin d → Bool) (N M : Fin d → Nat) (hN : ∀ j, 0 < N j)
    (hodd : ∀ j, M j % 2 = 1) (j : Fin d) : (defAx tor N M j).Fits := by
  have h2 : 2 * ((M j - 1) / 2) = M j - 1 := by have := hodd j; omega
  have := hN j
  unfold defAx AxisOpt.Fits
  split <;> simp only [AxisOpt.padLen, AxisOpt.dilLen, AxisOpt.filtLen, Nat.mul_one, Nat.add_zero,
    Nat.mul_zero] <;> omega

/-- one axis: the extended accessor of the expression model is the padded signal of the
convolution model (window positions of an odd filter over an in-range output pixel) -/
theorem defAx_srcIdx (tor : Fin d → Bool) (N M : Fin d → Nat) (hN : ∀ j, 0 < N j)
    (hodd : ∀ j, M j % 2 = 1) (j : Fin d) (y a : Int) (hy : 0 ≤ y ∧ y < N j) (ha : 0 ≤ a ∧ a < M j) :
    (defAx tor N M j).srcIdx (y * ((defAx tor N M j).stride : Int) + a * ((defAx tor N M j).rd : Int)) =
      if tor j then some ((y + a - (((M j : Int) - 1) / 2)) % (N j : Int))
      else if 0 ≤ y + a - (((M j : Int) - 1) / 2) ∧ y + a - (((M j : Int) - 1) / 2) < N j
        then some (y + a - (((M j : Int) - 1) / 2)) else none := by
  have hNj : (0 : Int) < N j := by exact_mod_cast hN j
  have hhalf : (((M j - 1) / 2 : Nat) : Int) = ((M j : Int) - 1) / 2 := by
    have := hodd j; omega
  have h2 : 2 * (((M j : Int) - 1) / 2) = (M j : Int) - 1 := by have := hodd j; omega
  by_cases ht : tor j = true
  · have hD := (defAx tor N M j).dilLen_cast (by simp [defAx, ht]; exact hN j)
    simp only [defAx, ht, if_true] at hD ⊢
    simp only [AxisOpt.srcIdx, hD, Nat.cast_one, mul_one, Nat.cast_zero, sub_zero, Int.emod_one,
      Int.ediv_one, hhalf]
    rw [if_pos]
    refine ⟨by omega, by omega, trivial⟩
  · have ht' : tor j = false := by simpa using ht
    have hD := (defAx tor N M j).dilLen_cast (by simp [defAx, ht']; exact hN j)
    simp only [defAx, ht', Bool.false_eq_true, if_false] at hD ⊢
    simp only [AxisOpt.srcIdx, hD, Nat.cast_one, mul_one, Nat.cast_zero, Int.emod_one,
      Int.ediv_one, hhalf, mul_zero, add_zero, sub_zero]
    by_cases hin : 0 ≤ y + a - ((M j : Int) - 1) / 2 ∧ y + a - ((M j : Int) - 1) / 2 < N j
    · rw [if_pos hin, if_pos ⟨hin.1, by omega, trivial⟩]
      congr 1
      exact Int.emod_eq_of_lt hin.1 hin.2
    · rw [if_neg hin, if_neg]
      intro ⟨h1, h2', _⟩
      exact hin ⟨h1, by omega⟩

/-- the extended accessor is the padded signal -/
theorem extVal_eq_padVal [Zero R] (tor : Fin d → Bool) (A : Img R d) (M : Fin d → Nat)
    (hN : ∀ j, 0 < A.dims j) (hodd : ∀ j, M j % 2 = 1) (y a : Pix d) (hy : InBox A.dims y)
    (ha : InBox M a) (n : List (Fin d)) :
    extVal tor A (fun i => y i + a i - (((M i : Int) - 1) / 2)) n =
      padVal (defAx tor A.dims M) (fun z => A.val z n)
        (fun j => y j * ((defAx tor A.dims M j).stride : Int) + a j * ((defAx tor A.dims M j).rd : Int)) := by
  have key := fun j => defAx_srcIdx tor A.dims M hN hodd j (y j) (a j) (hy j) (ha j)
  rw [padVal_eq]
  unfold extVal
  by_cases hall : ∀ i, tor i = true ∨
      (0 ≤ y i + a i - (((M i : Int) - 1) / 2) ∧ y i + a i - (((M i : Int) - 1) / 2) < (A.dims i : Int))
  · have h1 : (List.finRange d).all (fun i => tor i || (decide (0 ≤ y i + a i - (((M i : Int) - 1) / 2)) &&
        decide (y i + a i - (((M i : Int) - 1) / 2) < (A.dims i : Int)))) = true := by
      simp only [List.all_eq_true, List.mem_finRange, forall_const, Bool.or_eq_true,
        Bool.and_eq_true, decide_eq_true_eq]
      exact hall
    have hok : PadOK (defAx tor A.dims M) (fun j => y j * ((defAx tor A.dims M j).stride : Int)
        + a j * ((defAx tor A.dims M j).rd : Int)) := by
      intro j
      rw [key j]
      by_cases ht : tor j = true
      · rw [if_pos ht]; rfl
      · rcases hall j with h | h
        · exact absurd h ht
        · rw [if_neg ht, if_pos h]; rfl
    rw [if_pos h1, if_pos hok]
    congr 1
    funext j
    rw [key j]
    by_cases ht : tor j = true
    · rw [if_pos ht, if_pos ht]; rfl
    · rcases hall j with h | h
      · exact absurd h ht
      · rw [if_neg ht, if_pos h, if_neg ht]; rfl
  · have h1 : ¬ (List.finRange d).all (fun i => tor i || (decide (0 ≤ y i + a i - (((M i : Int) - 1) / 2)) &&
        decide (y i + a i - (((M i : Int) - 1) / 2) < (A.dims i : Int)))) = true := by
      simp only [List.all_eq_true, List.mem_finRange, forall_const, Bool.or_eq_true,
        Bool.and_eq_true, decide_eq_true_eq]
      exact hall
    have hok : ¬ PadOK (defAx tor A.dims M) (fun j => y j * ((defAx tor A.dims M j).stride : Int)
        + a j * ((defAx tor A.dims M j).rd : Int)) := by
      intro hp
      apply hall
      intro j
      have := hp j
      rw [key j] at this
      by_cases ht : tor j = true
      · exact Or.inl ht
      · right
        simp only [ht, Bool.false_eq_true, if_false] at this
        by_contra hc
        rw [if_neg hc] at this
        simp at this
    rw [if_neg h1, if_neg hok]

/-- **`convI` is `convSpec`** with the default options, on the box and for an odd filter -/
theorem defAx_M (tor : Fin d → Bool) (N M : Fin d → Nat) (j : Fin d) : (defAx tor N M j).M = M j := by
  unfold defAx; split <;> rfl

/-- **`convI` is `convSpec`** with the default options, on the box and for an odd filter -/
theorem convI_eq_convSpec [CommRing R] (tor : Fin d → Bool) (A F : Img R d)
    (hodd : ∀ j, F.dims j % 2 = 1) (y : Pix d) (hy : InBox A.dims y) (n : List (Fin d)) :
    (convI tor A F).val y n =
      convSpec (defCfg tor A F) (fun _ _ => A.val) (fun _ _ => F.val) 0 0 y n := by
  have hN : ∀ j, 0 < A.dims j := fun j => by have := hy j; omega
  have hM : (fun j => ((defCfg tor A F).ax j).M) = F.dims := by
    funext j; exact defAx_M tor A.dims F.dims j
  have hsum : convSpec (defCfg tor A F) (fun _ _ => A.val) (fun _ _ => F.val) 0 0 y n =
      sumBox F.dims (fun a => padVal (defAx tor A.dims F.dims) (fun z => A.val z (n.take A.k))
        (fun j => y j * ((defAx tor A.dims F.dims j).stride : Int) + a j * ((defAx tor A.dims F.dims j).rd : Int))
        * F.val a (n.drop A.k)) := by
    simp only [convSpec]
    rw [hM]
    show sumFin 1 _ = _
    simp only [sumFin, add_zero]
    rfl
  rw [hsum]
  simp only [convI]
  rw [sumBoxL_eq_sumBox, sumBox_eq, sumBox_eq]
  apply Finset.sum_congr rfl
  intro a ha
  rw [mem_boxF] at ha
  simp only [fnToListI_getD]
  rw [extVal_eq_padVal tor A F.dims hN hodd y a hy ha]

theorem defAx_N (tor : Fin d → Bool) (N M : Fin d → Nat) (j : Fin d) : (defAx tor N M j).N = N j := by
  unfold defAx; split <;> rfl

theorem defCfg_push (g : SP d) (c c' : Int) (tor : Fin d → Bool) (A F : Img R d) [CommRing R] :
    defCfg (fun i => tor (g.σ i)) (pf g c A) (pf g c' F) = (defCfg tor A F).push g := by
  simp only [defCfg, ConvCfg.push, pf]
  congr 1

/-- **The equivariance `ConvHyp.hConv` of the default-option convolution, from C01.** -/
theorem convI_hConv [CommRing R] (g : SP d) (c c' : Int) (tor : Fin d → Bool) (A F : Img R d)
    (hodd : ∀ i, F.dims i % 2 = 1) :
    (convI (fun i => tor (g.σ i)) (pf g c A) (pf g c' F)).SEq (pf g (c * c') (convI tor A F)) := by
  refine ⟨rfl, rfl, ?_⟩
  intro y hy n
  have hy' : InBox (fun i => A.dims (g.σ i)) y := hy
  have hN : ∀ j, 0 < A.dims j := by
    intro j
    have := hy' (g.σ.symm j)
    simp only [Equiv.apply_symm_apply] at this
    omega
  have hodd' : ∀ j, (pf g c' F).dims j % 2 = 1 := fun j => hodd (g.σ j)
  rw [convI_eq_convSpec (fun i => tor (g.σ i)) (pf g c A) (pf g c' F) hodd' y hy' n, defCfg_push]
  have hbA : (fun (_ _ : Nat) => (pf g c A).val)
      = pfBank g c (fun j => ((defCfg tor A F).ax j).N) (fun _ _ => A.val) := by
    funext b ch y' t
    simp only [pf, pfBank, defCfg, defAx_N]
  have hbF : (fun (_ _ : Nat) => (pf g c' F).val)
      = pfBank g c' (fun j => ((defCfg tor A F).ax j).M) (fun _ _ => F.val) := by
    funext b ch y' t
    simp only [pf, pfBank, defCfg, defAx_M]
  rw [hbA, hbF, convSpec_push g (defCfg tor A F)
    (fun j => defAx_sym tor A.dims F.dims hN j) (fun j => defAx_fits tor A.dims F.dims hN hodd j)]
  have hout : (fun i => ((defCfg tor A F).ax (g.σ i)).outLen) = fun i => A.dims (g.σ i) := by
    funext i; exact defAx_outLen tor A.dims F.dims hN hodd (g.σ i)
  rw [hout]
  have hsrc : InBox A.dims (g.srcPix (fun i => A.dims (g.σ i)) y) := srcPix_inBox g A.dims y hy'
  simp only [pf]
  have hd : (convI tor A F).dims = A.dims := rfl
  rw [hd, convI_eq_convSpec tor A F hodd _ hsrc (n.map g.σ)]

/-- `convI` satisfies everything the induction of `eval_equivariant` asks of the convolution -/
theorem convI_convHyp [CommRing R] : ConvHyp (R := R) (d := d) convI :=
  convI_hyp (fun g c c' tor A F _ hodd => convI_hConv g c c' tor A F hodd)

end GinjaxVerif.C05
