import GinjaxVerif.Model.C14
import GinjaxVerif.Lemmas.NDArr
import GinjaxVerif.Lemmas.C13

/-!
# C14 — the core of "no cross-talk": flatten leading axes → map → restore

`mapLeading_get`: for an arbitrary per-image function `f`, the sub-array of `mapLeading … f x` at
the leading multi-index `li` is `f` applied to the sub-array of `x` at `li` — for any number and
any sizes of leading axes.
-/
namespace GinjaxVerif.C14
open GinjaxVerif.ND GinjaxVerif.ND.NDArr GinjaxVerif.C13

variable {α : Type} [Inhabited α]

/-! ## `subAt` -/

@[simp] theorem shape_subAt (li : List Nat) (a : NDArr α) :
    (subAt li a).shape = a.shape.drop li.length := rfl

theorem wf_subAt (li : List Nat) (a : NDArr α) : (subAt li a).WF := wf_ofFn _ _

theorem get_subAt (li : List Nat) (a : NDArr α) {i : List Nat}
    (h : InRange (a.shape.drop li.length) i) : (subAt li a).get i = a.get (li ++ i) :=
  get_ofFn _ h

theorem drop_lead {lead rest li : List Nat} (hl : li.length = lead.length) :
    (lead ++ rest).drop li.length = rest := by
  rw [hl, List.drop_left]

/-- the sub-array at the empty leading index is the array itself -/
theorem subAt_nil {a : NDArr α} (ha : a.WF) : subAt [] a = a := by
  apply ext_get (by simp) (wf_subAt _ _) ha
  intro i hi
  rw [get_subAt _ _ (by simpa using hi)]
  rfl

/-- `a[j]` is `a[(j,)]` -/
theorem row_eq_subAt (a : NDArr α) (j : Nat) : a.row j = subAt [j] a := by
  unfold row subAt
  simp

/-- sub-arrays compose: `a[li][lj] = a[li ++ lj]` -/
theorem subAt_subAt {a : NDArr α} {s₁ s₂ s₃ li lj : List Nat} (hsh : a.shape = s₁ ++ (s₂ ++ s₃))
    (hi : InRange s₁ li) (hj : InRange s₂ lj) : subAt lj (subAt li a) = subAt (li ++ lj) a := by
  have h1 := hi.length_eq
  have h2 := hj.length_eq
  have hs : (subAt lj (subAt li a)).shape = (subAt (li ++ lj) a).shape := by
    simp only [shape_subAt, List.drop_drop, List.length_append]
  apply ext_get hs (wf_subAt _ _) (wf_subAt _ _)
  intro i hin
  have hin2 : InRange s₃ i := by
    simpa [hsh, h1, h2, List.drop_drop, ← List.append_assoc] using hin
  rw [get_subAt, get_subAt, get_subAt, List.append_assoc]
  · rw [List.length_append, hsh, ← List.append_assoc, h1, h2]
    have : s₁.length + s₂.length = (s₁ ++ s₂).length := by simp
    rw [this, List.drop_left]; exact hin2
  · rw [hsh, h1, List.drop_left, inRange_append h2]; exact ⟨hj, hin2⟩
  · rw [shape_subAt, hsh, h1, List.drop_left, h2, List.drop_left]; exact hin2

/-! ## the flattened block: row `ravel lead li` is the image at `li` -/

theorem inferDim_lead (lead rest : List Nat) (h : 0 < rest.prod) :
    inferDim (lead ++ rest).prod [] rest = lead.prod := by
  have := inferDim_block [] lead rest (by simpa using h)
  simpa using this

omit [Inhabited α] in
/-- `x.reshape((-1,) + rest)` of a block of shape `lead ++ rest` -/
theorem reshapeInfer_lead {x : NDArr α} {lead rest : List Nat} (hsh : x.shape = lead ++ rest)
    (h : 0 < rest.prod) : x.reshapeInfer [] rest = x.reshape (lead.prod :: rest) := by
  unfold reshapeInfer
  rw [hsh, inferDim_lead _ _ h]
  rfl

/-- row number `ravel lead li` of the flattened block is the sub-array at `li` -/
theorem row_flat {x : NDArr α} {lead rest li : List Nat} (hsh : x.shape = lead ++ rest)
    (hli : InRange lead li) :
    (x.reshape (lead.prod :: rest)).row (ravel lead li) = subAt li x := by
  have hl := hli.length_eq
  have hs : ((x.reshape (lead.prod :: rest)).row (ravel lead li)).shape = (subAt li x).shape := by
    rw [shape_row, shape_reshape, shape_subAt, hsh, drop_lead hl]; rfl
  apply ext_get hs (wf_row _ _) (wf_subAt _ _)
  intro i hi
  have hi2 : InRange rest i := by simpa using hi
  rw [get_row _ _ (by simpa using hi2), get_subAt _ _ (by rw [hsh, drop_lead hl]; exact hi2)]
  have := get_reshape_merge x (s₁ := []) (i₁ := []) lead li rest i (by simpa using hsh) rfl hl
  simpa using this

/-! ## vmap -/

theorem shape_vmap0 (outShape : List Nat → List Nat) (f : NDArr α → NDArr α) (x : NDArr α) :
    (vmap0 outShape f x).shape = x.shape.headD 0 :: outShape x.shape.tail := by
  simp [vmap0]

theorem wf_vmap0 (outShape : List Nat → List Nat) (f : NDArr α → NDArr α) (x : NDArr α) :
    (vmap0 outShape f x).WF := wf_stack _ _

/-- entry `j :: i` of `vmap(f)(x)` is entry `i` of `f` applied to row `j` — nothing else of `x`
enters -/
theorem get_vmap0 (outShape : List Nat → List Nat) (f : NDArr α → NDArr α) (x : NDArr α)
    {j : Nat} {i : List Nat} (hj : j < x.shape.headD 0) (hi : InRange (outShape x.shape.tail) i) :
    (vmap0 outShape f x).get (j :: i) = (f (x.row j)).get i := by
  unfold vmap0
  rw [get_stack _ _ (by simpa using hj) hi]
  congr 1
  rw [List.getD_eq_getElem?_getD, List.getElem?_map]
  have := getD_rows x hj
  rw [List.getD_eq_getElem?_getD] at this
  have hlen : j < x.rows.length := by simpa using hj
  rw [List.getElem?_eq_getElem hlen] at this ⊢
  simp only [Option.getD_some, Option.map_some] at this ⊢
  rw [this]

/-- row `j` of `vmap(f)(x)` is `f` of row `j`, for a function with the announced output shape -/
theorem row_vmap0 (outShape : List Nat → List Nat) (f : NDArr α → NDArr α) (x : NDArr α)
    {j : Nat} (hj : j < x.shape.headD 0)
    (hf : (f (x.row j)).shape = outShape x.shape.tail ∧ (f (x.row j)).WF) :
    (vmap0 outShape f x).row j = f (x.row j) := by
  apply ext_get (by rw [shape_row, shape_vmap0, hf.1]; rfl) (wf_row _ _) hf.2
  intro i hi
  have hi2 : InRange (outShape x.shape.tail) i := by simpa [shape_vmap0] using hi
  rw [get_row _ _ (by simpa [shape_vmap0] using hi2), get_vmap0 _ _ _ hj hi2]

/-! ## flatten → map → restore -/

section MapLeading
variable {lead rest : List Nat} {outShape : List Nat → List Nat} {f : NDArr α → NDArr α}
  {x : NDArr α}

theorem mapLeading_eq (hsh : x.shape = lead ++ rest) (hpos : 0 < rest.prod) :
    mapLeading lead.length rest outShape f x
      = (vmap0 outShape f (x.reshape (lead.prod :: rest))).reshape (lead ++ outShape rest) := by
  unfold mapLeading
  simp only [reshapeInfer_lead hsh hpos, shape_vmap0, shape_reshape, List.tail_cons, hsh,
    List.take_left]

/-- the result has the leading shape of the input and the per-image output shape -/
theorem shape_mapLeading (hsh : x.shape = lead ++ rest) (hpos : 0 < rest.prod) :
    (mapLeading lead.length rest outShape f x).shape = lead ++ outShape rest := by
  rw [mapLeading_eq hsh hpos]; rfl

theorem wf_mapLeading (hsh : x.shape = lead ++ rest) (hpos : 0 < rest.prod) :
    (mapLeading lead.length rest outShape f x).WF := by
  rw [mapLeading_eq hsh hpos]
  apply wf_reshape (wf_vmap0 _ _ _)
  simp [shape_vmap0, List.prod_append]

/-- entry `li ++ i` of the result is entry `i` of `f` applied to the image at `li` -/
theorem get_mapLeading (hsh : x.shape = lead ++ rest) (hpos : 0 < rest.prod) {li i : List Nat}
    (hli : InRange lead li) (hi : InRange (outShape rest) i) :
    (mapLeading lead.length rest outShape f x).get (li ++ i) = (f (subAt li x)).get i := by
  have hl := hli.length_eq
  rw [mapLeading_eq hsh hpos]
  have hm := get_reshape_of_ravel_eq (vmap0 outShape f (x.reshape (lead.prod :: rest)))
    (lead ++ outShape rest) (li ++ i) (ravel lead li :: i) (by
      rw [shape_vmap0, shape_reshape]
      have := ravel_merge (s₁ := []) (i₁ := []) lead li (outShape rest) i rfl hl
      simpa using this.symm)
  rw [hm, get_vmap0 _ _ _ (by simpa using ravel_lt hli) (by simpa using hi), row_flat hsh hli]

/-- **No cross-talk (core lemma).**  For every leading multi-index `li` in range, the result of the
flatten → `vmap(f)` → restore pattern at `li` is `f` applied to the image at `li`, and to nothing
else: for ANY per-image function `f` (with the announced output shape), any number and sizes of
leading axes, any image shape. -/
theorem mapLeading_get (hsh : x.shape = lead ++ rest) (hpos : 0 < rest.prod)
    (hf : ∀ y : NDArr α, y.shape = rest → y.WF → (f y).shape = outShape rest ∧ (f y).WF)
    {li : List Nat} (hli : InRange lead li) :
    subAt li (mapLeading lead.length rest outShape f x) = f (subAt li x) := by
  have hl := hli.length_eq
  obtain ⟨hfs, hfw⟩ := hf (subAt li x) (by rw [shape_subAt, hsh, drop_lead hl]) (wf_subAt _ _)
  apply ext_get _ (wf_subAt _ _) hfw
  · intro i hi
    have hi2 : InRange (outShape rest) i := by
      simpa [shape_mapLeading hsh hpos, drop_lead hl] using hi
    rw [get_subAt _ _ (by rw [shape_mapLeading hsh hpos, drop_lead hl]; exact hi2),
      get_mapLeading hsh hpos hli hi2]
  · rw [shape_subAt, shape_mapLeading hsh hpos, drop_lead hl, hfs]

/-- consequence: changing the block anywhere but at `li` does not change the result at `li` -/
theorem mapLeading_independent {x' : NDArr α} (hsh : x.shape = lead ++ rest)
    (hsh' : x'.shape = lead ++ rest) (hpos : 0 < rest.prod)
    (hf : ∀ y : NDArr α, y.shape = rest → y.WF → (f y).shape = outShape rest ∧ (f y).WF)
    {li : List Nat} (hli : InRange lead li) (hagree : subAt li x = subAt li x') :
    subAt li (mapLeading lead.length rest outShape f x)
      = subAt li (mapLeading lead.length rest outShape f x') := by
  rw [mapLeading_get hsh hpos hf hli, mapLeading_get hsh' hpos hf hli, hagree]

end MapLeading

/-! ## the per-image functions of the library have the announced shapes -/

section Images
variable {R : Type} [Inhabited R]

theorem tgeArr_shape [Zero R] [Add R] [Mul R] [IntCast R] (d : Nat) (M : Mat d) (p : Nat)
    (a : NDArr R) : (tgeArr d M p a).shape = tgeOutShape M a.shape := rfl

theorem tgeArr_wf [Zero R] [Add R] [Mul R] [IntCast R] (d : Nat) (M : Mat d) (p : Nat)
    (a : NDArr R) : (tgeArr d M p a).WF := wf_ofFn _ _

theorem poolArr_shape [Zero R] [Add R] [Mul R] (d patch : Nat) (scale : R) (a : NDArr R) :
    (poolArr d patch scale a).shape = poolOutShape d patch a.shape := rfl

theorem poolArr_wf [Zero R] [Add R] [Mul R] (d patch : Nat) (scale : R) (a : NDArr R) :
    (poolArr d patch scale a).WF := wf_ofFn _ _

end Images

end GinjaxVerif.C14
