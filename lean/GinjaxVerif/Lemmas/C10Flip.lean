import GinjaxVerif.Lemmas.C10Climate

/-!
# C10 — `to1d` is natural in the longitude axis: a reflection (with the type-dependent sign) of the
2-D input is the 1-D reflection of the output
-/
namespace GinjaxVerif.C10

variable {R : Type} {B : Type}

/-- relabel values keywise -/
def mapVals (h : Key → B → B) (d : List (Key × B)) : List (Key × B) :=
  d.map fun kb => (kb.1, h kb.1 kb.2)

theorem dAppend_mapVals (cat : B → B → B) (h : Key → B → B)
    (hcat : ∀ key a b, h key (cat a b) = cat (h key a) (h key b))
    (d : List (Key × B)) (key : Key) (b : B) :
    dAppend cat (mapVals h d) key (h key b) = mapVals h (dAppend cat d key b) := by
  induction d with
  | nil => rfl
  | cons kb rest ih =>
    obtain ⟨k, b0⟩ := kb
    by_cases hk : k = key
    · subst hk
      simp [mapVals, dAppend, hcat]
    · simp only [mapVals, List.map_cons, dAppend, hk, if_false] at ih ⊢
      rw [ih]

theorem appendAll_mapVals (cat : B → B → B) (h : Key → B → B)
    (hcat : ∀ key a b, h key (cat a b) = cat (h key a) (h key b))
    (d calls : List (Key × B)) :
    appendAll cat (mapVals h d) (mapVals h calls) = mapVals h (appendAll cat d calls) := by
  induction calls generalizing d with
  | nil => rfl
  | cons c cs ih =>
    have h1 : appendAll cat d (c :: cs) = appendAll cat (dAppend cat d c.1 c.2) cs := rfl
    have h2 : appendAll cat (mapVals h d) (mapVals h (c :: cs))
        = appendAll cat (dAppend cat (mapVals h d) c.1 (h c.1 c.2)) (mapVals h cs) := rfl
    rw [h1, h2, dAppend_mapVals cat h hcat, ih]

/-! ### pointwise maps of blocks -/

def mapE (φ : R → R) (ρ : Nat → Nat) (e : BlkE R) : BlkE R :=
  ⟨e.c, fun c t x y => φ (e.val c t (ρ x) y)⟩

def map1 (φ : R → R) (ρ : Nat → Nat) (b : Blk1 R) : Blk1 R :=
  ⟨b.rows, fun r x => φ (b.val r (ρ x))⟩

theorem mapE_catE (φ : R → R) (ρ : Nat → Nat) (a b : BlkE R) :
    mapE φ ρ (catE a b) = catE (mapE φ ρ a) (mapE φ ρ b) := by
  unfold mapE catE
  simp only [BlkE.mk.injEq, true_and]
  funext c t x y
  split_ifs <;> rfl

theorem map1_cat1 (φ : R → R) (ρ : Nat → Nat) (a b : Blk1 R) :
    map1 φ ρ (cat1 a b) = cat1 (map1 φ ρ a) (map1 φ ρ b) := by
  unfold map1 cat1
  simp only [Blk1.mk.injEq, true_and]
  funext r x
  split_ifs <;> rfl

theorem bandE_mapE (φ : R → R) (ρ : Nat → Nat) (T ny : Nat) (e : BlkE R) :
    bandE T ny (mapE φ ρ e) = map1 φ ρ (bandE T ny e) := rfl

variable [Neg R]

/-- the sign a 1-D block of parity `p` takes under `[[-1]]` -/
def sign1 (key : Key) : Bool := key.2 % 2 == 1

/-- one block of `flipLon2`, with an arbitrary index map in place of the reversal -/
def lonBlk (ρ : Nat → Nat) (key : Key) (b : Blk2 R) : Blk2 R :=
  ⟨b.ch, fun c i j comp => sgn (signLon key comp) (b.val c (ρ i) j comp)⟩

theorem flipLon2_eq (nx : Nat) (x : MI2 R) : flipLon2 nx x = mapVals (lonBlk (rev nx)) x := rfl

theorem flip1_eq (nx : Nat) (z : MI1 R) :
    flip1 nx z = mapVals (fun key => map1 (sgn (sign1 key)) (rev nx)) z := rfl

theorem keysOf_mapVals (h : Key → B → B) (d : List (Key × B)) : keysOf (mapVals h d) = keysOf d := by
  simp [mapVals, keysOf, Function.comp_def]

theorem splitDyn_lon (cf : List (Key × Nat)) (ρ : Nat → Nat) (x : MI2 R) :
    splitDyn cf (mapVals (lonBlk ρ) x) = mapVals (lonBlk ρ) (splitDyn cf x) := by
  unfold splitDyn mapVals
  induction x with
  | nil => rfl
  | cons kb rest ih =>
    simp only [List.map_cons, List.filterMap_cons]
    rw [ih]
    unfold dynPart lonBlk
    simp only
    split_ifs <;> rfl

theorem splitConst_lon (cf : List (Key × Nat)) (ρ : Nat → Nat) (x : MI2 R) :
    splitConst cf (mapVals (lonBlk ρ) x) = mapVals (lonBlk ρ) (splitConst cf x) := by
  unfold splitConst mapVals
  induction x with
  | nil => rfl
  | cons kb rest ih =>
    simp only [List.map_cons, List.filterMap_cons]
    rw [ih]
    unfold constPart lonBlk
    simp only
    split_ifs <;> rfl

theorem callsLegacy_lon (T : Nat) (ρ : Nat → Nat) (l : MI2 R) (hal : Allowed l) :
    callsLegacy T (mapVals (lonBlk ρ) l)
      = mapVals (fun key => mapE (sgn (sign1 key)) ρ) (callsLegacy T l) := by
  unfold callsLegacy mapVals
  induction l with
  | nil => rfl
  | cons kb rest ih =>
    obtain ⟨k, b⟩ := kb
    have hal' : Allowed rest := fun key hk => hal key (List.mem_cons_of_mem _ hk)
    simp only [List.map_cons, List.flatMap_cons, List.map_append]
    rw [ih hal']
    congr 1
    rcases (allowedKey_iff k).mp (hal k List.mem_cons_self) with h | h | h <;> subst h <;> rfl

theorem sortByK_mapVals (h : Key → B → B) (d : List (Key × B)) :
    sortByK (mapVals h d) = mapVals h (sortByK d) := by
  unfold sortByK mapVals
  simp only [List.map_append, List.filter_map]
  rfl

theorem sortByK_allowed (d : List (Key × B)) (hal : Allowed d) : Allowed (sortByK d) := by
  intro key hk
  unfold sortByK at hk
  simp only [keysOf_append, List.mem_append] at hk
  rcases hk with hk | hk
  · exact hal key ((keysOf_filter_sublist _ d).subset hk)
  · exact hal key ((keysOf_filter_sublist _ d).subset hk)

theorem callsRepaired_lon (T : Nat) (ρ : Nat → Nat) (l : MI2 R) (hal : Allowed l) :
    callsRepaired T (mapVals (lonBlk ρ) l)
      = mapVals (fun key => mapE (sgn (sign1 key)) ρ) (callsRepaired T l) := by
  unfold callsRepaired
  rw [sortByK_mapVals, callsLegacy_lon T ρ _ (sortByK_allowed l hal)]

end GinjaxVerif.C10
