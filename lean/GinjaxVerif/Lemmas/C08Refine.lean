import GinjaxVerif.Lemmas.C08Pool
import GinjaxVerif.Lemmas.ConvEquiv
import Mathlib.Algebra.Order.Group.Abs

/-!
# C08 — refinement: the transposed convolution `unpool` is implemented with *is* nearest-neighbour
unpooling

`GeometricImage.unpool` calls `convolve_with(ones((P,)*D), padding=((P−1,P−1),)*D,
lhs_dilation=(P,)*D)`.  In the zero-interleaved, zero-padded signal exactly one position of every
window of side `P` holds a source pixel, namely pixel `q / P`.
-/
namespace GinjaxVerif

open Finset

variable {R : Type} {d : Nat}

theorem unpool_srcIdx (N P : Nat) (hP : 0 < P) (q a : Int)
    (hq : 0 ≤ q ∧ q < ((N * P : Nat) : Int)) (ha : 0 ≤ a ∧ a < (P : Int)) :
    ({ N := N, M := P, lo := P - 1, hi := P - 1, ld := P } : AxisOpt).srcIdx (q * 1 + a * 1)
      = if a = (P : Int) - 1 - q % (P : Int) then some (q / (P : Int)) else none := by
  have hP' : (0 : Int) < (P : Int) := by exact_mod_cast hP
  have hlo : (((P - 1 : Nat)) : Int) = (P : Int) - 1 := by omega
  have h1 := Int.emod_add_mul_ediv q (P : Int)
  have h3 := Int.emod_nonneg q (ne_of_gt hP')
  have h4 := Int.emod_lt_of_pos q hP'
  have hNP : ((N * P : Nat) : Int) = (N : Int) * (P : Int) := by push_cast; ring
  have hdiv0 : 0 ≤ q / (P : Int) := Int.ediv_nonneg hq.1 (le_of_lt hP')
  have hdivN : q / (P : Int) < (N : Int) := by
    apply Int.ediv_lt_of_lt_mul hP'
    omega
  have hN : 0 < N := by omega
  have hdl : (((N + 2 * 0 - 1) * P + 1 : Nat) : Int) = ((N : Int) - 1) * (P : Int) + 1 := by
    have : ((N + 2 * 0 - 1 : Nat) : Int) = (N : Int) - 1 := by omega
    push_cast [this]; ring
  simp only [AxisOpt.srcIdx, AxisOpt.dilLen, hlo, hdl]
  by_cases hA : a = (P : Int) - 1 - q % (P : Int)
  · rw [if_pos hA]
    have hq' : q * 1 + a * 1 - ((P : Int) - 1) = (P : Int) * (q / (P : Int)) := by
      rw [hA]; linear_combination (-1 : Int) * h1
    rw [hq']
    have hmul : (P : Int) * (q / (P : Int)) ≤ (P : Int) * ((N : Int) - 1) :=
      mul_le_mul_of_nonneg_left (by omega) (le_of_lt hP')
    have hc : 0 ≤ (P : Int) * (q / (P : Int)) ∧
        (P : Int) * (q / (P : Int)) < ((N : Int) - 1) * (P : Int) + 1 ∧
        (P : Int) * (q / (P : Int)) % (P : Int) = 0 := by
      refine ⟨mul_nonneg (le_of_lt hP') hdiv0, ?_, Int.mul_emod_right _ _⟩
      have : (P : Int) * ((N : Int) - 1) = ((N : Int) - 1) * (P : Int) := by ring
      omega
    rw [if_pos hc, Int.mul_ediv_cancel_left _ (ne_of_gt hP')]
    congr 1
    have : q / (P : Int) - ((0 : Nat) : Int) = q / (P : Int) := by simp
    rw [this]
    exact Int.emod_eq_of_lt hdiv0 hdivN
  · rw [if_neg hA]
    have hq' : q * 1 + a * 1 - ((P : Int) - 1)
        = (q % (P : Int) + a - ((P : Int) - 1)) + (P : Int) * (q / (P : Int)) := by
      linear_combination (-1 : Int) * h1
    rw [if_neg]
    rintro ⟨_, _, hmod⟩
    rw [hq', Int.add_mul_emod_self_left] at hmod
    have hdvd : (P : Int) ∣ (q % (P : Int) + a - ((P : Int) - 1)) := Int.dvd_of_emod_eq_zero hmod
    have habs : |q % (P : Int) + a - ((P : Int) - 1)| < (P : Int) := by
      rw [abs_lt]; constructor <;> omega
    have := Int.eq_zero_of_abs_lt_dvd hdvd habs
    apply hA
    omega

theorem unpoolAx_outLen (P : Nat) (hP : 0 < P) (N : Fin d → Nat) (hN : ∀ j, 0 < N j) (j : Fin d) :
    (unpoolAx P N j).outLen = N j * P := by
  obtain ⟨n, hn⟩ : ∃ n, N j = n + 1 := ⟨N j - 1, by have := hN j; omega⟩
  have h2 : (n + 1) * P = n * P + P := by ring
  simp only [unpoolAx, AxisOpt.outLen, AxisOpt.padLen, AxisOpt.dilLen, AxisOpt.filtLen, hn]
  have h3 : n + 1 + 2 * 0 - 1 = n := by omega
  rw [h3, h2, Nat.div_one]
  split <;> omega

/-- **the code path of `unpool` (transposed convolution with a ones filter) computes
nearest-neighbour unpooling** -/
theorem unpoolConv_equiv_unpool [CommRing R] (P : Nat) (hP : 0 < P) (B : Blk R d)
    (hN : ∀ j, 0 < B.dims j) : (unpoolConv P B).Equiv (unpool P B) := by
  refine ⟨rfl, ?_, rfl, ?_⟩
  · funext j
    exact unpoolAx_outLen P hP B.dims hN j
  · intro ch _ q hq n _
    have hq' : InBox (fun j => B.dims j * P) q := by
      have : InBox (fun j => (unpoolAx P B.dims j).outLen) q := hq
      simpa only [unpoolAx_outLen P hP B.dims hN] using this
    show sumBox (fun _ => P) (fun a =>
        padVal (unpoolAx P B.dims) (fun y => B.val ch y n) (fun j => q j * 1 + a j * 1) * 1)
      = B.val ch (fun j => q j / (P : Int)) n
    have hidx : ∀ (a : Pix d), InBox (fun _ => P) a → ∀ j,
        (unpoolAx P B.dims j).srcIdx (q j * 1 + a j * 1)
          = if a j = (P : Int) - 1 - q j % (P : Int) then some (q j / (P : Int)) else none :=
      fun a ha j => unpool_srcIdx (B.dims j) P hP (q j) (a j) (hq' j) (ha j)
    have hP' : (0 : Int) < (P : Int) := by exact_mod_cast hP
    have ha : InBox (fun _ => P) (fun j => (P : Int) - 1 - q j % (P : Int)) := by
      intro i
      have h3 := Int.emod_nonneg (q i) (ne_of_gt hP')
      have h4 := Int.emod_lt_of_pos (q i) hP'
      show 0 ≤ (P : Int) - 1 - q i % (P : Int) ∧ (P : Int) - 1 - q i % (P : Int) < ((P : Nat) : Int)
      constructor <;> omega
    rw [sumBox_eq, Finset.sum_eq_single (fun j => (P : Int) - 1 - q j % (P : Int))]
    · rw [padVal_eq, if_pos, mul_one]
      · congr 1
        funext j
        rw [hidx _ ha j, if_pos rfl]
        rfl
      · intro j
        rw [hidx _ ha j, if_pos rfl]
        rfl
    · intro a ha hne
      rw [mem_boxF] at ha
      obtain ⟨j, hj⟩ := Function.ne_iff.mp hne
      rw [padVal_eq, if_neg, zero_mul]
      intro hok
      have := hok j
      rw [hidx a ha j, if_neg hj] at this
      exact absurd this (by simp)
    · intro hnot
      exact absurd ((mem_boxF _ _).mpr ha) hnot

/-! ### average pooling is the strided VALID convolution of the convolution spec -/

/-- options of `average_pool`'s call of `convolve`: filter side `P`, stride `P`, padding VALID -/
def poolCfg (P : Nat) (N : Fin d → Nat) (k : Nat) : ConvCfg d :=
  { ax := fun j => { N := N j, M := P, stride := P }, inC := 1, outC := 1, kI := k, kF := 0 }

theorem valid_srcIdx (N P : Nat) (q : Int) (hq : 0 ≤ q ∧ q < (N : Int)) :
    ({ N := N, M := P, stride := P } : AxisOpt).srcIdx q = some q := by
  have hN : 0 < N := by omega
  have hdl : (((N + 2 * 0 - 1) * 1 + 1 : Nat) : Int) = (N : Int) := by omega
  simp only [AxisOpt.srcIdx, AxisOpt.dilLen, hdl]
  have h0 : q - ((0 : Nat) : Int) = q := by simp
  rw [h0]
  have hc : 0 ≤ q ∧ q < (N : Int) ∧ q % ((1 : Nat) : Int) = 0 := ⟨hq.1, hq.2, by simp⟩
  rw [if_pos hc]
  congr 1
  have : q / ((1 : Nat) : Int) - ((0 : Nat) : Int) = q := by simp
  rw [this]
  exact Int.emod_eq_of_lt hq.1 hq.2

/-- **`poolConst` (the model of `average_pool`) is `convSpec`** with one channel, the constant
scalar filter `w`, stride `P` and no padding — the direct sum that C04 proves `geom.convolve`
computes -/
theorem poolConst_eq_convSpec [CommRing R] (P : Nat) (w : R) (B : Blk R d)
    (hdiv : ∀ j, P ∣ B.dims j) (c : Nat) (y : Pix d) (hy : InBox (fun j => B.dims j / P) y)
    (n : List (Fin d)) (hn : n.length = B.k) :
    (poolConst P w B).val c y n
      = convSpec (poolCfg P B.dims B.k) (fun _ _ => B.val c) (fun _ _ _ _ => w) 0 0 y n := by
  simp only [poolConst, convSpec, poolCfg, sumFin]
  rw [add_zero]
  apply sumBox_congr_inBox
  intro a ha
  have hin := patchPix_inBox P B.dims hdiv y a hy ha
  have htake : n.take B.k = n := by rw [← hn]; exact List.take_length
  rw [padVal_eq, if_pos, htake]
  · congr 2
    funext j
    have hj : 0 ≤ y j * (P : Int) + a j ∧ y j * (P : Int) + a j < (B.dims j : Int) := hin j
    have h1 : y j * ((P : Nat) : Int) + a j * ((1 : Nat) : Int) = y j * (P : Int) + a j := by simp
    rw [h1, valid_srcIdx (B.dims j) P _ hj]
    rfl
  · intro j
    have hj : 0 ≤ y j * (P : Int) + a j ∧ y j * (P : Int) + a j < (B.dims j : Int) := hin j
    have h1 : y j * ((P : Nat) : Int) + a j * ((1 : Nat) : Int) = y j * (P : Int) + a j := by simp
    beta_reduce
    rw [h1, valid_srcIdx (B.dims j) P _ hj]
    rfl

end GinjaxVerif
