import GinjaxVerif.Model.C10
import Mathlib.Algebra.BigOperators.Group.List.Basic
import Mathlib.Algebra.Module.Defs
import Mathlib.Algebra.Group.Action.Defs
import Mathlib.Algebra.GroupWithZero.Action.Defs

/-!
# C10 — group averaging makes an arbitrary function equivariant

`f : X → Y` is an *arbitrary* function (the for-all-models quantifier of the property).
-/
namespace GinjaxVerif.C10

section Laws
variable {M X Y : Type*} [Mul M] [AddCommGroup Y]

/-- the sum the wrapper forms: `Σ_{g ∈ ops} gᵀ · f (g · x)` (in list order) -/
def avgSum (tr : M → M) (aX : M → X → X) (aY : M → Y → Y) (ops : List M) (f : X → Y) (x : X) : Y :=
  (ops.map fun g => aY (tr g) (f (aX g x))).sum

theorem map_list_sum_of_add (φ : Y → Y) (h0 : φ 0 = 0) (hadd : ∀ a b, φ (a + b) = φ a + φ b)
    (l : List Y) : φ l.sum = (l.map φ).sum := by
  induction l with
  | nil => simpa using h0
  | cons a l ih => simp [hadd, ih]

/-- **Core of C10, hypothesis form.**  `P` singles out the admissible operators (the signed
permutation matrices), `tr` is the transpose the code applies, `aX`/`aY` the action on the input /
output multi-images, `sc` the division by `len(operators)`.  The hypotheses are exactly the action
laws C02 proves (`act_mul` on both signatures, `act_transpose_cancel`, `act_add`, `act_smul`) plus
`(g h)ᵀ = hᵀ gᵀ`.  For every operator list closed under right multiplication by `h`, and EVERY
function `f`, the average commutes with `h`. -/
theorem avg_equivariant_of_laws
    (P : M → Prop) (tr : M → M) (aX : M → X → X) (aY : M → Y → Y) (sc : Y → Y)
    (hP_tr : ∀ g, P g → P (tr g))
    (act_mul_X : ∀ g h x, P g → P h → aX (g * h) x = aX g (aX h x))
    (act_mul_Y : ∀ g h y, P g → P h → aY (g * h) y = aY g (aY h y))
    (tr_mul : ∀ g h, P g → P h → tr (g * h) = tr h * tr g)
    (act_transpose_cancel : ∀ g y, P g → aY g (aY (tr g) y) = y)
    (act_add : ∀ g a b, P g → aY g (a + b) = aY g a + aY g b)
    (act_smul : ∀ g y, P g → aY g (sc y) = sc (aY g y))
    (ops : List M) (hops : ∀ g ∈ ops, P g) (h : M) (hh : P h)
    (hclosed : (ops.map (· * h)).Perm ops) (f : X → Y) (x : X) :
    sc (avgSum tr aX aY ops f (aX h x)) = aY h (sc (avgSum tr aX aY ops f x)) := by
  have act_zero : aY h 0 = 0 := by
    have := act_add h 0 0 hh
    simp only [add_zero] at this
    exact left_eq_add.mp this
  rw [act_smul _ _ hh]
  congr 1
  unfold avgSum
  rw [map_list_sum_of_add (aY h) act_zero (fun a b => act_add h a b hh), List.map_map]
  -- every term on the left is the term of `g * h` on the right
  have hterm : ∀ g ∈ ops, aY (tr g) (f (aX g (aX h x)))
      = ((fun g' => aY h (aY (tr g') (f (aX g' x)))) ∘ (· * h)) g := by
    intro g hg
    have hPg := hops g hg
    simp only [Function.comp]
    rw [← act_mul_X g h x hPg hh, tr_mul g h hPg hh,
      act_mul_Y (tr h) (tr g) _ (hP_tr h hh) (hP_tr g hPg), act_transpose_cancel h _ hh]
  rw [List.map_congr_left hterm, ← List.map_map]
  exact (hclosed.map _).sum_eq

end Laws

section Code
variable {G X Y : Type} [AddCommGroup Y]

theorem foldl_add_eq (t : Y) (ts : List Y) : ts.foldl (· + ·) t = t + ts.sum := by
  induction ts generalizing t with
  | nil => simp
  | cons a l ih => simp [ih, add_assoc]

/-- the running sum of the code is the list sum -/
theorem sumCode_eq (l : List Y) (hl : l ≠ []) : sumCode l = some l.sum := by
  cases l with
  | nil => exact absurd rfl hl
  | cons t ts => simp [sumCode, foldl_add_eq]

/-- with averaging active the code computes `scale |ops| (Σ_g gᵀ · f (g · x))` -/
theorem groupAverageCode_on (tr : G → G) (aX : G → X → X) (aY : G → Y → Y) (scale : Nat → Y → Y)
    (aa inf : Bool) (ops : List G) (f : X → Y) (x : X) (hflag : (aa || inf) = true) (hne : ops ≠ []) :
    groupAverageCode tr aX aY scale aa inf ops f x
      = scale ops.length (avgSum tr aX aY ops f x) := by
  have hlen : 0 < ops.length := List.length_pos_of_ne_nil hne
  unfold groupAverageCode
  rw [sumCode_eq _ (by simpa using hne)]
  simp [hflag, hlen, avgSum]

/-- **groupAverage_off.**  With `always_average = inference = False`, or without operators, the
wrapper is the inner model. -/
theorem groupAverage_off (tr : G → G) (aX : G → X → X) (aY : G → Y → Y) (scale : Nat → Y → Y)
    (aa inf : Bool) (ops : List G) (f : X → Y) (x : X) (hoff : ¬ ((aa || inf) = true ∧ ops ≠ [])) :
    groupAverageCode tr aX aY scale aa inf ops f x = f x := by
  unfold groupAverageCode
  by_cases hflag : (aa || inf) = true
  · have : ops = [] := by
      by_contra hne
      exact hoff ⟨hflag, hne⟩
    subst this
    simp
  · simp only [Bool.not_eq_true] at hflag
    simp [hflag]

end Code

end GinjaxVerif.C10
