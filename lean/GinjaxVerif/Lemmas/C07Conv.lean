import GinjaxVerif.Lemmas.C07Basic
import GinjaxVerif.Properties.C06

/-!
# C07 — the convolution node: `ConvContract.__call__` maps related inputs to related outputs

C06 (`layerSpec_push`) is stated for the exactly transformed input `actMI g x`.  Along a network the
input of a layer is only *extensionally* the transformed one (equal on its channels, on the pixels of
its box and at tensor multi-indices of the declared order), so the defining sum is first shown to look
at nothing else (`layerSpec_congr_rel`), and the transformed call is shown to dispatch to the
transported options with the same mean factor.
-/
namespace GinjaxVerif.C07

open GinjaxVerif GinjaxVerif.C20 GinjaxVerif.Layer Finset

variable {R : Type} {d : Nat}

/-! ### the defining sum only reads the declared part of its input -/

theorem convSpec_congr_fine [CommRing R] (cfg : ConvCfg d) (hN : ∀ j, 0 < (cfg.ax j).N)
    (img img' flt : Bank R d) (n : List (Fin d))
    (hi : ∀ b c y, c < cfg.inC → InBox (fun j => (cfg.ax j).N) y →
      img b c y (n.take cfg.kI) = img' b c y (n.take cfg.kI))
    (b o : Nat) (x : Pix d) :
    convSpec cfg img flt b o x n = convSpec cfg img' flt b o x n := by
  simp only [convSpec]
  apply sumFin_congr'
  intro c
  rw [sumBox_eq, sumBox_eq]
  apply Finset.sum_congr rfl
  intro a _
  rw [padVal_congr_inBox cfg.ax hN _ _ (fun y hy => hi b c.val y c.isLt hy)]

/-- two multi-images with the same keys and channel counts that agree on channels, box and declared
tensor order -/
def SameOn (N : Fin d → Nat) (x₁ x₂ : MImg R d) : Prop :=
  List.Forall₂ (fun e₁ e₂ => e₁.1 = e₂.1 ∧ e₁.2.chans = e₂.2.chans ∧
    ∀ c, c < e₂.2.chans → ∀ y, InBox N y → ∀ T : List (Fin d), T.length = e₂.1.1 →
      e₁.2.val c y T = e₂.2.val c y T) x₁ x₂

theorem convPartSpec_congr_rel [CommRing R] (P : Params R d) (hN : ∀ j, 0 < (P.ax j).N)
    (x₁ x₂ : MImg R d) (h : SameOn (fun j => (P.ax j).N) x₁ x₂) (t : Ty) (o : Nat) (i : Pix d)
    (T : List (Fin d)) : convPartSpec P x₁ t o i T = convPartSpec P x₂ t o i T := by
  unfold convPartSpec
  unfold SameOn at h
  induction h with
  | nil => rfl
  | @cons e₁ e₂ r₁ r₂ hab _ ih =>
    obtain ⟨hk, hc, hv⟩ := hab
    simp only [List.foldr_cons]
    rw [ih, hk, hc]
    congr 1
    split
    · unfold convContractSpec
      apply sumIdx_congr_len
      intro u hu
      apply convSpec_congr_fine (layerCfg P.ax e₂.1 t e₂.2.chans 0) hN
      intro _ c y hcl hy
      have htake : (u ++ (u ++ T)).take (layerCfg P.ax e₂.1 t e₂.2.chans 0).kI = u := by
        have : (layerCfg P.ax e₂.1 t e₂.2.chans 0).kI = u.length := hu.symm
        rw [this, List.take_left']
        rfl
      rw [htake]
      exact hv c hcl y hy u hu
    · rfl

theorem layerSpec_congr_rel [CommRing R] (P : Params R d) (hN : ∀ j, 0 < (P.ax j).N)
    (x₁ x₂ : MImg R d) (h : SameOn (fun j => (P.ax j).N) x₁ x₂) (t : Ty) :
    layerSpec P x₁ t = layerSpec P x₂ t := by
  have : convPartSpec P x₁ t = convPartSpec P x₂ t := by
    funext o i T
    exact convPartSpec_congr_rel P hN x₁ x₂ h t o i T
  unfold layerSpec
  rw [this]

/-- a related input agrees with the exactly transformed input in the sense of `SameOn` -/
theorem sameOn_of_mrel [CommRing R] (g : SP d) (N : Fin d → Nat) (x' x : MImg R d)
    (hx : ∀ e ∈ x, e.2.dims = N) (h : MRel g x' x) :
    SameOn (fun i => N (g.σ i)) x' (actMI g x) := by
  unfold SameOn actMI
  unfold MRel at h
  induction h with
  | nil => exact List.Forall₂.nil
  | @cons e' e r' r hab _ ih =>
    obtain ⟨hk, hC, hd, _, hv⟩ := hab
    refine List.Forall₂.cons ⟨hk, hC, ?_⟩ (ih (fun a ha => hx a (List.mem_cons_of_mem _ ha)))
    intro c hc y hy T hT
    have hdims : e'.2.dims = fun i => N (g.σ i) := by
      have h1 : e'.2.dims = fun i => e.2.dims (g.σ i) := hd
      rw [h1, hx e (by simp)]
    have hC' : e'.2.chans = e.2.chans := hC
    exact hv c (by show c < e'.2.chans; rw [hC']; exact hc) y
      (by show InBox e'.2.dims y; rw [hdims]; exact hy) T hT

/-! ### positions from lookups -/

theorem forall2_of_lookup {α β : Type} (Q : Ty → α → β → Prop) :
    ∀ (a : List (Ty × α)) (b : List (Ty × β)), a.map Prod.fst = b.map Prod.fst →
      (b.map Prod.fst).Nodup →
      (∀ t u v, Layer.lookup a t = some u → Layer.lookup b t = some v → Q t u v) →
      List.Forall₂ (fun e' e => e'.1 = e.1 ∧ Q e.1 e'.2 e.2) a b
  | [], [], _, _, _ => List.Forall₂.nil
  | [], _ :: _, hk, _, _ => by simp at hk
  | _ :: _, [], hk, _, _ => by simp at hk
  | (k, u) :: ra, (k', v) :: rb, hk, hnd, h => by
    simp only [List.map_cons, List.cons.injEq] at hk
    obtain ⟨hkk, hrest⟩ := hk
    subst hkk
    simp only [List.map_cons, List.nodup_cons] at hnd
    refine List.Forall₂.cons ⟨rfl, h k u v (by simp [Layer.lookup]) (by simp [Layer.lookup])⟩ ?_
    apply forall2_of_lookup Q ra rb hrest hnd.2
    intro t u' v' hu' hv'
    have ht : t ∈ rb.map Prod.fst := (lookup_isSome_iff rb t).1 (by rw [hv']; rfl)
    have hne : k ≠ t := fun hkt => hnd.1 (hkt ▸ ht)
    exact h t u' v' (by simpa [Layer.lookup, hne] using hu') (by simpa [Layer.lookup, hne] using hv')

/-! ### the transformed call -/

theorem accepts_congr (P P' : Params R d) (declared : Sig) (x x' : MImg R d)
    (hb : bankSig P' = bankSig P) (ht : P'.target = P.target) (hs : sigOf x' = sigOf x) :
    accepts P' declared x' = accepts P declared x := by
  unfold accepts
  rw [hb, ht, hs]

/-- **`ConvContract.__call__` maps related inputs to related outputs**: padding the same on both sides
of every axis and not distinguishing the axes, unit stride, a bank invariant under `g`, filters that
fit; for every weight and bias value, every bias setting and signature. -/
theorem evalConv_rel [Field R] (g : SP d) (c : ConvSpec R d) (x x' : MI R d) (hx : x.Consistent)
    (hrel : Rel g x' x) (hsym : c.pad.Symmetric) (hind : c.pad.AxisIndep d) (hst : c.stride = 1)
    (hld : 0 < c.ld) (hN : ∀ j, 0 < x.dims j) (hn : KeysNodup c.target)
    (hinv : BankInv g (fun _ => c.M) c.bank)
    (hfit : ∀ ax, c.dispatch x.torus x.dims = some ax → ∀ j, (ax j).Fits)
    (y : MI R d) (hy : evalConv c x = some y) :
    ∃ y', evalConv c x' = some y' ∧ Rel g y' y := by
  obtain ⟨hd', ht', hb'⟩ := hrel
  unfold evalConv at hy
  cases hdis : c.dispatch x.torus x.dims with
  | none => rw [hdis] at hy; cases hy
  | some ax =>
    rw [hdis] at hy
    simp only at hy
    split at hy
    · rename_i hacc
      cases hy
      -- facts about the dispatched options
      have hfacts := fun j => dispatch_symmetric c.pad hsym x.torus x.dims (fun _ => c.M)
        (fun _ => c.stride) (fun _ => c.rd) (fun _ => c.ld) ax hdis j
      have hs : ∀ j, (ax j).Sym := fun j =>
        C01.paddingLiteral_symmetric c.pad hsym x.torus x.dims (fun _ => c.M) (fun _ => c.stride)
          (fun _ => c.rd) (fun _ => c.ld) ax hdis (fun _ => hst) hN (fun _ => hld) j
      have hf : ∀ j, (ax j).Fits := hfit ax hdis
      have hNax : (fun j => (ax j).N) = x.dims := funext (fun j => (hfacts j).2.1)
      have hMax : (fun j => (ax j).M) = fun _ => c.M := funext (fun j => (hfacts j).2.2.1)
      -- the transformed call dispatches to the transported options
      have hdis' : c.dispatch x'.torus x'.dims = some (pushAx g ax) := by
        rw [hd', ht']
        exact dispatch_push g c.pad hind x.torus x.dims (fun _ => c.M) (fun _ => c.stride)
          (fun _ => c.rd) (fun _ => c.ld) (fun _ => rfl) (fun _ => rfl) (fun _ => rfl) (fun _ => rfl)
          ax hdis
      have hmu : boxCount (fun j => (pushAx g ax j).outLen) = boxCount (fun j => (ax j).outLen) :=
        boxCount_perm g.σ (fun j => (ax j).outLen)
      set P := c.toParams ax (1 / ((boxCount (fun j => (ax j).outLen) : Nat) : R)) with hP
      have hPpush : c.toParams (pushAx g ax) (1 / ((boxCount (fun j => (pushAx g ax j).outLen) : Nat) : R))
          = P.push g := by
        rw [hmu]; rfl
      have hsig : sigOf x'.blocks = sigOf x.blocks := hb'.sigOf
      have hacc' : accepts (P.push g) c.declared x'.blocks = true := by
        rw [accepts_congr P (P.push g) c.declared x.blocks x'.blocks rfl rfl hsig]; exact hacc
      refine ⟨{ blocks := layerV (P.push g) x'.blocks, dims := fun j => (pushAx g ax j).outLen,
                torus := x'.torus }, ?_, ?_⟩
      · unfold evalConv
        rw [hdis']
        simp only
        rw [hPpush, if_pos hacc']
      · refine ⟨rfl, ht', ?_⟩
        -- keys of both outputs
        have hk1 := (C11.layer_keys P x.blocks hn).1
        have hk2 := (C11.layer_keys (P.push g) x'.blocks hn).1
        have hkeys : sigOf (layerV (P.push g) x'.blocks) = sigOf (layerV P x.blocks) := by
          rw [hk1, hk2, hsig]; rfl
        have hnd : ((layerV P x.blocks).map Prod.fst).Nodup := by
          have : (layerV P x.blocks).map Prod.fst = keysOf (sigOf (layerV P x.blocks)) := by
            simp [keysOf, sigOf, List.map_map, Function.comp_def]
          rw [this, hk1]
          exact List.Nodup.sublist (List.Sublist.map _ List.filter_sublist) hn
        have hfst : (layerV (P.push g) x'.blocks).map Prod.fst = (layerV P x.blocks).map Prod.fst := by
          have := congrArg (List.map Prod.fst) hkeys
          simpa [sigOf, List.map_map, Function.comp_def] using this
        show MRel g (layerV (P.push g) x'.blocks) (layerV P x.blocks)
        unfold MRel
        apply forall2_of_lookup (fun t b' b => BRel g t b' b) _ _ hfst hnd
        intro t b' b hb1 hb2
        -- `t` is a requested type
        have hmem : (t, b.chans) ∈ sigOf (layerV P x.blocks) := by
          have := lookup_mem _ _ _ hb2
          exact List.mem_map.2 ⟨(t, b), this, rfl⟩
        rw [hk1] at hmem
        have htar : (t, b.chans) ∈ c.target := ((mem_convContractOut _ _ _ _).1 hmem).1
        obtain ⟨_, h2⟩ := C11.layer_eq_spec P x.blocks hn t b.chans htar
        obtain ⟨_, h2'⟩ := C11.layer_eq_spec (P.push g) x'.blocks hn t b.chans htar
        obtain ⟨_, d1, v1⟩ := h2 b hb2
        obtain ⟨c2, d2, v2⟩ := h2' b' hb1
        have hxdims : ∀ e ∈ x.blocks, e.2.dims = fun j => (P.ax j).N := by
          intro e he; rw [hx e he]; exact hNax.symm
        have hinvP : BankInv g (fun j => (P.ax j).M) P.bank := by
          show BankInv g (fun j => (ax j).M) c.bank
          rw [hMax]; exact hinv
        have hNpos : ∀ j, 0 < ((P.push g).ax j).N := fun j => (hs (g.σ j)).2.2.1
        have hsame : SameOn (fun j => ((P.push g).ax j).N) x'.blocks (actMI g x.blocks) := by
          have := sameOn_of_mrel g (fun j => (ax j).N) x'.blocks x.blocks
            (by intro e he; rw [hx e he]; exact hNax.symm) hb'
          exact this
        refine ⟨c2, ?_, rfl, ?_⟩
        · show b'.dims = fun i => b.dims (g.σ i)
          rw [d2, d1]; rfl
        · intro o ho i' hi' T hT
          have ho' : o < b.chans := by
            have : o < b'.chans := ho
            rw [c2] at this; exact this
          have hT' : T.length = t.1 := hT
          rw [pfBlk_val]
          show b'.val o i' T = _
          rw [v2 o ho' i' T hT', layerSpec_congr_rel (P.push g) hNpos _ _ hsame t,
            layerSpec_push g P hs hf hinvP x.blocks hxdims t o i' T hT']
          have : (toBlk t b).dims = Layer.outDims P := d1
          simp only [toBlk] at this ⊢
          rw [this, v1 o ho' _ (T.map g.σ) (by simpa using hT')]
    · cases hy

end GinjaxVerif.C07
