import GinjaxVerif.Lemmas.C13
import Mathlib.Tactic.Ring
import Mathlib.Algebra.BigOperators.Group.List.Basic

/-!
# C13 — block-level lemmas for `to_scalar_multi_image` / `from_scalar_multi_image`

Notation used throughout: a block `X` of type `(k, p)` has shape `B ++ c :: (S ++ T)` with the
batch shape `B` (`nb = B.length` batch axes), `c` channels, the spatial shape `S` (`S.length = D`)
and `T = replicate k D`.  Its *spatial-major form* is
`xp X = reshape (moveaxis X nb (nb + D)) (B ++ S ++ [c * D ^ k])`; `to_scalar_multi_image` produces
`moveaxis (xp X) (nb + D) nb`, and `from_scalar_multi_image` recovers `xp X` by moving the channel
axis to the end and slicing.
-/
namespace GinjaxVerif.C13
open GinjaxVerif.ND GinjaxVerif.ND.NDArr

variable {α : Type} [Inhabited α]

/-- the spatial-major form of a block: `(…, c, spatial, tensor) → (…, spatial, c * D^k)` -/
def xp (D : Nat) (B S : List Nat) (e : Key × NDArr α) : NDArr α :=
  (e.2.moveaxis B.length (B.length + D)).reshape
    ((B ++ S) ++ [e.2.shape.getD B.length 0 * D ^ e.1.1])

theorem prod_replicate_nat (k D : Nat) : (List.replicate k D).prod = D ^ k := by
  induction k with
  | zero => rfl
  | succ k ih => rw [List.replicate_succ, List.prod_cons, ih, Nat.pow_succ, Nat.mul_comm]

section Block
variable {D k c : Nat} {B S : List Nat} {X : NDArr α}

omit [Inhabited α] in
theorem rank_of_shape (hsh : X.shape = B ++ c :: (S ++ List.replicate k D)) (hS : S.length = D) :
    X.shape.length = B.length + 1 + D + k := by
  rw [hsh]; simp [hS]; omega

omit [Inhabited α] in
theorem getD_chan (hsh : X.shape = B ++ c :: (S ++ List.replicate k D)) :
    X.shape.getD B.length 0 = c := by
  rw [hsh, getD_mid]

theorem shape_moved (hsh : X.shape = B ++ c :: (S ++ List.replicate k D)) (hS : S.length = D) :
    (X.moveaxis B.length (B.length + D)).shape = B ++ (S ++ c :: List.replicate k D) := by
  rw [shape_moveaxis, hsh, ← hS, moveList_fwd]

theorem wf_xp (p : Nat) (hsh : X.shape = B ++ c :: (S ++ List.replicate k D)) (hS : S.length = D) :
    (xp D B S ((k, p), X)).WF := by
  unfold xp
  apply wf_reshape (wf_moveaxis _ _ _)
  rw [shape_moved hsh hS, getD_chan hsh]
  simp only [List.prod_append, List.prod_cons, List.prod_nil, prod_replicate_nat]
  ring

theorem shape_xp (p : Nat) (hsh : X.shape = B ++ c :: (S ++ List.replicate k D)) :
    (xp D B S ((k, p), X)).shape = (B ++ S) ++ [c * D ^ k] := by
  unfold xp; rw [shape_reshape, getD_chan hsh]

/-- one iteration of `to_scalar_multi_image` is the spatial-major form with the channel axis moved
in front of the spatial axes; the negative axes `-(1+k)` and `-1` resolve to `nb + D` -/
theorem toScalarBlock_eq (p : Nat) (hsh : X.shape = B ++ c :: (S ++ List.replicate k D))
    (hS : S.length = D) (hpos : 0 < B.prod * S.prod) :
    toScalarBlock D B.length k X
      = (xp D B S ((k, p), X)).moveaxis (B.length + D) B.length := by
  have hr := rank_of_shape hsh hS
  have hax : normAxis X.shape.length (-(1 + (k : Int))) = B.length + D := by
    rw [normAxis_neg (by omega)]; omega
  unfold toScalarBlock
  simp only [hax]
  have hms := shape_moved hsh hS
  have htake : (X.moveaxis B.length (B.length + D)).shape.take (B.length + D) = B ++ S := by
    rw [hms, ← hS, ← List.append_assoc]
    have : B.length + S.length = (B ++ S).length := by simp
    rw [this, List.take_left]
  have hinf : inferDim (X.moveaxis B.length (B.length + D)).shape.prod (B ++ S) [] = c * D ^ k := by
    have : (X.moveaxis B.length (B.length + D)).shape
        = (B ++ S) ++ ((c :: List.replicate k D) ++ []) := by rw [hms]; simp
    rw [this, inferDim_block _ _ _ (by simpa using hpos)]
    simp
  have h2 : (X.moveaxis B.length (B.length + D)).reshapeInfer
      ((X.moveaxis B.length (B.length + D)).shape.take (B.length + D)) []
      = xp D B S ((k, p), X) := by
    unfold reshapeInfer xp
    rw [htake, hinf, getD_chan hsh]
  rw [h2]
  have hlen : (xp D B S ((k, p), X)).shape.length = B.length + D + 1 := by
    rw [shape_xp p hsh]; simp [hS]; omega
  rw [hlen, normAxis_neg_one (by omega)]
  rfl

/-- the scalar block one iteration of `to_scalar_multi_image` appends has shape
`B ++ (c * D^k) :: S` -/
theorem shape_toScalarBlock (p : Nat) (hsh : X.shape = B ++ c :: (S ++ List.replicate k D))
    (hS : S.length = D) :
    ((xp D B S ((k, p), X)).moveaxis (B.length + D) B.length).shape = B ++ (c * D ^ k) :: S := by
  subst hS
  rw [shape_moveaxis, shape_xp p hsh]
  have := moveList_bwd B S ([] : List Nat) (c * S.length ^ k)
  simpa using this

/-- moving the channel axis of the scalar block back to the end recovers the spatial-major form -/
theorem moveaxis_toScalarBlock (p : Nat) (hsh : X.shape = B ++ c :: (S ++ List.replicate k D))
    (hS : S.length = D) :
    ((xp D B S ((k, p), X)).moveaxis (B.length + D) B.length).moveaxis B.length (B.length + D)
      = xp D B S ((k, p), X) := by
  apply moveaxis_moveaxis (wf_xp p hsh hS)
  · rw [shape_xp p hsh]; simp [hS]
  · rw [shape_xp p hsh]; simp [hS]

/-- one iteration of `from_scalar_multi_image`, given that the slice is the spatial-major form:
the reshape and the `moveaxis(…, -(1+k), nb)` recover the block -/
theorem fromScalar_block (p : Nat) (hX : X.WF) (hsh : X.shape = B ++ c :: (S ++ List.replicate k D))
    (hS : S.length = D) :
    ((xp D B S ((k, p), X)).reshape (B ++ S ++ [c] ++ List.replicate k D)).moveaxis
      (normAxis ((xp D B S ((k, p), X)).reshape (B ++ S ++ [c] ++ List.replicate k D)).shape.length
        (-(1 + (k : Int)))) B.length = X := by
  have hms := shape_moved hsh hS
  have hre : (xp D B S ((k, p), X)).reshape (B ++ S ++ [c] ++ List.replicate k D)
      = X.moveaxis B.length (B.length + D) := by
    unfold xp
    rw [reshape_reshape]
    have : B ++ S ++ [c] ++ List.replicate k D = (X.moveaxis B.length (B.length + D)).shape := by
      rw [hms]; simp
    rw [this, reshape_self]
  rw [hre]
  have hlen : (X.moveaxis B.length (B.length + D)).shape.length = B.length + 1 + D + k := by
    rw [hms]; simp [hS]; omega
  rw [hlen, normAxis_neg (by omega)]
  have : B.length + 1 + D + k - 1 - k = B.length + D := by omega
  rw [this]
  have hr := rank_of_shape hsh hS
  exact moveaxis_moveaxis hX (by omega) (by omega)

end Block

/-- the loop of `from_scalar_multi_image` run on the concatenation (along the last axis) of the
spatial-major forms, from any accumulated prefix `acc` of width `n` on, reproduces the blocks -/
theorem fromScalarBlocks_foldl (D : Nat) (B S : List Nat) (hS : S.length = D)
    (rest : List (Key × NDArr α)) (acc : NDArr α) (n : Nat) (hacc : acc.shape = (B ++ S) ++ [n])
    (hrest : ∀ e ∈ rest, e.2.WF ∧ ∃ c, e.2.shape = B ++ c :: (S ++ List.replicate e.1.1 D)) :
    fromScalarBlocks D B.length S
        ((rest.map (xp D B S)).foldl (concat (B.length + D)) acc) n
        (rest.map fun e => (e.1, e.2.shape.getD B.length 0))
      = rest := by
  induction rest generalizing acc n with
  | nil => rfl
  | cons e rest ih =>
    obtain ⟨⟨k, p⟩, X⟩ := e
    obtain ⟨hX, c, hsh⟩ := hrest ((k, p), X) List.mem_cons_self
    simp only at hsh
    have hBS : (B ++ S).length = B.length + D := by simp [hS]
    have hax : B.length + D < acc.shape.length := by rw [hacc]; simp [hS]
    have hn : acc.shape.getD (B.length + D) 0 = n := by
      rw [hacc, ← hBS]; exact getD_mid _ _ _
    have hxs := shape_xp (D := D) (B := B) (S := S) p hsh
    have hb : (xp D B S ((k, p), X)).shape = acc.shape.set (B.length + D) (c * D ^ k) := by
      rw [hxs, hacc, ← hBS, set_last]
    -- shape of the whole image
    have himg : (((((k, p), X) :: rest).map (xp D B S)).foldl (concat (B.length + D)) acc).shape
        = (B ++ S) ++ [n + ((((k, p), X) :: rest).map fun e =>
            (xp D B S e).shape.getD (B.length + D) 0).sum] := by
      rw [shape_foldl_concat _ hax, hn, hacc, ← hBS, set_last, List.map_map]
      rfl
    have hW : (xp D B S ((k, p), X)).shape.getD (B.length + D) 0 = c * D ^ k := by
      rw [hxs, ← hBS]; exact getD_mid _ _ _
    -- the slice is the spatial-major form of this block
    have hslice : pySliceAxis (B.length + D) (n : Int) ((n + c * D ^ k : Nat) : Int)
        ((((k, p), X) :: rest).map (xp D B S) |>.foldl (concat (B.length + D)) acc)
        = xp D B S ((k, p), X) := by
      unfold pySliceAxis
      have hext : n + c * D ^ k ≤
          ((((k, p), X) :: rest).map (xp D B S) |>.foldl (concat (B.length + D)) acc).shape.getD
            (B.length + D) 0 := by
        rw [getD_shape_foldl_concat _ hax, hn, List.map_cons, List.map_cons, List.sum_cons, hW]
        omega
      rw [pySlice_of_le (by omega) hext]
      have := slice_foldl_next (x := xp D B S ((k, p), X)) (rest.map (xp D B S)) (acc := acc)
        (ax := B.length + D) (m := c * D ^ k) (wf_xp p hsh hS) hax hb
      rw [hn] at this
      exact this
    have hstep : ((((k, p), X) :: rest).map (xp D B S)).foldl (concat (B.length + D)) acc
        = (rest.map (xp D B S)).foldl (concat (B.length + D))
            (concat (B.length + D) acc (xp D B S ((k, p), X))) := by
      rw [List.map_cons, List.foldl_cons]
    generalize hI : ((((k, p), X) :: rest).map (xp D B S)).foldl (concat (B.length + D)) acc = img
      at himg hslice hstep
    rw [List.map_cons]
    simp only [getD_chan hsh]
    unfold fromScalarBlocks
    simp only
    rw [himg]
    have hlast : ((B ++ S) ++ [n + ((((k, p), X) :: rest).map fun e =>
        (xp D B S e).shape.getD (B.length + D) 0).sum]).length - 1 = B.length + D := by
      simp [hS]
    have htake : ((B ++ S) ++ [n + ((((k, p), X) :: rest).map fun e =>
        (xp D B S e).shape.getD (B.length + D) 0).sum]).take B.length = B := by
      rw [List.append_assoc, List.take_left]
    rw [hlast, htake, hslice]
    have hblk := fromScalar_block (D := D) (B := B) (S := S) p hX hsh hS
    rw [hblk]
    congr 1
    -- the remaining blocks
    rw [hstep]
    exact ih (concat (B.length + D) acc (xp D B S ((k, p), X))) (n + c * D ^ k)
      (by rw [shape_concat, hn, hW, hacc, ← hBS, set_last])
      (fun e he => hrest e (List.mem_cons_of_mem _ he))

/-- the layout of a multi image with (at least) a channel axis: every block has shape
`B ++ c :: (S ++ replicate k D)` with a common batch shape `B` and spatial shape `S`
(`S.length = D`), and numpy can infer the `-1` of the reshape (no empty batch / spatial extent) -/
structure MI.Shaped (m : MI α) (B S : List Nat) : Prop where
  spatial : S.length = m.D
  blocks : ∀ e ∈ m.data, ∃ c, e.2.shape = B ++ c :: (S ++ List.replicate e.1.1 m.D)
  pos : 0 < B.prod * S.prod

/-- `to_scalar_multi_image` of a non-empty multi image is a single scalar block: the scalar forms
of the blocks concatenated, in dict order, along the channel axis -/
theorem toScalar_eq (m : MI α) {B S : List Nat} (hs : m.Shaped B S) (e0 : Key × NDArr α)
    (rest : List (Key × NDArr α)) (hd : m.data = e0 :: rest) :
    m.toScalar = ⟨m.D, m.isTorus, [((0, 0),
      (rest.map fun e => (xp m.D B S e).moveaxis (B.length + m.D) B.length).foldl (concat B.length)
        ((xp m.D B S e0).moveaxis (B.length + m.D) B.length))]⟩ := by
  have hS := hs.spatial
  have hnl : m.nLeading - 1 = B.length := by
    obtain ⟨c, hc⟩ := hs.blocks e0 (by rw [hd]; exact List.mem_cons_self)
    obtain ⟨⟨k0, p0⟩, X0⟩ := e0
    simp only at hc
    unfold MI.nLeading
    rw [hd]
    simp only
    rw [rank_of_shape hc hS]; omega
  have hblk : ∀ e ∈ m.data, toScalarBlock m.D B.length e.1.1 e.2
      = (xp m.D B S e).moveaxis (B.length + m.D) B.length := by
    intro e he
    obtain ⟨c, hc⟩ := hs.blocks e he
    obtain ⟨⟨k, p⟩, X⟩ := e
    exact toScalarBlock_eq p hc hS hs.pos
  have hmap : (m.data.map fun e => (((0, 0) : Key), toScalarBlock m.D B.length e.1.1 e.2))
      = (((0, 0) : Key), (xp m.D B S e0).moveaxis (B.length + m.D) B.length)
        :: (rest.map fun e => (xp m.D B S e).moveaxis (B.length + m.D) B.length).map
            (fun y => (((0, 0) : Key), y)) := by
    rw [List.map_map]
    have : (m.data.map fun e => (((0, 0) : Key), toScalarBlock m.D B.length e.1.1 e.2))
        = m.data.map fun e => (((0, 0) : Key), (xp m.D B S e).moveaxis (B.length + m.D) B.length) := by
      apply List.map_congr_left
      intro e he
      rw [hblk e he]
    rw [this, hd, List.map_cons]
    rfl
  unfold MI.toScalar
  simp only [hnl]
  rw [hmap, appendAll_cons]
  have hfirst : (m.empty.append 0 0 ((xp m.D B S e0).moveaxis (B.length + m.D) B.length) B.length)
      = ⟨m.D, m.isTorus, [((0, 0), (xp m.D B S e0).moveaxis (B.length + m.D) B.length)]⟩ := by
    simp [MI.append, MI.empty, MI.new, toDict, dictGet, dictSet]
  simp only
  rw [hfirst]
  have hdata := appendAll_same_key
    (⟨m.D, m.isTorus, [((0, 0), (xp m.D B S e0).moveaxis (B.length + m.D) B.length)]⟩ : MI α)
    (0, 0) (by decide) ((xp m.D B S e0).moveaxis (B.length + m.D) B.length)
    (rest.map fun e => (xp m.D B S e).moveaxis (B.length + m.D) B.length) B.length [] [] rfl
    (by simp)
  have hD := appendAll_D
    (⟨m.D, m.isTorus, [((0, 0), (xp m.D B S e0).moveaxis (B.length + m.D) B.length)]⟩ : MI α)
    ((rest.map fun e => (xp m.D B S e).moveaxis (B.length + m.D) B.length).map
      fun y => (((0, 0) : Key), y)) B.length
  have hT := appendAll_isTorus
    (⟨m.D, m.isTorus, [((0, 0), (xp m.D B S e0).moveaxis (B.length + m.D) B.length)]⟩ : MI α)
    ((rest.map fun e => (xp m.D B S e).moveaxis (B.length + m.D) B.length).map
      fun y => (((0, 0) : Key), y)) B.length
  exact MI.eq_mk _ hD hT hdata

end GinjaxVerif.C13
