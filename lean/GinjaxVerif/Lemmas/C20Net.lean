import GinjaxVerif.Lemmas.C20Layout
/-!
# C20 — network-level lemmas: blocks fed their declared input, ResNet and DilResNet
-/
namespace GinjaxVerif.C20

/-- what a regular (stride 1, inferred padding, no lhs dilation) block emits when fed exactly its
declared input signature -/
def blockOutSig (b : BlockCfg) : Sig :=
  if b.equivariant then convContractOut b.bank b.inKeys b.outKeys else b.outKeys

/-- hypotheses under which a `ConvBlock` is well-built -/
structure BlockGood (b : BlockCfg) : Prop where
  pre : b.preact = true → b.inKeys = b.outKeys
  eqv : b.equivariant = true →
    KeysNodup b.outKeys ∧ b.bank.M % 2 = 1 ∧ (b.groupNorm = true → groupNormAccepts b.outKeys = true)
  cnv : b.equivariant = false →
    ∃ ci co ks, b.inKeys = [((0, 0), ci)] ∧ b.outKeys = [((0, 0), co)] ∧ b.kernel = some ks ∧
      ks.length = b.D ∧ (∀ n ∈ ks, 0 < n) ∧ (b.bias = .auto ∨ b.bias = .true_ ∨ b.bias = .false_)

theorem all_contains_self (s : Sig) : s.all (fun b => s.contains b) = true := by
  simp [List.all_eq_true]

theorem all_contains_of_sub {s t : Sig} (h : ∀ b ∈ s, b ∈ t) : s.all (fun b => t.contains b) = true := by
  simpa [List.all_eq_true] using h

theorem convContract_exact (bank : Bank) (declared target : Sig) (bias : BiasMode) (rd : Nat)
    (hn : KeysNodup target) (hM : bank.M % 2 = 1) (dims : List Nat) (D : Nat) (torus : List Bool) :
    convContract bank declared target bias { rhsDil := rd } ⟨declared, dims, D, torus⟩ =
      some ⟨convContractOut bank declared target, dims, D, torus⟩ := by
  unfold convContract
  have h1 : declared.all (blockOk bank declared target) = true := by
    rw [List.all_eq_true]; intro b hb; unfold blockOk; simp [hb]
  simp only [h1, if_true, convDims_same bank.M rd hM, convContractSig_eq_out bank target hn]

theorem cco_sub (bank : Bank) (x target : Sig) : ∀ b ∈ convContractOut bank x target, b ∈ target :=
  fun b hb => ((mem_convContractOut bank x target b).1 hb).1

theorem convBlockOut_exact (b : BlockCfg) (rd : Nat) (hopts : b.opts = { rhsDil := rd })
    (htr : b.transpose = false) (hg : BlockGood b) (dims : List Nat) (D : Nat) (torus : List Bool) :
    convBlockOut b ⟨b.inKeys, dims, D, torus⟩ = some ⟨blockOutSig b, dims, D, torus⟩ := by
  unfold convBlockOut blockOutSig
  by_cases he : b.equivariant = true
  · obtain ⟨hn, hM, hgn⟩ := hg.eqv he
    have hbuild : blockBuildOk b = true := by
      unfold blockBuildOk; simp only [he, if_true]
      by_cases g : b.groupNorm = true
      · simp [g, hgn g]
      · simp [g]
    have hconv : ∀ d T, blockConv b ⟨b.inKeys, d, D, T⟩ =
        some ⟨convContractOut b.bank b.inKeys b.outKeys, d, D, T⟩ := by
      intro d T; unfold blockConv; simp only [he, if_true, hopts]
      exact convContract_exact _ _ _ _ _ hn hM _ _ _
    have hnorm : ∀ s, (∀ x ∈ s, x ∈ b.outKeys) → blockNorm b ⟨s, dims, D, torus⟩ = some ⟨s, dims, D, torus⟩ := by
      intro s hs; unfold blockNorm groupNormCall
      by_cases g : b.groupNorm = true
      · simp only [g, he, if_true, all_contains_of_sub hs]
      · simp [g]
    have hnl : ∀ s, (∀ x ∈ s, x ∈ b.outKeys) → blockNonlin b ⟨s, dims, D, torus⟩ = some ⟨s, dims, D, torus⟩ := by
      intro s hs; unfold blockNonlin vnOut
      simp only [he, if_true]
      by_cases a : b.act = true
      · have : s.all (fun x => x.1 == (0, 0) || b.outKeys.contains x) = true := by
          rw [List.all_eq_true]; intro x hx; simp [hs x hx]
        simp only [a, if_true, this]
      · simp [a]
    simp only [hbuild, if_true, he]
    by_cases p : b.preact = true
    · have hio := hg.pre p
      simp only [p, if_true]
      rw [hnorm _ (by rw [hio]; exact fun x hx => hx), Option.bind_some,
        hnl _ (by rw [hio]; exact fun x hx => hx), Option.bind_some, hconv]
    · simp only [p]
      rw [hconv, Option.bind_some, hnorm _ (cco_sub _ _ _), Option.bind_some, hnl _ (cco_sub _ _ _)]
      simp
  · have he' : b.equivariant = false := by simpa using he
    obtain ⟨ci, co, ks, hi, ho, hk, hkl, hkp, hb⟩ := hg.cnv he'
    have hok : conventionalConvOk b = true := by
      unfold conventionalConvOk
      simp only [hk, hi, ho, hkl, BEq.rfl, Bool.true_and, Bool.and_true]
      have h1 : ks.all (fun x => decide (x > 0)) = true := by
        rw [List.all_eq_true]; intro n hn; simpa using hkp n hn
      rcases hb with h | h | h <;> simp [h, h1]
    have hbuild : blockBuildOk b = true := by
      unfold blockBuildOk; simp [he', hok]
    have hconv : blockConv b ⟨b.inKeys, dims, D, torus⟩ = some ⟨b.outKeys, dims, D, torus⟩ := by
      unfold blockConv conventionalDims
      simp only [he', hi, ho, htr, hopts]
      simp
    have hnorm : blockNorm b ⟨b.outKeys, dims, D, torus⟩ = some ⟨b.outKeys, dims, D, torus⟩ := by
      unfold blockNorm wrapperCall
      by_cases g : b.groupNorm = true
      · simp [g, he', ho, keysOf]
      · simp [g]
    have hnl : blockNonlin b ⟨b.outKeys, dims, D, torus⟩ = some ⟨b.outKeys, dims, D, torus⟩ := by
      unfold blockNonlin wrapperCall
      simp [he', ho, keysOf]
    simp only [hbuild, if_true, he']
    by_cases p : b.preact = true
    · have hio := hg.pre p
      simp only [p, if_true]
      rw [hio, hnorm, Option.bind_some, hnl, Option.bind_some, ← hio, hconv]
      simp [hio]
    · simp only [p]
      rw [hconv, Option.bind_some, hnorm, Option.bind_some, hnl]
      simp

/-! ### network-level hypotheses and block instances -/

/-- `kernel_size` accepted by `eqx.nn.Conv` in dimension `D` -/
def KernelOk (D : Nat) (k : Option (List Nat)) : Prop :=
  ∃ ks, k = some ks ∧ ks.length = D ∧ ∀ n ∈ ks, 0 < n

/-- The configurations the theorems are about (the property's quantifier):
* `d ∈ {2,3}`; `mid_keys` and `output_keys` have pairwise distinct keys;
* equivariant mode: odd filter side; **every mid type is produced at every layer**: each mid type is
  reachable through the bank from some input type and from some mid type; group norm only with
  mid types of order `k ≤ 1`;
* conventional mode: non-empty input signature, `mid_keys = (((0,0), m),)`, a bool-like bias
  setting (`auto`, `True`, `False`), a kernel size. -/
structure NetGood (c : NetCfg) : Prop where
  dim : c.D = 2 ∨ c.D = 3
  midNodup : KeysNodup c.mid
  outNodup : KeysNodup c.outSig
  eqv : c.equivariant = true →
    c.bank.M % 2 = 1 ∧ (∀ b ∈ c.mid, reachable c.bank (keysOf c.inSig) b.1 = true) ∧
    (∀ b ∈ c.mid, reachable c.bank (keysOf c.mid) b.1 = true) ∧
    (c.groupNorm = true → groupNormAccepts c.mid = true)
  cnv : c.equivariant = false →
    c.inSig ≠ [] ∧ (∃ m, c.mid = [((0, 0), m)]) ∧
    (c.bias = .auto ∨ c.bias = .true_ ∨ c.bias = .false_) ∧ KernelOk c.D c.kernel

/-- the signature the theorems predict for the output -/
def expectedSig (c : NetCfg) : Sig :=
  if c.equivariant then convContractOut c.bank c.mid c.outSig else c.outSig

/-- signature in front of the last re-layout -/
def finalSig (c : NetCfg) : Sig :=
  if c.equivariant then convContractOut c.bank c.mid c.outSig else [((0, 0), scalarSize c.D c.outSig)]

theorem kernelOne_ok (c : NetCfg) : KernelOk c.D (kernelOne c) :=
  ⟨List.replicate c.D 1, rfl, by simp, by intro n hn; simp [List.mem_replicate] at hn; omega⟩

theorem groupNormAccepts_keys (s : Sig) : groupNormAccepts s = (keysOf s).all (fun t => decide (t.1 ≤ 1)) := by
  simp [groupNormAccepts, keysOf, List.all_map, Function.comp_def]

theorem keysNodup_congr {a b : Sig} (h : keysOf a = keysOf b) (hb : KeysNodup b) : KeysNodup a := by
  unfold KeysNodup; rw [h]; exact hb

/-- generic instance: a regular block of the network fed exactly its declared input -/
theorem netBlock_exact (c : NetCfg) (hg : NetGood c) (inK outK : Sig) (kernel : Option (List Nat))
    (act gn preact : Bool) (rd : Nat) (dims : List Nat) (D : Nat) (torus : List Bool)
    (hpre : preact = true → inK = outK)
    (heq : c.equivariant = true → KeysNodup outK ∧ (gn = true → groupNormAccepts outK = true))
    (hcv : c.equivariant = false →
      (∃ ci, inK = [((0, 0), ci)]) ∧ (∃ co, outK = [((0, 0), co)]) ∧ KernelOk c.D kernel) :
    convBlockOut (c.block inK outK kernel act gn preact { rhsDil := rd }) ⟨inK, dims, D, torus⟩ =
      some ⟨if c.equivariant then convContractOut c.bank inK outK else outK, dims, D, torus⟩ := by
  have := convBlockOut_exact (c.block inK outK kernel act gn preact { rhsDil := rd }) rd rfl rfl
    { pre := hpre
      eqv := fun he => ⟨(heq he).1, (hg.eqv he).1, (heq he).2⟩
      cnv := fun he => by
        obtain ⟨⟨ci, hi⟩, ⟨co, ho⟩, ks, hk, hkl, hkp⟩ := hcv he
        exact ⟨ci, co, ks, hi, ho, hk, hkl, hkp, (hg.cnv he).2.2.1⟩ } dims D torus
  exact this

theorem mem_keys_mid {c : NetCfg} {s : Sig} (hk : keysOf s = keysOf c.mid) {b : Ty × Nat} (hb : b ∈ s) :
    ∃ b' ∈ c.mid, b'.1 = b.1 := by
  have : b.1 ∈ keysOf c.mid := hk ▸ List.mem_map_of_mem hb
  rcases List.mem_map.1 this with ⟨b', hb', h⟩
  exact ⟨b', hb', h⟩

/-- a block between two signatures that both carry exactly the mid types -/
theorem midBlock_exact (c : NetCfg) (hg : NetGood c) (inK outK : Sig) (kernel : Option (List Nat))
    (act gn preact : Bool) (rd : Nat) (dims : List Nat) (D : Nat) (torus : List Bool)
    (hgn : gn = true → c.groupNorm = true)
    (hki : keysOf inK = keysOf c.mid) (hko : keysOf outK = keysOf c.mid)
    (hpre : preact = true → inK = outK)
    (hcv : c.equivariant = false →
      (∃ ci, inK = [((0, 0), ci)]) ∧ (∃ co, outK = [((0, 0), co)]) ∧ KernelOk c.D kernel) :
    convBlockOut (c.block inK outK kernel act gn preact { rhsDil := rd }) ⟨inK, dims, D, torus⟩ =
      some ⟨outK, dims, D, torus⟩ := by
  rw [netBlock_exact c hg inK outK kernel act gn preact rd dims D torus hpre ?_ hcv]
  · by_cases he : c.equivariant = true
    · simp only [he, if_true]
      rw [convContractOut_eq_self]
      intro b hb
      obtain ⟨b', hb', h⟩ := mem_keys_mid hko hb
      rw [hki, ← h]; exact (hg.eqv he).2.2.1 b' hb'
    · simp [he]
  · intro he
    refine ⟨keysNodup_congr hko hg.midNodup, fun g => ?_⟩
    rw [groupNormAccepts_keys, hko, ← groupNormAccepts_keys]; exact (hg.eqv he).2.2.2 (hgn g)

theorem effIn_eq (c : NetCfg) (he : c.equivariant = true) : c.effIn = c.inSig := by simp [NetCfg.effIn, he]

/-- the first block of every network: declared input → mid types -/
theorem firstBlock_exact (c : NetCfg) (hg : NetGood c) (kernel : Option (List Nat)) (act gn : Bool)
    (dims : List Nat) (D : Nat) (torus : List Bool)
    (hgn : gn = true → c.groupNorm = true)
    (hk : c.equivariant = false → KernelOk c.D kernel) :
    convBlockOut (c.block c.effIn c.mid kernel act gn false {}) ⟨c.effIn, dims, D, torus⟩ =
      some ⟨c.mid, dims, D, torus⟩ := by
  rw [show ({} : ConvOpts) = { rhsDil := 1 } from rfl,
    netBlock_exact c hg c.effIn c.mid kernel act gn false 1 dims D torus (by simp) ?_ ?_]
  · by_cases he : c.equivariant = true
    · simp only [he, if_true]
      rw [convContractOut_eq_self]
      rw [effIn_eq c he]; exact (hg.eqv he).2.1
    · simp [he]
  · intro he; exact ⟨hg.midNodup, fun g => (hg.eqv he).2.2.2 (hgn g)⟩
  · intro he
    exact ⟨⟨scalarSize c.D c.inSig, by simp [NetCfg.effIn, he]⟩, (hg.cnv he).2.1, hk he⟩


@[simp] theorem chainM_nil (x : MI) : chainM [] x = some x := rfl
@[simp] theorem chainM_cons (f : MI → Option MI) (fs : List (MI → Option MI)) (x : MI) :
    chainM (f :: fs) x = (f x).bind (chainM fs) := rfl

theorem chainM_fixed (fs : List (MI → Option MI)) (m : MI) (h : ∀ f ∈ fs, f m = some m) :
    chainM fs m = some m := by
  induction fs with
  | nil => rfl
  | cons f fs ih =>
    rw [chainM_cons, h f (by simp), Option.bind_some]
    exact ih (fun g hg => h g (by simp [hg]))

theorem iterM_fixed (n : Nat) (f : MI → Option MI) (m : MI) (h : f m = some m) : iterM n f m = some m := by
  induction n with
  | zero => rfl
  | succ n ih => unfold iterM; rw [h, Option.bind_some]; exact ih

theorem add_self (m : MI) : add m m = some m := by
  unfold add
  simp [addSig_self]

theorem residualStage_fixed (fs : List (MI → Option MI)) (m : MI) (h : ∀ f ∈ fs, f m = some m) :
    residualStage fs m = some m := by
  unfold residualStage
  rw [chainM_fixed fs m h, Option.bind_some, add_self]

theorem inputOk_of (c : NetCfg) (hg : NetGood c) (sig : Sig) (dims : List Nat) (torus : List Bool)
    (hd : dims.length = c.D) (ht : torus.length = c.D) : inputOk c ⟨sig, dims, c.D, torus⟩ = true := by
  unfold inputOk
  rcases hg.dim with h | h <;> simp [h, hd, ht] <;> omega

theorem enter_eq (c : NetCfg) (hg : NetGood c) (dims : List Nat) (torus : List Bool) :
    c.enter ⟨c.inSig, dims, c.D, torus⟩ = ⟨c.effIn, dims, c.D, torus⟩ := by
  unfold NetCfg.enter NetCfg.effIn
  by_cases he : c.equivariant = true
  · simp [he]
  · have he' : c.equivariant = false := by simpa using he
    have hne := (hg.cnv he').1
    have := toScalar_sig ⟨c.inSig, dims, c.D, torus⟩ hne
    simp only [he', Bool.false_eq_true, if_false]
    unfold toScalar at this ⊢
    simp only at this ⊢
    rw [this]

theorem lastBlock_exact (c : NetCfg) (hg : NetGood c) (dims : List Nat) (D : Nat) (torus : List Bool) :
    convBlockOut (c.block c.mid c.effOut (kernelOne c) false false false {}) ⟨c.mid, dims, D, torus⟩ =
      some ⟨finalSig c, dims, D, torus⟩ := by
  rw [show ({} : ConvOpts) = { rhsDil := 1 } from rfl,
    netBlock_exact c hg c.mid c.effOut (kernelOne c) false false false 1 dims D torus (by simp) ?_ ?_]
  · by_cases he : c.equivariant = true
    · simp [he, finalSig, NetCfg.effOut]
    · simp [he, finalSig, NetCfg.effOut]
  · intro he; simp only [NetCfg.effOut, he, if_true]; exact ⟨hg.outNodup, by simp⟩
  · intro he
    exact ⟨(hg.cnv he).2.1, ⟨scalarSize c.D c.outSig, by simp [NetCfg.effOut, he]⟩, kernelOne_ok c⟩

theorem leave_eq (c : NetCfg) (hg : NetGood c) (dims : List Nat) (torus : List Bool) :
    c.leave ⟨finalSig c, dims, c.D, torus⟩ = some ⟨expectedSig c, dims, c.D, torus⟩ := by
  unfold NetCfg.leave finalSig expectedSig
  by_cases he : c.equivariant = true
  · simp [he]
  · have he' : c.equivariant = false := by simpa using he
    simp only [he', Bool.false_eq_true, if_false]
    unfold fromScalar
    simp only [Nat.le_refl, if_true, fromScalar_layout c.outSig hg.outNodup]

/-- encoder of ResNet / DilResNet -/
theorem encoder_exact (c : NetCfg) (hg : NetGood c) (dims : List Nat) (D : Nat) (torus : List Bool) :
    chainM c.encoder ⟨c.effIn, dims, D, torus⟩ = some ⟨c.mid, dims, D, torus⟩ := by
  unfold NetCfg.encoder
  rw [chainM_cons, firstBlock_exact c hg (kernelOne c) c.act false dims D torus (by simp)
    (fun _ => kernelOne_ok c), Option.bind_some, chainM_cons]
  have := midBlock_exact c hg c.mid c.mid (kernelOne c) c.act false false 1 dims D torus (by simp)
    rfl rfl (fun _ => rfl) (fun he => ⟨(hg.cnv he).2.1, (hg.cnv he).2.1, kernelOne_ok c⟩)
  rw [show ({} : ConvOpts) = { rhsDil := 1 } from rfl, this]
  rfl

/-- decoder of ResNet / DilResNet -/
theorem decoder_exact (c : NetCfg) (hg : NetGood c) (dims : List Nat) (D : Nat) (torus : List Bool) :
    chainM c.decoder ⟨c.mid, dims, D, torus⟩ = some ⟨finalSig c, dims, D, torus⟩ := by
  unfold NetCfg.decoder
  have := midBlock_exact c hg c.mid c.mid (kernelOne c) c.act false false 1 dims D torus (by simp)
    rfl rfl (fun _ => rfl) (fun he => ⟨(hg.cnv he).2.1, (hg.cnv he).2.1, kernelOne_ok c⟩)
  rw [chainM_cons, show ({} : ConvOpts) = { rhsDil := 1 } from rfl, this, Option.bind_some, chainM_cons,
    show ({ rhsDil := 1 } : ConvOpts) = {} from rfl, lastBlock_exact c hg, Option.bind_some]
  rfl


/-- `ResNet`, both modes: for every configuration of `NetGood` (any depth, block count, `num_conv`,
bias setting, activation, group norm, pre-activation order, flags, extents) the model maps an input
with the declared signature to exactly the predicted signature, the input's extents, `D`, flags. -/
theorem resnet_outSig (c : NetCfg) (hg : NetGood c) (dims : List Nat) (torus : List Bool)
    (hd : dims.length = c.D) (ht : torus.length = c.D) :
    mkResNet c ⟨c.inSig, dims, c.D, torus⟩ = some ⟨expectedSig c, dims, c.D, torus⟩ := by
  unfold mkResNet
  simp only [inputOk_of c hg _ dims torus hd ht, if_true]
  rw [enter_eq c hg, encoder_exact c hg, Option.bind_some]
  have hblk : ∀ f ∈ List.replicate c.numConv
      (convBlockOut (c.block c.mid c.mid c.kernel c.act c.groupNorm c.preact)),
      f ⟨c.mid, dims, c.D, torus⟩ = some ⟨c.mid, dims, c.D, torus⟩ := by
    intro f hf
    rw [(List.mem_replicate.1 hf).2]
    exact midBlock_exact c hg c.mid c.mid c.kernel c.act c.groupNorm c.preact 1 dims c.D torus (fun g => g)
      rfl rfl (fun _ => rfl) (fun he => ⟨(hg.cnv he).2.1, (hg.cnv he).2.1, (hg.cnv he).2.2.2⟩)
  rw [iterM_fixed _ _ _ (residualStage_fixed _ _ hblk), Option.bind_some, decoder_exact c hg,
    Option.bind_some, leave_eq c hg]

/-- `DilResNet`, both modes (dilation schedule 1,2,4,8,4,2,1 in every block) -/
theorem dilresnet_outSig (c : NetCfg) (hg : NetGood c) (dims : List Nat) (torus : List Bool)
    (hd : dims.length = c.D) (ht : torus.length = c.D) :
    mkDilResNet c ⟨c.inSig, dims, c.D, torus⟩ = some ⟨expectedSig c, dims, c.D, torus⟩ := by
  unfold mkDilResNet
  simp only [inputOk_of c hg _ dims torus hd ht, if_true]
  rw [enter_eq c hg, encoder_exact c hg, Option.bind_some]
  have hblk : ∀ f ∈ dilations.map (fun d =>
      convBlockOut (c.block c.mid c.mid c.kernel c.act c.groupNorm false { rhsDil := d })),
      f ⟨c.mid, dims, c.D, torus⟩ = some ⟨c.mid, dims, c.D, torus⟩ := by
    intro f hf
    obtain ⟨d, _, rfl⟩ := List.mem_map.1 hf
    exact midBlock_exact c hg c.mid c.mid c.kernel c.act c.groupNorm false d dims c.D torus (fun g => g)
      rfl rfl (fun _ => rfl) (fun he => ⟨(hg.cnv he).2.1, (hg.cnv he).2.1, (hg.cnv he).2.2.2⟩)
  rw [iterM_fixed _ _ _ (residualStage_fixed _ _ hblk), Option.bind_some, decoder_exact c hg,
    Option.bind_some, leave_eq c hg]

end GinjaxVerif.C20
