import GinjaxVerif.Model.C13
import GinjaxVerif.Lemmas.NDArr
import Mathlib.Data.List.Nodup
import Mathlib.Data.List.Perm.Basic

/-!
# Helper lemmas for C13: Python-dict association lists and loops of `append`
-/
namespace GinjaxVerif.C13
open GinjaxVerif.ND GinjaxVerif.ND.NDArr

section Dict
variable {β : Type}

@[simp] theorem keysOf_nil : keysOf ([] : List (Key × β)) = [] := rfl
@[simp] theorem keysOf_cons (e : Key × β) (d : List (Key × β)) : keysOf (e :: d) = e.1 :: keysOf d :=
  rfl
@[simp] theorem keysOf_append (d₁ d₂ : List (Key × β)) :
    keysOf (d₁ ++ d₂) = keysOf d₁ ++ keysOf d₂ := by simp [keysOf]

theorem dictGet_eq_none_iff {key : Key} {d : List (Key × β)} :
    dictGet key d = none ↔ key ∉ keysOf d := by
  induction d with
  | nil => simp [dictGet]
  | cons e d ih =>
    obtain ⟨k, v⟩ := e
    by_cases h : k = key
    · simp [dictGet, h]
    · simp [dictGet, h, ih, Ne.symm h]

theorem dictGet_isSome_iff {key : Key} {d : List (Key × β)} :
    (dictGet key d).isSome ↔ key ∈ keysOf d := by
  rw [← not_iff_not, Bool.not_eq_true, Option.isSome_eq_false_iff, Option.isNone_iff_eq_none,
    dictGet_eq_none_iff]

/-- a key that is not in the dict is appended at the end -/
theorem dictSet_fresh {key : Key} (v : β) {d : List (Key × β)} (h : key ∉ keysOf d) :
    dictSet key v d = d ++ [(key, v)] := by
  induction d with
  | nil => rfl
  | cons e d ih =>
    obtain ⟨k, w⟩ := e
    simp only [keysOf_cons, List.mem_cons, not_or] at h
    simp [dictSet, Ne.symm h.1, ih h.2]

theorem keysOf_dictSet_of_mem {key : Key} (v : β) {d : List (Key × β)} (h : key ∈ keysOf d) :
    keysOf (dictSet key v d) = keysOf d := by
  induction d with
  | nil => simp at h
  | cons e d ih =>
    obtain ⟨k, w⟩ := e
    by_cases hk : k = key
    · simp [dictSet, hk]
    · have : key ∈ keysOf d := by
        simp only [keysOf_cons, List.mem_cons] at h
        rcases h with h | h
        · exact absurd h.symm hk
        · exact h
      simp [dictSet, hk, ih this]

theorem dictGet_dictSet_self (key : Key) (v : β) (d : List (Key × β)) :
    dictGet key (dictSet key v d) = some v := by
  induction d with
  | nil => simp [dictSet, dictGet]
  | cons e d ih =>
    obtain ⟨k, w⟩ := e
    by_cases hk : k = key
    · simp [dictSet, dictGet, hk]
    · simp [dictSet, dictGet, hk, ih]

theorem dictGet_dictSet_ne {key key' : Key} (h : key' ≠ key) (v : β) (d : List (Key × β)) :
    dictGet key' (dictSet key v d) = dictGet key' d := by
  induction d with
  | nil => simp [dictSet, dictGet, Ne.symm h]
  | cons e d ih =>
    obtain ⟨k, w⟩ := e
    by_cases hk : k = key
    · subst hk
      simp [dictSet, dictGet, Ne.symm h]
    · by_cases hk' : k = key'
      · subst hk'
        simp [dictSet, dictGet, h]
      · simp [dictSet, dictGet, hk, hk', ih]

theorem dictGet_append_left {key : Key} {d₁ : List (Key × β)} (d₂ : List (Key × β))
    (h : key ∈ keysOf d₁) : dictGet key (d₁ ++ d₂) = dictGet key d₁ := by
  induction d₁ with
  | nil => simp at h
  | cons e d ih =>
    obtain ⟨k, w⟩ := e
    by_cases hk : k = key
    · simp [dictGet, hk]
    · have : key ∈ keysOf d := by
        simp only [keysOf_cons, List.mem_cons] at h
        rcases h with h | h
        · exact absurd h.symm hk
        · exact h
      simp [dictGet, hk, ih this]

theorem dictGet_append_right {key : Key} {d₁ : List (Key × β)} (d₂ : List (Key × β))
    (h : key ∉ keysOf d₁) : dictGet key (d₁ ++ d₂) = dictGet key d₂ := by
  induction d₁ with
  | nil => rfl
  | cons e d ih =>
    obtain ⟨k, w⟩ := e
    simp only [keysOf_cons, List.mem_cons, not_or] at h
    simp [dictGet, Ne.symm h.1, ih h.2]

/-- an entry of a dict with distinct keys is found under its key -/
theorem dictGet_of_mem {d : List (Key × β)} (hd : (keysOf d).Nodup) {e : Key × β} (he : e ∈ d) :
    dictGet e.1 d = some e.2 := by
  induction d with
  | nil => simp at he
  | cons f d ih =>
    simp only [keysOf_cons, List.nodup_cons] at hd
    rcases List.mem_cons.1 he with h | h
    · subst h
      simp [dictGet]
    · have hne : f.1 ≠ e.1 := by
        intro heq
        apply hd.1
        rw [heq]
        exact List.mem_map_of_mem h
      obtain ⟨k, w⟩ := f
      simp only at hne
      simp [dictGet, hne, ih hd.2 h]

theorem mem_of_dictGet {d : List (Key × β)} {key : Key} {v : β} (h : dictGet key d = some v) :
    (key, v) ∈ d := by
  induction d with
  | nil => simp [dictGet] at h
  | cons f d ih =>
    obtain ⟨k, w⟩ := f
    by_cases hk : k = key
    · simp only [dictGet, hk, if_true, Option.some.injEq] at h
      simp [hk, h]
    · simp only [dictGet, hk, if_false] at h
      exact List.mem_cons_of_mem _ (ih h)

/-- building a dict from items with distinct keys gives the items in order -/
theorem toDict_go (acc items : List (Key × β)) (h : (keysOf (acc ++ items)).Nodup) :
    items.foldl (fun d e => dictSet e.1 e.2 d) acc = acc ++ items := by
  induction items generalizing acc with
  | nil => simp
  | cons e items ih =>
    have hfresh : e.1 ∉ keysOf acc := by
      simp only [keysOf_append, keysOf_cons] at h
      have := List.nodup_append.1 h
      intro hm
      exact this.2.2 _ hm _ List.mem_cons_self rfl
    rw [List.foldl_cons, dictSet_fresh _ hfresh, ih]
    · simp
    · simpa using h

/-- `{k: v for k, v in items}` is the identity on a dict (distinct keys) -/
theorem toDict_eq_self {d : List (Key × β)} (h : (keysOf d).Nodup) : toDict d = d := by
  have := toDict_go [] d (by simpa using h)
  simpa [toDict] using this

/-- lookup in a dict with distinct keys does not depend on the order of the entries -/
theorem dictGet_perm {d₁ d₂ : List (Key × β)} (hp : d₁.Perm d₂) (hd : (keysOf d₁).Nodup)
    (key : Key) : dictGet key d₁ = dictGet key d₂ := by
  have hd2 : (keysOf d₂).Nodup := (hp.map _).nodup_iff.1 hd
  cases h : dictGet key d₁ with
  | none =>
    rw [dictGet_eq_none_iff] at h
    symm
    rw [dictGet_eq_none_iff]
    intro hm
    exact h ((hp.map _).mem_iff.2 hm)
  | some v =>
    have hm := mem_of_dictGet h
    have := dictGet_of_mem hd2 (hp.mem_iff.1 hm)
    exact this.symm

end Dict

section Append
variable {α : Type}

/-- a multi image is determined by its three fields -/
theorem MI.eq_mk (x : MI α) {D : Nat} {T : List Bool} {d : List (Key × NDArr α)} (hD : x.D = D)
    (hT : x.isTorus = T) (hd : x.data = d) : x = ⟨D, T, d⟩ := by
  cases x; simp_all

@[simp] theorem MI.new_nil (D : Nat) (t : List Bool) : (MI.new [] D t : MI α) = ⟨D, t, []⟩ := rfl
@[simp] theorem MI.empty_data (m : MI α) : m.empty.data = [] := rfl
@[simp] theorem MI.empty_D (m : MI α) : m.empty.D = m.D := rfl
@[simp] theorem MI.empty_isTorus (m : MI α) : m.empty.isTorus = m.isTorus := rfl

variable [Inhabited α]

@[simp] theorem MI.append_D (m : MI α) (k p : Nat) (blk : NDArr α) (ax : Nat) :
    (m.append k p blk ax).D = m.D := by
  cases h : dictGet (k, p % 2) m.data <;> simp [MI.append, h]

@[simp] theorem MI.append_isTorus (m : MI α) (k p : Nat) (blk : NDArr α) (ax : Nat) :
    (m.append k p blk ax).isTorus = m.isTorus := by
  cases h : dictGet (k, p % 2) m.data <;> simp [MI.append, h]

@[simp] theorem appendAll_D (m : MI α) (items : List (Key × NDArr α)) (ax : Nat) :
    (appendAll m items ax).D = m.D := by
  induction items generalizing m with
  | nil => rfl
  | cons e items ih => simp [appendAll, List.foldl_cons] at ih ⊢; rw [ih]; simp

@[simp] theorem appendAll_isTorus (m : MI α) (items : List (Key × NDArr α)) (ax : Nat) :
    (appendAll m items ax).isTorus = m.isTorus := by
  induction items generalizing m with
  | nil => rfl
  | cons e items ih => simp [appendAll, List.foldl_cons] at ih ⊢; rw [ih]; simp

theorem appendAll_nil (m : MI α) (ax : Nat) : appendAll m [] ax = m := rfl

theorem appendAll_cons (m : MI α) (e : Key × NDArr α) (items : List (Key × NDArr α)) (ax : Nat) :
    appendAll m (e :: items) ax = appendAll (m.append e.1.1 e.1.2 e.2 ax) items ax := rfl

theorem appendAll_append (m : MI α) (xs ys : List (Key × NDArr α)) (ax : Nat) :
    appendAll m (xs ++ ys) ax = appendAll (appendAll m xs ax) ys ax := by
  simp [appendAll, List.foldl_append]

/-- appending a block of a type that is not yet present stores it at the end -/
theorem append_fresh (m : MI α) {k p : Nat} (blk : NDArr α) (ax : Nat) (hp : p < 2)
    (h : (k, p) ∉ keysOf m.data) :
    (m.append k p blk ax).data = m.data ++ [((k, p), blk)] := by
  have hp2 : p % 2 = p := Nat.mod_eq_of_lt hp
  unfold MI.append
  simp only [hp2]
  rw [dictGet_eq_none_iff.2 h]
  simp [dictSet_fresh _ h]

/-- appending a block of a type that is present concatenates in place -/
theorem append_present (m : MI α) {k p : Nat} (blk old : NDArr α) (ax : Nat) (hp : p < 2)
    (h : dictGet (k, p) m.data = some old) :
    (m.append k p blk ax).data = dictSet (k, p) (concat ax old blk) m.data := by
  have hp2 : p % 2 = p := Nat.mod_eq_of_lt hp
  unfold MI.append
  simp only [hp2, h]

/-- a loop of `append`s of blocks of pairwise different, new types stores them in order -/
theorem appendAll_fresh (m : MI α) (items : List (Key × NDArr α)) (ax : Nat)
    (hp : ∀ e ∈ items, e.1.2 < 2) (h : (keysOf (m.data ++ items)).Nodup) :
    (appendAll m items ax).data = m.data ++ items := by
  induction items generalizing m with
  | nil => simp [appendAll_nil]
  | cons e items ih =>
    obtain ⟨⟨k, p⟩, blk⟩ := e
    have hfresh : (k, p) ∉ keysOf m.data := by
      simp only [keysOf_append, keysOf_cons] at h
      have := List.nodup_append.1 h
      intro hm
      exact this.2.2 _ hm _ List.mem_cons_self rfl
    have hpp : p < 2 := hp ((k, p), blk) List.mem_cons_self
    rw [appendAll_cons, ih]
    · rw [append_fresh m blk ax hpp hfresh]; simp
    · intro e he; exact hp e (List.mem_cons_of_mem _ he)
    · rw [append_fresh m blk ax hpp hfresh]; simpa using h

/-- the standard loop `out = self.empty(); for …: out.append(k, parity, f(block))` -/
theorem appendAll_empty (m : MI α) (items : List (Key × NDArr α)) (ax : Nat)
    (hp : ∀ e ∈ items, e.1.2 < 2) (h : (keysOf items).Nodup) :
    appendAll m.empty items ax = ⟨m.D, m.isTorus, items⟩ := by
  have hd := appendAll_fresh m.empty items ax hp (by simpa using h)
  have h1 := appendAll_D m.empty items ax
  have h2 := appendAll_isTorus m.empty items ax
  cases hx : appendAll m.empty items ax with
  | mk D t d =>
    rw [hx] at hd h1 h2
    simp only [MI.empty_data, List.nil_append, MI.empty_D, MI.empty_isTorus] at hd h1 h2
    subst hd h1 h2
    rfl

/-- a loop of `append`s that all go to the same type concatenates the blocks left to right -/
theorem appendAll_same_key (m : MI α) (key : Key) (hk : key.2 < 2) (x : NDArr α)
    (xs : List (NDArr α)) (ax : Nat) (pre post : List (Key × NDArr α))
    (hm : m.data = pre ++ (key, x) :: post) (hpre : key ∉ keysOf pre) :
    (appendAll m (xs.map fun y => (key, y)) ax).data
      = pre ++ (key, xs.foldl (concat ax) x) :: post := by
  induction xs generalizing m x with
  | nil => simpa [appendAll_nil] using hm
  | cons y ys ih =>
    obtain ⟨k, p⟩ := key
    rw [List.map_cons, appendAll_cons, List.foldl_cons]
    apply ih
    have hget : dictGet (k, p) m.data = some x := by
      rw [hm, dictGet_append_right _ hpre]; simp [dictGet]
    rw [append_present m y x ax hk hget, hm]
    clear ih hget hm
    induction pre with
    | nil => simp [dictSet]
    | cons f pre ihp =>
      obtain ⟨k', w⟩ := f
      simp only [keysOf_cons, List.mem_cons, not_or] at hpre
      have hne : k' ≠ (k, p) := Ne.symm hpre.1
      simp [dictSet, hne, ihp hpre.2]

end Append

section ByKey
variable {α : Type} [Inhabited α]

/-- by key: what one `append` does -/
theorem dictGet_append (m : MI α) (k p : Nat) (blk : NDArr α) (ax : Nat) (key : Key) :
    dictGet key (m.append k p blk ax).data
      = if key = (k, p % 2) then
          some (match dictGet (k, p % 2) m.data with
            | some old => concat ax old blk
            | none => blk)
        else dictGet key m.data := by
  unfold MI.append
  by_cases hk : key = (k, p % 2)
  · subst hk
    cases h : dictGet (k, p % 2) m.data <;> simp [h, dictGet_dictSet_self]
  · cases h : dictGet (k, p % 2) m.data <;> simp [h, hk, dictGet_dictSet_ne hk]

theorem keysOf_nodup_append (m : MI α) (k p : Nat) (blk : NDArr α) (ax : Nat)
    (h : (keysOf m.data).Nodup) : (keysOf (m.append k p blk ax).data).Nodup := by
  cases hg : dictGet (k, p % 2) m.data with
  | none =>
    have hf := dictGet_eq_none_iff.1 hg
    simp only [MI.append, hg, dictSet_fresh _ hf, keysOf_append, keysOf_cons, keysOf_nil]
    rw [List.nodup_append]
    refine ⟨h, by simp, ?_⟩
    intro a ha b hb
    simp only [List.mem_singleton] at hb
    subst hb
    intro hab; subst hab; exact hf ha
  | some old =>
    have hmem : (k, p % 2) ∈ keysOf m.data := dictGet_isSome_iff.1 (by rw [hg]; rfl)
    simp only [MI.append, hg, keysOf_dictSet_of_mem _ hmem]
    exact h

theorem keysOf_nodup_appendAll (m : MI α) (items : List (Key × NDArr α)) (ax : Nat)
    (h : (keysOf m.data).Nodup) : (keysOf (appendAll m items ax).data).Nodup := by
  induction items generalizing m with
  | nil => exact h
  | cons e items ih => rw [appendAll_cons]; exact ih _ (keysOf_nodup_append m _ _ _ _ h)

/-- by key: a loop of `append`s of blocks of pairwise different types either concatenates onto the
block that is there, or stores the new block, or leaves the type alone -/
theorem dictGet_appendAll (m : MI α) (items : List (Key × NDArr α)) (ax : Nat)
    (hp : ∀ e ∈ items, e.1.2 < 2) (hn : (keysOf items).Nodup) (key : Key) :
    dictGet key (appendAll m items ax).data
      = match dictGet key m.data, dictGet key items with
        | some x, some y => some (concat ax x y)
        | some x, none => some x
        | none, some y => some y
        | none, none => none := by
  induction items generalizing m with
  | nil =>
    rw [appendAll_nil]
    cases dictGet key m.data <;> simp [dictGet]
  | cons e items ih =>
    obtain ⟨⟨k, p⟩, blk⟩ := e
    have hpp : p < 2 := hp ((k, p), blk) List.mem_cons_self
    have hp2 : p % 2 = p := Nat.mod_eq_of_lt hpp
    simp only [keysOf_cons, List.nodup_cons] at hn
    rw [appendAll_cons, ih _ (fun e he => hp e (List.mem_cons_of_mem _ he)) hn.2, dictGet_append]
    simp only [hp2]
    by_cases hk : key = (k, p)
    · subst hk
      have hnone : dictGet (k, p) items = none := dictGet_eq_none_iff.2 hn.1
      simp only [if_true, hnone, dictGet]
      cases dictGet (k, p) m.data <;> simp
    · have hk' : ¬ ((k, p) = key) := fun h => hk h.symm
      simp only [hk, if_false, dictGet, hk']

omit [Inhabited α] in
theorem mem_dictSet {β : Type} {key : Key} {v : β} {d : List (Key × β)} {e : Key × β}
    (h : e ∈ dictSet key v d) : e = (key, v) ∨ e ∈ d := by
  induction d with
  | nil => simpa [dictSet] using h
  | cons f d ih =>
    obtain ⟨k, w⟩ := f
    by_cases hk : k = key
    · simp only [dictSet, hk, if_true, List.mem_cons] at h
      rcases h with h | h
      · exact Or.inl h
      · exact Or.inr (List.mem_cons_of_mem _ h)
    · simp only [dictSet, hk, if_false, List.mem_cons] at h
      rcases h with h | h
      · exact Or.inr (by rw [h]; exact List.mem_cons_self)
      · rcases ih h with h | h
        · exact Or.inl h
        · exact Or.inr (List.mem_cons_of_mem _ h)

theorem parity_append (m : MI α) (k p : Nat) (blk : NDArr α) (ax : Nat)
    (h : ∀ e ∈ m.data, e.1.2 < 2) : ∀ e ∈ (m.append k p blk ax).data, e.1.2 < 2 := by
  intro e he
  have hlt : p % 2 < 2 := Nat.mod_lt _ (by decide)
  cases hg : dictGet (k, p % 2) m.data with
  | none =>
    simp only [MI.append, hg] at he
    rcases mem_dictSet he with h' | h'
    · rw [h']; exact hlt
    · exact h e h'
  | some old =>
    simp only [MI.append, hg] at he
    rcases mem_dictSet he with h' | h'
    · rw [h']; exact hlt
    · exact h e h'

theorem parity_appendAll (m : MI α) (items : List (Key × NDArr α)) (ax : Nat)
    (h : ∀ e ∈ m.data, e.1.2 < 2) : ∀ e ∈ (appendAll m items ax).data, e.1.2 < 2 := by
  induction items generalizing m with
  | nil => exact h
  | cons e items ih => rw [appendAll_cons]; exact ih _ (parity_append m _ _ _ _ h)

omit [Inhabited α] in
/-- by key: filtering and transforming the entries of a dict with distinct keys -/
theorem dictGet_filterMap {β γ : Type} (d : List (Key × β)) (hd : (keysOf d).Nodup)
    (g : Key → β → Option γ) (key : Key) :
    dictGet key (d.filterMap fun e => (g e.1 e.2).map fun x => (e.1, x))
      = (dictGet key d).bind (g key) := by
  induction d with
  | nil => rfl
  | cons e d ih =>
    obtain ⟨k, v⟩ := e
    simp only [keysOf_cons, List.nodup_cons] at hd
    by_cases hk : k = key
    · subst hk
      simp only [dictGet, if_true, Option.bind_some]
      rw [List.filterMap_cons]
      cases hg : g k v with
      | none =>
        simp only [Option.map_none]
        rw [ih hd.2, dictGet_eq_none_iff.2 hd.1]; rfl
      | some x => simp [dictGet]
    · simp only [dictGet, hk, if_false]
      rw [List.filterMap_cons]
      cases hg : g k v with
      | none => simp only [Option.map_none]; exact ih hd.2
      | some x => simp [dictGet, hk, ih hd.2]

omit [Inhabited α] in
theorem keysOf_filterMap_sublist {β γ : Type} (d : List (Key × β)) (g : Key → β → Option γ) :
    (keysOf (d.filterMap fun e => (g e.1 e.2).map fun x => (e.1, x))).Sublist (keysOf d) := by
  induction d with
  | nil => simp
  | cons e d ih =>
    rw [List.filterMap_cons]
    cases hg : g e.1 e.2 with
    | none => simp only [Option.map_none, keysOf_cons]; exact ih.cons _
    | some x => simp only [Option.map_some, keysOf_cons]; exact ih.cons_cons _

omit [Inhabited α] in
/-- by key: mapping the values of a dict -/
theorem dictGet_mapVal {β γ : Type} (d : List (Key × β)) (f : β → γ) (key : Key) :
    dictGet key (d.map fun e => (e.1, f e.2)) = (dictGet key d).map f := by
  induction d with
  | nil => rfl
  | cons e d ih =>
    obtain ⟨k, v⟩ := e
    by_cases hk : k = key <;> simp [dictGet, hk, ih]

end ByKey

/-! ## validity of a multi image -/

/-- the invariants of a `MultiImage` the round trips rely on: distinct keys (it is a dict), parities
already reduced mod 2 (the constructor of every block went through `append`), well-formed arrays -/
structure MI.Valid {α : Type} (m : MI α) : Prop where
  nodup : (keysOf m.data).Nodup
  parity : ∀ e ∈ m.data, e.1.2 < 2
  wf : ∀ e ∈ m.data, e.2.WF

end GinjaxVerif.C13
