import GinjaxVerif.Lemmas.C05Eval

/-!
# C05 — the direct-sum model `convI` of the default-option convolution: everything `ConvHyp`
asks for except the equivariance itself (`hConv`, which is property C01's `conv_act`).
-/
namespace GinjaxVerif.C05
open GinjaxVerif Finset

variable {R : Type} {d : Nat}

theorem sumBoxL_congr [AddCommMonoid R] (ms : List Nat) (f f' : List Int → R)
    (h : ∀ t : List Int, List.Forall₂ (fun (a : Int) (m : Nat) => 0 ≤ a ∧ a < (m : Int)) t ms → f t = f' t) :
    sumBoxL ms f = sumBoxL ms f' := by
  induction ms generalizing f f' with
  | nil => exact h [] List.Forall₂.nil
  | cons m ms ih =>
    simp only [sumBoxL, sumFin_eq]
    refine Finset.sum_congr rfl (fun a _ => ?_)
    apply ih
    intro t ht
    exact h _ (List.Forall₂.cons ⟨by omega, by exact_mod_cast a.isLt⟩ ht)

theorem extVal_congr [Zero R] (tor : Fin d → Bool) {A A' : Img R d} (hA : A.SEq A')
    (hpos : ∀ i, 0 < A.dims i) (z : Fin d → Int) (n : List (Fin d)) :
    extVal tor A z n = extVal tor A' z n := by
  unfold extVal
  rw [← hA.1]
  split
  · rename_i hc
    simp only [List.all_eq_true, List.mem_finRange, forall_const, Bool.or_eq_true,
      Bool.and_eq_true, decide_eq_true_eq] at hc
    apply hA.2.2
    intro i
    by_cases ht : tor i = true
    · simp only [ht, if_true]
      have : (0 : Int) < (A.dims i : Int) := by exact_mod_cast hpos i
      exact ⟨Int.emod_nonneg _ (by omega), Int.emod_lt_of_pos _ this⟩
    · rcases hc i with h | h
      · exact absurd h ht
      · simp only [ht]; exact h
  · rfl

theorem convI_congr [CommRing R] (tor : Fin d → Bool) (A A' F F' : Img R d) (hA : A.SEq A')
    (hF : F.SEq F') : (convI tor A F).SEq (convI tor A' F') := by
  refine ⟨hA.1, by simp only [convI, hA.2.1, hF.2.1], ?_⟩
  intro y hy n
  have hpos : ∀ i, 0 < A.dims i := by
    intro i
    have := hy i
    simp only [convI] at this
    omega
  simp only [convI, ← hF.1, ← hA.2.1]
  apply sumBoxL_congr
  intro a ha
  rw [extVal_congr tor hA hpos]
  congr 1
  apply hF.2.2
  intro i
  rw [List.forall₂_iff_get] at ha
  obtain ⟨hl, hget⟩ := ha
  have hi : i.val < a.length := by rw [hl]; simp
  have := hget i.val hi (by simp)
  simp only [List.get_eq_getElem, List.getElem_map, List.getElem_finRange] at this
  show 0 ≤ a.getD i.val 0 ∧ a.getD i.val 0 < (F.dims i : Int)
  rw [List.getD_eq_getElem?_getD, List.getElem?_eq_getElem hi]
  simpa using this

/-- the direct-sum model of the default convolution satisfies everything the induction needs,
given its equivariance (C01) -/
theorem convI_hyp [CommRing R]
    (hConv : ∀ (g : SP d) (c c' : Int) (tor : Fin d → Bool) (A F : Img R d), (d = 2 ∨ d = 3) →
      (∀ i, F.dims i % 2 = 1) →
      (convI (fun i => tor (g.σ i)) (pf g c A) (pf g c' F)).SEq (pf g (c * c') (convI tor A F))) :
    ConvHyp (R := R) (d := d) convI :=
  ⟨fun _ _ _ => rfl, fun _ _ _ => rfl, convI_congr, hConv⟩

end GinjaxVerif.C05
