import GinjaxVerif.Lemmas.C10Flip
import Mathlib.Algebra.Group.Basic

/-!
# C10 — the equator reflection on 2-D multi-images: an involution, additive, and the
`Climate1D.__call__` average commutes with it for every inner model
-/
namespace GinjaxVerif.C10

variable {R : Type}

theorem rev_rev (n i : Nat) : rev n (rev n i) = i := by
  unfold rev
  split_ifs <;> omega

/-- `(key, channels)` per entry, in order -/
def shape2 (a : MI2 R) : List (Key × Nat) := a.map fun kb => (kb.1, kb.2.ch)

section
variable [AddCommGroup R]

theorem sgn_sgn (s : Bool) (v : R) : sgn s (sgn s v) = v := by
  cases s <;> simp [sgn]

theorem sgn_add (s : Bool) (u v : R) : sgn s (u + v) = sgn s u + sgn s v := by
  cases s
  · simp [sgn]
  · simp only [sgn, if_true]; exact neg_add u v

theorem flipEq2_flipEq2 (ny : Nat) (x : MI2 R) : flipEq2 ny (flipEq2 ny x) = x := by
  unfold flipEq2
  rw [List.map_map]
  conv_rhs => rw [← List.map_id x]
  apply List.map_congr_left
  intro kb _
  obtain ⟨k, ⟨ch, val⟩⟩ := kb
  simp only [Function.comp, id, sgn_sgn, rev_rev]

theorem shape2_flipEq2 (ny : Nat) (a : MI2 R) : shape2 (flipEq2 ny a) = shape2 a := by
  simp [shape2, flipEq2, Function.comp_def]

omit [AddCommGroup R] in
theorem shape2_map2 (h : R → R) (a : MI2 R) : shape2 (map2 h a) = shape2 a := by
  simp [shape2, map2, Function.comp_def]

theorem add2_comm (a b : MI2 R) (h : shape2 a = shape2 b) : add2 a b = add2 b a := by
  induction a generalizing b with
  | nil => cases b <;> simp [add2]
  | cons p a ih =>
    cases b with
    | nil => simp [add2]
    | cons q b =>
      simp only [shape2, List.map_cons, List.cons.injEq, Prod.mk.injEq] at h
      obtain ⟨⟨hk, hc⟩, hrest⟩ := h
      have := ih b hrest
      simp only [add2, List.zipWith_cons_cons, List.cons.injEq] at this ⊢
      refine ⟨?_, this⟩
      rw [hk, hc]
      congr 2
      funext c i j comp
      exact add_comm _ _

theorem flipEq2_add2 (ny : Nat) (a b : MI2 R) (h : shape2 a = shape2 b) :
    flipEq2 ny (add2 a b) = add2 (flipEq2 ny a) (flipEq2 ny b) := by
  induction a generalizing b with
  | nil => cases b <;> simp [add2, flipEq2]
  | cons p a ih =>
    cases b with
    | nil => simp [add2, flipEq2]
    | cons q b =>
      simp only [shape2, List.map_cons, List.cons.injEq, Prod.mk.injEq] at h
      obtain ⟨⟨hk, _⟩, hrest⟩ := h
      have := ih b hrest
      simp only [add2, flipEq2, List.zipWith_cons_cons, List.map_cons, List.cons.injEq] at this ⊢
      refine ⟨?_, this⟩
      rw [← hk]
      congr 2
      funext c i j comp
      exact sgn_add _ _ _

theorem flipEq2_map2 (ny : Nat) (half : R → R) (hhalf : ∀ v, half (-v) = -half v) (a : MI2 R) :
    flipEq2 ny (map2 half a) = map2 half (flipEq2 ny a) := by
  unfold flipEq2 map2
  rw [List.map_map, List.map_map]
  apply List.map_congr_left
  intro kb _
  simp only [Function.comp]
  congr 2
  funext c i j comp
  cases h : signEq kb.1 comp <;> simp [sgn, hhalf]

end

/-- the shape of `from1d`'s result is fixed by the configuration -/
theorem shape2_climateFrom1d [Inhabited R] (cfg : ClimCfg) (z z' : MI1 R) :
    shape2 (climateFrom1d cfg z) = shape2 (climateFrom1d cfg z') := by
  unfold climateFrom1d
  simp only
  cases (dLookup (dictOf cfg.outputKeys) (0, 0)).isSome <;>
    cases (dLookup (dictOf cfg.outputKeys) (0, 1)).isSome <;>
      cases (dLookup (dictOf cfg.outputKeys) (1, 0)).isSome <;> rfl

end GinjaxVerif.C10
