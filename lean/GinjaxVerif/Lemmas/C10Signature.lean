import GinjaxVerif.Lemmas.C10RoundTrip
import Mathlib.Data.List.Perm.Basic

/-!
# C10 — the signature of `to1d(x)` is `get_1d_signature(signature(x))` (as dicts)
-/
namespace GinjaxVerif.C10

variable {R : Type} {A B : Type}

/-- total of the sizes appended under one key (`none` when nothing was appended) -/
def tot (l : List Nat) : Option Nat := catAll (· + ·) none l

theorem catAll_add_some (a : Nat) (l : List Nat) : catAll (· + ·) (some a) l = some (a + l.sum) := by
  induction l generalizing a with
  | nil => simp [catAll]
  | cons b l ih => simp [catAll, ih, Nat.add_assoc]

theorem tot_nil : tot [] = none := rfl

theorem tot_cons (a : Nat) (l : List Nat) : tot (a :: l) = some (a + l.sum) := by
  simp [tot, catAll, catAll_add_some]

theorem tot_eq_of (l l' : List Nat) (h1 : l = [] ↔ l' = []) (h2 : l.sum = l'.sum) : tot l = tot l' := by
  cases l with
  | nil => rw [(h1.mp rfl)]
  | cons a l =>
    cases l' with
    | nil => exact absurd (h1.mpr rfl) (by simp)
    | cons b l' =>
      rw [tot_cons, tot_cons]
      simp only [List.sum_cons] at h2
      rw [h2]

theorem tot_perm {l l' : List Nat} (h : l.Perm l') : tot l = tot l' :=
  tot_eq_of l l' ⟨fun e => by subst e; exact h.symm.eq_nil, fun e => by subst e; exact h.eq_nil⟩ h.sum_nat

theorem catAll_map_hom (cat : A → A → A) (cat' : B → B → B) (h : A → B)
    (hh : ∀ a b, h (cat a b) = cat' (h a) (h b)) (o : Option A) (l : List A) :
    (catAll cat o l).map h = catAll cat' (o.map h) (l.map h) := by
  induction l generalizing o with
  | nil => cases o <;> rfl
  | cons a l ih =>
    cases o with
    | none => simpa [catAll] using ih (some a)
    | some b => simpa [catAll, hh] using ih (some (cat b a))

theorem catAll_catAll (cat : A → A → A) (o : Option A) (l1 l2 : List A) :
    catAll cat (catAll cat o l1) l2 = catAll cat o (l1 ++ l2) := by
  induction l1 generalizing o with
  | nil => cases o <;> rfl
  | cons a l ih =>
    cases o with
    | none => simpa [catAll] using ih (some a)
    | some b => simpa [catAll] using ih (some (cat b a))

theorem gather_perm {l l' : List (Key × B)} (key : Key) (h : l.Perm l') :
    (gather key l).Perm (gather key l') := (h.filter _).map _

/-! ### left side: `get_1d_signature` -/

/-- contributions of one signature entry to its own key / to the two band keys -/
def sigOwn (ny : Nat) (kn : Key × Nat) : List (Key × Nat) :=
  if kn.1.1 = 0 then [(kn.1, kn.2 * ny)] else []

def sigVec (ny : Nat) (kn : Key × Nat) : List (Key × Nat) :=
  if kn.1.1 = 0 then [] else [((0, 0), kn.2 * ny), ((0, 1), kn.2 * ny)]

theorem dLookup_get1dSignature (x : MI2 R) (hnd : (keysOf x).Nodup) (ny : Nat) (key : Key) :
    dLookup (get1dSignature (sig2 x) ny) key
      = tot (gather key ((sig2 x).flatMap (sigOwn ny)) ++ gather key ((sig2 x).flatMap (sigVec ny))) := by
  unfold get1dSignature
  rw [dictOf_of_nodup _ (by rw [keysOf_sig2]; exact hnd), dLookup_appendAll]
  simp only [dLookup_nil]
  rw [← gather_append]
  apply tot_perm
  apply gather_perm
  have : (fun kn : Key × Nat => if kn.1.1 = 0 then [(kn.1, kn.2 * ny)]
      else [((0, 0), kn.2 * ny), ((0, 1), kn.2 * ny)]) = fun kn => sigOwn ny kn ++ sigVec ny kn := by
    funext kn
    unfold sigOwn sigVec
    split_ifs <;> rfl
  rw [this]
  exact (List.flatMap_append_perm _ _ _).symm

theorem gather_sigOwn (x : MI2 R) (hnd : (keysOf x).Nodup) (ny : Nat) (key : Key) :
    gather key ((sig2 x).flatMap (sigOwn ny))
      = if key.1 = 0 then (dLookup x key).toList.map fun b => b.ch * ny else [] := by
  rw [gather_flatMap_single (sig2 x) _ key key (by rw [keysOf_sig2]; exact hnd)]
  · rw [dLookup_sig2]
    cases dLookup x key with
    | none => simp
    | some b =>
      by_cases hk : key.1 = 0 <;> simp [sigOwn, hk, gather_cons]
  · intro kn _ hne
    unfold sigOwn
    split_ifs
    · simp [gather_cons, hne]
    · rfl

theorem gather_sigVec (x : MI2 R) (hnd : (keysOf x).Nodup) (hal : Allowed x) (ny : Nat) (key : Key) :
    gather key ((sig2 x).flatMap (sigVec ny))
      = if key = (0, 0) ∨ key = (0, 1) then (dLookup x (1, 0)).toList.map fun b => b.ch * ny else [] := by
  rw [gather_flatMap_single (sig2 x) _ (1, 0) key (by rw [keysOf_sig2]; exact hnd)]
  · rw [dLookup_sig2]
    cases dLookup x (1, 0) with
    | none => simp
    | some b =>
      by_cases h0 : key = (0, 0)
      · subst h0; simp [sigVec, gather_cons]
      · by_cases h1 : key = (0, 1)
        · subst h1; simp [sigVec, gather_cons]
        · have h0' : ¬ (0, 0) = key := fun e => h0 e.symm
          have h1' : ¬ (0, 1) = key := fun e => h1 e.symm
          simp [sigVec, gather_cons, h0, h1, h0', h1']
  · intro kn hkn hne
    have hk : kn.1 ∈ keysOf x := by
      rw [← keysOf_sig2]; exact List.mem_map.mpr ⟨kn, hkn, rfl⟩
    unfold sigVec
    rcases (allowedKey_iff kn.1).mp (hal kn.1 hk) with h | h | h
    · simp [h]
    · simp [h]
    · exact absurd h hne

/-! ### right side: rows of `to1d(x)` -/

theorem rows_climateTo1d (cfg : ClimCfg) (x : MI2 R) (hnd : (keysOf x).Nodup) (key : Key) :
    (dLookup (climateTo1d cfg x) key).map (·.rows) =
      tot (((gather key (callsRepaired cfg.past (splitDyn cfg.constFields x))).map
              fun e => cfg.ny * (e.c * cfg.past)) ++
           ((dLookup (splitConst cfg.constFields x) key).toList.map fun b => cfg.ny * b.ch)) := by
  rw [dLookup_climateTo1d cfg x hnd,
    catAll_map_hom cat1 (· + ·) (·.rows) (fun _ _ => rfl),
    Option.map_map,
    catAll_map_hom catE (· + ·) ((·.rows) ∘ bandE cfg.past cfg.ny)
      (fun a b => by simp [bandE, catE, Nat.add_mul, Nat.mul_add])]
  simp only [Option.map_none, List.map_map]
  rw [catAll_catAll]
  rfl

end GinjaxVerif.C10
