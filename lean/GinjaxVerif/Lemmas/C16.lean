import GinjaxVerif.Model.C16

/-!
# C16 — helper lemmas (association lists with Python `dict` semantics, chunking index calculus)
-/
namespace GinjaxVerif.C16

set_option linter.unusedSectionVars false
set_option linter.unusedSimpArgs false
set_option linter.unusedVariables false

variable {κ : Type} [DecidableEq κ] {α β γ σ : Type}

/-! ### association lists -/

@[simp] theorem keys_nil : keys ([] : List (κ × β)) = [] := rfl
@[simp] theorem keys_cons (kb : κ × β) (x : List (κ × β)) : keys (kb :: x) = kb.1 :: keys x := rfl
@[simp] theorem keys_append (x y : List (κ × β)) : keys (x ++ y) = keys x ++ keys y := by
  simp [keys]

theorem lookup_cons_ite (k k' : κ) (b : β) (x : List (κ × β)) :
    List.lookup k ((k', b) :: x) = if k' = k then some b else List.lookup k x := by
  rw [List.lookup_cons]
  by_cases h : k' = k
  · subst h; simp
  · have : (k == k') = false := by simpa using fun e => h e.symm
    simp [this, h]

theorem lookup_eq_none_of_not_mem {k : κ} {x : List (κ × β)} (h : k ∉ keys x) :
    List.lookup k x = none := by
  induction x with
  | nil => rfl
  | cons kb x ih =>
    obtain ⟨k', b⟩ := kb
    simp only [keys_cons, List.mem_cons, not_or] at h
    rw [lookup_cons_ite, if_neg (fun e : k' = k => h.1 e.symm)]
    exact ih h.2

theorem mem_keys_of_lookup {k : κ} {b : β} {x : List (κ × β)} (h : List.lookup k x = some b) :
    k ∈ keys x := by
  apply Classical.byContradiction
  intro hn
  rw [lookup_eq_none_of_not_mem hn] at h
  cases h

theorem mem_keys_of_mem {k : κ} {b : β} {x : List (κ × β)} (h : (k, b) ∈ x) : k ∈ keys x :=
  List.mem_map.2 ⟨(k, b), h, rfl⟩

theorem lookup_of_mem {k : κ} {b : β} {x : List (κ × β)} (hn : (keys x).Nodup) (h : (k, b) ∈ x) :
    List.lookup k x = some b := by
  induction x with
  | nil => cases h
  | cons kb x ih =>
    obtain ⟨k', b'⟩ := kb
    simp only [keys_cons, List.nodup_cons] at hn
    rw [lookup_cons_ite]
    rcases List.mem_cons.1 h with e | h'
    · cases e; simp
    · have : k' ≠ k := fun e => hn.1 (e ▸ mem_keys_of_mem h')
      rw [if_neg this]
      exact ih hn.2 h'

theorem mem_of_lookup {k : κ} {b : β} {x : List (κ × β)} (h : List.lookup k x = some b) :
    (k, b) ∈ x := by
  induction x with
  | nil => cases h
  | cons kb x ih =>
    obtain ⟨k', b'⟩ := kb
    rw [lookup_cons_ite] at h
    by_cases e : k' = k
    · rw [if_pos e] at h; cases h; subst e; exact List.mem_cons_self
    · rw [if_neg e] at h; exact List.mem_cons_of_mem _ (ih h)

/-- lookup through a key preserving `filterMap` -/
theorem lookup_filterMap {δ : Type} (g : κ × β → Option (κ × δ))
    (hg : ∀ kb kd, g kb = some kd → kd.1 = kb.1) {x : List (κ × β)} (hn : (keys x).Nodup)
    {k : κ} {b : β} (h : (k, b) ∈ x) :
    List.lookup k (x.filterMap g) = (g (k, b)).map Prod.snd := by
  induction x with
  | nil => cases h
  | cons kb x ih =>
    simp only [keys_cons, List.nodup_cons] at hn
    rcases List.mem_cons.1 h with e | h'
    · subst e
      rw [List.filterMap_cons]
      cases hgk : g (k, b) with
      | none =>
        simp only [Option.map_none]
        apply lookup_eq_none_of_not_mem
        intro hm
        obtain ⟨kd, hkd, e⟩ := List.mem_map.1 hm
        obtain ⟨kb', hkb', hgb⟩ := List.mem_filterMap.1 hkd
        have := hg _ _ hgb
        apply hn.1
        have h2 : kb'.1 ∈ keys x := List.mem_map.2 ⟨kb', hkb', rfl⟩
        rw [← this, e] at h2
        exact h2
      | some kd =>
        obtain ⟨k2, d⟩ := kd
        have := hg _ _ hgk
        simp only at this
        subst this
        simp [lookup_cons_ite]
    · have hne : kb.1 ≠ k := fun e => hn.1 (e ▸ mem_keys_of_mem h')
      rw [List.filterMap_cons]
      cases hgk : g kb with
      | none => exact ih hn.2 h'
      | some kd =>
        obtain ⟨k2, d⟩ := kd
        have := hg _ _ hgk
        simp only at this
        subst this
        simp only
        rw [lookup_cons_ite, if_neg hne]
        exact ih hn.2 h'

theorem lookup_map_snd {δ : Type} (h : κ → β → δ) (x : List (κ × β)) (k : κ) :
    List.lookup k (x.map fun kb => (kb.1, h kb.1 kb.2)) = (List.lookup k x).map (h k) := by
  induction x with
  | nil => rfl
  | cons kb x ih =>
    obtain ⟨k', b⟩ := kb
    simp only [List.map_cons, lookup_cons_ite]
    by_cases e : k' = k
    · subst e; simp
    · simp [e, ih]

theorem keys_map_snd {δ : Type} (h : κ × β → δ) (x : List (κ × β)) :
    keys (x.map fun kb => (kb.1, h kb)) = keys x := by
  simp [keys, Function.comp_def]

/-! ### `append` on a dict whose keys are fresh -/

theorem append_of_not_mem [Append β] {k : κ} {b : β} {a : List (κ × β)} (h : k ∉ keys a) :
    append k b a = a ++ [(k, b)] := by
  induction a with
  | nil => rfl
  | cons kb a ih =>
    obtain ⟨k', b'⟩ := kb
    simp only [keys_cons, List.mem_cons, not_or] at h
    simp only [append, if_neg (fun e : k' = k => h.1 e.symm), ih h.2, List.cons_append]

theorem append_snoc_self [Append β] {k : κ} {b c : β} {a : List (κ × β)} (h : k ∉ keys a) :
    append k c (a ++ [(k, b)]) = a ++ [(k, b ++ c)] := by
  induction a with
  | nil => simp [append]
  | cons kb a ih =>
    obtain ⟨k', b'⟩ := kb
    simp only [keys_cons, List.mem_cons, not_or] at h
    simp only [List.cons_append, append, if_neg (fun e : k' = k => h.1 e.symm), ih h.2]

/-- the `for … items(): out.append(key, g(block))` loop is a `map` when the keys are distinct -/
theorem appendEach_eq [Append γ] (g : β → Option γ) (h : β → γ) :
    ∀ (x : List (κ × β)) (out : List (κ × γ)), (keys x).Nodup → (∀ k ∈ keys x, k ∉ keys out) →
      (∀ kb ∈ x, g kb.2 = some (h kb.2)) →
      appendEach g x out = some (out ++ x.map fun kb => (kb.1, h kb.2)) := by
  intro x
  induction x with
  | nil => intro out _ _ _; simp [appendEach]
  | cons kb x ih =>
    intro out hn hd hg
    obtain ⟨k, b⟩ := kb
    simp only [keys_cons, List.nodup_cons] at hn
    have hk : k ∉ keys out := hd k (by simp)
    simp only [appendEach, hg (k, b) List.mem_cons_self]
    rw [append_of_not_mem hk, ih _ hn.2 _ (fun kb' hkb' => hg kb' (List.mem_cons_of_mem _ hkb'))]
    · simp
    · intro k' hk'
      simp only [keys_append, keys_cons, keys_nil, List.mem_append, List.mem_singleton, not_or]
      exact ⟨hd k' (by simp [hk']), fun e => hn.1 (e ▸ hk')⟩

theorem appendEach_none [Append γ] (g : β → Option γ) :
    ∀ (x : List (κ × β)) (out : List (κ × γ)), (∃ kb ∈ x, g kb.2 = none) →
      appendEach g x out = none := by
  intro x
  induction x with
  | nil => intro out ⟨_, h, _⟩; cases h
  | cons kb x ih =>
    intro out ⟨kb', hm, hg⟩
    obtain ⟨k, b⟩ := kb
    simp only [appendEach]
    cases hgb : g b with
    | none => rfl
    | some e =>
      rcases List.mem_cons.1 hm with e' | hm'
      · subst e'; simp [hgb] at hg
      · exact ih _ ⟨kb', hm', hg⟩

theorem keys_filterMap_sublist {δ : Type} (g : κ × β → Option (κ × δ))
    (hg : ∀ kb kd, g kb = some kd → kd.1 = kb.1) (x : List (κ × β)) :
    (keys (x.filterMap g)).Sublist (keys x) := by
  induction x with
  | nil => exact List.Sublist.slnil
  | cons kb x ih =>
    rw [List.filterMap_cons]
    cases hgk : g kb with
    | none => exact List.Sublist.cons _ ih
    | some kd =>
      simp only [keys_cons]
      rw [hg _ _ hgk]
      exact List.Sublist.cons_cons _ ih

/-! ### `concat_inverse` -/

/-- what `concat_inverse` leaves in `a` for one item -/
def dynPart (consts : List (κ × Nat)) (kb : κ × List α) : Option (κ × List α) :=
  if constSize consts kb.1 = 0 then some kb
  else if constSize consts kb.1 = kb.2.length then none
  else some (kb.1, kb.2.take (kb.2.length - constSize consts kb.1))

/-- what `concat_inverse` splits off into `b` for one item -/
def cstPart (consts : List (κ × Nat)) (kb : κ × List α) : Option (κ × List α) :=
  if constSize consts kb.1 = 0 then none
  else if constSize consts kb.1 = kb.2.length then some kb
  else some (kb.1, kb.2.drop (kb.2.length - constSize consts kb.1))

theorem dynPart_key (consts : List (κ × Nat)) (kb kd : κ × List α) (h : dynPart consts kb = some kd) :
    kd.1 = kb.1 := by
  unfold dynPart at h
  split at h
  · cases h; rfl
  · split at h
    · cases h
    · cases h; rfl

theorem cstPart_key (consts : List (κ × Nat)) (kb kd : κ × List α) (h : cstPart consts kb = some kd) :
    kd.1 = kb.1 := by
  unfold cstPart at h
  split at h
  · cases h
  · split at h
    · cases h; rfl
    · cases h; rfl

theorem concatInverseAux_eq (consts : List (κ × Nat)) :
    ∀ (rest a b : MI κ α), (keys rest).Nodup → (∀ k ∈ keys rest, k ∉ keys a ∧ k ∉ keys b) →
      (∀ kb ∈ rest, constSize consts kb.1 ≤ kb.2.length) →
      concatInverseAux consts rest a b
        = some (a ++ rest.filterMap (dynPart consts), b ++ rest.filterMap (cstPart consts)) := by
  intro rest
  induction rest with
  | nil => intro a b _ _ _; simp [concatInverseAux]
  | cons kb rest ih =>
    intro a b hn hd hs
    obtain ⟨k, blk⟩ := kb
    simp only [keys_cons, List.nodup_cons] at hn
    have hka := (hd k (by simp)).1
    have hkb := (hd k (by simp)).2
    have hle : constSize consts k ≤ blk.length := hs (k, blk) List.mem_cons_self
    have hs' : ∀ kb ∈ rest, constSize consts kb.1 ≤ kb.2.length :=
      fun kb h => hs kb (List.mem_cons_of_mem _ h)
    have hfresh : ∀ (c : List α) (a : MI κ α), (∀ k' ∈ keys rest, k' ∉ keys a) →
        ∀ k' ∈ keys rest, k' ∉ keys (a ++ [(k, c)]) := by
      intro c a ha k' hk'
      simp only [keys_append, keys_cons, keys_nil, List.mem_append, List.mem_singleton, not_or]
      exact ⟨ha k' hk', fun e => hn.1 (e ▸ hk')⟩
    have hda : ∀ k' ∈ keys rest, k' ∉ keys a := fun k' h => (hd k' (by simp [h])).1
    have hdb : ∀ k' ∈ keys rest, k' ∉ keys b := fun k' h => (hd k' (by simp [h])).2
    rw [List.filterMap_cons, List.filterMap_cons]
    by_cases h0 : constSize consts k = 0
    · have e1 : dynPart consts (k, blk) = some (k, blk) := by
        simp only [dynPart]; rw [if_pos h0]
      have e2 : cstPart consts (k, blk) = none := by
        simp only [cstPart]; rw [if_pos h0]
      have e3 : concatInverseAux consts ((k, blk) :: rest) a b
          = concatInverseAux consts rest (append k blk a) b := by
        simp only [concatInverseAux]; rw [if_neg (by omega), if_pos h0]
      rw [e1, e2, e3, append_of_not_mem hka,
        ih _ _ hn.2 (fun k' h => ⟨hfresh _ _ hda k' h, hdb k' h⟩) hs']
      simp
    · by_cases h1 : constSize consts k = blk.length
      · have e1 : dynPart consts (k, blk) = none := by
          simp only [dynPart]; rw [if_neg h0, if_pos h1]
        have e2 : cstPart consts (k, blk) = some (k, blk) := by
          simp only [cstPart]; rw [if_neg h0, if_pos h1]
        have e3 : concatInverseAux consts ((k, blk) :: rest) a b
            = concatInverseAux consts rest a (append k blk b) := by
          simp only [concatInverseAux]; rw [if_neg (by omega), if_neg h0, if_pos h1]
        rw [e1, e2, e3, append_of_not_mem hkb,
          ih _ _ hn.2 (fun k' h => ⟨hda k' h, hfresh _ _ hdb k' h⟩) hs']
        simp
      · have e1 : dynPart consts (k, blk)
            = some (k, blk.take (blk.length - constSize consts k)) := by
          simp only [dynPart]; rw [if_neg h0, if_neg h1]
        have e2 : cstPart consts (k, blk)
            = some (k, blk.drop (blk.length - constSize consts k)) := by
          simp only [cstPart]; rw [if_neg h0, if_neg h1]
        have e3 : concatInverseAux consts ((k, blk) :: rest) a b
            = concatInverseAux consts rest (append k (blk.take (blk.length - constSize consts k)) a)
                (append k (blk.drop (blk.length - constSize consts k)) b) := by
          simp only [concatInverseAux]; rw [if_neg (by omega), if_neg h0, if_neg h1]
        rw [e1, e2, e3, append_of_not_mem hka, append_of_not_mem hkb,
          ih _ _ hn.2 (fun k' h => ⟨hfresh _ _ hda k' h, hfresh _ _ hdb k' h⟩) hs']
        simp

/-! ### chunking (`reshape((-1, size) + …)`) -/

/-- rows of `size` consecutive frames -/
def chunks (size : Nat) (l : List α) : List (List α) :=
  (List.range (l.length / size)).map fun i => (l.drop (i * size)).take size

theorem expand_eq_some {size : Nat} {l : List α} (hs : 0 < size) (h0 : 0 < l.length)
    (hd : l.length % size = 0) : expand size l = some (chunks size l) := by
  unfold expand chunks
  rw [if_neg (by omega)]

theorem expand_one {l : List α} (h0 : 0 < l.length) : expand 1 l = some (l.map fun a => [a]) := by
  rw [expand_eq_some (by omega) h0 (by omega)]
  congr 1
  apply List.ext_getElem?
  intro i
  unfold chunks
  simp only [List.getElem?_map, Nat.div_one, Nat.mul_one]
  by_cases hi : i < l.length
  · rw [List.getElem?_range hi, List.getElem?_eq_getElem hi]
    simp only [Option.map_some, Option.some.injEq]
    apply List.ext_getElem?
    intro j
    rw [List.getElem?_take, List.getElem?_drop]
    cases j with
    | zero => simp [hi]
    | succ j => simp
  · rw [List.getElem?_eq_none (by simpa using hi), List.getElem?_eq_none (by simpa using hi)]
    rfl

theorem length_chunks (size : Nat) (l : List α) : (chunks size l).length = l.length / size := by
  simp [chunks]

/-- a `flatMap` over `range c` with rows of constant length `r` is indexed by `i * r + j` -/
theorem flatMap_range_const (g : Nat → List α) (r : Nat) :
    ∀ c, (∀ i < c, (g i).length = r) →
      ((List.range c).flatMap g).length = c * r ∧
      ∀ i < c, ∀ j < r, ((List.range c).flatMap g)[i * r + j]? = (g i)[j]? := by
  intro c
  induction c with
  | zero => intro _; simp
  | succ c ih =>
    intro h
    obtain ⟨ihl, ihg⟩ := ih (fun i hi => h i (by omega))
    rw [List.range_succ, List.flatMap_append, List.flatMap_singleton]
    refine ⟨by rw [List.length_append, ihl, h c (by omega), Nat.succ_mul], ?_⟩
    intro i hi j hj
    by_cases hic : i < c
    · have h1 : (i + 1) * r ≤ c * r := Nat.mul_le_mul_right _ (by omega)
      rw [Nat.succ_mul] at h1
      rw [List.getElem?_append_left (by omega)]
      exact ihg i hic j hj
    · have : i = c := by omega
      subst this
      rw [List.getElem?_append_right (by omega), ihl]
      congr 1
      omega

/-- row `i` of the chunked prefix is the window `old[i*past : (i+1)*past]` -/
theorem chunk_take_row {old : List α} {D past i : Nat} (hD : D ≤ old.length)
    (hi : (i + 1) * past ≤ D) :
    ((old.take D).drop (i * past)).take past = (old.drop (i * past)).take past := by
  rw [Nat.succ_mul] at hi
  apply List.ext_getElem?
  intro j
  simp only [List.getElem?_take, List.getElem?_drop]
  by_cases hj : j < past
  · simp only [hj, if_true]
    rw [if_pos (by omega)]
  · simp [hj]

theorem drop_take_one (p : List α) (i : Nat) : (p.drop (i * 1)).take 1 = (p[i]?).toList := by
  rw [Nat.mul_one]
  apply List.ext_getElem?
  intro j
  rw [List.getElem?_take, List.getElem?_drop]
  cases j with
  | zero =>
    cases h : p[i]? <;> simp [h]
  | succ j =>
    cases h : p[i]? <;> simp

/-- the code's `concatenate([win[:, 1:], out], axis=1).reshape(-1, …)` is the per-window
`tail ++ [prediction]` of the specification -/
theorem windows_flatten {old p : List α} {D past : Nat} (hp : 0 < past) (hD : D ≤ old.length)
    (hdiv : D % past = 0) (hpl : p.length = D / past) :
    flattenRows (List.zipWith (fun w q => w.drop 1 ++ q) (chunks past (old.take D)) (chunks 1 p))
      = (List.range (D / past)).flatMap fun i =>
          ((old.drop (i * past)).take past).tail ++ (p[i]?).toList := by
  have hlen : (old.take D).length = D := by rw [List.length_take]; omega
  unfold flattenRows chunks
  rw [hlen, Nat.div_one, hpl, List.zipWith_map, List.zipWith_self, List.flatMap_def]
  congr 1
  apply List.map_congr_left
  intro i hi
  have hi' : i < D / past := List.mem_range.1 hi
  have h1 : (i + 1) * past ≤ D / past * past := Nat.mul_le_mul_right _ (by omega)
  rw [Nat.div_mul_cancel (Nat.dvd_of_mod_eq_zero hdiv)] at h1
  rw [chunk_take_row hD h1, drop_take_one, List.drop_one]

/-! ### the step -/

/-- the input of a step is laid out as the code expects: non-empty blocks, distinct keys, constant
count at most the block length, and `past_steps` dividing the dynamic part -/
def InputOK (past : Nat) (consts : List (κ × Nat)) (x : MI κ α) : Prop :=
  0 < past ∧ (keys x).Nodup ∧
    ∀ kb ∈ x, 0 < kb.2.length ∧ constSize consts kb.1 ≤ kb.2.length ∧
      (kb.2.length - constSize consts kb.1) % past = 0

/-- number of dynamic channels of a block -/
def nChan (past : Nat) (consts : List (κ × Nat)) (kb : κ × List α) : Nat :=
  (kb.2.length - constSize consts kb.1) / past

/-- a type has a dynamic part iff it is not constant-only -/
def HasDyn (consts : List (κ × Nat)) (kb : κ × List α) : Prop :=
  constSize consts kb.1 = 0 ∨ constSize consts kb.1 < kb.2.length

/-- the prediction is a dict of non-empty blocks that has, for every type with a dynamic part, one
frame per dynamic channel -/
def PredFits (past : Nat) (consts : List (κ × Nat)) (x pred : MI κ α) : Prop :=
  (keys pred).Nodup ∧ (∀ kb ∈ pred, 0 < kb.2.length) ∧
    ∀ kb ∈ x, HasDyn consts kb → ∃ p, pred.lookup kb.1 = some p ∧ p.length = nChan past consts kb

theorem specBlock_constOnly (past m : Nat) (old pred : List α) (h : m = old.length) :
    specBlock past m old pred = old := by
  subst h
  simp [specBlock]

theorem stepKey_eq {past : Nat} {consts : List (κ × Nat)} {dynE outE : MI2 κ α} {cst pred : MI κ α}
    {k : κ} {old : List α} {acc : MI κ α} (hp : 0 < past)
    (hle : constSize consts k ≤ old.length)
    (hdiv : (old.length - constSize consts k) % past = 0)
    (hdyn : dynE.lookup k = if constSize consts k ≠ 0 ∧ constSize consts k = old.length then none
      else some (chunks past (old.take (old.length - constSize consts k))))
    (hcst : cst.lookup k = if constSize consts k = 0 then none
      else some (old.drop (old.length - constSize consts k)))
    (hout : outE.lookup k = (pred.lookup k).map (chunks 1))
    (hfit : HasDyn consts (k, old) →
      ∃ p, pred.lookup k = some p ∧ p.length = (old.length - constSize consts k) / past)
    (hacc : k ∉ keys acc) :
    stepKey 1 dynE outE cst k acc
      = some (acc ++ [(k, specBlock past (constSize consts k) old ((pred.lookup k).getD []))]) := by
  generalize hm : constSize consts k = m at *
  unfold stepKey
  by_cases hco : m ≠ 0 ∧ m = old.length
  · -- constant-only type: carried over as it is
    rw [hdyn, if_pos hco, hcst, if_neg hco.1]
    simp only
    rw [append_of_not_mem hacc, specBlock_constOnly _ _ _ _ hco.2, hco.2]
    simp
  · have hd : HasDyn consts (k, old) := by
      unfold HasDyn; simp only [hm]; omega
    obtain ⟨p, hpk, hpl⟩ := hfit hd
    rw [hdyn, if_neg hco, hout, hpk]
    simp only [Option.map_some, length_chunks, Nat.div_one, List.length_take]
    rw [if_pos (by rw [hpl]; congr 1; omega)]
    simp only
    rw [windows_flatten hp (by omega) hdiv hpl, append_of_not_mem hacc, hcst]
    by_cases h0 : m = 0
    · rw [if_pos h0]
      subst h0
      simp [specBlock]
    · rw [if_neg h0]
      simp only
      rw [append_snoc_self hacc]
      simp [specBlock]

theorem stepLoop_eq {dynE outE : MI2 κ α} {cst : MI κ α} (G : κ → List α) :
    ∀ (rest : List κ) (acc : MI κ α), rest.Nodup → (∀ k ∈ rest, k ∉ keys acc) →
      (∀ k ∈ rest, ∀ acc : MI κ α, k ∉ keys acc →
        stepKey 1 dynE outE cst k acc = some (acc ++ [(k, G k)])) →
      stepLoop 1 dynE outE cst rest acc = some (acc ++ rest.map fun k => (k, G k)) := by
  intro rest
  induction rest with
  | nil => intro acc _ _ _; simp [stepLoop]
  | cons k rest ih =>
    intro acc hn hd hk
    simp only [List.nodup_cons] at hn
    simp only [stepLoop, hk k (by simp) acc (hd k (by simp))]
    rw [ih _ hn.2 _ (fun k' h' => hk k' (by simp [h']))]
    · simp
    · intro k' hk'
      simp only [keys_append, keys_cons, keys_nil, List.mem_append, List.mem_singleton, not_or]
      exact ⟨hd k' (by simp [hk']), fun e => hn.1 (e ▸ hk')⟩

theorem dynPart_map_snd (consts : List (κ × Nat)) (k : κ) (old : List α) :
    (dynPart consts (k, old)).map Prod.snd
      = if constSize consts k ≠ 0 ∧ constSize consts k = old.length then none
        else some (old.take (old.length - constSize consts k)) := by
  simp only [dynPart]
  by_cases h0 : constSize consts k = 0
  · rw [if_pos h0, if_neg (by omega), h0]; simp
  · by_cases h1 : constSize consts k = old.length
    · rw [if_neg h0, if_pos h1, if_pos ⟨h0, h1⟩]; rfl
    · rw [if_neg h0, if_neg h1, if_neg (by omega)]; rfl

theorem cstPart_map_snd (consts : List (κ × Nat)) (k : κ) (old : List α) :
    (cstPart consts (k, old)).map Prod.snd
      = if constSize consts k = 0 then none
        else some (old.drop (old.length - constSize consts k)) := by
  simp only [cstPart]
  by_cases h0 : constSize consts k = 0
  · rw [if_pos h0, if_pos h0]; rfl
  · by_cases h1 : constSize consts k = old.length
    · rw [if_neg h0, if_pos h1, if_neg (by omega), h1]; simp
    · rw [if_neg h0, if_neg h1, if_neg h0]; rfl

theorem concatInverse_eq {past : Nat} {consts : List (κ × Nat)} {x : MI κ α}
    (hx : InputOK past consts x) :
    concatInverse consts x = some (x.filterMap (dynPart consts), x.filterMap (cstPart consts)) := by
  unfold concatInverse
  rw [concatInverseAux_eq consts x [] [] hx.2.1 (by simp) (fun kb h => (hx.2.2 kb h).2.1)]
  simp

theorem expandMI_dyn {past : Nat} {consts : List (κ × Nat)} {x : MI κ α}
    (hx : InputOK past consts x) :
    expandMI past (x.filterMap (dynPart consts))
      = some ((x.filterMap (dynPart consts)).map fun kb => (kb.1, chunks past kb.2)) := by
  unfold expandMI
  rw [appendEach_eq (expand past) (chunks past) _ []
    ((keys_filterMap_sublist _ (dynPart_key consts) x).nodup hx.2.1) (by simp)]
  · simp
  · intro kd hkd
    obtain ⟨kb, hkb, hg⟩ := List.mem_filterMap.1 hkd
    obtain ⟨h0, hle, hdiv⟩ := hx.2.2 kb hkb
    simp only [dynPart] at hg
    by_cases hm0 : constSize consts kb.1 = 0
    · rw [if_pos hm0] at hg
      cases hg
      exact expand_eq_some hx.1 h0 (by simpa [hm0] using hdiv)
    · rw [if_neg hm0] at hg
      by_cases hm1 : constSize consts kb.1 = kb.2.length
      · rw [if_pos hm1] at hg; cases hg
      · rw [if_neg hm1] at hg
        cases hg
        have hl : (kb.2.take (kb.2.length - constSize consts kb.1)).length
            = kb.2.length - constSize consts kb.1 := by rw [List.length_take]; omega
        exact expand_eq_some hx.1 (by rw [hl]; omega) (by rw [hl]; exact hdiv)

theorem expandMI_one {pred : MI κ α} (hn : (keys pred).Nodup) (h0 : ∀ kb ∈ pred, 0 < kb.2.length) :
    expandMI 1 pred = some (pred.map fun kb => (kb.1, chunks 1 kb.2)) := by
  unfold expandMI
  rw [appendEach_eq (expand 1) (chunks 1) _ [] hn (by simp)
    (fun kb h => expand_eq_some (by omega) (h0 kb h) (by omega))]
  simp

/-- **the code's step is the specification's sliding-window update** -/
theorem step_eq_spec' {past : Nat} {consts : List (κ × Nat)} {x pred : MI κ α}
    (hx : InputOK past consts x) (hp : PredFits past consts x pred) :
    autoregressiveStep past consts x pred = some (specStep past consts x pred) := by
  unfold autoregressiveStep
  rw [if_neg (by simp), concatInverse_eq hx]
  simp only
  rw [expandMI_dyn hx, expandMI_one hp.1 hp.2.1]
  simp only
  rw [stepLoop_eq (fun k => specBlock past (constSize consts k) ((x.lookup k).getD [])
    ((pred.lookup k).getD [])) (keys x) [] hx.2.1 (by simp)]
  · simp only [List.nil_append, specStep, keys, List.map_map]
    congr 1
    apply List.map_congr_left
    intro kb hkb
    simp only [Function.comp_apply]
    rw [lookup_of_mem hx.2.1 (show (kb.1, kb.2) ∈ x from hkb)]
    rfl
  · intro k hk acc hacc
    obtain ⟨kb, hkb, rfl⟩ := List.mem_map.1 hk
    obtain ⟨h0, hle, hdiv⟩ := hx.2.2 kb hkb
    have hmem : (kb.1, kb.2) ∈ x := hkb
    rw [lookup_of_mem hx.2.1 hmem]
    simp only [Option.getD_some]
    apply stepKey_eq hx.1 hle hdiv
    · rw [lookup_map_snd (fun _ b => chunks past b),
        lookup_filterMap _ (dynPart_key consts) hx.2.1 hmem, dynPart_map_snd]
      split <;> rfl
    · rw [lookup_filterMap _ (cstPart_key consts) hx.2.1 hmem, cstPart_map_snd]
    · rw [lookup_map_snd (fun _ b => chunks 1 b)]
    · intro hd
      exact hp.2.2 kb hkb hd
    · exact hacc

/-! ### what the updated block looks like, entry by entry -/

theorem toList_getElem?_zero (o : Option α) : (o.toList)[0]? = o := by
  cases o <;> rfl

theorem specBlock_spec {past m : Nat} {old p : List α} (hp : 0 < past) (hle : m ≤ old.length)
    (hdiv : (old.length - m) % past = 0) (hpl : (old.length - m) / past ≤ p.length) :
    (specBlock past m old p).length = old.length ∧
    (∀ i < (old.length - m) / past, ∀ j < past,
      (specBlock past m old p)[i * past + j]?
        = if j + 1 < past then old[i * past + j + 1]? else p[i]?) ∧
    (∀ j < m, (specBlock past m old p)[(old.length - m) / past * past + j]?
        = old[(old.length - m) / past * past + j]?) := by
  have hc : (old.length - m) / past * past = old.length - m :=
    Nat.div_mul_cancel (Nat.dvd_of_mod_eq_zero hdiv)
  generalize hcdef : (old.length - m) / past = c at *
  let g : Nat → List α := fun i => ((old.drop (i * past)).take past).tail ++ (p[i]?).toList
  have hrow : ∀ i < c, (g i).length = past := by
    intro i hi
    have h1 : (i + 1) * past ≤ c * past := Nat.mul_le_mul_right _ (by omega)
    rw [Nat.succ_mul] at h1
    have : p[i]? = some p[i] := List.getElem?_eq_getElem (by omega)
    simp only [g, this, List.length_append, List.length_tail, List.length_take, List.length_drop,
      Option.toList_some, List.length_singleton]
    omega
  obtain ⟨hlen, hget⟩ := flatMap_range_const g past c hrow
  have hsb : specBlock past m old p = (List.range c).flatMap g ++ old.drop (old.length - m) := by
    simp only [specBlock, hcdef, g]
  refine ⟨?_, ?_, ?_⟩
  · rw [hsb, List.length_append, hlen, List.length_drop]; omega
  · intro i hi j hj
    have h1 : (i + 1) * past ≤ c * past := Nat.mul_le_mul_right _ (by omega)
    rw [Nat.succ_mul] at h1
    rw [hsb, List.getElem?_append_left (by rw [hlen]; omega), hget i hi j hj]
    simp only [g]
    have htl : ((old.drop (i * past)).take past).tail.length = past - 1 := by
      simp only [List.length_tail, List.length_take, List.length_drop]; omega
    by_cases hj1 : j + 1 < past
    · rw [if_pos hj1, List.getElem?_append_left (by omega), List.getElem?_tail,
        List.getElem?_take, if_pos hj1, List.getElem?_drop]
      congr 1
    · rw [if_neg hj1, List.getElem?_append_right (by omega), htl]
      have : j - (past - 1) = 0 := by omega
      rw [this, toList_getElem?_zero]
  · intro j hj
    rw [hsb, List.getElem?_append_right (by rw [hlen]; omega), hlen, List.getElem?_drop]
    congr 1
    omega

theorem sig_specStep {past : Nat} {consts : List (κ × Nat)} {x pred : MI κ α}
    (hx : InputOK past consts x) (hp : PredFits past consts x pred) :
    sig (specStep past consts x pred) = sig x := by
  simp only [sig, specStep, List.map_map]
  apply List.map_congr_left
  intro kb hkb
  obtain ⟨h0, hle, hdiv⟩ := hx.2.2 kb hkb
  simp only [Function.comp_apply, Prod.mk.injEq, true_and]
  by_cases hd : HasDyn consts kb
  · obtain ⟨p, hpk, hpl⟩ := hp.2.2 kb hkb hd
    rw [hpk]
    exact (specBlock_spec hx.1 hle hdiv (by simp only [Option.getD_some, hpl, nChan]; omega)).1
  · have : constSize consts kb.1 = kb.2.length := by unfold HasDyn at hd; omega
    rw [specBlock_constOnly _ _ _ _ this]

theorem keys_eq_of_sig {x y : List (κ × List β)} (h : sig x = sig y) : keys x = keys y := by
  have := congrArg (List.map Prod.fst) h
  simpa [sig, keys, Function.comp_def] using this

theorem inputOK_of_sig {past : Nat} {consts : List (κ × Nat)} {x y : MI κ α}
    (h : sig y = sig x) (hx : InputOK past consts x) : InputOK past consts y := by
  refine ⟨hx.1, by rw [keys_eq_of_sig h]; exact hx.2.1, ?_⟩
  intro kb hkb
  have hm : (kb.1, kb.2.length) ∈ sig x := by
    rw [← h]; exact List.mem_map.2 ⟨kb, hkb, rfl⟩
  obtain ⟨kb', hkb', e⟩ := List.mem_map.1 hm
  simp only [Prod.mk.injEq] at e
  obtain ⟨e1, e2⟩ := e
  have := hx.2.2 kb' hkb'
  rw [e1, e2] at this
  exact this

end GinjaxVerif.C16
