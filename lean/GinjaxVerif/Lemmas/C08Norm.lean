import GinjaxVerif.Lemmas.C08Basic
import Mathlib.Algebra.Field.Basic
import Mathlib.Tactic.FieldSimp

/-!
# C08 — group normalisation: statistics are invariant / equivariant, relational equivariance
-/
namespace GinjaxVerif

open Finset

variable {R : Type} {d : Nat}

section Stats
variable [Field R]

/-- the group mean of component `n` of a transformed block is the transformed group mean -/
theorem grpMean_rel (g : SP d) (c : Int) (B B' : Blk R d) (h : B'.Equiv (pfBlk g c B))
    (cpg grp : Nat) (hr : ∀ c', c' < cpg → grp * cpg + c' < B.C) (n : List (Fin d))
    (hn : n.length = B.k) :
    grpMean B' cpg grp n
      = ((c : Int) : R) * (((g.sgn n : Int) : R) * grpMean B cpg grp (n.map g.σ)) := by
  obtain ⟨hC, hd, hk, hv⟩ := h
  have hd' : B'.dims = fun i => B.dims (g.σ i) := hd
  have hC' : B'.C = B.C := hC
  have hk' : B'.k = B.k := hk
  unfold grpMean
  rw [hd', boxCount_perm]
  rw [grpSum_rel g B.dims cpg grp B.C hr
    (fun ch y => ((c : Int) : R) * (((g.sgn n : Int) : R) * B.val ch y (n.map g.σ)))
    (fun ch y => B'.val ch y n)]
  · rw [grpSum_mul_left, grpSum_mul_left, mul_div_assoc, mul_div_assoc]
  · intro ch hch y hy
    rw [hv ch (by omega) y (by rw [hd']; exact hy) n (by omega), pfBlk_val]

theorem chanMean_rel (g : SP d) (c : Int) (B B' : Blk R d) (h : B'.Equiv (pfBlk g c B))
    (ch : Nat) (hch : ch < B.C) (n : List (Fin d)) (hn : n.length = B.k) :
    chanMean B' ch n
      = ((c : Int) : R) * (((g.sgn n : Int) : R) * chanMean B ch (n.map g.σ)) := by
  obtain ⟨hC, hd, hk, hv⟩ := h
  have hd' : B'.dims = fun i => B.dims (g.σ i) := hd
  have hC' : B'.C = B.C := hC
  have hk' : B'.k = B.k := hk
  unfold chanMean
  rw [hd', boxCount_perm]
  rw [sumBox_congr_inBox _ _ (fun y => (fun z => ((c : Int) : R) * (((g.sgn n : Int) : R) *
      B.val ch z (n.map g.σ))) (g.srcPix (fun i => B.dims (g.σ i)) y))]
  · rw [sumBox_srcPix g B.dims (fun z => ((c : Int) : R) * (((g.sgn n : Int) : R) *
      B.val ch z (n.map g.σ)))]
    rw [sumBox_mul_left, sumBox_mul_left, mul_div_assoc, mul_div_assoc]
  · intro y hy
    rw [hv ch (by omega) y (by rw [hd']; exact hy) n (by omega), pfBlk_val]

/-- the group variance of a scalar / pseudo-scalar block is invariant (`c² = 1`) -/
theorem grpVar_rel (g : SP d) (c : Int) (hc : c * c = 1) (B B' : Blk R d) (hk0 : B.k = 0)
    (h : B'.Equiv (pfBlk g c B)) (cpg grp : Nat) (hr : ∀ c', c' < cpg → grp * cpg + c' < B.C) :
    grpVar B' cpg grp = grpVar B cpg grp := by
  have hm := grpMean_rel g c B B' h cpg grp hr [] (by simp [hk0])
  obtain ⟨hC, hd, hk, hv⟩ := h
  have hd' : B'.dims = fun i => B.dims (g.σ i) := hd
  have hC' : B'.C = B.C := hC
  have hk' : B'.k = B.k := hk
  unfold grpVar
  rw [hm]
  rw [hd', boxCount_perm]
  rw [grpSum_rel g B.dims cpg grp B.C hr
    (fun ch y => (B.val ch y [] - grpMean B cpg grp []) * (B.val ch y [] - grpMean B cpg grp []))]
  intro ch hch y hy
  rw [hv ch (by omega) y (by rw [hd']; exact hy) [] (by simp [hk', hk0]), pfBlk_val]
  have h1 := cast_sq_one (R := R) c hc
  simp only [List.map_nil, SP.sgn_nil, Int.cast_one, one_mul]
  calc _ = (((c : Int) : R) * ((c : Int) : R)) *
        ((B.val ch (g.srcPix (fun i => B.dims (g.σ i)) y) [] - grpMean B cpg grp []) *
         (B.val ch (g.srcPix (fun i => B.dims (g.σ i)) y) [] - grpMean B cpg grp [])) := by ring
    _ = _ := by rw [h1, one_mul]

end Stats

section Scalar
variable [Field R]

/-- normalisation without affine parameters commutes with the action on scalars (`c = 1`) and on
pseudo-scalars (`c = det`): the sign cancels in the variance and factors out of `x − mean` -/
theorem normCore_rel (rsqrt max0 : R → R) (eps : R) (G : Nat) (g : SP d) (c : Int)
    (hc : c * c = 1) (B B' : Blk R d) (hk0 : B.k = 0) (hG : G ∣ B.C)
    (h : B'.Equiv (pfBlk g c B)) :
    (normCore rsqrt max0 eps G B').Equiv (pfBlk g c (normCore rsqrt max0 eps G B)) := by
  have h0 := h
  obtain ⟨hC, hd, hk, hv⟩ := h
  have hd' : B'.dims = fun i => B.dims (g.σ i) := hd
  have hC' : B'.C = B.C := hC
  have hk' : B'.k = B.k := hk
  refine ⟨hC, hd, hk, ?_⟩
  intro ch hch y hy n hn
  have hch' : ch < B.C := by
    have : ch < B'.C := hch
    omega
  have hn0 : n = [] := by
    have : n.length = B'.k := hn
    exact List.eq_nil_of_length_eq_zero (by omega)
  subst hn0
  have hy' : InBox B'.dims y := hy
  have hr : ∀ c', c' < B.C / G → ch / (B.C / G) * (B.C / G) + c' < B.C :=
    fun c' hc' => grp_channel_lt B.C G ch c' hG hch' hc'
  have hm := grpMean_rel g c B B' h0 (B.C / G) (ch / (B.C / G)) hr [] (by simp [hk0])
  have hvar := grpVar_rel g c hc B B' hk0 h0 (B.C / G) (ch / (B.C / G)) hr
  rw [pfBlk_val]
  show (B'.val ch y [] - grpMean B' (B'.C / G) (ch / (B'.C / G)) [])
      * rsqrt (max0 (grpVar B' (B'.C / G) (ch / (B'.C / G))) + eps)
    = ((c : Int) : R) * (((g.sgn [] : Int) : R) *
        ((B.val ch (g.srcPix (fun i => B.dims (g.σ i)) y) ([].map g.σ)
            - grpMean B (B.C / G) (ch / (B.C / G)) [])
          * rsqrt (max0 (grpVar B (B.C / G) (ch / (B.C / G))) + eps)))
  rw [hC', hm, hvar, hv ch hch y hy' [] hn, pfBlk_val]
  simp only [List.map_nil]
  ring

theorem affine_rel (weight bias : Nat → R) (g : SP d) (B B' : Blk R d) (hk0 : B.k = 0)
    (h : B'.Equiv (pfBlk g 1 B)) :
    (affine weight bias B').Equiv (pfBlk g 1 (affine weight bias B)) := by
  obtain ⟨hC, hd, hk, hv⟩ := h
  have hk' : B'.k = B.k := hk
  refine ⟨hC, hd, hk, ?_⟩
  intro ch hch y hy n hn
  have hn0 : n = [] := by
    have : n.length = B'.k := hn
    exact List.eq_nil_of_length_eq_zero (by omega)
  subst hn0
  rw [pfBlk_val]
  show weight ch * B'.val ch y [] + bias ch = _
  rw [hv ch hch y hy [] hn, pfBlk_val]
  simp only [affine, List.map_nil, SP.sgn_nil, Int.cast_one, one_mul]

theorem scaleCh_rel (scale : Nat → R) (g : SP d) (c : Int) (B B' : Blk R d)
    (h : B'.Equiv (pfBlk g c B)) :
    (scaleCh scale B').Equiv (pfBlk g c (scaleCh scale B)) := by
  obtain ⟨hC, hd, hk, hv⟩ := h
  refine ⟨hC, hd, hk, ?_⟩
  intro ch hch y hy n hn
  rw [pfBlk_val]
  show B'.val ch y n * scale ch = _
  rw [hv ch hch y hy n hn, pfBlk_val]
  simp only [scaleCh]
  ring

/-- pointwise maps commute with the action on scalar blocks -/
theorem vnScalar_rel (act : R → R) (g : SP d) (B B' : Blk R d) (hk0 : B.k = 0)
    (h : B'.Equiv (pfBlk g 1 B)) : (vnScalar act B').Equiv (pfBlk g 1 (vnScalar act B)) := by
  obtain ⟨hC, hd, hk, hv⟩ := h
  have hk' : B'.k = B.k := hk
  refine ⟨hC, hd, hk, ?_⟩
  intro ch hch y hy n hn
  have hn0 : n = [] := by
    have : n.length = B'.k := hn
    exact List.eq_nil_of_length_eq_zero (by omega)
  subst hn0
  rw [pfBlk_val]
  show act (B'.val ch y []) = _
  rw [hv ch hch y hy [] hn, pfBlk_val]
  simp only [vnScalar, List.map_nil, SP.sgn_nil, Int.cast_one, one_mul]

theorem groupNormScalar_rel (rsqrt max0 : R → R) (eps : R) (G : Nat) (weight bias : Nat → R)
    (g : SP d) (B B' : Blk R d) (hk0 : B.k = 0) (hG : G ∣ B.C) (h : B'.Equiv (pfBlk g 1 B)) :
    (groupNormScalar rsqrt max0 eps G weight bias B').Equiv
      (pfBlk g 1 (groupNormScalar rsqrt max0 eps G weight bias B)) :=
  affine_rel weight bias g _ _ hk0 (normCore_rel rsqrt max0 eps G g 1 (by norm_num) B B' hk0 hG h)

theorem groupNormPseudo_rel (rsqrt max0 : R → R) (eps : R) (G : Nat) (scale : Nat → R)
    (g : SP d) (c : Int) (hc : c * c = 1) (B B' : Blk R d) (hk0 : B.k = 0) (hG : G ∣ B.C)
    (h : B'.Equiv (pfBlk g c B)) :
    (groupNormPseudo rsqrt max0 eps G scale B').Equiv
      (pfBlk g c (groupNormPseudo rsqrt max0 eps G scale B)) :=
  scaleCh_rel scale g c _ _ (normCore_rel rsqrt max0 eps G g c hc B B' hk0 hG h)

end Scalar

/-! ### vectors: whitening -/

/-- conjugation of a `d × d` matrix by the signed permutation `g`: `(g C gᵀ)[i,j] = s i · s j ·
C[σ i, σ j]` -/
def SP.conj [Mul R] [IntCast R] (g : SP d) (Cv : RMat R d) : RMat R d :=
  fun i j => ((g.s i * g.s j : Int) : R) * Cv (g.σ i) (g.σ j)

/-- the same, written as the matrix product `g · C · gᵀ` with the integer matrix `g.mat` -/
def conjMat [Zero R] [Add R] [Mul R] [IntCast R] (M : Mat d) (Cv : RMat R d) : RMat R d :=
  fun i j => sumFin d (fun a => sumFin d (fun b => ((M i a : Int) : R) * Cv a b * ((M j b : Int) : R)))

theorem conjMat_mat [CommRing R] (g : SP d) (Cv : RMat R d) : conjMat g.mat Cv = g.conj Cv := by
  funext i j
  simp only [conjMat, sumFin_eq, SP.conj]
  rw [Finset.sum_eq_single (g.σ i)]
  · rw [Finset.sum_eq_single (g.σ j)]
    · simp only [SP.mat, if_true]; push_cast; ring
    · intro b _ hb; simp [SP.mat, hb]
    · intro h; exact absurd (Finset.mem_univ _) h
  · intro a _ ha
    apply Finset.sum_eq_zero
    intro b _
    simp [SP.mat, ha]
  · intro h; exact absurd (Finset.mem_univ _) h

/-- **the hypothesis that stands for `eigh`**: the symmetric matrix function commutes with
conjugation by signed permutations (on symmetric arguments) -/
def ConjEquivariant [Mul R] [IntCast R] (S : RMat R d → RMat R d) : Prop :=
  ∀ (g : SP d) (Cv : RMat R d), (∀ i j, Cv i j = Cv j i) → S (g.conj Cv) = g.conj (S Cv)

section Vector
variable [Field R]

theorem s_cast_sq (g : SP d) (i : Fin d) : ((g.s i : Int) : R) * ((g.s i : Int) : R) = 1 :=
  cast_sq_one _ (g.s_mul_self i)

theorem sgn_single (g : SP d) (i : Fin d) : g.sgn [i] = g.s i := by simp

theorem addEps_conj (g : SP d) (eps : R) (Cv : RMat R d) :
    addEps eps (g.conj Cv) = g.conj (addEps eps Cv) := by
  funext i j
  simp only [addEps, SP.conj]
  by_cases hij : i = j
  · subst hij
    have := s_cast_sq (R := R) g i
    simp only [if_true]
    push_cast
    rw [mul_add, this]
    ring
  · have : ¬ g.σ i = g.σ j := fun h => hij (g.σ.injective h)
    simp [hij, this]

theorem grpCov_symm (B : Blk R d) (cpg grp : Nat) (i j : Fin d) :
    grpCov B cpg grp i j = grpCov B cpg grp j i := by
  unfold grpCov grpSum
  congr 1
  apply sumFin_congr_fin
  intro c'
  apply sumBox_congr_inBox
  intro y _
  ring

theorem addEps_symm (eps : R) (Cv : RMat R d) (h : ∀ i j, Cv i j = Cv j i) (i j : Fin d) :
    addEps eps Cv i j = addEps eps Cv j i := by
  simp only [addEps, h i j]
  by_cases hij : i = j
  · subst hij; rfl
  · have : ¬ j = i := fun h' => hij h'.symm
    simp [hij, this]

/-- the covariance of a transformed vector block is the conjugated covariance -/
theorem grpCov_rel (g : SP d) (c : Int) (hc : c * c = 1) (B B' : Blk R d) (hk1 : B.k = 1)
    (h : B'.Equiv (pfBlk g c B)) (cpg grp : Nat) (hr : ∀ c', c' < cpg → grp * cpg + c' < B.C) :
    grpCov B' cpg grp = g.conj (grpCov B cpg grp) := by
  funext i j
  have hmi := grpMean_rel g c B B' h cpg grp hr [i] (by simp [hk1])
  have hmj := grpMean_rel g c B B' h cpg grp hr [j] (by simp [hk1])
  obtain ⟨hC, hd, hk, hv⟩ := h
  have hd' : B'.dims = fun i => B.dims (g.σ i) := hd
  have hC' : B'.C = B.C := hC
  have hk' : B'.k = B.k := hk
  unfold grpCov SP.conj
  rw [hmi, hmj, hd', boxCount_perm]
  rw [grpSum_rel g B.dims cpg grp B.C hr
    (fun ch y => ((g.s i * g.s j : Int) : R) *
      ((B.val ch y [g.σ i] - grpMean B cpg grp [g.σ i]) *
       (B.val ch y [g.σ j] - grpMean B cpg grp [g.σ j])))]
  · rw [grpSum_mul_left, mul_div_assoc]
  · intro ch hch y hy
    rw [hv ch (by omega) y (by rw [hd']; exact hy) [i] (by simp; omega),
      hv ch (by omega) y (by rw [hd']; exact hy) [j] (by simp; omega), pfBlk_val, pfBlk_val]
    have h1 := cast_sq_one (R := R) c hc
    simp only [sgn_single, List.map_cons, List.map_nil]
    push_cast
    calc _ = (((c : Int) : R) * ((c : Int) : R)) * (((g.s i : Int) : R) * ((g.s j : Int) : R) *
          ((B.val ch (g.srcPix (fun i => B.dims (g.σ i)) y) [g.σ i] - grpMean B cpg grp [g.σ i]) *
           (B.val ch (g.srcPix (fun i => B.dims (g.σ i)) y) [g.σ j] - grpMean B cpg grp [g.σ j]))) := by
          ring
      _ = _ := by rw [h1, one_mul]

/-- **`_group_norm_K1` commutes with the action** for every conjugation-equivariant `S` -/
theorem groupNormK1_rel (S : RMat R d → RMat R d) (hS : ConjEquivariant S) (eps : R) (G : Nat)
    (g : SP d) (c : Int) (hc : c * c = 1) (B B' : Blk R d) (hk1 : B.k = 1) (hG : G ∣ B.C)
    (h : B'.Equiv (pfBlk g c B)) :
    (groupNormK1 S eps G B').Equiv (pfBlk g c (groupNormK1 S eps G B)) := by
  have h0 := h
  obtain ⟨hC, hd, hk, hv⟩ := h
  have hd' : B'.dims = fun i => B.dims (g.σ i) := hd
  have hC' : B'.C = B.C := hC
  have hk' : B'.k = B.k := hk
  refine ⟨hC, hd, hk, ?_⟩
  intro ch hch y hy n hn
  have hch' : ch < B.C := by
    have : ch < B'.C := hch
    omega
  have hn1 : n.length = 1 := by
    have : n.length = B'.k := hn
    omega
  obtain ⟨i, rfl⟩ := List.length_eq_one_iff.mp hn1
  have hy' : InBox B'.dims y := hy
  have hr : ∀ c', c' < B.C / G → ch / (B.C / G) * (B.C / G) + c' < B.C :=
    fun c' hc' => grp_channel_lt B.C G ch c' hG hch' hc'
  have hcov := grpCov_rel g c hc B B' hk1 h0 (B.C / G) (ch / (B.C / G)) hr
  have hW : S (addEps eps (grpCov B' (B.C / G) (ch / (B.C / G))))
      = g.conj (S (addEps eps (grpCov B (B.C / G) (ch / (B.C / G))))) := by
    rw [hcov, addEps_conj]
    exact hS g _ (addEps_symm eps _ (grpCov_symm B _ _))
  have hm : ∀ l : Fin d, grpMean B' (B.C / G) (ch / (B.C / G)) [l]
      = ((c : Int) : R) * (((g.s l : Int) : R) * grpMean B (B.C / G) (ch / (B.C / G)) [g.σ l]) := by
    intro l
    have := grpMean_rel g c B B' h0 (B.C / G) (ch / (B.C / G)) hr [l] (by simp [hk1])
    rw [this, sgn_single]; rfl
  rw [pfBlk_val]
  show sumFin d (fun l => S (addEps eps (grpCov B' (B'.C / G) (ch / (B'.C / G)))) i l
        * (B'.val ch y [l] - grpMean B' (B'.C / G) (ch / (B'.C / G)) [l]))
    = ((c : Int) : R) * (((g.sgn [i] : Int) : R) *
        sumFin d (fun l => S (addEps eps (grpCov B (B.C / G) (ch / (B.C / G)))) (g.σ i) l
          * (B.val ch (g.srcPix (fun i => B.dims (g.σ i)) y) [l]
              - grpMean B (B.C / G) (ch / (B.C / G)) [l])))
  rw [hC', hW, sgn_single, sumFin_eq, sumFin_eq]
  rw [← Equiv.sum_comp g.σ (fun l => S (addEps eps (grpCov B (B.C / G) (ch / (B.C / G)))) (g.σ i) l
          * (B.val ch (g.srcPix (fun i => B.dims (g.σ i)) y) [l]
              - grpMean B (B.C / G) (ch / (B.C / G)) [l]))]
  rw [Finset.mul_sum, Finset.mul_sum]
  apply Finset.sum_congr rfl
  intro l _
  rw [hm l, hv ch hch y hy' [l] (by simp; omega), pfBlk_val, sgn_single]
  have h2 := s_cast_sq (R := R) g l
  simp only [SP.conj, List.map_cons, List.map_nil]
  push_cast
  calc _ = (((g.s l : Int) : R) * ((g.s l : Int) : R)) * (((c : Int) : R) * (((g.s i : Int) : R) *
        (S (addEps eps (grpCov B (B.C / G) (ch / (B.C / G)))) (g.σ i) (g.σ l) *
          (B.val ch (g.srcPix (fun i => B.dims (g.σ i)) y) [g.σ l]
            - grpMean B (B.C / G) (ch / (B.C / G)) [g.σ l])))) := by ring
    _ = _ := by rw [h2, one_mul]

/-- `whitened·scale + bias·mean_vec` commutes with the action (the bias multiplies an equivariant
vector) -/
theorem vecAffine_rel (scale bias : Nat → R) (g : SP d) (c : Int) (X X' Wh Wh' : Blk R d)
    (hXW : Wh.C = X.C ∧ Wh.dims = X.dims ∧ Wh.k = X.k)
    (hX : X'.Equiv (pfBlk g c X)) (hW : Wh'.Equiv (pfBlk g c Wh)) :
    (vecAffine scale bias X' Wh').Equiv (pfBlk g c (vecAffine scale bias X Wh)) := by
  obtain ⟨hC, hd, hk, hv⟩ := hW
  have hC' : Wh'.C = Wh.C := hC
  have hk' : Wh'.k = Wh.k := hk
  refine ⟨hC, hd, hk, ?_⟩
  intro ch hch y hy n hn
  have hch' : ch < X.C := by
    have : ch < Wh'.C := hch
    omega
  have hn' : n.length = X.k := by
    have : n.length = Wh'.k := hn
    omega
  rw [pfBlk_val]
  show Wh'.val ch y n * scale ch + bias ch * chanMean X' ch n = _
  rw [hv ch hch y hy n hn, pfBlk_val, chanMean_rel g c X X' hX ch hch' n hn']
  simp only [vecAffine]
  ring

theorem groupNormVector_rel (S : RMat R d → RMat R d) (hS : ConjEquivariant S) (eps : R) (G : Nat)
    (scale bias : Nat → R) (g : SP d) (c : Int) (hc : c * c = 1) (B B' : Blk R d) (hk1 : B.k = 1)
    (hG : G ∣ B.C) (h : B'.Equiv (pfBlk g c B)) :
    (groupNormVector S eps G scale bias B').Equiv
      (pfBlk g c (groupNormVector S eps G scale bias B)) :=
  vecAffine_rel scale bias g c B B' _ _ ⟨rfl, rfl, rfl⟩ h
    (groupNormK1_rel S hS eps G g c hc B B' hk1 hG h)

/-! ### non-vacuity of the hypothesis on `S` -/

theorem conjEquivariant_id : ConjEquivariant (fun Cv : RMat R d => Cv) := fun _ _ _ => rfl

/-- matrix product -/
def rmul (A Bm : RMat R d) : RMat R d := fun i j => ∑ l, A i l * Bm l j

theorem conj_rmul (g : SP d) (A Bm : RMat R d) : g.conj (rmul A Bm) = rmul (g.conj A) (g.conj Bm) := by
  funext i j
  simp only [SP.conj, rmul]
  rw [← Equiv.sum_comp g.σ (fun l => A (g.σ i) l * Bm l (g.σ j)), Finset.mul_sum]
  apply Finset.sum_congr rfl
  intro l _
  have h2 := s_cast_sq (R := R) g l
  push_cast
  calc _ = 1 * (((g.s i : Int) : R) * ((g.s j : Int) : R) * (A (g.σ i) (g.σ l) * Bm (g.σ l) (g.σ j))) := by ring
    _ = (((g.s l : Int) : R) * ((g.s l : Int) : R)) * (((g.s i : Int) : R) * ((g.s j : Int) : R) * (A (g.σ i) (g.σ l) * Bm (g.σ l) (g.σ j))) := by rw [h2]
    _ = _ := by ring

/-- every polynomial `a·I + b·C + e·C²` is conjugation-equivariant (as is every polynomial, and
hence `U f(Λ) Uᵀ` for every `f` on a symmetric matrix: it is a polynomial in `C`) -/
theorem conjEquivariant_poly (a b e : R) :
    ConjEquivariant (fun Cv : RMat R d => fun i j =>
      (if i = j then a else 0) + b * Cv i j + e * rmul Cv Cv i j) := by
  intro g Cv _
  funext i j
  have hmul := congrFun (congrFun (conj_rmul g Cv Cv) i) j
  simp only [← hmul]
  simp only [SP.conj]
  by_cases hij : i = j
  · subst hij
    have := s_cast_sq (R := R) g i
    simp only [if_true]
    push_cast
    rw [mul_add, mul_add, this]
    ring
  · have : ¬ g.σ i = g.σ j := fun h => hij (g.σ.injective h)
    simp only [hij, this, if_false]
    ring

end Vector

end GinjaxVerif
