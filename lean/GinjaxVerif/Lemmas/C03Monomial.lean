import Mathlib.RepresentationTheory.Character
import Mathlib.LinearAlgebra.Matrix.Trace
import Mathlib.LinearAlgebra.StdBasis
import Mathlib.GroupTheory.GroupAction.Basic

/-!
# C03 — linear algebra of a monomial (signed permutation) representation

Abstract setting (nothing about pixels or tensors here):

* `K` a field, `ι` a finite index type, `G` a finite group acting on `ι` (`MulAction G ι`);
* a sign cocycle `ε : G → ι → K`, `ε g i = ±1`, `ε (g*h) i = ε g (h • i) * ε h i`;
* the monomial representation `ρ g e_i = ε g i • e_(g • i)` on `ι → K`.

Facts: the group sums `avg i = ∑ g, ρ g e_i` are invariant, span the invariants, agree up to sign
inside an orbit and are supported on the orbit; non-zero vectors with pairwise disjoint supports are
linearly independent; hence one non-zero average per orbit (up to non-zero rescaling) is a basis of
the invariant subspace, and its size is the character average.
-/

namespace GinjaxVerif.C03

open scoped BigOperators
open MulAction

/-- A sign cocycle over a permutation action. -/
structure Cocycle (G ι K : Type*) [Group G] [MulAction G ι] [Field K] where
  ε : G → ι → K
  sq : ∀ g i, ε g i = 1 ∨ ε g i = -1
  mul : ∀ g h i, ε (g * h) i = ε g (h • i) * ε h i

section
variable {G ι K : Type*} [Group G] [MulAction G ι] [Field K] (c : Cocycle G ι K)

namespace Cocycle

theorem ne_zero (g : G) (i : ι) : c.ε g i ≠ 0 := by
  rcases c.sq g i with h | h <;> rw [h] <;> simp

theorem mul_self (g : G) (i : ι) : c.ε g i * c.ε g i = 1 := by
  rcases c.sq g i with h | h <;> rw [h] <;> simp

theorem one (i : ι) : c.ε 1 i = 1 := by
  have h := c.mul 1 1 i
  rw [one_smul, mul_one] at h
  have h0 := c.ne_zero 1 i
  field_simp at h
  exact h.symm

end Cocycle

/-- `ρ g`, in "pull" form: `(ρ g v) j = ε g (g⁻¹ • j) * v (g⁻¹ • j)`. -/
def rhoLin (g : G) : (ι → K) →ₗ[K] (ι → K) where
  toFun v j := c.ε g (g⁻¹ • j) * v (g⁻¹ • j)
  map_add' v w := by funext j; simp [mul_add]
  map_smul' a v := by funext j; simp [mul_left_comm]

@[simp] theorem rhoLin_apply (g : G) (v : ι → K) (j : ι) :
    rhoLin c g v j = c.ε g (g⁻¹ • j) * v (g⁻¹ • j) := rfl

/-- The monomial representation bundled as a Mathlib `Representation`. -/
def rho : Representation K G (ι → K) where
  toFun := rhoLin c
  map_one' := by
    ext v j
    simp [c.one]
  map_mul' g h := by
    ext v j
    simp only [rhoLin_apply, Module.End.mul_apply, mul_inv_rev, mul_smul]
    rw [c.mul g h (h⁻¹ • g⁻¹ • j), smul_inv_smul, mul_assoc]

@[simp] theorem rho_apply (g : G) (v : ι → K) (j : ι) :
    rho c g v j = c.ε g (g⁻¹ • j) * v (g⁻¹ • j) := rfl

variable [DecidableEq ι]

/-- `ρ g e_i = ε g i • e_(g • i)`: the defining (push) form of the monomial action. -/
theorem rho_single (g : G) (i : ι) :
    rho c g (Pi.single i 1) = c.ε g i • Pi.single (g • i) 1 := by
  funext j
  simp only [rho_apply, Pi.smul_apply, smul_eq_mul, Pi.single_apply]
  by_cases h : j = g • i
  · subst h; simp
  · have : g⁻¹ • j ≠ i := fun h' => h (by rw [← h', smul_inv_smul])
    simp [h, this]

variable [Fintype G]

/-- the group sum of a basis vector (what the code computes for every basis element) -/
def avg (i : ι) : ι → K := ∑ g : G, rho c g (Pi.single i 1)

theorem avg_apply (i j : ι) :
    avg c i j = ∑ g : G, if g • i = j then c.ε g i else 0 := by
  unfold avg
  rw [Finset.sum_apply]
  refine Finset.sum_congr rfl fun g _ => ?_
  rw [rho_single]
  simp only [Pi.smul_apply, smul_eq_mul, Pi.single_apply]
  by_cases h : g • i = j
  · simp [h]
  · have : ¬ j = g • i := fun h' => h h'.symm
    simp [h, this]

/-- (a) every group sum is fixed by every group element -/
theorem avg_invariant (h : G) (i : ι) : rho c h (avg c i) = avg c i := by
  unfold avg
  rw [map_sum]
  simp only [← Module.End.mul_apply, ← map_mul]
  exact Fintype.sum_equiv (Equiv.mulLeft h) _ _ (fun g => rfl)

/-- (c1) inside an orbit the group sums agree up to the cocycle sign -/
theorem avg_same_orbit (h : G) (i : ι) : avg c (h • i) = c.ε h i • avg c i := by
  have hs : (Pi.single (h • i) 1 : ι → K) = c.ε h i • rho c h (Pi.single i 1) := by
    rw [rho_single, smul_smul, c.mul_self, one_smul]
  unfold avg
  rw [hs, Finset.smul_sum]
  simp only [map_smul]
  simp only [← Module.End.mul_apply, ← map_mul]
  exact Fintype.sum_equiv (Equiv.mulRight h)
    (fun g => c.ε h i • (rho c) (g * h) (Pi.single i 1))
    (fun g => c.ε h i • (rho c) g (Pi.single i 1)) (fun g => rfl)

/-- (c2) a group sum is supported on the orbit of its seed -/
theorem avg_support (i j : ι) (hj : avg c i j ≠ 0) : j ∈ orbit G i := by
  by_contra hno
  apply hj
  rw [avg_apply]
  refine Finset.sum_eq_zero fun g _ => ?_
  have : g • i ≠ j := fun h => hno ⟨g, h⟩
  simp [this]

/-- group sums of seeds in different orbits have disjoint supports -/
theorem avg_disjoint_support (i i' : ι) (hne : orbit G i ≠ orbit G i') (j : ι)
    (hj : avg c i j ≠ 0) : avg c i' j = 0 := by
  by_contra hj'
  have h1 := avg_support c i j hj
  have h2 := avg_support c i' j hj'
  exact hne ((orbit_eq_iff.mpr h1).symm.trans (orbit_eq_iff.mpr h2))

variable [Fintype ι]

theorem sum_smul_single (v : ι → K) : ∑ i, v i • (Pi.single i 1 : ι → K) = v := by
  funext j
  rw [Finset.sum_apply]
  simp [Pi.single_apply]

/-- `∑_g ρ g v = ∑_i v_i • avg i` -/
theorem sum_rho_eq_sum_avg (v : ι → K) : ∑ g : G, rho c g v = ∑ i, v i • avg c i := by
  conv_lhs => rw [← sum_smul_single v]
  simp only [map_sum, map_smul]
  rw [Finset.sum_comm]
  refine Finset.sum_congr rfl fun i _ => ?_
  rw [avg, Finset.smul_sum]

/-- (b) every invariant vector is the explicit combination `|G|⁻¹ ∑_i v_i • avg i` -/
theorem invariant_eq_sum_avg (hcard : (Fintype.card G : K) ≠ 0) (v : ι → K)
    (hv : ∀ g, rho c g v = v) :
    v = (Fintype.card G : K)⁻¹ • ∑ i, v i • avg c i := by
  rw [← sum_rho_eq_sum_avg]
  simp only [hv, Finset.sum_const, Finset.card_univ]
  rw [← Nat.cast_smul_eq_nsmul K, smul_smul, inv_mul_cancel₀ hcard, one_smul]

/-- (b) the group sums span the invariant subspace -/
theorem invariant_mem_span_avg (hcard : (Fintype.card G : K) ≠ 0) (v : ι → K)
    (hv : ∀ g, rho c g v = v) : v ∈ Submodule.span K (Set.range (avg c)) := by
  rw [invariant_eq_sum_avg c hcard v hv]
  refine Submodule.smul_mem _ _ (Submodule.sum_mem _ fun i _ => Submodule.smul_mem _ _ ?_)
  exact Submodule.subset_span ⟨i, rfl⟩

omit [Fintype ι] in
theorem avg_mem_invariants (i : ι) : avg c i ∈ (rho c).invariants :=
  fun g => avg_invariant c g i

theorem span_avg_eq_invariants (hcard : (Fintype.card G : K) ≠ 0) :
    Submodule.span K (Set.range (avg c)) = (rho c).invariants := by
  apply le_antisymm
  · rw [Submodule.span_le]
    rintro _ ⟨i, rfl⟩
    exact avg_mem_invariants c i
  · intro v hv
    exact invariant_mem_span_avg c hcard v hv

end

/-- (d) non-zero vectors with pairwise disjoint supports are linearly independent -/
theorem linearIndependent_of_disjoint_support {κ ι K : Type*} [Field K]
    (r : κ → ι → K) (hne : ∀ a, r a ≠ 0)
    (hdisj : ∀ a b, a ≠ b → ∀ j, r a j ≠ 0 → r b j = 0) : LinearIndependent K r := by
  classical
  rw [linearIndependent_iff']
  intro s g hsum a ha
  obtain ⟨j, hj⟩ : ∃ j, r a j ≠ 0 := by
    by_contra h
    push Not at h
    exact hne a (funext h)
  have h := congrFun hsum j
  rw [Finset.sum_apply, Finset.sum_eq_single a] at h
  · simpa [hj] using h
  · intro b _ hba
    simp [hdisj a b (Ne.symm hba) j hj]
  · intro hna; exact absurd ha hna

/-- non-zero rescaling does not change the span -/
theorem rescale_span {κ V K : Type*} [Field K] [AddCommGroup V] [Module K V]
    (f : κ → V) (s : κ → K) (hs : ∀ a, s a ≠ 0) :
    Submodule.span K (Set.range fun a => s a • f a) = Submodule.span K (Set.range f) := by
  apply le_antisymm
  · rw [Submodule.span_le]
    rintro _ ⟨a, rfl⟩
    exact Submodule.smul_mem _ _ (Submodule.subset_span ⟨a, rfl⟩)
  · rw [Submodule.span_le]
    rintro _ ⟨a, rfl⟩
    have : f a = (s a)⁻¹ • (s a • f a) := by rw [smul_smul, inv_mul_cancel₀ (hs a), one_smul]
    rw [this]
    exact Submodule.smul_mem _ _ (Submodule.subset_span ⟨a, rfl⟩)

/-- non-zero rescaling does not change linear independence -/
theorem rescale_linearIndependent {κ V K : Type*} [Field K] [AddCommGroup V] [Module K V]
    (f : κ → V) (s : κ → K) (hs : ∀ a, s a ≠ 0) (hf : LinearIndependent K f) :
    LinearIndependent K (fun a => s a • f a) :=
  hf.units_smul (fun a => Units.mk0 (s a) (hs a))

section Family
variable {G ι K κ : Type*} [Group G] [Fintype G] [MulAction G ι] [Fintype ι] [DecidableEq ι]
  [Field K] (c : Cocycle G ι K)

/-- A choice of seeds: one per orbit with non-zero group sum, every such orbit represented, and a
non-zero scale per member (this absorbs the sign normalisation, max-abs scaling, `normalize`,
`rectify`, and any order in which the members are listed). -/
structure Seeds (κ : Type*) where
  rep : κ → ι
  scale : κ → K
  scale_ne : ∀ a, scale a ≠ 0
  avg_ne : ∀ a, avg c (rep a) ≠ 0
  one_per_orbit : ∀ a b, rep a ∈ orbit G (rep b) → a = b
  cover : ∀ i, avg c i ≠ 0 → ∃ a, i ∈ orbit G (rep a)

variable {c}

/-- the generated family -/
def Seeds.family (S : Seeds c κ) (a : κ) : ι → K := S.scale a • avg c (S.rep a)

omit [Fintype ι] in
theorem Seeds.family_invariant (S : Seeds c κ) (a : κ) (g : G) :
    rho c g (S.family a) = S.family a := by
  unfold Seeds.family
  rw [map_smul, avg_invariant]

omit [Fintype ι] in
/-- (e1) the family is linearly independent -/
theorem family_linearIndependent (S : Seeds c κ) : LinearIndependent K S.family := by
  apply rescale_linearIndependent _ _ S.scale_ne
  apply linearIndependent_of_disjoint_support _ S.avg_ne
  intro a b hab j hj
  by_contra hj'
  have h1 := avg_support c _ j hj
  have h2 := avg_support c _ j hj'
  apply hab
  apply S.one_per_orbit
  -- rep a ∈ orbit (rep b)
  have : orbit G (S.rep a) = orbit G (S.rep b) :=
    (orbit_eq_iff.mpr h1).symm.trans (orbit_eq_iff.mpr h2)
  rw [← this]
  exact mem_orbit_self _

/-- (e2) the family spans exactly the invariant subspace -/
theorem family_span_eq_invariants (S : Seeds c κ) (hcard : (Fintype.card G : K) ≠ 0) :
    Submodule.span K (Set.range S.family) = (rho c).invariants := by
  rw [← span_avg_eq_invariants c hcard]
  unfold Seeds.family
  rw [rescale_span _ _ S.scale_ne]
  apply le_antisymm
  · apply Submodule.span_mono
    rintro _ ⟨a, rfl⟩
    exact ⟨S.rep a, rfl⟩
  · rw [Submodule.span_le]
    rintro _ ⟨i, rfl⟩
    by_cases hi : avg c i = 0
    · rw [hi]; exact Submodule.zero_mem _
    · obtain ⟨a, h, rfl⟩ := S.cover i hi
      simp only [SetLike.mem_coe]
      rw [avg_same_orbit]
      exact Submodule.smul_mem _ _ (Submodule.subset_span ⟨a, rfl⟩)

/-- (e3) the size of the family is the dimension of the invariant subspace -/
theorem family_card_eq_finrank [Fintype κ] (S : Seeds c κ) (hcard : (Fintype.card G : K) ≠ 0) :
    Fintype.card κ = Module.finrank K (rho c).invariants := by
  rw [← family_span_eq_invariants S hcard, finrank_span_eq_card (family_linearIndependent S)]

end Family

section ListFamily
variable {G ι K : Type*} [Group G] [Fintype G] [MulAction G ι] [Fintype ι] [DecidableEq ι]
  [Field K] (c : Cocycle G ι K)

omit [Fintype ι] in
/-- What the code does after group-summing, abstractly: `N i` is the "normalised row" of seed `i`
(a non-zero multiple of the group sum that does not depend on the sign of the group sum — the
leading-sign step), and `L` lists the distinct normalised non-zero rows (the `np.unique` step), each
rescaled afterwards by any non-zero `t n`.  Such a list is a family of seeds: one per orbit. -/
theorem exists_seeds_of_list (N : ι → (ι → K))
    (hN1 : ∀ i, avg c i ≠ 0 → ∃ s : K, s ≠ 0 ∧ N i = s • avg c i)
    (hN2 : ∀ i i', (avg c i = avg c i' ∨ avg c i = -avg c i') → N i = N i')
    (L : List (ι → K)) (hnd : L.Nodup)
    (hmem : ∀ v, v ∈ L ↔ ∃ i, avg c i ≠ 0 ∧ v = N i)
    (t : Fin L.length → K) (ht : ∀ n, t n ≠ 0) :
    ∃ S : Seeds c (Fin L.length), ∀ n, S.family n = t n • L.get n := by
  have hex : ∀ n : Fin L.length, ∃ i, avg c i ≠ 0 ∧ L.get n = N i :=
    fun n => (hmem _).mp (List.get_mem L n)
  choose r hr0 hr using hex
  have hsc : ∀ n, ∃ s : K, s ≠ 0 ∧ N (r n) = s • avg c (r n) := fun n => hN1 _ (hr0 n)
  choose sc hsc0 hsc1 using hsc
  refine ⟨{ rep := r
            scale := fun n => t n * sc n
            scale_ne := fun n => mul_ne_zero (ht n) (hsc0 n)
            avg_ne := hr0
            one_per_orbit := ?_
            cover := ?_ }, ?_⟩
  · rintro a b ⟨h, hh⟩
    have hab : avg c (r a) = c.ε h (r b) • avg c (r b) := by
      rw [← avg_same_orbit]; exact congrArg (avg c) hh.symm
    have : N (r a) = N (r b) := by
      apply hN2
      rcases c.sq h (r b) with e | e <;> rw [e] at hab
      · left; simpa using hab
      · right; simpa using hab
    exact (hnd.get_inj_iff).mp (by rw [hr a, hr b, this])
  · intro i hi
    obtain ⟨n, hn⟩ := List.get_of_mem ((hmem (N i)).mpr ⟨i, hi, rfl⟩)
    refine ⟨n, ?_⟩
    obtain ⟨s, hs0, hs⟩ := hN1 i hi
    have heq : sc n • avg c (r n) = s • avg c i := by rw [← hsc1, ← hs, ← hr, hn]
    obtain ⟨j, hj⟩ : ∃ j, avg c i j ≠ 0 := by
      by_contra h
      push Not at h
      exact hi (funext h)
    have hj' : avg c (r n) j ≠ 0 := by
      intro h0
      have := congrFun heq j
      simp only [Pi.smul_apply, smul_eq_mul, h0, mul_zero] at this
      exact mul_ne_zero hs0 hj this.symm
    have h1 := orbit_eq_iff.mpr (avg_support c i j hj)
    have h2 := orbit_eq_iff.mpr (avg_support c (r n) j hj')
    exact orbit_eq_iff.mp (h1.symm.trans h2)
  · intro n
    change (t n * sc n) • avg c (r n) = t n • L.get n
    rw [mul_smul, ← hsc1, ← hr]

end ListFamily

section Trace
variable {G ι K : Type*} [Group G] [MulAction G ι] [Fintype ι] [DecidableEq ι]
  [Field K] (c : Cocycle G ι K)

/-- the character of the monomial representation: signed count of fixed indices -/
theorem trace_rho (g : G) :
    LinearMap.trace K (ι → K) (rho c g) = ∑ i, if g • i = i then c.ε g i else 0 := by
  rw [LinearMap.trace_eq_matrix_trace K (Pi.basisFun K ι), Matrix.trace]
  refine Finset.sum_congr rfl fun i _ => ?_
  rw [Matrix.diag_apply, LinearMap.toMatrix_apply, Pi.basisFun_apply, Pi.basisFun_repr,
    rho_single]
  by_cases h : g • i = i
  · simp [h]
  · have : ¬ i = g • i := fun h' => h h'.symm
    simp [h, this]

variable [Fintype G]

/-- (f) character formula, abstract form: the number of family members is the average over the
group of the signed number of fixed indices -/
theorem family_card_formula {κ : Type*} [Fintype κ] (S : Seeds c κ)
    (hcard : (Fintype.card G : K) ≠ 0) :
    (Fintype.card κ : K)
      = (Fintype.card G : K)⁻¹ * ∑ g : G, ∑ i, if g • i = i then c.ε g i else 0 := by
  rw [family_card_eq_finrank S hcard]
  have : Invertible (Nat.card G : K) := by
    rw [← Fintype.card_eq_nat_card]; exact invertibleOfNonzero hcard
  have h := Representation.card_inv_mul_sum_char_eq_finrank (rho c)
  rw [← h, ← Fintype.card_eq_nat_card]
  congr 1
  refine Finset.sum_congr rfl fun g _ => ?_
  exact trace_rho c g

end Trace

end GinjaxVerif.C03
