import GinjaxVerif.Lemmas.C20Net
/-!
# C20 — the UNet: level arithmetic (`depth·2^level`), skip doubling, up-convolution, extents
-/
namespace GinjaxVerif.C20

/-- additional hypotheses for the UNet: `num_conv > 0`; the mid types carry `depth` channels (true
of the default `mid_keys`); at least one mid type; equivariant mode with at least one level: the
up-sampling bank has side 2 and produces every mid type from the mid types; every extent is
positive and divisible by `2^num_downsamples`. -/
structure UNetGood (c : NetCfg) (dims : List Nat) : Prop extends NetGood c where
  conv : 0 < c.numConv
  chan : ∀ b ∈ c.mid, b.2 = c.depth
  midNe : c.mid ≠ []
  up : c.equivariant = true → 0 < c.numDown →
    c.upBank.M = 2 ∧ ∀ b ∈ c.mid, reachable c.upBank (keysOf c.mid) b.1 = true
  ext : ∀ N ∈ dims, 0 < N ∧ 2 ^ c.numDown ∣ N

/-- closed form of the multi-image at level `i` of the U -/
def lvl (c : NetCfg) (dims : List Nat) (torus : List Bool) (i : Nat) : MI :=
  ⟨midAt c.mid (c.depth * 2 ^ i), dims.map (· / 2 ^ i), c.D, torus⟩

theorem midAt_depth (c : NetCfg) (h : ∀ b ∈ c.mid, b.2 = c.depth) : midAt c.mid c.depth = c.mid := by
  unfold midAt
  conv => rhs; rw [← List.map_id c.mid]
  apply List.map_congr_left
  intro b hb
  rw [← h b hb]; rfl

theorem lvl_zero (c : NetCfg) (dims : List Nat) (torus : List Bool) (h : ∀ b ∈ c.mid, b.2 = c.depth) :
    lvl c dims torus 0 = ⟨c.mid, dims, c.D, torus⟩ := by
  simp [lvl, midAt_depth c h]

theorem levelBlocks_exact (c : NetCfg) (hc : 0 < c.numConv) (inK outK : Sig) (d : List Nat) (D : Nat)
    (T : List Bool)
    (hfirst : convBlockOut (c.block inK outK c.kernel c.act c.groupNorm false) ⟨inK, d, D, T⟩ =
      some ⟨outK, d, D, T⟩)
    (hrest : convBlockOut (c.block outK outK c.kernel c.act c.groupNorm false) ⟨outK, d, D, T⟩ =
      some ⟨outK, d, D, T⟩) :
    chainM (c.levelBlocks inK outK) ⟨inK, d, D, T⟩ = some ⟨outK, d, D, T⟩ := by
  unfold NetCfg.levelBlocks
  obtain ⟨n, hn⟩ : ∃ n, c.numConv = n + 1 := ⟨c.numConv - 1, by omega⟩
  rw [hn, List.range_succ_eq_map, List.map_cons, chainM_cons]
  simp only [if_true]
  rw [hfirst, Option.bind_some]
  apply chainM_fixed
  intro f hf
  rw [List.map_map] at hf
  obtain ⟨i, _, rfl⟩ := List.mem_map.1 hf
  simp only [Function.comp_apply, Nat.succ_eq_add_one, Nat.add_eq_zero_iff, Nat.succ_ne_self, and_false,
    if_false]
  exact hrest

/-- a level block between `midAt mid a` and `midAt mid b` -/
theorem levelBlock_exact (c : NetCfg) (hg : NetGood c) (a b : Nat) (d : List Nat) (D : Nat) (T : List Bool) :
    convBlockOut (c.block (midAt c.mid a) (midAt c.mid b) c.kernel c.act c.groupNorm false)
      ⟨midAt c.mid a, d, D, T⟩ = some ⟨midAt c.mid b, d, D, T⟩ := by
  have := midBlock_exact c hg (midAt c.mid a) (midAt c.mid b) c.kernel c.act c.groupNorm false 1 d D T
    (fun g => g) (keysOf_midAt _ _) (keysOf_midAt _ _) (by simp)
    (fun he => by
      obtain ⟨m, hm⟩ := (hg.cnv he).2.1
      exact ⟨⟨a, by simp [hm, midAt]⟩, ⟨b, by simp [hm, midAt]⟩, (hg.cnv he).2.2.2⟩)
  exact this

theorem levelChain_exact (c : NetCfg) (hg : NetGood c) (hc : 0 < c.numConv) (a b : Nat) (d : List Nat)
    (D : Nat) (T : List Bool) :
    chainM (c.levelBlocks (midAt c.mid a) (midAt c.mid b)) ⟨midAt c.mid a, d, D, T⟩ =
      some ⟨midAt c.mid b, d, D, T⟩ :=
  levelBlocks_exact c hc _ _ d D T (levelBlock_exact c hg a b d D T) (levelBlock_exact c hg b b d D T)

theorem downStep (c : NetCfg) (hg : NetGood c) (hc : 0 < c.numConv) (dims : List Nat) (torus : List Bool)
    (i : Nat) :
    chainM (c.levelBlocks (midAt c.mid (c.depth * 2 ^ (i + 1 - 1))) (midAt c.mid (c.depth * 2 ^ (i + 1))))
      (poolOut 2 (lvl c dims torus i)) = some (lvl c dims torus (i + 1)) := by
  have h := levelChain_exact c hg hc (c.depth * 2 ^ i) (c.depth * 2 ^ (i + 1))
    ((dims.map (· / 2 ^ i)).map (· / 2)) c.D torus
  have e : (dims.map (· / 2 ^ i)).map (· / 2) = dims.map (· / 2 ^ (i + 1)) := by
    rw [List.map_map]; apply List.map_congr_left; intro N _; exact div_pow_succ N i
  simp only [Nat.add_sub_cancel, poolOut, lvl]
  rw [h, e]

theorem downLoop_exact (c : NetCfg) (hg : NetGood c) (hc : 0 < c.numConv) (dims : List Nat)
    (torus : List Bool) (n i : Nat) (res : List MI) :
    downLoop c (List.range' (i + 1) n) (lvl c dims torus i) res =
      some (lvl c dims torus (i + n), res ++ (List.range' i n).map (lvl c dims torus)) := by
  induction n generalizing i res with
  | zero => simp [downLoop]
  | succ n ih =>
    rw [List.range'_succ, downLoop, downStep c hg hc, Option.bind_some, ih (i + 1)]
    rw [List.range'_succ (s := i) (n := n), List.map_cons]
    simp [Nat.add_assoc, Nat.add_comm 1 n]


theorem zip_replicate_map {α β γ} (l : List α) (a : β) (f : α × β → γ) :
    (l.zip (List.replicate l.length a)).map f = l.map (fun x => f (x, a)) := by
  induction l with
  | nil => rfl
  | cons x l ih => simp [List.replicate_succ, ih]

theorem mid_conv_shape (c : NetCfg) (hg : NetGood c) (he : c.equivariant = false) (a : Nat) :
    midAt c.mid a = [((0, 0), a)] := by
  obtain ⟨m, hm⟩ := (hg.cnv he).2.1
  simp [hm, midAt]

/-- the up-convolution from level `n+1` restores the extents of level `n` -/
theorem upConv_exact (c : NetCfg) (dims : List Nat) (hg : UNetGood c dims) (torus : List Bool)
    (hd : dims.length = c.D) (n : Nat) (hn : n < c.numDown) :
    makeConvOut (c.upConv n) (lvl c dims torus (n + 1)) =
      some ⟨midAt c.mid (c.depth * 2 ^ n), dims.map (· / 2 ^ n), c.D, torus⟩ := by
  have hlev : ∀ N ∈ dims, 0 < N / 2 ^ n ∧ (N / 2 ^ n) % 2 = 0 := fun N hN =>
    level_even N c.numDown n (hg.ext N hN).2 (hg.ext N hN).1 hn
  unfold makeConvOut
  by_cases he : c.equivariant = true
  · obtain ⟨hM, hreach⟩ := hg.up he (by omega)
    simp only [NetCfg.upConv, he, Bool.true_or, if_true, blockConv, lvl]
    unfold convContract
    have h1 : (midAt c.mid (c.depth * 2 ^ (n + 1))).all
        (blockOk c.upBank (midAt c.mid (c.depth * 2 ^ (n + 1))) (midAt c.mid (c.depth * 2 ^ n))) = true := by
      rw [List.all_eq_true]; intro b hb; unfold blockOk; simp [hb]
    simp only [h1, if_true, convDims, hM]
    rw [convContractSig_eq_out _ _ (keysNodup_congr (keysOf_midAt _ _) hg.midNodup),
      convContractOut_eq_self]
    · congr 2
      rw [List.map_map]
      apply List.map_congr_left
      intro N hN
      simp only [Function.comp_apply]
      rw [← div_pow_succ]
      exact unet_extent_roundtrip _ (hlev N hN).1 (hlev N hN).2
    · intro b hb
      obtain ⟨b', hb', h⟩ := mem_keys_mid (c := c) (keysOf_midAt _ _) hb
      rw [keysOf_midAt, ← h]; exact hreach b' hb'
  · have he' : c.equivariant = false := by simpa using he
    have hok : conventionalConvOk (c.upConv n) = true := by
      unfold conventionalConvOk
      simp only [NetCfg.upConv, he', Bool.false_eq_true, if_false, mid_conv_shape c hg.toNetGood he']
      have hb := (hg.cnv he').2.2.1
      rcases hb with h | h | h <;> simp [h]
    simp only [hok, Bool.or_true, if_true]
    unfold blockConv conventionalDims
    simp only [NetCfg.upConv, he', Bool.false_eq_true, if_false, lvl, mid_conv_shape c hg.toNetGood he']
    simp only [List.all_cons, List.all_nil, BEq.rfl, Bool.and_self, if_true, List.map_cons, List.map_nil]
    congr 2
    have hl : (dims.map (· / 2 ^ (n + 1))).length = c.D := by simp [hd]
    rw [← hl, zip_replicate_map, List.map_map]
    apply List.map_congr_left
    intro N hN
    simp only [Function.comp_apply]
    rw [← div_pow_succ]
    exact unet_extent_roundtrip_conventional _ (hlev N hN).1 (hlev N hN).2

theorem concat_level (c : NetCfg) (dims : List Nat) (hg : UNetGood c dims) (torus : List Bool) (n : Nat) :
    concat ⟨midAt c.mid (c.depth * 2 ^ n), dims.map (· / 2 ^ n), c.D, torus⟩ (lvl c dims torus n) =
      some ⟨midAt c.mid (c.depth * 2 ^ (n + 1)), dims.map (· / 2 ^ n), c.D, torus⟩ := by
  unfold concat lvl
  have hne : (midAt c.mid (c.depth * 2 ^ n)).isEmpty = false := by
    have := hg.midNe
    cases hm : c.mid with
    | nil => exact absurd hm this
    | cons b l => simp [midAt]
  simp only [and_self, if_true, hne, Bool.false_eq_true, if_false]
  rw [concatSig_midAt c.mid hg.midNodup]
  congr 3
  rw [Nat.pow_succ, ← Nat.mul_assoc, Nat.mul_two]

theorem upLoop_exact (c : NetCfg) (dims : List Nat) (hg : UNetGood c dims) (torus : List Bool)
    (hd : dims.length = c.D) (n : Nat) (hn : n ≤ c.numDown) :
    upLoop c (List.zip (List.range n).reverse ((List.range n).map (lvl c dims torus)).reverse)
      (lvl c dims torus n) = some (lvl c dims torus 0) := by
  induction n with
  | zero => simp [upLoop]
  | succ n ih =>
    rw [List.range_succ, List.map_append, List.reverse_append, List.reverse_append]
    simp only [List.map_cons, List.map_nil, List.reverse_cons, List.reverse_nil, List.nil_append,
      List.singleton_append, List.zip_cons_cons]
    rw [upLoop, upConv_exact c dims hg torus hd n (by omega), Option.bind_some, concat_level c dims hg,
      Option.bind_some, levelChain_exact c hg.toNetGood hg.conv, Option.bind_some]
    exact ih (by omega)


/-- the final `decode = make_conv(mid_keys, output_keys, …)` -/
theorem decode_exact (c : NetCfg) (hg : NetGood c) (dims : List Nat) (torus : List Bool) :
    makeConvOut { (c.block c.mid c.effOut c.kernel false false false) with act := false }
      ⟨c.mid, dims, c.D, torus⟩ = some ⟨finalSig c, dims, c.D, torus⟩ := by
  unfold makeConvOut
  by_cases he : c.equivariant = true
  · simp only [NetCfg.block, he, Bool.true_or, if_true, blockConv, finalSig, NetCfg.effOut]
    exact convContract_exact _ _ _ _ 1 hg.outNodup (hg.eqv he).1 _ _ _
  · have he' : c.equivariant = false := by simpa using he
    obtain ⟨m, hm⟩ := (hg.cnv he').2.1
    obtain ⟨ks, hk, hkl, hkp⟩ := (hg.cnv he').2.2.2
    have hok : conventionalConvOk
        { (c.block c.mid c.effOut c.kernel false false false) with act := false } = true := by
      unfold conventionalConvOk
      simp only [NetCfg.block, NetCfg.effOut, he', Bool.false_eq_true, if_false, hm, hk, hkl, BEq.rfl,
        Bool.true_and, Bool.and_true]
      have h1 : ks.all (fun x => decide (x > 0)) = true := by
        rw [List.all_eq_true]; intro n hn; simpa using hkp n hn
      rcases (hg.cnv he').2.2.1 with h | h | h <;> simp [h, h1]
    simp only [hok, Bool.or_true, if_true]
    unfold blockConv conventionalDims
    simp only [NetCfg.block, NetCfg.effOut, he', Bool.false_eq_true, if_false, hm, finalSig]
    simp

/-- `UNet`, both modes: for every configuration of `UNetGood` (any depth, number of levels,
`num_conv`, bias setting, activation, group norm, flags, extents divisible by `2^num_downsamples`)
the model maps an input with the declared signature to exactly the predicted signature and the
input's extents, `D`, flags. -/
theorem unet_outSig (c : NetCfg) (dims : List Nat) (hg : UNetGood c dims) (torus : List Bool)
    (hd : dims.length = c.D) (ht : torus.length = c.D) :
    mkUNet c ⟨c.inSig, dims, c.D, torus⟩ = some ⟨expectedSig c, dims, c.D, torus⟩ := by
  have hn := hg.toNetGood
  unfold mkUNet
  have hc : decide (c.numConv > 0) = true := by simpa using hg.conv
  simp only [inputOk_of c hn _ dims torus hd ht, hc, Bool.and_self, if_true]
  rw [enter_eq c hn]
  have hemb : chainM (c.levelBlocks c.effIn c.mid) ⟨c.effIn, dims, c.D, torus⟩ =
      some ⟨c.mid, dims, c.D, torus⟩ :=
    levelBlocks_exact c hg.conv _ _ dims c.D torus
      (firstBlock_exact c hn c.kernel c.act c.groupNorm dims c.D torus (fun g => g)
        (fun he => (hn.cnv he).2.2.2))
      (midBlock_exact c hn c.mid c.mid c.kernel c.act c.groupNorm false 1 dims c.D torus (fun g => g)
        rfl rfl (fun _ => rfl) (fun he => ⟨(hn.cnv he).2.1, (hn.cnv he).2.1, (hn.cnv he).2.2.2⟩))
  rw [hemb, Option.bind_some, ← lvl_zero c dims torus hg.chan,
    downLoop_exact c hn hg.conv dims torus c.numDown 0 [], Option.bind_some]
  simp only [Nat.zero_add, List.nil_append]
  rw [← List.range_eq_range', upLoop_exact c dims hg torus hd c.numDown (Nat.le_refl _), Option.bind_some,
    lvl_zero c dims torus hg.chan, decode_exact c hn, Option.bind_some, leave_eq c hn]

end GinjaxVerif.C20
