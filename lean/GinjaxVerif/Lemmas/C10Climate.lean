import GinjaxVerif.Lemmas.C10Dict
import GinjaxVerif.Lemmas.C10Index

/-!
# C10 — `Climate1D.to1d` read key by key (independent of the insertion order), and the way back
-/
namespace GinjaxVerif.C10

variable {R : Type} {B : Type}

/-- only the three types `Climate1D` supports -/
def Allowed (x : List (Key × B)) : Prop := ∀ key ∈ keysOf x, allowedKey key = true

theorem allowedKey_iff (key : Key) :
    allowedKey key = true ↔ key = (0, 0) ∨ key = (0, 1) ∨ key = (1, 0) := by
  simp [allowedKey, Bool.or_eq_true, or_assoc]

theorem gather_eq_nil_of_not_mem (d : List (Key × B)) (key : Key) (h : key ∉ keysOf d) :
    gather key d = [] := by
  induction d with
  | nil => rfl
  | cons kb rest ih =>
    simp only [keysOf_cons, List.mem_cons, not_or] at h
    rw [gather_cons, if_neg (fun e => h.1 e.symm), ih h.2]

/-- with unique keys, the entries under a key are the looked-up one -/
theorem gather_eq_toList (d : List (Key × B)) (hnd : (keysOf d).Nodup) (key : Key) :
    gather key d = (dLookup d key).toList := by
  induction d with
  | nil => rfl
  | cons kb rest ih =>
    obtain ⟨k, b⟩ := kb
    simp only [keysOf_cons, List.nodup_cons] at hnd
    rw [gather_cons, dLookup_cons]
    by_cases hk : k = key
    · subst hk
      simp [gather_eq_nil_of_not_mem rest k hnd.1]
    · simp [hk, ih hnd.2]

/-! ### the `append` calls of `to1d`, gathered per 1-D key -/

theorem gather_callsLegacy_k0 (T : Nat) (l : MI2 R) (hnd : (keysOf l).Nodup)
    (hk0 : ∀ kb ∈ l, kb.1.1 = 0) (key : Key) :
    gather key (callsLegacy T l) = (dLookup l key).toList.map fun b => expandComp T b 0 := by
  unfold callsLegacy
  rw [gather_flatMap_single l _ key key hnd]
  · cases hl : dLookup l key with
    | none => rfl
    | some b =>
      have hmem := dLookup_mem l key b hl
      have hz : key.1 = 0 := hk0 _ hmem
      simp [hz, gather_cons]
  · intro kb hkb hne
    simp [hk0 kb hkb, gather_cons, hne]

theorem gather_callsLegacy_vec (T : Nat) (l : MI2 R) (hnd : (keysOf l).Nodup)
    (hk1 : ∀ kb ∈ l, kb.1 = (1, 0)) (key : Key) :
    gather key (callsLegacy T l) =
      if key = (0, 0) then (dLookup l (1, 0)).toList.map fun b => expandComp T b 1
      else if key = (0, 1) then (dLookup l (1, 0)).toList.map fun b => expandComp T b 0
      else [] := by
  unfold callsLegacy
  rw [gather_flatMap_single l _ (1, 0) key hnd]
  · cases hl : dLookup l (1, 0) with
    | none => simp
    | some b =>
      by_cases h0 : key = (0, 0)
      · subst h0; simp [gather_cons]
      · by_cases h1 : key = (0, 1)
        · subst h1; simp [gather_cons]
        · have h0' : ¬ (0, 0) = key := fun e => h0 e.symm
          have h1' : ¬ (0, 1) = key := fun e => h1 e.symm
          simp [gather_cons, h0, h1, h0', h1']
  · intro kb hkb hne
    exact absurd (hk1 kb hkb) hne

/-- **`to1d` (repaired) is independent of the insertion order**: what is appended under a 1-D key
is determined by the blocks looked up by key. -/
theorem gather_callsRepaired (T : Nat) (dyn : MI2 R) (hnd : (keysOf dyn).Nodup) (hal : Allowed dyn)
    (key : Key) :
    gather key (callsRepaired T dyn) =
      (if key.1 = 0 then (dLookup dyn key).toList.map fun b => expandComp T b 0 else []) ++
      (if key = (0, 0) then (dLookup dyn (1, 0)).toList.map fun b => expandComp T b 1
       else if key = (0, 1) then (dLookup dyn (1, 0)).toList.map fun b => expandComp T b 0
       else []) := by
  unfold callsRepaired sortByK
  have hflat : ∀ (a b : MI2 R), callsLegacy T (a ++ b) = callsLegacy T a ++ callsLegacy T b := by
    intro a b; simp [callsLegacy]
  rw [hflat, gather_append]
  congr 1
  · rw [gather_callsLegacy_k0 T _ ((keysOf_filter_sublist _ dyn).nodup hnd)
      (fun kb hkb => by simpa using (List.mem_filter.mp hkb).2)]
    have := dLookup_filter (fun k : Key => decide (k.1 = 0)) dyn key
    simp only [decide_eq_true_eq] at this
    rw [this]
    by_cases hk : key.1 = 0 <;> simp [hk]
  · have hk1 : ∀ kb ∈ dyn.filter (fun kb => ¬ kb.1.1 = 0), kb.1 = (1, 0) := by
      intro kb hkb
      obtain ⟨hm, hne⟩ := List.mem_filter.mp hkb
      have hak := (allowedKey_iff kb.1).mp (hal kb.1 (List.mem_map.mpr ⟨kb, hm, rfl⟩))
      simp only [decide_not, Bool.not_eq_eq_eq_not, Bool.not_true, decide_eq_false_iff_not] at hne
      rcases hak with h | h | h
      · rw [h] at hne; exact absurd rfl hne
      · rw [h] at hne; exact absurd rfl hne
      · exact h
    rw [gather_callsLegacy_vec T _ ((keysOf_filter_sublist _ dyn).nodup hnd) hk1]
    have := dLookup_filter (fun k : Key => !decide (k.1 = 0)) dyn (1, 0)
    simp only [decide_not] at this ⊢
    rw [this]
    simp

/-! ### `concat_inverse` -/

theorem splitDyn_keys_sublist (cf : List (Key × Nat)) (x : MI2 R) :
    (keysOf (splitDyn cf x)).Sublist (keysOf x) :=
  keysOf_filterMap_key_sublist (fun key b => dynPart (constSize cf key) b) x

theorem splitConst_keys_sublist (cf : List (Key × Nat)) (x : MI2 R) :
    (keysOf (splitConst cf x)).Sublist (keysOf x) :=
  keysOf_filterMap_key_sublist (fun key b => constPart (constSize cf key) b) x

theorem dLookup_splitDyn (cf : List (Key × Nat)) (x : MI2 R) (hnd : (keysOf x).Nodup) (key : Key) :
    dLookup (splitDyn cf x) key = (dLookup x key).bind (dynPart (constSize cf key)) :=
  dLookup_filterMap_key (fun key b => dynPart (constSize cf key) b) x hnd key

theorem dLookup_splitConst (cf : List (Key × Nat)) (x : MI2 R) (hnd : (keysOf x).Nodup) (key : Key) :
    dLookup (splitConst cf x) key = (dLookup x key).bind (constPart (constSize cf key)) :=
  dLookup_filterMap_key (fun key b => constPart (constSize cf key) b) x hnd key

theorem Allowed.of_sublist {x : List (Key × B)} {A : Type} {x' : List (Key × A)}
    (h : (keysOf x').Sublist (keysOf x)) (hal : Allowed x) : Allowed x' :=
  fun key hk => hal key (h.subset hk)

theorem splitDyn_nil (x : MI2 R) : splitDyn [] x = x := by
  unfold splitDyn
  induction x with
  | nil => rfl
  | cons kb rest _ => simp [constSize, dynPart]

theorem splitConst_nil (x : MI2 R) : splitConst [] x = [] := by
  unfold splitConst
  induction x with
  | nil => rfl
  | cons kb rest _ => simp [constSize, constPart]

/-! ### `to1d`, read at one key -/

theorem catAll_nil (cat : B → B → B) (o : Option B) : catAll cat o [] = o := by
  cases o <;> rfl

/-- the 1-D block under `key`: the band layout of the dynamic sources, then the constant rows -/
theorem dLookup_climateTo1d (cfg : ClimCfg) (x : MI2 R) (hnd : (keysOf x).Nodup) (key : Key) :
    dLookup (climateTo1d cfg x) key =
      catAll cat1
        ((catAll catE none (gather key (callsRepaired cfg.past (splitDyn cfg.constFields x)))).map
          (bandE cfg.past cfg.ny))
        ((dLookup (splitConst cfg.constFields x) key).toList.map (bandC cfg.ny)) := by
  unfold climateTo1d to1dWith
  simp only
  rw [dLookup_appendAll, dLookup_map_val (fun _ e => bandE cfg.past cfg.ny e), dLookup_appendAll,
    gather_map_val key (fun _ b => bandC cfg.ny b),
    gather_eq_toList _ ((splitConst_keys_sublist _ x).nodup hnd)]
  rfl

end GinjaxVerif.C10
