import GinjaxVerif.Lemmas.C03Enum

/-!
# C03 — the character of the filter representation

`tr ρ(g) = Σ_{j : g•j = j} ε(g,j) = #fixedpixels(g) · tr(g)^k · det(g)^p`, with the model's
executable `fixedPixels`, `SPerm.trace`, `SPerm.det`.
-/

namespace GinjaxVerif.C03
open scoped BigOperators

variable {d M k : ℕ}

theorem length_filter_eq_sum {α : Type*} (q : α → Bool) (l : List α) :
    ((l.filter q).length : ℤ) = (l.map fun x => if q x then (1 : ℤ) else 0).sum := by
  induction l with
  | nil => simp
  | cons a l ih =>
    by_cases h : q a = true
    · simp [h, ih]; ring
    · simp [h, ih]

/-- the pixel part of the model's `srcIdx` -/
def pullPx (g : SPerm d) (x : Fin d → Fin M) : Fin d → Fin M :=
  fun b => flipAx (g.sgn (g.inv b)) (x (g.inv b))

theorem srcIdx_px (g : SPerm d) (j : FIdx d M k) : (srcIdx g j).px = pullPx g j.px := rfl

/-- the model's fixed-pixel count as a sum over all pixels -/
theorem fixedPixels_eq_sum (g : SP d) :
    (fixedPixels g.toCore M : ℤ)
      = ∑ x : Fin d → Fin M, if pullPx g.toCore x = x then 1 else 0 := by
  unfold fixedPixels
  rw [length_filter_eq_sum, sum_allFuns]
  refine Finset.sum_congr rfl fun x _ => ?_
  change (if funEqb (pullPx g.toCore x) x = true then (1 : ℤ) else 0) = _
  by_cases h : pullPx g.toCore x = x
  · rw [if_pos h, if_pos ((funEqb_iff _ _).mpr h)]
  · rw [if_neg h, if_neg (fun h' => h ((funEqb_iff _ _).mp h'))]

theorem smul_eq_self_iff (g : SP d) (j : FIdx d M k) :
    g • j = j ↔ pullPx g.toCore j.px = j.px ∧ ∀ i, g.σ (j.tn i) = j.tn i := by
  rw [smul_eq_iff_eq_inv_smul, ← srcIdx_toCore, eq_comm]
  constructor
  · intro h
    refine ⟨congrArg FIdx.px h, fun i => ?_⟩
    have := congrFun (congrArg FIdx.tn h) i
    simpa [srcIdx, SP.toCore] using this
  · rintro ⟨h1, h2⟩
    refine FIdx.ext' h1 ?_
    funext i
    simpa [srcIdx, SP.toCore] using h2 i

theorem trace_eq_sum_fixed (g : SP d) :
    g.trace = ∑ a, if g.σ a = a then (g.s a : ℤ) else 0 := by
  unfold SP.trace SP.entry
  refine Finset.sum_congr rfl fun a _ => ?_
  by_cases h : g.σ a = a
  · rw [if_pos h, if_pos h.symm]
  · rw [if_neg h, if_neg (fun h' => h h'.symm)]

/-- **the character of the filter representation**: the signed number of fixed indices of `g` is
`#fixedpixels(g) · tr(g)^k · det(g)^p` -/
theorem sum_fixed_eps (p : ℕ) (g : SP d) :
    (∑ j : FIdx d M k, if g • j = j then ((epsU p g j : ℤˣ) : ℤ) else 0)
      = (fixedPixels g.toCore M : ℤ) * g.toCore.trace ^ k * g.toCore.det ^ p := by
  have hterm : ∀ j : FIdx d M k, (if g • j = j then ((epsU p g j : ℤˣ) : ℤ) else 0)
      = (if pullPx g.toCore j.px = j.px then 1 else 0) * g.toCore.det ^ p *
          ∏ i, (if g.σ (j.tn i) = j.tn i then (g.s (j.tn i) : ℤ) else 0) := by
    intro j
    by_cases hfix : g • j = j
    · obtain ⟨h1, h2⟩ := (smul_eq_self_iff g j).mp hfix
      rw [if_pos hfix, if_pos h1]
      unfold epsU
      rw [hfix, det_toCore]
      push_cast
      rw [one_mul]
      congr 1
      exact Finset.prod_congr rfl fun i _ => by rw [if_pos (h2 i)]
    · rw [if_neg hfix]
      by_cases h1 : pullPx g.toCore j.px = j.px
      · have : ¬ ∀ i, g.σ (j.tn i) = j.tn i := fun h2 => hfix ((smul_eq_self_iff g j).mpr ⟨h1, h2⟩)
        push Not at this
        obtain ⟨i, hi⟩ := this
        rw [Finset.prod_eq_zero (Finset.mem_univ i) (by rw [if_neg hi]), mul_zero]
      · rw [if_neg h1]; ring
  simp only [hterm]
  rw [← Fintype.sum_equiv FIdx.equivProd.symm
    (fun x : (Fin d → Fin M) × (Fin k → Fin d) =>
      (if pullPx g.toCore x.1 = x.1 then (1 : ℤ) else 0) * g.toCore.det ^ p *
        ∏ i, (if g.σ (x.2 i) = x.2 i then (g.s (x.2 i) : ℤ) else 0)) _ (fun x => rfl)]
  rw [Fintype.sum_prod_type]
  have key : ∀ x : Fin d → Fin M,
      (∑ y : Fin k → Fin d, (if pullPx g.toCore x = x then (1 : ℤ) else 0) * g.toCore.det ^ p *
          ∏ i, (if g.σ (y i) = y i then (g.s (y i) : ℤ) else 0))
        = (if pullPx g.toCore x = x then (1 : ℤ) else 0) * g.toCore.det ^ p * g.trace ^ k := by
    intro x
    rw [← Finset.mul_sum, trace_eq_sum_fixed, Fintype.sum_pow]
  rw [Finset.sum_congr rfl (fun x _ => key x), ← Finset.sum_mul, ← Finset.sum_mul,
    fixedPixels_eq_sum, trace_toCore]
  ring

end GinjaxVerif.C03
