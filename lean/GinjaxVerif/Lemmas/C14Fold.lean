import GinjaxVerif.Lemmas.C14
import Mathlib.Algebra.BigOperators.Group.List.Basic

/-!
# C14 — reading a left fold of `concat` (channel offsets), and `norm` of a sub-array
-/
namespace GinjaxVerif.C14
open GinjaxVerif.ND GinjaxVerif.ND.NDArr GinjaxVerif.C13

variable {α : Type} [Inhabited α]

/-- **where a channel lands in a loop of `append`s / `concatenate`s.**  All arrays have shape
`P ++ n :: Q` (their own extent `n` on the concatenation axis `|P|`).  In the left fold of
`concat |P|` over `first :: xs = pre ++ x :: post`, entry `j` of `x` along that axis sits at
`offset + j`, where `offset` is the sum of the extents of the arrays in `pre` — and the other
coordinates `p`, `q` are untouched. -/
theorem get_foldl_concat {P Q : List Nat} (first : NDArr α) (xs : List (NDArr α))
    (hall : ∀ y ∈ first :: xs, y.WF ∧ ∃ n, y.shape = P ++ n :: Q)
    (pre post : List (NDArr α)) (x : NDArr α) (hx : first :: xs = pre ++ x :: post) {n : Nat}
    (hxs : x.shape = P ++ n :: Q) {p q : List Nat} {j : Nat} (hp : InRange P p) (hq : InRange Q q)
    (hj : j < n) :
    (xs.foldl (concat P.length) first).get
        (p ++ ((pre.map fun y => y.shape.getD P.length 0).sum + j) :: q)
      = x.get (p ++ j :: q) := by
  have hpl := hp.length_eq
  -- start the fold from an empty accumulator
  obtain ⟨hfw, n0, hfs⟩ := hall first List.mem_cons_self
  let E : NDArr α := ⟨P ++ 0 :: Q, #[]⟩
  have hEs : E.shape = P ++ 0 :: Q := rfl
  have haxf : P.length < first.shape.length := by rw [hfs]; simp
  have hstart : xs.foldl (concat P.length) first = (first :: xs).foldl (concat P.length) E := by
    rw [List.foldl_cons, concat_empty_left (e := E) (x := first) (by rw [hEs, hfs, set_mid]) hfw haxf]
  rw [hstart, hx, List.foldl_append]
  set acc := pre.foldl (concat P.length) E with hacc
  have haxE : P.length < E.shape.length := by rw [hEs]; simp
  set off := (pre.map fun y => y.shape.getD P.length 0).sum with hoff
  have haccs : acc.shape = P ++ off :: Q := by
    rw [hacc, shape_foldl_concat _ haxE, hEs, getD_mid, set_mid, Nat.zero_add]
  have haxa : P.length < acc.shape.length := by rw [haccs]; simp
  have hna : acc.shape.getD P.length 0 = off := by rw [haccs, getD_mid]
  have hxw : x.WF := (hall x (by rw [hx]; simp)).1
  have hslice := slice_foldl_next (x := x) post (acc := acc) (ax := P.length) (m := n) hxw haxa
    (by rw [hxs, haccs, set_mid])
  rw [hna] at hslice
  have hir : InRange (((x :: post).foldl (concat P.length) acc).shape.set P.length (off + n - off))
      (p ++ j :: q) := by
    rw [shape_foldl_concat _ haxa, haccs, List.set_set, set_mid, inRange_append hpl]
    exact ⟨hp, by omega, hq⟩
  have := get_slice P.length off (off + n) ((x :: post).foldl (concat P.length) acc) hir
  rw [hslice, ← hpl, getD_mid, set_mid] at this
  rw [this, Nat.add_comm, hpl]

/-- the fold `jnp.concatenate([data, exp], axis=-1)` is the fold of `concat` on the last axis -/
theorem foldl_concatLast {ax : Nat} (xs : List (NDArr α)) (x : NDArr α)
    (hx : x.shape.length = ax + 1) : xs.foldl concatLast x = xs.foldl (concat ax) x := by
  induction xs generalizing x with
  | nil => rfl
  | cons y ys ih =>
    rw [List.foldl_cons, List.foldl_cons]
    have : concatLast x y = concat ax x y := by
      unfold concatLast
      rw [hx, normAxis_neg_one (by omega)]
      rfl
    rw [this]
    exact ih _ (by rw [length_shape_concat]; exact hx)

/-! ## `geom.norm` on a block and on one image of the block -/

omit [Inhabited α] in
theorem wf_reshapeInfer_block {x : NDArr α} {pre q : List Nat} (hx : x.WF)
    (hsh : x.shape = pre ++ q) (hpos : 0 < pre.prod) :
    x.reshapeInfer pre [] = x.reshape (pre ++ [q.prod]) ∧ (x.reshape (pre ++ [q.prod])).WF := by
  have hinf : inferDim x.shape.prod pre [] = q.prod := by
    have := inferDim_block pre q [] (by simpa using hpos)
    simpa [hsh] using this
  refine ⟨by unfold reshapeInfer; rw [hinf], wf_reshape hx ?_⟩
  rw [hsh]; simp [List.prod_append]

theorem shape_normBlock {x : NDArr α} {pre q : List Nat} (g : List α → α)
    (hsh : x.shape = pre ++ q) (hpos : 0 < pre.prod) :
    (normBlock pre.length g x).shape = pre := by
  unfold normBlock reduceLast
  have : x.shape.take pre.length = pre := by rw [hsh, List.take_left]
  rw [this, shape_ofFn]
  have hinf : inferDim x.shape.prod pre [] = q.prod := by
    have := inferDim_block pre q [] (by simpa using hpos)
    simpa [hsh] using this
  unfold reshapeInfer
  rw [hinf, shape_reshape]
  simp

theorem wf_normBlock (n : Nat) (g : List α → α) (x : NDArr α) : (normBlock n g x).WF :=
  wf_ofFn _ _

/-- entry `i` of `norm(|pre|, x)`: the per-pixel function applied to the flattened trailing axes
`q` of `x` at `i` -/
theorem get_normBlock {x : NDArr α} {pre q : List Nat} (g : List α → α)
    (hsh : x.shape = pre ++ q) (hpos : 0 < pre.prod) {i : List Nat} (hi : InRange pre i) :
    (normBlock pre.length g x).get i
      = g ((List.range q.prod).map fun j => x.get (i ++ unravel q j)) := by
  have hil := hi.length_eq
  have htake : x.shape.take pre.length = pre := by rw [hsh, List.take_left]
  have hinf : inferDim x.shape.prod pre [] = q.prod := by
    have := inferDim_block pre q [] (by simpa using hpos)
    simpa [hsh] using this
  have hre : x.reshapeInfer pre [] = x.reshape (pre ++ [q.prod]) := by
    unfold reshapeInfer; rw [hinf]
  unfold normBlock reduceLast
  rw [htake, hre, shape_reshape, get_ofFn _ (by simpa using hi)]
  congr 1
  have hlast : (pre ++ [q.prod]).getLastD 0 = q.prod := by simp
  rw [hlast]
  apply List.map_congr_left
  intro j hj
  have hjlt : j < q.prod := by simpa using hj
  have hun := unravel_inRange hjlt
  have := get_reshape_merge x (s₁ := pre) (i₁ := i) q (unravel q j) [] []
    (by simpa using hsh) hil hun.length_eq
  rw [ravel_unravel hjlt] at this
  simpa using this

/-- **`norm` has no cross-talk**: the block norm at the leading multi-index `li` is the
single-image norm (`idx_shift = D`) of the image at `li`, for any number and sizes of leading axes
`lead`, any spatial shape `S`, any trailing (tensor) axes `T`, any per-pixel function `g`. -/
theorem normBlock_subAt {x : NDArr α} {lead S T : List Nat} (g : List α → α)
    (hsh : x.shape = lead ++ (S ++ T)) (hpos : 0 < lead.prod * S.prod) {li : List Nat}
    (hli : InRange lead li) :
    subAt li (normBlock (lead.length + S.length) g x) = normBlock S.length g (subAt li x) := by
  have hl := hli.length_eq
  have hsh2 : x.shape = (lead ++ S) ++ T := by rw [hsh, List.append_assoc]
  have hpos2 : 0 < (lead ++ S).prod := by simpa [List.prod_append] using hpos
  have hSpos : 0 < S.prod := by
    rcases Nat.eq_zero_or_pos S.prod with h | h
    · simp [h] at hpos
    · exact h
  have hlen : lead.length + S.length = (lead ++ S).length := by simp
  have hsub : (subAt li x).shape = S ++ T := by rw [shape_subAt, hsh, drop_lead hl]
  have h1 : (normBlock (lead.length + S.length) g x).shape = lead ++ S := by
    rw [hlen]; exact shape_normBlock g hsh2 hpos2
  have h2 : (normBlock S.length g (subAt li x)).shape = S := shape_normBlock g hsub hSpos
  apply ext_get _ (wf_subAt _ _) (wf_normBlock _ _ _)
  · intro i hi
    have hi2 : InRange S i := by simpa [h1, drop_lead hl] using hi
    rw [get_subAt _ _ (by rw [h1, drop_lead hl]; exact hi2), hlen,
      get_normBlock g hsh2 hpos2 ((inRange_append hl).2 ⟨hli, hi2⟩),
      get_normBlock g hsub hSpos hi2]
    congr 1
    apply List.map_congr_left
    intro j hj
    have hjlt : j < T.prod := by simpa using hj
    have hun := unravel_inRange hjlt
    rw [get_subAt _ _ (by
      rw [hsh, drop_lead hl, inRange_append hi2.length_eq]; exact ⟨hi2, hun⟩), List.append_assoc]
  · rw [shape_subAt, h1, drop_lead hl, h2]

end GinjaxVerif.C14
